(* Tonal/KeyProofs.v — lemmas about the Key/Scale model, for arbitrary scales. *)
From Isobar Require Import Base.Prelude Tonal.Key.
From Coq Require Import Sorting.Sorted.

(** ** sorting *)
Lemma insert_in x y l : In y (insert x l) <-> y = x \/ In y l.
Proof.
  induction l as [|a r IH]; simpl.
  - intuition.
  - destruct (x <=? a); simpl; rewrite ?IH; intuition.
Qed.

Lemma isort_in x l : In x (isort l) <-> In x l.
Proof.
  induction l as [|a r IH]; simpl; [tauto|]. rewrite insert_in, IH. intuition.
Qed.

Lemma insert_sorted x l : StronglySorted Z.le l -> StronglySorted Z.le (insert x l).
Proof.
  induction 1 as [|a r Hs IH Ha]; simpl.
  - constructor; constructor.
  - destruct (x <=? a) eqn:E.
    + constructor; [constructor; assumption|].
      constructor; [lia|]. rewrite Forall_forall in *. intros z Hz. specialize (Ha z Hz). lia.
    + constructor; [assumption|]. rewrite Forall_forall in *. intros z Hz.
      apply insert_in in Hz as [->|Hz]; [lia|auto].
Qed.

Lemma isort_sorted l : StronglySorted Z.le (isort l).
Proof. induction l; simpl; [constructor|apply insert_sorted; assumption]. Qed.

Lemma ss_hd_le l : StronglySorted Z.le l -> forall z, In z l -> hd 0 l <= z.
Proof.
  intros H z Hz. destruct H as [|a r Hs Ha]; [contradiction|]. simpl.
  destruct Hz as [->|Hz]; [lia|]. rewrite Forall_forall in Ha. auto.
Qed.

Lemma ss_last_ge l : StronglySorted Z.le l -> forall z, In z l -> z <= last l 0.
Proof.
  induction 1 as [|a r Hs IH Ha]; intros z Hz; [contradiction|].
  destruct r as [|b r'].
  - simpl in *. destruct Hz as [->|[]]. lia.
  - change (last (a :: b :: r') 0) with (last (b :: r') 0).
    destruct Hz as [->|Hz]; [|auto].
    rewrite Forall_forall in Ha. specialize (Ha b (or_introl eq_refl)).
    specialize (IH b (or_introl eq_refl)). lia.
Qed.

Lemma hd_in (l : list Z) : l <> [] -> In (hd 0 l) l.
Proof. destruct l; simpl; [congruence|auto]. Qed.
Lemma last_in (l : list Z) : l <> [] -> In (last l 0) l.
Proof.
  induction l as [|a r IH]; [congruence|]. intros _. destruct r as [|b r'].
  - simpl; auto.
  - change (last (a :: b :: r') 0) with (last (b :: r') 0). right. apply IH. discriminate.
Qed.

(** ** the argmin loop *)
Lemma argmin_some p l : forall b0,
  exists b, fold_left (argmin_step p) l (Some (b0, Z.abs (b0 - p))) = Some (b, Z.abs (b - p))
    /\ (b = b0 \/ In b l)
    /\ Z.abs (b - p) <= Z.abs (b0 - p)
    /\ forall c, In c l -> Z.abs (b - p) <= Z.abs (c - p).
Proof.
  induction l as [|c r IH]; intros b0; simpl.
  - exists b0. repeat split; auto; try lia; intros c [].
  - destruct (Z.abs (c - p) <? Z.abs (b0 - p)) eqn:E.
    + destruct (IH c) as [b [Hf [Hin [Hle Hall]]]]. exists b. rewrite Hf. repeat split.
      * destruct Hin as [->|Hin]; auto.
      * lia.
      * intros c' [<-|Hc']; [lia|auto].
    + destruct (IH b0) as [b [Hf [Hin [Hle Hall]]]]. exists b. rewrite Hf. repeat split.
      * destruct Hin as [->|Hin]; auto.
      * lia.
      * intros c' [<-|Hc']; [lia|auto].
Qed.

Lemma argmin_cons p c l :
  exists b, fold_left (argmin_step p) (c :: l) None = Some (b, Z.abs (b - p))
    /\ In b (c :: l) /\ forall c', In c' (c :: l) -> Z.abs (b - p) <= Z.abs (c' - p).
Proof.
  simpl. destruct (argmin_some p l c) as [b [Hf [Hin [Hle Hall]]]].
  exists b. split; [exact Hf|]. split.
  - destruct Hin as [->|Hin]; auto.
  - intros c' [<-|Hc']; [lia|auto].
Qed.

(** ** keys *)
Section KeyFacts.
  Variable k : key.
  Local Notation o := (osize (kscale k)).
  Hypothesis Ho : 0 < o.
  Hypothesis Hne : semis (kscale k) <> [].

  Lemma ks_in z : In z (key_semitones k) <-> exists n, In n (semis (kscale k)) /\ z = (n + tonic k) mod o.
  Proof.
    unfold key_semitones. rewrite isort_in, in_map_iff. split; intros [n [A B]]; exists n; split; auto.
  Qed.

  Lemma ks_range z : In z (key_semitones k) -> 0 <= z < o.
  Proof. intros H. apply ks_in in H as [n [_ ->]]. apply Z.mod_pos_bound. exact Ho. Qed.

  Lemma ks_nonempty : key_semitones k <> [].
  Proof.
    destruct (semis (kscale k)) as [|a r] eqn:E; [congruence|].
    intros H. assert (In ((a + tonic k) mod o) (key_semitones k)) as Hin.
    { apply ks_in. exists a. rewrite E. simpl; auto. }
    rewrite H in Hin. exact Hin.
  Qed.

  Lemma contains_iff x : key_contains k x = true <-> In (x mod o) (key_semitones k).
  Proof.
    unfold key_contains. rewrite existsb_exists. split.
    - intros [z [Hz E]]. apply Z.eqb_eq in E. rewrite E. exact Hz.
    - intros H. exists (x mod o). split; [exact H|apply Z.eqb_refl].
  Qed.

  (* membership depends only on the pitch class *)
  Lemma contains_shift x m : key_contains k (x + m * o) = key_contains k x.
  Proof. unfold key_contains. rewrite Z.mod_add by lia. reflexivity. Qed.

  Lemma contains_small z : In z (key_semitones k) -> key_contains k z = true.
  Proof.
    intros H. apply contains_iff. rewrite Z.mod_small; [exact H|apply ks_range; exact H].
  Qed.

  Lemma nearest_in_key_id x : key_contains k x = true -> nearest_note k x = x.
  Proof. intros H. unfold nearest_note. rewrite H. reflexivity. Qed.

  Lemma nearest_spec x :
    key_contains k (nearest_note k x) = true /\
    forall y, key_contains k y = true -> Z.abs (nearest_note k x - x) <= Z.abs (y - x).
  Proof.
    unfold nearest_note. destruct (key_contains k x) eqn:Hx.
    { split; [exact Hx|]. intros; lia. }
    unfold nearest_candidates.
    set (ss := key_semitones k).
    set (p := x mod o). set (q := x / o).
    assert (Hss : StronglySorted Z.le ss) by apply isort_sorted.
    assert (Hm0 : In (hd 0 ss) ss) by (apply hd_in, ks_nonempty).
    assert (Hm1 : In (last ss 0) ss) by (apply last_in, ks_nonempty).
    set (cands := ss ++ [hd 0 ss + o; last ss 0 - o]).
    assert (Hc : exists c r, cands = c :: r).
    { unfold cands. destruct ss as [|c r]; [contradiction|]. exists c. eexists. reflexivity. }
    destruct Hc as [c [r Ec]]. rewrite Ec.
    destruct (argmin_cons p c r) as [b [Hf [Hin Hmin]]]. rewrite Hf. rewrite <- Ec in Hin, Hmin.
    pose proof (ks_range _ Hm0) as R0. pose proof (ks_range _ Hm1) as R1.
    assert (Hp : 0 <= p < o) by (apply Z.mod_pos_bound; exact Ho).
    assert (Hxq : x = q * o + p) by (unfold p, q; pose proof (Z.div_mod x o); lia).
    assert (Hlo_in : In (last ss 0 - o) cands) by (apply in_or_app; right; simpl; auto).
    assert (Hhi_in : In (hd 0 ss + o) cands) by (apply in_or_app; right; simpl; auto).
    split.
    - (* the result is in key *)
      rewrite Z.add_comm, contains_shift.
      apply in_app_or in Hin as [Hin|[<-|[<-|[]]]].
      + apply contains_small. exact Hin.
      + replace (hd 0 ss + o) with (hd 0 ss + 1 * o) by lia.
        rewrite contains_shift. apply contains_small. exact Hm0.
      + replace (last ss 0 - o) with (last ss 0 + (-1) * o) by lia.
        rewrite contains_shift. apply contains_small. exact Hm1.
    - (* nothing in key is strictly closer *)
      intros y Hy. apply contains_iff in Hy.
      replace (q * o + b - x) with (b - p) by lia.
      set (y' := y - q * o).
      assert (Hy' : In (y' mod o) ss).
      { unfold y'. replace (y - q * o) with (y + (- q) * o) by lia. rewrite Z.mod_add by lia. exact Hy. }
      replace (y - x) with (y' - p) by (unfold y'; lia).
      set (s := y' mod o) in *. set (m := y' / o).
      assert (Ey : y' = o * m + s) by (unfold s, m; apply Z.div_mod; lia).
      pose proof (ks_range _ Hy') as Rs.
      pose proof (ss_hd_le _ Hss _ Hy') as Hlo. pose proof (ss_last_ge _ Hss _ Hy') as Hhi.
      destruct (Z.compare_spec m 0) as [Hm|Hm|Hm].
      + (* same octave *)
        assert (In y' cands) as Hc.
        { apply in_or_app. left. replace y' with s by (subst m; lia). exact Hy'. }
        apply Hmin in Hc. lia.
      + (* below *)
        apply Hmin in Hlo_in. assert (o * m <= - o) by nia. lia.
      + (* above *)
        apply Hmin in Hhi_in. assert (o <= o * m) by nia. lia.
  Qed.
End KeyFacts.

(** ** degrees *)
Lemma ascb_nth l : ascb l = true ->
  forall i j, (i < j < length l)%nat -> nth i l 0 < nth j l 0.
Proof.
  induction l as [|a r IH]; intros H i j Hij; [simpl in Hij; lia|].
  assert (Hr : ascb r = true).
  { simpl in H. destruct r; [reflexivity|]. apply andb_true_iff in H as [_ H]. exact H. }
  assert (Hstep : forall n, (n < length r)%nat -> a < nth n r 0).
  { intros n. induction n as [|n IHn]; intros Hn.
    - destruct r as [|b r']; [simpl in Hn; lia|]. simpl in H. apply andb_true_iff in H as [H _]. simpl. lia.
    - specialize (IH Hr n (S n)). assert (a < nth n r 0) by (apply IHn; lia).
      assert (nth n r 0 < nth (S n) r 0) by (apply IH; lia). lia. }
  destruct i as [|i]; destruct j as [|j]; try lia; simpl in *.
  - apply Hstep. lia.
  - apply IH; [exact Hr|lia].
Qed.

Lemma last_nth (l : list Z) : last l 0 = nth (length l - 1) l 0.
Proof.
  induction l as [|a r IH]; [reflexivity|]. destruct r as [|b r'].
  - reflexivity.
  - change (last (a :: b :: r') 0) with (last (b :: r') 0). rewrite IH. simpl.
    rewrite Nat.sub_0_r. reflexivity.
Qed.

Section ScaleFacts.
  Variable s : scale.
  Hypothesis Hv : valid_scale s = true.

  Lemma valid_facts :
    semis s <> [] /\ 0 <= nth 0 (semis s) 0 /\ ascb (semis s) = true /\ last (semis s) 0 < osize s.
  Proof.
    unfold valid_scale in Hv. destruct (semis s) as [|a r] eqn:E; [discriminate|].
    apply andb_true_iff in Hv as [H1 H3]. apply andb_true_iff in H1 as [H1 H2].
    split; [discriminate|]. simpl nth. split; [lia|]. split; [exact H2|lia].
  Qed.

  Lemma valid_len : 0 < slen s.
  Proof. destruct valid_facts as [H _]. unfold slen. destruct (semis s); [congruence|simpl; lia]. Qed.

  Lemma valid_osize : 0 < osize s.
  Proof.
    destruct valid_facts as [Hne [H0 [Ha Hl]]]. rewrite last_nth in Hl.
    pose proof valid_len as Hlen. unfold slen in Hlen.
    destruct (Nat.eq_dec (length (semis s) - 1) 0) as [E|E].
    - rewrite E in Hl. lia.
    - pose proof (ascb_nth _ Ha 0%nat (length (semis s) - 1)%nat). lia.
  Qed.

  (* consecutive degrees are strictly increasing *)
  Lemma scale_get_lt d : scale_get s d < scale_get s (d + 1).
  Proof.
    destruct valid_facts as [Hne [H0 [Ha Hl]]]. pose proof valid_len as Hn. pose proof valid_osize as Ho.
    unfold scale_get, znth. set (n := slen s) in *.
    pose proof (Z.mod_pos_bound d n Hn) as B1.
    assert (Hlen : Z.of_nat (length (semis s)) = n) by reflexivity.
    destruct (Z.eq_dec (d mod n) (n - 1)) as [Er|Er].
    - destruct (divmod_succ_wrap d n Hn Er) as [-> ->].
      rewrite last_nth in Hl. rewrite Er.
      replace (Z.to_nat (n - 1)) with (length (semis s) - 1)%nat by lia.
      change (Z.to_nat 0) with 0%nat. nia.
    - destruct (divmod_succ_nowrap d n Hn Er) as [-> ->].
      pose proof (ascb_nth _ Ha (Z.to_nat (d mod n)) (Z.to_nat (d mod n + 1)) ltac:(lia)). lia.
  Qed.

  Lemma scale_get_mono d e : d < e -> scale_get s d < scale_get s e.
  Proof.
    intros H. replace e with (d + 1 + Z.of_nat (Z.to_nat (e - d - 1))) by lia.
    induction (Z.to_nat (e - d - 1)) as [|m IH].
    - rewrite Z.add_0_r. apply scale_get_lt.
    - pose proof (scale_get_lt (d + 1 + Z.of_nat m)).
      replace (d + 1 + Z.of_nat (S m)) with (d + 1 + Z.of_nat m + 1) by lia. lia.
  Qed.
End ScaleFacts.

Lemma key_get_in_key k d : valid_scale (kscale k) = true -> key_contains k (key_get k d) = true.
Proof.
  intros Hv. pose proof (valid_osize _ Hv) as Ho. pose proof (valid_len _ Hv) as Hn.
  apply (contains_iff k). apply (ks_in k).
  unfold key_get, scale_get, znth. set (n := slen (kscale k)) in *.
  exists (nth (Z.to_nat (d mod n)) (semis (kscale k)) 0). split.
  - apply nth_In. pose proof (Z.mod_pos_bound d n Hn). unfold n, slen in *. lia.
  - set (o := osize (kscale k)).
    replace (o * (d / n) + nth (Z.to_nat (d mod n)) (semis (kscale k)) 0 + tonic k)
      with (nth (Z.to_nat (d mod n)) (semis (kscale k)) 0 + tonic k + (d / n) * o) by lia.
    apply Z.mod_add. lia.
Qed.

(* Props/C08Src.v — property C08 for the __next__ bodies of the operator classes GENERATED FROM THE SOURCE TEXT of
   isobar/pattern/core.py (harness/gen_tables_step.py -> Generated/TablesStep.v: src_PAdd_next ... src_PLessThanOrEqual_next,
   src_PAnd_next, src_PAbs_next; tie lemmas in Pat/StepSrc.v; docs/TRANSLATOR.md).  src_outputs: the results of n calls of
   next(), each executed as the source text of the class defines it (src_step dispatches PBinOp o to the body translated
   from the class of operator o).  A change of an operator class's body (another operator, swapped operands, a different
   treatment of rests) breaks Pat/StepSrc.v and with it these theorems: a broken proof obligation of C08.
   Lemmas: Pat/OpSrc.v. *)
From Isobar Require Import Base.Prelude Pat.Val Pat.Syntax Pat.Step Pat.StepProofs Pat.Dunder Pat.OpProofs
  Generated.TablesStep Pat.StepSrc Pat.OpSrc.
From Coq Require Import String QArith.
Open Scope Z_scope.

Section AnyOperators.
  Variable binop : op -> val -> val -> outcome val.     (* the operator semantics: arbitrary *)
  Variable LMAX : nat.
  Notation V := (value binop LMAX).
  Notation A := (anext binop LMAX).

  (* the engine's clause for each operator class is the body of that class as written in core.py, the Python operator
     of the body read as the operator [binop o] of the class *)
  Theorem C08_src_operator_bodies : forall f a b,
    step binop LMAX (S f) (PBinOp OAdd a b) = src_PAdd_next binop V A f a b /\
    step binop LMAX (S f) (PBinOp OSub a b) = src_PSub_next binop V A f a b /\
    step binop LMAX (S f) (PBinOp OMul a b) = src_PMul_next binop V A f a b /\
    step binop LMAX (S f) (PBinOp ODiv a b) = src_PDiv_next binop V A f a b /\
    step binop LMAX (S f) (PBinOp OFloorDiv a b) = src_PFloorDiv_next binop V A f a b /\
    step binop LMAX (S f) (PBinOp OMod a b) = src_PMod_next binop V A f a b /\
    step binop LMAX (S f) (PBinOp OPow a b) = src_PPow_next binop V A f a b /\
    step binop LMAX (S f) (PBinOp OLShift a b) = src_PLShift_next binop V A f a b /\
    step binop LMAX (S f) (PBinOp ORShift a b) = src_PRShift_next binop V A f a b /\
    step binop LMAX (S f) (PBinOp OEq a b) = src_PEqual_next binop V A f a b /\
    step binop LMAX (S f) (PBinOp ONe a b) = src_PNotEqual_next binop V A f a b /\
    step binop LMAX (S f) (PBinOp OGt a b) = src_PGreaterThan_next binop V A f a b /\
    step binop LMAX (S f) (PBinOp OGe a b) = src_PGreaterThanOrEqual_next binop V A f a b /\
    step binop LMAX (S f) (PBinOp OLt a b) = src_PLessThan_next binop V A f a b /\
    step binop LMAX (S f) (PBinOp OLe a b) = src_PLessThanOrEqual_next binop V A f a b /\
    step binop LMAX (S f) (PAnd a b) = src_PAnd_next Val.binop V A f a b /\
    step binop LMAX (S f) (PAbs a) = src_PAbs_next Val.binop V A f a.
  Proof. exact (operator_bodies_src binop LMAX). Qed.

  (* element-wise law for each of the 15 PBinOp classes, every call executed as the source defines it *)
  Theorem C08_src_lift : forall o f n a b vas vbs a' b',
    vals binop LMAX f n a = Some (vas, a') -> vals binop LMAX f n b = Some (vbs, b') ->
    src_outputs binop LMAX (S f) n (PBinOp o a b) = (zipw (elem binop o) vas vbs, PBinOp o a' b').
  Proof. exact (src_binop_lift binop LMAX). Qed.

  Theorem C08_src_and : forall f n a b vas vbs a' b',
    vals binop LMAX f n a = Some (vas, a') -> vals binop LMAX f n b = Some (vbs, b') ->
    src_outputs binop LMAX (S f) n (PAnd a b)
      = (zipw (fun x y => Yield (VBool (truthy x && truthy y))) vas vbs, PAnd a' b').
  Proof. exact (src_and_lift binop LMAX). Qed.
End AnyOperators.
Print Assumptions C08_src_operator_bodies.
Print Assumptions C08_src_lift.
Print Assumptions C08_src_and.

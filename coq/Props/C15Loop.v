(* Props/C15Loop.v - property C15 for a LOOPED sequence of control points: the event stream visits the points of a cycle
   e :: r for S n passes (PSequence([d0, ..., dm], n) over event dicts, PLoop, or a dict of PSequence(values, n)).
   Statement: every pass is the same segment curve.  [pass_curve cospi tpb mode e r] is the list of messages of ONE pass - all
   segments of the cycle including the one that leads from its last point back to its first - and has one message per tick of
   the cycle (C15_loop_pass_length); the trace of the track is the first point, then that list n times, then the last pass
   without the closing segment (C15_loop_trace); hence the message due j ticks into pass k is the j-th message of
   [pass_curve], for EVERY k (C15_loop_every_pass), and any two passes agree tick for tick (C15_loop_passes_agree).  That the
   values inside a pass follow v_i + (v_next - v_i) f(j / D) and hit each point is C15_curve / C15_hits_points (Props/C15.v),
   which hold for every stream and therefore for the looped one.
   Count limit: none (None, or 0 = unlimited); a limit cuts the looped stream to a prefix (C15_count).
   NOT expressible here: the model is functional - the second pass consists of the same VALUES as the first; that the
   implementation may have written into the dict OBJECTS it was handed on the first pass (aliasing) is outside the model and
   is covered by the correspondence check + oracle (stratum "supply" of harness/c15.py). *)
From Isobar Require Import Base.Prelude Sched.Interp Sched.InterpProofs Sched.InterpLoop Sched.InterpLoopProofs.
From Coq Require Import QArith String.
Local Open Scope Z_scope.
Local Notation length := List.length (only parsing).

(** One pass has exactly one message per tick of the cycle. *)
Theorem C15_loop_pass_length : forall cospi tpb mode e r,
  length (pass_curve cospi tpb mode e r) = ticks_of tpb (e :: r).
Proof. intros. apply pass_curve_length. Qed.
Print Assumptions C15_loop_pass_length.

(** The trace of the looped track: the first point, n times the curve of one pass, the last pass up to its last point,
    then silence. *)
Theorem C15_loop_trace : forall cospi tpb mode maxc e r n,
  (maxc = None \/ maxc = Some 0) ->
  all_num (looped (e :: r) (S n)) -> chain_ok_list (looped (e :: r) (S n)) = true ->
  forall m, run cospi tpb mode maxc m (init (looped (e :: r) (S n)))
            = pad m (first_list tpb (looped (e :: r) (S n))
                     ++ List.concat (repeat (pass_curve cospi tpb mode e r) n) ++ all_segs cospi tpb mode e r).
Proof. intros cospi tpb mode maxc e r n Hm Hn Hok m. exact (run_looped cospi tpb mode maxc e r n Hm Hn Hok m). Qed.
Print Assumptions C15_loop_trace.

(** The message sent j ticks into pass k (tick 1 + k * P + j of the track, P = ticks of the cycle) is the j-th message of
    the one-pass curve - the same for every pass k. *)
Theorem C15_loop_every_pass : forall cospi tpb mode maxc e r n k j m,
  (maxc = None \/ maxc = Some 0) ->
  all_num (looped (e :: r) (S n)) -> chain_ok_list (looped (e :: r) (S n)) = true ->
  let P := ticks_of tpb (e :: r) in
  (1 <= P)%nat -> (k < n)%nat -> (j < P)%nat -> (pass_tick P k j < m)%nat ->
  nth (pass_tick P k j) (run cospi tpb mode maxc m (init (looped (e :: r) (S n)))) ONone
  = nth j (pass_curve cospi tpb mode e r) ONone.
Proof.
  intros cospi tpb mode maxc e r n k j m Hm Hn Hok P HP Hk Hj Hlt.
  exact (looped_pass_msg cospi tpb mode maxc e r n k j m Hm Hn Hok HP Hk Hj Hlt).
Qed.
Print Assumptions C15_loop_every_pass.

(** Any two passes agree tick for tick. *)
Theorem C15_loop_passes_agree : forall cospi tpb mode maxc e r n k k' j m,
  (maxc = None \/ maxc = Some 0) ->
  all_num (looped (e :: r) (S n)) -> chain_ok_list (looped (e :: r) (S n)) = true ->
  let P := ticks_of tpb (e :: r) in
  (1 <= P)%nat -> (k < n)%nat -> (k' < n)%nat -> (j < P)%nat -> (pass_tick P k j < m)%nat -> (pass_tick P k' j < m)%nat ->
  nth (pass_tick P k j) (run cospi tpb mode maxc m (init (looped (e :: r) (S n)))) ONone
  = nth (pass_tick P k' j) (run cospi tpb mode maxc m (init (looped (e :: r) (S n)))) ONone.
Proof.
  intros cospi tpb mode maxc e r n k k' j m Hm Hn Hok P HP Hk Hk' Hj Hlt Hlt'. subst P.
  rewrite (looped_pass_msg cospi tpb mode maxc e r n k j m Hm Hn Hok HP Hk Hj Hlt).
  rewrite (looped_pass_msg cospi tpb mode maxc e r n k' j m Hm Hn Hok HP Hk' Hj Hlt').
  reflexivity.
Qed.
Print Assumptions C15_loop_passes_agree.

(** Non-vacuity: the cycle of seeded/C15-m/demo.py (10 for 1/2 beat, 50 for 1 beat, 20.5 for 1/2 beat at 8 ticks per beat),
    three passes: the hypotheses hold, a pass has 16 ticks, message 5 of the first pass (tick 6: segment 50 -> 20.5, 2/8 of the
    way) carries 42.625, and so do message 5 of the second and of the third pass (ticks 22 and 38); the track ends on its last
    point on tick 44. *)
Definition val_of (o : outcome) : option Q := match o with OCall _ (VNum v) _ => Some (Qred v) | _ => None end.
Definition lpt (v : Q) (d : Q) : event :=
  mkEvent true d [("control"%string, VNum 7); ("value"%string, VNum v); ("channel"%string, VNum 3)].
Definition lcos0 (x : Q) : Q := if Qeq_bool x 1 then (-1)%Q else 0%Q.

Example C15_loop_nonvacuous :
  let e := lpt 10 (1 # 2) in let r := [lpt 50 1; lpt (41 # 2) (1 # 2)] in
  all_num (looped (e :: r) 3) /\ chain_ok_list (looped (e :: r) 3) = true
  /\ ticks_of 8 (e :: r) = 16%nat
  /\ length (looped (e :: r) 3) = 9%nat
  /\ pass_tick 16 1 5 = 22%nat /\ pass_tick 16 2 5 = 38%nat
  /\ val_of (nth 6 (run lcos0 8 Linear None 60 (init (looped (e :: r) 3))) ONone) = Some (341 # 8)
  /\ Qeq_bool (341 # 8) (50 + ((41 # 2) - 50) * (2 # 8)) = true
  /\ nth 22 (run lcos0 8 Linear None 60 (init (looped (e :: r) 3))) ONone = nth 6 (run lcos0 8 Linear None 60 (init (looped (e :: r) 3))) ONone
  /\ nth 38 (run lcos0 8 Linear None 60 (init (looped (e :: r) 3))) ONone = nth 6 (run lcos0 8 Linear None 60 (init (looped (e :: r) 3))) ONone
  /\ val_of (nth 44 (run lcos0 8 Linear None 60 (init (looped (e :: r) 3))) ONone) = Some (41 # 2)
  /\ nth 45 (run lcos0 8 Linear None 60 (init (looped (e :: r) 3))) ONone = ONone.
Proof.
  cbv zeta. split; [repeat constructor|]. vm_compute. repeat split.
Qed.

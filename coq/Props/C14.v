(* Props/C14.v — property C14: clock domains stay in ratio; the internal clock holds tempo under delay.
   Only the property theorems live here; each is closed by lemmas of Clock/MultiplierProofs.v, Clock/ClockRunProofs.v,
   Clock/MidiInProofs.v.  Models: Clock/Multiplier.v (make_clock_multiplier, Timeline.tick device-clock phase),
   Clock/ClockRun.v (Clock.run), Clock/MidiIn.v (MidiInputDevice._callback).
   Rates are positive integers below 10^8 (S8); time is exact (integers in an arbitrary unit). *)
From Coq Require Import QArith.
From Isobar Require Import Base.Prelude Clock.Multiplier Clock.MultiplierProofs
     Clock.ClockRun Clock.ClockRunProofs Clock.MidiIn Clock.MidiInProofs
    Clock.MidiInTimed Clock.MidiInTimedProofs Clock.MidiInWired Clock.MidiInWiredProofs Clock.Reconfig Clock.ReconfigProofs.
Local Open Scope Z_scope.

Lemma multiple_of_some a b : 0 < a -> 0 < b -> multiple_of (Some a) (Some b) = (a, b).
Proof.
  intros Ha Hb. unfold multiple_of, truthy.
  destruct (a =? 0) eqn:E1; [lia|]. destruct (b =? 0) eqn:E2; [lia|]. reflexivity.
Qed.

(** ---------------------------------------------------------------------------------------------
    1. Rate conversion (make_clock_multiplier)
    --------------------------------------------------------------------------------------------- *)

(* the code's `round(pos, 8) > 1` is the exact comparison `pos > 1` for every input rate below 10^8 *)
Theorem C14_round8_exact : forall U p, 0 < U < S8 -> (r8 U p >? S8) = (p >? U).
Proof. exact r8_gt_iff. Qed.
Print Assumptions C14_round8_exact.

(* No cumulative error: after n timeline ticks the device has received exactly ceil(n * out / in) ticks,
   for every accepted pair and every n. *)
Theorem C14_ratio_total : forall a b n, 0 < a < S8 -> 0 < b < S8 -> refuses a b = false ->
  let got := total_ticks (mult_run (Some a) (Some b) MNew n) in
  got = owed a b (Z.of_nat n) /\ b * (got - 1) < Z.of_nat n * a <= b * got.
Proof.
  intros a b n Ha Hb R got. unfold got.
  rewrite (mult_run_spec (Some a) (Some b) a b) by (cbn; try lia; try (apply multiple_of_some; lia); exact R).
  rewrite total_spec_run, owed_0 by lia. replace (0 + Z.of_nat n) with (Z.of_nat n) by lia.
  split; [lia|]. replace (owed a b (Z.of_nat n) - 0) with (owed a b (Z.of_nat n)) by lia. apply owed_ceil. lia.
Qed.
Print Assumptions C14_ratio_total.

(* out | in, m = in/out: timeline tick i (0-based) carries one device tick when m | i and none otherwise — the first on
   tick 0, then every m-th, evenly spaced for ever; after n ticks ceil(n/m) have been made. *)
Theorem C14_ratio_div : forall a m n, 0 < a -> 0 < m -> m * a < S8 ->
  let run := mult_run (Some a) (Some (m * a)) MNew n in
  (forall i, (i < n)%nat -> nth_error run i = Some (MTicks (if Z.of_nat i mod m =? 0 then 1 else 0)))
  /\ total_ticks run = (Z.of_nat n + m - 1) / m.
Proof.
  intros a m n Ha Hm Hb run.
  assert (Hb0 : 0 < m * a) by nia. assert (Ha8 : a < S8) by nia.
  assert (R : refuses a (m * a) = false).
  { rewrite refuses_iff by lia. rewrite Z.mod_mul by lia. rewrite Z.eqb_refl, orb_true_r. reflexivity. }
  unfold run. rewrite (mult_run_spec (Some a) (Some (m * a)) a (m * a)) by (cbn; try lia; try (apply multiple_of_some; lia); exact R).
  split.
  - intros i Hi. rewrite nth_spec_run by exact Hi. rewrite owed_div_step by lia.
    replace (0 + Z.of_nat i) with (Z.of_nat i) by lia. reflexivity.
  - rewrite total_spec_run, owed_0, owed_div by lia. replace (0 + Z.of_nat n) with (Z.of_nat n) by lia. lia.
Qed.
Print Assumptions C14_ratio_div.

(* hence every window of m consecutive timeline ticks holds exactly one device tick *)
Corollary C14_ratio_div_window : forall m j, 0 < m -> (j + m + m - 1) / m - (j + m - 1) / m = 1.
Proof.
  intros m j Hm. replace (j + m + m - 1) with (j + m - 1 + 1 * m) by ring. rewrite Z.div_add by lia. lia.
Qed.

(* in | out, k = out/in: every timeline tick carries exactly k device ticks *)
Theorem C14_ratio_mul : forall b k n, 0 < b < S8 -> 0 < k -> k * b < S8 ->
  forall r, In r (mult_run (Some (k * b)) (Some b) MNew n) -> r = MTicks k.
Proof.
  intros b k n Hb Hk Hkb r Hin.
  assert (Ha : 0 < k * b) by nia.
  assert (R : refuses (k * b) b = false).
  { rewrite refuses_iff by lia. rewrite Z.mod_mul by lia. rewrite Z.eqb_refl. reflexivity. }
  rewrite (mult_run_spec (Some (k * b)) (Some b) (k * b) b) in Hin by (cbn; try lia; try (apply multiple_of_some; lia); exact R).
  apply In_nth_error in Hin. destruct Hin as [i Hi].
  assert (Hlt : (i < n)%nat).
  { apply nth_error_Some_lt in Hi || idtac.
    assert (L : forall n j, List.length (spec_run (k * b) b j n) = n) by (induction n0; intros; cbn; auto).
    rewrite <- (L n 0). apply nth_error_Some. congruence. }
  rewrite nth_spec_run in Hi by exact Hlt. inversion Hi. rewrite !owed_mul by lia. f_equal. ring.
Qed.
Print Assumptions C14_ratio_mul.

(* any window of `in` timeline ticks (= one beat) holds exactly `out` device ticks: in particular a 24-PPQN MIDI clock
   output receives exactly 24 pulses per beat on every timeline rate that 24 divides or that divides 24 *)
Theorem C14_beat_window : forall a b j, 0 < a < S8 -> 0 < b < S8 -> refuses a b = false ->
  total_ticks (mult_run (Some a) (Some b) MNew (j + Z.to_nat b))
  - total_ticks (mult_run (Some a) (Some b) MNew j) = a.
Proof.
  intros a b j Ha Hb R.
  rewrite !(mult_run_spec (Some a) (Some b) a b) by (cbn; try lia; try (apply multiple_of_some; lia); exact R).
  rewrite !total_spec_run. replace (0 + Z.of_nat (j + Z.to_nat b)) with (Z.of_nat j + b) by lia.
  replace (0 + Z.of_nat j) with (Z.of_nat j) by lia.
  pose proof (owed_window a b (Z.of_nat j) ltac:(lia)). lia.
Qed.
Print Assumptions C14_beat_window.

Corollary C14_midi_24 : forall b j, 0 < b < S8 -> (b mod 24 = 0 \/ 24 mod b = 0) ->
  total_ticks (mult_run (Some 24) (Some b) MNew (j + Z.to_nat b))
  - total_ticks (mult_run (Some 24) (Some b) MNew j) = 24.
Proof.
  intros b j Hb D. apply C14_beat_window; [unfold S8; lia | exact Hb |].
  rewrite refuses_iff by lia. destruct D as [D|D]; rewrite D; cbn [Z.eqb]; [rewrite orb_true_r|]; reflexivity.
Qed.
Print Assumptions C14_midi_24.

(* Refusal: a pair is refused exactly when neither rate divides the other; a refused pair raises ClockException on
   the FIRST next() and emits no tick; an accepted pair never raises (and the model never runs out of fuel). *)
Theorem C14_refuse : forall a b, 0 < a < S8 -> 0 < b < S8 ->
  (refuses a b = true <-> (a mod b <> 0 /\ b mod a <> 0))
  /\ (refuses a b = true -> mult_next (Some a) (Some b) MNew = (MClockErr, MDone))
  /\ (refuses a b = false -> forall n r, In r (mult_run (Some a) (Some b) MNew n) -> exists k, r = MTicks k /\ 0 <= k).
Proof.
  intros a b Ha Hb. split; [|split].
  - rewrite refuses_iff by lia. rewrite negb_true_iff, orb_false_iff. split.
    + intros [H1 H2]. split; lia.
    + intros [H1 H2]. split; lia.
  - intros R. unfold mult_next. rewrite multiple_of_some by lia. rewrite R. reflexivity.
  - intros R n r Hin.
    rewrite (mult_run_spec (Some a) (Some b) a b) in Hin by (cbn; try lia; try (apply multiple_of_some; lia); exact R).
    assert (G : forall n j r, In r (spec_run a b j n) -> exists k, r = MTicks k /\ 0 <= k).
    { clear - Ha Hb. induction n as [|n IH]; intros j r H; [destruct H|].
      destruct H as [H|H]; [|eapply IH; exact H].
      eexists. split; [symmetry; exact H|]. pose proof (owed_mono a b j (j + 1)). lia. }
    eapply G. exact Hin.
Qed.
Print Assumptions C14_refuse.

(* a device (or timeline) without a clock rate — None or 0 — gets exactly one tick per timeline tick *)
Theorem C14_device_none : forall out inn n, rate_ok out -> rate_ok inn ->
  truthy out && truthy inn = false ->
  forall r, In r (mult_run out inn MNew n) -> r = MTicks 1.
Proof.
  intros out inn n Ho Hi F r Hin.
  assert (M : multiple_of out inn = (1, 1)).
  { unfold multiple_of. destruct out, inn; try reflexivity. rewrite F. reflexivity. }
  rewrite (mult_run_spec out inn 1 1 Ho Hi M eq_refl) in Hin.
  assert (G : forall n j r, In r (spec_run 1 1 j n) -> r = MTicks 1).
  { clear. induction n as [|n IH]; intros j r H; [destruct H|].
    destruct H as [H|H]; [|eapply IH; exact H].
    rewrite <- H. f_equal. pose proof (owed_mul 1 1 (j + 1) ltac:(lia)). pose proof (owed_mul 1 1 j ltac:(lia)).
    cbn in *. lia. }
  eapply G. exact Hin.
Qed.
Print Assumptions C14_device_none.

(* Timeline.tick: when no multiplier raises, device number k receives exactly the ticks its own multiplier yields,
   whatever the other devices' rates are, the devices are served in order, and each multiplier advances one step *)
Theorem C14_timeline_devices : forall inn ds,
  Forall (dev_accepts inn) ds ->
  (forall d, In d ds -> 0 <= ticks_of (fst (mult_next (d_rate d) inn (d_state d)))) ->
  tl_devices inn 0 ds = (tl_calls_spec inn 0 ds, map (dev_step inn) ds, TLOk)
  /\ forall k d, nth_error ds k = Some d ->
       count_dev (Z.of_nat k) (tl_calls_spec inn 0 ds) = ticks_of (fst (mult_next (d_rate d) inn (d_state d))).
Proof.
  intros inn ds HA HP. split; [apply tl_devices_ok; exact HA|].
  intros k d Hk. pose proof (count_tl_calls inn ds 0 k d Hk HP) as C. replace (0 + Z.of_nat k) with (Z.of_nat k) in C by lia. exact C.
Qed.
Print Assumptions C14_timeline_devices.

(** ---------------------------------------------------------------------------------------------
    2. The internal clock (Clock.run)
    --------------------------------------------------------------------------------------------- *)

(* For a constant tick duration d > 0, start reading t0 and ANY sequence of readings that never goes back (arbitrary
   lateness, stalls of any length, repeated readings): after every wake-up the total number of ticks delivered is
   floor((t - t0) / d) — none dropped, none doubled, lateness caught up — passed through the clock's own rate converter
   (target rate a, clock rate b: ceil(n*a/b) target ticks for n clock ticks; the identity when the rates agree). *)
Theorem C14_catch_up : forall out inn a b d t0 ts,
  rate_ok out -> rate_ok inn -> multiple_of out inn = (a, b) -> refuses a b = false ->
  0 < d -> nondecr t0 ts ->
  clock_run out inn [] d t0 (plain ts) = (map (fun t => owed a b ((t - t0) / d)) ts, COk).
Proof.
  intros out inn a b d t0 ts Ho Hi M R Hd Hs.
  unfold clock_run. rewrite dmin_plain. unfold clock_init.
  change (mkC t0 d d MNew 0) with (P a b t0 d 0 0).
  rewrite (steps_steady out inn a b Ho Hi M R d d Hd ltac:(lia) ts t0 0 0 t0 ltac:(lia) ltac:(lia) Hs).
  f_equal. apply map_ext. intros t.
  destruct (multiple_of_pos _ _ _ _ Ho Hi M) as [Ha Hb]. rewrite owed_0 by lia.
  replace (0 + (t - t0) / d) with ((t - t0) / d) by lia. lia.
Qed.
Print Assumptions C14_catch_up.

(* the usual configuration: the target runs at the clock's rate (a Timeline on its own Clock, or a rate-less target) *)
Corollary C14_catch_up_unit : forall inn d t0 ts, rate_ok inn -> 0 < d -> nondecr t0 ts ->
  clock_run None inn [] d t0 (plain ts) = (map (fun t => (t - t0) / d) ts, COk).
Proof.
  intros inn d t0 ts Hi Hd Hs.
  rewrite (C14_catch_up None inn 1 1 d t0 ts I Hi eq_refl eq_refl Hd Hs).
  f_equal. apply map_ext. intros t. rewrite (owed_mul 1 1) by lia. lia.
Qed.
Print Assumptions C14_catch_up_unit.

(* A tempo change (new tick duration d') made while the clock sleeps, in a state where the last delivered tick had ideal
   time c (anchor c not after the last reading `prev`), j clock ticks and T target ticks so far: from the next wake-up on
   the ticks follow the NEW duration exactly, counted from c — the next tick is due at c + d', the following at
   c + 2d', ... — for any later readings that never go back.  (The old duration d plays no role any more.) *)
Theorem C14_tempo_between : forall out inn a b d d' c j T prev t1 ts,
  rate_ok out -> rate_ok inn -> multiple_of out inn = (a, b) -> refuses a b = false ->
  0 < d' -> 0 <= j -> c <= prev -> nondecr prev (t1 :: ts) ->
  clock_steps out inn [] d' ((t1, Some d') :: plain ts) (P a b c d j T)
  = (map (fun t => T + (owed a b (j + (t - c) / d') - owed a b j)) (t1 :: ts), COk).
Proof.
  intros out inn a b d d' c j T prev t1 ts Ho Hi M R Hd' Hj Hc [H1 Hs].
  cbn [clock_steps].
  rewrite (step_steady out inn a b Ho Hi M R d' d c j T t1 (Some d') Hd' Hj ltac:(lia)) by (cbn; lia). cbv zeta.
  set (K := (t1 - c) / d').
  assert (HK0 : 0 <= K) by (apply Z.div_pos; lia).
  assert (Hrem : c + K * d' <= t1).
  { unfold K. pose proof (Z.div_mod (t1 - c) d' ltac:(lia)). pose proof (Z.mod_pos_bound (t1 - c) d' ltac:(lia)). nia. }
  rewrite (steps_steady out inn a b Ho Hi M R d' d' Hd' ltac:(lia) ts (c + K * d') (j + K) _ t1 ltac:(lia) Hrem Hs).
  cbn [P c_total map]. f_equal. f_equal.
  apply map_ext. intros t.
  replace (t - (c + K * d')) with (t - c + (- K) * d') by ring. rewrite Z.div_add by lia.
  replace (j + K + ((t - c) / d' + - K)) with (j + (t - c) / d') by ring. ring.
Qed.
Print Assumptions C14_tempo_between.

(** ---------------------------------------------------------------------------------------------
    3. External MIDI clock (MidiInputDevice._callback)
    --------------------------------------------------------------------------------------------- *)

(* for ANY message sequence: exactly one clock_target.tick() per 'clock' message, one start()/stop() per
   'start'/'stop', one reset() per 'songpos 0', and nothing else (notes, controllers, other song positions,
   'continue', system messages) reaches the clock target; without a target nothing is called *)
Theorem C14_midi_in : forall ms,
  count_call CTick (midi_in_calls true ms) = count_if is_clock ms
  /\ count_call CStart (midi_in_calls true ms) = count_if is_start ms
  /\ count_call CStop (midi_in_calls true ms) = count_if is_stop ms
  /\ count_call CReset (midi_in_calls true ms) = count_if is_songpos0 ms
  /\ midi_in_calls false ms = [].
Proof.
  intros ms. destruct (calls_counts ms) as [A [B [C D]]]. repeat split; try assumption. apply no_target_no_calls.
Qed.
Print Assumptions C14_midi_in.

(* calls are made message by message, in order *)
Theorem C14_midi_in_order : forall t ms1 ms2,
  midi_in_calls t (ms1 ++ ms2) = midi_in_calls t ms1 ++ midi_in_calls t ms2.
Proof. exact calls_app. Qed.

(* a Timeline clocked by the MIDI input advances by exactly one tick per clock message (position after each message),
   and — without song-position messages — ends count('clock') ticks after where it started *)
Theorem C14_midi_timeline : forall ms ds pos obs,
  midi_tl_run ds pos ms = (obs, TLOk) ->
  map snd obs = positions pos ms
  /\ (no_songpos ms = true -> last (positions pos ms) pos = pos + count_if is_clock ms).
Proof.
  intros ms ds pos obs H. split; [eapply midi_tl_positions; exact H | apply positions_last].
Qed.
Print Assumptions C14_midi_timeline.

(** 3b. ... with the wall clock the callback reads (time.time(), for the tempo estimate) as part of the history.
    `TM t1 t2 m` = message m handled while time.time() returned t1, then t2: ANY integers (microseconds or hours
    apart, equal = time standing still, decreasing = clock set back), any unit, any estimator state. *)

(* whatever the readings: message by message the calls on the clock target are those of the untimed model; hence
   exactly one tick() per 'clock' message, and two histories with the same messages but different timing make the
   same calls *)
Theorem C14_midi_in_timed : forall unit ht s xs,
  map fst (cb_run unit ht s xs) = map (target_calls ht) (map msg_of xs)
  /\ timed_calls unit ht s xs = midi_in_calls ht (map msg_of xs)
  /\ count_call CTick (timed_calls unit true s xs) = count_if is_clock (map msg_of xs)
  /\ timed_calls unit false s xs = [].
Proof.
  intros unit ht s xs. split; [apply cb_run_calls | split; [apply timed_calls_untimed | apply timed_tick_count]].
Qed.
Print Assumptions C14_midi_in_timed.

Theorem C14_midi_in_time_irrelevant : forall u1 u2 ht s1 s2 xs ys,
  map msg_of xs = map msg_of ys ->
  map fst (cb_run u1 ht s1 xs) = map fst (cb_run u2 ht s2 ys).
Proof. exact cb_run_time_irrelevant. Qed.
Print Assumptions C14_midi_in_time_irrelevant.

(* the estimate (`MidiInputDevice.tempo`): on a fresh device the first 'clock' arms the estimator; if every later
   'clock' follows the previous one after exactly d > 0 units, every estimate from the second 'clock' on is exactly
   2.5 * unit / d beats per minute (24 clocks per beat), whatever other messages are interleaved *)
Theorem C14_midi_tempo_steady : forall pre unit ht d t0 t0' xs,
  0 <= unit -> 0 < d -> no_clock pre = true ->
  intervals_within d d t0 xs ->
  Forall (fun oe => exists e, oe = Some e /\ (e == tick_estimate unit d)%Q)
         (tl (clock_estimates (pre ++ TM t0 t0' Clock :: xs) (cb_run unit ht ts0 (pre ++ TM t0 t0' Clock :: xs)))).
Proof. exact est_steady_fresh. Qed.
Print Assumptions C14_midi_tempo_steady.

(* if every interval between consecutive 'clock' messages lies in [lo, hi] (0 < lo), every estimate lies between the
   tempi of the slowest and of the fastest interval: one odd interval cannot throw the estimate out of that range *)
Theorem C14_midi_tempo_bounded : forall xs unit ht lo hi l s,
  0 <= unit -> 0 < lo <= hi ->
  intervals_within lo hi l xs ->
  last_clock s = Some l ->
  est_within (tick_estimate unit hi) (tick_estimate unit lo) (est s) ->
  Forall (est_is_within (tick_estimate unit hi) (tick_estimate unit lo))
         (clock_estimates xs (cb_run unit ht s xs)).
Proof. exact est_bounded. Qed.
Print Assumptions C14_midi_tempo_bounded.

(** 3c. ... with the device WIRED to a real Timeline (`Timeline(clock_source=midi_in)`): the callback composed with the
    Timeline's reaction, including the calls the Timeline makes back on the device while reacting — Timeline.stop()
    calls clock_source.stop(), Timeline.start() runs clock_source.run() — and user-level timeline.stop() / start() /
    reset() calls between two messages.  Histories: ANY list of such events, from any state. *)

(* for every history on which no device rate is refused: the number of Timeline.tick() calls after each event is the
   number of 'clock' messages so far (one tick per clock message, whatever stop / start / song-position messages and
   user-level calls lie in between), the position is rewound only by 'songpos 0' / reset(), and at the end exactly
   count('clock') ticks have been made *)
Theorem C14_midi_wired_ticks : forall evs unit w obs wf,
  wired_run unit w evs = (obs, wf, TLOk) ->
  map o_ticks obs = tick_counts (w_ticks w) evs
  /\ map o_pos obs = wpositions (w_pos w) evs
  /\ w_ticks wf = w_ticks w + Z.of_nat (count_clock_ev evs)
  /\ last (tick_counts (w_ticks w) evs) (w_ticks w) = w_ticks w + Z.of_nat (count_clock_ev evs).
Proof.
  intros evs unit w obs wf H. destruct (wired_run_spec evs unit w obs wf H) as [A [B [C _]]].
  repeat split; try assumption. apply tick_counts_last.
Qed.
Print Assumptions C14_midi_wired_ticks.

(* the output devices: the k-th 'clock' message carries exactly the device ticks of the k-th tick of an uninterrupted
   timeline at 24 PPQN (so C14_ratio_* / C14_beat_window / C14_midi_24 apply unchanged), and no other event ticks a
   device; hence two histories with the same number of clock messages tick the devices identically *)
Theorem C14_midi_wired_devices : forall evs unit w obs wf,
  wired_run unit w evs = (obs, wf, TLOk) ->
  tl_run (Some MIDI_PPQN) (w_devs w) (count_clock_ev evs) = (clock_dev_ticks evs obs, TLOk)
  /\ others_quiet evs obs.
Proof.
  intros evs unit w obs wf H. destruct (wired_run_spec evs unit w obs wf H) as [_ [_ [_ [A [B _]]]]]. split; assumption.
Qed.
Print Assumptions C14_midi_wired_devices.

Theorem C14_midi_wired_transparent : forall unit1 unit2 w1 w2 evs1 evs2 obs1 obs2 wf1 wf2,
  w_devs w1 = w_devs w2 ->
  count_clock_ev evs1 = count_clock_ev evs2 ->
  wired_run unit1 w1 evs1 = (obs1, wf1, TLOk) ->
  wired_run unit2 w2 evs2 = (obs2, wf2, TLOk) ->
  clock_dev_ticks evs1 obs1 = clock_dev_ticks evs2 obs2.
Proof. exact wired_transport_transparent. Qed.
Print Assumptions C14_midi_wired_transparent.

(* re-entry: the calls the Timeline makes back on the device (stop(), run()) leave it in the state its callback alone
   would have produced on the same messages *)
Theorem C14_midi_wired_reentry : forall evs unit w obs wf,
  wired_run unit w evs = (obs, wf, TLOk) ->
  w_src wf = cb_state unit (w_src w) (msgs_of evs).
Proof.
  intros evs unit w obs wf H. destruct (wired_run_spec evs unit w obs wf H) as [_ [_ [_ [_ [_ A]]]]]. exact A.
Qed.
Print Assumptions C14_midi_wired_reentry.

(** ---------------------------------------------------------------------------------------------
    4. Re-configuration after construction (Clock/Reconfig.v): the clock source is replaced or ticks_per_beat assigned,
       devices are added / replaced while the timeline runs, send_clock is switched after the device was attached
    --------------------------------------------------------------------------------------------- *)

(* the timeline's rate has changed since the converters were made (whatever the history before: any rates, any phases):
   the next n ticks tick the devices exactly as a timeline BUILT at the new rate with the same devices would — so every
   ratio theorem above (C14_ratio_*, C14_beat_window, C14_midi_24, C14_refuse, C14_timeline_devices) holds for the new rate *)
Theorem C14_reconfig_rate_change : forall n r c ds,
  rate_eqb c r = false ->
  run_calls (grun (GS r c ds) (repeat GTick n)) = tl_run r (tl_new (map (fun a => d_rate (a_dev a)) ds)) n.
Proof. exact ticks_after_rate_change. Qed.
Print Assumptions C14_reconfig_rate_change.

(* a replacement that keeps the rate keeps the converters and their phase: the ticks go on as on an ordinary timeline *)
Theorem C14_reconfig_same_rate : forall n r ds,
  run_calls (grun (GS r r ds) (repeat GTick n)) = tl_run r (map a_dev ds) n.
Proof. exact ticks_in_tune. Qed.
Print Assumptions C14_reconfig_same_rate.

(* send_clock: for ANY history of ticks, rate changes, added / replaced devices and send_clock switches, the
   device.tick() calls are those of the history with every switch removed, whatever flags the devices were attached
   with; a 'clock' message reaches the port exactly for the calls made while the flag is on.  Hence a MIDI output attached
   with clock output off and switched on later is on the 24-PPQN grid of C14_midi_24 from the first pulse on. *)
Theorem C14_send_clock_transparent : forall es s1 s2, same_conv s1 s2 ->
  run_calls (grun s1 es) = run_calls (grun s2 (filter (fun e => negb (is_send_clock e)) es)).
Proof. exact send_clock_transparent. Qed.
Print Assumptions C14_send_clock_transparent.

Theorem C14_send_clock_pulses : forall ds calls,
  calls_of_obs (map (mark ds) calls) = calls
  /\ pulses_of_obs (map (mark ds) calls) = filter (fun i => a_on (nth (Z.to_nat i) ds (fresh None false))) calls.
Proof. intros. split; [apply calls_of_mark | apply pulses_of_mark]. Qed.
Print Assumptions C14_send_clock_pulses.

(* the clock source is REPLACED by an internal Clock made without a target (`timeline.clock_source = Clock(tempo=.., ticks_per_beat=n)`):
   its converter was made for (n, n), the assignment does not re-make it, so — whatever rate the timeline had before — it
   delivers floor(elapsed / new tick duration) timeline ticks for any non-decreasing readings *)
Theorem C14_replaced_clock : forall n d t0 ts, 0 < n < S8 -> 0 < d -> nondecr t0 ts ->
  clock_run (fst (clock_conv None n)) (snd (clock_conv None n)) [] d t0 (plain ts) = (map (fun t => (t - t0) / d) ts, COk).
Proof.
  intros n d t0 ts Hn Hd Hs. cbn [clock_conv fst snd].
  assert (M : multiple_of (Some n) (Some n) = (n, n)) by (apply multiple_of_some; lia).
  assert (R : refuses n n = false) by (rewrite refuses_iff by lia; rewrite Z.mod_same by lia; reflexivity).
  rewrite (C14_catch_up (Some n) (Some n) n n d t0 ts) by (cbn; try lia; assumption).
  f_equal. apply map_ext. intros t. apply owed_same. lia.
Qed.
Print Assumptions C14_replaced_clock.

(** ---------------------------------------------------------------------------------------------
    The closed-form variants evaluated by the correspondence harness ARE the models above
    --------------------------------------------------------------------------------------------- *)
Theorem C14_fast_variants_agree : forall out inn, rate_ok out -> rate_ok inn ->
  (forall n, mult_run_x out inn MNew n = mult_run out inn MNew n)
  /\ (forall n dflt len expected, mult_sparse_ok_x out inn n dflt len expected = mult_sparse_ok out inn n dflt len expected)
  /\ (forall cb d0 t0 rds counts code, clock_ok_x out inn cb d0 t0 rds counts code = clock_ok out inn cb d0 t0 rds counts code).
Proof.
  intros out inn Ho Hi. split; [|split].
  - intros n. symmetry. apply mult_run_x_eq; try assumption. exact I.
  - intros. unfold mult_sparse_ok_x, mult_sparse_ok. symmetry. apply run_check_x_eq; try assumption. exact I.
  - intros. unfold clock_ok_x, clock_ok. rewrite (clock_run_x_eq out inn Ho Hi). reflexivity.
Qed.
Print Assumptions C14_fast_variants_agree.

(** ---------------------------------------------------------------------------------------------
    Non-vacuity: concrete inputs meeting the hypotheses, evaluated by the model
    --------------------------------------------------------------------------------------------- *)
Example C14_ratio_nonvacuous :
  refuses 24 480 = false /\ refuses 1 49 = false /\ refuses 5 3 = true
  /\ map mres_code (mult_run (Some 1) (Some 3) MNew 7) = [1; 0; 0; 1; 0; 0; 1]
  /\ total_ticks (mult_run (Some 24) (Some 480) MNew 480) = 24
  /\ map mres_code (mult_run (Some 96) (Some 24) MNew 3) = [4; 4; 4]
  /\ map mres_code (mult_run None (Some 480) MNew 3) = [1; 1; 1]
  /\ mult_next (Some 5) (Some 3) MNew = (MClockErr, MDone).
Proof. vm_compute. repeat split. Qed.

Example C14_clock_nonvacuous :
  nondecr 1000 [1000; 1005; 1010; 1035; 1035; 1049; 1050; 2000]
  /\ clock_run None (Some 480) [] 10 1000 (plain [1000; 1005; 1010; 1035; 1035; 1049; 1050; 2000])
     = ([0; 0; 1; 3; 3; 4; 5; 100], COk)
  /\ clock_steps None (Some 480) [] 4 ((1052, Some 4) :: plain [1060; 1061]) (P 1 1 1050 10 5 5)
     = ([5; 7; 7], COk).
Proof. split; [cbn [nondecr]; lia | vm_compute; split; reflexivity]. Qed.

Example C14_midi_nonvacuous :
  map call_code (midi_in_calls true [Clock; Start; NoteLike 2; SongPos 0; SongPos 4; Stop; Other 6; Clock]) = [0; 1; 3; 2; 0]
  /\ midi_tl_run (tl_new [Some 12; None]) 0 [Clock; Clock; SongPos 0; Clock]
     = ([([0; 1], 1); ([1], 2); ([], 0); ([0; 1], 1)], TLOk).
Proof. vm_compute. repeat split. Qed.

(* a clock at 120 bpm (d = 2^20/48 units would not be whole: 100 units = 2.5*unit/d bpm), a pause of an hour, time
   standing still and time going backwards: one tick per 'clock' all the same; the estimate on the steady stretch *)
Example C14_midi_timed_nonvacuous :
  map call_code (timed_calls 1000 true ts0
     [TM 0 0 Clock; TM 20 20 Clock; TM 25 25 Stop; TM 3600000 3600000 Clock; TM 3600000 3600000 Clock;
      TM 3599000 3599001 Clock; TM 3599021 3599021 Start]) = [0; 0; 2; 0; 0; 0; 1]
  /\ intervals_within 20 20 0 [TM 20 20 Clock; TM 30 30 (NoteLike 1); TM 40 40 Clock]
  /\ map (fun p => option_map Qred (snd p)) (cb_run 1000 true ts0 [TM 0 0 Clock; TM 20 20 Clock; TM 30 30 (NoteLike 1); TM 40 40 Clock])
     = [None; Some (125 # 1)%Q; Some (125 # 1)%Q; Some (125 # 1)%Q].
Proof. split; [vm_compute; reflexivity | split; [cbn; lia | vm_compute; reflexivity]]. Qed.

(* a 12-PPQN and a rate-less device on a timeline wired to the MIDI input: clock, stop message, two clocks, user-level
   timeline.stop(), clock, songpos 0, clock, start message, clock — six clock messages, six Timeline ticks *)
Example C14_midi_wired_nonvacuous :
  let evs := [EvMsg (TM 0 0 Clock); EvMsg (TM 5 5 Stop); EvMsg (TM 20 20 Clock); EvMsg (TM 40 40 Clock); EvUserStop;
              EvMsg (TM 60 60 Clock); EvMsg (TM 61 61 (SongPos 0)); EvMsg (TM 80 80 Clock); EvMsg (TM 81 81 Start);
              EvMsg (TM 100 100 Clock)] in
  let '(obs, wf, r) := wired_run 1000 (w_new [Some 12; None]) evs in
  r = TLOk
  /\ map o_ticks obs = [1; 1; 2; 3; 3; 4; 4; 5; 5; 6]
  /\ map o_pos obs = [1; 1; 2; 3; 3; 4; 0; 1; 1; 2]
  /\ map (fun o => map rcall_code (o_calls o)) obs
     = [[0; 1]; [10; 20; 11; 21; 40]; [1]; [0; 1]; [10; 20; 11; 21; 40]; [1]; []; [0; 1]; [30; 31; 41]; [1]]
  /\ w_ticks wf = 6.
Proof. vm_compute. repeat split. Qed.

(* a 480-PPQN timeline with a MIDI output attached with clock output OFF and a 12-PPQN device: 3 ticks, send_clock on, the
   clock source replaced by a 96-PPQN one, 8 ticks: the converters are re-made for 96 (MIDI pulse on ticks 0 and 4, the
   12-PPQN device on tick 0 and 8); the same history without the switch makes the same device.tick() calls *)
Example C14_reconfig_nonvacuous :
  let es := [GTick; GTick; GTick; GSendClock 0 true; GSetRate (Some 96)] ++ repeat GTick 9 in
  let s := g_new (Some 480) [(Some 24, false); (Some 12, true)] in
  map enc_obs (fst (fst (grun s es))) = [1 * 8 + 4; 0; 0; 2 * 8 + 4; 0; 0; 0; 2; 0; 0; 0; 2 * 8 + 4]
  /\ snd (grun s es) = TLOk
  /\ run_calls (grun s es) = run_calls (grun s (filter (fun e => negb (is_send_clock e)) es))
  /\ rate_eqb (Some 480) (Some 96) = false
  /\ clock_conv None 96 = (Some 96, Some 96).
Proof. vm_compute. repeat split. Qed.

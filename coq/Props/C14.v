(* Props/C14.v — property C14: clock domains stay in ratio; the internal clock holds tempo under delay.
   Only the property theorems live here (placeholder while the lemmas are being written). *)
From Isobar Require Import Base.Prelude Clock.Multiplier Clock.ClockRun Clock.MidiIn.

Example C14_model_runs :
  mult_codes (Some 1) (Some 3) 7 = [1; 0; 0; 1; 0; 0; 1].
Proof. vm_compute. reflexivity. Qed.

(* Props/C15.v — placeholder while the harness is brought up *)
From Isobar Require Import Base.Prelude Sched.Interp.
From Coq Require Import QArith.
Example C15_model_runs : dur_steps 100 (29 # 100) = 29%Z.
Proof. vm_compute. reflexivity. Qed.

(* Props/C15.v — property C15: interpolated control tracks emit the exact curve, one value per tick.
   Only the property theorems live here; each is closed by lemmas of Sched/InterpProofs.v about the model
   Sched/Interp.v (PInterpolate, PDict and the interpolating branch of Track.tick as state machines).

   Reading guide.  [run cospi tpb mode maxc n (init events)] is the list of what the track does on its first n
   ticks (tick 0 = the tick on which it starts; on the timeline that is tick T_0, see C15_timeline).
   [eff maxc 0 events] are the events the count limit lets through (C15_count: a prefix).
   [dur_steps tpb (e_dur e)] is D, the length of the point in ticks (C15_whole_ticks); [ticks_of tpb pre] is
   the sum of the D's of the points in pre, i.e. the tick of the point that follows pre.
   [chain_ok_list l]: every event of l is a control event and every number field of a point is a number at the
   next point too (the inputs on which the real code does not raise).  cos(pi x) is the function [cospi]; the
   theorems that need facts about it state them as hypotheses. *)
From Isobar Require Import Base.Prelude Sched.Interp Sched.InterpProofs Sched.InterpRetime Sched.InterpRetimeProofs.
From Coq Require Import QArith Qround String Lqa.
Local Open Scope Z_scope.
Local Notation length := List.length (only parsing).

(* the identity or the raised-cosine ease *)
Definition ease (cospi : Q -> Q) (mode : imode) (x : Q) : Q :=
  match mode with Linear => x | Cosine => ((1 - cospi x) / 2)%Q end.

(** The trace of the track is the closed form [spec] followed by silence: for EVERY stream (control or not,
    any durations, any count limit).  Everything below is a corollary. *)
Theorem C15_trace : forall cospi tpb mode maxc events n,
  all_num events ->
  run cospi tpb mode maxc n (init events) = pad n (spec cospi tpb mode (eff maxc 0 events)).
Proof. intros. apply run_spec. assumption. Qed.
Print Assumptions C15_trace.

(** Exactly one control call on every tick from the first point's tick to the last point's tick
    (S = sum of the D_i ticks later), and nothing after. *)
Theorem C15_one_per_tick : forall cospi tpb mode maxc events,
  all_num events ->
  chain_ok_list (eff maxc 0 events) = true ->
  Forall (fun e => has_keys e = true) (eff maxc 0 events) ->
  let S := ticks_of tpb (removelast (eff maxc 0 events)) in
  exists L, (forall n, run cospi tpb mode maxc n (init events) = pad n L)
         /\ length L = (if (S =? 0)%nat then 0 else 1 + S)%nat
         /\ Forall is_call L.
Proof.
  intros cospi tpb mode maxc events Hn Hok Hk S.
  exists (spec cospi tpb mode (eff maxc 0 events)). split; [intros n; apply run_spec; exact Hn|].
  rewrite (spec_ok _ _ _ _ Hok). split.
  - rewrite app_length, first_list_length, segs_length. fold S. destruct (S =? 0)%nat eqn:E; [|reflexivity].
    apply Nat.eqb_eq in E. rewrite E. reflexivity.
  - apply Forall_app. destruct (eff maxc 0 events) as [|p ps]; [split; constructor|].
    split; [apply first_part_calls|apply all_segs_calls]; assumption.
Qed.
Print Assumptions C15_one_per_tick.

(** j ticks into a segment of D ticks (1 <= j <= D) the value is v_i + (v_next - v_i) * f(j / D). *)
Theorem C15_curve : forall cospi tpb mode maxc events pre cur nxt post a b (j : nat),
  all_num events ->
  eff maxc 0 events = pre ++ cur :: nxt :: post ->
  chain_ok_list (pre ++ cur :: nxt :: post) = true ->
  has_keys cur = true ->
  lookup "value" (e_fields cur) = Some (VNum a) -> lookup "value" (e_fields nxt) = Some (VNum b) ->
  let D := dur_steps tpb (e_dur cur) in
  (1 <= j)%nat -> Z.of_nat j <= D ->
  forall n, (ticks_of tpb pre + j < n)%nat ->
  exists c v h,
    nth (ticks_of tpb pre + j) (run cospi tpb mode maxc n (init events)) ONone = OCall c (VNum v) h
    /\ (v == a + (b - a) * ease cospi mode (Z.of_nat j # Z.to_pos D))%Q.
Proof.
  intros cospi tpb mode maxc events pre cur nxt post a b j Hn He Hok Hk Ha Hb D Hj1 HjD n Hlt.
  rewrite (run_msg _ _ _ _ _ _ _ Hn Hlt). unfold msg. rewrite He.
  destruct j as [|j0]; [lia|].
  replace (ticks_of tpb pre + S j0)%nat with (1 + ticks_of tpb pre + j0)%nat by lia.
  rewrite (msg_segment cospi tpb mode _ pre cur nxt post j0 eq_refl Hok) by (fold D; lia).
  destruct (emit_value (fun a b => step_value cospi mode a b D j0) cur nxt a b (chain_ok_mid _ _ _ _ Hok) Hk Ha Hb)
    as [c [h [E _]]].
  exists c, (step_value cospi mode a b D j0), h. split; [exact E|].
  replace (Z.of_nat (S j0)) with (Z.of_nat j0 + 1) by lia.
  destruct mode; unfold ease.
  - apply step_value_linear. lia.
  - apply step_value_cosine.
Qed.
Print Assumptions C15_curve.

(** Each control point that ends a segment of positive length is hit exactly on its own tick
    (needs cos(pi * 1) = -1 for the cosine ease) ... *)
Theorem C15_hits_points : forall cospi tpb mode maxc events pre cur nxt post a b,
  (forall x, (x == 1)%Q -> (cospi x == -1)%Q) ->
  all_num events ->
  eff maxc 0 events = pre ++ cur :: nxt :: post ->
  chain_ok_list (pre ++ cur :: nxt :: post) = true ->
  has_keys cur = true ->
  lookup "value" (e_fields cur) = Some (VNum a) -> lookup "value" (e_fields nxt) = Some (VNum b) ->
  1 <= dur_steps tpb (e_dur cur) ->
  forall n, (ticks_of tpb (pre ++ [cur]) < n)%nat ->
  exists c v h,
    nth (ticks_of tpb (pre ++ [cur])) (run cospi tpb mode maxc n (init events)) ONone = OCall c (VNum v) h
    /\ (v == b)%Q.
Proof.
  intros cospi tpb mode maxc events pre cur nxt post a b Hcos Hn He Hok Hk Ha Hb HD n Hlt.
  assert (Et : ticks_of tpb (pre ++ [cur]) = (ticks_of tpb pre + Z.to_nat (dur_steps tpb (e_dur cur)))%nat).
  { rewrite ticks_of_app. simpl. lia. }
  rewrite Et in *.
  destruct (C15_curve cospi tpb mode maxc events pre cur nxt post a b (Z.to_nat (dur_steps tpb (e_dur cur)))
              Hn He Hok Hk Ha Hb ltac:(lia) ltac:(lia) n Hlt) as [c [v [h [E1 E2]]]].
  exists c, v, h. split; [exact E1|]. rewrite E2.
  assert (E1' : (Z.of_nat (Z.to_nat (dur_steps tpb (e_dur cur))) # Z.to_pos (dur_steps tpb (e_dur cur)) == 1)%Q).
  { unfold Qeq. simpl. rewrite Z2Pos.id by lia. lia. }
  destruct mode; unfold ease.
  - rewrite E1'. ring.
  - rewrite (Hcos _ E1'). field.
Qed.
Print Assumptions C15_hits_points.

(** ... and the first message, on the track's first tick, is the value of the first point of positive length. *)
Theorem C15_first_point : forall cospi tpb mode maxc events pre cur nxt post a b,
  all_num events ->
  eff maxc 0 events = pre ++ cur :: nxt :: post ->
  chain_ok_list (pre ++ cur :: nxt :: post) = true ->
  has_keys cur = true ->
  lookup "value" (e_fields cur) = Some (VNum a) -> lookup "value" (e_fields nxt) = Some (VNum b) ->
  ticks_of tpb pre = 0%nat -> 1 <= dur_steps tpb (e_dur cur) ->
  forall n, (0 < n)%nat ->
  exists c h, nth 0 (run cospi tpb mode maxc n (init events)) ONone = OCall c (VNum a) h.
Proof.
  intros cospi tpb mode maxc events pre cur nxt post a b Hn He Hok Hk Ha Hb Hz HD n Hlt.
  rewrite (run_msg _ _ _ _ _ _ _ Hn Hlt). unfold msg. rewrite He.
  rewrite (msg_first cospi tpb mode _ pre cur nxt post eq_refl Hok Hz HD).
  destruct (emit_value raw_val cur nxt a b (chain_ok_mid _ _ _ _ Hok) Hk Ha Hb) as [c [h [E _]]].
  exists c, h. exact E.
Qed.
Print Assumptions C15_first_point.

(** Values never leave the interval spanned by the segment's end points (needs -1 <= cos <= 1). *)
Theorem C15_hull : forall cospi tpb mode maxc events pre cur nxt post a b (j : nat),
  (forall x, (-1 <= cospi x)%Q /\ (cospi x <= 1)%Q) ->
  all_num events ->
  eff maxc 0 events = pre ++ cur :: nxt :: post ->
  chain_ok_list (pre ++ cur :: nxt :: post) = true ->
  has_keys cur = true ->
  lookup "value" (e_fields cur) = Some (VNum a) -> lookup "value" (e_fields nxt) = Some (VNum b) ->
  (1 <= j)%nat -> Z.of_nat j <= dur_steps tpb (e_dur cur) ->
  forall n, (ticks_of tpb pre + j < n)%nat ->
  exists c v h,
    nth (ticks_of tpb pre + j) (run cospi tpb mode maxc n (init events)) ONone = OCall c (VNum v) h
    /\ ((a <= b -> a <= v /\ v <= b) /\ (b <= a -> b <= v /\ v <= a))%Q.
Proof.
  intros cospi tpb mode maxc events pre cur nxt post a b j Hcos Hn He Hok Hk Ha Hb Hj1 HjD n Hlt.
  destruct (C15_curve cospi tpb mode maxc events pre cur nxt post a b j Hn He Hok Hk Ha Hb Hj1 HjD n Hlt)
    as [c [v [h [E1 E2]]]].
  exists c, v, h. split; [exact E1|].
  set (D := dur_steps tpb (e_dur cur)) in *.
  assert (Hx : (0 <= Z.of_nat j # Z.to_pos D)%Q /\ (Z.of_nat j # Z.to_pos D <= 1)%Q).
  { unfold Qle. simpl. rewrite Z2Pos.id by lia. split; lia. }
  assert (Ht : (0 <= ease cospi mode (Z.of_nat j # Z.to_pos D))%Q /\ (ease cospi mode (Z.of_nat j # Z.to_pos D) <= 1)%Q).
  { destruct mode; unfold ease; [exact Hx|].
    destruct (Hcos (Z.of_nat j # Z.to_pos D)) as [C1 C2].
    set (cc := cospi (Z.of_nat j # Z.to_pos D)) in *. clearbody cc.
    setoid_replace ((1 - cc) / 2)%Q with ((1 - cc) * (1 # 2))%Q by field. split; lra. }
  destruct Ht as [T0 T1]. destruct (lerp_between a b _ T0 T1) as [B1 B2].
  split; intros Hab; rewrite E2; [apply B1|apply B2]; exact Hab.
Qed.
Print Assumptions C15_hull.

(** A zero-duration point is an instantaneous jump: it takes no tick of its own (the point after it has the same
    tick) and the track goes on exactly as if it started from the next point.  Together with C15_curve (whose tick
    arithmetic [ticks_of] counts zero-length points as 0) this fixes the whole trace around a jump. *)
Theorem C15_jump : forall cospi tpb mode first z nxt rest pre,
  dur_steps tpb (e_dur z) <= 0 ->
  spec_open cospi tpb mode first z (nxt :: rest) = spec_open cospi tpb mode first nxt rest
  /\ seg_outs cospi tpb mode z nxt = []
  /\ ticks_of tpb (pre ++ [z]) = ticks_of tpb pre.
Proof.
  intros cospi tpb mode first z nxt rest pre H. split; [|split].
  - cbn [spec_open]. destruct (dur_steps tpb (e_dur z) <=? 0) eqn:E; [reflexivity|lia].
  - apply seg_outs_zero. exact H.
  - rewrite ticks_of_app. simpl. lia.
Qed.
Print Assumptions C15_jump.

(** Pass-through: in every message of a segment, a field that is not a number is the current point's value,
    unchanged, and a number field that is equal at both ends keeps that value (control number, channel). *)
Theorem C15_passthrough : forall cospi mode D j cur nxt k,
  (forall t, lookup k cur = Some (VOpq t) ->
     field_val (fun a b => step_value cospi mode a b D j) cur nxt k = Some (VOpq t)
     /\ field_val raw_val cur nxt k = Some (VOpq t))
  /\ (forall a b, lookup k cur = Some (VNum a) -> lookup k nxt = Some (VNum b) -> (a == b)%Q ->
     exists v, field_val (fun a b => step_value cospi mode a b D j) cur nxt k = Some (VNum v) /\ (v == a)%Q).
Proof.
  intros cospi mode D j cur nxt k. split.
  - intros t H. unfold field_val. rewrite H. split; reflexivity.
  - intros a b Ha Hb Hab. unfold field_val. rewrite Ha, Hb. eexists. split; [reflexivity|].
    apply step_value_flat. exact Hab.
Qed.
Print Assumptions C15_passthrough.

(* the control call is built from exactly these fields *)
Theorem C15_call_fields : forall val cur nxt fs,
  build_fields (e_fields cur) (e_fields nxt) = Some fs ->
  emit val cur nxt =
  match field_val val (e_fields cur) (e_fields nxt) "control", field_val val (e_fields cur) (e_fields nxt) "value",
        field_val val (e_fields cur) (e_fields nxt) "channel" with
  | Some c, Some v, Some h => OCall c v h
  | _, _, _ => OErr
  end.
Proof. exact emit_call. Qed.

(** Interpolating anything but control events is rejected: when the segment cur -> nxt (of positive length) has a
    non-control end, the track sends the messages of the valid prefix, raises InvalidEventException on the tick on
    which that segment would have started, and sends nothing from it or after it. *)
Theorem C15_reject : forall cospi tpb mode maxc events pre cur nxt post,
  all_num events ->
  eff maxc 0 events = pre ++ cur :: nxt :: post ->
  chain_ok_list (pre ++ [cur]) = true ->
  1 <= dur_steps tpb (e_dur cur) ->
  e_ctl cur && e_ctl nxt = false ->
  let A := spec cospi tpb mode (pre ++ [cur]) in
  (forall n, run cospi tpb mode maxc n (init events) = pad n (A ++ [OInvalid]))
  /\ length A = (if (ticks_of tpb pre =? 0)%nat then 0 else 1 + ticks_of tpb pre)%nat.
Proof.
  intros cospi tpb mode maxc events pre cur nxt post Hn He Hok HD Hctl A. split.
  - intros n. rewrite (run_spec cospi tpb mode maxc events Hn n). rewrite He. f_equal.
    subst A. destruct pre as [|p pre].
    + simpl. destruct (dur_steps tpb (e_dur cur) <=? 0) eqn:E; [lia|]. rewrite Hctl. reflexivity.
    + change (spec_open cospi tpb mode true p (pre ++ cur :: nxt :: post)
              = spec_open cospi tpb mode true p (pre ++ [cur]) ++ [OInvalid]).
      rewrite (spec_open_invalid cospi tpb mode cur nxt post HD Hctl pre p true Hok).
      rewrite (spec_open_ok cospi tpb mode (pre ++ [cur]) true p Hok). rewrite <- app_assoc. reflexivity.
  - subst A. rewrite (spec_ok _ _ _ _ Hok), app_length, first_list_length, segs_length, removelast_last.
    destruct (ticks_of tpb pre =? 0)%nat eqn:E; [|reflexivity]. apply Nat.eqb_eq in E. rewrite E. reflexivity.
Qed.
Print Assumptions C15_reject.

(** The count limit passes a prefix of the stream; None and 0 mean no limit. *)
Theorem C15_count : forall maxc events,
  match maxc with
  | Some m => if 0 <? m then eff maxc 0 events = firstn (Z.to_nat m) events
              else if m =? 0 then eff maxc 0 events = events else eff maxc 0 events = []
  | None => eff maxc 0 events = events
  end.
Proof.
  intros [m|] events.
  - destruct (0 <? m) eqn:E.
    + rewrite (eff_firstn (Some m) m eq_refl ltac:(lia)). rewrite Z.sub_0_r. reflexivity.
    + destruct (m =? 0) eqn:E0.
      * assert (m = 0) by lia. subst m. apply eff_unlimited. right; reflexivity.
      * destruct events as [|e r]; [reflexivity|]. simpl. rewrite E0. simpl.
        destruct (m <=? 0) eqn:E1; [reflexivity|lia].
  - apply eff_unlimited. left; reflexivity.
Qed.
Print Assumptions C15_count.

(** Durations: a product duration * ticks_per_beat within 5e-9 of a whole number D of ticks is D ticks
    (the repaired behaviour: 0.29 beats at 100 PPQN is 29 ticks although the float product is 28.999999999999996). *)
Theorem C15_whole_ticks : forall tpb d D,
  (inject_Z D - (1 # 200000000) < d * inject_Z tpb)%Q -> (d * inject_Z tpb < inject_Z D + (1 # 200000000))%Q ->
  dur_steps tpb d = D.
Proof. exact dur_steps_whole. Qed.
Print Assumptions C15_whole_ticks.

(** On the timeline the track's tick 0 is tick T_0 = the start tick; before it nothing is sent. *)
Theorem C15_timeline : forall cospi n tpb mode maxc s q d events t0,
  all_num events ->
  start_tick (S n) tpb s q d = Some t0 ->
  timeline_run cospi n tpb mode maxc s q d events =
  repeat ONone (Nat.min n (Z.to_nat t0))
  ++ pad (n - Nat.min n (Z.to_nat t0)) (spec cospi tpb mode (eff maxc 0 events)).
Proof.
  intros. rewrite (timeline_run_started _ _ _ _ _ _ _ _ _ _ H0). f_equal. apply run_spec. assumption.
Qed.
Print Assumptions C15_timeline.

(** Non-vacuity: concrete streams meet the hypotheses, and the model computes the expected traces. *)
Definition pt (v : Q) (d : Q) : event :=
  mkEvent true d [("control"%string, VNum 7); ("value"%string, VNum v); ("channel"%string, VOpq 1)].
Definition cos0 (x : Q) : Q := if Qeq_bool x 1 then (-1)%Q else 0%Q.

Example C15_nonvacuous :
  let evs := [pt 1 (1 # 2); pt 3 0; pt 2 (29 # 100); pt 5 1] in
  all_num evs /\ chain_ok_list evs = true /\ forallb has_keys evs = true
  /\ map (fun e => dur_steps 100 (e_dur e)) evs = [50; 0; 29; 100]
  /\ ticks_of 100 (removelast evs) = 79%nat
  /\ nth 50 (run cos0 100 Linear None 90 (init evs)) ONone = OCall (VNum (350 # 50)) (VNum (150 # 50)) (VOpq 1)
  /\ nth 51 (run cos0 100 Cosine (Some 4) 90 (init evs)) ONone = OCall (VNum (14 # 2)) (VNum (7 # 2)) (VOpq 1)
  /\ nth 80 (run cos0 100 Linear None 90 (init evs)) ONone = ONone.
Proof.
  cbv zeta. split; [repeat constructor|]. vm_compute. repeat split.
Qed.

Example C15_reject_nonvacuous :
  let evs := [pt 1 (1 # 10); pt 3 (1 # 5); mkEvent false 1 [("note"%string, VNum 60)]; pt 5 1] in
  all_num evs /\ chain_ok_list [pt 1 (1 # 10); pt 3 (1 # 5)] = true
  /\ run cos0 10 Linear None 5 (init evs)
     = [OCall (VNum 7) (VNum 1) (VOpq 1); OCall (VNum 7) (VNum (1 + (3 - 1) * 1 / 1)) (VOpq 1); OInvalid; ONone; ONone].
Proof.
  cbv zeta. split; [repeat constructor|]. vm_compute. repeat split.
Qed.

Example C15_whole_ticks_nonvacuous :
  (* the exact value of the double 0.29 *)
  dur_steps 100 (5224175567749775 # 18014398509481984) = 29
  /\ Qfloor ((5224175567749775 # 18014398509481984) * 100) = 28.
Proof. vm_compute. split; reflexivity. Qed.

(** * The timeline's resolution is re-configured after the track was scheduled  (Sched/InterpRetime.v)

    [timeline.ticks_per_beat = n], [timeline.clock_source = <clock with another resolution>] before the track's first
    tick, between two segments or in the middle of one.  A history is a list of [RTick] / [RTpb n]; equivalently
    tick k (k = 0: the track's first tick) is made at the resolution [R k], R ARBITRARY.
    [plan_tick R pre] is the tick on which the segment that starts at the point after pre is planned: the
    resolution in force on that tick gives it D = [dur_steps (R (plan_tick R pre)) duration] steps.
    [point_tick R pre] is the tick of that point: the sum of the D's planned for the points of pre
    (C15_retime_plan).  [retime R l] is l with every duration replaced by its planned D (in ticks). *)

(** A history of ticks and resolution changes, the resolution carried in the state, is the run in which tick k is
    made at the resolution in force on the k-th tick of the history. *)
Theorem C15_retime_history : forall cospi mode maxc ops tpb st,
  rt_trace cospi mode maxc (tpb, st) ops = runv cospi (rt_res tpb ops) mode maxc 0 (rt_ticks ops) st.
Proof. intros. apply rt_trace_runv. Qed.
Print Assumptions C15_retime_history.

(** Without a change it is the run of the fixed-resolution model. *)
Theorem C15_retime_const : forall cospi tpb mode maxc n t st,
  runv cospi (fun _ => tpb) mode maxc t n st = run cospi tpb mode maxc n st.
Proof. intros. apply runv_const. Qed.
Print Assumptions C15_retime_const.

(** For EVERY assignment of resolutions to ticks and every stream: the trace is the closed form of the stream whose
    durations are the planned step counts (at one tick per beat), followed by silence. *)
Theorem C15_retime_trace : forall cospi R mode maxc events n,
  all_num events ->
  runv cospi R mode maxc 0 n (init events) = pad n (spec cospi 1 mode (retime R (eff maxc 0 events))).
Proof. intros. apply runv_spec. assumption. Qed.
Print Assumptions C15_retime_trace.

(** The plan: the first segment is planned on the track's first tick, every later one on the tick after its
    starting point was sent, with the resolution in force THEN; each point lies that many ticks after the one
    before; a point whose duration rounds to 0 ticks at that resolution takes no tick. *)
Theorem C15_retime_plan : forall R pre e,
  plan_tick R pre = (if (point_tick R pre =? 0)%nat then 0 else S (point_tick R pre))%nat
  /\ point_tick R [] = 0%nat
  /\ point_tick R (pre ++ [e]) = (point_tick R pre + Z.to_nat (dur_steps (R (plan_tick R pre)) (e_dur e)))%nat
  /\ retime R (pre ++ [e]) = retime R pre ++ [set_dur e (dur_steps (R (plan_tick R pre)) (e_dur e))].
Proof.
  intros. split; [apply plan_tick_point|]. split; [reflexivity|]. split; [apply point_tick_snoc|apply retime_snoc].
Qed.
Print Assumptions C15_retime_plan.

(** Exactly one control call on every tick from the first point's tick to the last point's tick, none after. *)
Theorem C15_retime_one_per_tick : forall cospi R mode maxc events,
  all_num events ->
  chain_ok_list (eff maxc 0 events) = true ->
  Forall (fun e => has_keys e = true) (eff maxc 0 events) ->
  let S := point_tick R (removelast (eff maxc 0 events)) in
  exists L, (forall n, runv cospi R mode maxc 0 n (init events) = pad n L)
         /\ length L = (if (S =? 0)%nat then 0 else 1 + S)%nat
         /\ Forall is_call L.
Proof. intros. apply runv_one_per_tick; assumption. Qed.
Print Assumptions C15_retime_one_per_tick.

(** j ticks into a segment planned with D steps the value is v_i + (v_next - v_i) * f(j / D), D computed from the
    resolution in force on the segment's planning tick - whatever the resolution does before or afterwards. *)
Theorem C15_retime_curve : forall cospi R mode maxc events pre cur nxt post a b (j : nat),
  all_num events ->
  eff maxc 0 events = pre ++ cur :: nxt :: post ->
  chain_ok_list (pre ++ cur :: nxt :: post) = true ->
  has_keys cur = true ->
  lookup "value" (e_fields cur) = Some (VNum a) -> lookup "value" (e_fields nxt) = Some (VNum b) ->
  let D := dur_steps (R (plan_tick R pre)) (e_dur cur) in
  (1 <= j)%nat -> Z.of_nat j <= D ->
  forall n, (point_tick R pre + j < n)%nat ->
  exists c v h,
    nth (point_tick R pre + j) (runv cospi R mode maxc 0 n (init events)) ONone = OCall c (VNum v) h
    /\ (v == a + (b - a) * ease cospi mode (Z.of_nat j # Z.to_pos D))%Q.
Proof.
  intros cospi R mode maxc events pre cur nxt post a b j Hn He Hok Hk Ha Hb D Hj1 HjD n Hlt.
  destruct j as [|j0]; [lia|].
  replace (point_tick R pre + S j0)%nat with (1 + point_tick R pre + j0)%nat in * by lia.
  rewrite (runv_segment cospi R mode maxc events pre cur nxt post j0 n Hn He Hok) by (fold D; lia).
  fold D.
  destruct (emit_value (fun a b => step_value cospi mode a b D j0) cur nxt a b (chain_ok_mid _ _ _ _ Hok) Hk Ha Hb)
    as [c [h [E _]]].
  exists c, (step_value cospi mode a b D j0), h. split; [exact E|].
  replace (Z.of_nat (S j0)) with (Z.of_nat j0 + 1) by lia.
  destruct mode; unfold ease.
  - apply step_value_linear. lia.
  - apply step_value_cosine.
Qed.
Print Assumptions C15_retime_curve.

(** Each control point that ends a segment of positive planned length is hit exactly on its own tick. *)
Theorem C15_retime_hits_points : forall cospi R mode maxc events pre cur nxt post a b,
  (forall x, (x == 1)%Q -> (cospi x == -1)%Q) ->
  all_num events ->
  eff maxc 0 events = pre ++ cur :: nxt :: post ->
  chain_ok_list (pre ++ cur :: nxt :: post) = true ->
  has_keys cur = true ->
  lookup "value" (e_fields cur) = Some (VNum a) -> lookup "value" (e_fields nxt) = Some (VNum b) ->
  1 <= dur_steps (R (plan_tick R pre)) (e_dur cur) ->
  forall n, (point_tick R (pre ++ [cur]) < n)%nat ->
  exists c v h,
    nth (point_tick R (pre ++ [cur])) (runv cospi R mode maxc 0 n (init events)) ONone = OCall c (VNum v) h
    /\ (v == b)%Q.
Proof.
  intros cospi R mode maxc events pre cur nxt post a b Hcos Hn He Hok Hk Ha Hb HD n Hlt.
  rewrite point_tick_snoc in *. set (D := dur_steps (R (plan_tick R pre)) (e_dur cur)) in *.
  destruct (C15_retime_curve cospi R mode maxc events pre cur nxt post a b (Z.to_nat D)
              Hn He Hok Hk Ha Hb ltac:(lia) ltac:(fold D; lia) n Hlt) as [c [v [h [E1 E2]]]].
  exists c, v, h. split; [exact E1|]. rewrite E2. fold D.
  assert (E1' : (Z.of_nat (Z.to_nat D) # Z.to_pos D == 1)%Q).
  { unfold Qeq. simpl. rewrite Z2Pos.id by lia. lia. }
  destruct mode; unfold ease.
  - rewrite E1'. ring.
  - rewrite (Hcos _ E1'). field.
Qed.
Print Assumptions C15_retime_hits_points.

(** The first message, on the track's first tick, is the value of the first point of positive planned length. *)
Theorem C15_retime_first_point : forall cospi R mode maxc events pre cur nxt post a b,
  all_num events ->
  eff maxc 0 events = pre ++ cur :: nxt :: post ->
  chain_ok_list (pre ++ cur :: nxt :: post) = true ->
  has_keys cur = true ->
  lookup "value" (e_fields cur) = Some (VNum a) -> lookup "value" (e_fields nxt) = Some (VNum b) ->
  point_tick R pre = 0%nat -> 1 <= dur_steps (R 0%nat) (e_dur cur) ->
  forall n, (0 < n)%nat ->
  exists c h, nth 0 (runv cospi R mode maxc 0 n (init events)) ONone = OCall c (VNum a) h.
Proof.
  intros cospi R mode maxc events pre cur nxt post a b Hn He Hok Hk Ha Hb Hz HD n Hlt.
  rewrite (runv_first cospi R mode maxc events pre cur nxt post n Hn He Hok Hz HD Hlt).
  destruct (emit_value raw_val cur nxt a b (chain_ok_mid _ _ _ _ Hok) Hk Ha Hb) as [c [h [E _]]].
  exists c, h. exact E.
Qed.
Print Assumptions C15_retime_first_point.

(** Values never leave the interval spanned by the segment's end points. *)
Theorem C15_retime_hull : forall cospi R mode maxc events pre cur nxt post a b (j : nat),
  (forall x, (-1 <= cospi x)%Q /\ (cospi x <= 1)%Q) ->
  all_num events ->
  eff maxc 0 events = pre ++ cur :: nxt :: post ->
  chain_ok_list (pre ++ cur :: nxt :: post) = true ->
  has_keys cur = true ->
  lookup "value" (e_fields cur) = Some (VNum a) -> lookup "value" (e_fields nxt) = Some (VNum b) ->
  (1 <= j)%nat -> Z.of_nat j <= dur_steps (R (plan_tick R pre)) (e_dur cur) ->
  forall n, (point_tick R pre + j < n)%nat ->
  exists c v h,
    nth (point_tick R pre + j) (runv cospi R mode maxc 0 n (init events)) ONone = OCall c (VNum v) h
    /\ ((a <= b -> a <= v /\ v <= b) /\ (b <= a -> b <= v /\ v <= a))%Q.
Proof.
  intros cospi R mode maxc events pre cur nxt post a b j Hcos Hn He Hok Hk Ha Hb Hj1 HjD n Hlt.
  destruct (C15_retime_curve cospi R mode maxc events pre cur nxt post a b j Hn He Hok Hk Ha Hb Hj1 HjD n Hlt)
    as [c [v [h [E1 E2]]]].
  exists c, v, h. split; [exact E1|].
  set (D := dur_steps (R (plan_tick R pre)) (e_dur cur)) in *.
  assert (Hx : (0 <= Z.of_nat j # Z.to_pos D)%Q /\ (Z.of_nat j # Z.to_pos D <= 1)%Q).
  { unfold Qle. simpl. rewrite Z2Pos.id by lia. split; lia. }
  assert (Ht : (0 <= ease cospi mode (Z.of_nat j # Z.to_pos D))%Q /\ (ease cospi mode (Z.of_nat j # Z.to_pos D) <= 1)%Q).
  { destruct mode; unfold ease; [exact Hx|].
    destruct (Hcos (Z.of_nat j # Z.to_pos D)) as [C1 C2].
    set (cc := cospi (Z.of_nat j # Z.to_pos D)) in *. clearbody cc.
    setoid_replace ((1 - cc) / 2)%Q with ((1 - cc) * (1 # 2))%Q by field. split; lra. }
  destruct Ht as [T0 T1]. destruct (lerp_between a b _ T0 T1) as [B1 B2].
  split; intros Hab; rewrite E2; [apply B1|apply B2]; exact Hab.
Qed.
Print Assumptions C15_retime_hull.

(** A segment under way keeps its plan: two assignments of resolutions that agree on every planning tick give the
    same trace - what the resolution does on any other tick (in the middle of a segment) is never looked at. *)
Theorem C15_retime_plan_kept : forall cospi R R' mode maxc events,
  all_num events ->
  (forall pre e post, eff maxc 0 events = pre ++ e :: post -> R (plan_tick R pre) = R' (plan_tick R pre)) ->
  forall n, runv cospi R' mode maxc 0 n (init events) = runv cospi R mode maxc 0 n (init events).
Proof. intros. apply runv_plan_kept; assumption. Qed.
Print Assumptions C15_retime_plan_kept.

(** Rejection under a changing resolution: the messages of the valid prefix, InvalidEventException on the tick on
    which the offending segment is planned, nothing after. *)
Theorem C15_retime_reject : forall cospi R mode maxc events pre cur nxt post,
  all_num events ->
  eff maxc 0 events = pre ++ cur :: nxt :: post ->
  chain_ok_list (pre ++ [cur]) = true ->
  1 <= dur_steps (R (plan_tick R pre)) (e_dur cur) ->
  e_ctl cur && e_ctl nxt = false ->
  let A := spec cospi 1 mode (retime R (pre ++ [cur])) in
  (forall n, runv cospi R mode maxc 0 n (init events) = pad n (A ++ [OInvalid]))
  /\ length A = (if (point_tick R pre =? 0)%nat then 0 else 1 + point_tick R pre)%nat.
Proof.
  intros cospi R mode maxc events pre cur nxt post Hn He Hok HD Hctl.
  exact (runv_reject cospi R mode maxc events pre cur nxt post Hn He Hok HD Hctl).
Qed.
Print Assumptions C15_retime_reject.

(** On the timeline the track's tick 0 is the start tick t0; before it nothing is sent, from it on the track runs
    at the resolutions of the ticks t0, t0 + 1, ... *)
Theorem C15_retime_timeline : forall cospi n R mode maxc s q d events t0,
  all_num events ->
  start_tick_v (S n) R s q d = Some t0 ->
  let m := Nat.min n t0 in
  timeline_runv cospi n R mode maxc s q d events =
  repeat ONone m ++ pad (n - m) (spec cospi 1 mode (retime (fun k => R (m + k)%nat) (eff maxc 0 events))).
Proof.
  intros. rewrite (timeline_runv_started _ _ _ _ _ _ _ _ _ _ H0). f_equal. apply runv_spec. assumption.
Qed.
Print Assumptions C15_retime_timeline.

(** Non-vacuity: 480 ticks per beat when the track is scheduled, 24 from its first tick on, 12 from tick 30 on (in
    the middle of the second segment), 48 from tick 37 on (the tick on which the third segment is planned). *)
Example C15_retime_nonvacuous :
  let evs := [pt 10 1; pt 70 (1 # 2); pt 40 (1 # 4); pt 41 1] in
  let R := res_of 480 [(0, 24); (30, 12); (37, 48)] in
  let ops := [RTpb 24] ++ repeat RTick 30 ++ [RTpb 12] ++ repeat RTick 7 ++ [RTpb 48] ++ repeat RTick 20 in
  all_num evs /\ chain_ok_list evs = true /\ forallb has_keys evs = true
  /\ map (fun e => Qfloor (e_dur e)) (retime R evs) = [24; 12; 12; 48]
  /\ map (fun k => plan_tick R (firstn k evs)) [0; 1; 2]%nat = [0; 25; 37]%nat
  /\ map (fun k => point_tick R (firstn k evs)) [0; 1; 2; 3]%nat = [0; 24; 36; 48]%nat
  /\ rt_trace cos0 Linear None (480, init evs) ops = runv cos0 R Linear None 0 57 (init evs)
  /\ map (fun k => match nth k (runv cos0 R Linear None 0 57 (init evs)) ONone with
                    | OCall (VNum c) (VNum v) (VOpq 1) => Some (Qred c, Qred v) | _ => None end) [0; 12; 24; 30; 36; 48; 49]%nat
     = [Some (7, 10); Some (7, 40); Some (7, 70); Some (7, 55); Some (7, 40); Some (7, 41); None]%Q.
Proof.
  cbv zeta. split; [repeat constructor|]. vm_compute. repeat split.
Qed.


(** ---------------------------------------------------------------------------------------------
    Segments longer than any internal limit of the library (seeded C15-k)

    Every theorem above is for EVERY D = dur_steps tpb duration - 65 536 ticks, 67 200, anything.  What a check of such a
    segment needs is the closed form at ONE tick: [spec_at] (Sched/InterpAt.v) walks over the control points and subtracts
    segment lengths instead of building the list. *)
From Isobar Require Import Sched.InterpAt Generated.TablesPat.

(* for every stream, every n and every tick k < n: what the track does on tick k is [spec_at] at k *)
Theorem C15_trace_at : forall cospi tpb mode maxc events n k,
  all_num events -> (k < n)%nat ->
  nth k (run cospi tpb mode maxc n (init events)) ONone = spec_at cospi tpb mode (eff maxc 0 events) (Z.of_nat k).
Proof.
  intros cospi tpb mode maxc events n k Hn Hk. rewrite (run_msg _ _ _ _ _ _ _ Hn Hk). unfold msg.
  rewrite <- (spec_at_nth cospi tpb mode (eff maxc 0 events) (Z.of_nat k)) by lia. rewrite Nat2Z.id. reflexivity.
Qed.
Print Assumptions C15_trace_at.

(* a fade of 140 beats at 480 ticks per beat: 67 200 ticks, more than Pattern.LENGTH_MAX (the constant of the source under
   test).  Linear 0 -> 100, then 100 -> 50 in a quarter beat, then 50 -> 60 in one beat: the value LENGTH_MAX - 1, LENGTH_MAX and
   LENGTH_MAX + 1 ticks into the long segment, its end point on tick 67 200, the later points on ticks 67 320 and 67 800, one
   message on every tick, nothing after the last point *)
Example C15_long_segment_nonvacuous :
  let evs := [pt 0 140; pt 100 (1 # 4); pt 50 1; pt 60 1] in
  let val_at k := match spec_at cos0 480 Linear evs k with OCall (VNum c) (VNum v) (VOpq 1) => Some (Qred v) | _ => None end in
  dur_steps 480 140 = 67200 /\ LENGTH_MAX <= 67200 /\ span 480 evs = 67800
  /\ map val_at [0; LENGTH_MAX - 1; LENGTH_MAX; LENGTH_MAX + 1; 67199; 67200; 67201; 67320; 67800; 67801]
     = [Some 0; Some (Qred (100 * (65535 # 67200))); Some (Qred (100 * (65536 # 67200))); Some (Qred (100 * (65537 # 67200)));
        Some (Qred (100 * (67199 # 67200))); Some 100; Some (Qred (100 - 50 * (1 # 120))); Some 50; Some 60; None]%Q.
Proof. vm_compute. repeat split; discriminate. Qed.

(* Props/C14Rerun.v — property C14, the internal clock run SEVERAL TIMES (run, stop, time passes, run again ...):
   theorems about Clock/Rerun.v, which runs the unchanged clock model of Clock/ClockRun.v on every run segment from the
   state the previous run left behind, re-anchored at the first reading of the new run.  Lemmas: Clock/RerunProofs.v. *)
From Isobar Require Import Base.Prelude Clock.Multiplier Clock.MultiplierProofs Clock.ClockRun Clock.ClockRunProofs
  Clock.Rerun Clock.RerunProofs.
Local Open Scope Z_scope.

(* Each run IS the clock of Props/C14.v: the counts of a run are [clock_steps] (the function C14_catch_up and
   C14_tempo_between speak about) applied to the re-anchored state. *)
Theorem C14_rerun_is_clock_steps : forall out inn cb dmin rds s,
  snd (steps_st out inn cb dmin rds s) = clock_steps out inn cb dmin rds s.
Proof. exact steps_st_snd. Qed.
Print Assumptions C14_rerun_is_clock_steps.

(* ANY number of runs of one clock object, ANY pauses between them (nothing is assumed about how the readings of one run
   relate to those of another), the tempo possibly changed while stopped, any non-decreasing readings within each run:
   after every wake-up at reading t of a run that began at reading t0, the clock has delivered, since that run began,
   exactly the ticks owed for floor((t - t0) / d') clock ticks (d' = the tick duration in force in that run) — passed
   through the clock's rate converter, which goes on where the previous run left it (j clock ticks, T target ticks so far).
   The anchor c left by earlier runs does not occur on the right-hand side: the time spent stopped is not caught up. *)
Theorem C14_rerun_catch_up : forall out inn a b dmin segs c d j T,
  rate_ok out -> rate_ok inn -> multiple_of out inn = (a, b) -> refuses a b = false ->
  0 < dmin -> 0 <= j -> segs_ok dmin d segs ->
  run_segments out inn [] dmin (map plain_seg segs) (P a b c d j T) = (expect_segments a b d j T segs, COk).
Proof.
  intros out inn a b dmin segs c d j T Ho Hi M R Hm Hj Hok.
  exact (run_segments_steady out inn a b Ho Hi M R dmin Hm segs c d j T Hj Hok).
Qed.
Print Assumptions C14_rerun_catch_up.

(* the same for a fresh clock (tick duration d0) and a script without tempo changes, as the harness evaluates it *)
Theorem C14_rerun_fresh : forall out inn a b d0 segs,
  rate_ok out -> rate_ok inn -> multiple_of out inn = (a, b) -> refuses a b = false ->
  0 < d0 -> (forall x, In x segs -> fst (fst x) = None) -> segs_ok d0 d0 segs ->
  clock_rerun out inn [] d0 (map plain_seg segs) = (expect_segments a b d0 0 0 segs, COk).
Proof.
  intros out inn a b d0 segs Ho Hi M R Hd Hn Hok.
  unfold clock_rerun. rewrite (rerun_dmin_plain d0 segs Hn). unfold clock_init.
  change (mkC 0 d0 d0 MNew 0) with (P a b 0 d0 0 0).
  exact (run_segments_steady out inn a b Ho Hi M R d0 Hd segs 0 d0 0 0 ltac:(lia) Hok).
Qed.
Print Assumptions C14_rerun_fresh.

(* at the clock's own rate (a Timeline on its internal clock, a rate-less target): in the run that begins at t0 the
   count after the wake-up at t is (count on entry) + floor((t - t0) / d') *)
Theorem C14_rerun_unit : forall d j T chg t0 ts rest,
  hd [] (expect_segments 1 1 d j T ((chg, t0, ts) :: rest))
  = map (fun t => T + (t - t0) / (match chg with Some x => x | None => d end)) ts.
Proof. intros. exact (expect_unit_head d j T chg t0 ts rest). Qed.
Print Assumptions C14_rerun_unit.

(* the ticks of a run depend only on that run's readings (and on the tempo / converter state / count carried by the
   object): two clocks that differ only in the anchor their earlier runs left behind — i.e. in when they were stopped —
   behave identically from the next run on, for ALL scripts (tempo changes from callbacks and other threads included) *)
Theorem C14_rerun_pause_irrelevant : forall out inn cb dmin sg segs c1 c2 d o m T,
  run_segments out inn cb dmin (sg :: segs) (mkC c1 d o m T) = run_segments out inn cb dmin (sg :: segs) (mkC c2 d o m T).
Proof. intros. apply run_segments_anchor_irrelevant. Qed.
Print Assumptions C14_rerun_pause_irrelevant.

(* Non-vacuity: tick duration 10; run 1 from reading 1000; stopped for ~4000 units; run 2 from 5000 (2 more ticks in 25
   units, not 400); tempo halved while stopped (duration 20), run 3 from 5025 *)
Example C14_rerun_nonvacuous :
  segs_ok 10 10 [(None, 1000, [1000; 1005; 1035]); (None, 5000, [5000; 5025]); (Some 20, 5025, [5025; 5070])]
  /\ clock_rerun None (Some 480) [] 10
       (map plain_seg [(None, 1000, [1000; 1005; 1035]); (None, 5000, [5000; 5025]); (Some 20, 5025, [5025; 5070])])
     = ([[0; 0; 3]; [3; 5]; [5; 7]], COk)
  /\ expect_segments 1 1 10 0 0 [(None, 1000, [1000; 1005; 1035]); (None, 5000, [5000; 5025]); (Some 20, 5025, [5025; 5070])]
     = [[0; 0; 3]; [3; 5]; [5; 7]].
Proof. split; [cbn; lia | split; vm_compute; reflexivity]. Qed.

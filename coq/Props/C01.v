(* Props/C01.v — property C01: event onsets fall on the exact tick of their cumulative duration, drift-free.
   All statements are about the executable scheduler model (Sched/Model.v); lemmas in Sched/OnsetProofs.v
   and Sched/TimeProofs.v.  tau = tick length, N ev k = exact sum of the first k durations (all in units). *)
From Isobar Require Import Base.Prelude Base.Round8 Sched.Model Sched.OnsetProofs Sched.TimeProofs Sched.Obs Sched.Retick Sched.RetickProofs
  Sched.TickFrame Sched.ReachProofs Sched.ClockStepProofs.

(* Main statement.  A track on which start() has just run (next_event_time = current_time), unbounded
   event count, whose stream delivers ev 0, ev 1, ..., at least L events, each lasting >= one tick (on or
   off the tick grid), no device fault.  Then on EVERY tick j (no bound on j) before the L-th event boundary:
   the event handed to perform_event is ev k, with exactly k events performed before it, if and only if
   (j-1)*tau < N k <= j*tau, i.e. j is the first tick at or after start + exact sum of the preceding durations.
   So each event is performed exactly once, in order, and rounding to the tick grid is per event. *)
Theorem C01_onsets : forall cfg ev L tr0 nowT n0,
  0 < tau cfg -> (2 <= fuel cfg)%nat -> dev_fail cfg = None ->
  (forall k, (k < L)%nat -> tau cfg <= e_dur (ev k)) ->
  t_started tr0 = true -> t_next tr0 = t_cur tr0 -> fed ev L (t_stream tr0) 0 ->
  (t_max tr0 = None \/ t_max tr0 = Some 0) ->
  forall j k, (k < L)%nat -> Z.of_nat j * tau cfg < N ev L ->
  let trj := fst (track_run cfg nowT tr0 n0 j) in
  ((Z.of_nat j - 1) * tau cfg < N ev k <= Z.of_nat j * tau cfg
     -> tick_event cfg trj = Some (ev k) /\ t_count trj = t_count tr0 + Z.of_nat k)
  /\ (~ ((Z.of_nat j - 1) * tau cfg < N ev k <= Z.of_nat j * tau cfg)
     -> tick_event cfg trj = None \/ t_count trj <> t_count tr0 + Z.of_nat k).
Proof.
  intros cfg ev L tr0 nowT n0 Htau Hfuel Hfail Hdur Hs Hn Hfed Hm j k Hk Hh.
  assert (I : Inv cfg ev L (t_cur tr0) 0 0 0 tr0) by (apply start_inv; auto; lia).
  pose proof (onset_iff cfg ev L (t_cur tr0) 0 Htau Hfuel Hdur Hfail tr0 nowT n0 I j k Hk) as H.
  rewrite !Z.add_0_l in H. exact (H Hh).
Qed.
Print Assumptions C01_onsets.

(* Closed form: event k is performed on tick ceil(N k / tau) after the start, whatever happened before. *)
Theorem C01_onset_tick : forall cfg ev L tr0 nowT n0,
  0 < tau cfg -> (2 <= fuel cfg)%nat -> dev_fail cfg = None ->
  (forall k, (k < L)%nat -> tau cfg <= e_dur (ev k)) ->
  t_started tr0 = true -> t_next tr0 = t_cur tr0 -> fed ev L (t_stream tr0) 0 ->
  (t_max tr0 = None \/ t_max tr0 = Some 0) ->
  forall k, (k < L)%nat ->
  let j := Z.to_nat (cdiv (N ev k) (tau cfg)) in
  let trj := fst (track_run cfg nowT tr0 n0 j) in
  tick_event cfg trj = Some (ev k) /\ t_count trj = t_count tr0 + Z.of_nat k
  /\ t_cur trj = t_cur tr0 + Z.of_nat j * tau cfg.
Proof.
  intros cfg ev L tr0 nowT n0 Htau Hfuel Hfail Hdur Hs Hn Hfed Hm k Hk j trj.
  assert (I : Inv cfg ev L (t_cur tr0) 0 0 0 tr0) by (apply start_inv; auto; lia).
  pose proof (cdiv_spec (N ev k) (tau cfg) Htau) as C.
  assert (HN0 : 0 <= N ev k).
  { pose proof (N_le cfg ev L Htau Hfuel Hdur 0%nat k ltac:(lia) ltac:(lia)) as H. simpl in H. exact H. }
  assert (Hj : Z.of_nat j = cdiv (N ev k) (tau cfg)).
  { unfold j. rewrite Z2Nat.id; [reflexivity|]. nia. }
  assert (Hh : Z.of_nat j * tau cfg < 0 + N ev L).
  { destruct (Nat.eq_dec (S k) L) as [E|E].
    - subst L. simpl. specialize (Hdur k Hk). lia.
    - pose proof (N_le cfg ev L Htau Hfuel Hdur (S k) L ltac:(lia) ltac:(lia)) as H2. simpl in H2. specialize (Hdur k Hk). lia. }
  pose proof (onset_iff cfg ev L (t_cur tr0) 0 Htau Hfuel Hdur Hfail tr0 nowT n0 I j k Hk Hh) as [H _].
  destruct H as [H1 H2]; [lia|]. fold trj in H1, H2. split; [exact H1|]. split; [exact H2|].
  destruct (run_inv cfg ev L (t_cur tr0) 0 Htau Hfuel Hdur Hfail tr0 nowT n0 I j ltac:(lia)) as [p [Ip _]].
  fold trj in Ip. apply (i_cur _ _ _ _ _ _ _ _ Ip).
Qed.
Print Assumptions C01_onset_tick.

(* Rounding never accumulates: the onset tick of event k is a function of the exact sum N k alone, so two
   streams whose first k durations have the same exact sum perform their k-th event on the same tick,
   however differently the earlier events were rounded. *)
Theorem C01_no_compounding : forall cfg ev ev' k,
  N ev k = N ev' k -> Z.to_nat (cdiv (N ev k) (tau cfg)) = Z.to_nat (cdiv (N ev' k) (tau cfg)).
Proof. intros cfg ev ev' k H. rewrite H. reflexivity. Qed.

(* Nudging: Track.nudge(x) on a started track whose next event is due sh after its current time
   (sh = 0 right after start()) makes event k fall on the first tick at or after sh + x + N k:
   every later onset is shifted by exactly x before rounding to the grid.  (x of either sign, as long as
   the next event does not become overdue by a whole tick or more, -tau < sh + x.) *)
Theorem C01_nudge : forall cfg ev L tr0 nowT n0 sh x,
  0 < tau cfg -> (2 <= fuel cfg)%nat -> dev_fail cfg = None ->
  (forall k, (k < L)%nat -> tau cfg <= e_dur (ev k)) ->
  t_started tr0 = true -> t_next tr0 = t_cur tr0 + sh -> - tau cfg < sh + x ->
  fed ev L (t_stream tr0) 0 -> (t_max tr0 = None \/ t_max tr0 = Some 0) ->
  let nudged := set_next tr0 (t_next tr0 + x) in       (* = the effect of ONudge / Track.nudge(x) *)
  forall j k, (k < L)%nat -> Z.of_nat j * tau cfg < sh + x + N ev L ->
  (Z.of_nat j - 1) * tau cfg < sh + x + N ev k <= Z.of_nat j * tau cfg ->
  let trj := fst (track_run cfg nowT nudged n0 j) in
  tick_event cfg trj = Some (ev k) /\ t_count trj = t_count tr0 + Z.of_nat k.
Proof.
  intros cfg ev L tr0 nowT n0 sh x Htau Hfuel Hfail Hdur Hs Hn Hsh Hfed Hm nudged j k Hk Hh Hw trj.
  assert (I : Inv cfg ev L (t_cur tr0) (sh + x) 0 0 nudged) by (apply nudge_shift; auto).
  pose proof (onset_iff cfg ev L (t_cur tr0) (sh + x) Htau Hfuel Hdur Hfail nudged nowT n0 I j k Hk Hh) as [H _].
  exact (H Hw).
Qed.
Print Assumptions C01_nudge.

(* The timeline's clock: a tick that completes advances current_time by exactly one tick; no other
   operation changes it; after any history whose ticks all complete it reads (number of ticks) * tau. *)
Theorem C01_timeline_time : forall cfg ops tl, all_ticks_ok cfg tl ops = true ->
  now (run_state cfg tl ops) = now tl + ticks_in ops * tau cfg.
Proof. exact run_now. Qed.
Print Assumptions C01_timeline_time.

(* The implementation compares times after round(., 8); on any grid of fewer than 10^8 units per beat this is
   the exact comparison the model uses (r8 U a = round(a/U, 8) in units of 10^-8). *)
Theorem C01_round8_is_exact : forall U a b, 0 < U < 10 ^ 8 ->
  (r8 U a <=? r8 U b) = (a <=? b) /\ (r8 U a <? r8 U b) = (a <? b).
Proof. exact r8_compare. Qed.
Print Assumptions C01_round8_is_exact.

(* non-vacuity: a concrete started track with off-grid durations (tau = 3 units; durations 10, 10, 20 units,
   i.e. 1/3, 1/3, 2/3 beat at 10 ticks per beat) meets the hypotheses, and the closed form gives ticks 0, 4, 7 *)
Definition ex_ev (k : nat) : event :=
  mkEvent (nth k [10; 10; 20] 20) true (KNote [mkVoice (60 + Z.of_nat k) (Some 64) 0 (Some 5)]).
Definition ex_tr : track :=
  track_start (new_track 0 None true None) (mkStream [REvent (ex_ev 0); REvent (ex_ev 1); REvent (ex_ev 2)] 0 false).
Definition ex_cfg : config := mkConfig 3 [] 0 0 false false None 8.
Example C01_nonvacuous :
  (forall k, (k < 3)%nat -> tau ex_cfg <= e_dur (ex_ev k)) /\ fed ex_ev 3 (t_stream ex_tr) 0
  /\ t_started ex_tr = true /\ t_next ex_tr = t_cur ex_tr
  /\ map (fun k => cdiv (N ex_ev k) 3) [0; 1; 2]%nat = [0; 4; 7]
  /\ tick_event ex_cfg (fst (track_run ex_cfg 0 ex_tr 0 4)) = Some (ex_ev 1).
Proof.
  split; [intros [|[|[|k]]] Hk; simpl; try lia|].
  split; [intros [|[|[|i]]] Hi; try (exfalso; lia); reflexivity|].
  repeat split.
Qed.

(* ------------------------------------------------------------------------------------------------------------
   Histories in which the resolution is re-configured during the run, and events that nudge their own track
   (definitions in Sched/Retick.v, lemmas in Sched/RetickProofs.v).  These statements are about Timeline.tick
   itself (tl_tick: note-off phase, action phase, the track's turn with the callback of an action event run
   re-entrantly, the clocks) on a timeline whose only track [id] has been started (single_started; sh =
   next_event_time - current_time at that moment: 0 after start(), x after nudge(x)).
   cf j = the configuration in force during tick j (its tick length tau (cf j) may differ on every tick);
   Tm cf j = exact sum of the lengths of ticks 0 .. j-1 = the time at which tick j happens; gap cf j = length of the
   tick before tick j; nx k = the amount by which event k, while it is performed, nudges its own track;
   NX ev nx k = exact sum over the events before k of (duration + own nudge). *)

(* Main statement, most general form.  On EVERY tick j before the L-th event boundary the timeline still holds exactly the
   track; its clock and the timeline's clock have advanced by exactly Tm cf j (cumulative, whatever the sequence of
   resolutions); and the event handed to perform_event on tick j is ev k, with exactly k events performed before,
   if and only if  Tm cf j - gap cf j < sh + NX k <= Tm cf j:  tick j is the first tick at or after start + the exact
   sum of the preceding durations and self-nudges.  Durations must be at least one tick at every resolution in use. *)
Theorem C01_retick_onsets : forall cf ev nx L id tl tr0 sh,
  (forall j, 0 < tau (cf j)) -> (forall j, (2 <= fuel (cf j))%nat) -> (forall j, dev_fail (cf j) = None) ->
  (forall k j, (k < L)%nat -> tau (cf j) <= e_dur (ev k) /\ tau (cf j) <= e_dur (ev k) + nx k) ->
  (forall k, (k < L)%nat -> self_nudge cf id ev nx k) ->
  single_started tl tr0 id sh -> - tau (cf 0%nat) < sh -> fed ev L (t_stream tr0) 0 ->
  forall j k, (k < L)%nat -> Tm cf j < sh + NX ev nx L ->
  exists trj, tracks (ticks_v cf tl 0 j) = [trj]
    /\ t_cur trj = t_cur tr0 + Tm cf j /\ now (ticks_v cf tl 0 j) = now tl + Tm cf j
    /\ (Tm cf j - gap cf j < sh + NX ev nx k <= Tm cf j
         -> tick_event (cf j) trj = Some (ev k) /\ t_count trj = t_count tr0 + Z.of_nat k)
    /\ (~ (Tm cf j - gap cf j < sh + NX ev nx k <= Tm cf j)
         -> tick_event (cf j) trj = None \/ t_count trj <> t_count tr0 + Z.of_nat k).
Proof.
  intros cf ev nx L id tl tr0 sh Htau Hfuel Hfail Hdur Hself Hst Hsh Hfed j k Hk Hh.
  exact (onset_iff_v cf ev nx L id (t_cur tr0) sh Htau Hfuel Hfail Hdur Hself tl tr0
           (start_inv_v cf ev nx L id tl tr0 sh Hst Hsh Hfed) j k Hk Hh).
Qed.
Print Assumptions C01_retick_onsets.

(* The resolution is re-configured once: n1 >= 1 ticks under cfg1 (tick length tau1), then `timeline.ticks_per_beat = N`,
   then ticks under cfg2 (tau2); ordinary events (no self-nudge).  In the second segment the times of the ticks are
   n1*tau1 + j*tau2 - exact, cumulative - for the track's clock and the timeline's clock, and event k is performed on
   tick j >= 1 of the second segment iff  n1*tau1 + (j-1)*tau2 < sh + N k <= n1*tau1 + j*tau2: onsets after the change
   follow the new resolution from the exact position reached at the old one. *)
Theorem C01_retick_two_segments : forall cfg1 cfg2 n1 ev L id tl tr0 sh,
  0 < tau cfg1 -> 0 < tau cfg2 -> (2 <= fuel cfg1)%nat -> (2 <= fuel cfg2)%nat ->
  dev_fail cfg1 = None -> dev_fail cfg2 = None ->
  (forall k, (k < L)%nat -> tau cfg1 <= e_dur (ev k) /\ tau cfg2 <= e_dur (ev k) /\ plain_event (ev k)) ->
  single_started tl tr0 id sh -> - tau cfg1 < sh -> fed ev L (t_stream tr0) 0 -> (1 <= n1)%nat ->
  forall j k, (1 <= j)%nat -> (k < L)%nat ->
  let T := Z.of_nat n1 * tau cfg1 + Z.of_nat j * tau cfg2 in
  T < sh + N ev L ->
  let tlj := run_state cfg2 (run_state cfg1 tl (repeat OTick n1)) (repeat OTick j) in
  exists trj, tracks tlj = [trj] /\ t_cur trj = t_cur tr0 + T /\ now tlj = now tl + T
    /\ (T - tau cfg2 < sh + N ev k <= T
         -> tick_event cfg2 trj = Some (ev k) /\ t_count trj = t_count tr0 + Z.of_nat k)
    /\ (~ (T - tau cfg2 < sh + N ev k <= T)
         -> tick_event cfg2 trj = None \/ t_count trj <> t_count tr0 + Z.of_nat k).
Proof.
  intros cfg1 cfg2 n1 ev L id tl tr0 sh Ht1 Ht2 Hf1 Hf2 Hd1 Hd2 Hev Hst Hsh Hfed Hn1 j k Hj Hk T HT tlj.
  set (cf := two_cfg cfg1 cfg2 n1).
  assert (Hc0 : cf 0%nat = cfg1) by (unfold cf, two_cfg; destruct (0 <? n1)%nat eqn:E; [reflexivity|apply Nat.ltb_ge in E; lia]).
  assert (HcJ : cf (n1 + j)%nat = cfg2) by (unfold cf, two_cfg; destruct (n1 + j <? n1)%nat eqn:E; [apply Nat.ltb_lt in E; lia|reflexivity]).
  pose proof (C01_retick_onsets cf ev (fun _ => 0) L id tl tr0 sh
    (two_cfg_cases cfg1 cfg2 n1 (fun c => 0 < tau c) Ht1 Ht2)
    (two_cfg_cases cfg1 cfg2 n1 (fun c => (2 <= fuel c)%nat) Hf1 Hf2)
    (two_cfg_cases cfg1 cfg2 n1 (fun c => dev_fail c = None) Hd1 Hd2)) as H.
  specialize (H ltac:(intros k0 j0 Hk0; destruct (Hev k0 Hk0) as [A [B _]]; rewrite Z.add_0_r; split;
                      apply (two_cfg_cases cfg1 cfg2 n1 (fun c => tau c <= e_dur (ev k0)) A B))).
  specialize (H ltac:(intros k0 Hk0; apply plain_self_nudge; apply (Hev k0 Hk0))).
  specialize (H Hst ltac:(rewrite Hc0; exact Hsh) Hfed (n1 + j)%nat k Hk).
  unfold cf in H. rewrite Tm_two, gap_two, !NX_plain, ticks_v_two in H by exact Hn1. fold cf in H.
  replace (j =? 0)%nat with false in H by (symmetry; apply Nat.eqb_neq; lia).
  rewrite HcJ in H. exact (H HT).
Qed.
Print Assumptions C01_retick_two_segments.

(* Re-entrant nudges at a fixed resolution: event i, from inside its own performance (its action calls
   track.nudge(nx i) on the track that is performing it), nudges the track.  Then event k is performed on tick j
   iff  (j-1)*tau < sh + N k + XS nx k <= j*tau,  XS nx k = nx 0 + ... + nx (k-1): every nudge issued while an
   earlier event was being performed shifts ALL later onsets by exactly its amount, before rounding to the grid;
   none is lost, none is applied twice. *)
Theorem C01_self_nudge : forall cfg ev nx L id tl tr0 sh,
  0 < tau cfg -> (2 <= fuel cfg)%nat -> dev_fail cfg = None ->
  (forall k, (k < L)%nat -> tau cfg <= e_dur (ev k) /\ tau cfg <= e_dur (ev k) + nx k) ->
  (forall k, (k < L)%nat -> self_nudge (fun _ => cfg) id ev nx k) ->
  single_started tl tr0 id sh -> - tau cfg < sh -> fed ev L (t_stream tr0) 0 ->
  forall j k, (k < L)%nat -> Z.of_nat j * tau cfg < sh + N ev L + XS nx L ->
  let tlj := run_state cfg tl (repeat OTick j) in
  exists trj, tracks tlj = [trj] /\ t_cur trj = t_cur tr0 + Z.of_nat j * tau cfg
    /\ ((Z.of_nat j - 1) * tau cfg < sh + N ev k + XS nx k <= Z.of_nat j * tau cfg
         -> tick_event cfg trj = Some (ev k) /\ t_count trj = t_count tr0 + Z.of_nat k)
    /\ (~ ((Z.of_nat j - 1) * tau cfg < sh + N ev k + XS nx k <= Z.of_nat j * tau cfg)
         -> tick_event cfg trj = None \/ t_count trj <> t_count tr0 + Z.of_nat k).
Proof.
  intros cfg ev nx L id tl tr0 sh Htau Hfuel Hfail Hdur Hself Hst Hsh Hfed j k Hk Hh tlj.
  pose proof (C01_retick_onsets (fun _ => cfg) ev nx L id tl tr0 sh (fun _ => Htau) (fun _ => Hfuel) (fun _ => Hfail)
                (fun k0 _ Hk0 => Hdur k0 Hk0) Hself Hst Hsh Hfed j k Hk) as H.
  rewrite Tm_const, !NX_split, ticks_v_const in H.
  replace (gap (fun _ => cfg) j) with (tau cfg) in H by (destruct j; reflexivity).
  destruct (H ltac:(lia)) as [trj [A [B [_ [C D]]]]].
  exists trj. split; [exact A|]. split; [exact B|]. split.
  - intros W. apply C. lia.
  - intros W. apply D. lia.
Qed.
Print Assumptions C01_self_nudge.

(* The clocks under re-configuration: after segments of ticks run under different resolutions the timeline reads the
   exact sum of (number of ticks * tick length) over the segments - a change of resolution never moves the clock. *)
Theorem C01_retick_timeline_time : forall cfg1 cfg2 ops1 ops2 tl,
  all_ticks_ok cfg1 tl ops1 = true -> all_ticks_ok cfg2 (run_state cfg1 tl ops1) ops2 = true ->
  now (run_state_segs [(cfg1, ops1); (cfg2, ops2)] tl) = now tl + ticks_in ops1 * tau cfg1 + ticks_in ops2 * tau cfg2.
Proof.
  intros cfg1 cfg2 ops1 ops2 tl H1 H2. cbn [run_state_segs].
  rewrite (run_now cfg2 ops2 _ H2), (run_now cfg1 ops1 _ H1). reflexivity.
Qed.
Print Assumptions C01_retick_timeline_time.

(* non-vacuity.  (e) 10 -> 6 ticks per beat in units of 1/30 beat (tau 3 -> 5) after 4 ticks, durations 10, 10, 20 units
   (1/3, 1/3, 2/3 beat): a timeline on which schedule() has just run meets the hypotheses; the ticks of the second segment
   happen at 12, 17, 22, ... so event 2 (exact time 20) is performed on its tick 2 - tick 6 of the run - whereas a clock
   snapped to the new grid (15, 20, ...) or a stale tick length (15, 18, 21) would give tick 1 resp. tick 3.
   (f) the same stream as self-nudging actions: callback 0 = nudge(own track, 2 units); times 0, 12, 24: ticks 0, 4, 8. *)
Definition ex2_cfg1 : config := mkConfig 3 [(CbNone, [ONudge 0 2])] 0 0 false false None 8.
Definition ex2_cfg2 : config := mkConfig 5 [(CbNone, [ONudge 0 2])] 0 0 false false None 8.
Definition ex2_tl : timeline :=
  run_state ex2_cfg1 tl0 [OSchedule (mkStream [REvent (ex_ev 0); REvent (ex_ev 1); REvent (ex_ev 2)] 0 false) None None None true None true].
Definition ex2_tr : track := hd (new_track 0 None true None) (tracks ex2_tl).
Definition ex3_ev (k : nat) : event := mkEvent (nth k [10; 10; 20] 20) true (KAction 0).
Definition ex3_tl : timeline :=
  run_state ex2_cfg1 tl0 [OSchedule (mkStream [REvent (ex3_ev 0); REvent (ex3_ev 1); REvent (ex3_ev 2)] 0 false) None None None true None true].
Definition ex3_tr : track := hd (new_track 0 None true None) (tracks ex3_tl).
Example C01_retick_nonvacuous :
  single_started ex2_tl ex2_tr 0 0 /\ fed ex_ev 3 (t_stream ex2_tr) 0
  /\ (forall k, (k < 3)%nat -> tau ex2_cfg1 <= e_dur (ex_ev k) /\ tau ex2_cfg2 <= e_dur (ex_ev k) /\ plain_event (ex_ev k))
  /\ map (fun o => fst (fst o)) (run_segs [seg ex2_cfg1 [hop OTick 4]; seg ex2_cfg2 [hop OTick 3]] ex2_tl)
     = [[CNoteOn 60 64 0]; []; [CNoteOff 60 0]; []; [CNoteOn 61 64 0]; [CNoteOff 61 0]; [CNoteOn 62 64 0]]
  /\ now (run_state_segs [seg ex2_cfg1 [hop OTick 4]; seg ex2_cfg2 [hop OTick 3]] ex2_tl) = 4 * 3 + 3 * 5.
Proof.
  split; [repeat split; auto|].
  split; [intros [|[|[|i]]] Hi; try (exfalso; lia); reflexivity|].
  split; [intros [|[|[|k]]] Hk; simpl; try lia; repeat split; try lia|].
  split; reflexivity.
Qed.
Example C01_self_nudge_nonvacuous :
  single_started ex3_tl ex3_tr 0 0 /\ fed ex3_ev 3 (t_stream ex3_tr) 0
  /\ (forall k, (k < 3)%nat -> self_nudge (fun _ => ex2_cfg1) 0 ex3_ev (fun _ => 2) k)
  /\ map (fun k => cdiv (N ex3_ev k + XS (fun _ => 2) k) 3) [0; 1; 2]%nat = [0; 4; 8]
  /\ map (fun o => fst (fst o)) (run ex2_cfg1 ex3_tl (repeat OTick 9))
     = [[CCallback 0]; []; []; []; [CCallback 0]; []; []; []; [CCallback 0]].
Proof.
  split; [repeat split; auto|].
  split; [intros [|[|[|i]]] Hi; try (exfalso; lia); reflexivity|].
  split; [intros [|[|[|k]]] Hk; try (exfalso; lia); intros j; reflexivity|].
  split; reflexivity.
Qed.

(* ------------------------------------------------------------------------------------------------------------
   Ticks that are cut short by an exception (lemmas in Sched/ClockStepProofs.v).  Track.tick advances the track's clock in
   its last statement; a device fault, a failing pattern or (in the model: never, perform_event swallows it) a callback
   fault that leaves Track.tick skips that statement.  C01_timeline_time speaks about the timeline's clock only, and
   C01_onsets / C01_retick_onsets about a track whose ticks all run to the end.  What ties them together in EVERY history -
   any number of tracks, callbacks that schedule / update / unschedule / clear, faults in tolerant or intolerant mode - is: *)

(* One tick.  If Timeline.tick completes, then its clock has advanced by one tick and every track that was started before
   the tick and is still scheduled after it has had ITS clock advanced by exactly one tick in that tick (and is still
   started).  So no scheduled track ever carries a tick that was cut short: the track whose tick raised has been removed
   (tolerant mode), or the tick did not complete (intolerant mode: the exception left Timeline.tick; out of fuel). *)
Theorem C01_survivors_advance : forall cfg tl, wf tl ->
  let '(tl', _, res) := tl_tick cfg tl in
  res = ROk ->
  now tl' = now tl + tau cfg /\ wf tl' /\ (next_id tl <= next_id tl')%nat /\
  forall id tr tr', find_track id (tracks tl) = Some tr -> t_started tr = true ->
    find_track id (tracks tl') = Some tr' -> t_cur tr' = t_cur tr + tau cfg /\ t_started tr' = true.
Proof. exact tick_advances_survivors. Qed.
Print Assumptions C01_survivors_advance.

(* Histories.  In any state a performance can reach (any history h from the empty timeline) and for any further history
   whose ticks all complete: a track that is started now and is still scheduled at the end has advanced exactly as much as
   the timeline, i.e. Track.current_time = Timeline.current_time - start throughout its life, and that amount is
   (number of ticks) * tau.  Every onset theorem above therefore applies to every track that survives, with the timeline's
   tick count as its own. *)
Theorem C01_clocks_in_step : forall cfg h ops,
  let tl := run_state cfg tl0 h in
  all_ticks_ok cfg tl ops = true ->
  forall id tr tr', find_track id (tracks tl) = Some tr -> t_started tr = true ->
  find_track id (tracks (run_state cfg tl ops)) = Some tr' ->
  t_cur tr' - t_cur tr = now (run_state cfg tl ops) - now tl
  /\ t_cur tr' - t_cur tr = ticks_in ops * tau cfg /\ t_started tr' = true.
Proof.
  intros cfg h ops tl OK id tr tr' F St F'.
  assert (W : wf tl) by (apply (reachable_wf cfg); apply history_reachable).
  destruct (clocks_in_step cfg ops tl W OK id tr tr' F St F') as [C S].
  split; [exact C|]. split; [|exact S]. rewrite C, (run_now cfg ops tl OK). lia.
Qed.
Print Assumptions C01_clocks_in_step.

(* non-vacuity: tolerant mode, the device refuses its second call (index 1), which is the first note of the second of two
   tracks: that track's tick is cut short and it is removed in that very tick; all ticks complete; the first track is still
   scheduled after 5 ticks and its clock reads what the timeline's reads (15 units), having played on ticks 0 and 4. *)
Definition ex4_cfg : config := mkConfig 3 [] 0 0 false true (Some 1%nat) 8.
Definition ex4_tl : timeline :=
  run_state ex4_cfg tl0
    [OSchedule (mkStream [REvent (ex_ev 0); REvent (ex_ev 1)] 0 true) None None None true None true;
     OSchedule (mkStream [REvent (ex_ev 2)] 0 true) None None None true None true].
Example C01_clocks_in_step_nonvacuous :
  map t_id (tracks ex4_tl) = [0; 1]%nat /\ forallb t_started (tracks ex4_tl) = true
  /\ all_ticks_ok ex4_cfg ex4_tl (repeat OTick 5) = true
  /\ map (fun o => (fst (fst o), snd o)) (run ex4_cfg ex4_tl (repeat OTick 5))
     = [([CNoteOn 60 64 0], [0%nat]); ([], [0%nat]); ([CNoteOff 60 0], [0%nat]); ([], [0%nat]); ([CNoteOn 61 64 0], [0%nat])]
  /\ map t_cur (tracks (run_state ex4_cfg ex4_tl (repeat OTick 5))) = [15]
  /\ now (run_state ex4_cfg ex4_tl (repeat OTick 5)) = 15.
Proof. repeat split. Qed.

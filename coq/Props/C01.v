(* Props/C01.v — property C01: event onsets fall on the exact tick of their cumulative duration, drift-free.
   All statements are about the executable scheduler model (Sched/Model.v); lemmas in Sched/OnsetProofs.v
   and Sched/TimeProofs.v.  tau = tick length, N ev k = exact sum of the first k durations (all in units). *)
From Isobar Require Import Base.Prelude Base.Round8 Sched.Model Sched.OnsetProofs Sched.TimeProofs.

(* Main statement.  A track on which start() has just run (next_event_time = current_time), unbounded
   event count, whose stream delivers ev 0, ev 1, ..., at least L events, each lasting >= one tick (on or
   off the tick grid), no device fault.  Then on EVERY tick j (no bound on j) before the L-th event boundary:
   the event handed to perform_event is ev k, with exactly k events performed before it, if and only if
   (j-1)*tau < N k <= j*tau, i.e. j is the first tick at or after start + exact sum of the preceding durations.
   So each event is performed exactly once, in order, and rounding to the tick grid is per event. *)
Theorem C01_onsets : forall cfg ev L tr0 nowT n0,
  0 < tau cfg -> (2 <= fuel cfg)%nat -> dev_fail cfg = None ->
  (forall k, (k < L)%nat -> tau cfg <= e_dur (ev k)) ->
  t_started tr0 = true -> t_next tr0 = t_cur tr0 -> fed ev L (t_stream tr0) 0 ->
  (t_max tr0 = None \/ t_max tr0 = Some 0) ->
  forall j k, (k < L)%nat -> Z.of_nat j * tau cfg < N ev L ->
  let trj := fst (track_run cfg nowT tr0 n0 j) in
  ((Z.of_nat j - 1) * tau cfg < N ev k <= Z.of_nat j * tau cfg
     -> tick_event cfg trj = Some (ev k) /\ t_count trj = t_count tr0 + Z.of_nat k)
  /\ (~ ((Z.of_nat j - 1) * tau cfg < N ev k <= Z.of_nat j * tau cfg)
     -> tick_event cfg trj = None \/ t_count trj <> t_count tr0 + Z.of_nat k).
Proof.
  intros cfg ev L tr0 nowT n0 Htau Hfuel Hfail Hdur Hs Hn Hfed Hm j k Hk Hh.
  assert (I : Inv cfg ev L (t_cur tr0) 0 0 0 tr0) by (apply start_inv; auto; lia).
  pose proof (onset_iff cfg ev L (t_cur tr0) 0 Htau Hfuel Hdur Hfail tr0 nowT n0 I j k Hk) as H.
  rewrite !Z.add_0_l in H. exact (H Hh).
Qed.
Print Assumptions C01_onsets.

(* Closed form: event k is performed on tick ceil(N k / tau) after the start, whatever happened before. *)
Theorem C01_onset_tick : forall cfg ev L tr0 nowT n0,
  0 < tau cfg -> (2 <= fuel cfg)%nat -> dev_fail cfg = None ->
  (forall k, (k < L)%nat -> tau cfg <= e_dur (ev k)) ->
  t_started tr0 = true -> t_next tr0 = t_cur tr0 -> fed ev L (t_stream tr0) 0 ->
  (t_max tr0 = None \/ t_max tr0 = Some 0) ->
  forall k, (k < L)%nat ->
  let j := Z.to_nat (cdiv (N ev k) (tau cfg)) in
  let trj := fst (track_run cfg nowT tr0 n0 j) in
  tick_event cfg trj = Some (ev k) /\ t_count trj = t_count tr0 + Z.of_nat k
  /\ t_cur trj = t_cur tr0 + Z.of_nat j * tau cfg.
Proof.
  intros cfg ev L tr0 nowT n0 Htau Hfuel Hfail Hdur Hs Hn Hfed Hm k Hk j trj.
  assert (I : Inv cfg ev L (t_cur tr0) 0 0 0 tr0) by (apply start_inv; auto; lia).
  pose proof (cdiv_spec (N ev k) (tau cfg) Htau) as C.
  assert (HN0 : 0 <= N ev k).
  { pose proof (N_le cfg ev L Htau Hfuel Hdur 0%nat k ltac:(lia) ltac:(lia)) as H. simpl in H. exact H. }
  assert (Hj : Z.of_nat j = cdiv (N ev k) (tau cfg)).
  { unfold j. rewrite Z2Nat.id; [reflexivity|]. nia. }
  assert (Hh : Z.of_nat j * tau cfg < 0 + N ev L).
  { destruct (Nat.eq_dec (S k) L) as [E|E].
    - subst L. simpl. specialize (Hdur k Hk). lia.
    - pose proof (N_le cfg ev L Htau Hfuel Hdur (S k) L ltac:(lia) ltac:(lia)) as H2. simpl in H2. specialize (Hdur k Hk). lia. }
  pose proof (onset_iff cfg ev L (t_cur tr0) 0 Htau Hfuel Hdur Hfail tr0 nowT n0 I j k Hk Hh) as [H _].
  destruct H as [H1 H2]; [lia|]. fold trj in H1, H2. split; [exact H1|]. split; [exact H2|].
  destruct (run_inv cfg ev L (t_cur tr0) 0 Htau Hfuel Hdur Hfail tr0 nowT n0 I j ltac:(lia)) as [p [Ip _]].
  fold trj in Ip. apply (i_cur _ _ _ _ _ _ _ _ Ip).
Qed.
Print Assumptions C01_onset_tick.

(* Rounding never accumulates: the onset tick of event k is a function of the exact sum N k alone, so two
   streams whose first k durations have the same exact sum perform their k-th event on the same tick,
   however differently the earlier events were rounded. *)
Theorem C01_no_compounding : forall cfg ev ev' k,
  N ev k = N ev' k -> Z.to_nat (cdiv (N ev k) (tau cfg)) = Z.to_nat (cdiv (N ev' k) (tau cfg)).
Proof. intros cfg ev ev' k H. rewrite H. reflexivity. Qed.

(* Nudging: Track.nudge(x) on a started track whose next event is due sh after its current time
   (sh = 0 right after start()) makes event k fall on the first tick at or after sh + x + N k:
   every later onset is shifted by exactly x before rounding to the grid.  (x of either sign, as long as
   the next event does not become overdue by a whole tick or more, -tau < sh + x.) *)
Theorem C01_nudge : forall cfg ev L tr0 nowT n0 sh x,
  0 < tau cfg -> (2 <= fuel cfg)%nat -> dev_fail cfg = None ->
  (forall k, (k < L)%nat -> tau cfg <= e_dur (ev k)) ->
  t_started tr0 = true -> t_next tr0 = t_cur tr0 + sh -> - tau cfg < sh + x ->
  fed ev L (t_stream tr0) 0 -> (t_max tr0 = None \/ t_max tr0 = Some 0) ->
  let nudged := set_next tr0 (t_next tr0 + x) in       (* = the effect of ONudge / Track.nudge(x) *)
  forall j k, (k < L)%nat -> Z.of_nat j * tau cfg < sh + x + N ev L ->
  (Z.of_nat j - 1) * tau cfg < sh + x + N ev k <= Z.of_nat j * tau cfg ->
  let trj := fst (track_run cfg nowT nudged n0 j) in
  tick_event cfg trj = Some (ev k) /\ t_count trj = t_count tr0 + Z.of_nat k.
Proof.
  intros cfg ev L tr0 nowT n0 sh x Htau Hfuel Hfail Hdur Hs Hn Hsh Hfed Hm nudged j k Hk Hh Hw trj.
  assert (I : Inv cfg ev L (t_cur tr0) (sh + x) 0 0 nudged) by (apply nudge_shift; auto).
  pose proof (onset_iff cfg ev L (t_cur tr0) (sh + x) Htau Hfuel Hdur Hfail nudged nowT n0 I j k Hk Hh) as [H _].
  exact (H Hw).
Qed.
Print Assumptions C01_nudge.

(* The timeline's clock: a tick that completes advances current_time by exactly one tick; no other
   operation changes it; after any history whose ticks all complete it reads (number of ticks) * tau. *)
Theorem C01_timeline_time : forall cfg ops tl, all_ticks_ok cfg tl ops = true ->
  now (run_state cfg tl ops) = now tl + ticks_in ops * tau cfg.
Proof. exact run_now. Qed.
Print Assumptions C01_timeline_time.

(* The implementation compares times after round(., 8); on any grid of fewer than 10^8 units per beat this is
   the exact comparison the model uses (r8 U a = round(a/U, 8) in units of 10^-8). *)
Theorem C01_round8_is_exact : forall U a b, 0 < U < 10 ^ 8 ->
  (r8 U a <=? r8 U b) = (a <=? b) /\ (r8 U a <? r8 U b) = (a <? b).
Proof. exact r8_compare. Qed.
Print Assumptions C01_round8_is_exact.

(* non-vacuity: a concrete started track with off-grid durations (tau = 3 units; durations 10, 10, 20 units,
   i.e. 1/3, 1/3, 2/3 beat at 10 ticks per beat) meets the hypotheses, and the closed form gives ticks 0, 4, 7 *)
Definition ex_ev (k : nat) : event :=
  mkEvent (nth k [10; 10; 20] 20) true (KNote [mkVoice (60 + Z.of_nat k) (Some 64) 0 (Some 5)]).
Definition ex_tr : track :=
  track_start (new_track 0 None true None) (mkStream [REvent (ex_ev 0); REvent (ex_ev 1); REvent (ex_ev 2)] 0 false).
Definition ex_cfg : config := mkConfig 3 [] 0 0 false false None 8.
Example C01_nonvacuous :
  (forall k, (k < 3)%nat -> tau ex_cfg <= e_dur (ex_ev k)) /\ fed ex_ev 3 (t_stream ex_tr) 0
  /\ t_started ex_tr = true /\ t_next ex_tr = t_cur ex_tr
  /\ map (fun k => cdiv (N ex_ev k) 3) [0; 1; 2]%nat = [0; 4; 7]
  /\ tick_event ex_cfg (fst (track_run ex_cfg 0 ex_tr 0 4)) = Some (ex_ev 1).
Proof.
  split; [intros [|[|[|k]]] Hk; simpl; try lia|].
  split; [intros [|[|[|i]]] Hi; try (exfalso; lia); reflexivity|].
  repeat split.
Qed.

(* Props/C19.v — property C19: output devices encode exactly what the track asked for.
   Only the property theorems live here; each is closed by lemmas of IO/MidiBytesProofs.v,
   IO/OscProofs.v, IO/MpeProofs.v.  The models (IO/MidiBytes.v, IO/Osc.v, IO/Mpe.v) are tied to
   isobar/io/{midi,midifile,osc,mpe} by the correspondence check of harness/c19.py. *)
From Isobar Require Import Base.Prelude IO.MidiBytes IO.MidiBytesProofs IO.Osc IO.OscProofs IO.Mpe IO.MpeProofs.
From Coq Require Import QArith.
Open Scope Z_scope.

(** ======================= MIDI port and MIDI file ======================= *)

(* every valid channel-voice message is recovered from its wire bytes *)
Theorem C19_midi_roundtrip : forall m, msg_valid m = true -> midi_decode (midi_encode m) = Some m.
Proof. exact midi_roundtrip. Qed.
Print Assumptions C19_midi_roundtrip.

(* the same with the ranges of the property spelled out: notes, velocities, values, programs
   0..127, channels 0..15, pitch -8192..8191 *)
Theorem C19_midi_roundtrip_ranges : forall ch a b p,
  0 <= ch <= 15 -> 0 <= a <= 127 -> 0 <= b <= 127 -> -8192 <= p <= 8191 ->
  midi_decode (midi_encode (NoteOn ch a b)) = Some (NoteOn ch a b) /\
  midi_decode (midi_encode (NoteOff ch a b)) = Some (NoteOff ch a b) /\
  midi_decode (midi_encode (ControlChange ch a b)) = Some (ControlChange ch a b) /\
  midi_decode (midi_encode (ProgramChange ch a)) = Some (ProgramChange ch a) /\
  midi_decode (midi_encode (ChannelPressure ch a)) = Some (ChannelPressure ch a) /\
  midi_decode (midi_encode (PitchWheel ch p)) = Some (PitchWheel ch p).
Proof.
  intros ch a b p Hc Ha Hb Hp.
  repeat split; apply midi_roundtrip; cbn [msg_valid]; unfold is_chan, is_data, is_pitch; lia.
Qed.
Print Assumptions C19_midi_roundtrip_ranges.

(* two different requests never share a wire encoding *)
Theorem C19_midi_injective : forall m1 m2,
  msg_valid m1 = true -> msg_valid m2 = true -> midi_encode m1 = midi_encode m2 -> m1 = m2.
Proof. exact midi_encode_inj. Qed.
Print Assumptions C19_midi_injective.

(* the device sends exactly the encoding of an in-range request, and nothing for an out-of-range
   one (mido raises) *)
Theorem C19_midi_device : forall m,
  (msg_valid m = true -> checked m = Some (midi_encode m) /\ midi_decode (midi_encode m) = Some m
                          /\ wire_shape (midi_encode m) = true) /\
  (msg_valid m = false -> checked m = None).
Proof.
  intros m. split; intros H.
  - destruct (checked_some m H) as [A B]. split; [exact A|]. split; [exact B|]. apply midi_encode_shape; exact H.
  - apply checked_none; exact H.
Qed.
Print Assumptions C19_midi_device.

(* float-valued arguments: int() is truncation toward zero, and every request is the request of
   the truncated arguments (63.9 -> 63, never rounded to 64) *)
Theorem C19_trunc_toward_zero : forall q : Q,
  ((0 <= q)%Q -> (inject_Z (trunc q) <= q)%Q /\ (q < inject_Z (trunc q + 1))%Q) /\
  ((q <= 0)%Q -> (inject_Z (trunc q - 1) < q)%Q /\ (q <= inject_Z (trunc q))%Q) /\
  (forall z, trunc (inject_Z z) = z).
Proof.
  intros q. destruct (trunc_toward_zero q) as [A B]. split; [exact A|]. split; [exact B|]. exact trunc_int.
Qed.
Print Assumptions C19_trunc_toward_zero.

Theorem C19_midi_float_truncation : forall a b c : Q,
  let ta := inject_Z (trunc a) in let tb := inject_Z (trunc b) in let tc := inject_Z (trunc c) in
  dev_note_on a b c = dev_note_on ta tb tc /\
  dev_note_off a c = dev_note_off ta tc /\
  dev_control a b c = dev_control ta tb tc /\
  dev_program a c = dev_program ta tc /\
  dev_aftertouch a c = dev_aftertouch ta tc /\
  dev_pitch_bend a c = dev_pitch_bend ta tc /\
  req_note_on a b c = NoteOn (trunc c) (trunc a) (trunc b).
Proof.
  intros a b c ta tb tc. subst ta tb tc.
  unfold dev_note_on, dev_note_off, dev_control, dev_program, dev_aftertouch, dev_pitch_bend.
  rewrite <- req_note_on_trunc, <- req_note_off_trunc, <- req_control_trunc, <- req_program_trunc,
    <- req_aftertouch_trunc, <- req_pitch_bend_trunc.
  repeat split; reflexivity.
Qed.
Print Assumptions C19_midi_float_truncation.

(* a computed cross-check of the general theorem on the edges of the domain (every channel, every
   message kind, data bytes 0, 1, 63, 64, 126, 127, pitch-wheel values around every 7-bit carry) *)
Definition rt_ok (m : midi_msg) : bool :=
  match midi_decode (midi_encode m) with Some m' => msg_eqb m m' | None => false end.
Definition edge_data : list Z := [0; 1; 63; 64; 126; 127].
Example C19_midi_edge_sweep :
  forallb (fun c => forallb (fun n => forallb (fun v =>
     rt_ok (NoteOn c n v) && rt_ok (NoteOff c n v) && rt_ok (ControlChange c n v)) edge_data
     && rt_ok (ProgramChange c n) && rt_ok (ChannelPressure c n)) edge_data
     && forallb (fun p => rt_ok (PitchWheel c p))
          [-8192; -8191; -8065; -8064; -129; -128; -127; -1; 0; 1; 127; 128; 129; 8063; 8064; 8190; 8191])
    (zrange 0 16) = true.
Proof. vm_compute. reflexivity. Qed.

Example C19_midi_nonvacuous :
  dev_note_on (639 # 10) (1279 # 10) (152 # 10) = Some [159; 63; 127]
  /\ dev_note_off (-1 # 2) (0 # 1) = Some [128; 0; 64]
  /\ dev_pitch_bend (-81925 # 10) (3 # 1) = Some [227; 0; 0]
  /\ dev_note_on (128 # 1) (0 # 1) (0 # 1) = None
  /\ midi_decode [159; 63; 127] = Some (NoteOn 15 63 127).
Proof. vm_compute. repeat split. Qed.

(** ======================= OSC ======================= *)

(* every address and every argument list (any length) of int32s, float payloads and NUL-free
   strings is recovered from the datagram *)
Theorem C19_osc_roundtrip : forall addr args,
  nonzero_bytes addr = true -> forallb arg_ok args = true ->
  osc_decode (osc_encode addr args) = Some (addr, args).
Proof. exact osc_roundtrip. Qed.
Print Assumptions C19_osc_roundtrip.

Theorem C19_osc_injective : forall a1 l1 a2 l2,
  nonzero_bytes a1 = true -> forallb arg_ok l1 = true ->
  nonzero_bytes a2 = true -> forallb arg_ok l2 = true ->
  osc_encode a1 l1 = osc_encode a2 l2 -> a1 = a2 /\ l1 = l2.
Proof. exact osc_encode_inj. Qed.
Print Assumptions C19_osc_injective.

(* the documented forms: /note [note, velocity, channel] (velocity 0 for note_off),
   /control [control, value, channel]; send(address, params) carries the address and the params *)
Theorem C19_osc_forms : forall a b c : osc_arg,
  arg_ok a = true -> arg_ok b = true -> arg_ok c = true ->
  osc_decode (osc_wire (osc_note_on a b c)) = Some (addr_note, [a; b; c]) /\
  osc_decode (osc_wire (osc_note_off a c)) = Some (addr_note, [a; OInt 0; c]) /\
  osc_decode (osc_wire (osc_control a b c)) = Some (addr_control, [a; b; c]) /\
  (forall addr ps, nonzero_bytes addr = true -> forallb arg_ok ps = true ->
     osc_decode (osc_wire (osc_send addr (Some ps))) = Some (addr, ps) /\
     osc_decode (osc_wire (osc_send addr None)) = Some (addr, [])).
Proof.
  intros a b c Ha Hb Hc. unfold osc_wire, osc_note_on, osc_note_off, osc_control, osc_send; cbn [fst snd].
  repeat split; try (apply osc_roundtrip; [reflexivity | cbn [forallb]; rewrite ?Ha, ?Hb, ?Hc; reflexivity]).
  - apply osc_roundtrip; assumption.
  - apply osc_roundtrip; [assumption | reflexivity].
Qed.
Print Assumptions C19_osc_forms.

(* ... and byte for byte for integer arguments (notes, velocities, channels are < 256) *)
Theorem C19_osc_forms_bytes : forall n v c, 0 <= n <= 255 -> 0 <= v <= 255 -> 0 <= c <= 255 ->
  osc_wire (osc_note_on (OInt n) (OInt v) (OInt c))
  = [47; 110; 111; 116; 101; 0; 0; 0;  44; 105; 105; 105; 0; 0; 0; 0;
     0; 0; 0; n;  0; 0; 0; v;  0; 0; 0; c] /\
  osc_wire (osc_control (OInt n) (OInt v) (OInt c))
  = [47; 99; 111; 110; 116; 114; 111; 108; 0; 0; 0; 0;  44; 105; 105; 105; 0; 0; 0; 0;
     0; 0; 0; n;  0; 0; 0; v;  0; 0; 0; c].
Proof. intros n v c Hn Hv Hc. split; [apply osc_note_on_bytes | apply osc_control_bytes]; assumption. Qed.
Print Assumptions C19_osc_forms_bytes.

Theorem C19_osc_aligned : forall addr args, Nat.modulo (List.length (osc_encode addr args)) 4 = 0%nat.
Proof. exact osc_encode_aligned. Qed.

Example C19_osc_nonvacuous :
  let msg := ([47; 97], [OInt 1; OFloat 64 32 0 0; OStr [120]; OInt (-2); OStr []]) in
  nonzero_bytes (fst msg) = true /\ forallb arg_ok (snd msg) = true
  /\ osc_wire msg = [47; 97; 0; 0;  44; 105; 102; 115; 105; 115; 0; 0;  0; 0; 0; 1;  64; 32; 0; 0;
                     120; 0; 0; 0;  255; 255; 255; 254;  0; 0; 0; 0]
  /\ osc_decode (osc_wire msg) = Some msg.
Proof. vm_compute. repeat split. Qed.

(** ======================= MPE ======================= *)

(* For EVERY sequence of note_on / note_off / per-note expression calls in which note_on is only
   called for a note that is up, with fewer than 15 notes already down, and note_off / expression
   only for notes that are down ([mpe_wf]):  every note_on is sent, on a channel in 1..15 that no
   other sounding note uses; note_off and expression go out on the channel of that note's
   note_on; the release removes the pair, so the channel can be (and is) given out again. *)
Theorem C19_mpe : forall cs, mpe_wf [] cs -> mpe_trace_ok [] cs (mpe_run mpe_init cs).
Proof. intros cs W. apply mpe_run_ok; [exact inv_init | exact W]. Qed.
Print Assumptions C19_mpe.

(* in every reachable state: distinct held notes have distinct channels, all in 1..15, and the
   notes the device believes to be down are exactly those the calls left down *)
Theorem C19_mpe_channels_distinct : forall cs, mpe_wf [] cs ->
  let s := mpe_final mpe_init cs in
  (forall n1 n2 c, note_chan s n1 = Some c -> note_chan s n2 = Some c -> n1 = n2) /\
  (forall n c, note_chan s n = Some c -> 1 <= c <= 15) /\
  (forall n, In n (held_after [] cs) <-> note_chan s n <> None).
Proof.
  intros cs W s. destruct (mpe_final_inv cs [] mpe_init inv_init W) as [h [I E]]. cbn [map] in E.
  split; [intros n1 n2 c; apply (inv_distinct h); exact I|].
  split; [intros n c; apply (inv_range h); exact I|].
  intros n. rewrite <- E. apply inv_held. exact I.
Qed.
Print Assumptions C19_mpe_channels_distinct.

(* release frees the channel: after any well-formed history, note_off of a held note goes out on
   that note's channel and leaves the channel unassigned *)
Theorem C19_mpe_release_frees : forall cs n, mpe_wf [] cs -> In n (held_after [] cs) ->
  let s := mpe_final mpe_init cs in
  exists c, note_chan s n = Some c
         /\ snd (mpe_step s (Off n)) = Wire (NoteOff c n default_release_velocity)
         /\ chan_note (fst (mpe_step s (Off n))) c = None
         /\ note_chan (fst (mpe_step s (Off n))) n = None.
Proof.
  intros cs n W Hn s. destruct (mpe_final_inv cs [] mpe_init inv_init W) as [h [I E]]. cbn [map] in E.
  rewrite <- E in Hn. destruct (step_off h s n I Hn) as [c [Es [Hc _]]].
  exists c. destruct I as [I1 _]. split; [apply I1; exact Hc|].
  fold s in Es. rewrite Es. cbn [fst snd chan_note note_chan]. rewrite !upd_same. auto.
Qed.
Print Assumptions C19_mpe_release_frees.

(* any number of successive notes: after any well-formed history with fewer than 15 notes down,
   the next note_on is sent (never dropped) *)
Theorem C19_mpe_never_starved : forall cs n v, mpe_wf [] cs ->
  ~ In n (held_after [] cs) -> (List.length (held_after [] cs) < 15)%nat ->
  exists c, snd (mpe_step (mpe_final mpe_init cs) (On n v)) = Wire (NoteOn c n v) /\ 1 <= c <= 15.
Proof.
  intros cs n v W Hn Hlen. destruct (mpe_final_inv cs [] mpe_init inv_init W) as [h [I E]]. cbn [map] in E.
  rewrite <- E in Hn, Hlen. rewrite map_length in Hlen.
  destruct (step_on h _ n v I Hn Hlen) as [c [Es [Hc _]]]. exists c. rewrite Es. auto.
Qed.
Print Assumptions C19_mpe_never_starved.

Example C19_mpe_nonvacuous :
  let cs := [On 60 100; On 64 90; Off 60; On 67 80; Bend 64 100; Off 64; On 72 1; Off 67; Off 72] in
  mpe_wf [] cs
  /\ mpe_run mpe_init cs
     = [Wire (NoteOn 1 60 100); Wire (NoteOn 2 64 90); Wire (NoteOff 1 60 64); Wire (NoteOn 1 67 80);
        Wire (PitchWheel 2 100); Wire (NoteOff 2 64 64); Wire (NoteOn 2 72 1); Wire (NoteOff 1 67 64);
        Wire (NoteOff 2 72 64)].
Proof.
  cbn zeta. split; [|vm_compute; reflexivity].
  cbn. repeat split; try lia; auto; intuition lia.
Qed.

(* forty successive notes, each released before the next: all sound (on channel 1) *)
Example C19_mpe_forty_successive :
  forallb (fun o => match o with Wire (NoteOn 1 _ _) | Wire (NoteOff 1 _ _) => true | _ => false end)
          (mpe_run mpe_init (flat_map (fun n => [On n 100; Off n]) (zrange 20 40))) = true.
Proof. vm_compute. reflexivity. Qed.

(** ======================= MIDI file: delta-timed messages ======================= *)
(* (added for the seeded changes C19-c / C19-d: time between two messages, histories on one device) *)
From Isobar Require Import IO.FileWire IO.FileWireProofs.
From Coq Require Import Qround.

(* For EVERY sequence of tick() runs and requests on a MidiFileOutputDevice (requests the device
   writes, requests mido rejects, requests the device inherits as no-ops), the absolute tick of
   every message in the saved file — the running sum of the written delta times — is exactly the
   number of tick() calls that preceded the request, however long the gaps are; the closing
   dummy note_off sits at the end of the run. *)
Theorem C19_file_absolute_ticks : forall ops, absolute 0 (file_written ops) = timed 0 ops.
Proof. exact file_absolute_ticks. Qed.
Print Assumptions C19_file_absolute_ticks.

(* the message that follows a gap of g ticks after the previous written message carries delta g *)
Theorem C19_file_gap_exact : forall pre m1 g m2 post,
  msg_valid m1 = true -> msg_valid m2 = true ->
  nth_error (file_written (pre ++ FReq m1 :: FTicks g :: FReq m2 :: post)) (S (nwritten pre)) = Some (g, m2).
Proof. exact file_gap_exact. Qed.
Print Assumptions C19_file_gap_exact.

Theorem C19_file_deltas_nonneg : forall ops, ticks_ok ops = true ->
  Forall (fun dm => 0 <= fst dm) (file_written ops).
Proof. exact file_deltas_nonneg. Qed.
Print Assumptions C19_file_deltas_nonneg.

(* [FTicks n] is n single tick() calls *)
Theorem C19_file_ticks_run_length : forall n d, 0 <= n ->
  f_run (repeat (FTicks 1) (Z.to_nat n)) d = f_step d (FTicks n).
Proof. exact ticks_run_length. Qed.
Print Assumptions C19_file_ticks_run_length.

(* the beat arithmetic of the device is exact at every resolution: with time = a/tpb and
   last_event_time = b/tpb, int(round((time - last_event_time) * tpb)) (round-half-even) is a - b;
   and tick() keeps time = ticks/tpb *)
Theorem C19_file_round_exact : forall (tpb : positive) (a b : Z),
  round_half_even ((beats a tpb - beats b tpb) * inject_Z (Zpos tpb))%Q = a - b.
Proof. exact round_beats_exact. Qed.
Print Assumptions C19_file_round_exact.

Theorem C19_file_tick_beats : forall tpb n, (beats n tpb + 1 / inject_Z (Zpos tpb) == beats (n + 1) tpb)%Q.
Proof. exact tick_beats. Qed.
Print Assumptions C19_file_tick_beats.

Example C19_file_nonvacuous :
  let ops := [FReq (NoteOn 9 48 100); FTicks 4800; FReq (NoteOff 9 48 64); FSilent; FTicks 1;
              FReq (NoteOn 16 1 1); FTicks 9599; FReq (NoteOn 1 74 90); FReq (NoteOn 1 77 90); FTicks 96000] in
  ticks_ok ops = true
  /\ file_written ops = [(0, NoteOn 9 48 100); (4800, NoteOff 9 48 64); (9600, NoteOn 1 74 90);
                         (0, NoteOn 1 77 90); (96000, closing)]
  /\ map fst (timed 0 ops) = [0; 4800; 14400; 14400; 110400].
Proof. vm_compute. repeat split. Qed.

(** ======================= histories on one device ======================= *)

(* the k-th datagram of ANY history of OSC requests decodes to the k-th request: nothing of an
   earlier request leaks into a later datagram *)
Theorem C19_osc_history : forall reqs, forallb osc_ok reqs = true ->
  map osc_decode (osc_history reqs) = map Some reqs.
Proof. exact osc_history_decodes. Qed.
Print Assumptions C19_osc_history.

(* the TYPE of an argument is carried: two requests to the same address that differ only in the
   type of one argument (int 2 / float 2.0 / string "2" — equal under Python's ==) never share a
   datagram *)
Theorem C19_osc_type_carried : forall addr pre post a b,
  nonzero_bytes addr = true -> forallb arg_ok (pre ++ a :: post) = true ->
  forallb arg_ok (pre ++ b :: post) = true -> same_kind a b = false ->
  osc_encode addr (pre ++ a :: post) <> osc_encode addr (pre ++ b :: post).
Proof. exact osc_type_carried. Qed.
Print Assumptions C19_osc_type_carried.

Theorem C19_port_history : forall reqs, forallb msg_valid reqs = true ->
  map (fun o => match o with Some bs => midi_decode bs | None => None end) (port_history reqs) = map Some reqs.
Proof. exact port_history_decodes. Qed.
Print Assumptions C19_port_history.

Example C19_osc_history_nonvacuous :
  let a := [47; 102] in
  let h := [(a, [OInt 2; OStr [99]; OInt 880]); (a, [OInt 2; OStr [99]; OFloat 68 92 0 0]);
            (a, [OStr [50]; OStr [99]; OInt 880]); (a, [OInt 2; OStr [99]; OInt 880])] in
  forallb osc_ok h = true
  /\ map osc_decode (osc_history h) = map Some h
  /\ nth 0 (osc_history h) [] <> nth 1 (osc_history h) []
  /\ nth 0 (osc_history h) [] = nth 3 (osc_history h) [].
Proof. vm_compute. repeat split. discriminate. Qed.

(** ======================= several devices alive in one process ======================= *)
(* (added for the seeded change C19-f: the state of a device object is its own)
   A process with any number of device objects is the product of independent copies of the single-device state
   machine (IO/MultiDevice.v); a history is ANY interleaving of calls, each addressed to one device. *)
From Isobar Require Import IO.MultiDevice IO.MultiDeviceProofs.

(* non-interference, for EVERY kind of device (any state, call and output types, any step function): in any
   interleaving, device d produces exactly what its own call subsequence produces on a device that is alone, and ends
   in the state it would have reached alone; a device that has not been called yet is still in its initial state *)
Theorem C19_multi_noninterference : forall (S C O : Type) (step : S -> C -> S * O) (cs : list (Z * C)) (ps : pstate S) d,
  outs_of d (prun step ps cs) = run1 step (ps d) (calls_of d cs)
  /\ pfinal step ps cs d = final1 step (ps d) (calls_of d cs)
  /\ (calls_of d cs = [] -> pfinal step ps cs d = ps d).
Proof.
  intros S C O step cs ps d. destruct (noninterference S C O step cs ps d) as [A B].
  split; [exact A | split; [exact B | apply untouched_device]].
Qed.
Print Assumptions C19_multi_noninterference.

Theorem C19_multi_interleaving_irrelevant : forall (S C O : Type) (step : S -> C -> S * O) cs1 cs2 (ps : pstate S) d,
  calls_of d cs1 = calls_of d cs2 ->
  outs_of d (prun step ps cs1) = outs_of d (prun step ps cs2).
Proof. exact interleaving_irrelevant. Qed.
Print Assumptions C19_multi_interleaving_irrelevant.

(* k MPE devices: whatever the OTHER devices are asked to do (fifteen held notes, malformed releases, anything), a
   device whose own calls are well-formed sends exactly what it would send alone — every note_on on a channel of 1..15
   that none of ITS held notes uses, release and expression on the note's channel, release frees it — and its
   tables keep the channels of its held notes distinct *)
Theorem C19_mpe_multi : forall cs d,
  mpe_wf [] (calls_of d cs) ->
  outs_of d (mpe_multi_run cs) = mpe_run mpe_init (calls_of d cs)
  /\ mpe_trace_ok [] (calls_of d cs) (outs_of d (mpe_multi_run cs))
  /\ let s := pfinal mpe_step mpe_all_init cs d in
     (forall n1 n2 c, note_chan s n1 = Some c -> note_chan s n2 = Some c -> n1 = n2)
     /\ (forall n c, note_chan s n = Some c -> 1 <= c <= 15).
Proof.
  intros cs d W. destruct (mpe_multi_alone cs d) as [A _]. destruct (mpe_multi_ok cs d W) as [B D].
  split; [exact A | split; [exact B | exact D]].
Qed.
Print Assumptions C19_mpe_multi.

(* two synths: the same key on both, fifteen notes held on device 0 while device 1 plays; each device allocates from
   its own channels 1..15 *)
Example C19_mpe_multi_nonvacuous :
  let cs := [(0, On 60 100); (1, On 60 90); (0, Off 60); (1, Off 60)]
            ++ map (fun n => (0, On n 64)) (zrange 40 15) ++ [(1, On 70 1); (1, On 71 2); (0, Off 47); (1, Off 70); (1, On 72 3)] in
  mpe_wf [] (calls_of 0 cs) /\ mpe_wf [] (calls_of 1 cs)
  /\ outs_of 1 (mpe_multi_run cs)
     = [Wire (NoteOn 1 60 90); Wire (NoteOff 1 60 64); Wire (NoteOn 1 70 1); Wire (NoteOn 2 71 2); Wire (NoteOff 1 70 64);
        Wire (NoteOn 1 72 3)]
  /\ firstn 3 (outs_of 0 (mpe_multi_run cs)) = [Wire (NoteOn 1 60 100); Wire (NoteOff 1 60 64); Wire (NoteOn 1 40 64)]
  /\ nth 17 (outs_of 0 (mpe_multi_run cs)) Silent = Wire (NoteOff 8 47 64).
Proof.
  cbn zeta. split; [|split; [|vm_compute; repeat split]].
  - vm_compute. repeat split; try lia; intuition lia.
  - vm_compute. repeat split; try lia; intuition lia.
Qed.

(** ======================= MPE: ALL call sequences (note identity) ======================= *)
(* (added for the seeded change C19-h: legal call sequences that are not "well-formed" in the sense of [mpe_wf])
   IO/MpeVoices.v: a sounding note is a VOICE — the k-th note_on call (= the handle it returned), its pitch, its channel.
   The same pitch may be struck again while held, pitches that are not held may be released, more than 15 notes may be
   asked for, stale handles may be used.  NO hypothesis on the call sequence. *)
From Isobar Require Import IO.MpeVoices IO.MpeVoicesProofs.

(* every call sequence: a note_on with fewer than 15 voices sounding is sent on a channel of 1..15 that NO sounding
   voice uses (whatever their pitches; with 15 sounding nothing is sent); handle.note_off() releases exactly that
   handle's voice on ITS channel, which is free afterwards; device.note_off(n) releases one sounding voice of pitch n on
   its channel (rejected when none sounds); expression goes to the voice's channel while it sounds *)
Theorem C19_mpe_voices : forall cs, vtrace_ok [] 0 cs (vrun vs_init cs).
Proof. intros cs. apply (vrun_ok cs [] 0 vinv_init). Qed.
Print Assumptions C19_mpe_voices.

(* after any call sequence the sounding voices are on pairwise distinct channels in 1..15 (so at most 15 sound) *)
Theorem C19_mpe_voices_distinct : forall cs,
  let l := vs_sounding (vfinal vs_init cs) in
  NoDup (map v_chan l) /\ (forall v, In v l -> 1 <= v_chan v <= 15) /\ (List.length l <= 15)%nat.
Proof.
  intros cs l. pose proof (vfinal_inv cs [] 0 vinv_init) as I. fold l in I.
  split; [apply I | split; [apply I | eapply vinv_length; exact I]].
Qed.
Print Assumptions C19_mpe_voices_distinct.

(* any number of successive notes, whatever happened before (re-struck pitches, rejected releases ...): with fewer than
   15 voices sounding the next note_on is sent, on a channel no sounding voice uses *)
Theorem C19_mpe_voices_never_starved : forall cs n v,
  let s := vfinal vs_init cs in
  (List.length (vs_sounding s) < 15)%nat ->
  exists c, snd (vstep s (VOn n v)) = Wire (NoteOn c n v) /\ 1 <= c <= 15 /\ ~ In c (map v_chan (vs_sounding s)).
Proof.
  intros cs n v s L. destruct (vnext_some (vs_sounding s) L) as [c [E [R F]]]. exists c.
  cbn [vstep]. rewrite E. cbn [snd]. auto.
Qed.
Print Assumptions C19_mpe_voices_never_starved.

(* the unison: 60 struck twice, then 64: three channels; the FIRST 60 released through its handle (channel 1), the next
   note takes channel 1; device.note_off(60) releases the other 60 (channel 2); a second device.note_off(60) is rejected;
   fifteen voices, the sixteenth note_on is dropped, after one release the next sounds *)
Example C19_mpe_voices_nonvacuous :
  vrun vs_init [VOn 60 100; VOn 60 90; VOn 64 80; VBend 0 100; VBend 1 (-100); VOffHandle 0; VBend 0 5; VOn 65 70;
                VOffPitch 60; VOffPitch 60; VOffHandle 1]
  = [Wire (NoteOn 1 60 100); Wire (NoteOn 2 60 90); Wire (NoteOn 3 64 80); Wire (PitchWheel 1 100); Wire (PitchWheel 2 (-100));
     Wire (NoteOff 1 60 64); Silent; Wire (NoteOn 1 65 70); Wire (NoteOff 2 60 64); Rejected; Silent]
  /\ (let cs := map (fun n => VOn n 64) (zrange 40 16) ++ [VOffHandle 3; VOn 99 1] in
      skipn 15 (vrun vs_init cs) = [Silent; Wire (NoteOff 4 43 64); Wire (NoteOn 4 99 1)]).
Proof. vm_compute. split; reflexivity. Qed.

(* Props/C19.v — placeholder while the pipeline is brought up; replaced by the property theorems. *)
From Isobar Require Import Base.Prelude IO.MidiBytes IO.Osc IO.Mpe.

Example C19_nonvacuous_boot : midi_decode (midi_encode (NoteOn 3 60 100)) = Some (NoteOn 3 60 100).
Proof. vm_compute. reflexivity. Qed.

(* Props/C03.v — property C03: event dictionaries resolve to the documented device messages.
   Only the property theorems live here.  The model is Sched/Event.v (Event.__init__, EventDefaults,
   Track.perform_event), the documentation-shaped definitions are in Sched/EventSpec.v, the lemmas in
   Sched/EventProofs.v; parameter names, ALL_EVENT_PARAMETERS and the library defaults are regenerated from the
   source under test (Generated/TablesC03.v), so every theorem is re-checked against what the code says now.
   [resolve defs d] models Event(d, defs); [dispatch muted e] models Track.perform_event; hypotheses of the form
   [resolve defs d = Ok e] restrict a statement to dictionaries the constructor accepts (the reject theorems and
   the correspondence check say which those are). *)
From Isobar Require Import Base.Prelude Tonal.Key Tonal.KeyProofs Generated.Tables Generated.TablesC03
  Sched.Event Sched.EventSpec Sched.EventProofs Sched.EventCfg Sched.EventCfgProofs
  Tonal.Held Tonal.HeldProofs Sched.EventHeld Sched.EventHeldProofs.
From Coq Require Import String QArith.
Local Open Scope Z_scope.
Local Notation length := List.length (only parsing).

(** * Pitch: each chord voice plays key[degree] + 12 * octave + transpose *)

(* a chord of degrees (tuple or list; ints of any sign, non-negative floats are floored), the key given as an
   object or by name, explicitly or through the timeline / library defaults *)
Theorem C03_note_pitch : forall defs d e l zs kv k ov tv oc tr,
  defaults_shape defs -> resolve defs d = Ok e -> spec_selecting_key (dhas d) = Some K_NOTE ->
  dget d K_NOTE = None -> (dget d K_DEGREE = Some (VTup l) \/ dget d K_DEGREE = Some (VList l)) -> l <> [] ->
  degree_floors l = Some zs ->
  spec_param defs d [K_KEY] K_KEY = Some kv -> key_denotes kv k ->
  spec_param defs d [K_OCTAVE] K_OCTAVE = Some ov -> py_int ov = Ok oc ->
  spec_param defs d [K_TRANSPOSE] K_TRANSPOSE = Some tv -> py_int tv = Ok tr ->
  exists a g ch pb, e_body e = BNote (VList (map (fun z => VInt (spec_pitch k z oc tr)) zs)) a g ch pb.
Proof.
  intros defs d e l zs kv k ov tv oc tr Hs H Hsel Hn Hd Hne Hf Hk Hkd Ho Hoi Ht Hti.
  destruct (note_field defs d e Hs H Hsel) as (n & a & g & ch & pb & Eb & En).
  rewrite (degree_chord_pitch defs d e l zs kv k ov tv oc tr) in En by assumption.
  inversion En; subst n. exists a, g, ch, pb. exact Eb.
Qed.
Print Assumptions C03_note_pitch.

Theorem C03_note_pitch_scalar : forall defs d e dv z kv k ov tv oc tr,
  defaults_shape defs -> resolve defs d = Ok e -> spec_selecting_key (dhas d) = Some K_NOTE ->
  dget d K_NOTE = None -> dget d K_DEGREE = Some dv -> degree_floor dv = Some z ->
  spec_param defs d [K_KEY] K_KEY = Some kv -> key_denotes kv k ->
  spec_param defs d [K_OCTAVE] K_OCTAVE = Some ov -> py_int ov = Ok oc ->
  spec_param defs d [K_TRANSPOSE] K_TRANSPOSE = Some tv -> py_int tv = Ok tr ->
  exists a g ch pb, e_body e = BNote (VInt (spec_pitch k z oc tr)) a g ch pb.
Proof.
  intros defs d e dv z kv k ov tv oc tr Hs H Hsel Hn Hd Hf Hk Hkd Ho Hoi Ht Hti.
  destruct (note_field defs d e Hs H Hsel) as (n & a & g & ch & pb & Eb & En).
  rewrite (degree_scalar_pitch defs d e dv z kv k ov tv oc tr) in En by assumption.
  inversion En; subst n. exists a, g, ch, pb. exact Eb.
Qed.
Print Assumptions C03_note_pitch_scalar.

(* the given note(s): note + 12 * octave + transpose per voice *)
Theorem C03_note_pitch_given : forall defs d e ns ov tv oc tr,
  defaults_shape defs -> resolve defs d = Ok e -> spec_selecting_key (dhas d) = Some K_NOTE -> ns <> [] ->
  (dget d K_NOTE = Some (VTup (map VInt ns)) \/ dget d K_NOTE = Some (VList (map VInt ns))) ->
  spec_param defs d [K_OCTAVE] K_OCTAVE = Some ov -> py_int ov = Ok oc ->
  spec_param defs d [K_TRANSPOSE] K_TRANSPOSE = Some tv -> py_int tv = Ok tr ->
  exists a g ch pb, e_body e = BNote (VList (map (fun n => VInt (spec_note_pitch n oc tr)) ns)) a g ch pb.
Proof.
  intros defs d e ns ov tv oc tr Hs H Hsel Hne Hn Ho Hoi Ht Hti.
  destruct (note_field defs d e Hs H Hsel) as (n & a & g & ch & pb & Eb & En).
  rewrite (note_chord_pitch defs d e ns ov tv oc tr) in En by assumption.
  inversion En; subst n. exists a, g, ch, pb. exact Eb.
Qed.
Print Assumptions C03_note_pitch_given.

Theorem C03_note_pitch_given_scalar : forall defs d e n ov tv oc tr,
  defaults_shape defs -> resolve defs d = Ok e -> spec_selecting_key (dhas d) = Some K_NOTE ->
  dget d K_NOTE = Some (VInt n) ->
  spec_param defs d [K_OCTAVE] K_OCTAVE = Some ov -> py_int ov = Ok oc ->
  spec_param defs d [K_TRANSPOSE] K_TRANSPOSE = Some tv -> py_int tv = Ok tr ->
  exists a g ch pb, e_body e = BNote (VInt (spec_note_pitch n oc tr)) a g ch pb.
Proof.
  intros defs d e n ov tv oc tr Hs H Hsel Hn Ho Hoi Ht Hti.
  destruct (note_field defs d e Hs H Hsel) as (n' & a & g & ch & pb & Eb & En).
  rewrite (note_scalar_pitch defs d e n ov tv oc tr) in En by assumption.
  inversion En; subst n'. exists a, g, ch, pb. exact Eb.
Qed.
Print Assumptions C03_note_pitch_given_scalar.

(* negative degrees descend, degrees beyond one octave ascend: the pitch is strictly increasing in the degree *)
Theorem C03_pitch_increasing : forall k d1 d2 oc tr,
  valid_scale (kscale k) = true -> d1 < d2 -> spec_pitch k d1 oc tr < spec_pitch k d2 oc tr.
Proof.
  intros k d1 d2 oc tr Hv H. pose proof (scale_get_mono _ Hv d1 d2 H) as M.
  unfold spec_pitch. unfold scale_get in M. lia.
Qed.
Print Assumptions C03_pitch_increasing.

Example C03_note_pitch_nonvacuous :
  let d := [("degree"%string, VTup [VInt (-9); VFlt (5 # 2); VInt 15]); ("key"%string, VStr "D minor");
            ("octave"%string, VInt 4); ("velocity"%string, VTup [VInt 10; VInt 20; VInt 30])] in
  let k := mkKey 2 (mkScale [0; 2; 3; 5; 7; 8; 10] 12) in
  defaults_shape lib_defaults /\ spec_selecting_key (dhas d) = Some K_NOTE
  /\ degree_floors [VInt (-9); VFlt (5 # 2); VInt 15] = Some [-9; 2; 15]
  /\ key_denotes (VStr "D minor") k
  /\ option_map event_view (match resolve lib_defaults d with Ok e => Some e | _ => None end)
     = Some (VTup [VStr "note"; VTup [VList [VInt 34; VInt 53; VInt 76]; VTup [VInt 10; VInt 20; VInt 30];
                                       VFlt (1 # 1); VInt 0; VNone]; VInt 1; VBool true])
  /\ map (fun z => spec_pitch k z 4 0) [-9; 2; 15] = [34; 53; 76].
Proof. vm_compute. repeat split. Qed.

(** * Where amplitude, gate, channel and duration come from *)

(* the event's value (dur / amp / velocity standing for duration / amplitude), else the current value of the
   timeline default; a rest (note or degree None) is silent *)
Theorem C03_param_source : forall defs d e,
  defaults_shape defs -> resolve defs d = Ok e -> spec_selecting_key (dhas d) = Some K_NOTE ->
  exists n a g ch pb, e_body e = BNote n a g ch pb /\ e_type e = VStr T_NOTE
    /\ Some (e_duration e) = spec_param defs d duration_names K_DURATION
    /\ Some ch = spec_param defs d [K_CHANNEL] K_CHANNEL
    /\ Some pb = spec_param defs d [K_PITCHBEND] K_PITCHBEND
    /\ Some (e_active e) = spec_param defs d [K_ACTIVE] K_ACTIVE
    /\ (dget d K_NOTE <> Some VNone -> dget d K_DEGREE <> Some VNone ->
        Some a = spec_param defs d amplitude_names K_AMPLITUDE /\ Some g = spec_param defs d [K_GATE] K_GATE)
    /\ (dget d K_NOTE = Some VNone \/ dget d K_DEGREE = Some VNone -> n = VInt 0 /\ a = VInt 0 /\ g = VInt 0).
Proof. exact note_params. Qed.
Print Assumptions C03_param_source.

(* a default never overrides an explicit value: whatever the defaults object holds *)
Theorem C03_explicit_wins : forall defs d names p k x,
  only_given d names k -> dget d k = Some x -> spec_param defs d names p = Some x.
Proof. exact spec_param_given. Qed.
Print Assumptions C03_explicit_wins.

(* dur = duration and amp = velocity = amplitude when exactly one of them is given *)
Theorem C03_synonyms : forall defs d e k x,
  defaults_shape defs -> resolve defs d = Ok e -> spec_selecting_key (dhas d) = Some K_NOTE ->
  dget d K_NOTE <> Some VNone -> dget d K_DEGREE <> Some VNone -> dget d k = Some x ->
  (only_given d duration_names k -> e_duration e = x)
  /\ (only_given d amplitude_names k -> exists n g ch pb, e_body e = BNote n x g ch pb).
Proof.
  intros defs d e k x Hs H Hsel Hn Hd Hk.
  destruct (note_params defs d e Hs H Hsel) as (n & a & g & ch & pb & Eb & _ & Edur & _ & _ & _ & Eag & _).
  split; intros Ho.
  - rewrite (spec_param_given defs d duration_names K_DURATION k x Ho Hk) in Edur. congruence.
  - destruct (Eag Hn Hd) as [Ea _]. rewrite (spec_param_given defs d amplitude_names K_AMPLITUDE k x Ho Hk) in Ea.
    inversion Ea; subst. eauto.
Qed.
Print Assumptions C03_synonyms.

(* nothing given and a fresh defaults object: the library defaults of the generated table *)
Theorem C03_library_defaults : forall d,
  (forall k, In k amplitude_names -> dget d k = None) -> (forall k, In k duration_names -> dget d k = None) ->
  dget d K_GATE = None -> dget d K_CHANNEL = None ->
  spec_param lib_defaults d amplitude_names K_AMPLITUDE = Some (raw_val DEFAULT_EVENT_AMPLITUDE)
  /\ spec_param lib_defaults d duration_names K_DURATION = Some (raw_val DEFAULT_EVENT_DURATION)
  /\ spec_param lib_defaults d [K_GATE] K_GATE = Some (raw_val DEFAULT_EVENT_GATE)
  /\ spec_param lib_defaults d [K_CHANNEL] K_CHANNEL = Some (raw_val DEFAULT_EVENT_CHANNEL).
Proof.
  intros d Ha Hd Hg Hc.
  assert (G : forall k, In k [K_GATE] -> dget d k = None) by (intros k [<-|[]]; exact Hg).
  assert (C : forall k, In k [K_CHANNEL] -> dget d k = None) by (intros k [<-|[]]; exact Hc).
  repeat split; eapply spec_param_default; try eassumption; vm_compute; reflexivity.
Qed.
Print Assumptions C03_library_defaults.

(* an overridden timeline default (constant or pattern) is used when the event says nothing, and only then *)
Theorem C03_timeline_default : forall defs d names p v v',
  (forall k, In k names -> dget d k = None) -> dget defs p = Some v -> pvalue v = Ok v' ->
  spec_param defs d names p = Some v'.
Proof. exact spec_param_default. Qed.
Print Assumptions C03_timeline_default.

Example C03_param_source_nonvacuous :
  let defs := dset (dset lib_defaults K_GATE (VPat [VFlt (1 # 2); VFlt (1 # 4)])) K_CHANNEL (VInt 9) in
  let d := [("note"%string, VInt 60); ("amp"%string, VInt 33); ("dur"%string, VFlt (3 # 2))] in
  defaults_shape defs /\ only_given d amplitude_names K_AMPLITUDE_LEGACY /\ only_given d duration_names K_DURATION_LEGACY
  /\ spec_selecting_key (dhas d) = Some K_NOTE
  /\ option_map event_view (match resolve defs d with Ok e => Some e | _ => None end)
     = Some (VTup [VStr "note"; VTup [VInt 60; VInt 33; VFlt (1 # 2); VInt 9; VNone]; VFlt (3 # 2); VBool true]).
Proof.
  vm_compute. repeat split; auto; intros k' H1 H2; repeat (destruct H1 as [<-|H1]; [first [reflexivity|congruence]|]); contradiction.
Qed.

(** * Type precedence: action > patch > control > program_change > osc_address > synth > note|degree,
      for every combination of type-selecting keys (case analysis over the 2^7 presence patterns) *)
Theorem C03_precedence : forall defs d e,
  defaults_shape defs -> resolve defs d = Ok e ->
  spec_selecting_key (dhas d) = Some (body_key (e_body e))
  /\ (body_key (e_body e) <> K_PATCH -> option_map VStr (type_name (body_key (e_body e))) = Some (e_type e)).
Proof. exact precedence. Qed.
Print Assumptions C03_precedence.

(* the 128 presence patterns, enumerated: the selecting key is the first present of the documented list *)
Definition pattern_of (bs : list bool) (k : string) : bool :=
  match find (fun kb => String.eqb (fst kb) k) (combine (type_keys ++ [K_NOTE]) bs) with Some (_, b) => b | None => false end.
Fixpoint all_patterns (n : nat) : list (list bool) :=
  match n with O => [[]] | S m => flat_map (fun l => [true :: l; false :: l]) (all_patterns m) end.
Theorem C03_precedence_table :
  List.length (all_patterns 7) = 128%nat
  /\ forall bs, In bs (all_patterns 7) ->
       spec_selecting_key (pattern_of bs) =
       match find (fun kb => snd kb) (combine (type_keys ++ [K_NOTE]) bs) with Some (k, _) => Some k | None => None end.
Proof.
  split; [reflexivity|]. apply Forall_forall.
  repeat (constructor; [vm_compute; reflexivity|]). constructor.
Qed.
Print Assumptions C03_precedence_table.

Example C03_precedence_nonvacuous :
  let d := [("note"%string, VInt 60); ("program_change"%string, VInt 3); ("control"%string, VInt 7);
            ("value"%string, VInt 99); ("synth"%string, VStr "foo")] in
  spec_selecting_key (dhas d) = Some K_CONTROL
  /\ option_map event_view (match resolve lib_defaults d with Ok e => Some e | _ => None end)
     = Some (VTup [VStr "control"; VTup [VInt 7; VInt 99; VInt 0]; VInt 1; VBool true]).
Proof. vm_compute. split; reflexivity. Qed.

(** * Dispatch: each type calls the matching device method / function, arguments resolved once *)
Theorem C03_dispatch_control : forall defs d e,
  defaults_shape defs -> resolve defs d = Ok e ->
  spec_selecting_key (dhas d) = Some K_CONTROL -> truthy (e_active e) = Ok true ->
  exists c v ch, dget d K_CONTROL = Some c /\ dget d K_VALUE = Some v
    /\ spec_param defs d [K_CHANNEL] K_CHANNEL = Some ch
    /\ dispatch false e = perf_ok [Call "control" [c; v; ch]] [].
Proof. exact dispatch_control. Qed.
Print Assumptions C03_dispatch_control.

Theorem C03_dispatch_program_change : forall defs d e,
  defaults_shape defs -> resolve defs d = Ok e ->
  spec_selecting_key (dhas d) = Some K_PROGRAM_CHANGE -> truthy (e_active e) = Ok true ->
  exists p ch, dget d K_PROGRAM_CHANGE = Some p /\ spec_param defs d [K_CHANNEL] K_CHANNEL = Some ch
    /\ dispatch false e = perf_ok [Call "program_change" [p; ch]] [].
Proof. exact dispatch_program. Qed.
Print Assumptions C03_dispatch_program_change.

Theorem C03_dispatch_osc : forall defs d e,
  defaults_shape defs -> resolve defs d = Ok e ->
  spec_selecting_key (dhas d) = Some K_OSC_ADDRESS -> truthy (e_active e) = Ok true ->
  exists a ps, dget d K_OSC_ADDRESS = Some a /\ osc_list (dget d K_OSC_PARAMS) = Some ps
    /\ dispatch false e = perf_ok [Call "send" [a; ps]] [].
Proof. exact dispatch_osc. Qed.
Print Assumptions C03_dispatch_osc.

Theorem C03_dispatch_synth : forall defs d e,
  defaults_shape defs -> resolve defs d = Ok e ->
  spec_selecting_key (dhas d) = Some K_SUPERCOLLIDER_SYNTH -> truthy (e_active e) = Ok true ->
  exists n ps, dget d K_SUPERCOLLIDER_SYNTH = Some n
    /\ (dget d K_SUPERCOLLIDER_SYNTH_PARAMS = Some ps \/ dget d K_SUPERCOLLIDER_SYNTH_PARAMS = None /\ ps = VDict [])
    /\ (exists kv, ps = VDict kv)
    /\ dispatch false e = perf_ok [Call "create" [n; ps]] [].
Proof. exact dispatch_synth. Qed.
Print Assumptions C03_dispatch_synth.

(* the action is applied to its arguments, each resolved exactly once and in order; a named argument that is not a
   parameter of the function suppresses the call *)
Theorem C03_dispatch_action : forall defs d e,
  defaults_shape defs -> resolve defs d = Ok e ->
  spec_selecting_key (dhas d) = Some K_ACTION -> truthy (e_active e) = Ok true ->
  exists fn args, dget d K_ACTION = Some fn
    /\ match dget d K_ACTION_ARGS with
       | None => args = []
       | Some (VDict kv) => Forall2 (fun a b => fst a = fst b /\ pvalue (snd a) = Ok (snd b)) kv args
       | Some _ => False
       end
    /\ forall id ps, fn = VObj "fun" id ps ->
         dispatch false e = if all_in (map fst args) ps then perf_ok [Call "action" [fn; VDict args]] [] else perf_ok [] [].
Proof. exact dispatch_action. Qed.
Print Assumptions C03_dispatch_action.

(* a chord: one note_on per voice, in order, with its own (tuple) or the shared amplitude and channel, released
   duration * gate_i later *)
Theorem C03_dispatch_note : forall e notes amp gate chan,
  e_body e = BNote (VList notes) amp gate chan VNone -> e_type e = VStr T_NOTE ->
  truthy (e_active e) = Ok true ->
  (match amp with VTup _ => True | _ => py_gt0 amp = Ok true end) ->
  covers amp (length notes) -> covers gate (length notes) -> covers chan (length notes) ->
  (forall j, (j < length notes)%nat ->
     audible (pv amp j) (pv gate j) = Ok true /\ exists len, py_mul (e_duration e) (pv gate j) = Ok len) ->
  dispatch false e = perf_ok (voice_calls notes 0 amp chan) (voice_offs notes 0 gate chan (e_duration e)).
Proof. exact dispatch_note. Qed.
Print Assumptions C03_dispatch_note.

(* rests, inactive events and muted tracks reach no device method *)
Theorem C03_silent : forall e,
  (truthy (e_active e) = Ok false -> forall muted, dispatch muted e = perf_ok [] [])
  /\ (forall b, truthy (e_active e) = Ok b -> dispatch true e = perf_ok [] [])
  /\ (forall ch pb, e_body e = BNote (VInt 0) (VInt 0) (VInt 0) ch pb -> e_type e = VStr T_NOTE ->
        truthy (e_active e) = Ok true -> dispatch false e = perf_ok [] []).
Proof.
  intros e. split; [intros H muted; apply dispatch_inactive; exact H|].
  split; [intros b H; eapply dispatch_muted; exact H|]. intros ch pb. apply dispatch_rest.
Qed.
Print Assumptions C03_silent.

Example C03_dispatch_nonvacuous :
  let d := [("degree"%string, VTup [VInt 0; VInt 2; VInt 4]); ("octave"%string, VInt 5);
            ("amplitude"%string, VTup [VInt 96; VInt 64; VInt 32]); ("gate"%string, VTup [VFlt (1 # 4); VFlt (1 # 2); VInt 1]);
            ("channel"%string, VTup [VInt 1; VInt 2; VInt 3]); ("dur"%string, VInt 2)] in
  fst (run_track 4 false 9 [(lib_defaults, d)])
  = [(0, Call "note_on" [VInt 60; VInt 96; VInt 1]); (0, Call "note_on" [VInt 64; VInt 64; VInt 2]);
     (0, Call "note_on" [VInt 67; VInt 32; VInt 3]); (2, Call "note_off" [VInt 60; VInt 1]);
     (4, Call "note_off" [VInt 64; VInt 2]); (8, Call "note_off" [VInt 67; VInt 3])]
  /\ p_calls (perform lib_defaults false [("action"%string, VObj "fun" 1 ["a"; "b"]%string);
                                         ("args"%string, VDict [("b"%string, VPat [VInt 5; VInt 6])])])
     = [Call "action" [VObj "fun" 1 ["a"; "b"]%string; VDict [("b"%string, VInt 5)]]].
Proof. vm_compute. split; reflexivity. Qed.

(** * Rejection: an unknown key, a note together with a degree, or no recognisable type raise an error and no
      device method is called (neither by perform_event nor on the timeline) *)
Theorem C03_reject_unknown_key : forall defs d k v,
  In (k, v) d -> known_param k = false ->
  resolve defs d = Raise ValueError
  /\ (forall muted, perform defs muted d = mkPerf [] [] (Raise ValueError))
  /\ (forall N muted n rest, run_track N muted (S n) ((defs, d) :: rest) = ([], Raise ValueError)).
Proof.
  intros defs d k v Hin Hk. pose proof (reject_unknown defs d k v Hin Hk) as R.
  split; [exact R|]. split; [intros; apply perform_raise; exact R|].
  intros. apply run_track_raise; [exact R|reflexivity].
Qed.
Print Assumptions C03_reject_unknown_key.

Theorem C03_reject_note_with_degree : forall defs d,
  defaults_shape defs -> defaults_ready defs -> (forall k v, In (k, v) d -> known_param k = true) ->
  dhas d K_NOTE = true -> dhas d K_DEGREE = true ->
  resolve defs d = Raise InvalidEventException
  /\ (forall muted, perform defs muted d = mkPerf [] [] (Raise InvalidEventException))
  /\ (forall N muted n rest, run_track N muted (S n) ((defs, d) :: rest) = ([], Raise InvalidEventException)).
Proof.
  intros defs d Hs Hr Hk Hn Hd. pose proof (reject_note_degree defs d Hs Hr Hk Hn Hd) as R.
  split; [exact R|]. split; [intros; apply perform_raise; exact R|].
  intros. apply run_track_raise; [exact R|reflexivity].
Qed.
Print Assumptions C03_reject_note_with_degree.

Theorem C03_reject_no_type : forall defs d,
  defaults_shape defs -> defaults_ready defs -> (forall k v, In (k, v) d -> known_param k = true) ->
  no_type_key d ->
  resolve defs d = Raise InvalidEventException
  /\ (forall muted, perform defs muted d = mkPerf [] [] (Raise InvalidEventException))
  /\ (forall N muted n rest, run_track N muted (S n) ((defs, d) :: rest) = ([], Raise InvalidEventException)).
Proof.
  intros defs d Hs Hr Hk Hn. pose proof (reject_no_type defs d Hs Hr Hk Hn) as R.
  split; [exact R|]. split; [intros; apply perform_raise; exact R|].
  intros. apply run_track_raise; [exact R|reflexivity].
Qed.
Print Assumptions C03_reject_no_type.

(* the parameter list the rejection theorems speak about is the one of the source *)
Example C03_reject_nonvacuous :
  known_param "foo" = false /\ known_param "Note" = false /\ known_param "velocity" = true
  /\ forallb known_param all_event_parameters = true
  /\ defaults_shape lib_defaults
  /\ no_type_key [("duration"%string, VInt 1); ("amplitude"%string, VInt 3)]
  /\ fst (run_track 4 false 3 [(lib_defaults, [("note"%string, VInt 1); ("degree"%string, VInt 1)])]) = [].
Proof. vm_compute. repeat split. Qed.

(* a fresh defaults object satisfies the hypotheses of the rejection theorems *)
Example C03_lib_defaults_ready : defaults_shape lib_defaults /\ defaults_ready lib_defaults.
Proof.
  split; [reflexivity|]. intros k v Hin. vm_compute in Hin.
  repeat (destruct Hin as [Hin|Hin]; [inversion Hin; subst; eexists; reflexivity|]). contradiction.
Qed.

(** * Streams of several dictionaries and a timeline that is re-configured while the track runs (Sched/EventCfg.v:
      the defaults object is part of the state; [cplay N muted ch n t st] runs n ticks from tick t in state st, the
      assignments [ch] to timeline.defaults happening between the ticks).  The statements below hold in EVERY state,
      that is after any number of dictionaries already played and any assignments already made. *)

(* Rejection is per dictionary, not per stream: whenever the dictionary that is due has an unknown key, the error
   escapes from that tick and the device receives nothing at that tick but the note-offs of earlier notes *)
Theorem C03_reject_unknown_key_anywhere : forall N muted ch n t st d rest k v,
  c_stream st = d :: rest -> Qle_bool (c_next st) (t # N) = true ->
  In (k, v) d -> known_param k = false ->
  exists offs, cplay N muted ch (S n) t st = (tag t offs, Raise ValueError) /\ only_note_offs offs.
Proof.
  intros N muted ch n t st d rest k v Hs Hd Hin Hk.
  apply (cplay_reject N muted ch n t st d rest ValueError Hs Hd); [|reflexivity].
  exact (reject_unknown _ d k v Hin Hk).
Qed.
Print Assumptions C03_reject_unknown_key_anywhere.

Theorem C03_reject_note_with_degree_anywhere : forall N muted ch n t st d rest,
  c_stream st = d :: rest -> Qle_bool (c_next st) (t # N) = true ->
  defaults_shape (apply_changes ch (t - 1) (c_defs st)) -> defaults_ready (apply_changes ch (t - 1) (c_defs st)) ->
  (forall k v, In (k, v) d -> known_param k = true) -> dhas d K_NOTE = true -> dhas d K_DEGREE = true ->
  exists offs, cplay N muted ch (S n) t st = (tag t offs, Raise InvalidEventException) /\ only_note_offs offs.
Proof.
  intros N muted ch n t st d rest Hs Hd Hsh Hr Hk Hn Hdg.
  apply (cplay_reject N muted ch n t st d rest InvalidEventException Hs Hd); [|reflexivity].
  exact (reject_note_degree _ d Hsh Hr Hk Hn Hdg).
Qed.
Print Assumptions C03_reject_note_with_degree_anywhere.

Theorem C03_reject_no_type_anywhere : forall N muted ch n t st d rest,
  c_stream st = d :: rest -> Qle_bool (c_next st) (t # N) = true ->
  defaults_shape (apply_changes ch (t - 1) (c_defs st)) -> defaults_ready (apply_changes ch (t - 1) (c_defs st)) ->
  (forall k v, In (k, v) d -> known_param k = true) -> no_type_key d ->
  exists offs, cplay N muted ch (S n) t st = (tag t offs, Raise InvalidEventException) /\ only_note_offs offs.
Proof.
  intros N muted ch n t st d rest Hs Hd Hsh Hr Hk Hn.
  apply (cplay_reject N muted ch n t st d rest InvalidEventException Hs Hd); [|reflexivity].
  exact (reject_no_type _ d Hsh Hr Hk Hn).
Qed.
Print Assumptions C03_reject_no_type_anywhere.

(* "else the timeline's defaults": the dictionary that is due is completed by the defaults as they are at that tick,
   every assignment made so far included - the messages of the tick are those of [dispatch] on
   [resolve (current defaults) d], to which C03_param_source / C03_timeline_default / C03_note_pitch apply *)
Theorem C03_current_defaults_complete_the_event : forall N muted ch n t st d rest e dur,
  c_stream st = d :: rest -> Qle_bool (c_next st) (t # N) = true ->
  flat_defaults (apply_changes ch (t - 1) (c_defs st)) = true ->
  resolve (apply_changes ch (t - 1) (c_defs st)) d = Ok e ->
  py_float (e_duration e) = Ok dur -> Qle_bool (Qred (c_next st + dur)) (t # N) = false ->
  snd (cplay N muted ch (S n) t st) <> Unmodelled ->
  exists offs tr, fst (cplay N muted ch (S n) t st) = tag t (offs ++ p_calls (dispatch muted e)) ++ tr
                  /\ only_note_offs offs.
Proof. exact cplay_performs. Qed.
Print Assumptions C03_current_defaults_complete_the_event.

(* timeline.defaults.k = v: the last assignment to a name is what the name holds, no other name is touched, and the
   object keeps the attribute names of the library defaults (so the hypotheses above stay available) *)
Theorem C03_reassigned_default : forall defs kvs k v,
  dget (assign defs (kvs ++ [(k, v)])) k = Some v
  /\ (forall k', String.eqb k' k = false -> dget (assign defs [(k, v)]) k' = dget defs k')
  /\ (defaults_shape defs -> (forall kv, In kv (kvs ++ [(k, v)]) -> dhas lib_defaults (fst kv) = true) ->
      defaults_shape (assign defs (kvs ++ [(k, v)]))).
Proof.
  intros defs kvs k v. split; [apply assign_last|]. split; [intros k' H; apply assign_one_other; exact H|].
  intros Hs Hk. apply assign_shape; assumption.
Qed.
Print Assumptions C03_reassigned_default.

(* when nothing is re-assigned the stateful model is Sched/Event.v's run_track on the stream paired with the defaults
   (a pattern-valued default moving on by one value per event): the theorems about run_track carry over *)
Theorem C03_stream_without_reassignment : forall N muted n defs ds,
  flat_defaults defs = true -> run_cfg N muted n defs [] ds = run_track N muted n (pair_up defs ds).
Proof. exact run_cfg_run_track. Qed.
Print Assumptions C03_stream_without_reassignment.

Example C03_stream_nonvacuous :
  (* the second dictionary of a stream has a misspelt key: the first is played, then the error, the third never *)
  run_cfg 4 false 12 lib_defaults []
    [[("note"%string, VInt 60)]; [("note"%string, VInt 62); ("amplitde"%string, VInt 80)]; [("note"%string, VInt 64)]]
  = ([(0, Call "note_on" [VInt 60; VInt 64; VInt 0]); (4, Call "note_off" [VInt 60; VInt 0])], Raise ValueError)
  (* octave and channel re-assigned after tick 1, between the two events: the second event uses the new values *)
  /\ run_cfg 4 false 6 lib_defaults [(1, [("octave"%string, VInt 5); ("channel"%string, VInt 3)])]
       [[("note"%string, VInt 1)]; [("note"%string, VInt 2)]]
     = ([(0, Call "note_on" [VInt 1; VInt 64; VInt 0]); (4, Call "note_off" [VInt 1; VInt 0]);
         (4, Call "note_on" [VInt 62; VInt 64; VInt 3])], Ok tt)
  /\ flat_defaults lib_defaults = true.
Proof. vm_compute. repeat split. Qed.

(** * "keys given as objects": the key of an event (or the timeline's default key) is a Key OBJECT that the user holds and
      re-tunes IN PLACE between the events of a running track (key.tonic = ..., key.scale = ..., key.scale.semitones = ...,
      key.scale.shuffle() / change()).  Model: Sched/EventHeld.v - dictionaries and defaults hold REFERENCES [held_ref slot]
      into the store of Key and Scale objects of Tonal/Held.v, the store is part of the state, [deref_dict hs d] reads a
      dictionary in the store hs.  [hplay N muted ch ms n t h] runs n ticks from tick t in state h; [ms] are the in-place
      operations performed between the ticks, [ch] the assignments to timeline.defaults.  All statements hold in EVERY state:
      after any number of events already played with the key and any operations already performed on it. *)

(* each event is resolved with the key AS IT IS when the event is due: the messages of the tick are those of [dispatch] on
   [resolve] of the dictionary read in the store after every operation made so far *)
Theorem C03_held_key_current : forall N muted ch ms n t h d rest e dur,
  let hs := apply_muts ms (t - 1) (h_store h) in
  let defs := apply_changes ch (t - 1) (c_defs (h_c h)) in
  c_stream (h_c h) = d :: rest -> Qle_bool (c_next (h_c h)) (t # N) = true ->
  flat_defaults defs = true ->
  resolve (deref_dict hs defs) (deref_dict hs d) = Ok e ->
  py_float (e_duration e) = Ok dur -> Qle_bool (Qred (c_next (h_c h) + dur)) (t # N) = false ->
  snd (hplay N muted ch ms (S n) t h) <> Unmodelled ->
  exists offs tr, fst (hplay N muted ch ms (S n) t h) = tag t (offs ++ p_calls (dispatch muted e)) ++ tr
                  /\ only_note_offs offs.
Proof. exact hplay_performs. Qed.
Print Assumptions C03_held_key_current.

(* ... so each chord voice plays key[degree] + 12 * octave + transpose for the definition k the held object has in the
   store of that moment (to which C13_held_retune / C13_held_scale_object_retuned say what every operation did): the key
   named by the dictionary, or - when the dictionary names none - the timeline's default key *)
Theorem C03_held_key_pitch : forall st defs d e slot k dv z ov tv oc tr,
  defaults_shape defs -> resolve (deref_dict st defs) (deref_dict st d) = Ok e ->
  spec_selecting_key (dhas d) = Some K_NOTE ->
  dget d K_NOTE = None -> dget d K_DEGREE = Some dv -> degree_floor dv = Some z ->
  key_is_held defs d slot -> Held.key_of st slot = Some k ->
  spec_param (deref_dict st defs) (deref_dict st d) [K_OCTAVE] K_OCTAVE = Some ov -> py_int ov = Ok oc ->
  spec_param (deref_dict st defs) (deref_dict st d) [K_TRANSPOSE] K_TRANSPOSE = Some tv -> py_int tv = Ok tr ->
  exists a g ch pb, e_body e = BNote (VInt (spec_pitch k z oc tr)) a g ch pb.
Proof. exact held_scalar_pitch. Qed.
Print Assumptions C03_held_key_pitch.

Theorem C03_held_key_pitch_chord : forall st defs d e slot k l zs ov tv oc tr,
  defaults_shape defs -> resolve (deref_dict st defs) (deref_dict st d) = Ok e ->
  spec_selecting_key (dhas d) = Some K_NOTE ->
  dget d K_NOTE = None -> (dget d K_DEGREE = Some (VTup l) \/ dget d K_DEGREE = Some (VList l)) -> l <> [] ->
  degree_floors l = Some zs ->
  key_is_held defs d slot -> Held.key_of st slot = Some k ->
  spec_param (deref_dict st defs) (deref_dict st d) [K_OCTAVE] K_OCTAVE = Some ov -> py_int ov = Ok oc ->
  spec_param (deref_dict st defs) (deref_dict st d) [K_TRANSPOSE] K_TRANSPOSE = Some tv -> py_int tv = Ok tr ->
  exists a g ch pb, e_body e = BNote (VList (map (fun z => VInt (spec_pitch k z oc tr)) zs)) a g ch pb.
Proof. exact held_chord_pitch. Qed.
Print Assumptions C03_held_key_pitch_chord.

(* a dictionary with an unknown key is rejected at any position of such a stream, whatever the held objects are *)
Theorem C03_held_reject_unknown_key_anywhere : forall N muted ch ms n t h d rest k v,
  c_stream (h_c h) = d :: rest -> Qle_bool (c_next (h_c h)) (t # N) = true ->
  In (k, v) d -> known_param k = false ->
  exists offs, hplay N muted ch ms (S n) t h = (tag t offs, Raise ValueError) /\ only_note_offs offs.
Proof.
  intros N muted ch ms n t h d rest k v Hs Hd Hin Hk.
  apply (hplay_reject N muted ch ms n t h d rest ValueError Hs Hd); [|reflexivity].
  apply (reject_unknown _ _ k (read_val (apply_muts ms (t - 1) (h_store h)) k v)); [apply in_deref; exact Hin|exact Hk].
Qed.
Print Assumptions C03_held_reject_unknown_key_anywhere.

(* as long as nothing is re-tuned, holding a key object is giving the key by value: the stateful model is Sched/EventCfg.v's
   on the stream read in the (unchanging) store, so every theorem about run_cfg / run_track carries over *)
Theorem C03_held_without_retuning : forall N muted ch hs n t c,
  hplay N muted ch [] n t (mkH c hs) = cplay N muted (deref_changes hs ch) n t (deref_cstate hs c).
Proof. exact hplay_cplay. Qed.
Print Assumptions C03_held_without_retuning.

(* non-vacuity: degrees 0, 2, (4, 6), -1 at octave 5 in one held key, C major; after 4 beats key.tonic = 2, after 8 beats
   key.scale = <a minor scale object>, the Scale object of the first phase is also re-tuned once the key has left it (no
   effect); every pass plays key[degree] of the key as it is then *)
Example C03_held_nonvacuous :
  let ev := fun dg => [("degree"%string, dg); ("key"%string, held_ref 0); ("octave"%string, VInt 5)] in
  let pass := [ev (VInt 0); ev (VInt 2); ev (VTup [VInt 4; VInt 6]); ev (VInt (-1))] in
  let ons := fun tr => flat_map (fun c => match snd c with Call "note_on" (VInt n :: _) => [n] | _ => [] end) tr in
  ons (fst (run_held 4 false 48 lib_defaults []
         [HScale 100 "held-major" (mkScale [0; 2; 4; 5; 7; 9; 11] 12); HKey 0 0 100; HScale 101 "held-minor" (mkScale [0; 2; 3; 5; 7; 8; 10] 12)]
         [(15, [HTonic 0 2]); (31, [HRescale 0 101; HSemis 100 [0; 1]])]
         (pass ++ pass ++ pass)))
  = [60; 64; 67; 71; 59;  62; 66; 69; 73; 61;  62; 65; 69; 72; 60]
  /\ key_is_held lib_defaults (ev (VInt 0)) 0
  /\ Held.key_of (hrun init_store [HScale 100 "held-major" (mkScale [0; 2; 4; 5; 7; 9; 11] 12); HKey 0 0 100; HTonic 0 2]) 0
     = Some (mkKey 2 (mkScale [0; 2; 4; 5; 7; 9; 11] 12)).
Proof. vm_compute. repeat split. left; reflexivity. Qed.

(** * "keys given as ... names": a key given BY NAME ("C minor", "D major", "E myscale" - in the dictionary or as the
      timeline's default) is looked up in the registry of scale names AS IT IS when the event is due.  The registry is the
      [st_reg] of the same store (Tonal/Held.v): scales, weighted scales, copies and keys constructed between two events of
      a running track - under ANY name, also one that is registered already - are operations [muts] of the history.
      [key_of_name_reg st s] = Key(s) in the store st. *)

(* each voice plays key[degree] + 12 * octave + transpose for the key the name denotes in the store of that moment *)
Theorem C03_named_key_pitch : forall st defs d e s k dv z ov tv oc tr,
  defaults_shape defs -> resolve (deref_dict st defs) (deref_dict st d) = Ok e ->
  spec_selecting_key (dhas d) = Some K_NOTE ->
  dget d K_NOTE = None -> dget d K_DEGREE = Some dv -> degree_floor dv = Some z ->
  key_is_named defs d s -> key_of_name_reg st s = Ok k ->
  spec_param (deref_dict st defs) (deref_dict st d) [K_OCTAVE] K_OCTAVE = Some ov -> py_int ov = Ok oc ->
  spec_param (deref_dict st defs) (deref_dict st d) [K_TRANSPOSE] K_TRANSPOSE = Some tv -> py_int tv = Ok tr ->
  exists a g ch pb, e_body e = BNote (VInt (spec_pitch k z oc tr)) a g ch pb.
Proof. exact named_scalar_pitch. Qed.
Print Assumptions C03_named_key_pitch.

Theorem C03_named_key_pitch_chord : forall st defs d e s k l zs ov tv oc tr,
  defaults_shape defs -> resolve (deref_dict st defs) (deref_dict st d) = Ok e ->
  spec_selecting_key (dhas d) = Some K_NOTE ->
  dget d K_NOTE = None -> (dget d K_DEGREE = Some (VTup l) \/ dget d K_DEGREE = Some (VList l)) -> l <> [] ->
  degree_floors l = Some zs ->
  key_is_named defs d s -> key_of_name_reg st s = Ok k ->
  spec_param (deref_dict st defs) (deref_dict st d) [K_OCTAVE] K_OCTAVE = Some ov -> py_int ov = Ok oc ->
  spec_param (deref_dict st defs) (deref_dict st d) [K_TRANSPOSE] K_TRANSPOSE = Some tv -> py_int tv = Ok tr ->
  exists a g ch pb, e_body e = BNote (VList (map (fun z => VInt (spec_pitch k z oc tr)) zs)) a g ch pb.
Proof. exact named_chord_pitch. Qed.
Print Assumptions C03_named_key_pitch_chord.

(* in the freshly imported library a key name means exactly what Sched/Event.v's [key_of_name] (the generated table of
   the library's scales) says: the theorems about [resolve] with string keys are the special case of the initial store *)
Theorem C03_key_name_library : forall s, key_of_name_reg init_store s = key_of_name s.
Proof. exact key_of_name_reg_init. Qed.
Print Assumptions C03_key_name_library.

(* what a key name denotes is NOT changed by anything that happens in the process in between - scales and weighted scales
   constructed under any name (also under the scale name of this very key, also the default name "major" of an unnamed
   WeightedScale), copies (they carry the name of their original) edited afterwards, keys built from names, other objects
   re-tuned -, as long as the registered Scale object itself is not written: for EVERY store and EVERY such history *)
Theorem C03_key_name_stable : forall st ops name sn r,
  scale_name_of name = Some sn -> reg_of st sn = Some r ->
  Forall (fun o => op_oid o <> Some r) ops ->
  key_of_name_reg (hrun st ops) name = key_of_name_reg st name.
Proof. exact key_name_stable. Qed.
Print Assumptions C03_key_name_stable.

(* non-vacuity: degrees 0..3 in "C minor" by name at octave 5, twice; between the passes the user copies the library's minor
   scale and edits the copy, constructs a scale called "minor" and an unnamed WeightedScale (named "major" by default); then
   "D major" by name: all passes play the library's scales; a user scale registered mid-stream is found under its name *)
Example C03_named_nonvacuous :
  let ev := fun nm dg => [("degree"%string, VInt dg); ("key"%string, VStr nm); ("octave"%string, VInt 5)] in
  let ons := fun tr => flat_map (fun c => match snd c with Call "note_on" (VInt n :: _) => [n] | _ => [] end) tr in
  ons (fst (run_held 4 false 56 lib_defaults [] []
         [(15, [HScaleCopy 200 3; HSemis 200 [0; 2; 3; 6; 7; 8; 11]; HScale 201 "minor"%string (mkScale [0; 1; 2] 12);
                HScale 202 "major"%string (mkScale [0; 4; 7] 12); HScale 203 "nineteen"%string (mkScale [0; 5; 11] 19)])]
         ([ev "C minor"%string 0; ev "C minor"%string 1; ev "C minor"%string 2; ev "C minor"%string 3;
           ev "C minor"%string 0; ev "C minor"%string 1; ev "C minor"%string 2; ev "C minor"%string 3;
           ev "D major"%string 0; ev "D major"%string 3; ev "D nineteen"%string 4; ev "E"%string 2])))
  = [60; 62; 63; 65;  60; 62; 63; 65;  62; 67; 86; 68]
  /\ scale_name_of "C minor"%string = Some "minor"%string /\ scale_name_of "E"%string = Some "major"%string
  /\ reg_of init_store "minor"%string = Some 3%nat
  /\ key_is_named lib_defaults (ev "C minor"%string 0) "C minor"%string.
Proof. vm_compute. repeat split. left; reflexivity. Qed.

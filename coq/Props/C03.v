(* Props/C03.v — property C03: event dictionaries resolve to the documented device messages. *)
From Isobar Require Import Base.Prelude Tonal.Key Generated.Tables Generated.TablesC03 Sched.Event.
From Coq Require Import String.

Example C03_model_runs :
  fst (run_track 4 false 2 [(lib_defaults, [("note"%string, VInt 60)])]) = [(0, Call "note_on" [VInt 60; VInt 64; VInt 0])].
Proof. vm_compute. reflexivity. Qed.

(* Props/C18.v — placeholder while the model and correspondence are being brought up *)
From Isobar Require Import Base.Prelude Auto.Automation Auto.Lfo.

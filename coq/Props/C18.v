(* Props/C18.v — property C18: automations reach their target on time; LFOs stay in range and periodic.
   Only the property theorems live here; each is closed by lemmas of Auto/AutomationProofs.v and
   Auto/LfoProofs.v about the executable models Auto/Automation.v and Auto/Lfo.v (exact rationals).

   Reading guide.  [move_to tpb a v d e] is Automation.move_to(v, d, e) at tpb ticks per beat ([d = None]: the
   default duration); [run_ticks k a'] is the automation k ticks later; [a_cv] is current_value, [value] the
   reported value (Automation.value: clipped / wrapped).  The number of ticks of a move is
   [duration_ticks tpb d] = ceil(round(d / tick_duration, 8)), and a move of 0 ticks takes 1 tick. *)
From Isobar Require Import Base.Prelude Auto.Automation Auto.Lfo Auto.AutomationProofs Auto.LfoProofs.
From Isobar Require Import Auto.Retime Auto.RetimeProofs Auto.Targets Auto.TargetsProofs Auto.Readers Auto.ReadersProofs.
From Coq Require Import QArith Qround Qabs Qreduction Lqa.
Local Open Scope Q_scope.

(** * Envelope weights *)

(* for every duration of N >= 1 ticks and every envelope length 0 <= E <= N (i.e. every envelope fraction in
   [0, 1]): N weights, all >= 0, summing to N — so delta_per_tick = delta / N, weighted, adds up to delta *)
Theorem C18_weights : forall N E, (1 <= N)%nat -> (E <= N)%nat ->
  List.length (envelope N E) = N
  /\ Forall (fun w => 0 <= w) (envelope N E)
  /\ qsum (envelope N E) == qnat N.
Proof.
  intros N E HN HE. split; [apply envelope_length, HE|]. split; [apply envelope_nonneg; assumption|].
  rewrite qsum_spec. apply envelope_sum; assumption.
Qed.
Print Assumptions C18_weights.

(** * Duration in ticks *)

(* ceil(duration / tick): exactly m for a duration of m whole ticks (whatever float error the quotient
   carries, up to 5e-9 ticks), and ceil of the quotient for every duration that is not within 5e-9 ticks above
   a whole number; never negative for a duration >= 0 *)
Theorem C18_duration_ticks : forall tpb d m,
  (d * inject_Z tpb == inject_Z m -> duration_ticks tpb d = m)
  /\ (- (1 # 200000000) < d * inject_Z tpb - inject_Z m < 1 # 200000000 -> duration_ticks tpb d = m)
  /\ (inject_Z (m - 1) + (1 # 200000000) < d * inject_Z tpb <= inject_Z m -> duration_ticks tpb d = m)
  /\ (0 <= d -> (0 <= tpb)%Z -> (0 <= duration_ticks tpb d)%Z).
Proof.
  intros tpb d m. split; [apply duration_ticks_whole|]. split; [apply duration_ticks_near|].
  split; [apply duration_ticks_ceiling|apply duration_ticks_nonneg].
Qed.
Print Assumptions C18_duration_ticks.

(* every call in the property's domain (duration >= 0, envelope fraction in [0, 1]) is accepted — including
   envelope 0 and one-tick moves *)
Theorem C18_move_accepted : forall tpb a v d e,
  (0 <= tpb)%Z -> 0 <= (match d with Some x => x | None => a_default a end) -> 0 <= e <= 1 ->
  (exists a', move_to tpb a v d e = Some a') /\ (exists a', move_by tpb a v d e = Some a').
Proof. intros. split; [apply move_to_accepts|apply move_by_accepts]; assumption. Qed.
Print Assumptions C18_move_accepted.

(** * Arrival, monotone approach, staying put *)

(* move_to from ANY state (it discards the moves in progress), any target, duration and envelope fraction the
   call accepts: nothing moves at the call; from tick n = max(duration_ticks, 1) on the value is exactly the
   target and no move is left (it stays put); every tick before moves toward the target, never past it *)
Theorem C18_arrival_move_to : forall tpb a v d e a',
  move_to tpb a v d e = Some a' ->
  let n := Z.to_nat (Z.max (duration_ticks tpb (match d with Some x => x | None => a_default a end)) 1) in
  a_cv a' = a_cv a
  /\ (forall k, (n <= k)%nat -> a_cv (run_ticks k a') == v /\ a_mods (run_ticks k a') = [])
  /\ (a_cv a <= v -> forall k, a_cv (run_ticks k a') <= a_cv (run_ticks (S k) a') <= v)
  /\ (v <= a_cv a -> forall k, v <= a_cv (run_ticks (S k) a') <= a_cv (run_ticks k a')).
Proof.
  intros tpb a v d e a' H. destruct (move_to_spec _ _ _ _ _ _ H) as [_ [S1 [_ [_ [_ [Sw [Ss [St [Su Sd]]]]]]]]].
  cbv zeta in *. fold (move_ticks (duration_ticks tpb match d with Some x => x | None => a_default a end)).
  split; [exact S1|]. split; [|split].
  - intros k Hk. destruct (arrived k a' Sw ltac:(lia)) as [A B]. split; [rewrite A; exact Ss|exact B].
  - intros Hv k. split; [apply monotone_up; auto|]. rewrite <- Ss. apply below_settled; auto.
  - intros Hv k. split; [|apply monotone_down; auto]. rewrite <- Ss. apply above_settled; auto.
Qed.
Print Assumptions C18_arrival_move_to.

(* the headline case: a duration of m >= 1 whole ticks, every envelope fraction in [0, 1]: accepted, and after
   exactly m ticks the value is exactly the target and stays there *)
Theorem C18_arrival_whole_ticks : forall tpb a v d e (m : nat),
  (0 < tpb)%Z -> (1 <= m)%nat -> d * inject_Z tpb == qnat m -> 0 <= e <= 1 ->
  exists a', move_to tpb a v (Some d) e = Some a'
    /\ forall k, (m <= k)%nat -> a_cv (run_ticks k a') == v /\ a_mods (run_ticks k a') = [].
Proof.
  intros tpb a v d e m Ht Hm Hd He.
  assert (Hq : 0 < inject_Z tpb) by (change 0 with (inject_Z 0); rewrite <- Zlt_Qlt; exact Ht).
  assert (Hd0 : 0 <= d).
  { pose proof (qnat_nonneg m) as Hn. rewrite <- Hd in Hn.
    destruct (Qlt_le_dec d 0) as [Hneg|]; [|assumption]. exfalso. nra. }
  destruct (move_to_accepts tpb a v (Some d) e ltac:(lia) Hd0 He) as [a' Ha]. exists a'. split; [exact Ha|].
  destruct (C18_arrival_move_to _ _ _ _ _ _ Ha) as [_ [A _]]. cbv zeta in A.
  rewrite (duration_ticks_whole tpb d (Z.of_nat m) Hd) in A. intros k Hk. apply A. lia.
Qed.
Print Assumptions C18_arrival_whole_ticks.

(* zero duration (given, or as the default duration): accepted, and the value is the target on the next tick *)
Theorem C18_zero_duration : forall tpb a v d e,
  (0 <= tpb)%Z -> (match d with Some x => x | None => a_default a end) == 0 -> 0 <= e <= 1 ->
  exists a', move_to tpb a v d e = Some a'
    /\ a_cv a' = a_cv a
    /\ forall k, (1 <= k)%nat -> a_cv (run_ticks k a') == v /\ a_mods (run_ticks k a') = [].
Proof.
  intros tpb a v d e Ht Hd He.
  destruct (move_to_accepts tpb a v d e Ht ltac:(rewrite Hd; lra) He) as [a' Ha]. exists a'. split; [exact Ha|].
  destruct (C18_arrival_move_to _ _ _ _ _ _ Ha) as [A0 [A _]]. cbv zeta in A. split; [exact A0|].
  rewrite (duration_ticks_whole tpb _ 0%Z) in A by (rewrite Hd; ring). exact A.
Qed.
Print Assumptions C18_zero_duration.

(* move_by on an automation reachable through the API, possibly with other moves still running: the new move
   adds exactly v to where the automation is heading ([settled_value]: current value + everything the running
   moves have not delivered yet); once the longest move has run out the value is exactly that, and stays *)
Theorem C18_arrival_move_by : forall tpb a v d e a',
  reachable tpb a -> move_by tpb a v d e = Some a' ->
  let n := Z.to_nat (Z.max (duration_ticks tpb (match d with Some x => x | None => a_default a end)) 1) in
  a_cv a' = a_cv a
  /\ (forall k, (Nat.max (ticks_left a) n <= k)%nat ->
        a_cv (run_ticks k a') == settled_value a + v /\ a_mods (run_ticks k a') = [])
  /\ (a_mods a = [] ->
        (forall k, (n <= k)%nat -> a_cv (run_ticks k a') == a_cv a + v)
        /\ (0 <= v -> forall k, a_cv (run_ticks k a') <= a_cv (run_ticks (S k) a') <= a_cv a + v)
        /\ (v <= 0 -> forall k, a_cv a + v <= a_cv (run_ticks (S k) a') <= a_cv (run_ticks k a'))).
Proof.
  intros tpb a v d e a' Hr H. pose proof (reachable_wf tpb a Hr) as Hw.
  destruct (move_by_spec _ _ _ _ _ _ Hw H) as [_ [S1 [_ [_ [_ [Sw [Ss [St [Su Sd]]]]]]]]].
  cbv zeta in *. fold (move_ticks (duration_ticks tpb match d with Some x => x | None => a_default a end)) in *.
  split; [exact S1|]. split.
  - intros k Hk. destruct (arrived k a' Sw ltac:(lia)) as [A B]. split; [rewrite A; exact Ss|exact B].
  - intros Hi.
    assert (Hs : settled_value a == a_cv a) by (unfold settled_value; rewrite Hi; unfold pending_all; cbn; ring).
    assert (Hl : ticks_left a = 0%nat) by (unfold ticks_left; rewrite Hi; reflexivity).
    assert (Hu : all_up a) by (unfold all_up; rewrite Hi; constructor).
    assert (Hd : all_down a) by (unfold all_down; rewrite Hi; constructor).
    rewrite Hs in Ss. split; [|split].
    + intros k Hk. destruct (arrived k a' Sw ltac:(lia)) as [A _]. rewrite A. exact Ss.
    + intros Hv k. split; [apply monotone_up; auto|]. rewrite <- Ss. apply below_settled; auto.
    + intros Hv k. split; [|apply monotone_down; auto]. rewrite <- Ss. apply above_settled; auto.
Qed.
Print Assumptions C18_arrival_move_by.

(** * The reported value *)

(* Automation.value: inside [lo, hi] under "clip", inside [lo, hi) and congruent to current_value modulo the
   width under "wrap", current_value itself when that is inside the range or when no range is declared *)
Theorem C18_range : forall a lo hi,
  a_range a = Some (lo, hi) ->
  (a_bound a = Clip -> lo <= hi -> lo <= value a <= hi)
  /\ (a_bound a = Clip -> lo <= a_cv a <= hi -> value a == a_cv a)
  /\ (a_bound a = Wrap -> lo < hi -> lo <= value a < hi)
  /\ (a_bound a = Wrap -> lo <= a_cv a < hi -> value a == a_cv a)
  /\ (a_bound a = Wrap -> exists k : Z, value a == a_cv a + inject_Z k * (hi - lo)).
Proof.
  intros a lo hi Hr. unfold value. rewrite Hr.
  split; [|split; [|split; [|split]]]; intros Hb; rewrite Hb.
  - intros H. apply clip_range, H.
  - intros H. apply clip_inside, H.
  - intros H. apply wrap_range, H.
  - intros H. apply wrap_inside, H.
  - apply wrap_congruent.
Qed.
Print Assumptions C18_range.

Theorem C18_no_range : forall a, a_range a = None -> value a = a_cv a.
Proof. intros a H. unfold value. rewrite H. reflexivity. Qed.

(* the range and the bindings are not touched by ticks, so C18_range applies to every later state; after a
   move_to has arrived the reported value is the clipped / wrapped target, and under "clip" (or no range) the
   reported value approaches monotonically as well *)
Theorem C18_reported_arrival : forall tpb a v d e a',
  move_to tpb a v d e = Some a' ->
  let n := Z.to_nat (Z.max (duration_ticks tpb (match d with Some x => x | None => a_default a end)) 1) in
  (forall k, a_range (run_ticks k a') = a_range a /\ a_bound (run_ticks k a') = a_bound a
             /\ a_binds (run_ticks k a') = a_binds a)
  /\ (forall k, (n <= k)%nat -> value (run_ticks k a') == value (set_cv a v))
  /\ (a_bound a = Clip -> a_cv a <= v -> forall k, value (run_ticks k a') <= value (run_ticks (S k) a'))
  /\ (a_bound a = Clip -> v <= a_cv a -> forall k, value (run_ticks (S k) a') <= value (run_ticks k a')).
Proof.
  intros tpb a v d e a' H. destruct (move_to_spec _ _ _ _ _ _ H) as [_ [_ [R1 [R2 [R3 _]]]]].
  destruct (C18_arrival_move_to _ _ _ _ _ _ H) as [_ [A [U D]]]. cbv zeta in *.
  assert (F : forall k, a_range (run_ticks k a') = a_range a /\ a_bound (run_ticks k a') = a_bound a
                        /\ a_binds (run_ticks k a') = a_binds a).
  { intros k. destruct (run_ticks_fields k a') as [F1 [F2 F3]]. rewrite F1, F2, F3. auto. }
  split; [exact F|]. split; [|split].
  - intros k Hk. rewrite !value_report. destruct (F k) as [F1 [F2 _]]. rewrite F1, F2.
    cbn [set_cv a_range a_bound a_cv]. apply report_proper, A, Hk.
  - intros Hb Hv k. rewrite !value_report. destruct (F k) as [F1 [F2 _]]. destruct (F (S k)) as [G1 [G2 _]].
    rewrite F1, F2, G1, G2, Hb. apply report_mono, U, Hv.
  - intros Hb Hv k. rewrite !value_report. destruct (F k) as [F1 [F2 _]]. destruct (F (S k)) as [G1 [G2 _]].
    rewrite F1, F2, G1, G2, Hb. apply report_mono, D, Hv.
Qed.
Print Assumptions C18_reported_arrival.

(** * Bindings *)

(* a tick that changes current_value calls every bound attribute / method exactly once, in bind order, with
   the value reported after the tick; a tick that does not change it calls nobody.  jump_to calls every binding
   with the new reported value; bind_to initialises the new binding with the current reported value *)
Theorem C18_bindings : forall a,
  (let '(a', calls) := tick a in
     (a_cv a' == a_cv a /\ calls = [])
     \/ (~ a_cv a' == a_cv a /\ calls = map (fun b => (b, value a')) (a_binds a) /\ a_binds a' = a_binds a))
  /\ (forall v, let '(a', calls) := jump_to a v in
        a_cv a' = v /\ a_binds a' = a_binds a /\ calls = map (fun b => (b, value a')) (a_binds a))
  /\ (forall b, let '(a', calls) := bind_to a b in
        a_binds a' = a_binds a ++ [b] /\ value a' = value a /\ calls = [(b, value a)]).
Proof.
  intros a. split; [|split].
  - pose proof (tick_calls a) as Hc. destruct (tick_fields a) as [_ [_ [Hb _]]]. cbv zeta in Hb.
    destruct (tick a) as [a' calls]. cbn [fst] in Hb. destruct Hc as [Hc|[Hn Hc]]; [left; exact Hc|right].
    rewrite Hb in Hc. auto.
  - intros v. pose proof (jump_to_calls a v) as Hc. destruct (jump_to a v) as [a' calls].
    destruct Hc as [C1 [_ [C3 C4]]]. rewrite C3 in C4. auto.
  - intros b. pose proof (bind_to_calls a b) as Hc. destruct (bind_to a b) as [a' calls].
    destruct Hc as [_ [_ [C3 [C4 C5]]]]. rewrite C4 in C5. auto.
Qed.
Print Assumptions C18_bindings.

(* over any number of ticks: each tick either calls nobody or hands every binding the value reported after
   that tick *)
Theorem C18_bindings_trace : forall n a,
  Forall (fun vc : Q * list call => snd vc = [] \/ snd vc = map (fun b => (b, fst vc)) (a_binds a))
         (snd (ticks n a)).
Proof. exact ticks_trace_calls. Qed.
Print Assumptions C18_bindings_trace.

(** * LFO *)
Section Sine.
  (* math.sin(2 pi x) as an abstract function: only boundedness and periodicity are assumed (and that it
     respects equality of rationals, which any function of the real number does) *)
  Variable sin2pi : Q -> Q.
  Hypothesis sin_range : forall x, -1 <= sin2pi x <= 1.
  Hypothesis sin_period : forall x, sin2pi (x + 1) == sin2pi x.
  Hypothesis sin_proper : forall x y, x == y -> sin2pi x == sin2pi y.

  (* min <= value <= max before the first tick and after any number of ticks, also from any later state *)
  Theorem C18_lfo_range : forall tpb f lo hi n, lo <= hi ->
    lo <= lfo_value (lfo_ticks sin2pi tpb n (new_lfo f lo hi)) <= hi.
  Proof. intros. apply lfo_range; assumption. Qed.

  Theorem C18_lfo_range_any_state : forall tpb l n, l_min l <= l_max l ->
    l_min l <= lfo_value (lfo_ticks sin2pi tpb (S n) l) <= l_max l.
  Proof. intros. apply lfo_range_from; assumption. Qed.

  (* the value after n >= 1 ticks is the waveform at time t0 + n / tpb beats, and the waveform has period
     1 / frequency beats *)
  Theorem C18_lfo_period_beats : forall tpb l n f lo hi t,
    l_value (lfo_ticks sin2pi tpb (S n) l)
      == lfo_wave sin2pi (l_freq l) (l_min l) (l_max l) (l_time l + qnat (S n) * (1 / inject_Z tpb))
    /\ (~ f == 0 -> lfo_wave sin2pi f lo hi (t + 1 / f) == lfo_wave sin2pi f lo hi t).
  Proof. intros. split; [apply lfo_value_after; assumption|apply wave_period_beats; assumption]. Qed.

  (* in ticks: when 1 / frequency beats is a whole number p of ticks, the value repeats every p ticks *)
  Theorem C18_lfo_periodic : forall tpb l (p n : nat), (0 < tpb)%Z -> qnat p * l_freq l == inject_Z tpb ->
    lfo_value (lfo_ticks sin2pi tpb (S n + p) l) == lfo_value (lfo_ticks sin2pi tpb (S n) l).
  Proof. intros. apply lfo_periodic_from; assumption. Qed.

  (* PLFO yields exactly lfo.value and leaves the LFO alone; within Timeline.tick the LFOs and automations are
     updated before anything reads them, so a pattern read during the tick sees this tick's values *)
  Theorem C18_plfo : forall tpb l ls autos,
    plfo_next l = (lfo_value l, l)
    /\ snd (timeline_tick sin2pi tpb ls autos)
       = (map (fun l => l_value (lfo_tick sin2pi tpb l)) ls, map (fun a => value (fst (tick a))) autos).
  Proof.
    intros. split; [reflexivity|]. unfold timeline_tick. cbn [snd fst plfo_next lfo_value].
    rewrite !map_map. reflexivity.
  Qed.
End Sine.
Print Assumptions C18_lfo_range.
Print Assumptions C18_lfo_range_any_state.
Print Assumptions C18_lfo_period_beats.
Print Assumptions C18_lfo_periodic.
Print Assumptions C18_plfo.

(** * Non-vacuity: concrete inputs meeting the hypotheses *)

(* weights of a 5-tick move with a 2-tick envelope: [0; 5/3; 5/3; 5/3; 0] *)
Example C18_weights_nonvacuous :
  envelope 5 2 = [0; 5 # 3; 5 # 3; 5 # 3; 0] /\ Qeq_bool (qsum (envelope 5 2)) 5 = true.
Proof. vm_compute. split; reflexivity. Qed.

(* 5/24 beats at 24 ticks per beat is 5 ticks (the pinned code made it 6); 0.21 beats is ceil(5.04) = 6 *)
Example C18_duration_ticks_nonvacuous :
  duration_ticks 24 (5 # 24) = 5%Z /\ duration_ticks 24 (21 # 100) = 6%Z /\ duration_ticks 24 0 = 0%Z.
Proof. vm_compute. repeat split. Qed.

(* move_to(8, 5/24 beats, envelope 0 / 0.5 / 1) from 2 at 24 ticks per beat, range (0, 10) clipped, one
   binding: accepted; values after ticks 1..6 end exactly on 8 at tick 5 (4 for envelope 0.5, whose last
   weight is 0) and stay *)
Example C18_arrival_nonvacuous :
  let a := fst (bind_to (new_automation (Some (0, 10)) Clip (Some 2) 0) 7%Z) in
  let trace e := option_map (fun a' => map fst (snd (ticks 6 a'))) (move_to 24 a 8 (Some (5 # 24)) e) in
  trace 0 = Some [16 # 5; 22 # 5; 28 # 5; 34 # 5; 8; 8]
  /\ trace (1 # 2) = Some [2; 4; 6; 8; 8; 8]
  /\ trace 1 = Some [22 # 5; 31 # 5; 37 # 5; 8; 8; 8]
  /\ option_map (fun a' => map fst (snd (ticks 2 a'))) (move_to 24 a 8 (Some 0) (1 # 2)) = Some [8; 8].
Proof. vm_compute. repeat split. Qed.

(* a reachable automation with a move in progress, then move_by: heads for 2 + 6 + 1 = 9 *)
Example C18_move_by_nonvacuous :
  exists a a', reachable 24 a /\ a_mods a <> [] /\ move_by 24 a 1 (Some (1 # 12)) (1 # 2) = Some a'
    /\ Qeq_bool (settled_value a + 1) 9 = true /\ Qeq_bool (a_cv (run_ticks 5 a')) 9 = true.
Proof.
  pose (a0 := new_automation None Clip (Some 2) 0).
  destruct (move_to 24 a0 8 (Some (5 # 24)) 0) as [a1|] eqn:E1; [|vm_compute in E1; discriminate].
  pose (a2 := fst (tick a1)).
  destruct (move_by 24 a2 1 (Some (1 # 12)) (1 # 2)) as [a3|] eqn:E2;
    [|vm_compute in E1; apply some_inj in E1; subst a1; vm_compute in E2; discriminate].
  exists a2, a3. split; [|split; [|split; [exact E2|]]].
  - apply (reach_step 24 a1 OTick a2 (snd (tick a1))).
    + apply (reach_step 24 a0 (OMoveTo 8 (Some (5 # 24)) 0) a1 []); [apply reach_new|].
      cbn [step]. rewrite E1. reflexivity.
    + cbn [step]. unfold a2. destruct (tick a1); reflexivity.
  - vm_compute in E1; apply some_inj in E1; subst a1. vm_compute. discriminate.
  - vm_compute in E1; apply some_inj in E1; subst a1. vm_compute in E2; apply some_inj in E2; subst a3.
    vm_compute. split; reflexivity.
Qed.

(* wrap: 8 in the range (2, 5) reads as 2 (8 = 2 + 2 * 3), 3 reads as 3; clip: 8 reads as 5 *)
Example C18_range_nonvacuous :
  value (new_automation (Some (2, 5)) Wrap (Some 8) 0) = 2
  /\ value (new_automation (Some (2, 5)) Wrap (Some 3) 0) = 3
  /\ value (new_automation (Some (2, 5)) Clip (Some 8) 0) = 5.
Proof. vm_compute. repeat split. Qed.

(* two bindings: the tick that moves the value calls both, in order, with the clipped value *)
Example C18_bindings_nonvacuous :
  let a := fst (bind_to (fst (bind_to (new_automation (Some (0, 5)) Clip (Some 2) 0) 1%Z)) 2%Z) in
  option_map (fun a' => snd (tick a')) (move_to 24 a 8 (Some 0) (1 # 2)) = Some [(1%Z, 5); (2%Z, 5)].
Proof. vm_compute. reflexivity. Qed.

(* the hypotheses on sin2pi are satisfiable (a square wave of period 1), so the LFO theorems are not vacuous;
   frequency 2 at 24 ticks per beat has a period of 12 ticks *)
Example C18_lfo_nonvacuous :
  (forall n, 2 <= lfo_value (lfo_ticks square 24 n (new_lfo 2 2 5)) <= 5)
  /\ (forall n, lfo_value (lfo_ticks square 24 (S n + 12) (new_lfo 2 2 5))
                == lfo_value (lfo_ticks square 24 (S n) (new_lfo 2 2 5)))
  /\ map Qred (lfo_trace square 24 13 (new_lfo 2 2 5)) = [5; 5; 5; 5; 5; 5; 2; 2; 2; 2; 2; 5; 5].
Proof.
  destruct square_facts as [R [P C]]. split; [|split].
  - intros n. apply (C18_lfo_range square R C). lra.
  - intros n. apply (C18_lfo_periodic square P C); [lia|reflexivity].
  - vm_compute. reflexivity.
Qed.

(** * LFO re-configured after construction (FIX-C18): lfo.min / lfo.max / lfo.frequency assigned, LFO.update,
   Timeline.lfo(params, name=<existing>), LFO.reset, at any point between ticks *)
Section SineReconfig.
  Variable sin2pi : Q -> Q.
  Hypothesis sin_range : forall x, -1 <= sin2pi x <= 1.
  Hypothesis sin_period : forall x, sin2pi (x + 1) == sin2pi x.
  Hypothesis sin_proper : forall x y, x == y -> sin2pi x == sin2pi y.

  (* after ANY history of ticks, re-configurations and resets that ends in a tick the value lies within the
     bounds the LFO has NOW; in trace form: every tick of a history yields a value within the bounds in force
     at that tick *)
  Theorem C18_lfo_reconfig_range : forall tpb ops l,
    (let l' := lfo_run sin2pi tpb (ops ++ [LTick]) l in
     l_min l' <= l_max l' -> l_min l' <= lfo_value l' <= l_max l')
    /\ (forall b v lo hi, In (b, v, (lo, hi)) (lfo_script_trace sin2pi tpb ops l) ->
        b = true -> lo <= hi -> lo <= v <= hi).
  Proof.
    intros. split; [apply lfo_range_after_history; assumption|].
    intros b v lo hi HI. exact (proj1 (Forall_forall _ _) (lfo_script_range sin2pi sin_range tpb ops l) _ HI).
  Qed.

  (* the configuration in force is the one assigned last: an update sets exactly the fields it names (a dict
     names each once) and moves neither the value nor the phase clock *)
  Theorem C18_lfo_reconfig_config : forall ps l k x,
    l_value (lfo_update ps l) = l_value l /\ l_time (lfo_update ps l) = l_time l
    /\ (lookup_key k ps = None -> lfo_get k (lfo_update ps l) = lfo_get k l)
    /\ (NoDup (map fst ps) -> lookup_key k ps = Some x -> lfo_get k (lfo_update ps l) = x).
  Proof.
    intros. destruct (update_keeps ps l) as [A B]. repeat split; try assumption.
    - apply update_get_notin.
    - apply update_get_in.
  Qed.

  (* after any history, the ticks that follow trace the waveform of the CURRENT frequency and bounds on the
     running clock (which re-configuration did not move), so the value repeats with the period of the current
     frequency; and PLFO reads exactly that value *)
  Theorem C18_lfo_reconfig_periodic : forall tpb ops l0 (p n : nat),
    let l := lfo_run sin2pi tpb ops l0 in
    l_value (lfo_ticks sin2pi tpb (S n) l)
      == lfo_wave sin2pi (l_freq l) (l_min l) (l_max l) (l_time l + qnat (S n) * (1 / inject_Z tpb))
    /\ ((0 < tpb)%Z -> qnat p * l_freq l == inject_Z tpb ->
        lfo_value (lfo_ticks sin2pi tpb (S n + p) l) == lfo_value (lfo_ticks sin2pi tpb (S n) l))
    /\ (forallb (fun o => negb (is_lreset o)) ops = true ->
        l_time l == l_time l0 + qnat (List.length (filter is_ltick ops)) * (1 / inject_Z tpb))
    /\ lfo_run sin2pi tpb (ops ++ repeat LTick n) l0 = lfo_ticks sin2pi tpb n l
    /\ plfo_next l = (lfo_value l, l).
  Proof.
    intros. repeat split.
    - apply lfo_value_after; assumption.
    - intros. apply lfo_periodic_from; assumption.
    - apply lfo_run_time.
    - unfold l. rewrite lfo_run_app. apply lfo_run_ticks.
  Qed.
End SineReconfig.

(* Timeline.lfo(params, name=n) with an LFO of that name present: that LFO is updated in place and returned,
   no LFO is added or removed, the others are untouched *)
Theorem C18_timeline_lfo_in_place : forall name ps ls i,
  tl_find name ls 0 = Some i ->
  tl_lfo (Some name) ps ls = Some (tl_update_at i ps ls, i)
  /\ List.length (tl_update_at i ps ls) = List.length ls
  /\ (forall j, j <> i -> nth_error (tl_update_at i ps ls) j = nth_error ls j)
  /\ exists l, nth_error ls i = Some (Some name, l)
               /\ nth_error (tl_update_at i ps ls) i = Some (Some name, lfo_update ps l).
Proof.
  intros name ps ls i H. unfold tl_lfo. rewrite H. repeat split.
  - apply tl_update_at_length.
  - intros. apply tl_update_at_other; assumption.
  - destruct (tl_find_named _ _ _ _ H) as [_ [l Hl]]. rewrite Nat.sub_0_r in Hl. exists l. split; [exact Hl|].
    apply tl_update_at_same. exact Hl.
Qed.
Print Assumptions C18_lfo_reconfig_range.
Print Assumptions C18_lfo_reconfig_config.
Print Assumptions C18_lfo_reconfig_periodic.
Print Assumptions C18_timeline_lfo_in_place.

(* a square-wave LFO 2..5 at frequency 2, 24 ticks per beat: 3 ticks, range re-assigned to 60..72 (the value read
   before the next tick is still the old one), 4 ticks, frequency 2 -> 4 and range narrowed to 64..65, 4 ticks *)
Example C18_lfo_reconfig_nonvacuous :
  let ops := [LTick; LTick; LTick; LUpdate [(KMin, 60); (KMax, 72)]; LTick; LTick; LTick; LTick;
              LUpdate [(KFreq, 4); (KMax, 65); (KMin, 64)]; LTick; LTick; LTick; LTick] in
  map (fun e => Qred (snd (fst e))) (lfo_script_trace square 24 ops (new_lfo 2 2 5))
    = [5; 5; 5; 5; 72; 72; 72; 60; 60; 65; 65; 64; 64]
  /\ (forall b v lo hi, In (b, v, (lo, hi)) (lfo_script_trace square 24 ops (new_lfo 2 2 5)) ->
      b = true -> lo <= hi -> lo <= v <= hi)
  /\ tl_lfo (Some 7%Z) [(KMax, 9)] [(None, new_lfo 1 0 1); (Some 7%Z, new_lfo 2 2 5)]
     = Some ([(None, new_lfo 1 0 1); (Some 7%Z, mkLfo 2 2 9 0 (scale_lin_lin 0 (-1) 1 2 5))], 1%nat).
Proof.
  destruct square_facts as [R [P C]]. split; [|split].
  - vm_compute. reflexivity.
  - intros b v lo hi. apply (C18_lfo_reconfig_range square R).
  - vm_compute. reflexivity.
Qed.

(** * Automation re-configured after construction (FIX-C18): range / boundaries / default_duration re-assigned,
   also while moves are running *)
(* the assignment calls nobody and leaves current_value, the moves under way and the bindings alone; the moves
   then run exactly as they would have (same current_value after every number of ticks, hence the same arrival
   tick and target), and what is reported after n ticks is that current_value clipped / wrapped into the range
   NOW in force — inside [lo, hi] (clip) or [lo, hi) (wrap) by C18_range, which holds in any state.  The states so
   reached are API-reachable, so C18_arrival_move_by covers moves made on a re-configured automation. *)
Theorem C18_reconfig_auto : forall tpb n a r b d,
  let a' := set_default (set_bound (set_range a r) b) d in
  step tpb a (OSetRange r) = Some (set_range a r, [])
  /\ step tpb a (OSetBound b) = Some (set_bound a b, [])
  /\ step tpb a (OSetDefault d) = Some (set_default a d, [])
  /\ a_cv (run_ticks n a') = a_cv (run_ticks n a)
  /\ a_mods (run_ticks n a') = a_mods (run_ticks n a)
  /\ a_binds (run_ticks n a') = a_binds a
  /\ value (run_ticks n a') = report r b (a_cv (run_ticks n a))
  /\ (reachable tpb a -> reachable tpb a').
Proof.
  intros tpb n a r b d. cbv zeta. destruct (reconfig_value n a r b d) as [A [B [C D]]]. cbv zeta in *.
  repeat split; try assumption. intros R.
  eapply reach_step; [eapply reach_step; [eapply reach_step; [exact R|]|]|];
    [exact (eq_refl : step tpb a (OSetRange r) = _)
    |exact (eq_refl : step tpb (set_range a r) (OSetBound b) = _)
    |exact (eq_refl : step tpb (set_bound (set_range a r) b) (OSetDefault d) = _)].
Qed.
Print Assumptions C18_reconfig_auto.

(* a move from 2 to 8 over 4 ticks under clip 0..10; after 2 ticks the range becomes 0..4 under wrap:
   current_value goes 5, 6.5, 8 as it would have; reported: 5 -> 1 at the assignment, then 2.5, 0 *)
Example C18_reconfig_auto_nonvacuous :
  let a0 := new_automation (Some (0, 10)) Clip (Some 2) 0 in
  match move_to 24 a0 8 (Some (4 # 24)) 0 with
  | Some a1 =>
      let a2 := run_ticks 2 a1 in
      let a3 := set_bound (set_range a2 (Some (0, 4))) Wrap in
      (Qred (value a2), Qred (value a3), Qred (value (run_ticks 1 a3)), Qred (value (run_ticks 2 a3)),
       Qred (a_cv (run_ticks 2 a3)))
  | None => (0, 0, 0, 0, 0)
  end = (5, 1, 5 # 2, 0, 8).
Proof. vm_compute. reflexivity. Qed.

(** * The timeline's resolution is changed in the middle of a run (FIX-C18, second round): timeline.ticks_per_beat = n,
   or a clock source with another resolution, after the LFO / automation has been ticking.  A history is a list of
   operations in which [RLTpb n] / [RATpb n] replaces the resolution carried in the state (Auto/Retime.v); the LFO /
   automation state is carried over. *)
Section SineRetime.
  Variable sin2pi : Q -> Q.
  Hypothesis sin_range : forall x, -1 <= sin2pi x <= 1.
  Hypothesis sin_period : forall x, sin2pi (x + 1) == sin2pi x.
  Hypothesis sin_proper : forall x y, x == y -> sin2pi x == sin2pi y.

  (* range: after ANY history of ticks, re-configurations, resets and resolution changes that ends in a tick the
     value lies within the bounds in force; trace form: every tick of the history *)
  Theorem C18_retime_lfo_range : forall st ops,
    (let l' := snd (rl_run sin2pi st (ops ++ [RL LTick])) in
     l_min l' <= l_max l' -> l_min l' <= lfo_value l' <= l_max l')
    /\ (forall b v lo hi, In (b, v, (lo, hi)) (rl_trace sin2pi st ops) -> b = true -> lo <= hi -> lo <= v <= hi).
  Proof.
    intros. split; [apply rl_range_after_history; assumption|].
    intros b v lo hi HI. exact (proj1 (Forall_forall _ _) (rl_trace_range sin2pi sin_range st ops) _ HI).
  Qed.

  (* the phase follows the beat position: the LFO's clock after a history without reset is its clock before plus
     the beats that elapsed — every tick counted with the tick length in force AT THAT TICK —, the resolution in
     force is the one set last, and the value after a tick is the waveform of the current frequency and bounds at
     that beat position: sin(2 pi f t) with t in beats, whatever resolutions the run went through *)
  Theorem C18_retime_lfo_phase : forall st ops,
    forallb rl_noreset ops = true ->
    let st' := rl_run sin2pi st (ops ++ [RL LTick]) in
    fst st' = rl_tpb (fst st) ops
    /\ l_time (snd st') == l_time (snd st) + rl_beats (fst st) (ops ++ [RL LTick])
    /\ l_value (snd st') == lfo_wave sin2pi (l_freq (snd st')) (l_min (snd st')) (l_max (snd st'))
                                     (l_time (snd st) + rl_beats (fst st) (ops ++ [RL LTick])).
  Proof.
    intros st ops H. cbv zeta. split; [|split].
    - rewrite rl_run_tpb, rl_tpb_app. reflexivity.
    - apply rl_run_time. rewrite forallb_app, H. reflexivity.
    - apply rl_value_at_beats; assumption.
  Qed.

  (* period 1 / frequency beats ACROSS resolution changes: two ticks that are k whole periods apart in beats, with
     only ticks and resolution changes in between, show the same value *)
  Theorem C18_retime_lfo_periodic_beats : forall st ops1 ops2 (k : nat),
    forallb rl_plain ops2 = true ->
    let st1 := rl_run sin2pi st (ops1 ++ [RL LTick]) in
    let st2 := rl_run sin2pi st1 (ops2 ++ [RL LTick]) in
    rl_beats (fst st1) (ops2 ++ [RL LTick]) * l_freq (snd st1) == qnat k ->
    l_value (snd st2) == l_value (snd st1).
  Proof. intros. apply (rl_periodic_beats sin2pi sin_period sin_proper st ops1 ops2 k); assumption. Qed.

  (* the segment after the change, from ANY state the history before it may have left the LFO in: the run is the
     old state ticked at the NEW resolution; every value is within the bounds, is the waveform at (clock at the
     change) + n / new resolution, and repeats every p ticks when p * frequency = the new resolution *)
  Theorem C18_retime_lfo_segment : forall st ops tpb2 (n p : nat),
    let l := snd (rl_run sin2pi st ops) in
    rl_run sin2pi st (ops ++ RLTpb tpb2 :: repeat (RL LTick) n) = (tpb2, lfo_ticks sin2pi tpb2 n l)
    /\ (l_min l <= l_max l -> l_min l <= lfo_value (lfo_ticks sin2pi tpb2 (S n) l) <= l_max l)
    /\ l_value (lfo_ticks sin2pi tpb2 (S n) l)
         == lfo_wave sin2pi (l_freq l) (l_min l) (l_max l) (l_time l + qnat (S n) * (1 / inject_Z tpb2))
    /\ ((0 < tpb2)%Z -> qnat p * l_freq l == inject_Z tpb2 ->
         lfo_value (lfo_ticks sin2pi tpb2 (S n + p) l) == lfo_value (lfo_ticks sin2pi tpb2 (S n) l)).
  Proof.
    intros. cbv zeta. split; [apply rl_segment_after|]. split; [|split].
    - intros. apply lfo_range_from; assumption.
    - apply lfo_value_after; assumption.
    - intros. apply lfo_periodic_from; assumption.
  Qed.
End SineRetime.
Print Assumptions C18_retime_lfo_range.
Print Assumptions C18_retime_lfo_phase.
Print Assumptions C18_retime_lfo_periodic_beats.
Print Assumptions C18_retime_lfo_segment.

(* square wave 0..1, frequency 1: two ticks at 4 ticks per beat, then the resolution becomes 8: the value keeps
   following the beat position (1/4, 1/2 | 5/8, 6/8, 7/8, 1, 9/8 beats), not the tick count *)
Example C18_retime_lfo_nonvacuous :
  let ops := [RL LTick; RL LTick; RLTpb 8; RL LTick; RL LTick; RL LTick; RL LTick; RL LTick] in
  map (fun e => Qred (snd (fst e))) (rl_trace square (4%Z, new_lfo 1 0 1) ops) = [1; 1; 1; 0; 0; 0; 1; 1]
  /\ Qeq_bool (rl_beats 4 ops) (9 # 8) = true
  /\ forallb rl_noreset ops = true /\ forallb rl_plain ops = true
  /\ Qeq_bool (rl_beats 4 (RL LTick :: RLTpb 8 :: repeat (RL LTick) 6) * 1) (qnat 1) = true.
Proof. vm_compute. repeat split. Qed.

(** Automations under resolution changes *)

(* a move made at the resolution in force NOW — after any history of calls, ticks and resolution changes, indeed
   from any state — lasts max(ceil(round8(duration * tpb)), 1) ticks of the CURRENT resolution [tpb]; while it is
   under way further resolution changes are invisible (k ticks are k ticks): the automation after a stretch of
   ticks and resolution changes is [run_ticks (number of ticks)] of the state after the call, so it is exactly on
   target from that tick on, moves monotonically before, and stays put (C18_arrival_move_to) *)
Theorem C18_retime_move_to : forall tpb a v d e a' idle,
  move_to tpb a v d e = Some a' -> forallb ra_idle idle = true ->
  let n := Z.to_nat (Z.max (duration_ticks tpb (match d with Some x => x | None => a_default a end)) 1) in
  exists tpb' tr,
    ra_run (tpb, a) (RA (OMoveTo v d e) :: idle) = Some ((tpb', run_ticks (ra_ticks idle) a'), tr)
    /\ ((n <= ra_ticks idle)%nat -> a_cv (run_ticks (ra_ticks idle) a') == v /\ a_mods (run_ticks (ra_ticks idle) a') = [])
    /\ (a_cv a <= v -> a_cv (run_ticks (ra_ticks idle) a') <= v)
    /\ (v <= a_cv a -> v <= a_cv (run_ticks (ra_ticks idle) a')).
Proof.
  intros tpb a v d e a' idle H Hi. cbv zeta.
  destruct (ra_run_idle (tpb, a') idle Hi) as [tpb' [tr [E _]]]. cbn [snd] in E.
  exists tpb', ([] :: tr). split; [|split; [|split]].
  - cbn [ra_run ra_step step fst snd]. rewrite H. cbn [option_map fst snd]. rewrite E. reflexivity.
  - intros Hk. destruct (C18_arrival_move_to _ _ _ _ _ _ H) as [_ [A _]]. apply A, Hk.
  - intros Hv. destruct (C18_arrival_move_to _ _ _ _ _ _ H) as [A0 [_ [U _]]].
    destruct (ra_ticks idle) as [|k]; [change (run_ticks 0 a') with a'; rewrite A0; exact Hv|apply (U Hv k)].
  - intros Hv. destruct (C18_arrival_move_to _ _ _ _ _ _ H) as [A0 [_ [_ D]]].
    destruct (ra_ticks idle) as [|k]; [change (run_ticks 0 a') with a'; rewrite A0; exact Hv|apply (D Hv k)].
Qed.
Print Assumptions C18_retime_move_to.

(* move_by after any history with resolution changes: the state reached is well formed, so the move adds exactly v to
   where the automation is heading and the statement of C18_arrival_move_by holds with the resolution in force at
   the call *)
Theorem C18_retime_move_by : forall st0 ops tpb a tr v d e a',
  reachable_rt (snd st0) -> ra_run st0 ops = Some ((tpb, a), tr) -> move_by tpb a v d e = Some a' ->
  let n := Z.to_nat (Z.max (duration_ticks tpb (match d with Some x => x | None => a_default a end)) 1) in
  reachable_rt a /\ reachable_rt a'
  /\ a_cv a' = a_cv a
  /\ (forall k, (Nat.max (ticks_left a) n <= k)%nat ->
        a_cv (run_ticks k a') == settled_value a + v /\ a_mods (run_ticks k a') = [])
  /\ (a_mods a = [] ->
        (forall k, (n <= k)%nat -> a_cv (run_ticks k a') == a_cv a + v)
        /\ (0 <= v -> forall k, a_cv (run_ticks k a') <= a_cv (run_ticks (S k) a') <= a_cv a + v)
        /\ (v <= 0 -> forall k, a_cv a + v <= a_cv (run_ticks (S k) a') <= a_cv (run_ticks k a'))).
Proof.
  intros st0 ops tpb a tr v d e a' R H Hm. cbv zeta.
  pose proof (ra_run_reachable _ _ _ _ R H) as Ra. cbn [snd] in Ra.
  split; [exact Ra|]. split.
  - apply (reach_rt_step tpb a (OMoveBy v d e) a' []); [exact Ra|]. cbn [step]. rewrite Hm. reflexivity.
  - exact (arrival_move_by_wf tpb a v d e a' (reachable_rt_wf a Ra) Hm).
Qed.
Print Assumptions C18_retime_move_by.

(* from 0 to 6 in 1/4 beat: 3 ticks at 12 ticks per beat; after one tick the resolution becomes 24 (the move under way
   keeps its 3 ticks), on arrival the same call lasts 6 ticks *)
Example C18_retime_auto_nonvacuous :
  let a0 := new_automation None Clip (Some 0) 0 in
  option_map (fun r => (fst (fst r), Qred (a_cv (snd (fst r)))))
    (ra_run (12%Z, a0) [RA (OMoveTo 6 (Some (1 # 4)) 0); RA OTick; RATpb 24; RA OTick; RA OTick; RA OTick;
                         RA (OMoveTo 0 (Some (1 # 4)) 0); RA OTick; RA OTick; RA OTick]) = Some (24%Z, 3)
  /\ duration_ticks 12 (1 # 4) = 3%Z /\ duration_ticks 24 (1 # 4) = 6%Z
  /\ forallb ra_idle [RA OTick; RATpb 24; RA OTick; RA OTick; RA OTick] = true.
Proof. vm_compute. repeat split. Qed.

(** * Several bound objects, equal but not identical (FIX-C18, second round) *)

(* over whole histories (API calls, ticks, resolution changes): the bindings of the automation are those it had plus
   every binding made since, in order — none is skipped, none removed —, and the next tick that changes the value
   (and every jump_to) calls each of them, once per binding, in bind order, with the value reported afterwards *)
Theorem C18_bindings_history : forall st ops st1 tr,
  ra_run st ops = Some (st1, tr) ->
  let bs := a_binds (snd st) ++ ra_binds ops in
  a_binds (snd st1) = bs
  /\ (let '(a', calls) := tick (snd st1) in
        (a_cv a' == a_cv (snd st1) /\ calls = [])
        \/ (~ a_cv a' == a_cv (snd st1) /\ calls = map (fun b => (b, value a')) bs))
  /\ (forall v, let '(a', calls) := jump_to (snd st1) v in calls = map (fun b => (b, value a')) bs).
Proof. exact history_tick_calls. Qed.
Print Assumptions C18_bindings_history.

(* targets (Auto/Targets.v) carry an identity and a key standing for what == compares.  Whatever the keys — in
   particular when several of the targets, or a target and an object bound earlier, compare EQUAL without being
   identical — binding them all is accepted, hands each the current value, and after any further history every one of
   them is called by the next tick that changes the value with the value reported after that tick, exactly as often
   as it was bound (at least once); the attr / method mode makes no difference *)
Theorem C18_bindings_equal_targets : forall st ts ops st1 tr,
  (exists a0 tr0, ra_run st (bind_ops ts) = Some ((fst st, a0), tr0)
                  /\ tr0 = map (fun t => [(tg_id t, value (snd st))]) ts
                  /\ a_binds a0 = a_binds (snd st) ++ map tg_id ts)
  /\ (ra_run st (bind_ops ts ++ ops) = Some (st1, tr) ->
      let '(a', calls) := tick (snd st1) in
      ~ a_cv a' == a_cv (snd st1) ->
      forall t, In t ts ->
        In (tg_id t, value a') calls
        /\ calls_to (tg_id t) calls = bound_times (tg_id t) (a_binds (snd st) ++ map tg_id ts ++ ra_binds ops)
        /\ (1 <= calls_to (tg_id t) calls)%nat).
Proof.
  intros st ts ops st1 tr. split.
  - destruct (bind_ops_run st ts) as [a0 [tr0 [E [_ [_ [B [_ [_ T]]]]]]]]. exists a0, tr0. auto.
  - intros H. destruct (history_tick_calls _ _ _ _ H) as [_ [Hc _]]. cbv zeta in Hc.
    destruct (tick (snd st1)) as [a' calls]. intros Hn t Ht.
    destruct Hc as [[Hc _]|[_ Hc]]; [contradiction|].
    rewrite ra_binds_app, ra_binds_bind_ops in Hc.
    assert (Hin : In (tg_id t) (a_binds (snd st) ++ map tg_id ts ++ ra_binds ops)).
    { apply in_or_app. right. apply in_or_app. left. apply in_map. exact Ht. }
    split; [|split].
    + rewrite Hc. apply (in_map (fun b => (b, value a'))) in Hin. exact Hin.
    + rewrite Hc. apply calls_to_notify.
    + rewrite Hc, calls_to_notify. apply bound_times_in. exact Hin.
Qed.
Print Assumptions C18_bindings_equal_targets.

(* three voices with the same key (equal, not identical) and a fourth of another kind, bound to an automation that
   already has a binding; a move follows: the tick calls all five *)
Example C18_bindings_equal_targets_nonvacuous :
  let ts := [mkTarget 11 0 false; mkTarget 12 0 false; mkTarget 13 0 false; mkTarget 14 7 true] in
  let a := fst (bind_to (new_automation (Some (0, 5)) Clip (Some 0) 0) 10%Z) in
  option_map (fun r => snd (tick (snd (fst r))))
    (ra_run (24%Z, a) (bind_ops ts ++ [RA (OMoveTo 8 (Some 0) (1 # 2))]))
  = Some [(10%Z, 5); (11%Z, 5); (12%Z, 5); (13%Z, 5); (14%Z, 5)].
Proof. vm_compute. reflexivity. Qed.

(** * The LFO is read through patterns while it keeps running (FIX-C18, third round): PLFO inside expressions,
   PConcatenate, PReset, PPingPong, finite wrappers, the event stream of a track; the readers are advanced, reset,
   drained by all() / len(), constructed, the tracks reset by Timeline.schedule(<Track>) / Timeline.reset().
   In Auto/Readers.v every pattern operation threads the LFO through, so "the operation wrote to the LFO" is expressible. *)

(* a reader is a pure observer: every pattern operation (next / reset / all, i.e. len) on every reader tree, and every
   construction, for every amount of fuel and whatever the outcome, leaves the LFO exactly as it found it; and what it
   returns and what the tree becomes depends on the LFO only through lfo.value at that moment *)
Theorem C18_reader_pure_observer : forall fuel c r s l,
  snd (rd_run fuel c r l) = l
  /\ snd (build fuel s l) = l
  /\ (forall l', l_value l = l_value l' ->
        fst (rd_run fuel c r l) = fst (rd_run fuel c r l') /\ fst (build fuel s l) = fst (build fuel s l')).
Proof.
  intros fuel c r s l. destruct (rd_run_obs fuel c r l) as [A B]. destruct (build_obs fuel s l) as [C D].
  split; [exact A|]. split; [exact C|]. intros l' H. split; [apply B, H|apply D, H].
Qed.
Print Assumptions C18_reader_pure_observer.

(* "reads as a pattern with that same value": next(PLFO(lfo)) is lfo.value at that moment (and the reader stays a
   PLFO); an arithmetic expression yields the operator applied to what its operands yield at that moment *)
Theorem C18_reader_reads_value : forall fuel l,
  rd_run (S fuel) CNext RdLfo l = ((RVal (lfo_value l), RdLfo), l)
  /\ (forall o a b va a' vb b',
        fst (rd_run fuel CNext a l) = (RVal va, a') -> fst (rd_run fuel CNext b l) = (RVal vb, b') ->
        rd_run (S fuel) CNext (RdBin o a b) l = ((RVal (binop_apply o va vb), RdBin o a' b'), l)).
Proof. intros fuel l. split; [reflexivity|]. intros. apply rd_next_bin; assumption. Qed.
Print Assumptions C18_reader_reads_value.

Section SineReaders.
  Variable sin2pi : Q -> Q.
  Hypothesis sin_range : forall x, -1 <= sin2pi x <= 1.
  Hypothesis sin_period : forall x, sin2pi (x + 1) == sin2pi x.
  Hypothesis sin_proper : forall x y, x == y -> sin2pi x == sin2pi y.

  (* over whole histories — timeline ticks interleaved in any way with next / reset / all on any of several readers of
     the one LFO, constructions of new readers, events and resets of tracks, Timeline.reset —: the LFO (clock, value,
     configuration) is EXACTLY the LFO of the tick-only history; hence it is in range after every tick, its value is
     the waveform at (clock at the start) + (number of ticks) / tpb, and it repeats every p ticks when
     p * frequency = tpb, however many pattern operations happened in between *)
  Theorem C18_readers_history : forall fuel tpb w ops,
    w_lfo (w_run sin2pi fuel tpb w ops) = lfo_ticks sin2pi tpb (w_ticks ops) (w_lfo w)
    /\ (let l' := w_lfo (w_run sin2pi fuel tpb w (ops ++ [WTick])) in
        l_min (w_lfo w) <= l_max (w_lfo w) -> l_min (w_lfo w) <= lfo_value l' <= l_max (w_lfo w))
    /\ l_value (w_lfo (w_run sin2pi fuel tpb w (ops ++ [WTick])))
        == lfo_wave sin2pi (l_freq (w_lfo w)) (l_min (w_lfo w)) (l_max (w_lfo w))
                    (l_time (w_lfo w) + qnat (S (w_ticks ops)) * (1 / inject_Z tpb))
    /\ (forall ops2 (p : nat), (0 < tpb)%Z -> qnat p * l_freq (w_lfo w) == inject_Z tpb ->
        w_ticks ops2 = (S (w_ticks ops) + p)%nat ->
        lfo_value (w_lfo (w_run sin2pi fuel tpb w ops2)) == lfo_value (w_lfo (w_run sin2pi fuel tpb w (ops ++ [WTick])))).
  Proof.
    intros fuel tpb w ops.
    assert (T : w_ticks (ops ++ [WTick]) = S (w_ticks ops)) by (rewrite w_ticks_app; cbn; lia).
    split; [apply w_run_lfo|]. split; [|split].
    - cbv zeta. rewrite w_run_lfo, T. intros H. apply lfo_range_from; assumption.
    - rewrite w_run_lfo, T. apply lfo_value_after; assumption.
    - intros ops2 p Ht Hp H2. rewrite !w_run_lfo, T, H2. apply lfo_periodic_from; assumption.
  Qed.

  (* what a PLFO reader yields at any point of such a history is the value the tick-only LFO has at that point *)
  Theorem C18_readers_read_in_history : forall fuel tpb w ops i,
    nth_error (w_readers (w_run sin2pi (S fuel) tpb w ops)) i = Some RdLfo ->
    snd (w_step sin2pi (S fuel) tpb (w_run sin2pi (S fuel) tpb w ops) (WCmd i CNext))
      = RVal (lfo_value (lfo_ticks sin2pi tpb (w_ticks ops) (w_lfo w))).
  Proof.
    intros fuel tpb w ops i H. cbn [w_step]. rewrite H. cbn [rd_run]. unfold bind, read_value, ret. cbn [snd].
    rewrite w_run_lfo. reflexivity.
  Qed.
End SineReaders.
Print Assumptions C18_readers_history.
Print Assumptions C18_readers_read_in_history.

(* one square-wave LFO 0..1 (frequency 2, 8 ticks per beat: period 4 ticks) read by three readers: a PLFO, the
   finite expression PLFO * 10 + PSequence([1, 2, 3], 1) (drained by all(): it resets), and PPingPong over that
   expression, constructed mid-cycle (when the value is 0); a track whose event stream holds PReset(PLFO, PSequence([0, 1])).  Operations
   and ticks interleaved: the values read are the value at that moment, and the LFO is that of 5 plain ticks *)
Example C18_readers_nonvacuous :
  let e := SBin BAdd (SBin BMul SLfo (SConst 10)) (SSeq [1; 2; 3] false) in
  let w0 := mkWorld (new_lfo 2 0 1) [] [[RdReset RdLfo (RdSeq [0; 1] true 0)]] in
  let ops := [WBuild SLfo; WBuild e; WTick; WCmd 0 CNext; WCmd 1 (CAll 100); WTick; WTick; WBuild (SPingPong e 2);
              WCmd 2 CNext; WTrackNext 0; WTimelineReset; WTick; WCmd 2 (CAll 100); WTrackReset 0; WCmd 1 CReset; WTick; WCmd 0 CNext] in
  let run := fix go (w : world) (os : list wop) : list res :=
               match os with [] => [] | o :: r => let '(w1, x) := w_step square 200 8 w o in x :: go w1 r end in
  run w0 ops = [RUnit; RUnit; RUnit; RVal (2 # 2); RList [11; 12; 13]; RUnit; RUnit; RUnit;
                RVal 1; RList [0 # 2]; RUnit; RUnit; RList [2; 3; 2; 1; 2; 3; 2; 1]; RUnit; RUnit; RUnit; RVal (2 # 2)]
  /\ w_lfo (w_run square 200 8 w0 ops) = lfo_ticks square 8 5 (new_lfo 2 0 1)
  /\ w_ticks ops = 5%nat.
Proof. vm_compute. repeat split. Qed.

(* Props/C04Entropy.v — property C04 for seed() called WITHOUT an argument (seed(None)) anywhere in a history: model
   Pat/SeededEntropy.v (the module-level generator the seed is taken from is data: ANY list of values), lemmas
   Pat/SeededEntropyProofs.v.  Every class meeting the contract [rewinds] of Pat/SeededProofs.v - PArpeggiator RANDOM,
   PRandomImpulseSequence with every(), the machines of Pat/Chance.v - is covered. *)
From Isobar Require Import Base.Prelude Pat.Chance Pat.Seeded Pat.SeededProofs Pat.SeededEntropy Pat.SeededEntropyProofs.
From Coq Require Import QArith.
Open Scope Z_scope.

Section EntropySeeded.
  Variable R : Type.
  Variable r_unit : R -> Z * R.
  Variable r_below : Z -> R -> Z * R.
  Variable r_seed : Z -> R.

  (* a history with argument-less seed() calls IS the history with seed(s) calls for the values the environment handed
     out, outputs and final object: every theorem of Props/C04.v about histories with seed(s) speaks about it *)
  Theorem C04_entropy_history_is_seeded_history : forall St Cf (cls : sclass R St Cf) i ent h,
    erun R r_seed St Cf cls i ent h = krun R r_seed cls i (resolve Cf ent h) /\
    eafter R r_seed St Cf cls i ent h = kafter R r_seed cls i (resolve Cf ent h).
  Proof. intros. split; [apply erun_resolve | apply eafter_resolve]. Qed.

  (* after ANY history over next() / reset() / seed() / seed(s) / configuration calls, for EVERY list of values the
     module-level generator may hand out, reset() leaves the newly constructed instance with the seed in force - for an
     argument-less seed() the value it took and stored *)
  Theorem C04_entropy_reset_is_fresh_instance : forall St Cf (cls : sclass R St Cf) K key kcfg,
    rewinds R St Cf cls K key kcfg -> forall ent s0 h,
    fst (kdo R r_seed cls (eafter R r_seed St Cf cls (knew R r_seed cls s0) ent h) KReset) =
    canonical R r_seed St Cf cls (seed_of s0 (resolve Cf ent h)) (configs_of (resolve Cf ent h)).
  Proof. intros St Cf cls K key kcfg RW ent s0 h. exact (entropy_reset_is_fresh R r_seed St Cf cls K key kcfg RW ent s0 h). Qed.

  (* what the oracle of the entropy-seeded stratum checks: after any history, reset() followed by seed() (argument-less
     or not) leaves an object i that reset() reproduces after any number of next() / reset() calls - whatever was drawn
     after the seed() is drawn again after reset(), although nobody outside knows the seed *)
  Theorem C04_entropy_reset_reproduces : forall St Cf (cls : sclass R St Cf) K key kcfg,
    rewinds R St Cf cls K key kcfg -> forall ent s0 h sd pre, plain Cf pre ->
    let i := eafter R r_seed St Cf cls (knew R r_seed cls s0) ent (h ++ [EReset; ESeed sd]) in
    fst (kdo R r_seed cls (kafter R r_seed cls i pre) KReset) = i /\
    forall post, krun R r_seed cls (fst (kdo R r_seed cls (kafter R r_seed cls i pre) KReset)) post = krun R r_seed cls i post.
  Proof. intros St Cf cls K key kcfg RW ent s0 h sd pre Hp.
         exact (entropy_seed_on_rewound_reproduced R r_seed St Cf cls K key kcfg RW ent s0 h sd pre Hp). Qed.

  (* the same for seed() in the set-up of a new (configured) object: P(args)[.configure(..)].seed() *)
  Theorem C04_entropy_new_seeded_reproduces : forall St Cf (cls : sclass R St Cf) K key kcfg,
    rewinds R St Cf cls K key kcfg -> forall ent s0 cs sd pre, plain Cf pre ->
    let i := eafter R r_seed St Cf cls (knew R r_seed cls s0) ent (map EConfig cs ++ [ESeed sd]) in
    fst (kdo R r_seed cls (kafter R r_seed cls i pre) KReset) = i /\
    forall post, krun R r_seed cls (fst (kdo R r_seed cls (kafter R r_seed cls i pre) KReset)) post = krun R r_seed cls i post.
  Proof. intros St Cf cls K key kcfg RW ent s0 cs sd pre Hp.
         exact (entropy_seed_on_new_reproduced R r_seed St Cf cls K key kcfg RW ent s0 cs sd pre Hp). Qed.

  (* read off for the classes with a contract: every machine of Pat/Chance.v, PArpeggiator RANDOM, PRandomImpulseSequence *)
  Theorem C04_entropy_chance_classes : forall St (m : machine R St) ent s0 h sd pre post, plain unit pre ->
    let cls := of_machine R m in
    let i := eafter R r_seed St unit cls (knew R r_seed cls s0) ent (h ++ [EReset; ESeed sd]) in
    krun R r_seed cls (fst (kdo R r_seed cls (kafter R r_seed cls i pre) KReset)) post = krun R r_seed cls i post.
  Proof. intros St m ent s0 h sd pre post Hp cls i.
         exact (proj2 (entropy_seed_on_rewound_reproduced R r_seed St unit cls _ _ _ (machine_rewinds R m) ent s0 h sd pre Hp) post). Qed.
  Theorem C04_entropy_arpeggiator_impulse : forall notes loop prob len ent s0 sd,
    (forall h pre post, plain unit pre ->
      let cls := arp_random R r_below r_seed notes loop in
      let i := eafter R r_seed _ unit cls (knew R r_seed cls s0) ent (h ++ [EReset; ESeed sd]) in
      krun R r_seed cls (fst (kdo R r_seed cls (kafter R r_seed cls i pre) KReset)) post = krun R r_seed cls i post) /\
    (forall h pre post, plain (Z * eaction) pre ->
      let cls := impulse_seq R r_unit r_below r_seed prob len in
      let i := eafter R r_seed _ _ cls (knew R r_seed cls s0) ent (h ++ [EReset; ESeed sd]) in
      krun R r_seed cls (fst (kdo R r_seed cls (kafter R r_seed cls i pre) KReset)) post = krun R r_seed cls i post).
  Proof.
    intros notes loop prob len ent s0 sd. split; intros h pre post Hp cls i.
    - exact (proj2 (entropy_seed_on_rewound_reproduced R r_seed _ unit cls _ _ _ (arp_rewinds R r_below r_seed notes loop) ent s0 h sd pre Hp) post).
    - exact (proj2 (entropy_seed_on_rewound_reproduced R r_seed _ _ cls _ _ _ (impulse_rewinds R r_unit r_below r_seed prob len) ent s0 h sd pre Hp) post).
  Qed.
End EntropySeeded.
Print Assumptions C04_entropy_history_is_seeded_history.
Print Assumptions C04_entropy_reset_is_fresh_instance.
Print Assumptions C04_entropy_reset_reproduces.
Print Assumptions C04_entropy_new_seeded_reproduces.
Print Assumptions C04_entropy_chance_classes.
Print Assumptions C04_entropy_arpeggiator_impulse.

(* non-vacuity, on the replay generator (seed e = "the results recorded after the e-th seeding"): a RANDOM arpeggiator
   over [0, 2, 3, 5]; the module-level generator will hand out 1: two notes, reset(), seed() - the ordering of epoch 1 -
   two notes, reset(), and the same ordering is played in full; the hypothesis `plain` holds of [next; next] *)
Example C04_entropy_nonvacuous :
  let eps := [[3; 1; 0]; [1; 2; 0]] in
  let arp := arp_random replay rp_below (rp_seed eps) [0; 2; 3; 5] false in
  erun replay (rp_seed eps) _ unit arp (knew replay (rp_seed eps) arp 0) [1]
       [ENext; ENext; EReset; ESeed None; ENext; ENext; EReset; ENext; ENext; ENext; ENext; ENext] =
    [Out (OZ 3); Out (OZ 0); Out (OZ 5); Out (OZ 0); Out (OZ 5); Out (OZ 0); Out (OZ 3); Out (OZ 2); Chance.Stop] /\
  plain unit [KNext; KNext].
Proof. split; [vm_compute; reflexivity | repeat constructor]. Qed.

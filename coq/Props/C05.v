(* Props/C05.v — property C05: quantize and delay start tracks on the requested grid; updates switch cleanly.
   Statements about the executable scheduler model (Sched/Model.v); lemmas in Sched/QuantizeProofs.v
   (and Sched/TickFrame.v, Sched/OnsetProofs.v).  All times in integer units; tau = tick length. *)
From Isobar Require Import Base.Prelude Sched.Model Sched.OnsetProofs Sched.TimeProofs Sched.TickFrame Sched.QuantizeProofs.

(** 1. The requested time, closed form: for q > 0 the least multiple of q that is >= t, plus d (so a t already on
    the q-grid counts as quantized: t + d); for q = 0, t + d.  For ALL t, d and q >= 0. *)
Theorem C05_sched_time : forall t q d,
  (q = 0 -> sched_time t q d = t + d)
  /\ (0 < q -> exists m, sched_time t q d = q * m + d /\ q * (m - 1) < t <= q * m
               /\ forall m', t <= q * m' -> q * m <= q * m')
  /\ (0 < q -> t mod q = 0 -> sched_time t q d = t + d).
Proof.
  intros t q d. split; [intros ->; apply sched_time_q0|]. split; [|apply sched_time_grid].
  intros Hq. destruct (sched_time_spec t q d Hq) as [m [E H]]. exists m. split; [exact E|]. split; [exact H|].
  intros m' Hm'. pose proof (sched_time_least t q d m' Hq Hm'). lia.
Qed.
Print Assumptions C05_sched_time.

(** 3. Defaults: None arguments take the timeline defaults, explicit ones win, a positive device latency
    (in beats) is added to the delay; Track.start runs inside the call iff the resolved q = d = 0. *)
Theorem C05_defaults : forall cfg tl x,
  res_q tl None = def_q tl /\ res_q tl (Some x) = x
  /\ (0 < latency cfg -> res_d cfg tl None = def_d tl + latency cfg /\ res_d cfg tl (Some x) = x + latency cfg)
  /\ (latency cfg <= 0 -> res_d cfg tl None = def_d tl /\ res_d cfg tl (Some x) = x)
  /\ forall q d, immediate cfg tl q d = true <-> res_q tl q = 0 /\ res_d cfg tl d = 0.
Proof.
  intros cfg tl x. split; [reflexivity|]. split; [reflexivity|]. unfold res_d.
  split; [intros H; replace (0 <? latency cfg) with true by lia; split; reflexivity|].
  split; [intros H; replace (0 <? latency cfg) with false by lia; split; reflexivity|].
  intros q d. apply immediate_iff.
Qed.

(** 2a. The request.  update() of a scheduled track at timeline time t = now tl, resolved (q, d) not both 0:
    the start is appended behind everything requested before, for time sched_time t q d; the track itself keeps
    stream, clock, position, pending note-offs.  With q = d = 0 Track.start runs inside the call.
    schedule() of a new track: the same, for a track that is not started yet.  (exec_op is also what callbacks run.) *)
Theorem C05_update_request : forall cfg tl t tr s q d count, find_track t (tracks tl) = Some tr ->
  let tl' := fst (exec_op cfg tl (OUpdate t s q d count)) in
  (immediate cfg tl q d = false ->
     actions tl' = actions tl ++ [AStart (sched_time (now tl) (res_q tl q) (res_d cfg tl d)) t s]
     /\ find_track t (tracks tl') = Some (with_count tr count) /\ now tl' = now tl)
  /\ (immediate cfg tl q d = true ->
     actions tl' = actions tl /\ find_track t (tracks tl') = Some (track_start (with_count tr count) s))
  /\ t_stream (with_count tr count) = t_stream tr /\ t_offs (with_count tr count) = t_offs tr
  /\ t_next (with_count tr count) = t_next tr /\ t_cur (with_count tr count) = t_cur tr.
Proof.
  intros cfg tl t tr s q d count F tl'. split; [intros I; apply (update_deferred cfg tl t tr s q d count F I)|].
  split; [intros I; apply (update_immediate cfg tl t tr s q d count F I)|]. destruct count; repeat split.
Qed.
Print Assumptions C05_update_request.

Theorem C05_schedule_request : forall cfg tl s q d count rwd name replace,
  named_target tl name replace = None -> accepts_new cfg tl = true ->
  let tr := new_track (next_id tl) count rwd name in
  exec_op cfg tl (OSchedule s q d count rwd name replace) =
    if immediate cfg tl q d
    then (mkTL (now tl) (tracks tl ++ [track_start tr s]) (actions tl) (S (next_id tl)) (def_q tl) (def_d tl) (dev_calls tl), ROk)
    else (mkTL (now tl) (tracks tl ++ [tr])
               (actions tl ++ [AStart (sched_time (now tl) (res_q tl q) (res_d cfg tl d)) (next_id tl) s])
               (S (next_id tl)) (def_q tl) (def_d tl) (dev_calls tl), ROk).
Proof. exact schedule_new. Qed.

(** 2b. Pending.  A requested start stays in the action list over ANY history - ticks, calls from outside, calls
    made by callbacks (exec_op is what both run), tracks raising or finishing - as long as every tick of the history
    begins before the requested time.  (Hypothesis: the last tick of the history begins before a_time a.) *)
Theorem C05_pending_until : forall cfg a, 0 < tau cfg -> forall ops tl, In a (actions tl) ->
  (ticks_in ops = 0 \/ now tl + (ticks_in ops - 1) * tau cfg < a_time a) ->
  In a (actions (run_state cfg tl ops)).
Proof. exact run_keeps. Qed.
Print Assumptions C05_pending_until.

(* requests made while the track phase of a tick runs (from action callbacks) are appended too and survive the
   rest of that tick: they can fire on the next tick at the earliest *)
Theorem C05_callback_request_survives_tick : forall cfg ids tl calls a,
  In a (actions tl) -> In a (actions (fst (fst (phase_tracks cfg tl ids calls))))
  /\ forall ops, In a (actions (exec_cb_ops cfg tl ops)).
Proof.
  intros cfg ids tl calls a Hi. split.
  - destruct (phase_tracks_ext cfg ids tl calls) as [e E]. rewrite E. apply in_or_app. left. exact Hi.
  - intros ops. destruct (exec_cb_ops_ext cfg ops tl) as [e E]. rewrite E. apply in_or_app. left. exact Hi.
Qed.

(* the first tick that begins at or after X, n ticks after one that begins at t: n = max(0, ceil((X - t) / tau)) *)
Theorem C05_first_tick : forall tau t X, 0 < tau ->
  let n := Z.max 0 (cdiv (X - t) tau) in X <= t + n * tau /\ (0 < n -> t + (n - 1) * tau < X).
Proof. exact first_tick_arith. Qed.

(** 2c / 4 / 5. The tick that begins at or after the requested time.  [tick_pre tl] is the state in which the
    tracks get their turn (note-offs processed, due actions fired); Timeline.tick is the track phase run on it
    (C05_tick_is_pre_then_tracks).  For every track id: its pending note-offs are processed exactly as without any
    start; then, if starts for it are due, Track.start has run with the stream of the one requested LAST
    (the action list is in request order, see C05_update_request), otherwise the track is untouched; the actions
    not yet due stay, in order.  Track.start swaps the stream, sets next_event_time = current_time and leaves
    count, mute state and the pending note-offs alone. *)
Theorem C05_tick_is_pre_then_tracks : forall cfg tl,
  tl_tick cfg tl =
  let '(tl3, c13) := tick_pre tl in
  let '(tl4, c4, res) := phase_tracks cfg tl3 (map t_id (tracks tl3)) [] in
  match res with
  | ROk =>
      if (match tracks tl4, actions tl4 with [], [] => true | _, _ => false end) && stop_when_done cfg
      then (tl4, c13 ++ c4, RStopIteration)
      else (mkTL (now tl4 + tau cfg) (tracks tl4) (actions tl4) (next_id tl4) (def_q tl4) (def_d tl4) (dev_calls tl4), c13 ++ c4, ROk)
  | _ => (tl4, c13 ++ c4, res)
  end.
Proof. exact tl_tick_pre. Qed.

Theorem C05_action_phase : forall tl,
  let tl3 := fst (tick_pre tl) in
  now tl3 = now tl
  /\ actions tl3 = filter (not_due (now tl)) (actions tl)
  /\ map t_id (tracks tl3) = map t_id (tracks tl)
  /\ forall id, find_track id (tracks tl3) =
       option_map (fun tr => started_with (last_start (now tl) id (actions tl) None) (fst (process_note_offs tr)))
                  (find_track id (tracks tl)).
Proof. intros tl. destruct (tick_pre_spec tl) as [H1 [_ [H3 [H4 H5]]]]. auto. Qed.
Print Assumptions C05_action_phase.

Theorem C05_last_wins : forall nw id l1 t s l2, t <= nw ->
  (forall t' s', In (AStart t' id s') l2 -> nw < t') ->
  last_start nw id (l1 ++ AStart t id s :: l2) None = Some s.
Proof. exact last_start_wins. Qed.

Theorem C05_no_start_due : forall nw id l, (forall t s, In (AStart t id s) l -> nw < t) -> last_start nw id l None = None.
Proof. intros nw id l H. apply (last_start_none nw id l H). Qed.

Theorem C05_start_is_clean : forall s tr, let tr' := started_with (Some s) tr in
  t_stream tr' = s /\ t_started tr' = true /\ t_next tr' = t_cur tr' /\ t_cur tr' = t_cur tr
  /\ t_count tr' = t_count tr /\ t_max tr' = t_max tr /\ t_muted tr' = t_muted tr /\ t_offs tr' = t_offs tr.
Proof. exact started_with_fresh. Qed.

(* the freshly started track performs the first event of the new stream on that very tick (and C01_onsets, whose
   hypotheses are exactly this state, places every later event) *)
Theorem C05_first_event : forall cfg tr e s', (2 <= fuel cfg)%nat ->
  t_started tr = true -> t_next tr = t_cur tr -> count_exhausted tr = false ->
  pull (t_stream tr) = (REvent e, s') -> 0 < e_dur e ->
  tick_event cfg tr = Some e
  /\ forall nowT n, exists trp, pull_loop (fuel cfg) tr None = (PDone (Some e), trp) /\
       track_tick_a cfg nowT tr n =
         (let '(tr'', calls, n', pf) := perform_event (dev_fail cfg) nowT trp e n in
          (tr'', calls, n', match pf with PfOk => TNormal | PfRaise => TRaise | PfCallback cb => TCallback cb end)).
Proof.
  intros cfg tr e s' Hf Hs Hn Hc Hp Hd.
  pose proof (fresh_first_event cfg tr e s' Hf Hs Hn Hc Hp Hd) as H. split; [exact H|].
  intros nowT n. apply tick_a_of_event. exact H.
Qed.
Print Assumptions C05_first_event.

(** 4. Until then: the old stream.  On a tick on which no start for track id is due, the track - if it is still
    scheduled afterwards - holds the stream it had, advanced by the pulls of this tick only (callbacks that perform
    no timeline operation and do not raise StopIteration - which ends the track's stream, see C17; with operations, an update
    made by a callback is one more request, covered above). *)
Theorem C05_old_stream_tick : forall cfg tl id, wf tl -> no_cb_ops cfg -> no_cb_stop cfg ->
  last_start (now tl) id (actions tl) None = None ->
  match find_track id (tracks tl), find_track id (tracks (fst (fst (tl_tick cfg tl)))) with
  | Some tr, Some tr' => exists k, t_stream tr' = pull_n (t_stream tr) k
  | _, None => True
  | None, Some _ => False
  end.
Proof. intros cfg tl id W NC NS L. exact (tl_tick_kp cfg tl id W NC NS L). Qed.
Print Assumptions C05_old_stream_tick.

(* over n ticks, from any well-formed timeline in which every pending start for the track is for time >= X,
   as long as the last of the n ticks begins before X *)
Theorem C05_old_stream_until : forall cfg id X, no_cb_ops cfg -> no_cb_stop cfg -> 0 < tau cfg -> forall n tl, wf tl ->
  (forall t s, In (AStart t id s) (actions tl) -> X <= t) ->
  (n = 0%nat \/ now tl + (Z.of_nat n - 1) * tau cfg < X) ->
  match find_track id (tracks tl), find_track id (tracks (run_state cfg tl (repeat OTick n))) with
  | Some tr, Some tr' => exists k, t_stream tr' = pull_n (t_stream tr) k
  | _, None => True
  | None, Some _ => False
  end.
Proof. intros cfg id X NC NS Htau n tl W S Hn. exact (ticks_kp cfg id X NC NS Htau n tl W S Hn). Qed.
Print Assumptions C05_old_stream_until.

(* every timeline reachable from the empty one is well-formed *)
Theorem C05_reachable_wf : forall cfg ops tl, wf tl -> wf (run_state cfg tl ops).
Proof.
  intros cfg ops. induction ops as [|o r IH]; intros tl W; [exact W|]. cbn [run_state].
  assert (W' : wf (fst (fst (step cfg tl o)))).
  { destruct o; try (unfold step; match goal with |- context [exec_op ?c ?t ?o] =>
      pose proof (exec_op_wf c t o W) as H; destruct (exec_op c t o) as [tl' r0]; exact H end).
    apply tl_tick_wf. exact W. }
  destruct (step cfg tl o) as [[tl' c] res]. apply IH. exact W'.
Qed.

(** non-vacuity.  tau = 3 units (10 units per beat would be 10/3 ticks; here 1 beat = 12 units, 4 ticks per beat).
    Track 0 plays an endless old stream (pitch 60, one beat each).  After 5 ticks (t = 15, off the beat grid) an
    update with quantize = 1 beat, delay = 1 tick is requested: X = 12 * ceil(15/12) + 3 = 27, the first tick at or
    after it is tick 9.  A second update (quantize = 1 beat + default delay 3 set on the timeline) requested one
    tick later lands on the same tick; the one requested last (pitch 80) wins. *)
Definition ex_note (p d : Z) : evres := REvent (mkEvent d true (KNote [mkVoice p (Some 64) 0 (Some 6)])).
Definition ex_cfg : config := mkConfig 3 [] 0 0 false false None 8.
Definition ex_ops : list op :=
  [OSchedule (mkStream [ex_note 60 12] 0 true) (Some 0) (Some 0) None true None true]
  ++ repeat OTick 5
  ++ [OUpdate 0 (mkStream [ex_note 70 12] 0 true) (Some 12) (Some 3) None]
  ++ [OTick; OSetDefaults 12 3; OUpdate 0 (mkStream [ex_note 80 12] 0 true) None None None]
  ++ repeat OTick 8.
Definition ons (o : obs) : list Z := flat_map (fun c => match c with CNoteOn n _ _ => [n] | _ => [] end) (fst (fst o)).
Example C05_nonvacuous :
  sched_time 15 12 3 = 27 /\ sched_time 18 12 3 = 27 /\ sched_time 24 12 0 = 24
  /\ map ons (run ex_cfg tl0 ex_ops) =
       [ []; [60]; []; []; []; [60]; []; []; []; []; []; []; [60]; [80]; []; []; []; [80] ]
  /\ actions (run_state ex_cfg tl0 (firstn 10 ex_ops))
     = [AStart 27 0 (mkStream [ex_note 70 12] 0 true); AStart 27 0 (mkStream [ex_note 80 12] 0 true)]
  /\ wf (run_state ex_cfg tl0 ex_ops) /\ no_cb_ops ex_cfg /\ no_cb_stop ex_cfg.
Proof.
  split; [reflexivity|]. split; [reflexivity|]. split; [reflexivity|].
  split; [vm_compute; reflexivity|]. split; [vm_compute; reflexivity|].
  split; [apply C05_reachable_wf; apply wf_tl0|]. split; intros [|cb]; try reflexivity; discriminate.
Qed.

(* a request made from inside an action callback during tick k fires on tick k+1 at the earliest: the callback of
   track 0's event on tick 0 schedules a track with quantize = delay = 0 resolved through a default delay of one tick
   (X = 0 + 3 = 3 = tick 1) *)
Definition ex_cfg2 : config :=
  mkConfig 3 [(CbNone, [OSchedule (mkStream [ex_note 90 12] 0 false) None None None true None true])] 0 0 false false None 8.
Definition ex_ops2 : list op :=
  [OSetDefaults 0 3; OSchedule (mkStream [REvent (mkEvent 120 true (KAction 0))] 0 false) (Some 0) (Some 0) None true None true]
  ++ repeat OTick 3.
Example C05_nonvacuous_callback :
  map ons (run ex_cfg2 tl0 ex_ops2) = [ []; []; []; [90]; [] ].
Proof. vm_compute. reflexivity. Qed.

(* Props/C06Src.v — property C06 (track lifecycle), restated for the method bodies translated from the SOURCE TEXT of
   Track.get_next_event, Track.mute / unmute / nudge, Timeline.unschedule and Timeline.clear (Generated/TablesTrack.v;
   relation to the model: Sched/ModelSrc.v; reading of the data: Sched/SrcGlue.v, docs/TRANSLATOR3.md). *)
From Isobar Require Import Base.Prelude Sched.Model Sched.TickFrame Sched.LifecycleProofs Sched.SrcGlue Generated.TablesTrack Sched.ModelSrc Sched.ModelSrcTrack Sched.ModelSrcSched Props.C06.
Local Open Scope Z_scope.

(* counts: StopIteration, touching nothing, once current_event_count >= max_event_count (neither None nor 0); otherwise one
   item is taken from the stream and the count goes up by exactly one per event *)
Theorem C06_src_count_step : forall tr,
  (count_exhausted tr = true -> src_track_get_next_event tr = (GStop, tr))
  /\ (count_exhausted tr = false ->
      match fst (pull (t_stream tr)) with
      | REvent e => src_track_get_next_event tr = (GEvent e, set_count (set_stream tr (snd (pull (t_stream tr)))) (t_count tr + 1))
      | RStopIter => src_track_get_next_event tr = (GStop, set_stream tr (snd (pull (t_stream tr))))
      | RRaise => src_track_get_next_event tr = (GRaise, set_stream tr (snd (pull (t_stream tr))))
      end).
Proof. intros tr. rewrite src_track_get_next_event_is. apply (C06_count_step tr). Qed.
Print Assumptions C06_src_count_step.

(* a stream that a callback ended (event_stream = None) yields StopIteration for ever *)
Theorem C06_src_ended_stream : forall tr, t_stream tr = stream_none -> fst (src_track_get_next_event tr) = GStop.
Proof.
  intros tr H. unfold src_track_get_next_event. replace (stream_is_none (t_stream tr)) with true; [reflexivity|].
  symmetry. apply stream_is_none_iff. exact H.
Qed.
Print Assumptions C06_src_ended_stream.

(* unschedule removes the track object (its pending note-offs go to the timeline) or raises TrackNotFound; clear removes all *)
Theorem C06_src_unschedule_clear : forall tl tr, wf tl ->
  (find_track (t_id tr) (tracks tl) = Some tr ->
     snd (src_timeline_unschedule tl tr) = ROk
     /\ find_track (t_id tr) (tracks (fst (src_timeline_unschedule tl tr))) = None
     /\ actions (fst (src_timeline_unschedule tl tr)) = actions tl ++ release_actions tr)
  /\ (find_track (t_id tr) (tracks tl) = None -> src_timeline_unschedule tl tr = (tl, RTrackNotFound))
  /\ tracks (fst (src_timeline_clear tl)) = [] /\ snd (src_timeline_clear tl) = ROk.
Proof.
  intros tl tr W. set (cfg := mkConfig 1 [] 0 0 false false None 0).
  destruct (C06_unschedule_clear cfg tl (t_id tr) W) as [U C]. split; [|split].
  - intros H. rewrite H in U. rewrite (src_timeline_unschedule_found _ _ H). cbn [fst snd].
    destruct U as [_ [A B]]. split; [reflexivity|]. split; assumption.
  - apply src_timeline_unschedule_missing.
  - rewrite (src_timeline_clear_is cfg). exact C.
Qed.
Print Assumptions C06_src_unschedule_clear.

Theorem C06_src_mute_unmute : forall cfg tl t tr, find_track t (tracks tl) = Some tr ->
  find_track t (tracks (fst (exec_op cfg tl (OMute t)))) = Some (src_track_mute tr)
  /\ find_track t (tracks (fst (exec_op cfg tl (OUnmute t)))) = Some (src_track_unmute tr)
  /\ t_muted (src_track_mute tr) = true /\ t_muted (src_track_unmute tr) = false
  /\ t_next (src_track_nudge tr 5) = t_next tr + 5.
Proof.
  intros cfg tl t tr H. rewrite src_track_mute_is, src_track_unmute_is, src_track_nudge_is.
  destruct (C06_mute_unmute cfg tl t tr H) as [A B]. repeat split; assumption.
Qed.
Print Assumptions C06_src_mute_unmute.

(* `if self.is_muted: return` of Track.perform_event: every event performed while the track is muted makes no call, registers
   no note-off and runs no callback *)
Theorem C06_src_muted : forall fail nowT tr e n, t_muted tr = true -> src_track_perform_event fail nowT tr e n = (tr, [], n, PfOk).
Proof. intros fail nowT tr e n H. rewrite src_track_perform_event_is. apply C06_muted. exact H. Qed.
Print Assumptions C06_src_muted.

(* Timeline.schedule as translated from the source.  The refused call (track limit reached, no named track to update) raises
   TrackLimitReached and changes nothing; schedule(name = n, replace = True) on a timeline holding a track named n updates the
   FIRST such track in place: same tracks, same ids, no new id, count reset, unmuted, pending note-offs kept *)
Theorem C06_src_refused : forall cfg tl s q d count rwd name replace, wf tl ->
  named_target tl name replace = None ->
  max_tracks cfg <> 0 -> max_tracks cfg <= Z.of_nat (length (tracks tl)) ->
  src_timeline_schedule cfg tl s q d count rwd name replace = (tl, RTrackLimit).
Proof. intros cfg tl s q d count rwd name replace W. rewrite (src_timeline_schedule_is cfg tl s q d count rwd name replace (proj1 W)). apply C06_refused. Qed.
Print Assumptions C06_src_refused.

Theorem C06_src_named_replace : forall cfg tl s q d count rwd name replace nm tr, wf tl ->
  named_target tl name replace = Some (nm, tr) ->
  let '(tl', res) := src_timeline_schedule cfg tl s q d count rwd name replace in
  res = ROk /\ length (tracks tl') = length (tracks tl) /\ map t_id (tracks tl') = map t_id (tracks tl)
  /\ next_id tl' = next_id tl
  /\ exists tr', find_named nm (tracks tl') = Some tr' /\ t_id tr' = t_id tr /\ t_count tr' = 0 /\ t_muted tr' = false
       /\ t_offs tr' = t_offs tr
       /\ tr' = set_muted (set_count (snd (src_track_update cfg tl tr s q d count)) 0) false.
Proof.
  intros cfg tl s q d count rwd name replace nm tr W. rewrite (src_timeline_schedule_is cfg tl s q d count rwd name replace (proj1 W)), src_track_update_is.
  apply C06_named_replace.
Qed.
Print Assumptions C06_src_named_replace.

(* Props/C02.v — property C02: every note-on is released exactly once and on time; no stuck notes.
   Statements about the scheduler model (Sched/Model.v); lemmas in Sched/NoteOffProofs.v. *)
From Isobar Require Import Base.Prelude Sched.Model Sched.NoteOffProofs.

(* Conservation, over ALL histories (any interleaving of ticks with schedule / update / mute / unmute /
   unschedule / clear / nudge, callbacks issuing such calls, streams raising at any index, device faults,
   both tolerance modes): for every weight w on (note, channel),
       W(pending at the end) + W(note-offs sent) = W(pending at the start) + W(note-ons sent),
   pending = the release entries held by scheduled tracks and those the timeline took over from tracks that left. *)
Theorem C02_conservation : forall w cfg ops tl,
  Pend w (run_state cfg tl ops) + Woff w (run_calls cfg tl ops) = Pend w tl + Won w (run_calls cfg tl ops).
Proof. intros. apply run_cons. Qed.
Print Assumptions C02_conservation.

(* Counting form, from the empty timeline: for every (note, channel), after every history,
   #note-ons - #note-offs = #pending release entries for that key (in particular >= 0: no note-off without
   its note-on, no entry released twice), so a note is stuck only if no release entry is pending for it —
   which cannot happen. *)
Theorem C02_pending_is_sounding : forall n0 c0 cfg ops,
  Won (ind n0 c0) (run_calls cfg tl0 ops) - Woff (ind n0 c0) (run_calls cfg tl0 ops)
    = Pend (ind n0 c0) (run_state cfg tl0 ops)
  /\ 0 <= Pend (ind n0 c0) (run_state cfg tl0 ops).
Proof.
  intros. pose proof (run_cons (ind n0 c0) cfg ops tl0) as H.
  assert (P0 : Pend (ind n0 c0) tl0 = 0) by reflexivity.
  split; [lia|apply Pend_ind_nonneg].
Qed.
Print Assumptions C02_pending_is_sounding.

(* A stop-when-done timeline raises StopIteration only in a state with no track, no pending action and
   hence no pending release: it never stops while a note is sounding. *)
Theorem C02_no_early_stop : forall w cfg tl,
  let '(tl', _, res) := tl_tick cfg tl in
  res = RStopIteration -> tracks tl' = [] /\ actions tl' = [] /\ Pend w tl' = 0.
Proof. intros. apply stop_means_silent. Qed.
Print Assumptions C02_no_early_stop.

(* Silence: an inactive event, or any event performed while the track is muted, makes no call and registers
   nothing; within a note event (no device fault) exactly the voices with amplitude > 0 and gate > 0 sound,
   in order, each registering one release due duration*gate after the onset — rests (amplitude 0, gate 0),
   zero/None amplitude and zero/None gate voices contribute no message at all. *)
Theorem C02_silence : forall fail nowT tr e n,
  e_active e = false \/ t_muted tr = true -> perform_event fail nowT tr e n = (tr, [], n, PfOk).
Proof. exact perform_silent. Qed.

Theorem C02_voices : forall nowT cur vs n offs calls,
  perform_voices None nowT cur vs n offs calls =
    (offs ++ map (voice_entry nowT cur) (filter voice_on vs),
     calls ++ map voice_call (filter voice_on vs),
     (n + length (filter voice_on vs))%nat, true).
Proof. exact perform_voices_spec. Qed.
Print Assumptions C02_voices.

(* On time, on the track's clock.  After every scheduler cycle of a track (its note-offs processed, then
   Track.tick, clock advanced by tau) nothing it holds is overdue by a whole tick; therefore whatever the
   next cycle releases was due within the last tick: never early (due <= now) and never late (now - tau < due). *)
Theorem C02_on_time : forall cfg nowT tr n st, 0 < tau cfg ->
  let tr1 := fst (process_note_offs tr) in
  let '(tr2, _, _, _) := track_tick_a cfg nowT tr1 n in
  let tr' := track_tick_b cfg tr2 st in
  no_overdue (tau cfg) tr' /\
  forall x, In x (filter (fun x => no_time x <=? t_cur tr') (t_offs tr')) -> t_cur tr' - tau cfg < no_time x <= t_cur tr'.
Proof.
  intros cfg nowT tr n st Htau tr1.
  pose proof (cycle_no_overdue cfg nowT tr n st Htau) as H. cbv zeta in H. fold tr1 in H.
  destruct (track_tick_a cfg nowT tr1 n) as [[[tr2 c] n'] res].
  split; [exact H|]. apply released_on_time. exact H.
Qed.
Print Assumptions C02_on_time.

(* The release tick in closed form: an entry due g > 0 (= duration * gate) after its onset is due on the
   i-th later tick iff i >= max(1, ceil(g / tau)); with the invariant above it is released on exactly that tick,
   and never in the tick of its onset. *)
Theorem C02_release_tick : forall tau g i, 0 < tau -> 0 < g -> 1 <= i ->
  (g <= i * tau <-> Z.max 1 (- ((- g) / tau)) <= i).
Proof. exact release_tick_arith. Qed.

(* non-vacuity: a 2-beat note (tau = 1 unit = 1/10 beat, 20 units) unscheduled 5 ticks in is released on tick 20 *)
Definition ex_cfg : config := mkConfig 1 [] 0 0 true false None 8.
Definition ex_ops : list op :=
  OSchedule (mkStream [REvent (mkEvent 20 true (KNote [mkVoice 60 (Some 64) 0 (Some 20)]))] 0 true) None None None true None true
  :: repeat OTick 5 ++ OUnschedule 0 :: repeat OTick 16.
Example C02_nonvacuous :
  run_calls ex_cfg tl0 ex_ops = [CNoteOn 60 64 0; CNoteOff 60 0]
  /\ Pend (ind 60 0) (run_state ex_cfg tl0 (firstn 10 ex_ops)) = 1
  /\ nth 22 (map (fun o => snd (fst o)) (run ex_cfg tl0 ex_ops)) ROk = RStopIteration.
Proof. vm_compute. repeat split. Qed.

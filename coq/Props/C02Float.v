(* Props/C02Float.v — property C02, float layer: the note-off due test of Track.process_note_offs, as the SOURCE writes it
   (Generated/TablesTime.v: src_noteoff_due, translated from the source text on every run), decides exactly like the
   comparison of the exact times of the model (Sched/Model.v: no_time n <=? cur).  Depends on the axioms of Coq's
   classical real numbers (standard library) only. *)
From Coq Require Import ZArith Reals.
From Isobar Require Import Base.FloatGrid Base.FloatRound8 Generated.TablesTime Base.FloatDue Base.FloatDueSrc.
Open Scope R_scope.

(* ts = the float timestamp of a pending note-off, t = the float track time on tick k; both within E <= 1/(6*10^8) of the
   exact values b/U and k/tpb on a grid of U = tau*tpb <= 10^8/2 units per beat: released on this tick iff b <= k*tau,
   at every resolution (also where grid points are decimal ties of round(., 8): 512 | tpb). *)
Theorem C02_float_noteoff_due_is_exact : forall (U tpb tau k b : Z) (t ts E : R),
  (0 < tpb)%Z -> (0 < tau)%Z -> U = (tau * tpb)%Z -> (2 * U <= 10 ^ 8)%Z -> 6 * 10 ^ 8 * E <= 1 ->
  Rabs (t - IZR k / IZR tpb) <= E -> Rabs (ts - IZR b / IZR U) <= E ->
  src_noteoff_due ts t = (b <=? k * tau)%Z.
Proof. exact src_noteoff_due_exact. Qed.
Print Assumptions C02_float_noteoff_due_is_exact.

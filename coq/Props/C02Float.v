(* Props/C02Float.v — property C02, float layer: the note-off due test of Track.process_note_offs, as the SOURCE writes it
   (Generated/TablesTime.v: src_noteoff_due, translated from the source text on every run), decides exactly like the
   comparison of the exact times of the model (Sched/Model.v: no_time n <=? cur).  Depends on the axioms of Coq's
   classical real numbers (standard library) only. *)
From Coq Require Import ZArith Reals Lra Lia.
From Flocq Require Import Core.
From Isobar Require Import Base.FloatGrid Base.FloatRound8 Generated.TablesTime Base.FloatDue Base.FloatDueSrc
                           Base.FloatGridSrc Base.FloatStamp Base.FloatStampSrc.
Open Scope R_scope.

(* ts = the float timestamp of a pending note-off, t = the float track time on tick k; both within E <= 1/(6*10^8) of the
   exact values b/U and k/tpb on a grid of U = tau*tpb <= 10^8/2 units per beat: released on this tick iff b <= k*tau,
   at every resolution (also where grid points are decimal ties of round(., 8): 512 | tpb). *)
Theorem C02_float_noteoff_due_is_exact : forall (U tpb tau k b : Z) (t ts E : R),
  (0 < tpb)%Z -> (0 < tau)%Z -> U = (tau * tpb)%Z -> (2 * U <= 10 ^ 8)%Z -> 6 * 10 ^ 8 * E <= 1 ->
  Rabs (t - IZR k / IZR tpb) <= E -> Rabs (ts - IZR b / IZR U) <= E ->
  src_noteoff_due ts t = (b <=? k * tau)%Z.
Proof. exact src_noteoff_due_exact. Qed.
Print Assumptions C02_float_noteoff_due_is_exact.

(* Run level: the closeness of the float timestamp is no longer a hypothesis.  The timestamp is the term generated from
   the source text of Track.perform_event (src_noteoff_timestamp t d g = RN (t + RN (d * g)): note_off_time =
   self.current_time + event.duration * gate), the clock is the source's own (src_track_step iterated from 0), the test
   the source's own.  A note performed on tick k whose exact length D * G is b' units of 1/(tau*tpb) beat is released on
   tick k' iff k' >= k + ceil(b' / tau) - the exact release tick, at every resolution tpb <= 2^20, for float inputs d, g
   within relative 2^-51 of D, G (also when d * g is an inexact float product, the situation in which the code before
   9bb39e5 released late at 512 ticks per beat), all times up to 450000 beats and 2^32 ticks. *)
Theorem C02_float_release_tick_is_exact : forall (tpb tau : Z) (k k' : nat) (b' : Z) (d g D G T : R),
  noteoff_admissible tpb tau k b' d g D G T -> (Z.of_nat k' <= 2 ^ 32)%Z -> IZR (Z.of_nat k') / IZR tpb <= T ->
  src_noteoff_due (src_noteoff_timestamp (src_track_clock tpb k) d g) (src_track_clock tpb k')
  = (Z.of_nat k + cdivZ b' tau <=? Z.of_nat k')%Z.
Proof. exact src_noteoff_release_exact. Qed.
Print Assumptions C02_float_release_tick_is_exact.

(* non-vacuity: the witness of the old defect - duration 1.1, gate (5/512)/1.1 as Python computes it - is admissible at
   512 ticks per beat (5/512 beat = 5 ticks: released exactly 5 ticks later) and at 480 (4.6875 ticks: 5 ticks later) *)
Example C02_float_release_nonvacuous_512 : forall k k' : nat, (Z.of_nat k <= 200000000)%Z -> (Z.of_nat k' <= 200000000)%Z ->
  src_noteoff_due (src_noteoff_timestamp (src_track_clock 512 k) (RN (11 / 10)) (RN (RN (5 / 512) / RN (11 / 10))))
                  (src_track_clock 512 k')
  = (Z.of_nat k + 5 <=? Z.of_nat k')%Z.
Proof.
  intros k k' Hk Hk'.
  apply (C02_float_release_tick_is_exact 512 1 k k' 5 _ _ (11 / 10) (25 / 2816) 450000 (noteoff_admissible_512 k Hk)).
  - change (2 ^ 32)%Z with 4294967296%Z. lia.
  - apply IZR_le in Hk'. unfold Rdiv. lra.
Qed.
Example C02_float_release_nonvacuous_480 : forall k k' : nat, (Z.of_nat k <= 200000000)%Z -> (Z.of_nat k' <= 200000000)%Z ->
  src_noteoff_due (src_noteoff_timestamp (src_track_clock 480 k) (RN (11 / 10)) (RN (RN (5 / 512) / RN (11 / 10))))
                  (src_track_clock 480 k')
  = (Z.of_nat k + 5 <=? Z.of_nat k')%Z.
Proof.
  intros k k' Hk Hk'.
  apply (C02_float_release_tick_is_exact 480 16 k k' 75 _ _ (11 / 10) (25 / 2816) 450000 (noteoff_admissible_480 k Hk)).
  - change (2 ^ 32)%Z with 4294967296%Z. lia.
  - apply IZR_le in Hk'. unfold Rdiv. lra.
Qed.
Print Assumptions C02_float_release_nonvacuous_512.

(* Props/C07.v — property C07 (stub while the check is being built) *)
From Isobar Require Import Base.Prelude Sched.Model.
Theorem C07_stub_partial : True. Proof. exact I. Qed.

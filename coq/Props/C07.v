(* Props/C07.v — property C07: tracks do not interfere; intra-tick order is fixed; shared static state agrees.
   Statements about the scheduler model (Sched/Model.v); lemmas in Sched/MergeProofs.v (and Sched/StaticProofs.v
   for the static / globals / current-time patterns). *)
From Isobar Require Import Base.Prelude Sched.Model Sched.TimeProofs Sched.MergeProofs Sched.Static Sched.StaticProofs.

(** * Order inside one tick *)
(* For EVERY state and configuration: the calls of one Timeline.tick are
     (the due note-offs of every track, in track order)
  ++ (the calls of the due actions - releases taken over from tracks that left -, in request order; deferred starts make no call)
  ++ (the calls of each track's turn, in scheduling order = order of Timeline.tracks when the tick began),
   [tl3] being the state after the first three phases, in which the track list still has the same order. *)
Theorem C07_phase_order : forall cfg tl,
  let '(_, calls, _) := tl_tick cfg tl in
  exists tl3,
    calls = concat (map due_offs (tracks tl))
            ++ concat (map action_calls (filter (fun a => a_time a <=? now tl) (actions tl)))
            ++ concat (map snd (track_turns cfg tl3 (map t_id (tracks tl))))
    /\ map t_id (tracks tl3) = map t_id (tracks tl).
Proof. exact tl_tick_phases. Qed.

(* the turns are taken in list order and nobody is skipped: the ids of the turns are a prefix of the id list
   (the whole list unless the tick is aborted by an escaping exception) *)
Theorem C07_turn_order : forall cfg ids tl, exists n, map fst (track_turns cfg tl ids) = firstn n ids.
Proof. exact track_turns_order. Qed.

(* the first two groups consist of note-offs only, a track's turn never makes a note-off call *)
Theorem C07_offs_first : forall cfg tl,
  exists offs evs, snd (fst (tl_tick cfg tl)) = offs ++ evs /\ forallb is_off offs = true /\ forallb is_event evs = true.
Proof. exact tick_offs_first. Qed.

(* legato: if a tick both releases and starts the same note on the same channel, the release comes first
   (and no release of it follows the onset), so a repeated note of gate 1 is not cut short *)
Theorem C07_legato : forall cfg tl n v c,
  In (CNoteOn n v c) (snd (fst (tl_tick cfg tl))) -> In (CNoteOff n c) (snd (fst (tl_tick cfg tl))) ->
  exists a b, snd (fst (tl_tick cfg tl)) = a ++ b /\ In (CNoteOff n c) a /\ In (CNoteOn n v c) b
              /\ ~ In (CNoteOff n c) b /\ ~ In (CNoteOn n v c) a.
Proof. exact legato_order. Qed.

(** * The merge theorem *)
(* For every configuration without deliberate coupling ([uncoupled]: no device fault, callbacks that perform no
   timeline operation, no track limit, no stop-when-done), every track id i with its ownership predicates (pc on
   channels, pb on callback ids), every history h of operations - ticks, unnamed schedule calls, update, unschedule,
   clear, mute, unmute, nudge, defaults - in which the stream handed to track i stays within (pc, pb) and every other
   stream stays outside ([hist_wf]; this is the distinct-channels hypothesis), and in which no tick is aborted
   ([all_ticks_ok]: no exception escapes, i.e. tolerant mode or no fault):
     - tick by tick, the owned sub-sequence of the calls of the joint run IS the call list of the solo run, where
       the solo run executes only the operations that concern track i ([solo]: its schedule call, the operations
       addressed to it, the global ones, and every tick) on a timeline that never contains another track;
     - the two final states are related by [sim]: same clock, same record for track i, same pending actions for i
       (deferred starts and the releases it handed over when it was removed);
     - no tick of the solo run is aborted.
   The neighbours may finish, be removed, be unscheduled, or raise (tolerant mode) on any tick. *)
Theorem C07_merge : forall i pc pb cfg h,
  uncoupled cfg = true -> hist_wf i pc pb 0 h = true -> all_ticks_ok cfg tl0 h = true ->
  tick_calls cfg (tl_at i) (solo i 0 h) = map (filter (call_ok pc pb)) (tick_calls cfg tl0 h)
  /\ sim i pc pb (run_state cfg tl0 h) (run_state cfg (tl_at i) (solo i 0 h))
  /\ all_ticks_ok cfg (tl_at i) (solo i 0 h) = true.
Proof. exact merge_from_empty. Qed.

(* the same from any pair of related states (e.g. in the middle of a performance) *)
Theorem C07_merge_from : forall i pc pb cfg h J S,
  uncoupled cfg = true -> sim i pc pb J S -> nid_rel i J S -> hist_wf i pc pb (next_id J) h = true ->
  all_ticks_ok cfg J h = true ->
  tick_calls cfg S (solo i (next_id J) h) = map (filter (call_ok pc pb)) (tick_calls cfg J h)
  /\ sim i pc pb (run_state cfg J h) (run_state cfg S (solo i (next_id J) h))
  /\ all_ticks_ok cfg S (solo i (next_id J) h) = true.
Proof.
  unfold uncoupled. intros i pc pb cfg h J S U H N W A. apply andb_true_iff in U as [U U4]. apply andb_true_iff in U as [U U3].
  apply andb_true_iff in U as [U1 U2]. destruct (dev_fail cfg) eqn:D; [discriminate|].
  apply negb_true_iff in U3. apply Z.eqb_eq in U4.
  apply (merge_run i pc pb cfg D (cb_noops_nth cfg U2) U3 U4 h J S); assumption.
Qed.

(* one tick: the simulation is preserved and the solo calls are the owned calls of the joint tick *)
Theorem C07_merge_tick : forall i pc pb cfg J S,
  dev_fail cfg = None -> (forall cb, snd (nth cb (cbs cfg) (CbNone, [])) = []) -> stop_when_done cfg = false ->
  sim i pc pb J S ->
  let '(J', cJ, rJ) := tl_tick cfg J in
  let '(S', cS, rS) := tl_tick cfg S in
  rJ = ROk -> rS = ROk /\ sim i pc pb J' S' /\ cS = filter (call_ok pc pb) cJ.
Proof. intros i pc pb cfg J S D C W. exact (tl_tick_sim i pc pb cfg D C W J S). Qed.

(* state form: track i's record, its pending actions and the clock are equal in the joint and the solo run *)
Theorem C07_merge_state : forall i pc pb cfg h,
  uncoupled cfg = true -> hist_wf i pc pb 0 h = true -> all_ticks_ok cfg tl0 h = true ->
  find_track i (tracks (run_state cfg (tl_at i) (solo i 0 h))) = find_track i (tracks (run_state cfg tl0 h))
  /\ actions (run_state cfg (tl_at i) (solo i 0 h)) = filter (act_own i pc) (actions (run_state cfg tl0 h))
  /\ now (run_state cfg (tl_at i) (solo i 0 h)) = now (run_state cfg tl0 h).
Proof. exact merge_track_state. Qed.

(* distinct channels: the instance the check uses (track i plays on channel ch and owns the callbacks [mine]) *)
Definition on_channel (ch : Z) : Z -> bool := fun c => c =? ch.
Definition one_of (mine : list nat) : nat -> bool := fun cb => existsb (Nat.eqb cb) mine.
Theorem C07_merge_channels : forall i ch mine cfg h,
  uncoupled cfg = true -> hist_wf i (on_channel ch) (one_of mine) 0 h = true -> all_ticks_ok cfg tl0 h = true ->
  tick_calls cfg (tl_at i) (solo i 0 h)
    = map (filter (call_ok (on_channel ch) (one_of mine))) (tick_calls cfg tl0 h).
Proof. intros i ch mine cfg h U W A. exact (proj1 (merge_from_empty i _ _ cfg h U W A)). Qed.

(** * Non-vacuity *)
(* three tracks on channels 0, 1, 2 (tau = 1): track 0 plays a legato pair; track 1 raises on its second pull
   (tolerant mode) and is removed on a tick the others play on; track 2 is unscheduled in the middle of a note (its
   release is handed to the timeline) and calls a callback *)
Definition ex_cfg : config := mkConfig 1 [(CbExc, [])] 0 0 false true None 8.
Definition nt (d n ch g : Z) : evres := REvent (mkEvent d true (KNote [mkVoice n (Some 64) ch (Some g)])).
Definition ex_h : list op :=
  [ OSchedule (mkStream [nt 2 60 0 2; nt 2 60 0 2] 0 false) None None None true None true;
    OSchedule (mkStream [nt 2 50 1 1; RRaise; nt 2 51 1 1] 0 false) None None None true None true;
    OSchedule (mkStream [REvent (mkEvent 1 true (KAction 0)); nt 4 70 2 4] 0 true) None (Some 1) None true None true;
    OTick; OTick; OTick; OTick; OUnschedule 2; OTick; OTick; OTick; OTick ].

Example C07_merge_nonvacuous :
  uncoupled ex_cfg = true
  /\ hist_wf 0 (on_channel 0) (one_of []) 0 ex_h = true
  /\ hist_wf 1 (on_channel 1) (one_of []) 0 ex_h = true
  /\ hist_wf 2 (on_channel 2) (one_of [0%nat]) 0 ex_h = true
  /\ all_ticks_ok ex_cfg tl0 ex_h = true
  /\ tick_calls ex_cfg tl0 ex_h =
       [ [CNoteOn 60 64 0; CNoteOn 50 64 1]; [CNoteOff 50 1; CCallback 0];
         [CNoteOff 60 0; CNoteOn 60 64 0; CNoteOn 70 64 2]; []; [CNoteOff 60 0]; []; [CNoteOff 70 2]; [] ]
  /\ tick_calls ex_cfg (tl_at 2) (solo 2 0 ex_h) =
       [ []; [CCallback 0]; [CNoteOn 70 64 2]; []; []; []; [CNoteOff 70 2]; [] ]
  /\ tick_calls ex_cfg (tl_at 0) (solo 0 0 ex_h) =
       [ [CNoteOn 60 64 0]; []; [CNoteOff 60 0; CNoteOn 60 64 0]; []; [CNoteOff 60 0]; []; []; [] ].
Proof. vm_compute. repeat split. Qed.

(* legato: on tick 2 of the example the release of note 60 precedes its new onset *)
Example C07_legato_nonvacuous :
  nth 2 (tick_calls ex_cfg tl0 ex_h) [] = [CNoteOff 60 0; CNoteOn 60 64 0; CNoteOn 70 64 2].
Proof. vm_compute. reflexivity. Qed.

(** * Deliberately shared state: PStaticPattern, PGlobals, PCurrentTime (model: Sched/Static.v) *)
(* any number of reads, by any readers, at any positions before the end of the current element (now - start < duration),
   return the held value and leave the pattern untouched: the value does not depend on how often it is read *)
Theorem C07_static_hold : forall f times s st v, sv_start s = Some st -> sv_value s = Some v ->
  Forall (fun t => t - st < sv_dur s) times ->
  read_many (S f) times s = (repeat (SVal v) (length times), s).
Proof. exact static_hold_many. Qed.
(* all readers at one position see one value: whatever the first read at a position returned, every further read at that
   position returns the same (element durations > 0; with a zero duration the code itself never returns) *)
Theorem C07_static_same_time : forall f fuel now s v s', Forall (fun d => 0 < d) (sv_durs s) ->
  static_read fuel now s = (SVal v, s') -> static_read (S f) now s' = (SVal v, s').
Proof. exact static_same_time. Qed.
(* a value is kept for at least its stated duration: the state changes only on a read at now - start >= duration *)
Theorem C07_static_kept : forall fuel now s r s', static_read fuel now s = (r, s') -> s' <> s ->
  match sv_start s with None => True | Some st => sv_dur s <= now - st end.
Proof. exact static_changes_only_at_boundary. Qed.
(* and such a read (the first one included: nothing held yet) moves to the next element, which starts at that read *)
Theorem C07_static_advances : forall f now s v vp d dp, expired now s = true -> 0 < d ->
  seq_next (sv_vals s) (sv_vpos s) (sv_vcyc s) = Some (v, vp) -> seq_next (sv_durs s) (sv_dpos s) true = Some (d, dp) ->
  static_read (S (S f)) now s = (SVal v, mkStatic (sv_vals s) vp (sv_vcyc s) (sv_durs s) dp (Some v) (Some now) d).
Proof. exact static_advances. Qed.
(* PGlobals returns the value of the last assignment to its name, or the given default if there was none *)
Theorem C07_globals_latest : forall k d sets g,
  gget k d (fold_left (fun g' kv => gset (fst kv) (snd kv) g') sets g)
  = match last_set k sets with Some v => v | None => gget k d g end.
Proof. exact gget_latest. Qed.
Theorem C07_globals_default : forall k d, gget k d [] = d.
Proof. exact gget_default. Qed.
(* PCurrentTime reports the timeline's position rounded to the nearest 10^-5 beat; exactly, where the position is a
   multiple of 10^-5 beat *)
Theorem C07_current_time : forall U t, 0 < U ->
  - U <= 2 * (pcurrent_time U t * U - t * 100000) <= U
  /\ ((t * 100000) mod U = 0 -> pcurrent_time U t * U = t * 100000).
Proof. intros U t H. split; [apply r5_nearest; exact H|apply r5_exact; exact H]. Qed.

(* non-vacuity: values 10, 20, 30 held for 1/2 and 1 beat alternately, read every quarter beat by one reader and every
   three quarters by another (positions in 10^-5 beats), a global set between two reads, the time at tick 7 of 24 per beat *)
Example C07_static_nonvacuous :
  run_prog (static0 [10; 20; 30] true [50000; 100000]) []
    [ARead 0; ARead 0; ARead 25000; ARead 50000; AGet 7 (-1); ASet 7 5; ARead 75000; ARead 75000; AGet 7 (-1);
     ARead 125000; ARead 150000; ATime 24 7]
  = [OVal 10; OVal 10; OVal 10; OVal 20; OVal (-1); ONone; OVal 20; OVal 20; OVal 5; OVal 20; OVal 30; OVal 29167].
Proof. vm_compute. reflexivity. Qed.

(** * The shared static objects read from SEVERAL timelines (model: Sched/StaticMulti.v, lemmas Sched/StaticMultiProofs.v) *)
(* The same PStaticPattern / PCurrentTime / PGlobals objects - e.g. event dictionaries built once - used by tracks of
   several Timeline objects of one process, one after the other (a second performance on a fresh timeline) or alternately.
   Every read is served with the position of the timeline whose tick makes it. *)
From Isobar Require Import Sched.StaticMulti Sched.StaticMultiProofs.

(* PCurrentTime reports the position of THE READER's timeline: for every program over any number of timelines, the values
   shown to the tracks of timeline k are k's own positions (start + its own ticks so far, rounded to 10^-5 beat), whatever the
   other timelines did meanwhile and whichever timeline read the object before; they are the [time_outs] of the run *)
Theorem C07_time_of_reader : forall k p tls s g, (k < length tls)%nat ->
  time_outs k p (run_multi tls s g p) = map OVal (times_of k tls p)
  /\ times_of k tls p = map (r5 (m_U (nth_tl k tls))) (tick_counts k p (m_pos (nth_tl k tls)))
  /\ times_of k tls (filter (on_tl k) p) = times_of k tls p.
Proof.
  intros k p tls s g L. split; [apply run_multi_times|]. split; [apply times_are_own_positions; exact L|apply times_projection; exact L].
Qed.

(* a program over several timelines is a program of Sched/Static.v in which every read carries its reader's position:
   C07_static_hold / _same_time / _kept / _advances / C07_globals_* hold for it as they stand; with one timeline it is the
   old semantics *)
Theorem C07_multi_is_static_program : forall p tls s g,
  drop_ticks p (run_multi tls s g p) = run_prog s g (linearize tls p).
Proof. exact multi_linear. Qed.
Theorem C07_multi_single : forall p U t, forallb only_tl0 p = true -> linearize [mkMtl U t] p = single U t p.
Proof. exact multi_single. Qed.

(* a second performance starts from exactly what the first one left: the state of the pattern, the globals, and each
   timeline's own position - nothing else is carried over *)
Theorem C07_second_run : forall p1 p2 tls s g,
  run_multi tls s g (p1 ++ p2)
  = run_multi tls s g p1 ++ run_multi (tls_after tls p1) (static_after tls s p1) (globals_after g p1) p2.
Proof. exact run_multi_app. Qed.

(* the value a static pattern holds - since whenever, set by whichever timeline - is shown unchanged to every reader of every
   timeline whose OWN position is before the end of the span, however often it is read; and two readers whose timelines are at
   the same position see the same value *)
Theorem C07_carried_value_held : forall p tls s g st v, sv_start s = Some st -> sv_value s = Some v ->
  Forall (fun now => now - st < sv_dur s) (read_positions tls p) ->
  read_outs p (run_multi tls s g p) = repeat (OVal v) (length (read_positions tls p)) /\ static_after tls s p = s.
Proof. exact carried_value_held. Qed.
Theorem C07_same_position_same_value : forall j k tls s g v,
  Forall (fun d => 0 < d) (sv_durs s) -> pos5 j tls = pos5 k tls ->
  nth 0 (run_multi tls s g [MRead j; MRead k]) ONone = OVal v -> nth 1 (run_multi tls s g [MRead j; MRead k]) ONone = OVal v.
Proof. exact same_position_same_value. Qed.

(* non-vacuity: values 10, 20, 30 held for 1/2 beat; timeline 0 (4 ticks per beat) plays three ticks and reads the pattern and the
   time; then timeline 1 (8 ticks per beat), fresh, is played with the SAME objects: its first time read is 0 (not 0.75), the
   value 20 (started at 0.5 on timeline 0's clock) is shown until timeline 1 itself reaches 0.5 + 0.5 = 1.0 beat *)
Example C07_two_timelines_nonvacuous :
  let p1 := [MRead 0; MTime 0; MTick 0; MTick 0; MRead 0; MTime 0; MTick 0; MTime 0]%nat in
  let p2 := [MTime 1; MRead 1; MTick 1; MTick 1; MTick 1; MTick 1; MTime 1; MRead 1; MTick 1; MTick 1; MTick 1; MTick 1; MRead 1; MTime 1; MTime 0]%nat in
  let tls := [mtl0 4; mtl0 8] in
  run_multi tls (static0 [10; 20; 30] true [50000]) [] (p1 ++ p2)
  = [OVal 10; OVal 0; ONone; ONone; OVal 20; OVal 50000; ONone; OVal 75000]
    ++ [OVal 0; OVal 20; ONone; ONone; ONone; ONone; OVal 50000; OVal 20; ONone; ONone; ONone; ONone; OVal 30; OVal 100000; OVal 75000]
  /\ times_of 1 tls (p1 ++ p2) = [0; 50000; 100000]
  /\ tick_counts 1 (p1 ++ p2) 0 = [0; 4; 8].
Proof. vm_compute. repeat split. Qed.

(** * The track list changes DURING the track phase (lemmas: Sched/MergeCbProofs.v) *)
(* Action events whose callbacks unschedule / mute / update / nudge another track, stop their own track, or schedule a new
   track - on ticks on which the neighbours have events due.  The model is Sched/Model.v as it stands ([tick_one] runs the
   callback's operations on the timeline in the middle of [phase_tracks]). *)
From Isobar Require Import Sched.MergeCbProofs.

(* snapshot semantics, for EVERY configuration and state: only the ids present when the phase starts take a turn (a track
   scheduled by a callback does not play in the tick that created it); when the tick runs through EVERY one of them has
   taken its turn, in order, whatever the earlier turns did to the track list (nobody is skipped because a neighbour left or
   arrived); a track that an earlier turn removed makes no call and is not touched *)
Theorem C07_snapshot_only : forall cfg ids tl id, In id (map fst (track_turns cfg tl ids)) -> In id ids.
Proof. exact turns_within_snapshot. Qed.
Theorem C07_snapshot_all : forall cfg ids tl c, snd (phase_tracks cfg tl ids c) = ROk -> map fst (track_turns cfg tl ids) = ids.
Proof. exact turns_cover_snapshot. Qed.
Theorem C07_snapshot_removed : forall cfg tl id, find_track id (tracks tl) = None -> tick_one cfg tl id = (tl, [], None).
Proof. exact turn_of_removed. Qed.

(* THE MERGE THEOREM WITH CALLBACKS THAT PERFORM TIMELINE OPERATIONS.  As C07_merge, with [cb_noops] replaced by
   [cbs_wf] (inside [uncoupled_cb]): the callbacks owned by the observed track i perform only operations aimed at i
   (stop / mute / unmute / nudge / update of i - they happen in the solo run too), every other callback performs only
   operations aimed at other tracks (unschedule / mute / unmute / nudge / update of tracks other than i, unnamed schedule
   calls with streams outside i's channels).  [ticks_wf]: a callback schedules a track only on ticks after i got its id
   (ids are the model's names for object identities).  Then for ALL such histories - any number of tracks, any ticks on
   which the track list shrinks or grows in the middle of the phase, before or after i's position - tick by tick the calls
   owned by i in the joint run ARE the calls of its solo run, the states are related by [sim], no solo tick is aborted. *)
Theorem C07_merge_cb : forall i pc pb cfg h,
  uncoupled_cb i pc pb cfg = true -> hist_wf i pc pb 0 h = true -> ticks_wf i cfg 0 h = true -> all_ticks_ok cfg tl0 h = true ->
  tick_calls cfg (tl_at i) (solo i 0 h) = map (filter (call_ok pc pb)) (tick_calls cfg tl0 h)
  /\ sim i pc pb (run_state cfg tl0 h) (run_state cfg (tl_at i) (solo i 0 h))
  /\ all_ticks_ok cfg (tl_at i) (solo i 0 h) = true.
Proof. exact merge_cb_from_empty. Qed.

(* one tick from any pair of related states: the simulation survives a tick in which foreign callbacks change the track list *)
Theorem C07_merge_cb_tick : forall i pc pb cfg J S,
  dev_fail cfg = None -> stop_when_done cfg = false -> max_tracks cfg = 0 -> (forall cb, cb_wf i pc pb cfg cb = true) ->
  sim i pc pb J S -> nid_rel i J S -> ((i < next_id J)%nat \/ cb_sched_free cfg = true) ->
  let '(J', cJ, rJ) := tl_tick cfg J in
  let '(S', cS, rS) := tl_tick cfg S in
  rJ = ROk -> rS = ROk /\ sim i pc pb J' S' /\ cS = filter (call_ok pc pb) cJ.
Proof.
  intros i pc pb cfg J S D W M C H N K. pose proof (tl_tick_sim' i pc pb cfg D W M C J S H (conj N K)) as T.
  destruct (tl_tick cfg J) as [[J' cJ] rJ]. destruct (tl_tick cfg S) as [[S' cS] rS]. intros R.
  destruct (T R) as [T1 [T2 [T3 _]]]. auto.
Qed.

(* C07_merge's hypothesis is the special case *)
Theorem C07_merge_cb_generalises : forall i pc pb cfg, uncoupled cfg = true -> uncoupled_cb i pc pb cfg = true /\ cb_sched_free cfg = true.
Proof.
  unfold uncoupled, uncoupled_cb. intros i pc pb cfg U. apply andb_true_iff in U as [U U4]. apply andb_true_iff in U as [U U3].
  apply andb_true_iff in U as [U1 U2]. destruct (cb_noops_wf i pc pb cfg U2) as [A B]. rewrite U1, A, U3, U4. split; [reflexivity|exact B].
Qed.

(* non-vacuity (tau = 1): X (id 0, channel 0) plays a note every 2 ticks; K (id 1, channel 1) calls callback 0 on tick 0, callback
   1 on tick 2 and callback 2 on tick 4; Z (id 2, channel 2) plays every 2 ticks - it is due on every tick on which K's callbacks
   run.  Callback 0 mutes X, callback 1 unschedules X (a track BEFORE K) and schedules a new track on channel 3, callback 2 stops K
   itself.  Z - placed after K - is not skipped on ticks 2 and 4 and plays exactly what it plays alone; the new track (id 3) does
   not play on tick 2 (the tick that created it) but from tick 3 on; X's sounding note is released on time by the timeline. *)
Definition mp_cfg : config :=
  mkConfig 1 [(CbNone, [OMute 0]);
              (CbNone, [OSchedule (mkStream [nt 1 90 3 1] 0 true) None None (Some 2) true None true; OUnschedule 0]);
              (CbExc, [OUnschedule 1])] 0 0 false false None 8.
Definition act (d : Z) (cb : nat) : evres := REvent (mkEvent d true (KAction cb)).
Definition mp_h : list op :=
  [ OSchedule (mkStream [nt 2 60 0 4] 0 true) None None None true None true;
    OSchedule (mkStream [act 2 0; act 2 1; act 2 2; nt 2 50 1 1] 0 false) None None None true None true;
    OSchedule (mkStream [nt 2 70 2 1; nt 2 71 2 1] 0 true) None None None true None true;
    OTick; OTick; OTick; OTick; OTick; OTick; OTick ].
Example C07_merge_cb_nonvacuous :
  uncoupled_cb 2 (on_channel 2) (one_of []) mp_cfg = true
  /\ uncoupled mp_cfg = false
  /\ hist_wf 2 (on_channel 2) (one_of []) 0 mp_h = true
  /\ ticks_wf 2 mp_cfg 0 mp_h = true
  /\ all_ticks_ok mp_cfg tl0 mp_h = true
  /\ tick_calls mp_cfg tl0 mp_h =
       [ [CNoteOn 60 64 0; CCallback 0; CNoteOn 70 64 2]; [CNoteOff 70 2]; [CCallback 1; CNoteOn 71 64 2];
         [CNoteOff 71 2; CNoteOn 90 64 3]; [CNoteOff 90 3; CNoteOff 60 0; CCallback 2; CNoteOn 70 64 2; CNoteOn 90 64 3];
         [CNoteOff 70 2; CNoteOff 90 3]; [CNoteOn 71 64 2] ]
  /\ tick_calls mp_cfg (tl_at 2) (solo 2 0 mp_h) =
       [ [CNoteOn 70 64 2]; [CNoteOff 70 2]; [CNoteOn 71 64 2]; [CNoteOff 71 2]; [CNoteOn 70 64 2]; [CNoteOff 70 2]; [CNoteOn 71 64 2] ]
  /\ map (fun o => snd o) (run mp_cfg tl0 mp_h) =
       ([ [0]; [0; 1]; [0; 1; 2]; [0; 1; 2]; [0; 1; 2]; [1; 2; 3]; [1; 2; 3]; [2; 3]; [2]; [2] ])%nat.
Proof. vm_compute. repeat split. Qed.

(** * Globals whose values are patterns (model: Sched/GlobalsPat.v, lemmas Sched/GlobalsPatProofs.v) *)
(* Globals.set stores unconditionally; Globals.get / PGlobals resolve a stored Pattern object through Pattern.value (its next
   value); the object is shared by everybody who reads it, under whatever name. *)
From Isobar Require Import Sched.GlobalsPat Sched.GlobalsPatProofs.

(* A GLOBALS READ RETURNS THE LATEST VALUE SET OR THE DEFAULT - for every program of sets and reads, whatever kinds of values
   were stored under the name before and after (number over pattern, pattern over number, pattern over pattern, the same
   value again): a stored number is returned as it is; a stored pattern object is asked for its next value *)
Theorem C07_globals_pattern_latest : forall p k d objs,
  fst (gpread k d (gp_state (gstore0 objs) p)) =
    match latest k p with
    | None => GVal d
    | Some (GScalar v) => GVal v
    | Some (GPat q) => fst (pnext q (gs_objs (gp_state (gstore0 objs) p)))
    end.
Proof. exact read_latest. Qed.
(* a set always takes effect: the very next read of that name sees the new value; other names are not touched; after any
   program the value stored under a name is the one of the last set of that name *)
Theorem C07_globals_set_takes_effect : forall k v d st,
  fst (gpread k d (gpset k v st)) = match v with GScalar x => GVal x | GPat q => fst (pnext q (gs_objs st)) end
  /\ forall k', k <> k' -> glookup k' (gs_map (gpset k v st)) = glookup k' (gs_map st).
Proof. intros k v d st. split; [apply set_then_read|intros k' N; apply lookup_set_other; exact N]. Qed.
Theorem C07_globals_stored : forall p st k,
  glookup k (gs_map (gp_state st p)) = match latest k p with Some v => Some v | None => glookup k (gs_map st) end.
Proof. exact lookup_after_program. Qed.
(* the pattern object is deliberately shared state: after any program a cyclic object stands at (start + the number of reads that
   reached it - through any name bound to it at that moment, by any reader) mod its length, so the readers take its values in
   turn; sets and reads of other objects do not move it *)
Theorem C07_globals_pattern_shared : forall p k d objs q vals pos,
  latest k p = Some (GPat q) -> nth_error objs q = Some (mkPobj vals pos true) -> (pos < length vals)%nat ->
  fst (gpread k d (gp_state (gstore0 objs) p)) = GVal (nth ((pos + reads_of q (gstore0 objs) p) mod length vals) vals 0)
  /\ nth_error (gs_objs (gp_state (gstore0 objs) p)) q = Some (mkPobj vals ((pos + reads_of q (gstore0 objs) p) mod length vals) true).
Proof. intros p k d objs q vals pos La F L. split; [apply read_pattern_value; assumption|apply object_after_program; assumption]. Qed.
(* with numbers only it is the model of Sched/Static.v (C07_globals_latest) *)
Theorem C07_globals_scalar_case : forall k d st, all_scalar (gs_map st) = true ->
  fst (gpread k d st) = GVal (gget k d (scalar_map (gs_map st))).
Proof. exact scalar_read_is_gget. Qed.

(* non-vacuity: objects 0 = (1 2 3 ...) cyclic, 1 = (7 7 ...); name 5 := object 0, read twice; := 60 (number over pattern); := object 1
   (pattern over number); := object 0 again (pattern over pattern: it continues where it stood); name 6 := object 0 too (two names,
   one object); a name never set gives the default *)
Example C07_globals_pattern_nonvacuous :
  gp_run (gstore0 [pobj0 [1; 2; 3] true; pobj0 [7] true])
    [GARead 5 (-1); GASet 5 (GPat 0); GARead 5 (-1); GARead 5 (-1); GASet 5 (GScalar 60); GARead 5 (-1); GASet 5 (GPat 1); GARead 5 (-1);
     GASet 5 (GPat 0); GASet 6 (GPat 0); GARead 5 (-1); GARead 6 (-1); GARead 5 (-1); GARead 9 (-1)]
  = [Some (GVal (-1)); None; Some (GVal 1); Some (GVal 2); None; Some (GVal 60); None; Some (GVal 7);
     None; None; Some (GVal 3); Some (GVal 1); Some (GVal 2); Some (GVal (-1))].
Proof. vm_compute. reflexivity. Qed.

(** * Tracks written in string shorthand (model: Sched/NotationTracks.v = Notation/Parser.v + Notation/PSeq.v + Sched/Model.v;
      lemmas Sched/NotationTracksProofs.v) *)
(* Every str value of an event dictionary goes through Pattern.pattern -> parse_notation, which BUILDS a new tree of PSequence
   objects at every call.  Tracks built from equal strings are therefore built from separate, equal objects. *)
From Isobar Require Import Notation.Lexer Notation.Parser Notation.PSeq Sched.NotationTracks Sched.NotationTracksProofs.

(* the objects of a process do not move each other: after ANY program of "build an object from a string" / "ask object o" steps,
   object o is what it was, advanced by the number of times IT was asked; the value it yields next is the value of that index of
   its own sequence (C20_cycle says which) *)
Theorem C07_notation_objects_independent : forall uw p st o ob, nth_error st o = Some ob ->
  nth_error (nstate uw st p) o = Some (after (asks o p) ob)
  /\ (live ob = true ->
      nth (length p) (nrun uw st (p ++ [NNext o])) NNoObj = match kth (asks o p) ob with Some v => NVal v | None => NStop end).
Proof. intros uw p st o ob F. split; [apply object_after_program; exact F|intros L; apply value_after_program; assumption]. Qed.
(* an object built after any program - a later schedule(), a new timeline in the same process - starts at the beginning of its
   string's sequence; two objects built from the same string yield the same values ask by ask, however interleaved *)
Theorem C07_notation_fresh : forall uw p s st ob, object_of uw s = Ok ob -> nstate uw st (p ++ [NNew s]) = nstate uw st p ++ [ob].
Proof. exact new_object_is_fresh. Qed.
Theorem C07_notation_same_string : forall uw s ob st o1 o2 p1 p2,
  object_of uw s = Ok ob -> live ob = true -> nth_error st o1 = Some ob -> nth_error st o2 = Some ob -> asks o1 p1 = asks o2 p2 ->
  nth (length p1) (nrun uw st (p1 ++ [NNext o1])) NNoObj = nth (length p2) (nrun uw st (p2 ++ [NNext o2])) NNoObj.
Proof. exact same_string_same_values. Qed.

(* the event stream of a track scheduled from {note: sn, duration: sd, amplitude: sa, gate, channel} is a function of its own
   strings ([notation_stream]) and stays on its channel; so THE MERGE THEOREM applies: two tracks written with the same three
   strings on different channels produce together, tick by tick, exactly what each produces alone *)
Theorem C07_notation_stream_own_channel : forall uw U chan gnum gden N sn sd sa (qc : Z -> bool) qb, qc chan = true ->
  stream_ok qc qb (stream_or_empty (notation_stream uw U chan gnum gden N sn sd sa)) = true.
Proof. exact notation_stream_ok. Qed.
Theorem C07_notation_merge : forall uw U gnum gden N sn sd sa chA chB qA dA cA qB dB cB rA rB cfg n,
  chA <> chB -> uncoupled cfg = true ->
  all_ticks_ok cfg tl0 (two_tracks uw U gnum gden N sn sd sa chA chB qA dA cA qB dB cB rA rB n) = true ->
  let A := stream_or_empty (notation_stream uw U chA gnum gden N sn sd sa) in
  let B := stream_or_empty (notation_stream uw U chB gnum gden N sn sd sa) in
  let joint := tick_calls cfg tl0 (two_tracks uw U gnum gden N sn sd sa chA chB qA dA cA qB dB cB rA rB n) in
  tick_calls cfg (tl_at 0) (OSchedule A qA dA cA rA None true :: repeat OTick n) = map (filter (call_ok (fun c => c =? chA) (fun _ => false))) joint
  /\ tick_calls cfg (tl_at 1) (OSchedule B qB dB cB rB None true :: repeat OTick n) = map (filter (call_ok (fun c => c =? chB) (fun _ => false))) joint.
Proof. intros. apply same_strings_merge; assumption. Qed.

(* non-vacuity: '60 [62 64] 67' (note), '1' (duration, 1 beat = 2 units), '64' (amplitude) on channels 0 and 1, the second track
   delayed by one tick: each plays 60 62 67 60 64 67 ... - the nested group gives one element per cycle, on BOTH tracks *)
Definition nt_sn : str := [54;48;32;91;54;50;32;54;52;93;32;54;55].
Definition nt_uw (c : Z) : bool := false.
Definition nt_cfg : config := mkConfig 1 [] 0 0 false false None 8.
Definition on_notes (l : list call) : list (Z * Z) := flat_map (fun c => match c with CNoteOn n _ ch => [(n, ch)] | _ => [] end) l.
Example C07_notation_nonvacuous :
  uncoupled nt_cfg = true
  /\ all_ticks_ok nt_cfg tl0 (two_tracks nt_uw 2 1 2 8 nt_sn [49] [54;52] 0 1 None None None None (Some 1) None true true 12) = true
  /\ map on_notes (tick_calls nt_cfg tl0 (two_tracks nt_uw 2 1 2 8 nt_sn [49] [54;52] 0 1 None None None None (Some 1) None true true 12))
     = [ [(60,0)]; [(60,1)]; [(62,0)]; [(62,1)]; [(67,0)]; [(67,1)]; [(60,0)]; [(60,1)]; [(64,0)]; [(64,1)]; [(67,0)]; [(67,1)] ]
  /\ outputs 6 (match parse nt_uw nt_sn with Ok g => g | _ => [] end) = [VInt 60; VInt 62; VInt 67; VInt 60; VInt 64; VInt 67].
Proof. vm_compute. repeat split. Qed.

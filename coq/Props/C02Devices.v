(* Props/C02Devices.v — property C02 on timelines with SEVERAL OUTPUT DEVICES, and for tracks that are left without events.
   Model: Sched/Devices.v (a track on device d, MIDI channel c, is the scheduler model's track on the tagged channel c + 16 d; what a
   device receives is the sub-trace with its tag), on top of Sched/Model.v (unchanged).  The pairing is judged PER DEVICE. *)
From Isobar Require Import Base.Prelude Sched.Model Sched.NoteOffProofs Sched.Devices.

(* Conservation per device, over ALL histories (schedule / update / re-schedule by name / unschedule / clear / mute / nudge, callbacks,
   faults, both tolerance modes, any number of devices): for every device d and every weight w on its (note, channel) pairs,
   W(pending for d at the end) + W(note-offs d received) = W(pending for d at the start) + W(note-ons d received).
   A release entry stays with the device on which its note was switched on, whoever holds the entry. *)
Theorem C02_device_conservation : forall D d w cfg ops tl,
  Pend (on_dev D d w) (run_state cfg tl ops) + Woff w (dev_trace D d (run_calls cfg tl ops))
  = Pend (on_dev D d w) tl + Won w (dev_trace D d (run_calls cfg tl ops)).
Proof. intros. apply device_conservation. Qed.
Print Assumptions C02_device_conservation.

(* Counting form: on EVERY device, for every (note, channel), after every history, the note-ons minus the note-offs that device
   received = the release entries pending for that device and key, and that is >= 0: no note stuck on one device, no note-off on a
   device that never got the note-on, nothing released twice. *)
Theorem C02_device_pending_is_sounding : forall D d n0 c0 cfg ops, 0 < D -> 0 <= c0 < D ->
  Won (ind n0 c0) (dev_trace D d (run_calls cfg tl0 ops)) - Woff (ind n0 c0) (dev_trace D d (run_calls cfg tl0 ops))
    = Pend (ind n0 (tagged D d c0)) (run_state cfg tl0 ops)
  /\ 0 <= Pend (ind n0 (tagged D d c0)) (run_state cfg tl0 ops).
Proof. intros. apply device_pending_is_sounding; assumption. Qed.
Print Assumptions C02_device_pending_is_sounding.

(* the device sub-traces partition the calls by tag: a call on the tagged channel c + D d reaches device d and no other *)
Theorem C02_device_routes : forall D d d' n v c, 0 < D -> 0 <= c < D ->
  dev_call D d' (CNoteOn n v (tagged D d c)) = (if d =? d' then Some (CNoteOn n v c) else None)
  /\ dev_call D d' (CNoteOff n (tagged D d c)) = (if d =? d' then Some (CNoteOff n c) else None).
Proof.
  intros D d d' n v c HD Hc. unfold dev_call, dev_of, chan_of, tagged.
  replace (c + D * d) with (c + d * D) by lia. rewrite Z.div_add, Z.mod_add by lia.
  rewrite (Z.div_small c D), (Z.mod_small c D) by lia. simpl. split; reflexivity.
Qed.
Print Assumptions C02_device_routes.

(* A track left without events - update(None), update({}), schedule({}, name=existing) - has the endless stream of raising events;
   every theorem of Props/C02.v quantifies over such histories too.  Concretely, in the tolerant mode: a note of 3 ticks switched on
   on tick 0 of device 1 (channel 2), the track blanked after one tick: the track is removed on tick 1 and the note is released on
   tick 3, on device 1 - not before, not on device 0. *)
Example C02_blank_nonvacuous :
  let cfg := mkConfig 1 [] 0 0 false true None 100%nat in
  let s := mkStream [REvent (mkEvent 8 true (KNote [mkVoice 60 (Some 64) (tagged 16 1 2) (Some 3)]))] 0 true in
  let ops := [OSchedule s (Some 0) (Some 0) None true None true; OTick; OUpdate 0 blank_stream (Some 0) (Some 0) None; OTick; OTick; OTick] in
  pull blank_stream = (RRaise, blank_stream)
  /\ dev_trace 16 1 (run_calls cfg tl0 (firstn 5 ops)) = [CNoteOn 60 64 2]
  /\ tracks (run_state cfg tl0 (firstn 4 ops)) = []
  /\ dev_trace 16 1 (run_calls cfg tl0 ops) = [CNoteOn 60 64 2; CNoteOff 60 2]
  /\ dev_trace 16 0 (run_calls cfg tl0 ops) = [].
Proof. vm_compute. repeat split; reflexivity. Qed.

(* Props/C16.v — property C16: MIDI files written by isobar read back as the same music.
   Only the property theorems live here; each is closed by lemmas of IO/MidiFileProofs.v about the
   executable model IO/MidiFile.v (writer = MidiFileOutputDevice, reader = MidiFileInputDevice.read,
   call trace of a note/chord sequence).  Times are file ticks. *)
From Isobar Require Import Base.Prelude IO.MidiFile IO.MidiFileProofs IO.ReaderHistory IO.ReaderHistoryProofs IO.LongPiece IO.LongPieceProofs Generated.TablesPat.

(* ------------------------------------------------------------------------------------------ *)
(** ** Reading any file *)

(* For ANY message list — any interleaving of note and non-note messages, arbitrary deltas — the notes
   read are exactly the note_ons with velocity > 0, in file order, each placed at the sum of all deltas
   up to and including its own ([absolute 0 ms] is that running sum, see C16_absolute_is_running_sum). *)
Theorem C16_positions_all : forall ms,
  map nkey (scan ms 0 []) = ons_of (absolute 0 ms).
Proof.
  intros. rewrite scan_absolute, scan_abs_steps, steps_keys. reflexivity.
Qed.
Print Assumptions C16_positions_all.

Theorem C16_absolute_is_running_sum : forall pre d m post,
  absolute 0 (pre ++ (d, m) :: post)
  = absolute 0 pre ++ (sumd pre + d, m) :: absolute (sumd pre + d) post.
Proof. intros. rewrite absolute_app. cbn [absolute]. rewrite Z.add_0_l. reflexivity. Qed.
Print Assumptions C16_absolute_is_running_sum.

(* ... and each note gets the length up to its release: a note_on (velocity > 0) of pitch p followed —
   after any messages that are not note messages of pitch p, whatever their deltas — by a note_off of p
   or a note_on of p with velocity 0 is read as ONE note at tick (sum of the deltas before it + its own),
   lasting (sum of the deltas in between + the delta of the release).  The note is the
   [count_ons pre]-th of the notes read (as many sounding note_ons precede it). *)
Theorem C16_positions : forall pre d c p v mid d' rel post,
  0 < v -> is_release p rel = true ->
  (forall tm, In tm mid -> about p (snd tm) = false) ->
  nth_error (scan (pre ++ (d, NoteOn c p v) :: mid ++ (d', rel) :: post) 0 []) (count_ons pre)
  = Some (mkNote p v (sumd pre + d) (Some (sumd mid + d'))).
Proof. exact scan_note. Qed.
Print Assumptions C16_positions.

(* a note_on with velocity 0 is a note_off *)
Theorem C16_velocity0_is_release : forall c p, is_release p (NoteOn c p 0) = true /\ is_release p (NoteOff c p) = true.
Proof. intros. cbn. rewrite Z.eqb_refl. auto. Qed.

Theorem C16_velocity0_same_as_note_off : forall pre d c c' p post,
  scan (pre ++ (d, NoteOn c p 0) :: post) 0 [] = scan (pre ++ (d, NoteOff c' p) :: post) 0 [].
Proof.
  intros. rewrite !scan_absolute, !scan_abs_steps, !absolute_app. cbn [absolute].
  rewrite !steps_app. reflexivity.
Qed.
Print Assumptions C16_velocity0_same_as_note_off.

(* any other message (controller, pitch-bend, program change, meta event ...) only shifts what follows
   it by its own delta: it can be merged into the next message's delta without changing what is read *)
Theorem C16_other_messages_only_shift : forall pre d k d' m post,
  scan (pre ++ (d, Other k) :: (d', m) :: post) 0 [] = scan (pre ++ (d + d', m) :: post) 0 [].
Proof. exact scan_other. Qed.
Print Assumptions C16_other_messages_only_shift.

(* ------------------------------------------------------------------------------------------ *)
(** ** Writing *)

(* decoding the deltas of the written track returns the absolute tick of every call the device
   received, followed by the closing dummy note_off at the tick of write() *)
Theorem C16_deltas : forall ops,
  absolute 0 (write_file ops) = timed_calls 0 ops ++ [(count_ticks ops, NoteOff 0 0)].
Proof. intros. rewrite write_file_encode. apply absolute_encode. Qed.
Print Assumptions C16_deltas.

(* the file is as long as the number of device ticks before write(): trailing silence is kept *)
Theorem C16_file_length : forall ops, sumd (write_file ops) = count_ticks ops.
Proof. intros. rewrite write_file_encode, sumd_encode. lia. Qed.
Print Assumptions C16_file_length.

(* for a note/chord/rest sequence the file lasts until the end of the last event's duration (or the
   last release if that is later): a trailing rest is preserved *)
Theorem C16_trailing_silence : forall es,
  sumd (file_of_events es) = sched_end es
  /\ total_dur es <= sched_end es
  /\ ((forall f, In f (place_all es 0) -> f_rel f <= total_dur es) -> sched_end es = total_dur es).
Proof.
  intros es. unfold file_of_events. rewrite sumd_encode. split; [lia|]. unfold sched_end. split.
  - apply fold_max_ge.
  - intros H. apply fold_max_id. intros x Hx. apply in_map_iff in Hx as [f [<- Hf]]. apply H. exact Hf.
Qed.
Print Assumptions C16_trailing_silence.

(* ------------------------------------------------------------------------------------------ *)
(** ** Round trip *)

(* For EVERY sequence of notes, chords and rests with positive durations, lengths and velocities and no
   two overlapping notes of the same pitch ([events_ok]; chords, per-voice gates, gates > 1 — i.e. notes
   that overlap later events — and rests included), and for every call sequence [ops] on the file device
   whose calls happen on the ticks the scheduler calls it ([sched_calls es]: note_ons of event k on tick
   sum of the earlier durations in voice order, every note_off on its release tick, releases before
   onsets within a tick), reading the written track returns [expected es]: the same pitches and
   velocities in the same grouping, the same onsets (durations = gaps between onsets) and sounding
   lengths, hence the same duration and gate (length / duration) for every event but the last, whose
   duration is its longest voice (see C16_expected_* below for [expected] spelled out). *)
Theorem C16_roundtrip : forall es ops,
  events_ok es = true ->
  timed_calls 0 ops = sched_calls es ->
  read_track (write_file ops) = ROk (expected es).
Proof.
  intros es ops Hok Hcalls. rewrite write_file_encode, Hcalls. apply roundtrip_track. exact Hok.
Qed.
Print Assumptions C16_roundtrip.

(* the same for the file as the model writes it, through read() proper (first track with a note_on) *)
Theorem C16_roundtrip_file : forall es,
  events_ok es = true -> place_all es 0 <> [] ->
  read_file [file_of_events es] = ROk (expected es).
Proof.
  intros es Hok Hne. unfold read_file, file_of_events. cbn [find].
  rewrite file_has_note_on by exact Hne. apply roundtrip_track. exact Hok.
Qed.
Print Assumptions C16_roundtrip_file.

(* what [expected] is, event by event: an event followed by a sounding event reads back with its own
   pitches, velocities, lengths and ITS OWN DURATION (so its own gate = length / duration) ... *)
Theorem C16_expected_step : forall e e' r o,
  e_voices e <> [] -> e_voices e' <> [] ->
  expected_from (sounding (e :: e' :: r) o)
  = cons_event (e_voices e) (e_dur e) (expected_from (sounding (e' :: r) (o + e_dur e))).
Proof.
  intros e e' r o H H'. cbn [sounding]. destruct (e_voices e) as [|v vs]; [congruence|].
  destruct (e_voices e') as [|v' vs']; [congruence|]. cbn [expected_from]. f_equal. lia.
Qed.
(* ... the last event reads back with the duration of its longest voice ... *)
Theorem C16_expected_last : forall e o,
  e_voices e <> [] ->
  expected_from (sounding [e] o) = cons_event (e_voices e) (max_len (e_voices e)) (mkR [] [] [] []).
Proof. intros e o H. cbn [sounding]. destruct (e_voices e) as [|v vs]; [congruence|]. reflexivity. Qed.
(* ... a rest is absorbed into the duration of the event before it (also a trailing rest, which is
   preserved in the file's length, C16_trailing_silence, but not in the returned sequences) ... *)
Theorem C16_expected_rest : forall e e' r o,
  e_voices e' = [] ->
  sounding (e :: e' :: r) o = sounding (mkEvent (e_voices e) (e_dur e + e_dur e') :: r) o.
Proof.
  intros e e' r o H. cbn [sounding e_voices e_dur]. rewrite H.
  replace (o + e_dur e + e_dur e') with (o + (e_dur e + e_dur e')) by lia. reflexivity.
Qed.
(* ... and a leading rest only shifts the onsets *)
Theorem C16_expected_leading_rest : forall e r o,
  e_voices e = [] -> sounding (e :: r) o = sounding r (o + e_dur e).
Proof. intros e r o H. cbn [sounding]. rewrite H. reflexivity. Qed.

(* ------------------------------------------------------------------------------------------ *)
(** ** Reader objects that outlive the file: histories `write m1; read; write m2; read ...`

    A file system maps paths to file contents; reader objects are created once per path and used for any number of
    reads, with any quantize values, while the files are rewritten (by isobar or anything else) or removed in between
    (IO/ReaderHistory.v).  For ALL histories: *)

(* the read that follows `count_reads pre` earlier reads returns the decoding — with its own quantize value — of the
   file as it is after everything before it; None = no such file (FileNotFoundError) *)
Theorem C16_history_read : forall f pre p q post,
  nth_error (hist_run f (pre ++ HRead p q :: post)) (count_reads pre)
  = Some (option_map (read_file_q q) (fs_after f pre p)).
Proof. exact hist_read_spec. Qed.
Print Assumptions C16_history_read.

(* ... that is: of the LATEST write to its path, whatever was written before that write, whatever this or any other
   reader object has read before (any number of times, any quantize), whatever happened to other paths *)
Theorem C16_history_latest_write : forall f pre p c mid q post,
  forallb (fun o => negb (touches p o)) mid = true ->
  nth_error (hist_run f (pre ++ HWrite p c :: mid ++ HRead p q :: post)) (count_reads (pre ++ HWrite p c :: mid))
  = Some (Some (read_file_q q c)).
Proof. exact hist_read_latest_write. Qed.
Print Assumptions C16_history_latest_write.

Theorem C16_history_removed : forall f pre p mid q post,
  forallb (fun o => negb (touches p o)) mid = true ->
  nth_error (hist_run f (pre ++ HRemove p :: mid ++ HRead p q :: post)) (count_reads (pre ++ HRemove p :: mid))
  = Some None.
Proof. exact hist_read_after_remove. Qed.

(* earlier reads play no role at all: deleting every read from the history before a read does not change its result *)
Theorem C16_history_reads_irrelevant : forall f pre p q post,
  nth_error (hist_run f (pre ++ HRead p q :: post)) (count_reads pre)
  = Some (option_map (read_file_q q) (fs_after f (filter (fun o => negb (is_read o)) pre) p)).
Proof. exact hist_read_independent_of_reads. Qed.
Print Assumptions C16_history_reads_irrelevant.

(* round trip through a history: isobar saved `es` to p, p was not touched since; the reader object of p — however old,
   whatever it read before the save — reads back exactly `expected es` *)
Theorem C16_history_roundtrip : forall f pre p es mid post,
  events_ok es = true -> place_all es 0 <> [] ->
  forallb (fun o => negb (touches p o)) mid = true ->
  nth_error (hist_run f (pre ++ HSave p es :: mid ++ HRead p 0 :: post)) (count_reads (pre ++ HSave p es :: mid))
  = Some (Some (ROk (expected es))).
Proof. exact hist_roundtrip. Qed.
Print Assumptions C16_history_roundtrip.

(* read(quantize = q): without quantize it is the reader above; round() moves a value by at most q/2; music that
   already lies on the grid is read unchanged *)
Theorem C16_quantize : forall q,
  (forall c, read_file_q 0 c = read_file c)
  /\ (0 < q -> forall a, 2 * Z.abs (a - qz q a) <= q)
  /\ (forall ms, Forall (on_grid q) (scan ms 0 []) -> read_track_q q ms = read_track ms).
Proof.
  intros q. split; [exact read_file_q_0 | split].
  - intros Hq a. unfold qz. apply rhe_nearest. exact Hq.
  - intros ms. apply read_track_q_on_grid.
Qed.
Print Assumptions C16_quantize.

(* round trip UNDER QUANTISATION: a sequence whose durations and sounding lengths are whole multiples of the grid q (so every
   onset is on the grid) reads back as `expected es` with quantize = q - through the file and through any history in which
   isobar saved it and the path was not touched since, whatever the reader object read before *)
Theorem C16_roundtrip_quantized : forall q es,
  0 < q -> events_ok es = true -> events_on_grid q es = true -> place_all es 0 <> [] ->
  read_file_q q [file_of_events es] = ROk (expected es).
Proof. exact roundtrip_file_q. Qed.
Print Assumptions C16_roundtrip_quantized.

Theorem C16_history_roundtrip_quantized : forall f pre p es mid q post,
  0 < q -> events_ok es = true -> events_on_grid q es = true -> place_all es 0 <> [] ->
  forallb (fun o => negb (touches p o)) mid = true ->
  nth_error (hist_run f (pre ++ HSave p es :: mid ++ HRead p q :: post)) (count_reads (pre ++ HSave p es :: mid))
  = Some (Some (ROk (expected es))).
Proof. exact hist_roundtrip_q. Qed.
Print Assumptions C16_history_roundtrip_quantized.

(* ------------------------------------------------------------------------------------------ *)
(** ** Size: pieces longer than any internal limit of the library

    The theorems above are about lists of ANY length.  What a piece of 70 000 events needs in addition: a criterion for
    [events_ok] that is linear in the number of notes, closed forms of the written file that a check can afford, and a
    concrete family of pieces of every length (IO/LongPiece.v). *)

(* every note ends no later than its event and the pitches of one event are distinct: then no two notes of one pitch overlap *)
Theorem C16_events_short_ok : forall es, events_short es = true -> events_ok es = true.
Proof. exact events_short_ok. Qed.
Print Assumptions C16_events_short_ok.

(* EVERY voice of EVERY event - however many there are - is in the written file as a note_on with its pitch and velocity
   at its onset tick, in order, and nothing else is; in particular the file holds as many note_ons as the piece has notes *)
Theorem C16_all_voices_written : forall es, events_ok es = true ->
  ons_of (absolute 0 (file_of_events es)) = map vkey (place_all es 0)
  /\ List.length (ons_of (absolute 0 (file_of_events es))) = List.length (place_all es 0).
Proof. intros es H. rewrite (voices_written es H). split; [reflexivity | apply map_length]. Qed.
Print Assumptions C16_all_voices_written.

(* the endless score of IO/LongPiece.v, from any start, at ANY length n: it is a legal piece, the file is as long as the
   music, it holds every note, and reading it back returns all n events *)
Theorem C16_long_piece : forall n i, 0 <= i -> n <> O ->
  let es := long_piece i n in
  events_ok es = true
  /\ read_file [file_of_events es] = ROk (expected es)
  /\ ons_of (absolute 0 (file_of_events es)) = map vkey (place_all es 0)
  /\ sumd (file_of_events es) = sched_end es /\ total_dur es <= sched_end es
  /\ List.length es = n.
Proof.
  intros n i Hi Hn es.
  assert (Hok : events_ok es = true) by (apply events_short_ok, long_piece_short; exact Hi).
  split; [exact Hok|]. split; [apply C16_roundtrip_file; [exact Hok | apply long_piece_sounds; exact Hn]|].
  split; [apply voices_written; exact Hok|].
  destruct (C16_trailing_silence es) as [A [B _]]. split; [exact A|]. split; [exact B | apply long_piece_length].
Qed.
Print Assumptions C16_long_piece.

(* ... in particular beyond Pattern.LENGTH_MAX (the constant of the source under test, Generated/TablesPat.v) *)
Corollary C16_beyond_length_max : forall k, 0 < k ->
  let es := long_piece 0 (Z.to_nat (LENGTH_MAX + k)) in
  read_file [file_of_events es] = ROk (expected es) /\ Z.of_nat (List.length es) = LENGTH_MAX + k.
Proof.
  intros k Hk es. assert (L : 0 < LENGTH_MAX) by (vm_compute; reflexivity).
  assert (N : Z.to_nat (LENGTH_MAX + k) <> O) by lia.
  destruct (C16_long_piece (Z.to_nat (LENGTH_MAX + k)) 0 ltac:(lia) N) as [_ [R [_ [_ [_ Ln]]]]].
  split; [exact R|]. unfold es. rewrite Ln. lia.
Qed.
Print Assumptions C16_beyond_length_max.

(* ------------------------------------------------------------------------------------------ *)
(** ** Non-vacuity *)

Definition ex_events : list event :=
  [ mkEvent [mkVoice 60 64 480] 240;                         (* gate 2: overlaps the next event *)
    mkEvent [mkVoice 62 32 360; mkVoice 65 33 120] 720;      (* chord with per-voice gates *)
    mkEvent [] 480;                                          (* rest *)
    mkEvent [mkVoice 60 16 480] 480;                         (* the first pitch again *)
    mkEvent [] 240 ].                                        (* trailing rest *)

Example C16_roundtrip_nonvacuous :
  events_ok ex_events = true
  /\ timed_calls 0 (ops_of_timed 0 (sched_calls ex_events) (sched_end ex_events)) = sched_calls ex_events
  /\ write_file (ops_of_timed 0 (sched_calls ex_events) (sched_end ex_events)) = file_of_events ex_events
  /\ sumd (file_of_events ex_events) = 2160
  /\ expected ex_events
     = mkR [One 60; Many [62; 65]; One 60] [One 64; Many [32; 33]; One 16]
           [One (480, 240); Many [(360, 1200); (120, 1200)]; One (480, 480)] [240; 1200; 480].
Proof. vm_compute. repeat split. Qed.

(* the defect of the pinned reader, as the model (repaired behaviour) sees it: a controller with
   delta 480 between two notes; the second note starts 960 ticks after the first *)
Example C16_positions_nonvacuous :
  read_file [[(0, NoteOn 0 60 64); (240, NoteOff 0 60); (480, Other 0); (240, NoteOn 0 62 64); (240, NoteOn 0 62 0)]]
  = ROk (mkR [One 60; One 62] [One 64; One 64] [One (240, 960); One (240, 240)] [960; 240]).
Proof. vm_compute. reflexivity. Qed.

Example C16_deltas_nonvacuous :
  write_file [OOn 60 100 0; OTick; OTick; OTick; OOff 60 0; OTick; OTick]
  = [(0, NoteOn 0 60 100); (3, NoteOff 0 60); (2, NoteOff 0 0)].
Proof. vm_compute. reflexivity. Qed.

(* one reader object (path 7) across two rewrites, a removal and three quantize values; a second path in between *)
Example C16_history_nonvacuous :
  let m1 := [[(0, NoteOn 0 60 64); (240, NoteOff 0 60); (240, NoteOn 0 62 50); (250, NoteOff 0 62)]] in
  let m2 := [[(100, NoteOn 0 40 9); (130, NoteOn 0 40 0)]] in
  hist_run fs_empty [HRead 7 0; HWrite 7 m1; HRead 7 0; HRead 7 240; HWrite 8 m2; HSave 7 ex_events; HRead 7 0; HRead 8 0;
                     HWrite 7 m2; HRead 7 0; HRead 7 120; HRemove 7; HRead 7 0; HRead 8 120]
  = [ None;
      Some (ROk (mkR [One 60; One 62] [One 64; One 50] [One (240, 480); One (250, 250)] [480; 250]));
      Some (ROk (mkR [One 60; One 62] [One 64; One 50] [One (240, 480); One (240, 240)] [480; 240]));
      Some (ROk (expected ex_events));
      Some (ROk (mkR [One 40] [One 9] [One (130, 130)] [130]));
      Some (ROk (mkR [One 40] [One 9] [One (130, 130)] [130]));
      Some (ROk (mkR [One 40] [One 9] [One (120, 120)] [120]));
      None;
      Some (ROk (mkR [One 40] [One 9] [One (120, 120)] [120])) ]
  /\ rhe 5 2 = 2 /\ rhe 7 2 = 4 /\ rhe 360 240 = 2 /\ rhe 120 240 = 0.
Proof. vm_compute. repeat split. Qed.

(* ex_events lies on the grids 120, 60, 40 ... (durations 240, 720, 480, 480, 240; lengths 480, 360, 120, 480) but not on 240 *)
Example C16_roundtrip_quantized_nonvacuous :
  events_on_grid 120 ex_events = true /\ events_on_grid 240 ex_events = false
  /\ read_file_q 120 [file_of_events ex_events] = ROk (expected ex_events)
  /\ read_file_q 240 [file_of_events ex_events] <> ROk (expected ex_events).
Proof. repeat split; try (vm_compute; reflexivity). vm_compute. discriminate. Qed.

(* the first ten events of the endless score: single notes and one two-note chord (event 3) *)
Example C16_long_piece_nonvacuous :
  events_short (long_piece 0 10) = true
  /\ map e_dur (long_piece 0 10) = [2; 3; 4; 2; 3; 4; 2; 3; 4; 2]
  /\ e_voices (long_event 3) = [mkVoice 43 4 2; mkVoice 98 16 2]
  /\ piece_summary (long_piece 0 10) = [11; ck_keys (map vkey (place_all (long_piece 0 10) 0)); 29; 10; 29;
                                        ck_values [1; 12; 23; 43; 98; 45; 56; 67; 78; 89; 100]; ck_values [1; 2; 3; 2; 2; 2; 2; 1; 2; 1; 2]; 1].
Proof. vm_compute. repeat split. Qed.

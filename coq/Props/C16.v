(* Props/C16.v — placeholder, replaced below by the property theorems *)
From Isobar Require Import Base.Prelude IO.MidiFile.
Example C16_model_runs : read_file [file_of_events [mkEvent [mkVoice 60 64 480] 240]] = ROk (expected [mkEvent [mkVoice 60 64 480] 240]).
Proof. vm_compute. reflexivity. Qed.

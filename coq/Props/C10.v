(* Props/C10.v — property C10 (stub while the check is being brought up) *)
From Isobar Require Import Base.Prelude Pat.Val Pat.Syntax Pat.Step Pat.Ref.

(* Props/C10.v — property C10: deterministic library patterns match their reference definitions.
   Only the property theorems live here; each is closed by a lemma of Pat/RefProofs.v.  The reference
   definitions (closed-form list functions written from the class documentation, independently of Pat/Step.v)
   are in Pat/Ref.v.

   Vocabulary:  Den f p s     the object p denotes s: call number j of next() (fuel f per call) has the outcome
                              at_ s j — for s = Fin l the values of l in order and then StopIteration for ever,
                              for s = Inf g the values g 0, g 1, ... (i.e. every finite prefix is right);
                ADen f a s    the same for an operand read with Pattern.value (a scalar = the constant stream).
   Every class theorem is about the object in the state __init__ leaves it in, over ARBITRARY operand objects
   (any class, any nesting depth) that denote some s, for ALL arguments of the documented domain. *)
From Isobar Require Import Base.Prelude Pat.Val Pat.Syntax Pat.Step Pat.StepProofs Pat.Ref Pat.RefProofs.
From Coq Require Import String QArith Permutation.
Open Scope Z_scope.

Section AnyEngine.
  Variable binop : op -> val -> val -> outcome val.      (* the operator semantics of the PBinOp classes: arbitrary *)
  Variable LMAX : nat.
  Notation Den := (Den binop LMAX).
  Notation ADen := (ADen binop LMAX).

  (* PSeries(start, step, length) = [start + i*step | i < length], ints, steps of either sign, any length *)
  Theorem C10_series : forall f a d n,
    Den (S (S f)) (PSeries (VInt a) (VInt a) (AV (VInt d)) (AV (VInt (Z.of_nat n))) 0) (Fin (ref_series a d n)).
  Proof. exact (series_den binop LMAX). Qed.

  (* PRange(start, end, step), step <> 0: start + i*step while strictly before end *)
  Theorem C10_range : forall f a e d, d <> 0 ->
    Den (S (S f)) (PRange (VInt a) (AV (VInt e)) (AV (VInt d)) (VInt a)) (Fin (ref_range a e d)).
  Proof. exact (range_den binop LMAX). Qed.

  (* what "strictly before end" means: index i is produced iff start + i*step has not reached end *)
  Theorem C10_range_length : forall a e d (i : nat), d <> 0 ->
    ((i < range_len a e d)%nat <-> (if 0 <? d then a + Z.of_nat i * d < e else e < a + Z.of_nat i * d)).
  Proof. exact range_len_spec. Qed.

  (* PGeom(start, multiply, length) = [start * multiply^i | i < length] *)
  Theorem C10_geom : forall f a m n,
    Den (S (S f)) (PGeom (VInt a) (VInt a) (AV (VInt m)) (VInt (Z.of_nat n)) 0) (Fin (ref_geom a m n)).
  Proof. exact (geom_den binop LMAX). Qed.

  (* PSequence(list of scalars, repeats) = the list, repeats times (any values, rests included; the empty list ends at once) *)
  Theorem C10_sequence : forall f (l : list val) (r : nat),
    Den (S (S f)) (PSequence (AL (map AV l)) (AV (VInt (Z.of_nat r))) 0 0) (Fin (ref_sequence l r)).
  Proof. exact (sequence_den binop LMAX). Qed.

  Theorem C10_constant : forall f c, Den (S f) (PConstant c) (Inf (fun _ => c)).
  Proof. exact (constant_den binop LMAX). Qed.

  (* PStutter(p, count), count >= 1: each value of p count times — p finite or endless *)
  Theorem C10_stutter : forall f c s k, (0 < k)%nat -> Den f c s ->
    Den (S (S f)) (PStutter (AP c) (AV (VInt (Z.of_nat k))) (VInt 0) 0 (VInt 0)) (sem_stutter k s).
  Proof. exact (stutter_den binop LMAX). Qed.

  (* PPad(p, length): p followed by rests up to the length; a longer or endless p is left alone *)
  Theorem C10_pad : forall f c s n, Den f c s ->
    Den (S (S f)) (PPad (AP c) (VInt (Z.of_nat n)) 0) (sem_pad n s).
  Proof. exact (pad_den binop LMAX). Qed.

  (* PAbs: |v| element-wise, rests kept *)
  Theorem C10_abs : forall f a s, ADen f a s -> (forall j v, at_ s j = Yield v -> absable v) ->
    Den (S f) (PAbs a) (sem_map abs1 s).
  Proof. exact (abs_den binop LMAX). Qed.

  (* PSkipIf(p, skip): a rest wherever skip is true; ends with the shorter operand *)
  Theorem C10_skipif : forall f a b sa sb, ADen f a sa -> ADen f b sb ->
    Den (S f) (PSkipIf a b) (sem_zip skip1 sa sb).
  Proof. exact (skipif_den binop LMAX). Qed.

  (* the 15 operator classes as list functions: zip with the operator, wherever it is defined on the values *)
  Theorem C10_operator : forall f o a b sa sb h, ADen f a sa -> ADen f b sb ->
    (forall j va vb, at_ sa j = Yield va -> at_ sb j = Yield vb -> elem_op binop o va vb = Yield (h va vb)) ->
    Den (S f) (PBinOp o a b) (sem_zip h sa sb).
  Proof. exact (binop_den binop LMAX). Qed.

  (* PChanged: 1 where the value differs from its predecessor (the constructor has read the first value) *)
  Theorem C10_changed : forall f a s v0, ADen f a s -> at_ s 0 = Yield v0 ->
    Den (S f) (PChanged (aafter binop LMAX f 1 a) v0) (sem_adj changed1 s).
  Proof. exact (changed_den binop LMAX). Qed.

  (* PDiff on ints and rests: differences of neighbours, a rest if either is a rest; one shorter than the input *)
  Theorem C10_diff : forall f a s v0, ADen f a s -> at_ s 0 = Yield v0 ->
    (forall j v, at_ s j = Yield v -> intish v) ->
    Den (S f) (PDiff (aafter binop LMAX f 1 a) v0) (sem_adj diff1 s).
  Proof. exact (diff_den binop LMAX). Qed.

  (* a pattern operand denotes what the pattern denotes; a scalar operand is the constant stream *)
  Theorem C10_operands : forall f,
    (forall p s, Den f p s -> ADen (S f) (AP p) s) /\ (forall v, ADen (S f) (AV v) (Inf (fun _ => v))).
  Proof. intro f. split; [exact (ADen_pat binop LMAX f) | exact (ADen_scalar binop LMAX f)]. Qed.

  (* what the closed forms on denotations mean, index by index *)
  Theorem C10_closed_forms_by_index : forall s,
    (forall k q r, (0 < k)%nat -> (r < k)%nat -> at_ (sem_stutter k s) (q * k + r) = at_ s q) /\
    (forall n j, at_ (sem_pad n s) j = match at_ s j with Yield v => Yield v | _ => if (j <? n)%nat then Yield VNone else Stop end) /\
    (forall h j, at_ (sem_map h s) j = match at_ s j with Yield v => Yield (h v) | o => o end) /\
    (forall h s2 j, at_ (sem_zip h s s2) j = match at_ s j, at_ s2 j with Yield a, Yield b => Yield (h a b) | _, _ => Stop end) /\
    (forall h j, at_ (sem_adj h s) j = match at_ s j, at_ s (S j) with Yield c, Yield n => Yield (h c n) | _, _ => Stop end).
  Proof.
    intro s. split; [|split; [|split; [|split]]]; intros.
    - apply at_stutter; assumption.
    - exact (at_pad _ _ _).
    - exact (at_map _ _ _).
    - exact (at_zip binop _ _ _ _).
    - first [exact (at_adj _ _ _) | exact (at_adj binop _ _ _)].
  Qed.
End AnyEngine.
Print Assumptions C10_series.
Print Assumptions C10_range.
Print Assumptions C10_sequence.
Print Assumptions C10_stutter.
Print Assumptions C10_pad.
Print Assumptions C10_operator.
Print Assumptions C10_diff.

(* COMPOSITION: the reference semantics is compositional.  ref_eval n e is the reference interpreter (list
   functions composed) on expressions of nesting depth <= n over PConstant PSeries PRange PGeom PStutter PSkipIf
   PChanged with scalar or expression operands; the object built by __init__ from e denotes ref_eval n e —
   for every expression of the fragment, any depth, finite or endless operands (endless: every finite prefix). *)
Theorem C10_composition : forall LMAX n e s,
  ref_eval n e = Some s ->
  forall F, (2 * n + 1 <= F)%nat ->
  exists p, init Val.binop LMAX F e = Yield p /\ Den Val.binop LMAX F p s.
Proof. intros LMAX n e s H. exact (ref_eval_sound LMAX n e s H). Qed.
Print Assumptions C10_composition.

(* EUCLIDEAN RHYTHMS (transcription of PEuclidean._euclidean: Pat/Ref.v euclid), the whole stated domain
   k <= n <= 64 by complete enumeration (2 144 pairs; the bound is part of the statement):
   length n, only onsets and rests, exactly k onsets *)
Theorem C10_euclid_shape : forall n k, (1 <= n <= 64)%nat -> (k <= n)%nat ->
  List.length (euclid n k) = n /\ (forall x, In x (euclid n k) -> x = 0 \/ x = 1) /\ zsum (euclid n k) = Z.of_nat k.
Proof. exact euclid_shape. Qed.

(* maximally even: the rhythm is a rotation of the Bresenham pattern floor((i+1)k/n) - floor(ik/n), and the checker
   "any two cyclic windows of equal length differ by at most one onset" accepts it *)
Theorem C10_euclid_even : forall n k, (1 <= n <= 64)%nat -> (k <= n)%nat ->
  even_windows (euclid n k) = true /\ exists r, (r < n)%nat /\ rotate r (euclid n k) = bresenham n k.
Proof. exact euclid_even. Qed.
Print Assumptions C10_euclid_shape.
Print Assumptions C10_euclid_even.

(* ARPEGGIATOR ORDERS (transcription of PArpeggiator.restart: Pat/Ref.v arp_offsets / arp_select), chords of 1..8
   notes: every order is the documented arrangement of the sorted chord *)
Theorem C10_arp_arrangement : forall s, (1 <= List.length s <= 8)%nat ->
  arp_select ARP_UP s = s /\ arp_select ARP_DOWN s = rev s /\
  arp_select ARP_CONVERGE s = converge_doc s /\ arp_select ARP_DIVERGE s = diverge_doc s /\
  arp_select ARP_UPDOWN s = updown_doc s /\ arp_select ARP_DOWNUP s = downup_doc s.
Proof. exact arp_orders. Qed.

(* and UP DOWN CONVERGE DIVERGE play every note of the chord exactly once *)
Theorem C10_arp_permutation : forall notes, (1 <= List.length notes <= 8)%nat ->
  Permutation (arp_notes ARP_UP notes) notes /\ Permutation (arp_notes ARP_DOWN notes) notes /\
  Permutation (arp_notes ARP_CONVERGE notes) notes /\ Permutation (arp_notes ARP_DIVERGE notes) notes.
Proof. exact arp_permutation. Qed.
Print Assumptions C10_arp_arrangement.
Print Assumptions C10_arp_permutation.

(* OPEN -> closed in Props/C10More.v.  The classes that were listed here — PLoop PPingPong PSubsequence PReverse
   PPadToMultiple PConcatenate PCollapse PNoRepeats PCounter PImpulse PWrap PReset — now have their closed-form theorems
   over arbitrary operands there (C10_loop C10_pingpong C10_subsequence C10_reverse C10_pad_to_multiple
   C10_concatenate C10_collapse C10_norepeats C10_counter C10_impulse C10_wrap C10_reset); nothing is left on the list.
   The theorem below only records that closed forms and model agree on one concrete instance of each. *)
Definition outs (fuel n : nat) (e : pexpr) : list (outcome val) :=
  match init Val.binop 100 fuel e with
  | Yield p => fst (outputs Val.binop 100 fuel n p)
  | o => [ocast o]
  end.
Definition ints (l : list Z) : list earg := map (fun z => EV (VInt z)) l.
Definition seq_ (l : list Z) (rep : Z) : pexpr := ECall CSequence [EL (ints l); EV (VInt rep)].
Definition yields (l : list val) : list (outcome val) := map Yield l ++ [Stop].

Theorem C10_remaining_classes_instances :
  outs 40 7 (seq_ [1; 2; 3] 2) = yields (ref_sequence (map zi [1; 2; 3]) 2) /\
  outs 40 7 (ECall CLoop [EP (seq_ [1; 2; 3] 1); EV (VInt 2)]) = yields (ref_loop 2 (map zi [1; 2; 3])) /\
  outs 40 10 (ECall CPingPong [EP (seq_ [1; 4; 9] 1); EV (VInt 2)]) = yields (ref_pingpong 2 (map zi [1; 4; 9])) /\
  outs 40 2 (ECall CPingPong [EP (seq_ [5] 1); EV (VInt 2)]) = yields (ref_pingpong 2 (map zi [5])) /\
  outs 40 3 (ECall CSubsequence [EP (seq_ [1; 2; 3; 4] 1); EV (VInt 1); EV (VInt 2)]) = yields (ref_subsequence 1 2 (map zi [1; 2; 3; 4])) /\
  outs 40 4 (ECall CReverse [EP (seq_ [1; 2; 3] 1)]) = yields (ref_reverse (map zi [1; 2; 3])) /\
  outs 40 9 (ECall CPadToMultiple [EP (seq_ [1; 2; 3] 1); EV (VInt 4); EV (VInt 2)]) = yields (ref_pad_to_multiple 4 2 (map zi [1; 2; 3])) /\
  outs 40 5 (ECall CConcatenate [EL [EP (seq_ [1; 2] 1); EP (seq_ [3; 4] 1)]]) = yields (ref_concatenate [map zi [1; 2]; map zi [3; 4]]) /\
  outs 40 3 (ECall CCollapse [EP (ECall CSequence [EL [EV (VInt 1); EV VNone; EV (VInt 2)]; EV (VInt 1)])]) = yields (ref_collapse [zi 1; VNone; zi 2]) /\
  outs 40 4 (ECall CNoRepeats [EP (seq_ [1; 1; 2; 2; 1] 1)]) = yields (ref_norepeats_from (VInt MAXSIZE) (map zi [1; 1; 2; 2; 1])) /\
  outs 40 6 (ECall CCounter [EP (seq_ [1; 0; 0; 1; 1] 1)]) = yields (ref_counter_from 0 0 [1; 0; 0; 1; 1]) /\
  outs 40 5 (ECall CImpulse [EV (VInt 3)]) = map (fun i => Yield (ref_impulse 3 i)) (seq 0 5) /\
  outs 40 4 (ECall CWrap [EP (seq_ [5; 8; 11] 1); EV (VInt 0); EV (VInt 10)]) = yields (map (fun v => zi (ref_wrap1 0 10 v)) [5; 8; 11]).
Proof. repeat split; vm_compute; reflexivity. Qed.

(* non-vacuity: concrete objects meet the hypotheses, and the conclusions are the expected lists *)
Example C10_series_nonvacuous :
  outs 10 5 (ECall CSeries [EV (VInt 3); EV (VInt (-2)); EV (VInt 4)]) = yields (ref_series 3 (-2) 4) /\
  ref_series 3 (-2) 4 = map zi [3; 1; -1; -3].
Proof. split; vm_compute; reflexivity. Qed.

Example C10_composition_nonvacuous :
  (* PSkipIf(PStutter(PSeries(0, 3, 3), 2), PChanged(PStutter(PRange(0, 10, 1), 3))) *)
  let e := ECall CSkipIf [EP (ECall CStutter [EP (ECall CSeries [EV (VInt 0); EV (VInt 3); EV (VInt 3)]); EV (VInt 2)]);
                          EP (ECall CChanged [EP (ECall CStutter [EP (ECall CRange [EV (VInt 0); EV (VInt 10); EV (VInt 1)]); EV (VInt 3)])])] in
  ref_eval 4 e = Some (Fin [zi 0; zi 0; VNone; zi 3; zi 6; VNone]) /\
  outs 20 7 e = yields [zi 0; zi 0; VNone; zi 3; zi 6; VNone].
Proof. split; vm_compute; reflexivity. Qed.

Example C10_stutter_nonvacuous :
  (* an endless operand: PStutter(PConstant ...) is covered through every finite prefix *)
  ref_eval 2 (ECall CStutter [EP (ECall CConstant [EV (VInt 7)]); EV (VInt 2)]) <> None /\
  outs 20 3 (ECall CStutter [EP (ECall CConstant [EV (VInt 7)]); EV (VInt 2)]) = [Yield (zi 7); Yield (zi 7); Yield (zi 7)].
Proof. split; [vm_compute; discriminate | vm_compute; reflexivity]. Qed.

Example C10_euclid_nonvacuous :
  euclid 8 5 = [1; 0; 1; 1; 0; 1; 1; 0] /\ euclid 7 4 = [1; 0; 1; 0; 1; 0; 1] /\ bresenham 8 5 = [0; 1; 0; 1; 1; 0; 1; 1].
Proof. repeat split; vm_compute; reflexivity. Qed.

Example C10_arp_nonvacuous :
  arp_notes ARP_CONVERGE [4; 0; 3; 1; 2] = [0; 4; 1; 3; 2] /\ arp_notes ARP_DIVERGE [0; 1; 2; 3] = [1; 2; 0; 3] /\
  arp_notes ARP_ROOTBOUNCE [0; 1; 2; 3] = [0; 1; 0; 2; 0; 3; 0; 2; 0; 1; 0].
Proof. repeat split; vm_compute; reflexivity. Qed.

(* ------------------------------------------------------------------------------------------------------------
   SESSIONS: several pattern objects alive in one process, constructed / stepped / reset in interleaved order.
   "Exactly the sequence its documentation defines" is a function of the object's OWN constructor arguments: in the
   model, __init__ (init), next() (step) and reset() take the program text / the object and nothing else - there is no
   process-global state - so, for EVERY session (list of  new <expression> | next i | reset i  in any order), the
   outputs of the i-th object constructed are those of the same expression built and driven alone on the operations
   the session applies to it (Pat/Session.v, lemmas Pat/SessionProofs.v).  The implementation is held to this by the
   session strata of harness/c10.py: every program of a session is judged by its own reference list. *)
From Isobar Require Import Pat.Session Pat.SessionProofs.

Section Sessions.
  Variable binop : op -> val -> val -> outcome val.
  Variable LMAX f : nat.
  Definition pat_build (e : pexpr) : option pat := match init binop LMAX f e with Yield p => Some p | _ => None end.
  Definition pat_reset (p : pat) : pat := match reset binop LMAX f p with Yield p' => p' | _ => p end.

  Theorem C10_session_isolation : forall (ops : list (sess_op pexpr)) i,
    outputs_of _ i (sess_run pexpr pat _ pat_build (step binop LMAX f) pat_reset [] ops) =
    match sess_prog _ i ops with
    | Some e => match pat_build e with
                | Some p => alone pat _ (step binop LMAX f) pat_reset p (sess_proj _ i 0 ops)
                | None => []
                end
    | None => []
    end.
  Proof. exact (session_isolation pexpr pat _ pat_build (step binop LMAX f) pat_reset). Qed.

  (* in particular: neither the other programs of the session nor the interleaving matter *)
  Theorem C10_session_independent : forall (ops ops' : list (sess_op pexpr)) i,
    sess_prog _ i ops = sess_prog _ i ops' -> sess_proj _ i 0 ops = sess_proj _ i 0 ops' ->
    outputs_of _ i (sess_run pexpr pat _ pat_build (step binop LMAX f) pat_reset [] ops) =
    outputs_of _ i (sess_run pexpr pat _ pat_build (step binop LMAX f) pat_reset [] ops').
  Proof. exact (session_independent pexpr pat _ pat_build (step binop LMAX f) pat_reset). Qed.
End Sessions.
Print Assumptions C10_session_isolation.

(* the same for arpeggiators (type, chord, loop) - the class the seeded change C10-f is about *)
Theorem C10_arp_session_isolation : forall (ops : list (sess_op (Z * list Z * bool))) i,
  outputs_of _ i (sess_run _ arp_obj _ arp_build arp_next arp_reset [] ops) =
  match sess_prog _ i ops with
  | Some p => match arp_build p with Some x => alone arp_obj _ arp_next arp_reset x (sess_proj _ i 0 ops) | None => [] end
  | None => []
  end.
Proof. exact (session_isolation _ arp_obj _ arp_build arp_next arp_reset). Qed.
Print Assumptions C10_arp_session_isolation.

(* ARPEGGIATOR WITH `loop` (restart() with its looping variants: Pat/Session.v arp_offsets_loop).
   Without loop the arrangement is the one-shot arrangement of C10_arp_arrangement; `loop` changes UPDOWN, DOWNUP and
   ROOTBOUNCE only *)
Theorem C10_arp_loop_flag : forall ty n,
  arp_offsets_loop ty n false = arp_offsets ty n /\
  (ty <> ARP_UPDOWN -> ty <> ARP_DOWNUP -> ty <> ARP_ROOTBOUNCE -> forall loop, arp_offsets_loop ty n loop = arp_offsets ty n).
Proof. intros ty n. split; [apply arp_offsets_noloop|intros H1 H2 H3 loop; apply arp_offsets_loop_same; assumption]. Qed.

(* chords of 2..8 notes, looping: UPDOWN = up, then down without either turning point (DOWNUP its mirror image), so that,
   played round and round, no note is followed by itself, also not across the joint; ROOTBOUNCE (>= 3 notes) alternates
   root, note, root, note ... round the joint too (complete enumeration; the bound is the property's own domain) *)
Theorem C10_arp_loop_arrangement : forall n, (2 <= n <= 8)%nat -> loop_doc_ok n = true.
Proof. exact arp_loop_doc. Qed.

(* a looping arpeggiator in working order (arp_cyclic: notes, the arrangement restart() computes, entries that index the
   chord) repeats its arrangement for ever: call j yields the note selected by entry j mod L - for ALL j *)
Theorem C10_arp_loop_periodic : forall x, arp_cyclic x = true -> forall n j, (j < n)%nat ->
  nth_error (arp_outputs n (with_pos x 0)) j =
  Some (arp_sel x (Z.to_nat (Z.of_nat j mod Z.of_nat (List.length (ao_offsets x))))).
Proof. exact arp_loop_periodic. Qed.

(* and every looping arpeggiator the constructor builds over a chord of 1..8 notes - any note values, all 9
   deterministic orders - is in working order *)
Theorem C10_arp_built_cyclic : forall ty notes x, In ty ARP_TYPES -> (1 <= List.length notes <= 8)%nat ->
  arp_build (ty, notes, true) = Some x -> arp_cyclic x = true.
Proof. exact arp_built_cyclic. Qed.
Print Assumptions C10_arp_loop_arrangement.
Print Assumptions C10_arp_loop_periodic.
Print Assumptions C10_arp_built_cyclic.

(* non-vacuity: a looping and a one-shot UPDOWN arpeggiator over chords of the same size in one session, constructed
   and stepped alternately: each plays its own arrangement (the looping one joins its cycles without a double note) *)
Example C10_session_nonvacuous :
  let a : Z * list Z * bool := (ARP_UPDOWN, [0; 4; 7], true) in
  let b : Z * list Z * bool := (ARP_UPDOWN, [2; 5; 9], false) in
  let ops := [SsNew a; SsNext 0; SsNew b; SsNext 1; SsNext 0; SsNext 1;
              SsNext 0; SsNext 1; SsNext 0; SsNext 1; SsNext 0; SsNext 1; SsNext 0; SsNext 1]%nat in
  let r := sess_run _ arp_obj _ arp_build arp_next arp_reset [] ops in
  outputs_of _ 0%nat r = map (fun z => Yield (VInt z)) [0; 4; 7; 4; 0; 4] /\
  outputs_of _ 1%nat r = map (fun z => Yield (VInt z)) [2; 5; 9; 5; 2] ++ [Stop] /\
  arp_offsets_loop ARP_ROOTBOUNCE 4 true = Some [0; 1; 0; 2; 0; 3; 0; 2] /\
  arp_offsets_loop ARP_ROOTBOUNCE 4 false = Some [0; 1; 0; 2; 0; 3; 0; 2; 0; 1; 0].
Proof. repeat split; vm_compute; reflexivity. Qed.

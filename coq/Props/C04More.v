(* Props/C04More.v — property C04, the classes Props/C04.v left open (see the comment above C04_reset_erases_step_leaf): lemmas in
   Pat/ResetProofs2.v.

   xpat s p   the extended reset fragment.  s = false: every class of rpat (Props/C04.v), now also with tuple-valued parameters
              holding patterns to any depth (Pattern.value resolves them; since the repair C04-reset-tuples Pattern.reset
              rewinds them) and list- / dict-valued parameters, plus PSequence with pattern items (also inside tuples),
              PConcatenate, PRound (pattern arguments and keyword arguments), PIndexOf, PArrayIndex (over a value, a pattern,
              or a literal list with pattern items), PDict, PDictKey, and PReset(p, trigger) for ANY p of the strict part;
              nested to any depth.  s = true: the strict part (PPingPong / PReverse only over inputs of the fragment;
              a list / dict in value position holds items of the fragment).
   binop (operator semantics) is arbitrary; f, f' are recursion fuels; run, reset, step as in Props/C04.v. *)
From Isobar Require Import Base.Prelude Pat.Val Pat.Syntax Pat.Step Pat.StepProofs Pat.IterProofs Pat.ResetProofs Pat.ResetProofs2.
From Coq Require Import String QArith.
Open Scope Z_scope.

Section AnyOperators.
  Variable binop : op -> val -> val -> outcome val.
  Variable LMAX : nat.

  (* the full statement quoted above C04_reset_erases_step_leaf, for the extended fragment: reset() erases whatever one
     next() changed - in the object, in every pattern nested inside it, in the items of its lists and dicts *)
  Theorem C04_more_reset_erases_step : forall s f f' p,
    xpat s p -> reset binop LMAX f (snd (step binop LMAX f' p)) = reset binop LMAX f p.
  Proof. exact (reset_step2 binop LMAX). Qed.

  (* reset() erases a reset(): whatever reset() (at any fuel) returned, resetting that gives what resetting the
     original gives - reset . reset = reset, for every pattern of the strict part.  This is what PReset needs. *)
  Theorem C04_more_reset_erases_reset : forall f f' p q,
    xpat true p -> reset binop LMAX f' p = Yield q -> reset binop LMAX f q = reset binop LMAX f p.
  Proof. exact (reset_reset2 binop LMAX). Qed.

  (* the fragment is closed under next(); the strict part also under reset() *)
  Theorem C04_more_fragment_closed : forall s f' p, xpat s p -> xpat s (snd (step binop LMAX f' p)).
  Proof. exact (xpat_step_closed binop LMAX). Qed.
  Theorem C04_more_fragment_closed_reset : forall f' p q, xpat true p -> reset binop LMAX f' p = Yield q -> xpat true q.
  Proof. exact (xpat_reset_closed binop LMAX). Qed.

  (* it contains the fragment of Props/C04.v *)
  Theorem C04_more_extends : forall p, rpat p -> xpat false p.
  Proof. exact rpat_xpat. Qed.

  (* after ANY number k of next() calls reset() gives what it gives on the untouched object *)
  Theorem C04_more_reset_any_history : forall s f f' k p0,
    xpat s p0 -> reset binop LMAX f (run binop LMAX f' k p0) = reset binop LMAX f p0.
  Proof. intros s f f' k p0. exact (reset_run2 binop LMAX s f f' k p0). Qed.

  (* and, on the strict part, after any interleaving of next() and reset() calls (a reset() that raises leaves the object) *)
  Theorem C04_more_reset_any_history_with_resets : forall f f' h p0,
    xpat true p0 -> reset binop LMAX f (hrun binop LMAX f' h p0) = reset binop LMAX f p0.
  Proof. intros f f' h p0. exact (reset_hrun binop LMAX f f' h p0). Qed.
End AnyOperators.
Print Assumptions C04_more_reset_erases_step.
Print Assumptions C04_more_reset_erases_reset.
Print Assumptions C04_more_fragment_closed.
Print Assumptions C04_more_fragment_closed_reset.
Print Assumptions C04_more_extends.
Print Assumptions C04_more_reset_any_history.
Print Assumptions C04_more_reset_any_history_with_resets.

(* membership in the fragment, by shape *)
Ltac xm :=
  cbv beta; cbn [snd];
  match goal with
  | |- xarg _ (AV _) => apply xarg_val
  | |- xarg _ (AT _) => apply XA_tup; xm
  | |- xarg _ (AL _) => apply XA_list; intros _; xm
  | |- xarg _ (AP _) => apply XA_pat; xm
  | |- Forall _ [] => constructor
  | |- Forall _ (_ :: _) => constructor; [xm|xm]
  | |- xpat _ (PArrayIndex (AL _) _ _) => apply XP_arrayindex_list; xm
  | |- xpat _ _ => constructor; xm
  | |- _ = _ -> _ => intros _; xm
  | |- _ => idtac
  end.

Definition seq_ (l : list Z) (rep : Z) : pat := PSequence (AL (map (fun z => AV (VInt z)) l)) (AV (VInt rep)) 0 0.
Definition ser (a n : Z) : pat := PSeries (VInt a) (VInt a) (AV (VInt 1)) (AV (VInt n)) 0.

(* PReset over a NESTED pattern: PStutter(PSequence + PSeries, 2) restarted by the fourth trigger value *)
Definition ex_reset : pat :=
  PReset (AP (PStutter (AP (PBinOp OAdd (AP (seq_ [1; 2; 3] 2)) (AP (ser 10 9)))) (AV (VInt 2)) (VInt 0) 0 (VInt 0)))
         (AP (seq_ [0; 0; 0; 1; 0; 0; 0] 1)).
Example C04_more_preset_nonvacuous :
  xpat false ex_reset /\ reset Val.binop 100 30 ex_reset = Yield ex_reset /\
  run Val.binop 100 30 5 ex_reset <> ex_reset /\
  reset Val.binop 100 30 (run Val.binop 100 30 5 ex_reset) = Yield ex_reset /\
  fst (outputs Val.binop 100 30 8 ex_reset) =
    map (fun z => Yield (VInt z)) [11; 11; 13; 11; 11; 13; 13] ++ [Stop].
Proof.
  split; [unfold ex_reset, seq_, ser; cbn [map]; xm|].
  split; [vm_compute; reflexivity|]. split; [vm_compute; discriminate|]. split; vm_compute; reflexivity.
Qed.

(* PSequence with pattern items, a scalar and a tuple of scalars; PDict; PDictKey over it; PConcatenate;
   PArrayIndex over a literal list with pattern items; PRound with a pattern-valued number of digits; PIndexOf *)
Definition ex_seq : pat :=
  PSequence (AL [AP (seq_ [1; 2] 1); AV (VInt 5); AP (ser 0 3); AT [AV (VInt 7); AV (VInt 8)]]) (AV (VInt 2)) 0 0.
Definition ex_dict : pat := PDict (AD [("a"%string, AP (seq_ [1; 2; 3] 1)); ("b"%string, AV (VInt 9)); ("c"%string, AP (ser 0 5))]).
Definition ex_dictkey : pat := PDictKey (AP ex_dict) (AP (PSequence (AL [AV (VStr "a"); AV (VStr "c")]) (AV (VInt 2)) 0 0)).
Definition ex_concat : pat := PConcatenate (AL [AP (seq_ [1; 2] 1); AP (ser 7 2); AP (seq_ [3] 2)]) 0.
Definition ex_arrayindex : pat :=
  PArrayIndex (AL [AP (ser 0 9); AV (VInt 9); AP (seq_ [4; 5] 3)]) (AP (seq_ [0; 1; 0; 2; 2; 0] 1)) false.
Definition ex_round : pat := PMap (AP (PBinOp ODiv (AP (ser 5 4)) (AV (VInt 2)))) FRound [AP (seq_ [0] 9)] [].
Definition ex_indexof : pat := PIndexOf (AL [AV (VInt 4); AV (VInt 5)]) (AP (seq_ [5; 4; 6] 1)).

Definition rewinds_after (k : nat) (p : pat) : Prop :=
  reset Val.binop 100 30 p = Yield p /\ run Val.binop 100 30 k p <> p /\ reset Val.binop 100 30 (run Val.binop 100 30 k p) = Yield p.

Example C04_more_classes_nonvacuous :
  (xpat true ex_seq /\ rewinds_after 3 ex_seq) /\ (xpat true ex_dict /\ rewinds_after 2 ex_dict) /\
  (xpat true ex_dictkey /\ rewinds_after 2 ex_dictkey) /\ (xpat true ex_concat /\ rewinds_after 4 ex_concat) /\
  (xpat true ex_arrayindex /\ rewinds_after 4 ex_arrayindex) /\ (xpat true ex_round /\ rewinds_after 2 ex_round) /\
  (xpat true ex_indexof /\ rewinds_after 2 ex_indexof) /\
  fst (outputs Val.binop 100 30 9 ex_seq) =
    [Yield (VInt 1); Yield (VInt 5); Yield (VInt 0); Yield (VTup [VInt 7; VInt 8]); Yield (VInt 2); Yield (VInt 5); Yield (VInt 1);
     Yield (VTup [VInt 7; VInt 8]); Stop] /\
  fst (outputs Val.binop 100 30 7 ex_concat) = map (fun z => Yield (VInt z)) [1; 2; 7; 8; 3; 3] ++ [Stop] /\
  fst (outputs Val.binop 100 30 7 ex_arrayindex) = map (fun z => Yield (VInt z)) [0; 9; 1; 4; 5; 2] ++ [Stop] /\
  fst (outputs Val.binop 100 30 4 ex_dictkey) = [Yield (VInt 1); Yield (VInt 1); Yield (VInt 3); Stop].
Proof.
  unfold rewinds_after.
  repeat match goal with |- _ /\ _ => split end;
    try (unfold ex_seq, ex_dict, ex_dictkey, ex_dict, ex_concat, ex_arrayindex, ex_round, ex_indexof, seq_, ser; cbn [map]; xm; fail);
    try (vm_compute; reflexivity); vm_compute; discriminate.
Qed.

(* PReset over one of those, restarted in the middle; an interleaving of next() and reset() calls *)
Definition ex_reset2 : pat := PReset (AP ex_concat) (AP (seq_ [0; 0; 0; 1; 0; 0] 1)).
Example C04_more_preset_nested_nonvacuous :
  xpat true ex_reset2 /\
  fst (outputs Val.binop 100 30 7 ex_reset2) = map (fun z => Yield (VInt z)) [1; 2; 7; 1; 2; 7] ++ [Stop] /\
  reset Val.binop 100 30 (hrun Val.binop 100 30 [HNext; HNext; HReset; HNext; HNext; HNext; HNext] ex_reset2) = Yield ex_reset2.
Proof.
  split; [unfold ex_reset2, ex_concat, seq_, ser; cbn [map]; xm|]. split; vm_compute; reflexivity.
Qed.

(* A PATTERN STORED INSIDE A TUPLE IS REWOUND.  Pattern.value(tuple) advances the patterns inside a tuple; until the repair
   C04-reset-tuples (findings/C04-reset-tuples.diff) Pattern.reset did not walk tuples, so PSequence([(PSeries(0, 1), 7)], 3)
   after next, next, reset continued with (2, 7) where a new instance gives (0, 7).  Pattern.reset now resets whatever
   Pattern.value would advance, Step.reset_value transcribes it, and tuples holding patterns - to any depth - are part of the
   fragment (constructor XA_tup), so C04_more_reset_erases_step / _erases_reset / _any_history cover them. *)
Theorem C04_more_tuple_in_fragment : forall s l, Forall (xarg s) l -> xarg s (AT l).
Proof. exact XA_tup. Qed.

Theorem C04_more_tuple_item_rewound : forall binop LMAX s f f' k l rep rc pos,
  Forall (xarg s) l -> xarg s rep ->
  reset binop LMAX f (run binop LMAX f' k (PSequence (AL l) rep rc pos)) = reset binop LMAX f (PSequence (AL l) rep rc pos).
Proof. intros. apply C04_more_reset_any_history with (s := s). apply XP_seq; assumption. Qed.
Print Assumptions C04_more_tuple_item_rewound.

Definition ex_tuple : pat := PSequence (AL [AT [AP (ser 0 9); AV (VInt 7)]]) (AV (VInt 3)) 0 0.
Definition ex_tuple_nested : pat :=
  PSequence (AL [AV (VInt 1); AT [AT [AP (ser 0 9); AV (VInt 7)]; AP (seq_ [4; 5] 2)]]) (AV (VInt 3)) 0 0.
Example C04_more_tuple_pattern_rewound :
  xpat true ex_tuple /\ xpat true ex_tuple_nested /\
  reset Val.binop 100 30 ex_tuple = Yield ex_tuple /\
  run Val.binop 100 30 2 ex_tuple <> ex_tuple /\
  reset Val.binop 100 30 (run Val.binop 100 30 2 ex_tuple) = Yield ex_tuple /\
  reset Val.binop 100 30 (run Val.binop 100 30 3 ex_tuple_nested) = Yield ex_tuple_nested /\
  fst (outputs Val.binop 100 30 3 ex_tuple) = [Yield (VTup [VInt 0; VInt 7]); Yield (VTup [VInt 1; VInt 7]); Yield (VTup [VInt 2; VInt 7])] /\
  fst (outputs Val.binop 100 30 4 ex_tuple_nested) =
    [Yield (VInt 1); Yield (VTup [VTup [VInt 0; VInt 7]; VInt 4]); Yield (VInt 1); Yield (VTup [VTup [VInt 1; VInt 7]; VInt 5])].
Proof.
  split; [unfold ex_tuple, ser; xm|]. split; [unfold ex_tuple_nested, seq_, ser; cbn [map]; xm|].
  split; [vm_compute; reflexivity|]. split; [vm_compute; discriminate|]. repeat split; vm_compute; reflexivity.
Qed.

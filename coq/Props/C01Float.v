(* Props/C01Float.v — property C01, float layer: what the binary64 arithmetic of Timeline.tick / Track.tick does.
   The statements are about Coq terms GENERATED FROM THE SOURCE TEXT of isobar/timelines/{timeline,track}.py and
   isobar/util.py on every run (harness/gen_tables_time.py -> Generated/TablesTime.v: src_timeline_step, src_track_step,
   src_track_due ...; one correctly rounded binary64 operation per Python float operation, Flocq's round radix2
   (FLT_exp (-1074) 53) ZnearestE); lemmas in Base/FloatGrid.v, Base/FloatDue.v, tie-in by reflexivity in
   Base/FloatGridSrc.v, Base/FloatDueSrc.v.  These theorems depend on the axioms of Coq's classical real numbers
   (standard library), as Print Assumptions shows; nothing else. *)
From Coq Require Import ZArith Reals List.
From Flocq Require Import Core.
From Isobar Require Import Base.FloatGrid Base.FloatRound8 Generated.TablesTime Base.FloatGridSrc Base.FloatDue Base.FloatDueSrc.
Open Scope R_scope.

(* No drift: at a constant resolution the float time of the timeline after n ticks IS the correctly rounded n / tpb,
   for every resolution up to 2^20 ticks per beat and every run length up to 2^32 ticks. *)
Theorem C01_float_timeline_time : forall (tpb : Z) (n : nat),
  (1 <= tpb <= 2^20)%Z -> (Z.of_nat n <= 2^32)%Z ->
  fst (Nat.iter n (src_timeline_step tpb) (0, src_tick_grid_init)) = RN (IZR (Z.of_nat n) / IZR tpb).
Proof. exact src_timeline_time_exact. Qed.
Print Assumptions C01_float_timeline_time.

(* ... and so is the time of a track, which therefore stays in step with the timeline *)
Theorem C01_float_track_time : forall (tpb : Z) (n : nat),
  (1 <= tpb <= 2^20)%Z -> (Z.of_nat n <= 2^32)%Z ->
  fst (Nat.iter n (src_track_step tpb) (0, src_tick_grid_init)) = RN (IZR (Z.of_nat n) / IZR tpb).
Proof. exact src_track_time_exact. Qed.
Print Assumptions C01_float_track_time.

(* After a change of resolution at ANY time t0 (off the new grid or not) every tick lasts one new tick: after m ticks
   the clock is t0 + m / tpb2 with two roundings, independent of m. *)
Theorem C01_float_retick : forall (tpb2 g : Z) (t0 o : R) (m : nat),
  (1 <= tpb2 <= 2^20)%Z -> g <> tpb2 -> generic_format radix2 fexp64 t0 -> 0 <= t0 ->
  (1 <= m)%nat -> IZR tpb2 * t0 + IZR (Z.of_nat m) <= 1073741824 ->
  Nat.iter m (src_timeline_step tpb2) (t0, (o, Some g)) = (RN (t0 + RN (IZR (Z.of_nat m) / IZR tpb2)), (t0, Some tpb2)).
Proof. exact src_timeline_retick_exact. Qed.
Print Assumptions C01_float_retick.

(* The due test of Track.tick as the source writes it decides exactly like the comparison of the exact times
   (k ticks against a units of 1/U beat), at EVERY resolution, whenever both floats are within 1/(6*10^8) of the
   exact values and the grid has at most 10^8/2 units per beat. *)
Theorem C01_float_due_is_exact : forall (U tpb tau k a : Z) (t x E : R),
  (0 < tpb)%Z -> (0 < tau)%Z -> U = (tau * tpb)%Z -> (2 * U <= 10 ^ 8)%Z -> 6 * 10 ^ 8 * E <= 1 ->
  Rabs (t - IZR k / IZR tpb) <= E -> Rabs (x - IZR a / IZR U) <= E ->
  src_track_due t x = exact_due (k * tau) a.
Proof. exact src_track_due_exact. Qed.
Print Assumptions C01_float_due_is_exact.

(* The whole run: with the source's own clock expression and the source's own due test, after every n ticks the
   float computation has pulled exactly the events the exact-arithmetic loop of the model has pulled (so every event
   has the same onset tick in both), for every admissible grid setting (error budget stated in [admissible']). *)
Theorem C01_float_run_is_exact : forall (tpb tau s : Z) (Us : list Z) (T : R) (n : nat),
  admissible' tpb tau s Us T -> (tpb <= 2 ^ 20)%Z -> (Z.of_nat n <= 2 ^ 32)%Z -> IZR (Z.of_nat n) <= T * IZR tpb ->
  length (snd (fl_run src_track_due (fun m => fst (Nat.iter m (src_track_step tpb) (0, src_tick_grid_init))) n
                      (RN (IZR s / IZR tpb), map (Dof (tau * tpb)) Us)))
  = length (snd (ex_run tau n ((s * tau)%Z, Us))).
Proof. exact src_consumed_exact. Qed.
Print Assumptions C01_float_run_is_exact.

(* Why the code was changed (repair 9bb39e5): the former test round(t, 8) >= round(x, 8) is NOT the exact comparison
   when 512 divides ticks_per_beat - two reals within 2^-60 of the grid point 1/512 (exactly due) whose 8-decimal roundings differ, so the old test said not due. *)
Theorem C01_float_old_due_test_refuted :
  let t := 1 / 512 in let x := 1 / 512 + / 1152921504606846976 in let E := / 1152921504606846976 in
  Rabs (t - IZR 1 / IZR 512) <= E /\ Rabs (x - IZR 1 / IZR 512) <= E /\ 2 * 10 ^ 8 * IZR 1 * E < 1 /\
  (512 | 2 * 10 ^ 8 * 1)%Z /\ (1 <= 1 * 1)%Z /\
  units8 t = 195312%Z /\ units8 x = 195313%Z /\ ~ (py_round8 x <= py_round8 t).
Proof. exact tie_sharp_512. Qed.
Print Assumptions C01_float_old_due_test_refuted.

(* non-vacuity: the hypotheses of the run theorem are met at 512 and 2560 ticks per beat (where the old test failed) *)
Example C01_float_nonvacuous_512 : admissible' 512 1 0 (102 :: 1 :: 51 :: 102 :: 1 :: 51 :: nil)%Z 1000.
Proof. exact admissible'_512. Qed.
Example C01_float_nonvacuous_2560 : admissible' 2560 1 0 (1 :: 1 :: 1 :: 1 :: 1 :: 1 :: 1 :: 1 :: nil)%Z 1000.
Proof. exact admissible'_2560. Qed.

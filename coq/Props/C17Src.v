(* Props/C17Src.v — property C17 (a failing track cannot take the performance down), restated for the track loop of
   Timeline.tick as translated from the SOURCE TEXT: `try: track.tick() except Exception: if self.ignore_exceptions: ... else: raise`
   (Generated/TablesTrack.v src_timeline_tick_loop3 / src_timeline_tick; relation to the model: Sched/ModelSrcTick.v; trusted
   glue: Sched/SrcGlue.v obj_tick; docs/TRANSLATOR3.md). *)
From Isobar Require Import Base.Prelude Sched.Model Sched.TimeProofs Sched.MergeProofs Sched.FaultProofs Sched.TickFrame Sched.TransitProofs
  Sched.SrcGlue Generated.TablesTrack Sched.ModelSrc Sched.ModelSrcTick Props.C17.
Local Open Scope Z_scope.

Theorem C17_src_contained : forall cfg tl, wf tl -> no_zombie (tracks tl) = true ->
  ignore_exc cfg = true -> snd (src_timeline_tick cfg tl) <> RException.
Proof. intros cfg tl W NZ H. rewrite (src_timeline_tick_is cfg tl W NZ). apply C17_contained. exact H. Qed.
Print Assumptions C17_src_contained.

(* the turn of a track whose tick() raises, tolerant mode: the loop goes on, the track is unscheduled, its pending releases
   are handed to the timeline, nobody else is touched *)
Theorem C17_src_failing_track_removed : forall cfg tl x tr tr1 c n1 calls, wf tl -> no_zombie (tracks tl) = true ->
  ignore_exc cfg = true -> find_track (t_id x) (tracks tl) = Some tr ->
  track_tick_a cfg (now tl) tr (dev_calls tl) = (tr1, c, n1, TRaise) ->
  let '(tl', calls', res) := src_timeline_tick_loop3 cfg (tl, calls, ROk) x in
  res = ROk /\ calls' = calls ++ c
  /\ find_track (t_id x) (tracks tl') = None
  /\ (forall id', id' <> t_id x -> find_track id' (tracks tl') = find_track id' (tracks tl))
  /\ actions tl' = actions tl ++ release_actions tr1
  /\ now tl' = now tl.
Proof.
  intros cfg tl x tr tr1 c n1 calls W NZ H F A. rewrite (src_loop3_is cfg tl calls x W NZ). unfold turn_result.
  pose proof (C17_failing_track_removed cfg tl (t_id x) tr tr1 c n1 H F (proj1 W) A) as T.
  destruct (tick_one cfg tl (t_id x)) as [[tl' c'] ab]. destruct T as [T1 [T2 T3]]. subst. split; [reflexivity|]. split; [reflexivity|exact T3].
Qed.
Print Assumptions C17_src_failing_track_removed.

(* intolerant mode: the `raise` of the handler aborts the loop - the tracks behind the failing one take no turn, the failing
   track stays scheduled, the tick ends with the exception *)
Theorem C17_src_propagates : forall cfg tl x r tr tr1 c n1 calls, wf tl -> no_zombie (tracks tl) = true ->
  ignore_exc cfg = false -> find_track (t_id x) (tracks tl) = Some tr ->
  track_tick_a cfg (now tl) tr (dev_calls tl) = (tr1, c, n1, TRaise) ->
  fold_left (src_timeline_tick_loop3 cfg) (x :: r) (tl, calls, ROk) = (set_dev (upd_track tl tr1) n1, calls ++ c, RException).
Proof.
  intros cfg tl x r tr tr1 c n1 calls W NZ H F A. rewrite (src_phase_tracks_is cfg (x :: r) tl calls W NZ).
  apply (C17_propagates cfg tl (t_id x) (map t_id r) tr tr1 c n1 calls H F A).
Qed.
Print Assumptions C17_src_propagates.

Theorem C17_src_clock_tick : forall cfg tl, wf tl -> no_zombie (tracks tl) = true ->
  let '(tl', _, res) := src_timeline_tick cfg tl in now tl' = match res with ROk => now tl + tau cfg | _ => now tl end.
Proof. intros cfg tl W NZ. rewrite (src_timeline_tick_is cfg tl W NZ). apply C17_clock_tick. Qed.
Print Assumptions C17_src_clock_tick.

(* Props/C10Src.v — property C10 for the method bodies GENERATED FROM THE SOURCE TEXT of isobar/pattern/*.py.

   harness/gen_tables_step.py translates, on every run, the bodies of __next__ / reset / __init__ of the pattern classes
   of the repository under test into Gallina definitions (Generated/TablesStep.v: src_PSeries_next ...); Pat/StepSrc.v
   proves that each of them is the corresponding clause of the hand-written engine Pat/Step.v.  The theorems below
   restate closed forms of Props/C10.v about those generated definitions:

     SrcDen f p s     call number j of next() on the object p has the outcome at_ s j, every call executed as the SOURCE
                      TEXT of p's class defines it (Pat/StepSrc.v src_step: the translated body on the object's fields;
                      operands are run by the engine, whose clauses are tied in the same way);
     src_C_init ..    the object the constructor call builds, __init__ executed as the source text defines it.

   An edit of such a method body in the source changes the generated term; unless the edit preserves the meaning under
   the translation (docs/TRANSLATOR.md), Pat/StepSrc.v stops compiling and these theorems with it: a broken proof
   obligation of C10.  Only statements here; the lemmas are in Pat/RefSrc.v. *)
From Isobar Require Import Base.Prelude Pat.Val Pat.Syntax Pat.Step Pat.StepProofs Pat.Ref Pat.RefProofs
  Generated.TablesStep Pat.StepSrc Pat.RefSrc.
From Isobar Require Import Pat.FuelMono Pat.RefProofs2 Pat.IterProofs Pat.ResetProofs Pat.RefProofs3 Pat.RefSrc2.
From Coq Require Import String QArith.
Open Scope Z_scope.

Section AnyEngine.
  Variable binop : op -> val -> val -> outcome val.
  Variable LMAX : nat.
  Notation SrcDen := (SrcDen binop LMAX).
  Notation Den := (Den binop LMAX).
  Notation ADen := (ADen binop LMAX).

  (* the source-level reading and the model-level reading of "p denotes s" coincide, for every object of the model *)
  Theorem C10_src_den_is_den : forall f p s, SrcDen f p s <-> Den f p s.
  Proof. exact (SrcDen_iff binop LMAX). Qed.

  (* one call of __next__ / reset() as the source defines it is the engine's, for every class (translated classes: by
     the tie lemmas; the others keep the engine's clause) *)
  Theorem C10_src_step_is_step : forall f p, src_step binop LMAX f p = step binop LMAX f p.
  Proof. exact (src_step_is binop LMAX). Qed.
  Theorem C10_src_reset_is_reset : forall f p, src_reset binop LMAX f p = reset binop LMAX f p.
  Proof. exact (src_reset_is binop LMAX). Qed.

  (* PSeries(start, step, length) = [start + i*step | i < length]: __next__ as written in sequence.py *)
  Theorem C10_src_series : forall f a d n,
    SrcDen (S (S f)) (PSeries (VInt a) (VInt a) (AV (VInt d)) (AV (VInt (Z.of_nat n))) 0) (Fin (ref_series a d n)).
  Proof. exact (src_series_den binop LMAX). Qed.

  (* ... from the state __init__ as written in sequence.py leaves *)
  Theorem C10_src_series_built : forall f F a d n p,
    src_PSeries_init (reset binop LMAX F) (value binop LMAX) F (VInt a) (AV (VInt d)) (AV (VInt (Z.of_nat n))) = Yield p ->
    SrcDen (S (S f)) p (Fin (ref_series a d n)).
  Proof. exact (src_series_built binop LMAX). Qed.

  Theorem C10_src_range : forall f a e d, d <> 0 ->
    SrcDen (S (S f)) (PRange (VInt a) (AV (VInt e)) (AV (VInt d)) (VInt a)) (Fin (ref_range a e d)).
  Proof. exact (src_range_den binop LMAX). Qed.

  (* PRange.__init__ ends with self.reset(): __init__ and reset as written *)
  Theorem C10_src_range_built : forall f F a e d p, d <> 0 ->
    src_PRange_init (reset binop LMAX F) (value binop LMAX) F (VInt a) (AV (VInt e)) (AV (VInt d)) = Yield p ->
    SrcDen (S (S f)) p (Fin (ref_range a e d)).
  Proof. exact (src_range_built binop LMAX). Qed.

  Theorem C10_src_geom : forall f a m n,
    SrcDen (S (S f)) (PGeom (VInt a) (VInt a) (AV (VInt m)) (VInt (Z.of_nat n)) 0) (Fin (ref_geom a m n)).
  Proof. exact (src_geom_den binop LMAX). Qed.

  Theorem C10_src_geom_built : forall f F a m n p,
    src_PGeom_init (reset binop LMAX F) (value binop LMAX) F (VInt a) (AV (VInt m)) (VInt (Z.of_nat n)) = Yield p ->
    SrcDen (S (S f)) p (Fin (ref_geom a m n)).
  Proof. exact (src_geom_built binop LMAX). Qed.

  (* PSequence(list of scalars, repeats) = the list, repeats times: __next__ as written (the list read through
     Pattern.value(self.sequence), the items through Pattern.value(sequence[self.pos])) *)
  Theorem C10_src_sequence : forall f (l : list val) (r : nat),
    SrcDen (S (S f)) (PSequence (AL (map AV l)) (AV (VInt (Z.of_nat r))) 0 0) (Fin (ref_sequence l r)).
  Proof. exact (src_sequence_den binop LMAX). Qed.

  Theorem C10_src_constant : forall f c, SrcDen (S f) (PConstant c) (Inf (fun _ => c)).
  Proof. exact (src_constant_den binop LMAX). Qed.

  Theorem C10_src_stutter : forall f c s k, (0 < k)%nat -> Den f c s ->
    SrcDen (S (S f)) (PStutter (AP c) (AV (VInt (Z.of_nat k))) (VInt 0) 0 (VInt 0)) (sem_stutter k s).
  Proof. exact (src_stutter_den binop LMAX). Qed.

  Theorem C10_src_pad : forall f c s n, Den f c s ->
    SrcDen (S (S f)) (PPad (AP c) (VInt (Z.of_nat n)) 0) (sem_pad n s).
  Proof. exact (src_pad_den binop LMAX). Qed.

  Theorem C10_src_abs : forall f a s, ADen f a s -> (forall j v, at_ s j = Yield v -> absable v) ->
    SrcDen (S f) (PAbs a) (sem_map abs1 s).
  Proof. exact (src_abs_den binop LMAX). Qed.

  Theorem C10_src_skipif : forall f a b sa sb, ADen f a sa -> ADen f b sb ->
    SrcDen (S f) (PSkipIf a b) (sem_zip skip1 sa sb).
  Proof. exact (src_skipif_den binop LMAX). Qed.

  (* the 15 operator classes, bodies as written in core.py, under any operator semantics *)
  Theorem C10_src_operator : forall f o a b sa sb h, ADen f a sa -> ADen f b sb ->
    (forall j va vb, at_ sa j = Yield va -> at_ sb j = Yield vb -> elem_op binop o va vb = Yield (h va vb)) ->
    SrcDen (S f) (PBinOp o a b) (sem_zip h sa sb).
  Proof. exact (src_binop_den binop LMAX). Qed.

  Theorem C10_src_changed : forall f a s v0, ADen f a s -> at_ s 0 = Yield v0 ->
    SrcDen (S f) (PChanged (aafter binop LMAX f 1 a) v0) (sem_adj changed1 s).
  Proof. exact (src_changed_den binop LMAX). Qed.

  Theorem C10_src_diff : forall f a s v0, ADen f a s -> at_ s 0 = Yield v0 ->
    (forall j v, at_ s j = Yield v -> intish v) ->
    SrcDen (S f) (PDiff (aafter binop LMAX f 1 a) v0) (sem_adj diff1 s).
  Proof. exact (src_diff_den binop LMAX). Qed.
  (** the classes of Props/C10More.v whose bodies are translated: the same closed forms over the source-generated bodies *)
  Theorem C10_src_impulse : forall f P, 1 <= P -> SrcDen (S (S f)) (PImpulse (AV (VInt P)) 0) (Inf (ref_impulse P)).
  Proof. exact (src_impulse_den binop LMAX). Qed.

  Theorem C10_src_counter : forall f c zs, Den f c (Fin (map zi zs)) ->
    SrcDen (S (S f)) (PCounter (AP c) (VInt 0) 0) (Fin (ref_counter_from 0 0 zs)).
  Proof. exact (src_counter_den binop LMAX). Qed.

  (* the two `while` loops of PWrap.__next__ as written *)
  Theorem C10_src_wrap : forall f c s mn mx K, mn < mx -> Den f c s ->
    (forall j v, at_ s j = Yield v -> exists z, v = VInt z /\ Z.abs (z - mn) <= Z.of_nat K * (mx - mn)) ->
    SrcDen (S (S (f + K))) (PWrap (AP c) (VInt mn) (VInt mx)) (sem_map (wrapv mn mx) s).
  Proof. exact (src_wrap_den binop LMAX). Qed.

  Theorem C10_src_collapse : forall f c l, Den f c (Fin l) ->
    SrcDen (S (f + List.length l + 2)) (PCollapse (AP c)) (Fin (ref_collapse l)).
  Proof. exact (src_collapse_den binop LMAX). Qed.

  Theorem C10_src_norepeats : forall f c l, Den f c (Fin l) -> (forall v, In v l -> py_eq v (VInt MAXSIZE) = false) ->
    SrcDen (S (f + List.length l + 2)) (PNoRepeats (AP c) (VInt MAXSIZE)) (Fin (ref_norepeats_from (VInt MAXSIZE) l)).
  Proof. exact (src_norepeats_den binop LMAX). Qed.

  Theorem C10_src_pad_to_multiple : forall f c s m mp, (1 <= m)%nat -> Den f c s ->
    SrcDen (S (S f)) (PPadToMultiple (AP c) (VInt (Z.of_nat m)) (VInt (Z.of_nat mp)) 0 0) (sem_pad_to_multiple m mp s).
  Proof. exact (src_padm_den binop LMAX). Qed.

  Theorem C10_src_loop : forall f c s count, (1 <= count)%nat -> Den f c s ->
    SrcDen (S (S f)) (PLoop (AP c) (VInt (Z.of_nat count)) 0 0 false []) (sem_loop count s).
  Proof. exact (src_loop_den binop LMAX). Qed.

  (* PConcatenate.__next__ as written: next() of the current input inside try, self.pos += 1 and next(self) when it ends *)
  Theorem C10_src_concatenate : forall f c0 l0 cs ls, Den f c0 (Fin l0) -> Forall2 (fun c l => Den f c (Fin l)) cs ls ->
    SrcDen (S (f + List.length cs + 1)) (PConcatenate (AL (map AP (c0 :: cs))) 0) (Fin (ref_concatenate (l0 :: ls))).
  Proof. exact (src_concatenate_den binop LMAX). Qed.

  (* PPingPong: the object __init__ / reset AS WRITTEN build (super().reset(); self.pattern.reset(); self.values =
     self.pattern.all(); ...) denotes p forwards and back, __next__ as written *)
  Theorem C10_src_pingpong : forall f c l count F, Den f c (Fin l) -> Resets binop LMAX f c -> (List.length l <= LMAX)%nat -> (f + 3 <= S F)%nat ->
    exists p, src_PPingPong_init (reset binop LMAX F) (value binop LMAX) F (areset_strict binop LMAX)
                (fun n a => aall binop LMAX n LMAX a) (AP c) (VInt (Z.of_nat count)) = Yield p /\
              forall g, SrcDen (S g) p (Fin (ref_pingpong count l)).
  Proof. exact (src_pingpong_den binop LMAX). Qed.

  (* PReset.__next__ as written, over an endless p *)
  Theorem C10_src_reset_endless : forall f c g ct st, Den f c (Inf g) -> Resets binop LMAX f c -> Den f ct st ->
    (forall j v, at_ st j = Yield v -> v = VNone \/ exists t, v = VInt t) ->
    SrcDen (S (S f)) (PReset (AP c) (AP ct)) (sem_reset g st).
  Proof. exact (src_reset_den binop LMAX). Qed.
End AnyEngine.
Print Assumptions C10_src_den_is_den.
Print Assumptions C10_src_step_is_step.
Print Assumptions C10_src_reset_is_reset.
Print Assumptions C10_src_series.
Print Assumptions C10_src_series_built.
Print Assumptions C10_src_range.
Print Assumptions C10_src_range_built.
Print Assumptions C10_src_geom.
Print Assumptions C10_src_geom_built.
Print Assumptions C10_src_sequence.
Print Assumptions C10_src_constant.
Print Assumptions C10_src_stutter.
Print Assumptions C10_src_pad.
Print Assumptions C10_src_abs.
Print Assumptions C10_src_skipif.
Print Assumptions C10_src_operator.
Print Assumptions C10_src_changed.
Print Assumptions C10_src_diff.
Print Assumptions C10_src_impulse.
Print Assumptions C10_src_counter.
Print Assumptions C10_src_wrap.
Print Assumptions C10_src_collapse.
Print Assumptions C10_src_norepeats.
Print Assumptions C10_src_pad_to_multiple.
Print Assumptions C10_src_loop.
Print Assumptions C10_src_concatenate.
Print Assumptions C10_src_pingpong.
Print Assumptions C10_src_reset_endless.

(* non-vacuity: the generated __init__ builds an object, and the generated __next__ run on it (src_step, 5 calls) gives
   the closed form and then StopIteration *)
Definition src_outputs (f : nat) := fix go (n : nat) (p : pat) : list (outcome val) :=
  match n with O => [] | S n' => let '(o, p') := src_step Val.binop 100 f p in o :: go n' p' end.

Example C10_src_series_nonvacuous :
  exists p, src_PSeries_init (reset Val.binop 100 5) (value Val.binop 100) 5 (VInt 3) (AV (VInt (-2))) (AV (VInt 4)) = Yield p /\
            src_outputs 5 5 p = map Yield (ref_series 3 (-2) 4) ++ [Stop] /\
            ref_series 3 (-2) 4 = map zi [3; 1; -1; -3].
Proof. eexists. split; [reflexivity|]. split; vm_compute; reflexivity. Qed.

Example C10_src_range_nonvacuous :
  exists p, src_PRange_init (reset Val.binop 100 5) (value Val.binop 100) 5 (VInt 0) (AV (VInt 7)) (AV (VInt 3)) = Yield p /\
            src_outputs 5 4 p = map Yield (ref_range 0 7 3) ++ [Stop] /\ ref_range 0 7 3 = map zi [0; 3; 6].
Proof. eexists. split; [reflexivity|]. split; vm_compute; reflexivity. Qed.

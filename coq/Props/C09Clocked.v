(* Props/C09Clocked.v — property C09, StopIteration is sticky, for the TIMELINE-CLOCKED pattern PStaticPattern
   (isobar/pattern/static.py): its output depends on the clock of the timeline it is polled from, so the histories the
   property quantifies over are lists of steps "the clock advances by dt, then next()".  Model Pat/Clocked.v (s_next = __next__
   at an abstract clock reading; the inner pattern is any machine, element_duration any endless sequence), lemmas
   Pat/ClockedProofs.v.  The clock is data: nothing is assumed of it except that it does not run backwards (0 <= dt; on a
   clock that is set back PStaticPattern resumes the element it was holding - Timeline.current_time never decreases). *)
From Isobar Require Import Base.Prelude Pat.Clocked Pat.ClockedProofs.
Open Scope Z_scope.

(* Once PStaticPattern has raised StopIteration (its inner pattern, any sticky machine, has ended), every later next() raises
   StopIteration, whatever the clock does: after less than element_duration, after more, after any sequence of advances. *)
Theorem C09_clocked_sticky : forall (S : Type) (istep : S -> option Z * S) (durf : nat -> Z),
  inner_sticky S istep -> forall fuel now st st' h,
  s_next S istep durf fuel now st = (CStop, st') -> monotone_history h ->
  Forall (fun o => o = CStop) (fst (s_run S istep durf now st' h)).
Proof. exact s_sticky. Qed.
Print Assumptions C09_clocked_sticky.

(* ... stated over one whole history from any state of the object: nothing but StopIteration after the first one *)
Theorem C09_clocked_history_sticky : forall (S : Type) (istep : S -> option Z * S) (durf : nat -> Z),
  inner_sticky S istep -> forall h now st, monotone_history h ->
  forall k, nth_error (fst (s_run S istep durf now st h)) k = Some CStop ->
  forall j o, (k <= j)%nat -> nth_error (fst (s_run S istep durf now st h)) j = Some o -> o = CStop.
Proof. exact s_run_sticky. Qed.
Print Assumptions C09_clocked_history_sticky.

(* ... and for the instance the correspondence check runs against the implementation: a finite inner pattern given by its
   values, a scalar or endless-sequence element_duration, any start time, any history of non-negative advances *)
Theorem C09_clocked_static_pattern_sticky : forall values ds t0 h, Forall (fun dt => 0 <= dt) h ->
  forall k, nth_error (static_outcomes values ds t0 h) k = Some CStop ->
  forall j o, (k <= j)%nat -> nth_error (static_outcomes values ds t0 h) j = Some o -> o = CStop.
Proof. exact static_outcomes_sticky. Qed.
Print Assumptions C09_clocked_static_pattern_sticky.

(* non-vacuity: PStaticPattern(PSequence([60, 64, 67], 1), 1) polled every half beat gives each value twice, then ends, and stays
   ended one clock unit (1/32 beat) later, 9 units later, half a beat, a beat, two beats later (the history of seeded/C09-m) *)
Example C09_clocked_nonvacuous :
  static_outcomes [60; 64; 67] [32] 0 [0; 16; 16; 16; 16; 16; 16; 1; 9; 16; 32; 64] =
  [CYield 60; CYield 60; CYield 64; CYield 64; CYield 67; CYield 67; CStop; CStop; CStop; CStop; CStop; CStop].
Proof. vm_compute. reflexivity. Qed.

(* negative control: the variant that begins (and times) an element before it has obtained its value is NOT sticky - one unit
   after its StopIteration it hands out the last value again *)
Example C09_clocked_early_start_revives :
  let st0 := s_init (list Z) [67] in
  let '(o1, st1) := s_next_early (list Z) list_step (cyc_dur [32]) 3 0 st0 in
  let '(o2, st2) := s_next_early (list Z) list_step (cyc_dur [32]) 3 32 st1 in
  let '(o3, _) := s_next_early (list Z) list_step (cyc_dur [32]) 3 33 st2 in
  (o1, o2, o3) = (CYield 67, CStop, CYield 67).
Proof. vm_compute. reflexivity. Qed.

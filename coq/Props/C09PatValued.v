(* Props/C09PatValued.v — property C09, helper agreement for patterns whose OUTPUT VALUES ARE PATTERN OBJECTS (PDictKey over a
   dict of patterns, PConstant(pattern) behind PSubsequence / PStutter / PLoop / PRef, PShuffle / PChoice over lists containing
   patterns ...): "nextn(n) returns the next min(n, remaining) values" - the values next() returns, i.e. the objects themselves.
   Model Pat/PatValued.v (the objects live in a heap, the selector yields addresses), lemmas Pat/PatValuedProofs.v.
   (That a member of the PMap family whose extra argument is a FINITE pattern ends with StopIteration for ever is
   C09_sticky_stable_state / gpat of Props/C09More.v: GP_map.) *)
From Isobar Require Import Base.Prelude Pat.Val Pat.Syntax Pat.Step Pat.StepProofs Pat.IterProofs Pat.PatValued Pat.PatValuedProofs.
From Coq Require Import String.
Open Scope string_scope.
Open Scope Z_scope.

(* nextn(n) = the objects the next n calls of next() return, and none of them has been advanced *)
Theorem C09_nextn_returns_the_objects : forall binop LMAX fuel n s h vs s',
  pv_outputs binop LMAX fuel n (s, h) = (map Yield vs, (s', h)) -> pv_nextn binop LMAX fuel n (s, h) = (Yield vs, (s', h)).
Proof. exact pv_nextn_values. Qed.

(* next / nextn / for / all never touch the objects they hand out (only Pattern.value of a consumer does) *)
Theorem C09_helpers_leave_yielded_patterns : forall binop LMAX fuel n w,
  snd (snd (pv_nextn binop LMAX fuel n w)) = snd w /\ snd (snd (pv_all binop LMAX fuel n w)) = snd w /\
  snd (snd (pv_next binop LMAX fuel w)) = snd w.
Proof. exact pv_helpers_leave_objects. Qed.
Print Assumptions C09_nextn_returns_the_objects.

(* non-vacuity and negative control: PDictKey({'a': <object 0>, 'b': <object 1>}, PSequence(['a', 'b', 'a'], 1)) hands out the
   objects 0, 1, 0 and then ends; nextn(5) returns exactly those; Pattern.value() on it would instead return the first VALUE
   of object 0 (a PSeries from 60) and advance it *)
Example C09_pattern_valued_nonvacuous :
  let key := PSequence (AL [AV (VStr "a"); AV (VStr "b"); AV (VStr "a")]) (AV (VInt 1)) 0 0 in
  let sel := PDictKey (AD [("a"%string, AV (VInt 0)); ("b"%string, AV (VInt 1))]) (AP key) in
  let heap := [PSeries (VInt 60) (VInt 60) (AV (VInt 1)) (AV (VInt 9)) 0; PConstant (VInt 7)] in
  fst (pv_nextn Val.binop 100 30 5 (sel, heap)) = Yield [VInt 0; VInt 1; VInt 0] /\
  snd (snd (pv_nextn Val.binop 100 30 5 (sel, heap))) = heap /\
  fst (pv_value Val.binop 100 30 (sel, heap)) = Yield (VInt 60) /\
  snd (snd (pv_value Val.binop 100 30 (sel, heap))) <> heap.
Proof. repeat split; try (vm_compute; reflexivity). vm_compute. discriminate. Qed.

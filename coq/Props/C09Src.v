(* Props/C09Src.v — property C09 (a pattern that has ended stays ended) for the __next__ bodies GENERATED FROM THE SOURCE
   TEXT of isobar/pattern/*.py (harness/gen_tables_step.py -> Generated/TablesStep.v on every run; tie lemmas in
   Pat/StepSrc.v; docs/TRANSLATOR.md).  src_step: one next() executed as the source text of the object's class defines it
   (the translated body applied to the object's fields; nested patterns are run by the engine, whose clauses are tied in the
   same way); src_quiet f p: no later call on p, executed that way, returns a value.  An edit of a __next__ in the source
   that changes the translated term breaks Pat/StepSrc.v and with it these theorems: a broken proof obligation of C09.
   Lemmas: Pat/StickySrc.v. *)
From Isobar Require Import Base.Prelude Pat.Val Pat.Syntax Pat.Step Pat.StepProofs Pat.IterProofs Pat.StickyProofs Pat.StickyConcat Pat.StickyProofs2
  Generated.TablesStep Pat.StepSrc Pat.StickySrc.
From Coq Require Import String QArith.
Open Scope Z_scope.

Section AnyOperators.
  Variable binop : op -> val -> val -> outcome val.
  Variable LMAX : nat.

  Theorem C09_src_step_is_step : forall f p, src_step binop LMAX f p = step binop LMAX f p.
  Proof. exact (src_step_is binop LMAX). Qed.

  (* the classes that end by their own counters: once next() as written raises StopIteration the object is unchanged,
     raises it again, and never returns a value *)
  Theorem C09_src_sticky_counter_classes : forall f p p',
    ends_by_counter p = true -> src_step binop LMAX f p = (Stop, p') ->
    p' = p /\ src_step binop LMAX f p' = (Stop, p') /\ src_quiet binop LMAX f p'.
  Proof. exact (src_counter_sticky binop LMAX). Qed.

  (* expressions of any depth over those classes with the operators, &, abs, int, skip-if, references *)
  Theorem C09_src_sticky : forall f p p',
    (forall o x y, binop o x y <> Stop) ->
    sticky_pat p -> src_step binop LMAX f p = (Stop, p') -> src_quiet binop LMAX f p'.
  Proof. exact (src_sticky binop LMAX). Qed.

  (* ... and the transformer classes, at any fuel *)
  Theorem C09_src_sticky_transformers : forall f p p',
    (forall o x y, binop o x y <> Stop) ->
    fpat p -> src_step binop LMAX f p = (Stop, p') -> forall f2, src_quiet binop LMAX f2 p'.
  Proof. exact (src_sticky_transformers binop LMAX). Qed.
  (* PConcatenate.__next__ as written: once it has raised StopIteration no later call returns a value *)
  Theorem C09_src_sticky_concatenate : forall f l pos p',
    (forall o x y, binop o x y <> Stop) ->
    Forall farg l ->
    src_PConcatenate_next Val.binop (value binop LMAX) (anext binop LMAX) f (step binop LMAX) (AL l) pos = (Stop, p') ->
    forall f2, src_quiet binop LMAX f2 p'.
  Proof. exact (src_sticky_concatenate binop LMAX). Qed.
  (* PArrayIndex.__next__ as written (repair C09-parrayindex-revives): StopIteration sets the flag, and the object stays ended *)
  Theorem C09_src_arrayindex_sticky : forall f l i e p',
    src_PArrayIndex_next Val.binop (value binop LMAX) (anext binop LMAX) f l i e = (Stop, p') ->
    (exists l' i', p' = PArrayIndex l' i' true) /\ forall f2, src_quiet binop LMAX f2 p'.
  Proof. exact (src_arrayindex_sticky binop LMAX). Qed.
End AnyOperators.
Print Assumptions C09_src_step_is_step.
Print Assumptions C09_src_sticky_counter_classes.
Print Assumptions C09_src_sticky.
Print Assumptions C09_src_sticky_transformers.
Print Assumptions C09_src_sticky_concatenate.
Print Assumptions C09_src_arrayindex_sticky.

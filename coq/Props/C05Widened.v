(* Props/C05Widened.v — property C05, widened: (k) updates that change more than the event stream, (l) several output devices.
   Definitions in Sched/UpdateMode.v. *)
From Isobar Require Import Base.Prelude Sched.Model Sched.UpdateMode.

(* (k) A deferred update of (stream, settings), w ticks before its switch tick, on ANY track machine: on the first w ticks the
   track is heard exactly as if no update had been requested - old stream, old settings (interpolation mode, ...) - and from
   the switch tick on exactly as the new stream under the new settings started on that tick; nothing of the old pair after,
   nothing of the new pair before.  (The correspondence check reads this theorem directly: history A = the old pair left alone,
   history B = the new pair started on the switch tick.) *)
Theorem C05_deferred_update_is_clean : forall (M St Out : Type) (step : M -> St -> Out * St) m s m' s' w n,
  utrace step n (mkU m s (Some (w, m', s')))
  = firstn n (trace step m w s) ++ trace step m' (n - w) s'.
Proof.
  intros M St Out step m s m' s' w. revert m s.
  induction w as [|w IH]; intros m s n.
  - cbn [trace firstn]. rewrite firstn_nil, Nat.sub_0_r. cbn [app].
    destruct n as [|n]; [reflexivity|]. cbn [utrace utick u_pend trace].
    destruct (step m' s') as [o s'']. f_equal.
    (* after the switch: no pending update, the new machine alone *)
    revert s''. induction n as [|n IHn]; intros s''; [reflexivity|].
    cbn [utrace utick u_pend u_cfg u_st trace]. destruct (step m' s'') as [o2 s3]. f_equal. apply IHn.
  - destruct n as [|n]; [reflexivity|].
    cbn [utrace utick u_pend u_cfg u_st trace firstn Nat.sub]. destruct (step m s) as [o s1]. cbn [app]. f_equal. apply IH.
Qed.
Print Assumptions C05_deferred_update_is_clean.

(* in particular the first w outcomes do not depend on the requested pair at all *)
Theorem C05_old_pair_until_switch : forall (M St Out : Type) (step : M -> St -> Out * St) m s m' s' w n, (n <= w)%nat ->
  utrace step n (mkU m s (Some (w, m', s'))) = trace step m n s.
Proof.
  intros M St Out step m s m' s' w n H. rewrite C05_deferred_update_is_clean.
  replace (n - w)%nat with 0%nat by lia. cbn [trace]. rewrite app_nil_r.
  revert m s w H. induction n as [|n IH]; intros m s w H; [reflexivity|].
  destruct w as [|w]; [lia|]. cbn [trace firstn]. destruct (step m s) as [o s1]. f_equal. apply IH. lia.
Qed.
Print Assumptions C05_old_pair_until_switch.

(* (l) The latency compensation added to the delay is that of the device the track plays on: with the devices' latencies lats
   and the track on device dev, update() resolves q' = q or the default, d' = (d or the default) + lats[dev] when that is
   positive (nothing otherwise), starts at once iff q' = d' = 0 and otherwise requests the start for sched_time now q' d'. *)
Theorem C05_device_latency : forall cfg lats dev tl tr s q d count,
  let L := device_latency lats dev in
  let q' := match q with Some x => x | None => def_q tl end in
  let d0 := match d with Some x => x | None => def_d tl end in
  let d' := if 0 <? L then d0 + L else d0 in
  let tr1 := match count with Some c => set_max tr (Some c) | None => tr end in
  track_update_on cfg lats dev tl tr s q d count =
  if (q' =? 0) && (d' =? 0) then (tl, track_start tr1 s)
  else (set_actions tl (actions tl ++ [AStart (sched_time (now tl) q' d') (t_id tr) s]), tr1).
Proof. reflexivity. Qed.
Print Assumptions C05_device_latency.

(* ... and of no other device: two timelines whose device tables agree on the track's device treat the update alike, whatever
   the latency of the default device or of any other device is *)
Theorem C05_device_latency_own_device_only : forall cfg lats lats' dev tl tr s q d count,
  device_latency lats dev = device_latency lats' dev ->
  track_update_on cfg lats dev tl tr s q d count = track_update_on cfg lats' dev tl tr s q d count.
Proof. intros. unfold track_update_on. rewrite H. reflexivity. Qed.
Print Assumptions C05_device_latency_own_device_only.

(* non-vacuity.  (l) default device with latency 6 units, a second device with none: an update with quantize = delay = 0 of a
   track on the second device starts at once, the same update of a track on the default device is deferred to now + 6.
   (k) a toy machine (settings = an offset added to a counter): update requested 2 ticks before its switch tick. *)
Definition exw_cfg : config := mkConfig 3 [] 0 0 false false None 8.
Definition exw_tr : track := track_start (new_track 0 None true None) empty_stream.
Example C05_widened_nonvacuous :
  actions (fst (track_update_on exw_cfg [6; 0] 1 tl0 exw_tr empty_stream (Some 0) (Some 0) None)) = []
  /\ actions (fst (track_update_on exw_cfg [6; 0] 0 tl0 exw_tr empty_stream (Some 0) (Some 0) None)) = [AStart 6 0 empty_stream]
  /\ utrace (fun (m s : Z) => (m + s, s + 1)) 5 (mkU 100 0 (Some (2%nat, 500, 0))) = [100; 101; 500; 501; 502].
Proof. repeat split. Qed.

(* Props/C11Src.v — property C11 for step functions GENERATED FROM THE SOURCE TEXT of isobar/pattern/chance.py
   (harness/gen_tables_stepchance.py -> Generated/TablesStepchance.v on every run; ties in Pat/ChanceSrc.v; docs/TRANSLATOR.md).
   src_white / src_coin / src_flipflop / src_skip / src_pchoice / src_pshuffle are the machines of Pat/Chance.v with the step translated from
   PWhite / PCoin / PFlipFlop / PSkip / PChoice / PShuffle.__next__ (specialised to the domain of the machine: scalar parameters, the
   non-`regular` mode, a finite input); the draws `self.rng.uniform(..)`, `self.rng.shuffle(..)` are the generator-oracle calls.
   An edit of one of these bodies that changes the translated term breaks Pat/ChanceSrc.v and with it these theorems: a broken
   proof obligation of C11.  Lemmas: Pat/ChanceSrc.v, Pat/ChanceSrcProofs.v. *)
From Isobar Require Import Base.Prelude Pat.Chance Pat.ChanceProofs Generated.TablesStepchance Pat.ChanceSrc Pat.ChanceSrcProofs.
From Coq Require Import QArith Permutation Lqa.
Open Scope Z_scope.

Section Ties.
  Variable R : Type.
  Variable r_unit : R -> Z * R.
  Variable r_below : Z -> R -> Z * R.

  (* the hand-written machine steps are the bodies as written, for every generator behaviour *)
  Theorem C11_src_white_step : forall is_f mn mx len idx g,
    white_step R r_unit is_f mn mx len idx g = src_PWhite_step R r_unit is_f mn mx len idx g.
  Proof. exact (PWhite_step_src R r_unit). Qed.
  Theorem C11_src_coin_step : forall p s g, coin_step R r_unit p s g = src_PCoin_step R r_unit p s g.
  Proof. exact (PCoin_step_src R r_unit). Qed.
  Theorem C11_src_flipflop_step : forall p_on p_off v g,
    flipflop_step R r_unit p_on p_off v g = src_PFlipFlop_step R r_unit p_on p_off v g.
  Proof. exact (PFlipFlop_step_src R r_unit). Qed.
  Theorem C11_src_skip_step : forall play rem g, skip_step R r_unit play rem g = src_PSkip_step R r_unit play rem g.
  Proof. exact (PSkip_step_src R r_unit). Qed.
  Theorem C11_src_pshuffle_step : forall repeats s g,
    pshuffle_step R r_below repeats s g = src_PShuffle_step R r_below repeats s g.
  Proof. exact (PShuffle_step_src R r_below). Qed.
  Theorem C11_src_choice_step : forall values ws s g,
    choice_step R r_unit r_below values ws s g = src_PChoice_step R r_unit r_below values ws s g.
  Proof. exact (PChoice_step_src R r_unit r_below). Qed.
End Ties.
Print Assumptions C11_src_white_step.
Print Assumptions C11_src_coin_step.
Print Assumptions C11_src_flipflop_step.
Print Assumptions C11_src_skip_step.
Print Assumptions C11_src_pshuffle_step.
Print Assumptions C11_src_choice_step.

(** ranges and supports, for all generators respecting the contract, all seeds, all scripts, all steps *)
Section InRange.
  Variable R : Type.
  Variable r_unit : R -> Z * R.
  Variable r_below : Z -> R -> Z * R.
  Variable r_seed : Z -> R.
  Hypothesis unit_range : forall g, 0 <= fst (r_unit g) < two53.
  Hypothesis below_range : forall n g, 0 < n -> 0 <= fst (r_below n g) < n.

  Theorem C11_src_white_float : forall mn mx len ops i, (mn <= mx)%Q ->
    Forall (fun r => match r with Out (OQ x) => (mn <= x <= mx)%Q | Stop => True | _ => False end)
           (run R r_seed (src_white R r_unit true mn mx len) i ops).
  Proof. intros. eapply src_white_float; eauto. Qed.

  Theorem C11_src_white_length : forall is_f mn mx len s n j r, (mn <= mx)%Q ->
    nth_error (run R r_seed (src_white R r_unit is_f mn mx len) (fresh R r_seed (src_white R r_unit is_f mn mx len) s)
                   (repeat Next n)) j = Some r ->
    (r = Stop <-> 0 < len /\ len <= Z.of_nat j).
  Proof. intros. eapply src_white_length; eauto. Qed.

  Theorem C11_src_coin : forall p ops i, Forall binary (run R r_seed (src_coin R r_unit p) i ops).
  Proof. intros. eapply src_coin_binary; eauto. Qed.

  Theorem C11_src_flipflop : forall init p_on p_off ops s, init = 0 \/ init = 1 ->
    Forall binary (run R r_seed (src_flipflop R r_unit init p_on p_off) (fresh R r_seed (src_flipflop R r_unit init p_on p_off) s) ops).
  Proof. intros. eapply src_flipflop_binary; eauto. Qed.

  Theorem C11_src_pshuffle_support : forall values repeats ops s,
    Forall (from_values' values)
           (run R r_seed (src_pshuffle R r_below values repeats) (fresh R r_seed (src_pshuffle R r_below values repeats) s) ops).
  Proof. intros. eapply src_pshuffle_support; eauto. Qed.

  Theorem C11_src_choice_support : forall values ws ops i,
    Forall (from_values values) (run R r_seed (src_pchoice R r_unit r_below values ws) i ops).
  Proof. intros. eapply src_choice_support; eauto. Qed.

  Theorem C11_src_skip_only_rests : forall input play s n j r,
    nth_error (run R r_seed (src_skip R r_unit input play) (fresh R r_seed (src_skip R r_unit input play) s) (repeat Next n)) j = Some r ->
    match nth_error input j with
    | Some x => r = Out (oopt x) \/ r = Out ONone
    | None => r = Stop
    end.
  Proof. intros. eapply src_skip_only_rests; eauto. Qed.
End InRange.
Print Assumptions C11_src_white_float.
Print Assumptions C11_src_white_length.
Print Assumptions C11_src_coin.
Print Assumptions C11_src_flipflop.
Print Assumptions C11_src_pshuffle_support.
Print Assumptions C11_src_skip_only_rests.
Print Assumptions C11_src_choice_support.

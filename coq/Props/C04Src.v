(* Props/C04Src.v — property C04 for the reset() / __next__ bodies GENERATED FROM THE SOURCE TEXT of isobar/pattern/*.py
   (harness/gen_tables_step.py -> Generated/TablesStep.v on every run; tie lemmas in Pat/StepSrc.v; docs/TRANSLATOR.md).
   src_reset / src_step: one reset() / one next() executed as the source text of the object's class defines it (the
   translated method body applied to the object's fields; nested patterns are run by the engine, whose clauses are tied in
   the same way); src_run: k calls of next().  An edit of reset / __next__ in the source that changes the translated term
   breaks Pat/StepSrc.v and with it these theorems: a broken proof obligation of C04.  Lemmas: Pat/ResetSrc.v. *)
From Isobar Require Import Base.Prelude Pat.Val Pat.Syntax Pat.Step Pat.StepProofs Pat.IterProofs Pat.ResetProofs
  Generated.TablesStep Pat.StepSrc Pat.ResetSrc.
From Coq Require Import String QArith.
Open Scope Z_scope.

Section AnyOperators.
  Variable binop : op -> val -> val -> outcome val.
  Variable LMAX : nat.

  (* reset() as written is the engine's reset, for every class *)
  Theorem C04_src_reset_is_reset : forall f p, src_reset binop LMAX f p = reset binop LMAX f p.
  Proof. exact (src_reset_is binop LMAX). Qed.

  (* reset() as written erases whatever one next() as written changed *)
  Theorem C04_src_reset_erases_step : forall f f' p,
    rpat p -> src_reset binop LMAX f (snd (src_step binop LMAX f' p)) = src_reset binop LMAX f p.
  Proof. exact (src_reset_step binop LMAX). Qed.

  (* ... after any number of calls *)
  Theorem C04_src_reset_any_history : forall f f' k p0,
    rpat p0 -> src_reset binop LMAX f (src_run binop LMAX f' k p0) = src_reset binop LMAX f p0.
  Proof. exact (src_reset_run binop LMAX). Qed.
End AnyOperators.
Print Assumptions C04_src_reset_is_reset.
Print Assumptions C04_src_reset_erases_step.
Print Assumptions C04_src_reset_any_history.

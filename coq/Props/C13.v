(* Props/C13.v — property C13: keys and scales map degrees to in-key notes; the nearest note is nearest.
   Only the property theorems live here; each is closed by a lemma of Tonal/KeyProofs.v or by
   computation over the table generated from the source (Generated/Tables.v). *)
From Isobar Require Import Base.Prelude Tonal.Key Tonal.KeyProofs Tonal.Progression Tonal.ProgressionProofs Generated.Tables
  Tonal.Held Tonal.HeldProofs.
From Coq Require Import String.

(* degree d maps to tonic + scale[d mod n] + octave * floor(d / n) *)
Theorem C13_degree : forall k d,
  key_get k d = tonic k + znth (semis (kscale k)) (d mod slen (kscale k))
                + osize (kscale k) * (d / slen (kscale k)).
Proof. intros. unfold key_get, scale_get. lia. Qed.
Print Assumptions C13_degree.

(* strictly increasing in d for every ascending scale (all d, e in Z: negative degrees descend) *)
Theorem C13_strictly_increasing : forall k d e,
  valid_scale (kscale k) = true -> d < e -> key_get k d < key_get k e.
Proof. intros k d e Hv H. unfold key_get. pose proof (scale_get_mono _ Hv d e H). lia. Qed.
Print Assumptions C13_strictly_increasing.

Theorem C13_degree_in_key : forall k d,
  valid_scale (kscale k) = true -> key_contains k (key_get k d) = true.
Proof. exact key_get_in_key. Qed.
Print Assumptions C13_degree_in_key.

(* membership depends only on the pitch class; a rest is always in key *)
Theorem C13_pitch_class : forall k x m,
  0 < osize (kscale k) -> key_contains k (x + m * osize (kscale k)) = key_contains k x.
Proof. intros k x m Ho. apply contains_shift. exact Ho. Qed.
Print Assumptions C13_pitch_class.

Theorem C13_rest_in_key : forall k, key_contains_opt k None = true /\ key_get_opt k None = None.
Proof. intros; split; reflexivity. Qed.

(* the nearest in-key note is in the key, no in-key note is strictly closer, in-key notes are fixed:
   for every key with at least one semitone and a positive octave size (no ascending-ness needed) *)
Theorem C13_nearest : forall k x,
  0 < osize (kscale k) -> semis (kscale k) <> [] ->
  key_contains k (nearest_note k x) = true
  /\ (forall y, key_contains k y = true -> Z.abs (nearest_note k x - x) <= Z.abs (y - x))
  /\ (key_contains k x = true -> nearest_note k x = x).
Proof.
  intros k x Ho Hne. destruct (nearest_spec k Ho Hne x) as [A B].
  split; [exact A|]. split; [exact B|]. apply nearest_in_key_id.
Qed.
Print Assumptions C13_nearest.

(* every scale the library defines (table regenerated from the source on every run) is in the
   documented domain, hence all of the above applies to every built-in key on every tonic *)
Theorem C13_builtin_valid : forallb (fun ns => valid_scale (snd ns)) builtin_scales = true.
Proof. vm_compute. reflexivity. Qed.

Theorem C13_builtin : forall name s t, In (name, s) builtin_scales ->
  let k := mkKey t s in
  (forall d e, d < e -> key_get k d < key_get k e)
  /\ (forall d, key_contains k (key_get k d) = true)
  /\ (forall x, key_contains k (nearest_note k x) = true
               /\ forall y, key_contains k y = true -> Z.abs (nearest_note k x - x) <= Z.abs (y - x)).
Proof.
  intros name s t Hin k.
  pose proof C13_builtin_valid as Hall. rewrite forallb_forall in Hall.
  specialize (Hall _ Hin). simpl in Hall.
  assert (Hv : valid_scale (kscale k) = true) by exact Hall.
  split; [intros d e; apply C13_strictly_increasing; exact Hv|].
  split; [intros d; apply C13_degree_in_key; exact Hv|].
  intros x. pose proof (valid_osize _ Hv) as Ho. destruct (valid_facts _ Hv) as [Hne _].
  destruct (C13_nearest k x Ho Hne) as [A [B _]]. split; assumption.
Qed.
Print Assumptions C13_builtin.

(* non-vacuity: the hypotheses are met by a concrete user scale with a 19-step octave *)
Example C13_nonvacuous :
  valid_scale (mkScale [1; 4; 9; 17] 19) = true
  /\ nearest_note (mkKey 5 (mkScale [1; 4; 9; 17] 19)) 26 = 25
  /\ key_get (mkKey 5 (mkScale [1; 4; 9; 17] 19)) (-3) = -10.
Proof. vm_compute. repeat split. Qed.

(** note names <-> MIDI numbers, whole MIDI range (finite domain, enumerated completely) *)
Definition names_roundtrip_ok (n : Z) : bool :=
  match midi_note_to_note_name note_names n with
  | Some s => option_eqb Z.eqb (note_name_to_midi_note note_names s) (Some n)
  | None => false
  end.

Theorem C13_names_number_roundtrip : forall n, 0 <= n <= 127 ->
  exists s, midi_note_to_note_name note_names n = Some s /\ note_name_to_midi_note note_names s = Some n.
Proof.
  assert (H : forallb names_roundtrip_ok (zrange 0 128) = true) by (vm_compute; reflexivity).
  rewrite forallb_forall in H. intros n Hn.
  specialize (H n ltac:(apply in_zrange; lia)). unfold names_roundtrip_ok in H.
  destruct (midi_note_to_note_name note_names n) as [s|]; [|discriminate].
  exists s. split; [reflexivity|].
  destruct (note_name_to_midi_note note_names s) as [m|]; [|discriminate].
  simpl in H. apply Z.eqb_eq in H. congruence.
Qed.
Print Assumptions C13_names_number_roundtrip.

(* every spelling (sharp or flat, any case) with octave -1..9 that lands in 0..127 converts to a
   number whose name is the canonical (first) spelling of the same pitch class and octave *)
Definition smap (f : Ascii.ascii -> Ascii.ascii) (s : string) : string :=
  string_of_list_ascii (map f (list_ascii_of_string s)).
Definition spellings : list (string * string * Z) :=   (* spelling, canonical pitch-class name, octave *)
  flat_map (fun set => flat_map (fun nm => flat_map (fun oc =>
     [(nm, hd ""%string set, oc); (smap lower nm, hd ""%string set, oc); (smap upper nm, hd ""%string set, oc)])
     (zrange (-1) 11)) set) note_names.
Definition spelling_ok (t : string * string * Z) : bool :=
  let '(nm, canon, oc) := t in
  match note_name_to_midi_note note_names (nm ++ show_Z oc) with
  | None => false
  | Some n => if (127 <? n) then true
              else option_eqb String.eqb (midi_note_to_note_name note_names n) (Some (canon ++ show_Z oc)%string)
  end.

Theorem C13_names_spelling_roundtrip : forall t, In t spellings -> spelling_ok t = true.
Proof. apply forallb_forall. vm_compute. reflexivity. Qed.
Print Assumptions C13_names_spelling_roundtrip.

Example C13_names_nonvacuous :
  List.length spellings = 561%nat
  /\ note_name_to_midi_note note_names "eb-1" = Some 3
  /\ midi_note_to_note_name note_names 61 = Some "C#4"%string.
Proof. vm_compute. repeat split. Qed.

(** * the key is a time-varying pattern (a key progression) and the melody contains rests *)

(* the tonal patterns pull ONE note and ONE key per step - also when the note is a rest - so output i is
   f (key i) (note i) and exists exactly as long as both patterns last (and i is below the count asked for) *)
Theorem C13_progression_aligned : forall f n mel ks i y,
  nth_error (tonal_nextn f n (mkT mel ks)) i = Some y <->
  (i < n)%nat /\ exists x k, nth_error mel i = Some x /\ ksrc_nth ks i = Some k /\ y = f k x.
Proof. exact tonal_nextn_some. Qed.
Print Assumptions C13_progression_aligned.

(* PFilterByKey never lets a note through that is out of the key in force AT THAT STEP, passes every note
   that is in it unchanged, and drops the others *)
Theorem C13_filter_progression : forall n mel ks i,
  (forall y, nth_error (tonal_nextn filter_step n (mkT mel ks)) i = Some (Some y) ->
     exists k, ksrc_nth ks i = Some k /\ key_contains k y = true /\ nth_error mel i = Some (Some y))
  /\ (forall x k, (i < n)%nat -> nth_error mel i = Some (Some x) -> ksrc_nth ks i = Some k ->
     nth_error (tonal_nextn filter_step n (mkT mel ks)) i = Some (if key_contains k x then Some x else None)).
Proof.
  intros n mel ks i. split.
  - intros y H. apply tonal_nextn_some in H as [_ [x [k [A [B C]]]]].
    symmetry in C. apply filter_step_some in C as [-> C]. exists k. repeat split; assumption.
  - intros x k L A B. apply tonal_nextn_some. split; [exact L|]. exists (Some x), k. repeat split; assumption.
Qed.
Print Assumptions C13_filter_progression.

(* PNearestNoteInKey: every note comes out as a note of the key in force at that step, and no note of that
   key is strictly closer; a note already in that key is unchanged *)
Theorem C13_snap_progression : forall n mel ks i x k,
  (i < n)%nat -> nth_error mel i = Some (Some x) -> ksrc_nth ks i = Some k ->
  0 < osize (kscale k) -> semis (kscale k) <> [] ->
  exists y, nth_error (tonal_nextn snap_step n (mkT mel ks)) i = Some (Some y)
    /\ key_contains k y = true
    /\ (forall z, key_contains k z = true -> Z.abs (y - x) <= Z.abs (z - x))
    /\ (key_contains k x = true -> y = x).
Proof.
  intros n mel ks i x k L A B Ho Hne. exists (nearest_note k x).
  destruct (C13_nearest k x Ho Hne) as [P [Q R]].
  split; [|split; [exact P|split; [exact Q|exact R]]].
  apply tonal_nextn_some. split; [exact L|]. exists (Some x), k. repeat split; assumption.
Qed.
Print Assumptions C13_snap_progression.

(* PDegree over a progression: degree d at step i is the d-th degree of key i, which is in key i *)
Theorem C13_degree_progression : forall n mel ks i d k,
  (i < n)%nat -> nth_error mel i = Some (Some d) -> ksrc_nth ks i = Some k ->
  nth_error (tonal_nextn degree_step n (mkT mel ks)) i = Some (Some (key_get k d))
  /\ (valid_scale (kscale k) = true -> key_contains k (key_get k d) = true).
Proof.
  intros n mel ks i d k L A B. split.
  - apply tonal_nextn_some. split; [exact L|]. exists (Some d), k. repeat split; assumption.
  - intros Hv. apply C13_degree_in_key. exact Hv.
Qed.
Print Assumptions C13_degree_progression.

(* a rest stays a rest in all three patterns - and (C13_progression_aligned) it has consumed one key value
   like any other step, so the steps after it are still judged against their own key *)
Theorem C13_rest_progression : forall f n mel ks i k,
  f = filter_step \/ f = snap_step \/ f = degree_step ->
  (i < n)%nat -> nth_error mel i = Some None -> ksrc_nth ks i = Some k ->
  nth_error (tonal_nextn f n (mkT mel ks)) i = Some None.
Proof.
  intros f n mel ks i k Hf L A B. apply tonal_nextn_some. split; [exact L|].
  exists None, k. repeat split; try assumption. destruct Hf as [E|[E|E]]; rewrite E; reflexivity.
Qed.
Print Assumptions C13_rest_progression.

(* non-vacuity: C major and F# minor pentatonic (pitch classes 1 4 6 9 11) alternate under a melody with
   rests; the note after a rest is judged against the key of ITS step, not against the one a rest skipped *)
Example C13_progression_nonvacuous :
  let cmaj := mkKey 0 (mkScale [0; 2; 4; 5; 7; 9; 11] 12) in
  let fsmp := mkKey 6 (mkScale [0; 3; 5; 7; 10] 12) in
  tonal_nextn filter_step 9 (mkT [Some 60; None; Some 61; Some 62; None] (KSeq [cmaj; fsmp; fsmp; cmaj; fsmp; cmaj]))
    = [Some 60; None; Some 61; Some 62; None]
  /\ tonal_nextn filter_step 9 (mkT [Some 60; None; Some 61; Some 62] (KSeq [cmaj; cmaj; cmaj; fsmp]))
    = [Some 60; None; None; None]
  /\ tonal_nextn snap_step 3 (mkT [None; Some 62; Some 62; Some 62] (KSeq [cmaj; fsmp; cmaj])) = [None; Some 61; Some 62]
  /\ tonal_nextn degree_step 9 (mkT [Some (-1); None; Some (-1)] (KSeq [cmaj; cmaj; fsmp])) = [Some (-1); None; Some 4].
Proof. vm_compute. repeat split. Qed.

(** * several keys in one process, built / re-configured / queried in any order *)

(* the definition of the key in a slot is the last one given to THAT slot: operations on other slots (other
   keys being built, re-tuned, given another scale - whatever their scales are called) never change it, so
   every theorem above applies to every key of a session at every moment *)
Theorem C13_session_frame : forall ops more slot,
  Forall (fun o => sop_slot o <> slot) more -> session_key (ops ++ more) slot = session_key ops slot.
Proof. exact session_key_frame. Qed.
Print Assumptions C13_session_frame.

Theorem C13_session_reconfigure : forall ops slot k,
  session_key (ops ++ [SBuild slot k]) slot = Some k
  /\ (forall t k0, session_key ops slot = Some k0 -> session_key (ops ++ [SRetune slot t]) slot = Some (mkKey t (kscale k0)))
  /\ (forall s k0, session_key ops slot = Some k0 -> session_key (ops ++ [SRescale slot s]) slot = Some (mkKey (tonic k0) s)).
Proof.
  intros ops slot k. split; [apply session_key_build|].
  split; [intros t k0; apply session_key_retune|intros s k0; apply session_key_rescale].
Qed.
Print Assumptions C13_session_reconfigure.

Example C13_session_nonvacuous :
  let ops := [SBuild 0 (mkKey 0 (mkScale [0; 4; 7] 12)); SBuild 1 (mkKey 0 (mkScale [0; 1; 4; 6; 8; 11] 12));
              SRetune 0 5; SBuild 2 (mkKey 0 (mkScale [0; 3; 7] 12))] in
  key_contains (sk ops 4 1) 1 = true /\ key_contains (sk ops 4 0) 1 = false /\ key_contains (sk ops 2 0) 4 = true
  /\ key_contains (sk ops 4 0) 9 = true /\ nearest_note (sk ops 4 2) 2 = 3.
Proof. vm_compute. repeat split. Qed.

(** * Key and Scale OBJECTS that are held (by the user, by a tonal pattern, by an event stream) and re-tuned IN PLACE
      while they are in use; scales reached through their NAME; copies.  Model: Tonal/Held.v - a store of Scale
      objects, the registry Scale.dict and Key objects that refer to Scale objects; [key_of st slot] is the definition
      the Key object in [slot] has in the store [st], to which every theorem above applies.  All statements hold for
      EVERY store, i.e. after any history of constructions, assignments and queries. *)

(* key.tonic = t / key.scale = <object>: the key has the new tonic (scale) and keeps the other attribute; every other
   key of the process is what it was *)
Theorem C13_held_retune : forall st slot k,
  key_of st slot = Some k ->
  (forall t, key_of (hstep st (HTonic slot t)) slot = Some (mkKey t (kscale k))
             /\ forall sl, sl <> slot -> key_of (hstep st (HTonic slot t)) sl = key_of st sl)
  /\ (forall oid s, scale_of st oid = Some s ->
             key_of (hstep st (HRescale slot oid)) slot = Some (mkKey (tonic k) s)
             /\ forall sl, sl <> slot -> key_of (hstep st (HRescale slot oid)) sl = key_of st sl).
Proof.
  intros st slot k H. split; [intros t; apply held_tonic; exact H|].
  intros oid s Hs. apply held_rescale; assumption.
Qed.
Print Assumptions C13_held_retune.

(* scale.semitones = l (also shuffle() / change(), which re-order the list in place) and scale.octave_size = o:
   EVERY key that refers to this Scale object is re-tuned - it has its own tonic, the new semitones (octave size) and the
   object's other attribute - and every key that refers to another Scale object is untouched *)
Theorem C13_held_scale_object_retuned : forall st oid s slot ko,
  scale_of st oid = Some s -> kobj_of st slot = Some ko ->
  (forall l, key_of (hstep st (HSemis oid l)) slot =
             if Nat.eqb oid (ko_scale ko) then Some (mkKey (ko_tonic ko) (mkScale l (osize s))) else key_of st slot)
  /\ (forall o, key_of (hstep st (HOsize oid o)) slot =
             if Nat.eqb oid (ko_scale ko) then Some (mkKey (ko_tonic ko) (mkScale (semis s) o)) else key_of st slot).
Proof.
  intros st oid s slot ko Hs Hk. split; [intros l; apply held_semis; assumption|intros o; apply held_osize; assumption].
Qed.
Print Assumptions C13_held_scale_object_retuned.

(* whatever is done to OTHER Key objects and OTHER Scale objects (constructed - under any name -, copied, re-tuned)
   never changes the definition of a key *)
Theorem C13_held_frame : forall st o slot ko,
  kobj_of st slot = Some ko -> op_slot o <> Some slot -> op_oid o <> Some (ko_scale ko) ->
  key_of (hstep st o) slot = key_of st slot.
Proof. exact held_frame. Qed.
Print Assumptions C13_held_frame.

(* no hidden state: the definition a key has after j operations of a session is determined by the constructions and
   assignments among them, in order - not by which patterns exist, what was queried, or how many values were pulled *)
Theorem C13_held_history_only : forall ops j slot,
  xkey ops j slot = dk (hrun init_store (xmuts (firstn j ops))) slot.
Proof. intros ops j slot. unfold xkey. rewrite xrun_store. reflexivity. Qed.
Print Assumptions C13_held_history_only.

(* a tonal pattern that holds Key / Scale objects: EVERY nextn call, in whatever store it happens, returns what a fresh
   pattern of the class returns over the notes that are left and the PRESENT definitions of the objects that are left
   (so C13_progression_aligned, C13_filter/snap/degree/rest_progression apply to it with the present definitions);
   step i of the call asked the i-th remaining object as it is now, about the i-th remaining note; and the pattern has
   moved on by exactly one note and one key per value returned *)
Theorem C13_held_nextn_current : forall st n p,
  map obs_out (fst (hp_nextn st n p)) = tonal_nextn (tfn_step (hp_f p)) n (mkT (hp_mel p) (ksrc_now st (hp_keys p)))
  /\ (forall i k x y, nth_error (fst (hp_nextn st n p)) i = Some (k, x, y) ->
        nth_error (hp_mel p) i = Some x /\ option_map (oref_key st) (kref_nth (hp_keys p) i) = Some k
        /\ y = tfn_step (hp_f p) k x)
  /\ snd (hp_nextn st n p) = mkHP (hp_f p) (skipn (List.length (fst (hp_nextn st n p))) (hp_mel p))
                                  (kref_skip (List.length (fst (hp_nextn st n p))) (hp_keys p)).
Proof.
  intros st n p. split; [apply hp_nextn_out|]. split; [apply hp_nextn_obs|]. apply (hp_nextn_state st n p).
Qed.
Print Assumptions C13_held_nextn_current.

(* over a whole session: after ANY operations (objects built and re-tuned, other patterns created and pulled, this
   pattern pulled in several calls) a pattern stands exactly as many notes and keys further as it has returned values *)
Theorem C13_held_positions : forall ops s pid p,
  pat_of s pid = Some p -> existsb (opens pid) ops = false ->
  pat_of (xrun s ops) pid =
  Some (mkHP (hp_f p) (skipn (xproduced s ops pid) (hp_mel p)) (kref_skip (xproduced s ops pid) (hp_keys p))).
Proof. exact xrun_positions. Qed.
Print Assumptions C13_held_positions.

(* PFilterByKey on a held key: a note that comes out is the note that went in and is in the key AS IT IS NOW; a note in
   the present key passes, any other becomes a rest, a rest stays a rest *)
Theorem C13_held_filter : forall st n p i k x y,
  hp_f p = FFilter -> nth_error (fst (hp_nextn st n p)) i = Some (k, x, y) ->
  option_map (oref_key st) (kref_nth (hp_keys p) i) = Some k
  /\ (forall v, y = Some v -> x = Some v /\ key_contains k v = true)
  /\ (forall v, x = Some v -> y = if key_contains k v then Some v else None)
  /\ (x = None -> y = None).
Proof.
  intros st n p i k x y Hf H. destruct (hp_nextn_obs st n p i k x y H) as (_ & B & C).
  rewrite Hf in C. cbn [tfn_step] in C. split; [exact B|]. subst y. split.
  - intros v E. apply filter_step_some in E. exact E.
  - split; [intros v ->; reflexivity|intros ->; reflexivity].
Qed.
Print Assumptions C13_held_filter.

(* PNearestNoteInKey on a held key: the output is in the key as it is now and no note of that key is strictly closer *)
Theorem C13_held_snap : forall st n p i k v y,
  hp_f p = FSnap -> nth_error (fst (hp_nextn st n p)) i = Some (k, Some v, y) ->
  0 < osize (kscale k) -> semis (kscale k) <> [] ->
  option_map (oref_key st) (kref_nth (hp_keys p) i) = Some k
  /\ exists w, y = Some w /\ key_contains k w = true
       /\ (forall z, key_contains k z = true -> Z.abs (w - v) <= Z.abs (z - v))
       /\ (key_contains k v = true -> w = v).
Proof.
  intros st n p i k v y Hf H Ho Hne. destruct (hp_nextn_obs st n p i k _ y H) as (_ & B & C).
  rewrite Hf in C. cbn [tfn_step snap_step option_map] in C. split; [exact B|].
  exists (nearest_note k v). destruct (C13_nearest k v Ho Hne) as [P [Q R]]. repeat split; assumption.
Qed.
Print Assumptions C13_held_snap.

(* PDegree on a held key or scale: degree d gives the d-th degree of the object as it is now *)
Theorem C13_held_degree : forall st n p i k d y,
  hp_f p = FDegree -> nth_error (fst (hp_nextn st n p)) i = Some (k, Some d, y) ->
  option_map (oref_key st) (kref_nth (hp_keys p) i) = Some k
  /\ y = Some (key_get k d)
  /\ (valid_scale (kscale k) = true -> key_contains k (key_get k d) = true).
Proof.
  intros st n p i k d y Hf H. destruct (hp_nextn_obs st n p i k _ y H) as (_ & B & C).
  rewrite Hf in C. split; [exact B|]. split; [exact C|]. apply C13_degree_in_key.
Qed.
Print Assumptions C13_held_degree.

(* scales reached through their NAME: a user-defined scale is registered when it is constructed (the first registration
   of a name wins and is never replaced by constructing further scales); Key(t, name), Key("<note> <name>"),
   Key(t, Scale.byname(name)) and an event's key string give a key with the registered scale's semitones AND octave size;
   the names of the library's scales stand for the generated table from the start *)
Theorem C13_named_scale : forall st slot t name s,
  (forall oid, reg_of st name = None -> reg_scale (hstep st (HScale oid name s)) name = Some s)
  /\ (forall oid name' s' o, reg_of st name = Some o -> o <> oid ->
        reg_scale (hstep st (HScale oid name' s')) name = reg_scale st name)
  /\ (reg_scale st name = Some s -> key_of (hstep st (HKeyNamed slot t name)) slot = Some (mkKey t s))
  /\ reg_scale init_store name =
     match find (fun ns => String.eqb (fst ns) name) builtin_scales with Some ns => Some (snd ns) | None => None end.
Proof.
  intros st slot t name s. split; [intros oid H; apply held_register; exact H|].
  split; [intros oid name' s' o H Hne; eapply held_registered_stays; eassumption|].
  split; [apply held_key_named|apply init_reg_scale].
Qed.
Print Assumptions C13_named_scale.

(* copies: a copy of a Scale object has the same semitones and the same octave size; a shallow or deep copy of a Key
   object has the definition of the original - so every degree, membership and nearest-note answer is the same *)
Theorem C13_copies : forall st,
  (forall oid src s, scale_of st src = Some s ->
     scale_of (hstep st (HScaleCopy oid src)) oid = Some s
     /\ (oid <> src -> scale_of (hstep st (HScaleCopy oid src)) src = Some s))
  /\ (forall slot src k, key_of st src = Some k -> key_of (hstep st (HKeyCopy slot src)) slot = Some k)
  /\ (forall slot src oid k, key_of st src = Some k -> key_of (hstep st (HKeyDeep slot src oid)) slot = Some k).
Proof.
  intros st. split; [intros oid src s; apply held_scale_copy|].
  split; [intros slot src k; apply held_key_copy|intros slot src oid k; apply held_key_deep].
Qed.
Print Assumptions C13_copies.

(* non-vacuity: one PFilterByKey over one held key; the key is transposed, then its Scale object is given other
   semitones, between calls of nextn on the same pattern object; a 19-step scale is reached by its name and copied *)
Example C13_held_nonvacuous :
  let ops := [XMut (HScale 100 "u" (mkScale [0; 2; 4; 5; 7; 9; 11] 12)); XMut (HKey 0 0 100);
              XOpen 0 (mkHP FFilter [Some 60; Some 61; Some 62; Some 61; Some 62] (RConst (OKey 0)));
              XNext 0 2; XMut (HTonic 0 1); XNext 0 1; XMut (HSemis 100 [0; 1]); XNext 0 5;
              XMut (HScale 101 "nineteen" (mkScale [0; 3; 6; 8; 11; 14; 17] 19)); XMut (HKeyNamed 1 2 "nineteen");
              XMut (HScaleCopy 102 101); XMut (HKey 2 2 102); XMut (HKeyNamed 3 9 "pelog")] in
  map obs_out (xout ops 3) = [Some 60; None] /\ map obs_out (xout ops 5) = [None]
  /\ map obs_out (xout ops 7) = [Some 61; Some 62]
  /\ xkey ops 8 0 = mkKey 1 (mkScale [0; 1] 12)
  /\ key_get (xkey ops 10 1) 7 = 21 /\ key_get (xkey ops 13 2) (-1) = 0 /\ xkey ops 13 2 = xkey ops 13 1
  /\ xkey ops 13 3 = mkKey 9 (mkScale [0; 1; 3; 7; 8] 12).
Proof. vm_compute. repeat split. Qed.

(** * what a registered NAME denotes is not changed by later, unrelated constructions *)
(* for every store and EVERY history of operations that do not write the registered Scale object itself - scales and weighted
   scales constructed under any name (also this one), copies (they carry the name of their original) and their later
   editing, keys built from objects or names, other keys and scales re-tuned - the name is still registered to the same
   object and Scale.byname(name) / Key(t, name) / Key("D name") / an event's key string give the same scale *)
Theorem C13_name_denotes_stable : forall ops st name r,
  reg_of st name = Some r -> Forall (fun o => op_oid o <> Some r) ops ->
  reg_of (hrun st ops) name = Some r /\ reg_scale (hrun st ops) name = reg_scale st name.
Proof. exact name_stable_run. Qed.
Print Assumptions C13_name_denotes_stable.

Example C13_name_nonvacuous :
  let ops := [HScaleCopy 200 3; HSemis 200 [0; 2; 3; 6; 7; 8; 11]; HScale 201 "minor" (mkScale [0; 1; 2] 12);
              HScale 202 "major" (mkScale [0; 4; 7] 12); HKeyNamed 0 9 "minor"; HKey 1 0 200] in
  reg_of init_store "minor" = Some 3%nat
  /\ forallb (fun o => match op_oid o with Some r => negb (Nat.eqb r 3) | None => true end) ops = true
  /\ key_of (hrun init_store ops) 0 = Some (mkKey 9 (mkScale [0; 2; 3; 5; 7; 8; 10] 12))
  /\ key_of (hrun init_store ops) 1 = Some (mkKey 0 (mkScale [0; 2; 3; 6; 7; 8; 11] 12))
  /\ reg_scale (hrun init_store ops) "major" = Some (mkScale [0; 2; 4; 5; 7; 9; 11] 12).
Proof. vm_compute. repeat split. Qed.

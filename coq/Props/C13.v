(* Props/C13.v — property C13: keys and scales map degrees to in-key notes; the nearest note is nearest.
   Only the property theorems live here; each is closed by a lemma of Tonal/KeyProofs.v or by
   computation over the table generated from the source (Generated/Tables.v). *)
From Isobar Require Import Base.Prelude Tonal.Key Tonal.KeyProofs Tonal.Progression Tonal.ProgressionProofs Generated.Tables.
From Coq Require Import String.

(* degree d maps to tonic + scale[d mod n] + octave * floor(d / n) *)
Theorem C13_degree : forall k d,
  key_get k d = tonic k + znth (semis (kscale k)) (d mod slen (kscale k))
                + osize (kscale k) * (d / slen (kscale k)).
Proof. intros. unfold key_get, scale_get. lia. Qed.
Print Assumptions C13_degree.

(* strictly increasing in d for every ascending scale (all d, e in Z: negative degrees descend) *)
Theorem C13_strictly_increasing : forall k d e,
  valid_scale (kscale k) = true -> d < e -> key_get k d < key_get k e.
Proof. intros k d e Hv H. unfold key_get. pose proof (scale_get_mono _ Hv d e H). lia. Qed.
Print Assumptions C13_strictly_increasing.

Theorem C13_degree_in_key : forall k d,
  valid_scale (kscale k) = true -> key_contains k (key_get k d) = true.
Proof. exact key_get_in_key. Qed.
Print Assumptions C13_degree_in_key.

(* membership depends only on the pitch class; a rest is always in key *)
Theorem C13_pitch_class : forall k x m,
  0 < osize (kscale k) -> key_contains k (x + m * osize (kscale k)) = key_contains k x.
Proof. intros k x m Ho. apply contains_shift. exact Ho. Qed.
Print Assumptions C13_pitch_class.

Theorem C13_rest_in_key : forall k, key_contains_opt k None = true /\ key_get_opt k None = None.
Proof. intros; split; reflexivity. Qed.

(* the nearest in-key note is in the key, no in-key note is strictly closer, in-key notes are fixed:
   for every key with at least one semitone and a positive octave size (no ascending-ness needed) *)
Theorem C13_nearest : forall k x,
  0 < osize (kscale k) -> semis (kscale k) <> [] ->
  key_contains k (nearest_note k x) = true
  /\ (forall y, key_contains k y = true -> Z.abs (nearest_note k x - x) <= Z.abs (y - x))
  /\ (key_contains k x = true -> nearest_note k x = x).
Proof.
  intros k x Ho Hne. destruct (nearest_spec k Ho Hne x) as [A B].
  split; [exact A|]. split; [exact B|]. apply nearest_in_key_id.
Qed.
Print Assumptions C13_nearest.

(* every scale the library defines (table regenerated from the source on every run) is in the
   documented domain, hence all of the above applies to every built-in key on every tonic *)
Theorem C13_builtin_valid : forallb (fun ns => valid_scale (snd ns)) builtin_scales = true.
Proof. vm_compute. reflexivity. Qed.

Theorem C13_builtin : forall name s t, In (name, s) builtin_scales ->
  let k := mkKey t s in
  (forall d e, d < e -> key_get k d < key_get k e)
  /\ (forall d, key_contains k (key_get k d) = true)
  /\ (forall x, key_contains k (nearest_note k x) = true
               /\ forall y, key_contains k y = true -> Z.abs (nearest_note k x - x) <= Z.abs (y - x)).
Proof.
  intros name s t Hin k.
  pose proof C13_builtin_valid as Hall. rewrite forallb_forall in Hall.
  specialize (Hall _ Hin). simpl in Hall.
  assert (Hv : valid_scale (kscale k) = true) by exact Hall.
  split; [intros d e; apply C13_strictly_increasing; exact Hv|].
  split; [intros d; apply C13_degree_in_key; exact Hv|].
  intros x. pose proof (valid_osize _ Hv) as Ho. destruct (valid_facts _ Hv) as [Hne _].
  destruct (C13_nearest k x Ho Hne) as [A [B _]]. split; assumption.
Qed.
Print Assumptions C13_builtin.

(* non-vacuity: the hypotheses are met by a concrete user scale with a 19-step octave *)
Example C13_nonvacuous :
  valid_scale (mkScale [1; 4; 9; 17] 19) = true
  /\ nearest_note (mkKey 5 (mkScale [1; 4; 9; 17] 19)) 26 = 25
  /\ key_get (mkKey 5 (mkScale [1; 4; 9; 17] 19)) (-3) = -10.
Proof. vm_compute. repeat split. Qed.

(** note names <-> MIDI numbers, whole MIDI range (finite domain, enumerated completely) *)
Definition names_roundtrip_ok (n : Z) : bool :=
  match midi_note_to_note_name note_names n with
  | Some s => option_eqb Z.eqb (note_name_to_midi_note note_names s) (Some n)
  | None => false
  end.

Theorem C13_names_number_roundtrip : forall n, 0 <= n <= 127 ->
  exists s, midi_note_to_note_name note_names n = Some s /\ note_name_to_midi_note note_names s = Some n.
Proof.
  assert (H : forallb names_roundtrip_ok (zrange 0 128) = true) by (vm_compute; reflexivity).
  rewrite forallb_forall in H. intros n Hn.
  specialize (H n ltac:(apply in_zrange; lia)). unfold names_roundtrip_ok in H.
  destruct (midi_note_to_note_name note_names n) as [s|]; [|discriminate].
  exists s. split; [reflexivity|].
  destruct (note_name_to_midi_note note_names s) as [m|]; [|discriminate].
  simpl in H. apply Z.eqb_eq in H. congruence.
Qed.
Print Assumptions C13_names_number_roundtrip.

(* every spelling (sharp or flat, any case) with octave -1..9 that lands in 0..127 converts to a
   number whose name is the canonical (first) spelling of the same pitch class and octave *)
Definition smap (f : Ascii.ascii -> Ascii.ascii) (s : string) : string :=
  string_of_list_ascii (map f (list_ascii_of_string s)).
Definition spellings : list (string * string * Z) :=   (* spelling, canonical pitch-class name, octave *)
  flat_map (fun set => flat_map (fun nm => flat_map (fun oc =>
     [(nm, hd ""%string set, oc); (smap lower nm, hd ""%string set, oc); (smap upper nm, hd ""%string set, oc)])
     (zrange (-1) 11)) set) note_names.
Definition spelling_ok (t : string * string * Z) : bool :=
  let '(nm, canon, oc) := t in
  match note_name_to_midi_note note_names (nm ++ show_Z oc) with
  | None => false
  | Some n => if (127 <? n) then true
              else option_eqb String.eqb (midi_note_to_note_name note_names n) (Some (canon ++ show_Z oc)%string)
  end.

Theorem C13_names_spelling_roundtrip : forall t, In t spellings -> spelling_ok t = true.
Proof. apply forallb_forall. vm_compute. reflexivity. Qed.
Print Assumptions C13_names_spelling_roundtrip.

Example C13_names_nonvacuous :
  List.length spellings = 561%nat
  /\ note_name_to_midi_note note_names "eb-1" = Some 3
  /\ midi_note_to_note_name note_names 61 = Some "C#4"%string.
Proof. vm_compute. repeat split. Qed.

(** * the key is a time-varying pattern (a key progression) and the melody contains rests *)

(* the tonal patterns pull ONE note and ONE key per step - also when the note is a rest - so output i is
   f (key i) (note i) and exists exactly as long as both patterns last (and i is below the count asked for) *)
Theorem C13_progression_aligned : forall f n mel ks i y,
  nth_error (tonal_nextn f n (mkT mel ks)) i = Some y <->
  (i < n)%nat /\ exists x k, nth_error mel i = Some x /\ ksrc_nth ks i = Some k /\ y = f k x.
Proof. exact tonal_nextn_some. Qed.
Print Assumptions C13_progression_aligned.

(* PFilterByKey never lets a note through that is out of the key in force AT THAT STEP, passes every note
   that is in it unchanged, and drops the others *)
Theorem C13_filter_progression : forall n mel ks i,
  (forall y, nth_error (tonal_nextn filter_step n (mkT mel ks)) i = Some (Some y) ->
     exists k, ksrc_nth ks i = Some k /\ key_contains k y = true /\ nth_error mel i = Some (Some y))
  /\ (forall x k, (i < n)%nat -> nth_error mel i = Some (Some x) -> ksrc_nth ks i = Some k ->
     nth_error (tonal_nextn filter_step n (mkT mel ks)) i = Some (if key_contains k x then Some x else None)).
Proof.
  intros n mel ks i. split.
  - intros y H. apply tonal_nextn_some in H as [_ [x [k [A [B C]]]]].
    symmetry in C. apply filter_step_some in C as [-> C]. exists k. repeat split; assumption.
  - intros x k L A B. apply tonal_nextn_some. split; [exact L|]. exists (Some x), k. repeat split; assumption.
Qed.
Print Assumptions C13_filter_progression.

(* PNearestNoteInKey: every note comes out as a note of the key in force at that step, and no note of that
   key is strictly closer; a note already in that key is unchanged *)
Theorem C13_snap_progression : forall n mel ks i x k,
  (i < n)%nat -> nth_error mel i = Some (Some x) -> ksrc_nth ks i = Some k ->
  0 < osize (kscale k) -> semis (kscale k) <> [] ->
  exists y, nth_error (tonal_nextn snap_step n (mkT mel ks)) i = Some (Some y)
    /\ key_contains k y = true
    /\ (forall z, key_contains k z = true -> Z.abs (y - x) <= Z.abs (z - x))
    /\ (key_contains k x = true -> y = x).
Proof.
  intros n mel ks i x k L A B Ho Hne. exists (nearest_note k x).
  destruct (C13_nearest k x Ho Hne) as [P [Q R]].
  split; [|split; [exact P|split; [exact Q|exact R]]].
  apply tonal_nextn_some. split; [exact L|]. exists (Some x), k. repeat split; assumption.
Qed.
Print Assumptions C13_snap_progression.

(* PDegree over a progression: degree d at step i is the d-th degree of key i, which is in key i *)
Theorem C13_degree_progression : forall n mel ks i d k,
  (i < n)%nat -> nth_error mel i = Some (Some d) -> ksrc_nth ks i = Some k ->
  nth_error (tonal_nextn degree_step n (mkT mel ks)) i = Some (Some (key_get k d))
  /\ (valid_scale (kscale k) = true -> key_contains k (key_get k d) = true).
Proof.
  intros n mel ks i d k L A B. split.
  - apply tonal_nextn_some. split; [exact L|]. exists (Some d), k. repeat split; assumption.
  - intros Hv. apply C13_degree_in_key. exact Hv.
Qed.
Print Assumptions C13_degree_progression.

(* a rest stays a rest in all three patterns - and (C13_progression_aligned) it has consumed one key value
   like any other step, so the steps after it are still judged against their own key *)
Theorem C13_rest_progression : forall f n mel ks i k,
  f = filter_step \/ f = snap_step \/ f = degree_step ->
  (i < n)%nat -> nth_error mel i = Some None -> ksrc_nth ks i = Some k ->
  nth_error (tonal_nextn f n (mkT mel ks)) i = Some None.
Proof.
  intros f n mel ks i k Hf L A B. apply tonal_nextn_some. split; [exact L|].
  exists None, k. repeat split; try assumption. destruct Hf as [E|[E|E]]; rewrite E; reflexivity.
Qed.
Print Assumptions C13_rest_progression.

(* non-vacuity: C major and F# minor pentatonic (pitch classes 1 4 6 9 11) alternate under a melody with
   rests; the note after a rest is judged against the key of ITS step, not against the one a rest skipped *)
Example C13_progression_nonvacuous :
  let cmaj := mkKey 0 (mkScale [0; 2; 4; 5; 7; 9; 11] 12) in
  let fsmp := mkKey 6 (mkScale [0; 3; 5; 7; 10] 12) in
  tonal_nextn filter_step 9 (mkT [Some 60; None; Some 61; Some 62; None] (KSeq [cmaj; fsmp; fsmp; cmaj; fsmp; cmaj]))
    = [Some 60; None; Some 61; Some 62; None]
  /\ tonal_nextn filter_step 9 (mkT [Some 60; None; Some 61; Some 62] (KSeq [cmaj; cmaj; cmaj; fsmp]))
    = [Some 60; None; None; None]
  /\ tonal_nextn snap_step 3 (mkT [None; Some 62; Some 62; Some 62] (KSeq [cmaj; fsmp; cmaj])) = [None; Some 61; Some 62]
  /\ tonal_nextn degree_step 9 (mkT [Some (-1); None; Some (-1)] (KSeq [cmaj; cmaj; fsmp])) = [Some (-1); None; Some 4].
Proof. vm_compute. repeat split. Qed.

(** * several keys in one process, built / re-configured / queried in any order *)

(* the definition of the key in a slot is the last one given to THAT slot: operations on other slots (other
   keys being built, re-tuned, given another scale - whatever their scales are called) never change it, so
   every theorem above applies to every key of a session at every moment *)
Theorem C13_session_frame : forall ops more slot,
  Forall (fun o => sop_slot o <> slot) more -> session_key (ops ++ more) slot = session_key ops slot.
Proof. exact session_key_frame. Qed.
Print Assumptions C13_session_frame.

Theorem C13_session_reconfigure : forall ops slot k,
  session_key (ops ++ [SBuild slot k]) slot = Some k
  /\ (forall t k0, session_key ops slot = Some k0 -> session_key (ops ++ [SRetune slot t]) slot = Some (mkKey t (kscale k0)))
  /\ (forall s k0, session_key ops slot = Some k0 -> session_key (ops ++ [SRescale slot s]) slot = Some (mkKey (tonic k0) s)).
Proof.
  intros ops slot k. split; [apply session_key_build|].
  split; [intros t k0; apply session_key_retune|intros s k0; apply session_key_rescale].
Qed.
Print Assumptions C13_session_reconfigure.

Example C13_session_nonvacuous :
  let ops := [SBuild 0 (mkKey 0 (mkScale [0; 4; 7] 12)); SBuild 1 (mkKey 0 (mkScale [0; 1; 4; 6; 8; 11] 12));
              SRetune 0 5; SBuild 2 (mkKey 0 (mkScale [0; 3; 7] 12))] in
  key_contains (sk ops 4 1) 1 = true /\ key_contains (sk ops 4 0) 1 = false /\ key_contains (sk ops 2 0) 4 = true
  /\ key_contains (sk ops 4 0) 9 = true /\ nearest_note (sk ops 4 2) 2 = 3.
Proof. vm_compute. repeat split. Qed.

(* Props/C06.v — property C06: track lifecycle: counts, completion, removal, stop-when-done, limits, names.
   Statements about the executable scheduler model (Sched/Model.v); lemmas in Sched/LifecycleProofs.v
   (and Sched/TickFrame.v, Sched/QuantizeProofs.v, Sched/NoteOffProofs.v). *)
From Isobar Require Import Base.Prelude Sched.Model Sched.OnsetProofs Sched.TimeProofs Sched.NoteOffProofs
  Sched.TickFrame Sched.QuantizeProofs Sched.LifecycleProofs.

(** 1. Counts.  get_next_event raises StopIteration, touching nothing, once current_event_count >= max_event_count
    (max_event_count neither None nor 0); otherwise it pulls once and the count goes up by exactly 1 per event. *)
Theorem C06_count_step : forall tr,
  (count_exhausted tr = true <-> exists m, t_max tr = Some m /\ m <> 0 /\ m <= t_count tr)
  /\ (count_exhausted tr = true -> get_next_event tr = (GStop, tr))
  /\ (count_exhausted tr = false ->
      match fst (pull (t_stream tr)) with
      | REvent e => get_next_event tr = (GEvent e, set_count (set_stream tr (snd (pull (t_stream tr)))) (t_count tr + 1))
      | RStopIter => get_next_event tr = (GStop, set_stream tr (snd (pull (t_stream tr))))
      | RRaise => get_next_event tr = (GRaise, set_stream tr (snd (pull (t_stream tr))))
      end).
Proof. intros tr. split; [apply count_exhausted_iff|apply gne_spec]. Qed.
Print Assumptions C06_count_step.

(* A track on which Track.start has just run with a stream of [length items] events (endless when cyclic and
   non-empty), every event lasting at least one tick (the C01 hypothesis: none is skipped), max_event_count mx,
   current_event_count c0, no device fault.  lim = min(count left, stream length), count left = max(0, mx - c0)
   for mx not in {None, 0}, unbounded otherwise.  Then after ANY number j of ticks:
   - the number of ticks on which an event was handed to perform_event equals the number of events pulled
     (current_event_count - c0), and never exceeds lim;
   - while it is below lim the next call of get_next_event delivers an event; once it equals lim it raises
     StopIteration (and the track's stream position and count stay as they are);
   and (C06_count_reached) a finite lim is reached after finitely many ticks.  So the track performs exactly
   min(count, length) events. *)
Theorem C06_count : forall cfg items cyclic mx c0 tr nowT n,
  0 < tau cfg -> (2 <= fuel cfg)%nat -> dev_fail cfg = None ->
  (forall i, (i < length items)%nat -> exists e, nth i items RStopIter = REvent e /\ tau cfg <= e_dur e) ->
  0 <= c0 -> t_started tr = true -> t_next tr = t_cur tr -> t_stream tr = mkStream items 0 cyclic ->
  t_count tr = c0 -> t_max tr = mx ->
  forall j, let trj := fst (track_run cfg nowT tr n j) in
  let p := perf_run cfg nowT tr n j in
  t_count trj = c0 + p /\ 0 <= p
  /\ match lim items cyclic mx c0 with
     | Some l => p <= l /\ (p = l -> fst (get_next_event trj) = GStop)
                 /\ (p < l -> exists e tr1, get_next_event trj = (GEvent e, tr1))
     | None => exists e tr1, get_next_event trj = (GEvent e, tr1)
     end.
Proof.
  intros cfg items cyclic mx c0 tr nowT n Htau Hfuel Hfail Hitems Hc0 Hs Hn Hst Hcnt Hm j trj p.
  pose proof (count_start cfg items cyclic mx c0 tr Hc0 Hs Hn Hst Hcnt Hm Htau) as I0.
  destruct (count_run cfg items cyclic mx c0 Hfuel Hfail Hitems Hc0 j 0 tr nowT n I0) as [p' [I E]].
  fold trj in I. fold p in E. assert (p' = p) by lia. subst p'.
  split; [apply (c_count _ _ _ _ _ _ _ I)|]. split; [apply (c_p _ _ _ _ _ _ _ I)|].
  pose proof (c_le _ _ _ _ _ _ _ I) as Hle.
  destruct (lim items cyclic mx c0) as [l|] eqn:L.
  - split; [exact Hle|]. split.
    + intros ->. apply (gne_at_lim cfg items cyclic mx c0 Hfuel Hc0 l trj I L).
    + intros Hlt. destruct (gne_below cfg items cyclic mx c0 Hfuel Hitems Hc0 p trj I) as [e [tr1 [G _]]].
      * unfold below. rewrite L. exact Hlt.
      * exists e, tr1. exact G.
  - destruct (gne_below cfg items cyclic mx c0 Hfuel Hitems Hc0 p trj I) as [e [tr1 [G _]]].
    + unfold below. rewrite L. exact Logic.I.
    + exists e, tr1. exact G.
Qed.
Print Assumptions C06_count.

Theorem C06_count_reached : forall cfg items cyclic mx c0 tr nowT n l,
  0 < tau cfg -> (2 <= fuel cfg)%nat -> dev_fail cfg = None ->
  (forall i, (i < length items)%nat -> exists e, nth i items RStopIter = REvent e /\ tau cfg <= e_dur e) ->
  0 <= c0 -> t_started tr = true -> t_next tr = t_cur tr -> t_stream tr = mkStream items 0 cyclic ->
  t_count tr = c0 -> t_max tr = mx -> lim items cyclic mx c0 = Some l ->
  exists j, perf_run cfg nowT tr n j = l /\ t_count (fst (track_run cfg nowT tr n j)) = c0 + l.
Proof.
  intros cfg items cyclic mx c0 tr nowT n l Htau Hfuel Hfail Hitems Hc0 Hs Hn Hst Hcnt Hm L.
  pose proof (count_start cfg items cyclic mx c0 tr Hc0 Hs Hn Hst Hcnt Hm Htau) as I0.
  assert (Hl : 0 <= l) by (pose proof (c_le _ _ _ _ _ _ _ I0) as H; rewrite L in H; exact H).
  destruct (count_reaches cfg items cyclic mx c0 Htau Hfuel Hfail Hitems Hc0 l L (Z.to_nat l) 0 tr nowT n I0 ltac:(lia)) as [j Ij].
  exists j. destruct (count_run cfg items cyclic mx c0 Hfuel Hfail Hitems Hc0 j 0 tr nowT n I0) as [p' [I E]].
  pose proof (c_count _ _ _ _ _ _ _ I) as C1. pose proof (c_count _ _ _ _ _ _ _ Ij) as C2. split; lia.
Qed.
Print Assumptions C06_count_reached.

(* the limit in plain terms *)
Theorem C06_limit_is_min : forall items cyclic mx c0,
  let len := if cyclic && (0 <? length items)%nat then None else Some (Z.of_nat (length items)) in
  let left := match mx with Some m => if m =? 0 then None else Some (Z.max 0 (m - c0)) | None => None end in
  lim items cyclic mx c0 =
    match left, len with
    | Some a, Some b => Some (Z.min a b) | Some a, None => Some a | None, Some b => Some b | None, None => None
    end.
Proof. intros. unfold lim, cap, endless. destruct mx as [m|]; [destruct (m =? 0)|]; destruct (cyclic && _); reflexivity. Qed.

(** 2. Finished and removed.  StopIteration leaves Track.tick's try block exactly when the track is started, its
    next event is due, and the event loop meets the end of the stream or the count limit; the track is finished
    iff at that moment no note-off is pending (or it was finished before); a finished remove_when_done track leaves
    the timeline in that same turn (so on that same tick), any other stays. *)
Theorem C06_stop_iteration : forall cfg nowT tr n,
  (snd (track_tick_a cfg nowT tr n) = TStop <->
     t_started tr = true /\ t_next tr <= t_cur tr /\ fst (pull_loop (fuel cfg) tr None) = PStop)
  /\ ((1 <= fuel cfg)%nat -> t_next tr <= t_cur tr ->
      (count_exhausted tr = true \/ fst (pull (t_stream tr)) = RStopIter) -> fst (pull_loop (fuel cfg) tr None) = PStop).
Proof.
  intros cfg nowT tr n. split; [apply tick_a_stop_iff|].
  intros Hf D H. apply pull_loop_stop_first; [exact Hf|exact D|]. apply gne_stop_iff. exact H.
Qed.

Theorem C06_finished_removed : forall cfg tl id tr stopped, wf tl -> find_track id (tracks tl) = Some tr ->
  let tr' := track_tick_b cfg tr stopped in
  let tl' := finish_track cfg tl id stopped in
  t_finished tr' = t_finished tr || (stopped && match t_offs tr with [] => true | _ => false end)
  /\ (t_finished tr' && t_rwd tr = true -> find_track id (tracks tl') = None /\ actions tl' = actions tl ++ release_actions tr')
  /\ (t_finished tr' && t_rwd tr = false -> find_track id (tracks tl') = Some tr' /\ actions tl' = actions tl).
Proof. exact finish_track_spec. Qed.
Print Assumptions C06_finished_removed.

(** 3. Stop-when-done: Timeline.tick raises StopIteration iff the tick ran through without an exception and left no
    track and no pending action behind and stop_when_done is set; then the time does not advance; a tick that returns
    normally left something behind (or the flag is off) and advanced the time by one tick; never when the flag is off. *)
Theorem C06_stop_when_done : forall cfg tl,
  let '(tl', _, res) := tl_tick cfg tl in
  (res = RStopIteration -> tracks tl' = [] /\ actions tl' = [] /\ stop_when_done cfg = true /\ now tl' = now tl)
  /\ (res = ROk -> ~ (tracks tl' = [] /\ actions tl' = [] /\ stop_when_done cfg = true) /\ now tl' = now tl + tau cfg)
  /\ (stop_when_done cfg = false -> res <> RStopIteration).
Proof.
  intros cfg tl. pose proof (stop_iff cfg tl) as H. pose proof (never_stops_when_off cfg tl) as N.
  destruct (tl_tick cfg tl) as [[tl' c] res]. destruct H as [H1 H2]. auto.
Qed.
Print Assumptions C06_stop_when_done.

(** 4. max_tracks: over ALL histories (ticks, calls, callbacks issuing calls, faults): the number of scheduled tracks
    never exceeds a positive max_tracks; the refused schedule call returns TrackLimitReached and changes nothing. *)
Theorem C06_max_tracks : forall cfg ops tl, 0 < max_tracks cfg ->
  Z.of_nat (length (tracks tl)) <= max_tracks cfg ->
  Z.of_nat (length (tracks (run_state cfg tl ops))) <= max_tracks cfg.
Proof. exact max_tracks_invariant. Qed.
Print Assumptions C06_max_tracks.

Theorem C06_refused : forall cfg tl s q d count rwd name replace,
  named_target tl name replace = None ->
  max_tracks cfg <> 0 -> max_tracks cfg <= Z.of_nat (length (tracks tl)) ->
  exec_op cfg tl (OSchedule s q d count rwd name replace) = (tl, RTrackLimit).
Proof.
  intros. apply schedule_refused; [assumption|]. apply accepts_new_iff. auto.
Qed.

(** 5. Named replace: schedule(name = n, replace = True) on a timeline holding a track named n updates that track:
    same number of tracks, same ids in the same order, no new id; its event count is reset to 0 and it is unmuted;
    pending note-offs kept; stream / pending start as Track.update leaves them (C05). *)
Theorem C06_named_replace : forall cfg tl s q d count rwd name replace nm tr,
  named_target tl name replace = Some (nm, tr) ->
  let '(tl', res) := exec_op cfg tl (OSchedule s q d count rwd name replace) in
  res = ROk /\ length (tracks tl') = length (tracks tl) /\ map t_id (tracks tl') = map t_id (tracks tl)
  /\ next_id tl' = next_id tl
  /\ exists tr', find_named nm (tracks tl') = Some tr' /\ t_id tr' = t_id tr /\ t_count tr' = 0 /\ t_muted tr' = false
       /\ t_offs tr' = t_offs tr
       /\ tr' = set_muted (set_count (snd (track_update cfg tl tr s q d count)) 0) false.
Proof. exact named_replace. Qed.
Print Assumptions C06_named_replace.

(** 6. Silenced.  unschedule removes the track (its pending note-offs go to the timeline: C02) or raises
    TrackNotFound; clear removes every track; a track that has left is never scheduled again in ANY later history
    (ids are not reused), and a track that is not scheduled takes no turn in a tick: no call, no effect; every event
    performed while the track is muted makes no call and registers nothing. *)
Theorem C06_unschedule_clear : forall cfg tl t, wf tl ->
  match find_track t (tracks tl) with
  | Some tr => exec_op cfg tl (OUnschedule t) = (remove_track tl t, ROk)
               /\ find_track t (tracks (remove_track tl t)) = None
               /\ actions (remove_track tl t) = actions tl ++ release_actions tr
  | None => exec_op cfg tl (OUnschedule t) = (tl, RTrackNotFound)
  end
  /\ tracks (fst (exec_op cfg tl OClear)) = [] /\ snd (exec_op cfg tl OClear) = ROk.
Proof. intros cfg tl t W. split; [apply unschedule_spec; exact W|apply clear_spec]. Qed.

Theorem C06_gone_for_good : forall cfg ops tl id, wf tl -> (id < next_id tl)%nat ->
  find_track id (tracks tl) = None ->
  let tl' := run_state cfg tl ops in
  find_track id (tracks tl') = None /\ tick_one cfg tl' id = (tl', [], None).
Proof.
  intros cfg ops tl id W Hid F tl'. pose proof (gone_for_good cfg ops tl id W Hid F) as G.
  split; [exact G|apply absent_no_turn; exact G].
Qed.
Print Assumptions C06_gone_for_good.

Theorem C06_muted : forall fail nowT tr e n, t_muted tr = true -> perform_event fail nowT tr e n = (tr, [], n, PfOk).
Proof. exact muted_silent. Qed.

Theorem C06_mute_unmute : forall cfg tl t tr, find_track t (tracks tl) = Some tr ->
  find_track t (tracks (fst (exec_op cfg tl (OMute t)))) = Some (set_muted tr true)
  /\ find_track t (tracks (fst (exec_op cfg tl (OUnmute t)))) = Some (set_muted tr false).
Proof. exact mute_spec. Qed.

(* every timeline reachable from the empty one is well-formed (distinct ids below next_id) *)
Theorem C06_reachable_wf : forall cfg ops, wf (run_state cfg tl0 ops).
Proof.
  intros cfg ops. assert (G : forall tl, wf tl -> wf (run_state cfg tl ops)).
  { induction ops as [|o r IH]; intros tl W; [exact W|]. cbn [run_state].
    assert (W' : wf (fst (fst (step cfg tl o)))).
    { destruct o; try (unfold step; match goal with |- context [exec_op ?c ?t ?o] =>
        pose proof (exec_op_wf c t o W) as H; destruct (exec_op c t o) as [tl' r0]; exact H end).
      apply tl_tick_wf. exact W. }
    destruct (step cfg tl o) as [[tl' c] res]. apply IH. exact W'. }
  apply G. apply wf_tl0.
Qed.

(** non-vacuity.  tau = 1 unit.  Track 0: endless stream of 2-unit notes (gate 3: each note sounds 6 units), count 3,
    remove_when_done; track 1: two events, kept when done; max_tracks = 2, stop_when_done.  Track 0 performs exactly
    3 events (ticks 0, 2, 4), StopIteration is met on tick 6 while notes sound, it is finished and removed on tick 10
    when the last note-off (due 4 + 6) has been sent; a third schedule is refused; the named re-schedule keeps two
    tracks; after unschedule of track 1 the timeline stops on the next tick. *)
Definition ex_ev (p d g : Z) : evres := REvent (mkEvent d true (KNote [mkVoice p (Some 64) 0 (Some g)])).
Definition ex_cfg : config := mkConfig 1 [] 0 2 true false None 8.
Definition ex_ops : list op :=
  [OSchedule (mkStream [ex_ev 60 2 6] 0 true) None None (Some 3) true None true;
   OSchedule (mkStream [ex_ev 70 3 1; ex_ev 71 3 1] 0 false) None None None false (Some 5) true;
   OSchedule (mkStream [ex_ev 80 1 1] 0 false) None None None true None true]
  ++ repeat OTick 11
  ++ [OSchedule (mkStream [ex_ev 90 1 1] 0 false) None None (Some 1) true (Some 5) true; OTick; OTick; OUnschedule 1; OTick].
Definition ons (o : obs) : list Z := flat_map (fun c => match c with CNoteOn n _ _ => [n] | _ => [] end) (fst (fst o)).
Example C06_nonvacuous :
  map (fun o => snd (fst o)) (firstn 3 (run ex_cfg tl0 ex_ops)) = [ROk; ROk; RTrackLimit]
  /\ map ons (run ex_cfg tl0 ex_ops)
     = [ []; []; []; [60; 70]; []; [60]; [71]; [60]; []; []; []; []; []; []; []; [90]; []; []; [] ]
  /\ map snd (run ex_cfg tl0 ex_ops)
     = ([ [0]; [0;1]; [0;1]; [0;1]; [0;1]; [0;1]; [0;1]; [0;1]; [0;1]; [0;1]; [0;1]; [0;1]; [0;1]; [1]; [1]; [1]; [1]; []; [] ])%nat
  /\ nth 18 (map (fun o => snd (fst o)) (run ex_cfg tl0 ex_ops)) ROk = RStopIteration
  /\ lim [ex_ev 60 2 6] true (Some 3) 0 = Some 3 /\ lim [ex_ev 70 3 1; ex_ev 71 3 1] false None 0 = Some 2.
Proof. vm_compute. repeat split. Qed.

(** 6b. Operations that reach a track in the very tick in which it finishes (lemmas: Sched/TransitProofs.v).
    The finished remove_when_done track leaves the list INSIDE its own turn, so no state that a later turn of the same
    tick - or any call between ticks - can see holds a track that is finished and to be removed ("zombie"): an invariant
    of every reachable timeline and of every state between two turns.  Hence a schedule(name=...) issued by a later
    track's action in the tick in which the track of that name finished finds no such track and creates a new one
    (C06_named_replace / C06_refused decide by the current list), and a track that a named re-schedule did update is
    not swept away by anybody else's finishing step: the track schedule() returned is in the timeline. *)
From Isobar Require Import Sched.TransitProofs.

Theorem C06_no_zombie : forall cfg ops, no_zombie (tracks (run_state cfg tl0 ops)) = true.
Proof. intros cfg ops. apply run_no_zombie. reflexivity. Qed.
Print Assumptions C06_no_zombie.

(* ... and between any two turns of one tick: after the turns of ANY prefix of the snapshot (callbacks may do anything) *)
Theorem C06_no_zombie_between_turns : forall cfg ids tl c, no_zombie (tracks tl) = true ->
  no_zombie (tracks (fst (fst (phase_tracks cfg tl ids c)))) = true
  /\ forall id, no_zombie (tracks (fst (fst (tick_one cfg tl id)))) = true.
Proof. intros cfg ids tl c H. split; [apply phase_tracks_no_zombie; exact H|intros id; apply tick_one_no_zombie; exact H]. Qed.
Print Assumptions C06_no_zombie_between_turns.

(* the turn in which a remove_when_done track finishes ends with the track out of the list *)
Theorem C06_finished_turn_leaves : forall cfg tl id st tr, NoDup (map t_id (tracks tl)) -> find_track id (tracks tl) = Some tr ->
  zombie (track_tick_b cfg tr st) = true -> find_track id (tracks (finish_track cfg tl id st)) = None.
Proof. exact finished_turn_leaves. Qed.

(* a named re-schedule (from a callback or between ticks) never lands on a finished-and-removable track; the track it updates
   is listed afterwards, still not finished-and-removable, and survives the finishing step of any OTHER track's turn *)
Theorem C06_same_tick_reschedule : forall cfg tl s q d count rwd nm tr id' st,
  no_zombie (tracks tl) = true -> find_named nm (tracks tl) = Some tr -> t_id tr <> id' ->
  let tl' := fst (exec_op cfg tl (OSchedule s q d count rwd (Some nm) true)) in
  zombie tr = false
  /\ (exists tr', find_named nm (tracks tl') = Some tr' /\ t_id tr' = t_id tr /\ zombie tr' = false)
  /\ (forall t0, find_track (t_id tr) (tracks tl') = Some t0 -> find_track (t_id tr) (tracks (finish_track cfg tl' id' st)) = Some t0).
Proof. exact named_replace_survives. Qed.
Print Assumptions C06_same_tick_reschedule.

(* non-vacuity (tau = 1): the phrase (id 0, name 5: two notes of 2 ticks, gate 1/2) finishes on tick 4; the conductor (id 1, placed
   AFTER it) calls schedule(name 5) on tick 4 - in the tick in which the phrase finished and left.  The call finds no track named 5
   and creates track 2, which is in the timeline at the end of that tick and plays its two notes on ticks 5 and 7 *)
Definition zt_cfg : config :=
  mkConfig 1 [(CbNone, [OSchedule (mkStream [ex_ev 72 2 1; ex_ev 74 2 1] 0 false) None None None true (Some 5) true])] 0 0 false false None 8.
Definition zt_ops : list op :=
  [OSchedule (mkStream [ex_ev 60 2 1; ex_ev 62 2 1] 0 false) None None None true (Some 5) true;
   OSchedule (mkStream [REvent (mkEvent 4 false (KAction 0)); REvent (mkEvent 4 true (KAction 0))] 0 false) None None None true None true]
  ++ repeat OTick 10.
Example C06_same_tick_nonvacuous :
  map ons (run zt_cfg tl0 zt_ops) = [ []; []; [60]; []; [62]; []; []; [72]; []; [74]; []; [] ]
  /\ map snd (run zt_cfg tl0 zt_ops)
     = ([ [0]; [0;1]; [0;1]; [0;1]; [0;1]; [0;1]; [1;2]; [1;2]; [1;2]; [1;2]; [2]; [] ])%nat.
Proof. vm_compute. repeat split. Qed.

(** 6c. Scene changes: one callback removes tracks AND schedules as many new ones (the number of tracks is back at its value from the
    start of the tick).  [exec_cb_ops] runs any LIST of operations; [tick_one] looks the id up in the CURRENT list - not in a count -
    (C07_snapshot_removed, C06_gone_for_good): whatever the callback goes on to do after removing a track, the track stays out
    and takes no turn - no call - in that tick or later. *)
Theorem C06_removed_by_callback_silent : forall cfg tl id ops, wf tl -> (id < next_id tl)%nat -> find_track id (tracks tl) = None ->
  find_track id (tracks (exec_cb_ops cfg tl ops)) = None
  /\ tick_one cfg (exec_cb_ops cfg tl ops) id = (exec_cb_ops cfg tl ops, [], None).
Proof. exact removed_by_callback_takes_no_turn. Qed.
Print Assumptions C06_removed_by_callback_silent.
Theorem C06_unschedule_then_anything : forall cfg tl id tr ops, wf tl -> find_track id (tracks tl) = Some tr ->
  let tl1 := fst (exec_op cfg tl (OUnschedule id)) in
  find_track id (tracks (exec_cb_ops cfg tl1 ops)) = None
  /\ tick_one cfg (exec_cb_ops cfg tl1 ops) id = (exec_cb_ops cfg tl1 ops, [], None).
Proof. exact unschedule_then_anything. Qed.

(* non-vacuity (tau = 1): caller (id 0) fires on tick 2: unschedule track 1, schedule a new track - two tracks before, two after;
   track 1 (placed after the caller, a note due on that very tick) does not play on tick 2; its sounding note is released on time *)
Definition sc_cfg : config :=
  mkConfig 1 [(CbNone, [OUnschedule 1; OSchedule (mkStream [ex_ev 90 2 1] 0 true) None None None true None true])] 0 0 false false None 8.
Definition sc_ops : list op :=
  [OSchedule (mkStream [REvent (mkEvent 2 false (KAction 0)); REvent (mkEvent 8 true (KAction 0))] 0 false) None None None true None true;
   OSchedule (mkStream [ex_ev 60 2 3] 0 true) None None None true None true] ++ repeat OTick 6.
Example C06_scene_change_nonvacuous :
  map ons (run sc_cfg tl0 sc_ops) = [ []; []; [60]; []; []; [90]; []; [90] ]
  /\ map snd (run sc_cfg tl0 sc_ops) = ([ [0]; [0;1]; [0;1]; [0;1]; [0;2]; [0;2]; [0;2]; [0;2] ])%nat
  /\ map (fun o => flat_map (fun c => match c with CNoteOff n _ => [n] | _ => [] end) (fst (fst o))) (run sc_cfg tl0 sc_ops)
     = [ []; []; []; []; []; [60]; [90]; [] ].
Proof. vm_compute. repeat split. Qed.

(** 7. Interpolating tracks (control tracks scheduled with interpolate = linear / cosine; model: Sched/Interp.v, the
    lifecycle around it: Sched/InterpLife.v, lemmas Sched/InterpLifeProofs.v).  The non-interpolating statements above
    (C06_muted) speak about Model.perform_event; the interpolating branch of Track.tick reaches perform_event from two
    other call sites.  For EVERY state of the interpolating track (first tick, inside a segment, on the tick that opens
    the next segment), every mode, resolution and count limit, and EVERY history of ticks / mute / unmute / unschedule
    (= stop / clear): *)
From Isobar Require Import Sched.Interp Sched.InterpLife Sched.InterpLifeProofs.
From Coq Require Import QArith String.

(* one tick: muted -> no control call; not scheduled or not yet started -> nothing at all, the track is not touched;
   the successor state of the track does not depend on the mute flag *)
Theorem C06_interp_muted_tick : forall cospi tpb mode maxc st,
  (l_muted st = true ->
     match fst (lstep cospi tpb mode maxc st LTick) with Some o => is_call o = false | None => False end)
  /\ (l_sched st = false \/ (0 < l_wait st)%nat ->
      fst (lstep cospi tpb mode maxc st LTick) = Some ONone /\ l_track (snd (lstep cospi tpb mode maxc st LTick)) = l_track st)
  /\ (forall m', l_track (snd (lstep cospi tpb mode maxc st LTick))
                 = l_track (snd (lstep cospi tpb mode maxc (mkL (l_track st) m' (l_sched st) (l_wait st)) LTick))).
Proof.
  intros cospi tpb mode maxc st. split; [apply muted_tick_silent|]. split; [apply idle_tick_silent|].
  intros m'. destruct st as [tr m s w]. apply (mute_invisible cospi tpb mode maxc tr m m' s w).
Qed.
Print Assumptions C06_interp_muted_tick.

(* histories: on every tick on which the history says the track is muted, unscheduled or not started, no call ... *)
Theorem C06_interp_silent : forall cospi tpb mode maxc h st k,
  audible (nth k (gates h (l_muted st) (l_sched st) (l_wait st)) GOff) = false ->
  is_call (nth k (ltrace cospi tpb mode maxc h st) ONone) = false.
Proof. exact life_silent. Qed.
Print Assumptions C06_interp_silent.

(* ... and on every other tick exactly the outcome that the plain run of the track (Interp.run: never muted; C15 gives
   its closed form) has on the running tick of the same index: muting neither shifts nor delays the curve, nor changes
   the number of events taken from the stream, nor the tick on which the track finishes *)
Theorem C06_interp_audible : forall cospi tpb mode maxc h st k,
  let g := gates h (l_muted st) (l_sched st) (l_wait st) in
  audible (nth k g GOff) = true ->
  nth k (ltrace cospi tpb mode maxc h st) ONone
  = nth (run_index g k) (Interp.run cospi tpb mode maxc (n_running g) (l_track st)) ONone.
Proof. exact life_audible. Qed.
Print Assumptions C06_interp_audible.

(* whole-trace form (the gates are a function of the history alone), and its instance without unschedule *)
Theorem C06_interp_gates : forall cospi tpb mode maxc h st,
  let g := gates h (l_muted st) (l_sched st) (l_wait st) in
  ltrace cospi tpb mode maxc h st = apply_gates g (Interp.run cospi tpb mode maxc (n_running g) (l_track st)).
Proof. exact life_gates. Qed.
Theorem C06_interp_mask : forall cospi tpb mode maxc h tr m, no_unschedule h = true ->
  ltrace cospi tpb mode maxc h (mkL tr m true O)
  = mask (mute_flags h m) (Interp.run cospi tpb mode maxc (List.length (mute_flags h m)) tr).
Proof. exact life_mask. Qed.

(* the track machine ends every history in the state it would have reached without the mute / unmute calls;
   after unschedule no tick of any later history makes a call or moves the track *)
Theorem C06_interp_state : forall cospi tpb mode maxc h st m',
  l_track (lfinal cospi tpb mode maxc h st)
  = l_track (lfinal cospi tpb mode maxc (strip_mutes h) (mkL (l_track st) m' (l_sched st) (l_wait st))).
Proof. exact mutes_do_not_move_the_track. Qed.
Theorem C06_interp_unscheduled : forall cospi tpb mode maxc h st, l_sched st = false ->
  Forall (fun o => o = ONone) (ltrace cospi tpb mode maxc h st) /\ l_track (lfinal cospi tpb mode maxc h st) = l_track st.
Proof. exact unscheduled_for_good. Qed.
Print Assumptions C06_interp_unscheduled.

(* non-vacuity: control 7 on channel 1, points 0 -> 4 (4 ticks) -> 0 (2 ticks) -> end, linear, 4 ticks per beat; the
   start is deferred by one tick; muted before tick 3, unmuted before tick 5, unscheduled before tick 7: the values of
   ticks 3 and 4 are missing, tick 5 carries the value of ITS place on the curve (4, the second control point), nothing
   after the unschedule although two more values were due *)
Definition ex_cev (v : Q) (d : Q) : Interp.event :=
  Interp.mkEvent true d [("control"%string, VOpq 7); ("value"%string, VNum v); ("channel"%string, VOpq 1)].
Definition ex_life : list lop :=
  [LTick; LTick; LTick; LMute; LTick; LTick; LUnmute; LTick; LTick; LUnschedule; LTick; LTick; LUnmute; LTick].
Example C06_interp_nonvacuous :
  let call v := OCall (VOpq 7) (VNum v) (VOpq 1) in
  ltrace (fun _ => 0) 4 Linear None ex_life (life_init 1 [ex_cev 0 1; ex_cev 4 (1#2); ex_cev 0 1])
  = [ONone; call 0; call (4 # 4); ONone; ONone; call (16 # 4); call (4 # 2); ONone; ONone; ONone]
  /\ map audible (gates ex_life false true 1) = [false; true; true; false; false; true; true; false; false; false]
  /\ Interp.run (fun _ => 0) 4 Linear None 8 (Interp.init [ex_cev 0 1; ex_cev 4 (1#2); ex_cev 0 1])
     = [call 0; call (4 # 4); call (8 # 4); call (12 # 4); call (16 # 4); call (4 # 2); call (0 # 2); ONone].
Proof. vm_compute. repeat split. Qed.

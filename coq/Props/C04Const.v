(* Props/C04Const.v — property C04 for patterns and tuples-with-patterns HELD BY A PConstant (Pattern.pattern() wraps the
   values of a PDict / event dict, scalars-as-operands ... in PConstant; the consumer's Pattern.value() advances what is
   inside).  Model Pat/ConstHolder.v, lemmas Pat/ConstHolderProofs.v (on top of the fragment xarg of Pat/ResetProofs2.v, which
   has tuples to any depth: XA_tup). *)
From Isobar Require Import Base.Prelude Pat.Val Pat.Syntax Pat.Step Pat.ResetProofs Pat.ResetProofs2 Pat.ConstHolder Pat.ConstHolderProofs.
Open Scope Z_scope.

(* PConstant over ANY argument of the fragment - a pattern, a tuple holding patterns and values, tuples inside tuples -: after
   any number k of Pattern.value() reads (each advancing every pattern inside), reset() gives what reset() gives on the
   untouched holder; so the chord with a moving voice starts again at its first note *)
Theorem C04_constant_holder_rewinds : forall binop LMAX s f f' k a, xarg s a ->
  hreset binop LMAX f (hrun binop LMAX f' k (Held a)) = hreset binop LMAX f (Held a).
Proof. exact hreset_any_history. Qed.

(* a tuple of members of the fragment is in the fragment (so is a pattern): PConstant-over-tuple is covered *)
Theorem C04_constant_holder_fragment : forall s l p, Forall (xarg s) l -> xpat s p -> xarg s (AT l) /\ xarg s (AP p).
Proof. intros s l p Hl Hp. split; [exact (XA_tup s l Hl)|exact (XA_pat s p Hp)]. Qed.
Print Assumptions C04_constant_holder_rewinds.

(* non-vacuity: PConstant((PSeries(60, 1), (PSeries(0, 2), 7), 48)): three reads, reset(), and the first chord again *)
Example C04_constant_holder_nonvacuous :
  let ser a d := EP (ECall CSeries [EV (VInt a); EV (VInt d); EV (VInt 9)]) in
  hcheck Val.binop 100 30 (ET [ser 60 1; ET [ser 0 2; EV (VInt 7)]; EV (VInt 48)]) [true; true; true; false; true]
    [Yield (VTup [VInt 60; VTup [VInt 0; VInt 7]; VInt 48]); Yield (VTup [VInt 61; VTup [VInt 2; VInt 7]; VInt 48]);
     Yield (VTup [VInt 62; VTup [VInt 4; VInt 7]; VInt 48]); Yield VNone; Yield (VTup [VInt 60; VTup [VInt 0; VInt 7]; VInt 48])] = 0%nat.
Proof. vm_compute. reflexivity. Qed.

(* Props/C04Edges.v — property C04 at and beyond the EDGES of the argument domain of the stochastic classes: the
   contract of Pat/Seeded.v is parametric in the class, and the machines of Pat/Chance.v take their arguments as they are
   given - in particular PBrown's starting value is a parameter that may lie OUTSIDE [min, max] (chance.py: __init__ sets
   self.value = initial_value, reset() sets self.value = self.initial_value, __next__ returns the value BEFORE it steps
   and clamps): nothing below assumes init within the range, min <= max, a positive step, a non-empty list ... *)
From Isobar Require Import Base.Prelude Pat.Chance Pat.ChanceProofs Pat.Seeded Pat.SeededProofs.
From Coq Require Import QArith.
Open Scope Z_scope.

Section Edges.
  Variable R : Type.
  Variable r_unit : R -> Z * R.
  Variable r_below : Z -> R -> Z * R.
  Variable r_seed : Z -> R.

  (* PBrown(init, step, min, max), int mode, for ALL four arguments: after any history of next / reset / seed, reset()
     leaves the newly constructed instance with the seed in force ... *)
  Theorem C04_brown_any_arguments : forall init step mn mx s0 h,
    let cls := of_machine R (brown R r_below init step mn mx) in
    fst (kdo R r_seed cls (kafter R r_seed cls (knew R r_seed cls s0) h) KReset) =
    canonical R r_seed _ _ cls (seed_of s0 h) (configs_of h).
  Proof.
    intros init step mn mx s0 h cls.
    exact (reset_is_fresh R r_seed _ _ cls _ _ _ (machine_rewinds R (brown R r_below init step mn mx)) s0 h).
  Qed.

  (* ... and that instance - like a freshly seeded one - STARTS AT init AS GIVEN, inside the range or not (step >= 0; a
     negative int step makes rng.choice raise): the first value after reset() is the first value of a new instance *)
  Theorem C04_brown_starts_at_init : forall init step mn mx s0 h, 0 <= step ->
    let cls := of_machine R (brown R r_below init step mn mx) in
    let after_reset := fst (kdo R r_seed cls (kafter R r_seed cls (knew R r_seed cls s0) h) KReset) in
    krun R r_seed cls after_reset [KNext] = [Out (OZ init)] /\
    forall s, krun R r_seed cls (kafter R r_seed cls (knew R r_seed cls s0) [KSeed s]) [KNext] = [Out (OZ init)].
  Proof.
    intros init step mn mx s0 h Hs cls after_reset.
    assert (E : forall g sd, krun R r_seed cls (mkK init g sd) [KNext] = [Out (OZ init)]).
    { intros g sd. unfold krun. cbn [krun_st kdo sc_step cls of_machine m_step brown k_st k_gen k_seed]. unfold brown_step.
      destruct (step <? 0) eqn:E; [lia|]. destruct (r_below (2 * step + 1) g). reflexivity. }
    split.
    - pose proof (C04_brown_any_arguments init step mn mx s0 h) as F. cbv zeta in F. fold cls in F.
      unfold after_reset. rewrite F, (canonical_eq R r_seed _ _ cls). cbn [sc_new cls of_machine m_init brown fst snd].
      rewrite (configs_id R cls) by reflexivity. apply E.
    - intro s. unfold kafter, knew. cbn [krun_st kdo sc_seeded sc_new cls of_machine fst snd m_init brown k_st k_gen]. apply E.
  Qed.
End Edges.
Print Assumptions C04_brown_any_arguments.
Print Assumptions C04_brown_starts_at_init.

(* non-vacuity: PBrown(10, 1, 0, 5) - the seeded change C04-i's example - on the replay generator: 10 (as given), then the
   walk is clamped into [0, 5]; after reset() 10 again *)
Example C04_brown_edge_nonvacuous :
  let eps := [[]; [2; 0; 1]] in
  let cls := of_machine replay (brown replay rp_below 10 1 0 5) in
  krun replay (rp_seed eps) cls (knew replay (rp_seed eps) cls 0) [KSeed 1; KNext; KNext; KNext; KReset; KNext; KNext] =
  [Out (OZ 10); Out (OZ 5); Out (OZ 4); Out (OZ 10); Out (OZ 5)].
Proof. vm_compute. reflexivity. Qed.

(* Props/C13Src.v — property C13: the main theorems of Props/C13.v restated for the definitions translated from the BODIES
   of Scale.get, Key.get, Key.semitones, Key.__contains__, Key.nearest_note (Generated/TablesTonal.v; tie: Tonal/KeySrc.v).
   Each statement also says that the translated body is DEFINED on the inputs it speaks about (no ZeroDivisionError,
   IndexError or None-as-a-number on the executed path), so the total Coq operations stand for what Python computes. *)
From Isobar Require Import Base.Prelude Tonal.Key Tonal.KeyProofs Generated.TablesTonal Tonal.KeySrc Props.C13.
Local Open Scope Z_scope.

(* degree d maps to tonic + scale[d mod n] + octave * floor(d / n); a rest stays a rest *)
Theorem C13_src_degree : forall k d,
  semis (kscale k) <> [] ->
  src_key_get k (Some d) = Some (tonic k + znth (semis (kscale k)) (d mod slen (kscale k)) + osize (kscale k) * (d / slen (kscale k)))
  /\ src_key_get k None = None
  /\ src_key_get_defined k (Some d) = true.
Proof.
  intros k d Hne. split; [|split].
  - rewrite src_key_get_is. cbn [key_get_opt option_map]. f_equal. apply C13_degree.
  - reflexivity.
  - apply src_key_get_defined_ok. exact Hne.
Qed.
Print Assumptions C13_src_degree.

(* strictly increasing in the degree, and every degree lands in the key, for every ascending scale *)
Theorem C13_src_degree_in_key : forall k d e x y,
  valid_scale (kscale k) = true -> src_key_get k (Some d) = Some x -> src_key_get k (Some e) = Some y ->
  (d < e -> x < y) /\ src_key_contains k (Some x) = true.
Proof.
  intros k d e x y Hv Hx Hy. rewrite src_key_get_is in Hx, Hy. cbn in Hx, Hy. inversion Hx; inversion Hy; subst.
  split; [intros L; apply C13_strictly_increasing; assumption|].
  rewrite src_key_contains_is. cbn. apply C13_degree_in_key. exact Hv.
Qed.
Print Assumptions C13_src_degree_in_key.

(* membership depends only on the pitch class; a rest is always in key *)
Theorem C13_src_pitch_class : forall k x m,
  0 < osize (kscale k) ->
  src_key_contains k (Some (x + m * osize (kscale k))) = src_key_contains k (Some x)
  /\ src_key_contains k None = true
  /\ src_key_contains_defined k (Some x) = true.
Proof.
  intros k x m Ho. rewrite !src_key_contains_is. cbn [key_contains_opt]. split; [apply C13_pitch_class; exact Ho|].
  split; [reflexivity|]. apply src_key_contains_defined_ok. lia.
Qed.
Print Assumptions C13_src_pitch_class.

(* the nearest in-key note is in the key, no in-key note is strictly closer, in-key notes are fixed *)
Theorem C13_src_nearest : forall k x,
  0 < osize (kscale k) -> semis (kscale k) <> [] ->
  src_key_contains k (Some (src_key_nearest_note k x)) = true
  /\ (forall y, src_key_contains k (Some y) = true -> Z.abs (src_key_nearest_note k x - x) <= Z.abs (y - x))
  /\ (src_key_contains k (Some x) = true -> src_key_nearest_note k x = x)
  /\ src_key_nearest_note_defined k x = true.
Proof.
  intros k x Ho Hne. rewrite src_key_nearest_note_is.
  destruct (C13_nearest k x Ho Hne) as [A [B C]].
  split; [rewrite src_key_contains_is; exact A|]. split; [|split].
  - intros y. rewrite src_key_contains_is. apply B.
  - rewrite src_key_contains_is. exact C.
  - apply src_key_nearest_note_defined_ok; [lia | exact Hne].
Qed.
Print Assumptions C13_src_nearest.

Example C13_src_nonvacuous :
  let k := mkKey 2 (mkScale [0; 2; 4; 5; 7; 9; 11] 12) in
  src_key_get k (Some (-3)) = Some (-3) /\ src_key_nearest_note k 63 = 62 /\ src_key_nearest_note k 12 = 13
  /\ src_key_semitones k = [1; 2; 4; 6; 7; 9; 11] /\ src_key_nearest_note_defined k 63 = true.
Proof. vm_compute. repeat split. Qed.

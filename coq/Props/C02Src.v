(* Props/C02Src.v — property C02 (every note is released exactly once, on time), restated for the method bodies translated
   from the SOURCE TEXT of Track.process_note_offs, Timeline._release_pending_notes, Timeline.unschedule and Timeline.clear
   (Generated/TablesTrack.v; relation to the model: Sched/ModelSrc.v; reading of the data: Sched/SrcGlue.v, docs/TRANSLATOR3.md).
   `round(note_off.timestamp - self.current_time, 8) <= 0` is rendered as the exact comparison (Base/Round8.v
   r8_diff_compare; the binary64 side is Props/C02Float.v). *)
From Isobar Require Import Base.Prelude Sched.Model Sched.NoteOffProofs Sched.SrcGlue Generated.TablesTrack Sched.ModelSrc Sched.ModelSrcTrack Props.C02.
Local Open Scope Z_scope.

(* the loop over a copy of note_offs with removal releases exactly the entries that are due, in list order, and keeps
   the others in order; the track's clock is untouched *)
Theorem C02_src_release_due : forall tr,
  let '(tr', c) := src_track_process_note_offs tr in
  t_offs tr' = filter (fun n => negb (no_time n <=? t_cur tr)) (t_offs tr)
  /\ c = map (fun n => CNoteOff (no_note n) (no_chan n)) (filter (fun n => no_time n <=? t_cur tr) (t_offs tr))
  /\ t_cur tr' = t_cur tr.
Proof. intros tr. rewrite src_track_process_note_offs_is. apply process_spec. Qed.
Print Assumptions C02_src_release_due.

(* conservation at the track: what leaves the list is what is sent, nothing is sent twice, no note-on *)
Theorem C02_src_process_conservation : forall w tr,
  let '(tr', c) := src_track_process_note_offs tr in
  Wo w (t_offs tr') + Woff w c = Wo w (t_offs tr) /\ Won w c = 0.
Proof. intros w tr. rewrite src_track_process_note_offs_is. apply process_cons. Qed.
Print Assumptions C02_src_process_conservation.

(* after the loop nothing the track holds is due *)
Theorem C02_src_nothing_due_left : forall tr n, In n (t_offs (fst (src_track_process_note_offs tr))) -> t_cur tr < no_time n.
Proof. intros tr n. rewrite src_track_process_note_offs_is. apply after_process. Qed.
Print Assumptions C02_src_nothing_due_left.

(* a track that is unscheduled hands every pending release to the timeline: the pending weight is unchanged *)
Theorem C02_src_unschedule_keeps_pending : forall w tl tr, find_track (t_id tr) (tracks tl) = Some tr ->
  Pend w (fst (src_timeline_unschedule tl tr)) = Pend w tl
  /\ actions (fst (src_timeline_unschedule tl tr)) = actions tl ++ map (fun n => ARelease (no_abs n) (no_note n) (no_chan n)) (t_offs tr).
Proof.
  intros w tl tr H. rewrite (src_timeline_unschedule_found _ _ H). cbn [fst]. split; [apply remove_track_pend|].
  unfold remove_track. rewrite H. reflexivity.
Qed.
Print Assumptions C02_src_unschedule_keeps_pending.

Theorem C02_src_clear_keeps_pending : forall w tl, Pend w (fst (src_timeline_clear tl)) = Pend w tl /\ snd (src_timeline_clear tl) = ROk.
Proof.
  intros w tl. rewrite (src_timeline_clear_is (mkConfig 1 [] 0 0 false false None 0) tl). cbn [exec_op fst snd].
  split; [apply clear_pend|reflexivity].
Qed.
Print Assumptions C02_src_clear_keeps_pending.

(* silence: an inactive event, or any event performed while the track is muted, makes no call and registers nothing *)
Theorem C02_src_silence : forall fail nowT tr e n,
  e_active e = false \/ t_muted tr = true -> src_track_perform_event fail nowT tr e n = (tr, [], n, PfOk).
Proof. intros fail nowT tr e n H. rewrite src_track_perform_event_is. apply C02_silence. exact H. Qed.
Print Assumptions C02_src_silence.

(* the voice loop of the note branch (no device fault): exactly the voices with amplitude > 0 and gate > 0 sound, in order,
   each registering ONE release due duration*gate after the onset on the track's clock and on the timeline's *)
Theorem C02_src_voices : forall nowT tr vs n calls,
  fold_left (src_track_perform_voice None nowT) vs (tr, calls, n, true) =
    (set_offs tr (t_offs tr ++ map (voice_entry nowT (t_cur tr)) (filter voice_on vs)),
     calls ++ map voice_call (filter voice_on vs),
     (n + length (filter voice_on vs))%nat, true).
Proof. intros nowT tr vs n calls. rewrite voice_loop_is, C02_voices. reflexivity. Qed.
Print Assumptions C02_src_voices.

Example C02_src_nonvacuous :
  let tr := mkTrack 0 empty_stream 10 20 None 0 [mkNO 10 10 60 0; mkNO 11 11 61 0; mkNO 10 10 60 0; mkNO 3 3 62 1] false true false true None in
  src_track_process_note_offs tr
  = (set_offs tr [mkNO 11 11 61 0], [CNoteOff 60 0; CNoteOff 60 0; CNoteOff 62 1]).
Proof. vm_compute. reflexivity. Qed.

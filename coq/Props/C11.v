(* Props/C11.v — property C11: stochastic patterns are reproducible when seeded, isolated, and stay in range. *)
From Isobar Require Import Base.Prelude Pat.Chance Pat.ChanceProofs.
From Coq Require Import QArith.
Open Scope Z_scope.

Example C11_placeholder : two53 = 2 ^ 53.
Proof. reflexivity. Qed.

(* Props/C11.v — property C11: stochastic patterns are reproducible when seeded, isolated, and stay in range.
   Only the property theorems live here; each is closed by a lemma of Pat/ChanceProofs.v.
   The random generator is an oracle: R (generator states), r_unit (random() -> numerator of k/2^53),
   r_below (_randbelow(n)), r_seed (the state determined by a seed).  "Seeded with s" = the generator state is
   r_seed s.  All theorems hold for EVERY such oracle; the range/support theorems that need it assume only the
   contract of random.Random (0 <= k < 2^53, 0 <= _randbelow(n) < n), which [C11_contract_satisfiable] shows
   to be satisfiable.  After the sections close, the theorems quantify over R, r_unit, r_below, r_seed. *)
From Isobar Require Import Base.Prelude Pat.Chance Pat.ChanceProofs Pat.ChanceCopy Pat.ChanceCopyProofs
  Pat.ChanceSeed Pat.ChanceSeedProofs Pat.Seeded Pat.SeededProofs Pat.SeededNest Pat.SeededNestProofs Pat.SeededNestIso.
From Coq Require Import QArith Permutation Lqa.
Local Notation length := List.length (only parsing).
Open Scope Z_scope.

(** * Reproducibility: reset / re-seed / another instance — for every machine (class and arguments) *)
Section Reproducible.
  Variable R : Type.
  Variable r_unit : R -> Z * R.
  Variable r_below : Z -> R -> Z * R.
  Variable r_seed : Z -> R.
  Variable S : Type.
  Variable m : machine R S.

  (* whatever happened before (any history [pre], from any instance [i]), after reset() the outputs are those of
     a new instance seeded with the stored seed *)
  Theorem C11_reset_rewinds : forall i pre post,
    run R r_seed m i (pre ++ Reset :: post) =
    run R r_seed m i pre ++ run R r_seed m (fresh R r_seed m (i_seed (after R r_seed m i pre))) post.
  Proof. exact (reset_rewinds R r_seed S m). Qed.

  (* a pattern seeded with s and then driven by next()/reset() only: every reset replays the same sequence *)
  Theorem C11_reset_replays : forall s pre post, no_seed pre ->
    run R r_seed m (fresh R r_seed m s) (pre ++ Reset :: post) =
    run R r_seed m (fresh R r_seed m s) pre ++ run R r_seed m (fresh R r_seed m s) post.
  Proof. exact (reset_replays R r_seed S m). Qed.

  (* re-seeding with s and resetting, at any point of any history, gives the sequence of a new instance with seed s *)
  Theorem C11_reseed_replays : forall i pre s post,
    run R r_seed m i (pre ++ Seed s :: Reset :: post) =
    run R r_seed m i pre ++ run R r_seed m (fresh R r_seed m s) post.
  Proof. exact (reseed_reset_rewinds R r_seed S m). Qed.
End Reproducible.

(* classes without state of their own (PCoin, PChoice, PSample; their machines have state type unit): seed(s) alone *)
Theorem C11_reseed_replays_stateless : forall R (r_seed : Z -> R) (m : machine R unit) i pre s post,
  run R r_seed m i (pre ++ Seed s :: post) = run R r_seed m i pre ++ run R r_seed m (fresh R r_seed m s) post.
Proof. exact reseed_rewinds_stateless. Qed.

(** * Isolation: a world of patterns, each owning its generator, plus Python's global generator; any schedule *)
Section Isolated.
  Variable R : Type.
  Variable r_unit : R -> Z * R.
  Variable r_below : Z -> R -> Z * R.
  Variable r_seed : Z -> R.
  Variable S : Type.
  Variable M : nat -> machine R S.
  Notation wrun := (wrun R r_unit r_below r_seed S M).

  (* the outputs of pattern a inside any schedule (operations on other patterns, global random(), randrange(),
     random.seed() interleaved arbitrarily) are its outputs alone on its own operations *)
  Theorem C11_isolation : forall a sched w,
    outputs_of a (wrun w sched) = run R r_seed (M a) (w_inst R S w a) (proj a sched).
  Proof. intros. apply isolation. Qed.

  (* hence they do not depend on the rest of the world: other patterns, the global generator, the schedule *)
  Theorem C11_unaffected_by_others : forall a sched sched' w w',
    w_inst R S w a = w_inst R S w' a -> proj a sched = proj a sched' ->
    outputs_of a (wrun w sched) = outputs_of a (wrun w' sched').
  Proof. intros a sched sched' w w' Hw Hp. rewrite !C11_isolation, Hw, Hp. reflexivity. Qed.

  (* two instances with the same arguments and seed, receiving the same operations, agree — however interleaved *)
  Theorem C11_same_seed_same_sequence : forall a b s sched w,
    M a = M b ->
    w_inst R S w a = fresh R r_seed (M a) s -> w_inst R S w b = fresh R r_seed (M b) s ->
    proj a sched = proj b sched ->
    outputs_of a (wrun w sched) = outputs_of b (wrun w sched).
  Proof. intros a b s sched w HM Ha Hb Hp. rewrite !C11_isolation, Ha, Hb, Hp, HM. reflexivity. Qed.
End Isolated.

(** * Ranges and supports: for all generators respecting the contract, all seeds, all scripts, all steps *)
Section InRange.
  Variable R : Type.
  Variable r_unit : R -> Z * R.
  Variable r_below : Z -> R -> Z * R.
  Variable r_seed : Z -> R.
  Hypothesis unit_range : forall g, 0 <= fst (r_unit g) < two53.
  Hypothesis below_range : forall n g, 0 < n -> 0 <= fst (r_below n g) < n.

  (* white noise: floats within [min, max] *)
  Theorem C11_white_float : forall mn mx len ops i, (mn <= mx)%Q ->
    Forall (fun r => match r with Out (OQ x) => (mn <= x <= mx)%Q | Stop => True | _ => False end)
           (run R r_seed (white R r_unit true mn mx len) i ops).
  Proof.
    intros mn mx len ops i H. eapply Forall_impl; [|eapply white_range; eauto].
    intros [[z|q| |l]| |]; cbn; intuition congruence.
  Qed.

  (* white noise: ints within [min, max] *)
  Theorem C11_white_int : forall (a b : Z) len ops i, a <= b ->
    Forall (fun r => match r with Out (OZ z) => a <= z <= b | Stop => True | _ => False end)
           (run R r_seed (white R r_unit false (inject_Z a) (inject_Z b) len) i ops).
  Proof.
    intros a b len ops i H. eapply Forall_impl; [|eapply white_range; eauto; rewrite <- Zle_Qle; exact H].
    intros [[z|q| |l]| |]; cbn; try tauto; try (intuition congruence).
    intros [_ [x [Hx ->]]]. apply Qtrunc_range. exact Hx.
  Qed.

  (* a finite length yields exactly that many values: output j (counted from 0) of a new instance is
     StopIteration iff length > 0 and j >= length; by C11_reset_rewinds the same holds after every reset *)
  Theorem C11_white_length : forall is_f mn mx len s n j r, (mn <= mx)%Q ->
    nth_error (run R r_seed (white R r_unit is_f mn mx len) (fresh R r_seed (white R r_unit is_f mn mx len) s)
                   (repeat Next n)) j = Some r ->
    (r = Stop <-> 0 < len /\ len <= Z.of_nat j).
  Proof.
    intros is_f mn mx len s n j r H E. unfold fresh in E. cbn [m_init white] in E.
    eapply white_length_from in E; eauto. rewrite E. lia.
  Qed.

  (* brownian noise (int mode): each step moves by at most [step] before clamping; from inside [min, max] the next
     value is inside and at most [step] away; the value returned is the current one *)
  Theorem C11_brown_step : forall step mn mx v g r v' g', 0 <= step ->
    brown_step R r_below step mn mx v g = (r, v', g') ->
    r = Out (OZ v) /\ (exists d, - step <= d <= step /\ v' = Z.min (Z.max (v + d) mn) mx)
    /\ (mn <= mx -> mn <= v' <= mx) /\ (mn <= v <= mx -> Z.abs (v' - v) <= step).
  Proof. intros. eapply brown_step_ok; eauto. Qed.

  Theorem C11_brown_bounds : forall init step mn mx ops s, 0 <= step -> mn <= init <= mx ->
    Forall (fun r => match r with Out (OZ v) => mn <= v <= mx | _ => False end)
           (run R r_seed (brown R r_below init step mn mx) (fresh R r_seed (brown R r_below init step mn mx) s) ops).
  Proof. intros. eapply (brown_range R r_unit r_below r_seed); eauto. Qed.

  (* coins and flip-flops produce 0 or 1 *)
  Theorem C11_coin : forall p ops i, Forall binary (run R r_seed (coin R r_unit p) i ops).
  Proof. intros. apply coin_binary. Qed.
  Theorem C11_flipflop : forall init p_on p_off ops s, init = 0 \/ init = 1 ->
    Forall binary (run R r_seed (flipflop R r_unit init p_on p_off) (fresh R r_seed (flipflop R r_unit init p_on p_off) s) ops).
  Proof. intros. eapply flipflop_binary; eauto. Qed.

  (* random walk: the index moves by m positions up or down, min <= m <= max, wrapped; the value is values[index] *)
  Theorem C11_walk_step : forall values mn mx pos g r pos' g', 0 <= mn ->
    walk_step R r_unit r_below values mn mx true pos g = (r, pos', g') ->
    r = Fail \/ exists m v, mn <= m <= mx /\ (pos' = (pos + m) mod zlen values \/ pos' = (pos - m) mod zlen values)
                       /\ r = Out (OZ v) /\ nth_error values (Z.to_nat pos') = Some v.
  Proof. intros. eapply walk_step_ok; eauto. Qed.
  Theorem C11_walk_support : forall values mn mx wrap ops i,
    Forall (from_values values) (run R r_seed (walk R r_unit r_below values mn mx wrap) i ops).
  Proof. intros. apply walk_support. Qed.

  (* choices are drawn from the given values (weighted or not) *)
  Theorem C11_choice_support : forall values ws ops i,
    Forall (from_values values) (run R r_seed (pchoice R r_unit r_below values ws) i ops).
  Proof. intros. apply choice_support. Qed.

  (* samples are selections without replacement: the sample together with some rest is a permutation of the values,
     and it has exactly [count] elements *)
  Theorem C11_sample_without_replacement : forall values count ws s g l s' g',
    sample_step R r_unit r_below values count ws s g = (Out (OL l), s', g') ->
    (exists rest, Permutation (l ++ rest) values) /\ length l = Z.to_nat count.
  Proof. intros. eapply sample_step_ok; eauto. Qed.

  (* rng.shuffle yields a permutation; every output of PShuffle is one of the values; the first block of a new or
     reset PShuffle is a permutation of the values (later blocks repeat it) *)
  Theorem C11_shuffle_permutation : forall l g, Permutation (fst (shuffle R r_below l g)) l.
  Proof. intros. eapply shuffle_perm; eauto. Qed.
  Theorem C11_pshuffle_support : forall values repeats ops s,
    Forall (from_values' values)
           (run R r_seed (pshuffle R r_below values repeats) (fresh R r_seed (pshuffle R r_below values repeats) s) ops).
  Proof. intros. eapply pshuffle_support; eauto. Qed.
  Theorem C11_pshuffle_block : forall values repeats s, values <> [] ->
    exists vals', Permutation vals' values /\
      run R r_seed (pshuffle R r_below values repeats) (fresh R r_seed (pshuffle R r_below values repeats) s)
          (repeat Next (length values)) = map (fun v => Out (OZ v)) vals'.
  Proof. intros. eapply pshuffle_first_block; eauto. Qed.

  (* skips only replace values by rests, and the pattern ends exactly when its input ends *)
  Theorem C11_skip_only_rests : forall input play s n j r,
    nth_error (run R r_seed (skip R r_unit input play) (fresh R r_seed (skip R r_unit input play) s) (repeat Next n)) j = Some r ->
    match nth_error input j with
    | Some x => r = Out (oopt x) \/ r = Out ONone
    | None => r = Stop
    end.
  Proof. intros input play s n j r H. eapply skip_only_rests; eauto. Qed.

  (* Markov chains take only learned transitions: each output is a successor (in nodes) of the previous output,
     the first one a successor of some key *)
  Theorem C11_markov_learned : forall nodes n s,
    chain nodes None (run R r_seed (markov R r_below nodes) (fresh R r_seed (markov R r_below nodes) s) (repeat Next n)).
  Proof. intros. unfold fresh. cbn [m_init markov]. eapply markov_chain; eauto. Qed.
End InRange.

(** * Weighted choice: index k is selected exactly when the uniform draw u lies in [cum k / W, cum (k+1) / W) *)
Theorem C11_weighted_interval : forall ws u k,
  nonneg ws -> (0 < qsum ws)%Q -> (0 <= u)%Q -> (k < length ws)%nat ->
  (wnindex ws u = Some (Z.of_nat k) <-> (cum ws k / qsum ws <= u /\ u < cum ws (Datatypes.S k) / qsum ws)%Q).
Proof. exact wnindex_interval. Qed.

(* ... an interval of length w_k / W: under a uniform draw, index k has probability w_k / sum(w) *)
Theorem C11_weighted_mass : forall ws k, (0 < qsum ws)%Q -> (k < length ws)%nat ->
  (cum ws (Datatypes.S k) / qsum ws - cum ws k / qsum ws == nth k ws 0 / qsum ws)%Q.
Proof. exact wnindex_mass. Qed.

(* the intervals tile [0, 1): the last one ends at 1 *)
Theorem C11_weighted_total : forall ws, (0 < qsum ws)%Q -> (cum ws (length ws) / qsum ws == 1)%Q.
Proof. intros ws H. rewrite cum_all. field. lra. Qed.

(** * Non-vacuity *)
(* the contract assumed in section InRange is satisfiable: the replay generator of the correspondence check meets it *)
Theorem C11_contract_satisfiable :
  (forall g, 0 <= fst (rp_unit g) < two53) /\ (forall n g, 0 < n -> 0 <= fst (rp_below n g) < n).
Proof. exact replay_contract. Qed.

(* concrete runs on the replay generator: PWhite(0, 10, length = 2) yields two values then stops, reset replays them *)
Example C11_white_nonvacuous :
  run replay (rp_seed [[4503599627370496; 100; 7]]) (white replay rp_unit false 0 10 2)
      (fresh replay (rp_seed [[4503599627370496; 100; 7]]) (white replay rp_unit false 0 10 2) 0)
      [Next; Next; Next; Reset; Next] = [Out (OZ 5); Out (OZ 0); Stop; Out (OZ 5)].
Proof. vm_compute. reflexivity. Qed.

(* a shuffle of [1;2;3;4] with draws 0,1,0 is a non-identity permutation; a weighted index with weights 1,2,1 *)
Example C11_shuffle_nonvacuous :
  fst (shuffle replay rp_below [1; 2; 3; 4] (mkReplay [0; 1; 0] [] false)) = [3; 4; 2; 1].
Proof. vm_compute. reflexivity. Qed.
Example C11_weighted_nonvacuous :
  wnindex [1; 2; 1]%Q (1 # 4) = Some 1 /\ wnindex [1; 2; 1]%Q (3 # 4) = Some 2 /\ wnindex [1; 2; 1]%Q (2 # 10) = Some 0.
Proof. vm_compute. repeat split. Qed.

(* isolation is not vacuous: a world with two coins and the global generator, interleaved *)
Example C11_isolation_nonvacuous :
  let M := fun _ : nat => coin replay rp_unit (1 # 2) in
  let sd := rp_seed [[1; 9007199254740991; 5]] in
  let w := mkWorld replay unit (fun _ => fresh replay sd (M 0%nat) 0) (sd 0) in
  outputs_of 1 (wrun replay rp_unit rp_below sd unit M w
                     [WP 0 Next; WGUnit; WP 1 Next; WGSeed 3; WP 0 Next; WP 1 Next; WP 1 (Seed 0); WP 1 Next])
  = [Out (OZ 1); Out (OZ 0); Out (OZ 1)].
Proof. vm_compute. reflexivity. Qed.

(** * Copies used side by side (Pat/ChanceCopy.v)
   Pattern.copy() gives the copy its own generator, in the state of the source's at the time of the copy.  A family
   is an original and its copies (and copies of copies): the same machine (class, arguments, wrappers — a stochastic
   pattern nested inside deterministic wrappers is a machine too, [stutterm], [mapm]).  The schedule interleaves
   next / reset() / seed(s) on any member, copy() between members, and calls of Python's global generator. *)
Section Copies.
  Variable R : Type.
  Variable r_unit : R -> Z * R.
  Variable r_below : Z -> R -> Z * R.
  Variable r_seed : Z -> R.
  Variable S : Type.
  Variable m : machine R S.
  Notation crun := (crun R r_unit r_below r_seed S m).

  (* a member that no copy() overwrites produces exactly what it produces alone on its own operations: draws,
     reset() and seed() on its copies — and taking copies of it — do not affect its sequence *)
  Theorem C11_copy_isolation : forall a sched w, never_dst a sched = true ->
    outputs_of a (crun w sched) = run R r_seed m (c_inst w a) (cproj a sched).
  Proof. intros. apply copy_isolation. assumption. Qed.

  (* a seeded original equals ANY other instance with the same arguments and seed (driven alone by the same
     operations), whatever happens to its copies *)
  Theorem C11_copy_original_equals_any_twin : forall a s sched w,
    c_inst w a = fresh R r_seed m s -> never_dst a sched = true ->
    outputs_of a (crun w sched) = run R r_seed m (fresh R r_seed m s) (cproj a sched).
  Proof. intros. apply seeded_original_any_twin; assumption. Qed.

  (* a copy taken at any point continues, on its own operations, from the state its source had at that point *)
  Theorem C11_copy_continues_from_source : forall a b pre post w,
    a <> b -> never_dst a pre = true -> never_dst b post = true ->
    outputs_of b (crun w (pre ++ CCopy a b :: post)) =
    outputs_of b (crun w pre) ++ run R r_seed m (after R r_seed m (c_inst w a) (cproj a pre)) (cproj b post).
  Proof. intros. apply copy_continues; assumption. Qed.

  (* source and copy driven alike after the copy agree, however their operations are interleaved *)
  Theorem C11_copy_agrees_with_source : forall a b pre post w, a <> b ->
    never_dst a (pre ++ CCopy a b :: post) = true -> never_dst b post = true ->
    cproj a post = cproj b post ->
    outputs_of b (crun (cafter R r_unit r_below r_seed S m w (pre ++ [CCopy a b])) post) =
    outputs_of a (crun (cafter R r_unit r_below r_seed S m w (pre ++ [CCopy a b])) post).
  Proof. intros. apply copy_agrees_with_source; assumption. Qed.

  (* a copy taken right after seeding is itself an instance with those arguments and that seed *)
  Theorem C11_copy_of_seeded : forall a b s post w,
    a <> b -> c_inst w a = fresh R r_seed m s -> never_dst b post = true ->
    outputs_of b (crun w (CCopy a b :: post)) = run R r_seed m (fresh R r_seed m s) (cproj b post).
  Proof. intros. apply copy_of_seeded; assumption. Qed.
End Copies.
Print Assumptions C11_copy_isolation.
Print Assumptions C11_copy_continues_from_source.

(* not vacuous, and not true of the design in which original and copy share ONE generator: there the original's
   outputs depend on the draws of its copy *)
Example C11_copy_isolation_nonvacuous :
  let m := white Z toy_unit false 0 1000 0 in
  outputs_of 0 (crun Z toy_unit toy_below ChanceCopyProofs.toy_seed Z m
                     (mkCW (fun _ => fresh Z ChanceCopyProofs.toy_seed m 5) 0)
                     [CCopy 0 1; CP 0 Next; CP 1 Next; CP 1 Next; CP 0 Next])
  = run Z ChanceCopyProofs.toy_seed m (fresh Z ChanceCopyProofs.toy_seed m 5) [Next; Next] /\
  map snd (filter (fun x => negb (fst x)) (sh_run Z Z m 0 0 (ChanceCopyProofs.toy_seed 5) [false; true; true; false]))
  <> run Z ChanceCopyProofs.toy_seed m (fresh Z ChanceCopyProofs.toy_seed m 5) [Next; Next].
Proof. exact sharing_breaks_isolation. Qed.

(* a stochastic pattern nested in deterministic wrappers: PStutter(PWhite(0, 10) + 3, 2) on the replay generator; the
   copy taken after one value repeats it (the stutter state is copied) and then draws what the original draws *)
Example C11_copy_wrapped_nonvacuous :
  let sd := rp_seed [[4503599627370496; 900719925474099; 8106479329266893]] in
  let m := stutterm replay _ 2 (mapm replay _ (add_k 3) (white replay rp_unit false 0 10 0)) in
  crun replay rp_unit rp_below sd _ m (mkCW (fun _ => fresh replay sd m 0) (sd 0))
       [CP 0 Next; CCopy 0 1; CP 1 Next; CP 1 Next; CP 0 Next; CP 0 Next; CP 1 Reset; CP 1 Next]
  = [(0%nat, Out (OZ 8)); (1%nat, Out (OZ 8)); (1%nat, Out (OZ 3)); (0%nat, Out (OZ 8)); (0%nat, Out (OZ 3));
     (1%nat, Out (OZ 8))].
Proof. vm_compute. reflexivity. Qed.

(** * Seed values of every kind, and independence of the interpreter process (Pat/ChanceSeed.v)
   random.seed reduces an int / bool / float / str / bytes / bytearray seed to a non-negative integer key
   ([seed_key]: abs, the unsigned image of the numeric hash, int.from_bytes(a + sha512(a)); SHA-512 is a Section
   variable) and initialises the generator from it: the state after seed(s) is [r_seed (seed_key s)].  Nothing in it
   depends on the process (string-hash salt, object identities). *)
Section SeedValues.
  Variable sha : list Z -> list Z.
  Variable R : Type.
  Variable r_unit : R -> Z * R.
  Variable r_below : Z -> R -> Z * R.
  Variable r_seed : Z -> R.
  Variable S : Type.
  Variable m : machine R S.

  (* for a seed value of ANY kind: seed(s); reset() at any point of any history gives the sequence of a new instance
     seeded with s, and every reset() replays it *)
  Theorem C11_seed_values_reseed_replays : forall i pre s post,
    runv sha R r_seed S m i (pre ++ SeedV s :: ResetV :: post) =
    runv sha R r_seed S m i pre ++ runv sha R r_seed S m (freshv sha R r_seed S m s) post.
  Proof. exact (reseed_replays_v sha R r_seed S m). Qed.

  Theorem C11_seed_values_reset_replays : forall s pre post, no_seedv pre ->
    runv sha R r_seed S m (freshv sha R r_seed S m s) (pre ++ ResetV :: post) =
    runv sha R r_seed S m (freshv sha R r_seed S m s) pre ++ runv sha R r_seed S m (freshv sha R r_seed S m s) post.
  Proof. exact (reset_replays_v sha R r_seed S m). Qed.

  (* the sequence depends on the seed value through its key only; in particular -z and z, True and 1, a str and its
     UTF-8 bytes, bytes and bytearray, and any value and its key (an int) give the same sequence *)
  Theorem C11_seed_values_same_key_same_sequence : forall s1 s2 ops, seed_key sha s1 = seed_key sha s2 ->
    runv sha R r_seed S m (freshv sha R r_seed S m s1) ops = runv sha R r_seed S m (freshv sha R r_seed S m s2) ops.
  Proof. exact (same_key_same_sequence sha R r_seed S m). Qed.

  Theorem C11_seed_keys : forall z b l s,
    seed_key sha (SInt (- z)) = seed_key sha (SInt z) /\
    seed_key sha (SBool b) = seed_key sha (SInt (if b then 1 else 0)) /\
    seed_key sha (SStr l) = seed_key sha (SBytes l) /\ seed_key sha (SBytes l) = seed_key sha (SBytearray l) /\
    (0 <= seed_key sha s -> seed_key sha (SInt (seed_key sha s)) = seed_key sha s) /\
    match s with SInt _ | SBool _ | SFloat _ _ => 0 <= seed_key sha s | _ => True end.
  Proof.
    intros. split; [apply key_neg|]. split; [apply key_bool|]. split; [reflexivity|].
    split; [reflexivity|]. split; [apply key_idempotent | apply key_numeric_nonneg].
  Qed.
End SeedValues.
Print Assumptions C11_seed_values_reseed_replays.
Print Assumptions C11_seed_keys.

(* two runs of a program in two interpreter processes = two arbitrary worlds (other patterns, state of the global
   generator, the rest of the schedule; no string-hash salt occurs in the model at all): a pattern seeded with the
   same value of any kind and driven by the same operations produces the same outputs in both *)
Theorem C11_seed_process_independent :
  forall sha R r_unit r_below (r_seed : Z -> R) S (M M' : nat -> machine R S) a a' s sched sched' w w',
  M a = M' a' ->
  w_inst R S w a = freshv sha R r_seed S (M a) s -> w_inst R S w' a' = freshv sha R r_seed S (M' a') s ->
  proj a sched = proj a' sched' ->
  outputs_of a (wrun R r_unit r_below r_seed S M w sched) = outputs_of a' (wrun R r_unit r_below r_seed S M' w' sched').
Proof. exact seed_process_independent. Qed.
Print Assumptions C11_seed_process_independent.

(* not vacuous: seed_key on concrete values (hash(0.25) = 2^59, hash(-0.25) cast to unsigned, abs(-3),
   int.from_bytes(b"ab" + digest)), and a reduction through a salted hash does NOT have the property *)
Example C11_seed_key_nonvacuous :
  seed_key (fun _ => []) (SFloat 1 2) = 576460752303423488 /\
  seed_key (fun _ => []) (SFloat (-1) 2) = 17870283321406128128 /\
  seed_key (fun _ => []) (SInt (-3)) = 3 /\
  seed_key (fun _ => [1; 2]) (SStr [97; 98]) = 1633812738.
Proof. vm_compute. repeat split. Qed.

Example C11_seed_salted_hash_nonvacuous :
  let m := white Z ChanceSeedProofs.toy_unit false 0 1000 0 in
  let verse := SStr [118; 101; 114; 115; 101] in
  (forall sha, run Z ChanceSeedProofs.toy_seed m (fresh Z ChanceSeedProofs.toy_seed m (seed_key sha verse)) [Next; Next]
             = run Z ChanceSeedProofs.toy_seed m (fresh Z ChanceSeedProofs.toy_seed m (seed_key sha (SBytes [118; 101; 114; 115; 101]))) [Next; Next]) /\
  run Z ChanceSeedProofs.toy_seed m (fresh Z ChanceSeedProofs.toy_seed m (seed_key_hashed toy_hash 1 verse)) [Next; Next]
  <> run Z ChanceSeedProofs.toy_seed m (fresh Z ChanceSeedProofs.toy_seed m (seed_key_hashed toy_hash 2 verse)) [Next; Next].
Proof. exact hashed_seed_differs. Qed.

(** * Seeded stochastic patterns nested inside seeded stochastic patterns (Pat/SeededNest.v, Pat/SeededNestIso.v)
   Outer(Inner(..).seed(a), ..).seed(b): the parent owns a generator and a seed, its __next__ is ANY program over its own
   draws and "next value of child i"; every child is a seedable object with its own generator, seed and class.  A history of
   the nest: next() / reset() / seed(s) of the parent, seed(s) of child i (through the reference the caller kept), in any
   order and number — so inner-first (the in-line form), outer-first and re-seeding later are all histories. *)
Section Nested.
  Variable R : Type.
  Variable r_unit : R -> Z * R.
  Variable r_below : Z -> R -> Z * R.
  Variable r_seed : Z -> R.
  Variables StC CfC St : Type.
  Variable pc : pclass R St.

  (* after ANY history, child i is in the state of that child ALONE under its own operations — a next() per value the
     parent pulled, a reset() per reset() of the parent, a seed(s) per seed(s) the caller gave it — and the values the
     parent obtained from it are the outputs of that stand-alone child: the inner pattern's sequence is that of ITS seed
     whatever is done to the outer one *)
  Theorem C11_nested_inner_is_standalone : forall i h o cls c, nth_error (n_kids o) i = Some (cls, c) ->
    nth_error (n_kids (nafter R r_unit r_below r_seed StC CfC pc o h)) i
      = Some (cls, kafter R r_seed cls c (kid_ops R r_unit r_below r_seed StC CfC St pc i o h)) /\
    kid_pulls R r_unit r_below r_seed StC CfC St pc i o h
      = krun R r_seed cls c (kid_ops R r_unit r_below r_seed StC CfC St pc i o h).
  Proof. exact (nested_child_is_standalone R r_unit r_below r_seed StC CfC St pc). Qed.

  (* ... and the only seeds among those operations are the ones the caller gave THAT child: a seed() of the parent, or of
     another child, never reaches it *)
  Theorem C11_nested_only_own_seeds_reach_inner : forall i h o,
    kseeds CfC (kid_ops R r_unit r_below r_seed StC CfC St pc i o h) = nseeds i h.
  Proof. exact (kid_ops_seeds R r_unit r_below r_seed StC CfC St pc). Qed.

  Theorem C11_nested_outer_seed_leaves_inner : forall o s,
    n_kids (fst (ndo R r_unit r_below r_seed StC CfC pc o (NSeed s))) = n_kids o.
  Proof. exact (parent_seed_leaves_children R r_unit r_below r_seed StC CfC St pc). Qed.

  (* vice versa: seeding a child leaves the parent's state, generator and stored seed, and every other child, alone *)
  Theorem C11_nested_inner_seed_leaves_outer : forall o i s,
    n_st (fst (ndo R r_unit r_below r_seed StC CfC pc o (NKidSeed i s))) = n_st o /\
    n_gen (fst (ndo R r_unit r_below r_seed StC CfC pc o (NKidSeed i s))) = n_gen o /\
    n_seed (fst (ndo R r_unit r_below r_seed StC CfC pc o (NKidSeed i s))) = n_seed o /\
    forall j, j <> i -> nth_error (n_kids (fst (ndo R r_unit r_below r_seed StC CfC pc o (NKidSeed i s)))) j = nth_error (n_kids o) j.
  Proof. exact (inner_seed_leaves_outer R r_unit r_below r_seed StC CfC St pc). Qed.
End Nested.
Print Assumptions C11_nested_inner_is_standalone.
Print Assumptions C11_nested_only_own_seeds_reach_inner.

(* supports through the nesting: PSkip over a seeded child yields the value it pulled from the child, or a rest in its
   place, or the child's StopIteration / exception — never a value the source did not produce *)
Theorem C11_nested_skip_passes_source : forall R r_unit r_below r_seed StC CfC play g (kids : list (kid R StC CfC)),
  let r := fst (fst (fst (exec R r_unit r_below r_seed StC CfC (pskip_step play tt) g kids))) in
  match pulled R r_unit r_below r_seed StC CfC 0 (pskip_step play tt) g kids with
  | [v] => r = v \/ (exists x, v = Out x /\ r = Out ONone)
  | [] => r = Fail
  | _ => False
  end.
Proof. exact pskip_passes_source. Qed.
Print Assumptions C11_nested_skip_passes_source.

(* not vacuous: PSkip(PWhite(0, 1000).seed(1), 0.5).seed(2) on a toy generator — seeded inner-first (the in-line form) or
   outer-first, the values PSkip obtains from the PWhite are those of a stand-alone PWhite seeded 1, and they are not those
   of a PWhite seeded 2 (what an outer seed() that also seeds its inputs would produce) *)
Example C11_nested_nonvacuous :
  let cls := of_machine Z (white Z toy_unit false 0 1000 0) in
  let o := nnew Z ChanceCopyProofs.toy_seed Z unit (pskip Z (1 # 2)) 77 [(cls, 88)] in
  let pulls h := kid_pulls Z toy_unit toy_below ChanceCopyProofs.toy_seed Z unit unit (pskip Z (1 # 2)) 0 o h in
  let alone s := krun Z ChanceCopyProofs.toy_seed cls (kafter Z ChanceCopyProofs.toy_seed cls (knew Z ChanceCopyProofs.toy_seed cls 88) [KSeed s])
                      [KNext; KNext; KNext] in
  pulls [NKidSeed 0 1; NSeed 2; NNext; NNext; NNext] = alone 1 /\
  pulls [NSeed 2; NKidSeed 0 1; NNext; NNext; NNext] = alone 1 /\
  pulls [NKidSeed 0 1; NNext; NSeed 2; NNext; NNext] = alone 1 /\
  alone 1 <> alone 2.
Proof. repeat split; try (vm_compute; reflexivity). vm_compute. discriminate. Qed.

(* Props/C07Src.v — property C07 (the order inside one tick), restated for Timeline.tick as translated from the SOURCE TEXT
   (Generated/TablesTrack.v src_timeline_tick; relation to the model: Sched/ModelSrcTick.v; trusted glue: Sched/SrcGlue.v
   obj_tick = what track.tick() does, Model.v fire_action = what a stored closure does; docs/TRANSLATOR3.md).
   Hypotheses wf (distinct track ids) and no_zombie (no finished remove_when_done track is scheduled) hold on every timeline
   reachable through the API (C06_reachable_wf, C06_no_zombie). *)
From Isobar Require Import Base.Prelude Sched.Model Sched.TimeProofs Sched.MergeProofs Sched.TickFrame Sched.TransitProofs
  Sched.SrcGlue Generated.TablesTrack Sched.ModelSrc Sched.ModelSrcTick Props.C07.
Local Open Scope Z_scope.

Theorem C07_src_phase_order : forall cfg tl, wf tl -> no_zombie (tracks tl) = true ->
  let '(_, calls, _) := src_timeline_tick cfg tl in
  exists tl3,
    calls = concat (map due_offs (tracks tl))
            ++ concat (map action_calls (filter (fun a => a_time a <=? now tl) (actions tl)))
            ++ concat (map snd (track_turns cfg tl3 (map t_id (tracks tl))))
    /\ map t_id (tracks tl3) = map t_id (tracks tl).
Proof. intros cfg tl W NZ. rewrite (src_timeline_tick_is cfg tl W NZ). apply C07_phase_order. Qed.
Print Assumptions C07_src_phase_order.

Theorem C07_src_offs_first : forall cfg tl, wf tl -> no_zombie (tracks tl) = true ->
  exists offs evs, snd (fst (src_timeline_tick cfg tl)) = offs ++ evs /\ forallb is_off offs = true /\ forallb is_event evs = true.
Proof. intros cfg tl W NZ. rewrite (src_timeline_tick_is cfg tl W NZ). apply C07_offs_first. Qed.
Print Assumptions C07_src_offs_first.

(* `if track not in self.tracks: continue`: a track of the snapshot that an earlier turn removed takes no turn *)
Theorem C07_src_snapshot_removed : forall cfg tl calls x, find_track (t_id x) (tracks tl) = None ->
  src_timeline_tick_loop3 cfg (tl, calls, ROk) x = (tl, calls, ROk).
Proof. intros cfg tl calls x H. unfold src_timeline_tick_loop3. rewrite H. reflexivity. Qed.
Print Assumptions C07_src_snapshot_removed.

(* the loop over the snapshot of Timeline.tracks is the model's phase over the ids *)
Theorem C07_src_track_phase : forall cfg tl calls, wf tl -> no_zombie (tracks tl) = true ->
  fold_left (src_timeline_tick_loop3 cfg) (tracks tl) (tl, calls, ROk) = phase_tracks cfg tl (map t_id (tracks tl)) calls.
Proof. intros cfg tl calls W NZ. apply src_phase_tracks_is; assumption. Qed.
Print Assumptions C07_src_track_phase.

(* Props/C05Src.v — property C05, the requested time: C05_sched_time restated for the expression translated from the source
   of Timeline._schedule_action (Generated/TablesSched.v; relation to the model: Sched/SchedTimeSrc.v).
   Times are integer numerators over any common denominator.  The source rounds current_time / quantize to 8 decimals
   before taking the ceiling; the closed form below therefore needs q < 2 * 10^8 (in those units), a bound the model's
   theorem does not need - see C05_src_round8_bound_needed. *)
From Isobar Require Import Base.Prelude Base.Round8 Sched.Model Sched.QuantizeProofs Generated.TablesSched Sched.SchedTimeSrc Props.C05.
Local Open Scope Z_scope.

(* for q > 0 the least multiple of q that is >= t, plus d; t + d when q = 0 or when t is on the q-grid *)
Theorem C05_src_sched_time : forall t q d, q < 2 * 10 ^ 8 ->
  (q = 0 -> src_sched_time t q d = t + d)
  /\ (0 < q -> exists m, src_sched_time t q d = q * m + d /\ q * (m - 1) < t <= q * m
               /\ forall m', t <= q * m' -> q * m <= q * m')
  /\ (0 < q -> t mod q = 0 -> src_sched_time t q d = t + d).
Proof.
  intros t q d Hb. destruct (C05_sched_time t q d) as [A [B C]]. split; [|split].
  - intros ->. rewrite src_sched_time_is by lia. apply A. reflexivity.
  - intros Hq. rewrite src_sched_time_is by lia. apply B. exact Hq.
  - intros Hq Hm. rewrite src_sched_time_is by lia. apply C; assumption.
Qed.
Print Assumptions C05_src_sched_time.

(* never earlier than now + delay, less than one quantum later *)
Theorem C05_src_sched_bounds : forall t q d, 0 <= q < 2 * 10 ^ 8 ->
  t + d <= src_sched_time t q d /\ (src_sched_time t q d < t + q + d \/ q = 0)
  /\ src_sched_time_defined t q d = true.
Proof.
  intros t q d Hq. rewrite src_sched_time_is by exact Hq. pose proof (sched_time_bounds t q d ltac:(lia)) as [A B].
  split; [exact A|]. split; [exact B|]. apply src_sched_time_defined_ok. lia.
Qed.
Print Assumptions C05_src_sched_bounds.

(* the bound is needed: beyond it the source schedules BEFORE the current time *)
Theorem C05_src_round8_bound_needed :
  exists t q d, 0 < q /\ src_sched_time t q d < t + d.
Proof. exists 1, 300000000, 0. split; [lia|]. vm_compute. reflexivity. Qed.
Print Assumptions C05_src_round8_bound_needed.

Example C05_src_nonvacuous :
  src_sched_time 15 12 3 = 27 /\ src_sched_time 18 12 3 = 27 /\ src_sched_time 24 12 0 = 24 /\ src_sched_time 7 0 5 = 12.
Proof. vm_compute. repeat split. Qed.

(* Props/C08.v — property C08: arithmetic and comparison operators apply element-wise.
   Only the property theorems live here; each is closed by a lemma of Pat/OpProofs.v / Pat/StepProofs.v.

   Vocabulary (Pat/StepProofs.v, Pat/OpProofs.v):
     vals f n a = Some (vs, a')     the operand object a (a pattern object or a scalar, of ANY class of the
                                    model, at any nesting depth) answers the next n calls of Pattern.value
                                    with the values vs and is then in state a';
     outputs f n p = (os, p')       the next n calls of next(p) have the outcomes os (value / StopIteration /
                                    exception) and leave p';
     elem binop o x y               what the property demands of one element: a rest if x or y is a rest,
                                    otherwise the operator applied to x and y.
   In Section [AnyOperators] the operator semantics [binop] is a variable: the theorems hold whatever the
   Python operators do on ints, floats or anything else.  [f] is the recursion fuel of the model. *)
From Isobar Require Import Base.Prelude Pat.Val Pat.Syntax Pat.Step Pat.StepProofs Pat.Dunder Pat.OpProofs Pat.Ieee Pat.IeeeProofs
  Pat.IeeeSpecial Pat.IeeeSpecialProofs.
From Coq Require Import String QArith.
Open Scope Z_scope.

Section AnyOperators.
  Variable binop : op -> val -> val -> outcome val.
  Variable LMAX : nat.

  (* element-wise law for each of the 15 PBinOp classes: as long as both operands give values, output i is
     the operator applied to a_i and b_i (a rest if either is a rest), and both operands advance in step *)
  Theorem C08_lift : forall o f n a b vas vbs a' b',
    vals binop LMAX f n a = Some (vas, a') -> vals binop LMAX f n b = Some (vbs, b') ->
    outputs binop LMAX (S f) n (PBinOp o a b) = (zipw (elem binop o) vas vbs, PBinOp o a' b').
  Proof. exact (binop_lift binop LMAX). Qed.

  (* a rest on either side gives a rest, for every operator including the comparisons *)
  Theorem C08_rest_propagates : forall o v,
    elem binop o VNone v = Yield VNone /\ elem binop o v VNone = Yield VNone.
  Proof. intros; split; [apply elem_none_l | apply elem_none_r]. Qed.

  (* on two values the element is the operator itself *)
  Theorem C08_elem_is_operator : forall o x y,
    is_none x = false -> is_none y = false -> elem binop o x y = binop o x y.
  Proof. exact (elem_values binop). Qed.

  (* a scalar operand, on either side, is the constant stream *)
  Theorem C08_scalar_operand : forall f n v,
    vals binop LMAX (S f) n (AV v) = Some (repeat v n, AV v).
  Proof. exact (vals_scalar binop LMAX). Qed.

  (* the result ends as soon as either operand ends: after n common elements, if the left operand stops, or
     the left operand has a further value and the right one stops, output n is StopIteration *)
  Theorem C08_ends_with_either_operand : forall o f n a b vas vbs a' b',
    vals binop LMAX f n a = Some (vas, a') -> vals binop LMAX f n b = Some (vbs, b') ->
    (exists a'', value binop LMAX f a' = (Stop, a'')) \/
    (exists v a'' b'', value binop LMAX f a' = (Yield v, a'') /\ value binop LMAX f b' = (Stop, b'')) ->
    exists p', outputs binop LMAX (S f) (n + 1) (PBinOp o a b) = (zipw (elem binop o) vas vbs ++ [Stop], p').
  Proof. exact (binop_ends binop LMAX). Qed.

  (* & yields whether both values are truthy (a rest is falsy: & does not propagate rests), and ends like the others *)
  Theorem C08_and : forall f n a b vas vbs a' b',
    vals binop LMAX f n a = Some (vas, a') -> vals binop LMAX f n b = Some (vbs, b') ->
    outputs binop LMAX (S f) n (PAnd a b)
      = (zipw (fun x y => Yield (VBool (truthy x && truthy y))) vas vbs, PAnd a' b').
  Proof. exact (and_lift binop LMAX). Qed.

  Theorem C08_and_ends : forall f n a b vas vbs a' b',
    vals binop LMAX f n a = Some (vas, a') -> vals binop LMAX f n b = Some (vbs, b') ->
    (exists a'', value binop LMAX f a' = (Stop, a'')) \/
    (exists v a'' b'', value binop LMAX f a' = (Yield v, a'') /\ value binop LMAX f b' = (Stop, b'')) ->
    exists p', outputs binop LMAX (S f) (n + 1) (PAnd a b) = (zipw elem_and vas vbs ++ [Stop], p').
  Proof. exact (and_ends binop LMAX). Qed.

  (* abs(p): |p_i|, rests kept; ends when p ends *)
  Theorem C08_abs : forall f n a vs a',
    vals binop LMAX f n a = Some (vs, a') ->
    outputs binop LMAX (S f) n (PAbs a) = (map elem_abs vs, PAbs a')
    /\ elem_abs VNone = Yield VNone
    /\ (forall z, elem_abs (VInt z) = Yield (VInt (Z.abs z)))
    /\ (forall q, elem_abs (VFlt q) = Yield (VFlt (Qabs.Qabs q))).
  Proof. intros. split; [apply abs_lift; assumption|]. repeat split. Qed.

  (* -p builds 0 - p, whose i-th output is 0 - p_i *)
  Theorem C08_neg : forall f n x a vs a',
    init_arg binop LMAX (S (S f)) x = Yield a -> vals binop LMAX (S f) n a = Some (vs, a') ->
    exists p, init binop LMAX (S (S (S f))) (dunder_neg x) = Yield p /\
              outputs binop LMAX (S (S f)) n p = (map (elem binop OSub (VInt 0)) vs, PBinOp OSub (AV (VInt 0)) a').
  Proof.
    intros f n x a vs a' Hi Hv. eexists. split; [apply init_neg; exact Hi|]. apply neg_lift. exact Hv.
  Qed.

  (* abs(p) builds PAbs(p); p & q builds PAnd(p, q) *)
  Theorem C08_abs_and_build : forall f x y ax ay,
    init_arg binop LMAX f x = Yield ax -> init_arg binop LMAX f y = Yield ay ->
    init binop LMAX (S f) (dunder_abs x) = Yield (PAbs ax) /\
    init binop LMAX (S f) (dunder SAnd x y) = Yield (PAnd ax ay).
  Proof. intros. split; [apply init_abs | apply init_and]; assumption. Qed.

  (* what `l o r` builds.  Pattern on the left: POp(l, r), operands in the written order *)
  Theorem C08_dunder_pattern_left : forall f o e r al ar,
    init_arg binop LMAX f (EP e) = Yield al -> init_arg binop LMAX f r = Yield ar ->
    init binop LMAX (S f) (dunder (SOp o) (EP e) r) = Yield (PBinOp o al ar).
  Proof. exact (dunder_left_pattern binop LMAX). Qed.

  (* scalar on the left, - / // << >>: POp(c, p): the written order, NOT p - c *)
  Theorem C08_dunder_reflected_in_order : forall f o v r ar,
    o = OSub \/ o = ODiv \/ o = OFloorDiv \/ o = OLShift \/ o = ORShift ->
    init_arg binop LMAX f r = Yield ar ->
    init binop LMAX (S f) (dunder (SOp o) (EV v) r) = Yield (PBinOp o (AV v) ar).
  Proof.
    intros f o v r ar Ho Hr. apply dunder_reflected_in_order; try exact Hr;
      destruct Ho as [->|[->|[->|[->| ->]]]]; try reflexivity; discriminate.
  Qed.

  (* scalar on the left, % and **: POp(PConstant(c), p): the written order; PConstant(c) is the constant stream *)
  Theorem C08_dunder_reflected_const : forall f o v r ar n,
    o = OMod \/ o = OPow -> init_arg binop LMAX (S (S (S f))) r = Yield ar ->
    init binop LMAX (S (S (S (S f)))) (dunder (SOp o) (EV v) r) = Yield (PBinOp o (AP (PConstant v)) ar)
    /\ vals binop LMAX (S (S f)) n (AP (PConstant v)) = Some (repeat v n, AP (PConstant v)).
  Proof. intros. split; [apply dunder_reflected_const; assumption | apply vals_constant]. Qed.

  (* scalar on the left, + * == != < <= > >=: the reflected method swaps the operands (and mirrors the
     comparison): P(mirror o)(p, c).  If the operator semantics satisfies (mirror o) y c = c o y on the values
     involved, the outputs are c o p_i: the written order again *)
  Theorem C08_dunder_reflected_swapped : forall f o v r ar,
    swapped_when_reflected o = true -> init_arg binop LMAX f r = Yield ar ->
    init binop LMAX (S f) (dunder (SOp o) (EV v) r) = Yield (PBinOp (mirror o) ar (AV v)).
  Proof. exact (dunder_reflected_swapped binop LMAX). Qed.

  Theorem C08_reflected_swapped_elementwise : forall o f n c p vps p',
    vals binop LMAX (S f) n p = Some (vps, p') ->
    (forall y, In y vps -> elem binop (mirror o) y c = elem binop o c y) ->
    outputs binop LMAX (S (S f)) n (PBinOp (mirror o) p (AV c))
      = (zipw (elem binop o) (repeat c n) vps, PBinOp (mirror o) p' (AV c)).
  Proof. exact (reflected_swapped_elementwise binop LMAX). Qed.

  (* nesting: an operator expression tree of ANY depth, over arbitrary operand objects at the leaves, denotes
     the pointwise evaluation of the tree on the leaf values (induction on the tree) *)
  Theorem C08_nesting : forall t f n vs,
    tree_ok binop LMAX f n t -> tree_vals binop n t = Some vs ->
    vals binop LMAX f n (tree_arg t) = Some (vs, tree_arg' t).
  Proof. exact (tree_pointwise binop LMAX). Qed.
End AnyOperators.
Print Assumptions C08_lift.
Print Assumptions C08_ends_with_either_operand.
Print Assumptions C08_nesting.

(* Python's own operators (Pat/Val.v) meet the side condition of the swapped reflected forms on None, bool,
   int, float, str: + and * commute, == and != are symmetric, c < y iff y > c, ... *)
Theorem C08_python_operators_reflect : forall o c y,
  swapped_when_reflected o = true -> scalar_val c = true -> scalar_val y = true ->
  elem Val.binop (mirror o) y c = elem Val.binop o c y.
Proof. exact elem_reflected. Qed.
Print Assumptions C08_python_operators_reflect.

(* non-vacuity: concrete expressions meet the hypotheses and the conclusions are the expected lists *)
Definition seq_ (l : list Z) : arg := AP (PSequence (AL (map (fun z => AV (VInt z)) l)) (AV (VInt 1)) 0 0).

Example C08_lift_nonvacuous :
  exists a' b',
    vals Val.binop 100 20 3 (seq_ [5; 7; 9]) = Some ([VInt 5; VInt 7; VInt 9], a') /\
    vals Val.binop 100 20 3 (AP (PSequence (AL [AV (VInt 1); AV VNone; AV (VInt 2); AV (VInt 4)]) (AV (VInt 1)) 0 0))
      = Some ([VInt 1; VNone; VInt 2], b') /\
    fst (outputs Val.binop 100 21 3 (PBinOp OSub (seq_ [5; 7; 9]) (AP (PSequence (AL [AV (VInt 1); AV VNone; AV (VInt 2); AV (VInt 4)]) (AV (VInt 1)) 0 0))))
      = [Yield (VInt 4); Yield VNone; Yield (VInt 7)].
Proof. eexists. eexists. split; [vm_compute; reflexivity|]. split; vm_compute; reflexivity. Qed.

Example C08_ends_nonvacuous :
  fst (outputs Val.binop 100 21 4 (PBinOp OLt (seq_ [5; 7; 9]) (seq_ [6; 6]))) = [Yield (VBool true); Yield (VBool false); Stop; Stop].
Proof. vm_compute. reflexivity. Qed.

Example C08_reflected_nonvacuous :
  (* 10 - p builds PSub(10, p): 10 - p_i, not p_i - 10 *)
  match init Val.binop 100 10 (dunder (SOp OSub) (EV (VInt 10)) (EP (ECall CSequence [EL [EV (VInt 1); EV (VInt 2)]; EV (VInt 1)]))) with
  | Yield p => fst (outputs Val.binop 100 21 3 p) = [Yield (VInt 9); Yield (VInt 8); Stop]
  | _ => False
  end.
Proof. vm_compute. reflexivity. Qed.

Example C08_nesting_nonvacuous :
  (* abs((p - q) * -r) with p = 1 2 3, q = 4 4 4 (scalar), r = 2 None 5 *)
  let t := TAbs (TBin OMul (TBin OSub (TLeaf (seq_ [1; 2; 3]) [VInt 1; VInt 2; VInt 3] (AP (PSequence (AL [AV (VInt 1); AV (VInt 2); AV (VInt 3)]) (AV (VInt 1)) 1 0)))
                                      (TLeaf (AV (VInt 4)) [VInt 4; VInt 4; VInt 4] (AV (VInt 4))))
                           (TBin OAdd (TLeaf (AV (VInt 0)) [VInt 0; VInt 0; VInt 0] (AV (VInt 0)))
                                      (TLeaf (AP (PSequence (AL [AV (VInt 2); AV VNone; AV (VInt 5)]) (AV (VInt 1)) 0 0)) [VInt 2; VNone; VInt 5]
                                             (AP (PSequence (AL [AV (VInt 2); AV VNone; AV (VInt 5)]) (AV (VInt 1)) 1 0))))) in
  tree_ok Val.binop 100 26 3 t /\ tree_vals Val.binop 3 t = Some [VInt 6; VNone; VInt 5].
Proof. split; [|vm_compute; reflexivity]. cbn [tree_ok]. repeat split; vm_compute; reflexivity. Qed.

(* ---- rounding --------------------------------------------------------------------------------------------
   The correspondence also runs with the operator semantics Pat/Ieee.v [binop_ieee]: + - * / on floats are the
   exact rational result rounded to binary64 (ties to even), the other operators as in Pat/Val.v.  All theorems of
   Section AnyOperators hold for it (they hold for any semantics); the ones below are what is specific to it. *)

(* the nesting law, instantiated: an expression tree over float streams denotes its LEVEL-BY-LEVEL rounded
   evaluation *)
Theorem C08_nesting_rounding : forall LMAX t f n vs,
  tree_ok binop_ieee LMAX f n t -> tree_vals binop_ieee n t = Some vs ->
  vals binop_ieee LMAX f n (tree_arg t) = Some (vs, tree_arg' t).
Proof. intro LMAX. exact (C08_nesting binop_ieee LMAX). Qed.
Print Assumptions C08_nesting_rounding.

(* ... and nothing else: rounded addition is not associative (so (p + c1) + c2 is not p + (c1 + c2)), a large
   term cancels before or after a small one is absorbed, rounded multiplication does not distribute *)
Theorem C08_rounding_not_associative :
  exists x c1 c2 l r, obind (binop_ieee OAdd x c1) (fun s => binop_ieee OAdd s c2) = Yield l /\
                      obind (binop_ieee OAdd c1 c2) (fun s => binop_ieee OAdd x s) = Yield r /\
                      val_eqb l r = false.
Proof. exact ieee_add_not_associative. Qed.
Print Assumptions C08_rounding_not_associative.

Theorem C08_rounding_not_distributive :
  exists x y c l r, obind (binop_ieee OAdd x y) (fun s => binop_ieee OMul s c) = Yield l /\
                    obind (binop_ieee OMul x c) (fun p => obind (binop_ieee OMul y c) (fun q => binop_ieee OAdd p q)) = Yield r /\
                    val_eqb l r = false.
Proof. exact ieee_mul_not_distributive. Qed.
Print Assumptions C08_rounding_not_distributive.

(* the rounding semantics meets the side condition of the swapped reflected forms: rounded + and * commute *)
Theorem C08_rounding_operators_reflect : forall o c y,
  swapped_when_reflected o = true -> scalar_val c = true -> scalar_val y = true ->
  elem binop_ieee (mirror o) y c = elem binop_ieee o c y.
Proof. exact elem_reflected_ieee. Qed.
Print Assumptions C08_rounding_operators_reflect.

(* it extends Pat/Val.v conservatively: every m / 2^k with |m| < 2^53 (in particular every float Val.binop can
   produce) is a fixed point of the rounding, and on ints nothing changed *)
Theorem C08_rounding_exact_on_small_dyadics : forall m k,
  Z.abs m < 2 ^ 53 -> 0 <= k <= 1074 ->
  round64 (m # Z.to_pos (2 ^ k)) = Yield (Qred (m # Z.to_pos (2 ^ k))).
Proof. exact round64_fixes_small_dyadic. Qed.
Print Assumptions C08_rounding_exact_on_small_dyadics.

Theorem C08_rounding_exact_on_val_floats : forall q, dyadic_ok q = true -> round64 (Qred q) = Yield (Qred q).
Proof. exact round64_fixes_val_floats. Qed.
Print Assumptions C08_rounding_exact_on_val_floats.

Theorem C08_rounding_ints_unchanged : forall o a b za zb,
  int_of a = Some za -> int_of b = Some zb -> o <> ODiv -> binop_ieee o a b = Val.binop o a b.
Proof. exact binop_ieee_ints. Qed.
Print Assumptions C08_rounding_ints_unchanged.

Example C08_nesting_rounding_nonvacuous :
  (* (p + 0.1) + 0.2 on p = 2.5, 1: level by level 2.8000000000000003, whereas 2.5 + (0.1 + 0.2) = 2.8 *)
  let x := (mkf 5 (-1)) in
  let p := AP (PSequence (AL [AV x; AV (VInt 1)]) (AV (VInt 1)) 0 0) in
  let p' := AP (PSequence (AL [AV x; AV (VInt 1)]) (AV (VInt 1)) 1 0) in
  let t := TBin OAdd (TBin OAdd (TLeaf p [x; VInt 1] p') (TLeaf (AV f01) [f01; f01] (AV f01)))
                     (TLeaf (AV f02) [f02; f02] (AV f02)) in
  tree_ok binop_ieee 100 26 2 t /\
  tree_vals binop_ieee 2 t = Some [(mkf 6305039478318695 (-51)); (mkf 5854679515581645 (-52))] /\
  obind (binop_ieee OAdd f01 f02) (fun s => binop_ieee OAdd x s) = Yield (mkf 3152519739159347 (-50)).
Proof. split; [|split; vm_compute; reflexivity]. cbn [tree_ok]. repeat split; vm_compute; reflexivity. Qed.

(* ---- operand classes ---------------------------------------------------------------------------------------
   The dunder theorems above quantify over ARBITRARY operand expressions ([e], [r] : any class of the model's syntax,
   any arguments, any depth).  Stated once more without any reference to the classes: whatever the two operands are,
   evaluating `l s r` is ONE constructor call whose arguments are the two operands THEMSELVES, in the written or the
   swapped order, the left scalar wrapped in PConstant for the reflected % and ** — the pattern operand is never
   inspected, called or rebuilt.  (What the implementation reaches through `self` while dispatching is therefore not
   part of the model: the correspondence has to run the dunders on instances of every class, see docs/C08.md.) *)
Theorem C08_dunder_any_operand_class : forall s l r,
  exists c args, dunder s l r = ECall c args /\ (args = [l; r] \/ args = [r; l] \/ args = [pconst l; r]).
Proof.
  intros s l r. destruct s as [o|]; cbn [dunder].
  - destruct (is_ep l); [do 2 eexists; split; [reflexivity | auto]|].
    destruct o; do 2 eexists; (split; [reflexivity | auto]).
  - do 2 eexists; split; [reflexivity | auto].
Qed.
Print Assumptions C08_dunder_any_operand_class.

(* the same for unary minus and abs *)
Theorem C08_unary_any_operand_class : forall x,
  dunder_neg x = ECall (CBinOp OSub) [EV (VInt 0); x] /\ dunder_abs x = ECall CAbs [x].
Proof. intro x. split; reflexivity. Qed.
Print Assumptions C08_unary_any_operand_class.

(* ---- the special IEEE values ------------------------------------------------------------------------------
   NaN, +inf and -inf as operand values (stream elements, scalars on either side, or arising inside an expression:
   inf - inf, 0.0 * inf, 1e308 * 10).  [val] has no constructor for them; Pat/IeeeSpecial.v gives the Python
   semantics of the operators on  xf = XNaN | XInf neg | XFin q  and  xv = None | bool | int | xf,
   and its encoding into [val] ([enc], [binop_sp]) under which the theorems of Section AnyOperators — proved
   for ANY operator semantics — speak about operand streams that contain the special values. *)

(* x >= y is NOT `not (x < y)`: they differ exactly when an operand is a NaN (both are then False / True) *)
Theorem C08_special_ge_is_not_not_lt :
  (forall x y, xge x y = negb (xlt x y) && negb (unordered x y)) /\
  (forall x y, xle x y = negb (xgt x y) && negb (unordered x y)) /\
  (forall x y, xge x y = negb (xlt x y) <-> unordered x y = false) /\
  (xge XNaN XNaN = false /\ negb (xlt XNaN XNaN) = true).
Proof.
  split; [exact xge_spec|]. split; [exact xle_spec|]. split; [exact xge_is_not_lt_iff_ordered|].
  exact xge_not_negb_xlt_witness.
Qed.
Print Assumptions C08_special_ge_is_not_not_lt.

(* exactly one of x < y, x == y, x > y holds when neither operand is a NaN; none holds otherwise *)
Theorem C08_special_trichotomy : forall x y,
  (Nat.b2n (xlt x y) + Nat.b2n (xeq x y) + Nat.b2n (xgt x y))%nat = if unordered x y then 0%nat else 1%nat.
Proof. exact x_trichotomy. Qed.
Print Assumptions C08_special_trichotomy.

(* every comparison with a NaN is False, except != *)
Theorem C08_special_nan_compares_false : forall o y, is_cmp o = true ->
  xcmp o XNaN y = op_eqb o ONe /\ xcmp o y XNaN = op_eqb o ONe.
Proof. exact xcmp_nan. Qed.
Print Assumptions C08_special_nan_compares_false.

(* an ordering computed from the three-way value (a > b) - (a < b): right for > and <, right for >= and <= exactly
   on ordered operands; on unordered ones it answers True where the Python operator answers False *)
Theorem C08_special_threeway : forall x y,
  gt3 x y = xgt x y /\ lt3 x y = xlt x y /\
  ge3 x y = (xge x y || unordered x y) /\ le3 x y = (xle x y || unordered x y) /\
  (ge3 x y = xge x y <-> unordered x y = false).
Proof.
  intros. split; [apply gt3_spec|]. split; [apply lt3_spec|]. split; [apply ge3_spec|].
  split; [apply le3_spec | apply ge3_right_iff_ordered].
Qed.
Print Assumptions C08_special_threeway.

(* the side condition of the swapped reflected forms holds for ALL operand values, special ones included: + and *
   commute (also when an int operand is too large for a float), == != are symmetric, c < y is y > c *)
Theorem C08_special_operators_reflect : forall o c y,
  swapped_when_reflected o = true -> xelem (mirror o) y c = xelem o c y.
Proof. exact xelem_reflected. Qed.
Print Assumptions C08_special_operators_reflect.

(* arithmetic: a NaN operand gives NaN; inf - inf, 0 * inf, inf / inf are NaN; a zero divisor raises whatever
   the dividend is; a finite result is the correctly rounded one, beyond the finite range an infinity *)
Theorem C08_special_nan_propagates : forall y,
  xadd XNaN y = XNaN /\ xadd y XNaN = XNaN /\ xsub XNaN y = XNaN /\ xsub y XNaN = XNaN /\
  xmul XNaN y = XNaN /\ xmul y XNaN = XNaN /\ xabs XNaN = XNaN /\ xneg XNaN = XNaN /\
  (xtruthy y = true -> xdiv XNaN y = Yield XNaN) /\ xdiv y XNaN = Yield XNaN.
Proof. exact nan_propagates. Qed.
Print Assumptions C08_special_nan_propagates.

Theorem C08_special_inf_arithmetic : forall s,
  xsub (XInf s) (XInf s) = XNaN /\ xadd (XInf s) (XInf (negb s)) = XNaN /\
  xmul (XInf s) (XFin 0) = XNaN /\ xmul (XFin 0) (XInf s) = XNaN /\
  xdiv (XInf s) (XInf s) = Yield XNaN /\
  (forall q, xadd (XInf s) (XFin q) = XInf s /\ xsub (XFin q) (XInf s) = XInf (negb s) /\
             xdiv (XFin q) (XInf s) = Yield (XFin 0)) /\
  xabs (XInf s) = XInf false /\ xtruthy (XInf s) = true /\ xtruthy XNaN = true.
Proof. exact inf_arithmetic. Qed.
Print Assumptions C08_special_inf_arithmetic.

Theorem C08_special_rounding_or_overflow : forall q,
  (exists r, round64 q = Yield r /\ fin_round q = XFin r) \/ (round64 q = Inexact /\ fin_round q = XInf (qneg q)).
Proof. exact fin_round_cases. Qed.
Print Assumptions C08_special_rounding_or_overflow.

(* composition with the pattern-level law: [C08_lift] etc. hold for the operator semantics [binop_sp]; on operand
   streams that are encodings of xv lists the i-th output of every PBinOp class is the encoding of [xelem o x_i y_i],
   the i-th output of PAnd that of truthy x_i && truthy y_i (bool(nan) = True), and the swapped reflected forms
   compute the element for the written order *)
Theorem C08_special_lift : forall LMAX o f n a b xs ys a' b',
  vals binop_sp LMAX f n a = Some (map enc xs, a') -> vals binop_sp LMAX f n b = Some (map enc ys, b') ->
  outputs binop_sp LMAX (S f) n (PBinOp o a b)
    = (zipw (fun x y => omap enc (xelem o x y)) xs ys, PBinOp o a' b').
Proof. exact special_lift. Qed.
Print Assumptions C08_special_lift.

Theorem C08_special_and : forall LMAX f n a b xs ys a' b',
  vals binop_sp LMAX f n a = Some (map enc xs, a') -> vals binop_sp LMAX f n b = Some (map enc ys, b') ->
  outputs binop_sp LMAX (S f) n (PAnd a b)
    = (zipw (fun x y => omap enc (xelem_and x y)) xs ys, PAnd a' b').
Proof. exact special_and. Qed.
Print Assumptions C08_special_and.

Theorem C08_special_reflected_side_condition : forall o c y, swapped_when_reflected o = true ->
  elem binop_sp (mirror o) (enc y) (enc c) = elem binop_sp o (enc c) (enc y).
Proof. exact elem_sp_reflected. Qed.
Print Assumptions C08_special_reflected_side_condition.

(* conservative extension: wherever Pat/Ieee.v (finite floats, ints, bools, None) answers with a value, the semantics
   with special values answers with the same value — the special strata and the older ones are compared with ONE
   operator semantics on their common domain *)
Theorem C08_special_conservative : forall o a b xa xb r,
  xof_val a = Some xa -> xof_val b = Some xb -> binop_ieee o a b = Yield r ->
  xbinop o xa xb = xlift (Yield r).
Proof. exact xbinop_conservative. Qed.
Print Assumptions C08_special_conservative.

Example C08_special_nonvacuous :
  (* ((U - V) * 2) >= (Z + 1) with U = 1.0 inf 3.0, V = 0.5 inf 4.0, Z = 0 0 0: element 1 is inf - inf = NaN, and
     NaN >= 1 is False (a three-way comparison would say True); 1e308 * 10 is inf; nan & 1 is True *)
  let inf := XF (XInf false) in
  let sq (l : list xv) := AP (PSequence (AL (map (fun x => AV (enc x)) l)) (AV (VInt 1)) 0 0) in
  let U := sq [xmk 1 0; inf; xmk 3 0] in let V := sq [xmk 1 (-1); inf; xmk 4 0] in let Z := sq [XI 0; XI 0; XI 0] in
  fst (outputs binop_sp 100 30 3
        (PBinOp OGe (AP (PBinOp OMul (AP (PBinOp OSub U V)) (AV (VInt 2)))) (AP (PBinOp OAdd Z (AV (VInt 1))))))
    = [Yield (VBool true); Yield (VBool false); Yield (VBool false)] /\
  ge3 XNaN (XFin 1) = true /\
  xbinop OMul (xmk 4503599627370496 971) (XI 10) = Yield inf /\
  xelem_and (XF XNaN) (XI 1) = Yield (XB true) /\
  (exists a', vals binop_sp 100 20 3 U = Some (map enc [xmk 1 0; inf; xmk 3 0], a')).
Proof. repeat split; try (vm_compute; reflexivity). eexists. vm_compute. reflexivity. Qed.

(* Props/C01Src.v — property C01 (onsets fall on the exact tick of their cumulative duration), restated for Track.tick as
   translated from the SOURCE TEXT (Generated/TablesTrack.v src_track_tick_loop / src_track_tick_a / src_track_tick_b; relation
   to the model: Sched/ModelSrcTrack.v; docs/TRANSLATOR3.md).  The due test round(current_time - next_event_time, 8) >= 0 is
   rendered exact (Base/Round8.v r8_diff_compare, C01_round8_is_exact); its binary64 side is Props/C01Float.v. *)
From Isobar Require Import Base.Prelude Sched.Model Sched.OnsetProofs Sched.TimeProofs Sched.SrcGlue Generated.TablesTrack
  Sched.ModelSrc Sched.ModelSrcTrack Props.C01.
Local Open Scope Z_scope.

(* one whole Track.tick of the source for a track whose events are not actions, and j of them in a row
   (the shapes of Sched/OnsetProofs.v track_tick / track_run) *)
Definition src_track_tick (cfg : config) (nowT : Z) (tr : track) (n : nat) : track * list call * nat * ticked :=
  let '(tr1, c, n', res) := src_track_tick_a cfg nowT tr n in
  match res with
  | TNotStarted | TRaise | TOutOfFuel => (tr1, c, n', res)
  | TStop => (src_track_tick_b cfg tr1 true, c, n', res)
  | _ => (src_track_tick_b cfg tr1 false, c, n', res)
  end.
Fixpoint src_track_run (cfg : config) (nowT : Z) (tr : track) (n : nat) (j : nat) : track * nat :=
  match j with
  | O => (tr, n)
  | S j' => let '(tr', _, n', _) := src_track_tick cfg nowT tr n in src_track_run cfg (nowT + tau cfg) tr' n' j'
  end.

Lemma src_track_tick_is cfg nowT tr n : src_track_tick cfg nowT tr n = track_tick cfg nowT tr n.
Proof.
  unfold src_track_tick, track_tick. rewrite src_track_tick_a_is.
  destruct (track_tick_a cfg nowT tr n) as [[[tr1 c] n'] res]. destruct res; rewrite ?src_track_tick_b_is; reflexivity.
Qed.
Lemma src_track_run_is cfg : forall j nowT tr n, src_track_run cfg nowT tr n j = track_run cfg nowT tr n j.
Proof.
  induction j as [|j IH]; intros nowT tr n; cbn [src_track_run track_run]; [reflexivity|].
  rewrite src_track_tick_is. destruct (track_tick cfg nowT tr n) as [[[tr' c] n'] res]. apply IH.
Qed.

(* closed form: event k is performed on tick ceil(N k / tau) after the start, whatever happened before *)
Theorem C01_src_onset_tick : forall cfg ev L tr0 nowT n0,
  0 < tau cfg -> (2 <= fuel cfg)%nat -> dev_fail cfg = None ->
  (forall k, (k < L)%nat -> tau cfg <= e_dur (ev k)) ->
  t_started tr0 = true -> t_next tr0 = t_cur tr0 -> fed ev L (t_stream tr0) 0 ->
  (t_max tr0 = None \/ t_max tr0 = Some 0) ->
  forall k, (k < L)%nat ->
  let j := Z.to_nat (cdiv (N ev k) (tau cfg)) in
  let trj := fst (src_track_run cfg nowT tr0 n0 j) in
  fst (src_track_tick_loop (fuel cfg) trj None) = PDone (Some (ev k)) /\ t_next trj <= t_cur trj
  /\ t_count trj = t_count tr0 + Z.of_nat k
  /\ t_cur trj = t_cur tr0 + Z.of_nat j * tau cfg.
Proof.
  intros cfg ev L tr0 nowT n0 Htau Hfuel Hfail Hdur Hs Hn Hfed Hm k Hk j trj.
  pose proof (C01_onset_tick cfg ev L tr0 nowT n0 Htau Hfuel Hfail Hdur Hs Hn Hfed Hm k Hk) as H. cbv zeta in H.
  unfold trj. rewrite src_track_run_is, src_track_tick_loop_is. fold j in H.
  set (t := fst (track_run cfg nowT tr0 n0 j)) in *. destruct H as [H1 [H2 H3]]. unfold tick_event in H1.
  destruct (negb (t_started t)); [discriminate|]. destruct (t_next t <=? t_cur t) eqn:D; [|discriminate].
  split; [|split; [lia|split; assumption]].
  destruct (pull_loop (fuel cfg) t None) as [[e| | |] t']; cbn [fst]; try discriminate. rewrite H1. reflexivity.
Qed.
Print Assumptions C01_src_onset_tick.

(* a tick on which the next event is not yet due draws nothing and performs nothing; the clock advances by one tick *)
Theorem C01_src_not_due : forall cfg nowT tr n, t_started tr = true -> t_cur tr < t_next tr ->
  src_track_tick cfg nowT tr n = (set_cur tr (t_cur tr + tau cfg), [], n, TNormal).
Proof.
  intros cfg nowT tr n Hs Hd. unfold src_track_tick, src_track_tick_a. rewrite Hs.
  destruct (t_next tr <=? t_cur tr) eqn:D; [lia|]. reflexivity.
Qed.
Print Assumptions C01_src_not_due.

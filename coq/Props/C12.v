From Isobar Require Import Base.Prelude Pat.Val Pat.Syntax Pat.Step.
Example C12_stub : True. Proof. exact I. Qed.

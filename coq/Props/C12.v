(* Props/C12.v — property C12: pattern-valued parameters are resolved afresh at every step.
   Only the property theorems live here; each is closed by a lemma of Pat/ParamProofs.v / Pat/ParamMore.v.

   Vocabulary (Pat/Param.v):
     vfield p i = Some a     a is the i-th parameter of the object p that its class resolves with Pattern.value once per
                             output (the table covers 22 parameters of 18 classes, the 15 operator classes counted once:
                             the model's side of the parameter registry, compared with the Python sources on every run);
     with_vfield p i b       the same object with that parameter replaced by b;
     konst x d a             a is the scalar x (d = 0), PConstant(x) (d = 1), PRef(PConstant(x)) (d = 2), PRef(PRef(..)) ...;
     driven f n p i q        the step-wise scalar reference: n times { w := next(q); p.param := w; v := next(p) };
     outputs f n p           the outcomes of the next n calls of next(p) and the object afterwards;
     f is the recursion fuel of the model, binop the operator semantics (arbitrary). *)
From Isobar Require Import Base.Prelude Pat.Val Pat.Syntax Pat.Step Pat.StepProofs Pat.Script Pat.Param Pat.ParamProofs Pat.ParamMore Pat.ParamLive Pat.ParamLiveProofs Pat.Osc Pat.OscProofs Pat.WalkParam.
From Isobar Require Pat.Chance.
From Coq Require Import String QArith Permutation.
Open Scope Z_scope.

Section AnyOperators.
  Variable binop : op -> val -> val -> outcome val.
  Variable LMAX : nat.

  (** ** (1) the scalar x, PConstant(x), PRef(PConstant(x)) and deeper references are indistinguishable *)

  (* for EVERY class and parameter of the table, every object state p (whatever its other operands are and however far
     they have advanced), every value x, every number of steps n: replacing the constant-like parameter a by the
     constant-like parameter b changes no outcome, and the rest of the state evolves identically *)
  Theorem C12_const_equiv : forall p i x da a db b f n,
    vfield p i = Some a -> konst x da a -> konst x db b ->
    (2 * da + 1 <= f)%nat -> (2 * db + 1 <= f)%nat ->
    outputs binop LMAX (S f) n (with_vfield p i b) =
      (let '(os, p') := outputs binop LMAX (S f) n p in (os, with_vfield p' i b)).
  Proof.
    intros p i x da a db b f n H Ka Kb Fa Fb.
    apply (const_field_outputs binop LMAX x a b f i); auto; eapply konst_fixed; eauto.
  Qed.

  (* the three forms of the property text, spelled out *)
  Corollary C12_scalar_constant_ref : forall p i x a f n, vfield p i = Some a -> (5 <= f)%nat ->
    let P y := with_vfield p i y in
    fst (outputs binop LMAX (S f) n (P (AP (PConstant x)))) = fst (outputs binop LMAX (S f) n (P (AV x))) /\
    fst (outputs binop LMAX (S f) n (P (AP (PRef (AP (PConstant x)))))) = fst (outputs binop LMAX (S f) n (P (AV x))).
  Proof.
    intros p i x a f n H Hf P.
    assert (H0 : vfield (P (AV x)) i = Some (AV x)) by (eapply vfield_with; eauto).
    assert (K0 : konst x 0 (AV x)) by constructor.
    assert (K1 : konst x 1 (AP (PConstant x))) by constructor.
    assert (K2 : konst x 2 (AP (PRef (AP (PConstant x))))) by (constructor; constructor).
    split.
    - pose proof (C12_const_equiv (P (AV x)) i x 0 _ 1 _ f n H0 K0 K1 ltac:(lia) ltac:(lia)) as E.
      unfold P in E. erewrite with_with in E by eauto. unfold P. rewrite E.
      destruct (outputs binop LMAX (S f) n (with_vfield p i (AV x))). reflexivity.
    - pose proof (C12_const_equiv (P (AV x)) i x 0 _ 2 _ f n H0 K0 K2 ltac:(lia) ltac:(lia)) as E.
      unfold P in E. erewrite with_with in E by eauto. unfold P. rewrite E.
      destruct (outputs binop LMAX (S f) n (with_vfield p i (AV x))). reflexivity.
  Qed.

  (* the two looping classes have their own statement (a rest / a repeated value makes them call their input again) *)
  Theorem C12_const_collapse : forall x d a f, konst x d a -> x <> VNone -> (2 * d + 1 <= f)%nat ->
    step binop LMAX (S f) (PCollapse a) = (Yield x, PCollapse a).
  Proof. exact (collapse_const binop LMAX). Qed.

  Theorem C12_const_norepeats : forall x d a v f,
    konst x d a -> py_eq x v = false -> py_eq x (VInt MAXSIZE) = false -> (2 * d + 1 <= f)%nat ->
    step binop LMAX (S f) (PNoRepeats a v) = (Yield x, PNoRepeats a x).
  Proof. exact (norepeats_const binop LMAX). Qed.

  (** ** (2) a varying parameter is consumed one value per use, in order, never skipped, never read twice *)

  (* one output of a per-step class whose parameter is the pattern q: it is the output the class gives for the SCALAR w,
     where w is q's next value, and q has been advanced by exactly that one step *)
  Theorem C12_use_one_step : forall p i q w q' f v p1,
    vfield p i = Some (AP q) -> step binop LMAX f q = (Yield w, q') ->
    step binop LMAX (S (S f)) (with_vfield p i (AV w)) = (Yield v, p1) ->
    step binop LMAX (S (S f)) p = (Yield v, with_vfield p1 i (AP q')).
  Proof. intros. eapply varying_field_step; eauto. Qed.

  (* n outputs: they are the outputs of the step-wise scalar reference (the i-th output uses the i-th value of q),
     and afterwards the parameter pattern is in the state reached by exactly n steps of its own *)
  Theorem C12_use_schedule : forall n f p i q a vs ws pn qn,
    vfield p i = Some a ->
    driven binop LMAX f n p i q = Some (vs, ws, pn, qn) ->
    outputs binop LMAX (S (S f)) n (with_vfield p i (AP q)) = (map Yield vs, with_vfield pn i (AP qn)) /\
    outputs binop LMAX f n q = (map Yield ws, qn) /\
    List.length vs = n /\ List.length ws = n.
  Proof.
    intros n f p i q a vs ws pn qn H Hd.
    destruct (driven_outputs binop LMAX n f p i q a vs ws pn qn H Hd) as (A & B & _ & C & D). auto.
  Qed.

  (* block-wise: PStutter.count is read once per block.  At a block boundary the count pattern is stepped exactly once
     and its value c is the length of the new block ... *)
  Theorem C12_stutter_block_start : forall f pt q w pos v c q' v' pt',
    w <= pos -> step binop LMAX f q = (Yield c, q') -> step binop LMAX f pt = (Yield v', pt') ->
    step binop LMAX (S (S f)) (PStutter (AP pt) (AP q) (VInt w) pos v) =
      (Yield v', PStutter (AP pt') (AP q') c 1 v').
  Proof. exact (stutter_boundary binop LMAX). Qed.

  (* ... and the remaining c - 1 outputs of the block repeat the value and touch neither operand *)
  Theorem C12_stutter_block_rest : forall f pattern count c v k,
    1 + Z.of_nat k <= c ->
    outputs binop LMAX (S f) k (PStutter pattern count (VInt c) 1 v) =
      (repeat (Yield v) k, PStutter pattern count (VInt c) (1 + Z.of_nat k) v).
  Proof. intros. apply stutter_block; lia. Qed.

  (** ** (3) Pattern.value resolves recursively down to plain values *)

  (* tuples nested to ANY depth n whose leaves are plain values and arbitrary patterns (each pattern, of whatever class
     and nesting, answering its next() with a plain value): the result is the fully resolved value — its type [val] has
     no pattern in it —, every nested pattern has been asked exactly once (left to right) and is in its successor state *)
  Theorem C12_value_recursive : forall (g : pat -> option (val * pat)) f0,
    (forall p v p', g p = Some (v, p') -> forall F, (f0 <= F)%nat -> step binop LMAX F p = (Yield v, p')) ->
    forall n a v a', tres n g a = Some (v, a') ->
    forall F, (f0 + n + 1 <= F)%nat -> value binop LMAX F a = (Yield v, a').
  Proof. exact (value_resolves binop LMAX). Qed.

  (* a pattern that hands out another pattern's values through k layers of references: one call of Pattern.value goes
     through all layers and steps the innermost pattern exactly once *)
  Theorem C12_value_through_references : forall q k f,
    value binop LMAX (S f + 2 * k) (nest_ref k (AP q)) =
      (let '(o, q') := step binop LMAX f q in (o, nest_ref k (AP q'))).
  Proof. exact (value_nest_ref binop LMAX). Qed.

  (** ** (4) PDict: a dict of one-shot sequences and the corresponding list of dicts are the same object *)

  (* for all key sets and all lengths >= 1: PDict([row0, row1, ...]) (every row has the keys of the first) and
     PDict({k: PSequence([row[k] for row in rows], 1) for k in keys}) construct the same object state, hence the same
     event stream for every number of steps *)
  Theorem C12_pdict_forms : forall f row0 rows,
    (forall k r, In k (map fst row0) -> In r (row0 :: rows) -> has_key k r) ->
    let ks := map fst row0 in
    construct binop LMAX (S f) CDict [AL (map row_arg (row0 :: rows))] = Yield (pdict_of ks (row0 :: rows)) /\
    construct binop LMAX (S f) CDict [AD (map (fun k => (k, AP (one_shot (column k (row0 :: rows))))) ks)] =
      Yield (pdict_of ks (row0 :: rows)).
  Proof. intros. split; [apply pdict_from_rows; auto | apply pdict_from_columns]. Qed.

  (* the event stream ends with the shortest column *)
  Theorem C12_pdict_ends_with_shortest : forall f kv1 k a a' kv2,
    (forall k1 a1, In (k1, a1) kv1 -> exists v a1', value binop LMAX f a1 = (Yield v, a1')) ->
    value binop LMAX f a = (Stop, a') ->
    fst (step binop LMAX (S f) (PDict (AD (kv1 ++ (k, a) :: kv2)))) = Stop.
  Proof. exact (pdict_ends_with_shortest binop LMAX). Qed.

  (** ** (5) PRef.set_pattern takes effect from the very next step *)
  Theorem C12_ref_retarget : forall f a r,
    step binop LMAX (S (S f)) (set_pattern (PRef a) (AP r)) =
      (let '(o, r') := step binop LMAX f r in (o, PRef (AP r'))).
  Proof. exact (ref_retarget binop LMAX). Qed.

  (* also when the reference is the parameter of another pattern *)
  Theorem C12_param_retarget : forall p i old r w r' f v p1,
    vfield p i = Some (AP (PRef old)) ->
    step binop LMAX f r = (Yield w, r') ->
    step binop LMAX (S (S (S (S f)))) (with_vfield p i (AV w)) = (Yield v, p1) ->
    step binop LMAX (S (S (S (S f)))) (with_vfield p i (AP (set_pattern (PRef old) (AP r)))) =
      (Yield v, with_vfield p1 i (AP (PRef (AP r')))).
  Proof. exact (param_retarget binop LMAX). Qed.
End AnyOperators.

Print Assumptions C12_const_equiv.
Print Assumptions C12_use_schedule.
Print Assumptions C12_value_recursive.
Print Assumptions C12_pdict_forms.
Print Assumptions C12_param_retarget.

(** Non-vacuity: concrete objects meet the hypotheses *)
Definition series_with (stp : arg) : pat := PSeries (VInt 0) (VInt 0) stp (AV (VInt 100)) 0.

Example C12_const_equiv_nonvacuous :
  fst (outputs Val.binop 10 8 3 (series_with (AP (PRef (AP (PConstant (VInt 3))))))) = [Yield (VInt 0); Yield (VInt 3); Yield (VInt 6)]
  /\ vfield (series_with (AV (VInt 3))) 0 = Some (AV (VInt 3)).
Proof. vm_compute. auto. Qed.

Example C12_use_schedule_nonvacuous :
  driven Val.binop 10 6 3 (series_with (AV (VInt 0))) 0 (PSequence (AL [AV (VInt 1); AV (VInt 10)]) (AV (VInt 5)) 0 0)
  = Some ([VInt 0; VInt 1; VInt 11], [VInt 1; VInt 10; VInt 1],
          PSeries (VInt 0) (VInt 12) (AV (VInt 1)) (AV (VInt 100)) 3,
          PSequence (AL [AV (VInt 1); AV (VInt 10)]) (AV (VInt 5)) 1 1).
Proof. vm_compute. reflexivity. Qed.

Example C12_value_recursive_nonvacuous :
  let q := PSequence (AL [AV (VInt 7); AV (VInt 8)]) (AV (VInt 2)) 0 0 in
  tres 2 (fun p => match step Val.binop 10 5 p with (Yield v, p') => Some (v, p') | _ => None end)
       (AT [AV (VInt 1); AT [AP q; AP (PConstant (VInt 2))]; AP (PRef (AP q))])
  = Some (VTup [VInt 1; VTup [VInt 7; VInt 2]; VInt 7],
          AT [AV (VInt 1); AT [AP (PSequence (AL [AV (VInt 7); AV (VInt 8)]) (AV (VInt 2)) 0 1); AP (PConstant (VInt 2))];
              AP (PRef (AP (PSequence (AL [AV (VInt 7); AV (VInt 8)]) (AV (VInt 2)) 0 1)))]).
Proof. vm_compute. reflexivity. Qed.

Example C12_pdict_forms_nonvacuous :
  let rows := [[("note", VInt 60); ("amp", VInt 64)]; [("amp", VInt 32); ("note", VInt 67)]]%string in
  construct Val.binop 10 3 CDict [AL (map row_arg rows)] = Yield (pdict_of ["note"; "amp"]%string rows)
  /\ fst (outputs Val.binop 10 6 3 (pdict_of ["note"; "amp"]%string rows)) =
     [Yield (VDict [("note", VInt 60); ("amp", VInt 64)]%string); Yield (VDict [("note", VInt 67); ("amp", VInt 32)]%string); Stop].
Proof. vm_compute. auto. Qed.

(** ** (4') the list-of-dicts form reads every row BY KEY *)
(* [reordered rows rows'] (Pat/ParamLiveProofs.v): rows' are the same dicts with their entries in other insertion orders
   (each a permutation of the corresponding row, keys distinct - equal as Python dicts).  For ALL key sets, lengths and
   orders, PDict([row0] + rows') builds the object of the rows in the first row's key order, i.e. (C12_pdict_forms) the object
   of the dict of one-shot sequences: the insertion order of a later dict's keys cannot move a value to another column *)
Section KeyOrder.
  Variable binop : op -> val -> val -> outcome val.
  Variable LMAX : nat.
  Theorem C12_pdict_rows_key_order : forall f row0 rows rows',
    (forall k r, In k (map fst row0) -> In r (row0 :: rows') -> has_key k r) ->
    reordered rows rows' ->
    construct binop LMAX (S f) CDict [AL (map row_arg (row0 :: rows'))] = Yield (pdict_of (map fst row0) (row0 :: rows)).
  Proof. exact (pdict_rows_any_key_order binop LMAX). Qed.
End KeyOrder.
Theorem C12_pdict_key_order : forall ks row0 rows rows', reordered rows rows' -> pdict_of ks (row0 :: rows') = pdict_of ks (row0 :: rows).
Proof. exact pdict_key_order. Qed.

(** ** (5') re-targeting a reference that sits in the event dict of a RUNNING TRACK (Pat/ParamLive.v) *)
(* A timeline is a list of tracks, each with its name and the event stream it draws from; a history is a list of
   LSchedule name s (a fresh track, or - name given and a track of that name running - that track now plays s),
   LUpdate t s (Track.update), LStep t (the track's next event) and LRetarget t k path r (set_pattern(r) on the reference
   at key k / parameter path of what track t plays).  [tl] below is ANY state, i.e. the state after any history. *)
Section LiveOperators.
  Variable binop : op -> val -> val -> outcome val.
  Variable LMAX : nat.

  (* the very next event of the track carries the new target's next value under k - every other key its own next value -
     and the reference then holds the new target advanced by that one step *)
  Theorem C12_live_retarget : forall f tl t nm kv1 k old kv2 r w r' vs1 kv1' vs2 kv2',
    nth_error tl t = Some (mkLT nm (PDict (AD (kv1 ++ (k, AP (PRef old)) :: kv2)))) ->
    ~ In k (map fst kv1) ->
    kwvalues_of (value binop LMAX (S (S (S f)))) kv1 = (Yield vs1, kv1') ->
    step binop LMAX f r = (Yield w, r') ->
    kwvalues_of (value binop LMAX (S (S (S f)))) kv2 = (Yield vs2, kv2') ->
    lexec binop LMAX (S (S (S (S f)))) (fst (lexec binop LMAX (S (S (S (S f)))) tl (LRetarget t k [] r))) (LStep t) =
      (lset t (PDict (AD (kv1' ++ (k, AP (PRef (AP r'))) :: kv2'))) tl, Some (Yield (VDict (vs1 ++ (k, w) :: vs2)))).
  Proof. exact (live_retarget_event binop LMAX). Qed.

  (* ... also when the reference is a parameter of the pattern under the key ("note": PRef(...) + 12) *)
  Theorem C12_live_param_retarget : forall f tl t nm kv1 k p i old kv2 r w r' v p1 vs1 kv1' vs2 kv2',
    nth_error tl t = Some (mkLT nm (PDict (AD (kv1 ++ (k, AP p) :: kv2)))) ->
    ~ In k (map fst kv1) ->
    vfield p i = Some (AP (PRef old)) ->
    kwvalues_of (value binop LMAX (S (S (S (S (S f)))))) kv1 = (Yield vs1, kv1') ->
    step binop LMAX f r = (Yield w, r') ->
    step binop LMAX (S (S (S (S f)))) (with_vfield p i (AV w)) = (Yield v, p1) ->
    kwvalues_of (value binop LMAX (S (S (S (S (S f)))))) kv2 = (Yield vs2, kv2') ->
    lexec binop LMAX (S (S (S (S (S (S f)))))) (fst (lexec binop LMAX (S (S (S (S (S (S f)))))) tl (LRetarget t k [i] r))) (LStep t) =
      (lset t (PDict (AD (kv1' ++ (k, AP (with_vfield p1 i (AP (PRef (AP r'))))) :: kv2'))) tl,
       Some (Yield (VDict (vs1 ++ (k, v) :: vs2)))).
  Proof. exact (live_param_retarget_event binop LMAX). Qed.

  (* the three ways a track comes to play the caller's event dict s - the tree s itself, so that the caller's place
     (key, path) addresses the reference the track evaluates: *)
  Theorem C12_live_fresh_installs : forall f tl name s,
    match name with Some nm => lfind nm tl 0 | None => None end = None ->
    lexec binop LMAX f tl (LSchedule name s) = (tl ++ [mkLT name s], None)
    /\ nth_error (tl ++ [mkLT name s]) (List.length tl) = Some (mkLT name s).
  Proof. exact (live_fresh_installs binop LMAX). Qed.
  Theorem C12_live_update_installs : forall f tl t s tr, nth_error tl t = Some tr ->
    let tl' := fst (lexec binop LMAX f tl (LUpdate t s)) in
    nth_error tl' t = Some (mkLT (lt_name tr) s) /\ List.length tl' = List.length tl
    /\ forall t', t' <> t -> nth_error tl' t' = nth_error tl t'.
  Proof. exact (live_update_installs binop LMAX). Qed.
  Theorem C12_live_replace_installs : forall f tl nm s i, lfind nm tl 0 = Some i ->
    let tl' := fst (lexec binop LMAX f tl (LSchedule (Some nm) s)) in
    nth_error tl' i = Some (mkLT (Some nm) s) /\ List.length tl' = List.length tl
    /\ forall t', t' <> i -> nth_error tl' t' = nth_error tl t'.
  Proof. exact (live_replace_installs binop LMAX). Qed.

  (* and however many events the track has drawn since, the reference is still under its key in what the track plays:
     the hypothesis of C12_live_retarget holds at every later moment *)
  Theorem C12_live_ref_survives : forall f tl t nm s k n, nth_error tl t = Some (mkLT nm s) -> ref_at k s ->
    exists s', nth_error (lrun_state binop LMAX f tl (repeat (LStep t) n)) t = Some (mkLT nm s') /\ ref_at k s'.
  Proof. exact (live_ref_survives binop LMAX). Qed.
End LiveOperators.

Print Assumptions C12_pdict_rows_key_order.
Print Assumptions C12_live_retarget.
Print Assumptions C12_live_param_retarget.
Print Assumptions C12_live_ref_survives.

(* rows with the keys of the later dicts in other orders *)
Example C12_pdict_key_order_nonvacuous :
  let rows  := [[("amp", VInt 32); ("note", VInt 67)]; [("note", VInt 72); ("amp", VInt 100)]]%string in
  let rows' := [[("note", VInt 67); ("amp", VInt 32)]; [("amp", VInt 100); ("note", VInt 72)]]%string in
  let row0 := [("note", VInt 60); ("amp", VInt 64)]%string in
  reordered rows rows'
  /\ fst (outputs Val.binop 10 6 4 (pdict_of ["note"; "amp"]%string (row0 :: rows'))) =
     [Yield (VDict [("note", VInt 60); ("amp", VInt 64)]%string); Yield (VDict [("note", VInt 67); ("amp", VInt 32)]%string);
      Yield (VDict [("note", VInt 72); ("amp", VInt 100)]%string); Stop].
Proof.
  split; [|vm_compute; reflexivity].
  repeat constructor; simpl; try (intros [X|X]; [discriminate X|exact X]); try (intros X; exact X).
Qed.

(* the history of seeded/C12-f/demo.py: track "lead" (name 1) plays 48; its events are replaced BY NAME with a dict whose
   note and amplitude are references (60 / 64); the note reference is re-targeted at 72, 73, ...; then the amplitude *)
Definition lv_series (a : Z) : pat := PSeries (VInt a) (VInt a) (AV (VInt 1)) (AV (VInt 1000)) 0.
Definition lv_dict (n a : arg) : pat := PDict (AD [("note", n); ("amplitude", a)]%string).
Definition lv_h : list lop :=
  [ LSchedule (Some 1) (lv_dict (AP (PConstant (VInt 48))) (AP (PConstant (VInt 50)))); LStep 0; LStep 0;
    LSchedule (Some 1) (lv_dict (AP (PRef (AP (PConstant (VInt 60))))) (AP (PRef (AP (PConstant (VInt 64)))))); LStep 0; LStep 0;
    LRetarget 0 "note" [] (lv_series 72); LStep 0; LStep 0;
    LRetarget 0 "amplitude" [] (PConstant (VInt 100)); LStep 0; LStep 0 ]%string.
Example C12_live_nonvacuous :
  map (played) (lrun Val.binop 10 8 [] lv_h) =
    map (fun na => Yield (VTup [VInt (fst na); VInt (snd na)])) [(48, 50); (48, 50); (60, 64); (60, 64); (72, 64); (73, 64); (74, 100); (75, 100)]
  /\ List.length (lrun_state Val.binop 10 8 [] lv_h) = 1%nat
  /\ lfind 1 (lrun_state Val.binop 10 8 [] (firstn 3 lv_h)) 0 = Some 0%nat.
Proof. vm_compute. repeat split. Qed.

(** ** (6) the oscillator classes PTri / PSaw (isobar/pattern/oscillator.py; model Pat/Osc.v) *)
(* They are not constructors of the embedding, so the table of C12_const_equiv / C12_use_schedule does not reach them; their
   __next__ is modelled over the same [arg] operands and the same [value].  Parameter 0 = length, 1 = min, 2 = max. *)
Section Oscillators.
  Variable binop : op -> val -> val -> outcome val.
  Variable LMAX : nat.

  (* scalar x / PConstant(x) / PRef(PConstant(x)) / deeper references, for every parameter, state and number of steps *)
  Theorem C12_osc_const_equiv : forall i x da a db b f n o, (i < 3)%nat -> konst x da a -> konst x db b ->
    (2 * da + 1 <= f)%nat -> (2 * db + 1 <= f)%nat ->
    osc_outputs binop LMAX f n (with_ofield o i b) =
      (let '(rs, o') := osc_outputs binop LMAX f n (with_ofield o i a) in (rs, with_ofield o' i b)).
  Proof. exact (osc_const_equiv binop LMAX). Qed.

  (* one output with pattern-valued length, min and max: it is the output for the scalars the three patterns give next,
     and each of them has advanced by exactly one step *)
  Theorem C12_osc_use_one_step : forall f sh ql qm qx ph l ql' m qm' x qx',
    step binop LMAX f ql = (Yield l, ql') -> step binop LMAX f qm = (Yield m, qm') -> step binop LMAX f qx = (Yield x, qx') ->
    osc_step binop LMAX (S f) (mkOsc sh (AP ql) (AP qm) (AP qx) ph) =
      (let '(r, o1) := osc_step binop LMAX (S f) (mkOsc sh (AV l) (AV m) (AV x) ph) in
       (r, mkOsc sh (AP ql') (AP qm') (AP qx') (o_phase o1))).
  Proof. exact (osc_use_one_step binop LMAX). Qed.

  (* n outputs: the k-th is computed from the k-th value of each parameter stream (osc_scalar_outputs: the plain function of
     the three value lists), and every parameter pattern ends in the state reached by exactly n steps of its own *)
  Theorem C12_osc_use_schedule : forall f sh n ql qm qx ph ls ms xs qln qmn qxn,
    outputs binop LMAX f n ql = (map Yield ls, qln) -> outputs binop LMAX f n qm = (map Yield ms, qmn) ->
    outputs binop LMAX f n qx = (map Yield xs, qxn) ->
    osc_outputs binop LMAX (S f) n (mkOsc sh (AP ql) (AP qm) (AP qx) ph) =
      (fst (osc_scalar_outputs sh ls ms xs ph),
       mkOsc sh (AP qln) (AP qmn) (AP qxn) (snd (osc_scalar_outputs sh ls ms xs ph))).
  Proof. exact (osc_use_schedule binop LMAX). Qed.
End Oscillators.
Print Assumptions C12_osc_const_equiv.
Print Assumptions C12_osc_use_schedule.

(* PTri(8, PSequence([0, 0.25, 0.5, 0.75, ...]), 10) of seeded/C12-j/demo.py: outputs 0, 2.6875, 5.25, 7.6875, 10, ... and after
   five steps the min stream has given exactly five values *)
Example C12_osc_nonvacuous :
  let mins := PSequence (AL [AV (VFlt 0); AV (VFlt (1 # 4)); AV (VFlt (1 # 2)); AV (VFlt (3 # 4)); AV (VFlt 1); AV (VFlt (5 # 4))]) (AV (VInt 9)) 0 0 in
  let o := mkOsc Tri (AP (PConstant (VInt 8))) (AP mins) (AP (PRef (AP (PConstant (VInt 10))))) (VFlt 0) in
  fst (osc_outputs Val.binop 10 8 5 o) = [Yield (VFlt 0); Yield (VFlt (43 # 16)); Yield (VFlt (21 # 4)); Yield (VFlt (123 # 16)); Yield (VFlt 10)]
  /\ o_min (snd (osc_outputs Val.binop 10 8 5 o)) =
       AP (PSequence (AL [AV (VFlt 0); AV (VFlt (1 # 4)); AV (VFlt (1 # 2)); AV (VFlt (3 # 4)); AV (VFlt 1); AV (VFlt (5 # 4))]) (AV (VInt 9)) 0 5)
  /\ fst (osc_scalar_outputs Tri (repeat (VInt 8) 5) [VFlt 0; VFlt (1 # 4); VFlt (1 # 2); VFlt (3 # 4); VFlt 1] (repeat (VInt 10) 5) (VFlt 0))
     = fst (osc_outputs Val.binop 10 8 5 o).
Proof. vm_compute. repeat split. Qed.

(** ** (7) PRandomWalk in both modes of its `wrap` flag (Pat/WalkParam.v over Pat/Chance.v's walk) *)
(* the walk's bounds `min` / `max` as operands resolved with the engine's [value]; R, r_unit, r_below: the random source, arbitrary *)
Section RandomWalk.
  Variable R : Type.
  Variable r_unit : R -> Z * R.
  Variable r_below : Z -> R -> Z * R.
  Variable binop : Val.op -> val -> val -> outcome val.
  Variable LMAX : nat.

  (* one output, wrap = true OR false, with pattern-valued bounds: it is the move the walk makes with the two numbers the patterns
     give next, and each pattern has advanced by exactly one step - also when the move leaves the list (wrap = false) *)
  Theorem C12_walk_use_one_step : forall f values wrap qm qx pos g a qm' b qx',
    step binop LMAX f qm = (Yield (VInt a), qm') -> step binop LMAX f qx = (Yield (VInt b), qx') ->
    rw_step R r_unit r_below binop LMAX (S f) values wrap (mkRW (AP qm) (AP qx) pos) g =
      (let '(r, pos', g') := Chance.walk_step R r_unit r_below values a b wrap pos g in (r, mkRW (AP qm') (AP qx') pos', g')).
  Proof. exact (rw_use_one_step R r_unit r_below binop LMAX). Qed.
  Theorem C12_walk_const : forall f values wrap a da ma b db mb pos g,
    konst (VInt a) da ma -> konst (VInt b) db mb -> (2 * da + 1 <= f)%nat -> (2 * db + 1 <= f)%nat ->
    rw_step R r_unit r_below binop LMAX f values wrap (mkRW ma mb pos) g =
      (let '(r, pos', g') := Chance.walk_step R r_unit r_below values a b wrap pos g in (r, mkRW ma mb pos', g')).
  Proof. exact (rw_const_step R r_unit r_below binop LMAX). Qed.
  (* n outputs: the k-th move is made with the k-th values of the two streams; each stream has then given exactly n values *)
  Theorem C12_walk_use_schedule : forall f values wrap n qm qx pos g mins maxs qmn qxn,
    outputs binop LMAX f n qm = (map (fun z => Yield (VInt z)) mins, qmn) ->
    outputs binop LMAX f n qx = (map (fun z => Yield (VInt z)) maxs, qxn) ->
    rw_outputs R r_unit r_below binop LMAX (S f) n values wrap (mkRW (AP qm) (AP qx) pos) g =
      (let '(rs, posn, gn) := rw_scalar_outputs R r_unit r_below values wrap mins maxs pos g in (rs, mkRW (AP qmn) (AP qxn) posn, gn)).
  Proof. exact (rw_use_schedule R r_unit r_below binop LMAX). Qed.
End RandomWalk.
Print Assumptions C12_walk_use_schedule.

(* a toy random source (always the largest move, always downwards): the walk over [10; 20; 30] with wrap = false goes -2 (Python's index from the end), -1, -1 and
   leaves the list on the third step; three steps have read exactly three values of each bound (the three-element sequences are back at their start, one repeat done) *)
Example C12_walk_nonvacuous :
  let qm := PSequence (AL [AV (VInt 1); AV (VInt 0); AV (VInt 1)]) (AV (VInt 9)) 0 0 in
  let qx := PSequence (AL [AV (VInt 2); AV (VInt 1); AV (VInt 1)]) (AV (VInt 9)) 0 0 in
  let r_unit := fun g : Z => (0, g + 1) in let r_below := fun (n : Z) (g : Z) => (n - 1, g + 1) in
  let '(rs, o, g) := rw_outputs Z r_unit r_below Val.binop 10 6 3 [10; 20; 30] false (mkRW (AP qm) (AP qx) 0) 0 in
  rs = [Chance.Out (Chance.OZ 20); Chance.Out (Chance.OZ 10); Chance.Fail]
  /\ w_min o = AP (PSequence (AL [AV (VInt 1); AV (VInt 0); AV (VInt 1)]) (AV (VInt 9)) 1 0) /\ w_pos o = -4.
Proof. vm_compute. repeat split. Qed.

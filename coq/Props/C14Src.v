(* Props/C14Src.v — property C14, rate conversion: the main theorems of Props/C14.v restated for the definitions translated
   from the BODY of isobar/util.py make_clock_multiplier (Generated/TablesMult.v; tie: Clock/MultiplierSrc.v).
   src_mult_run out inn SNew n = the results of n successive next() calls on make_clock_multiplier(out, inn), read from the
   source text: src_mult_init (the statements before the loop, with the divisibility test the source contains),
   src_mult_body (the loop body up to the yield), and the generator protocol written in Clock/MultiplierSrc.v. *)
From Isobar Require Import Base.Prelude Clock.Multiplier Clock.MultiplierProofs Generated.TablesMult Clock.MultiplierSrc Props.C14.
Local Open Scope Z_scope.

(* out | in, m = in/out: timeline tick i carries one device tick when m | i and none otherwise; ceil(n/m) after n ticks *)
Theorem C14_src_ratio_div : forall a m n, 0 < a -> 0 < m -> m * a < S8 ->
  let run := src_mult_run (Some a) (Some (m * a)) SNew n in
  (forall i, (i < n)%nat -> nth_error run i = Some (MTicks (if Z.of_nat i mod m =? 0 then 1 else 0)))
  /\ total_ticks run = (Z.of_nat n + m - 1) / m.
Proof.
  intros a m n Ha Hm Hb. rewrite src_mult_run_is by (cbn; nia). exact (C14_ratio_div a m n Ha Hm Hb).
Qed.
Print Assumptions C14_src_ratio_div.

(* in | out, k = out/in: every timeline tick carries exactly k device ticks *)
Theorem C14_src_ratio_mul : forall b k n, 0 < b < S8 -> 0 < k -> k * b < S8 ->
  forall r, In r (src_mult_run (Some (k * b)) (Some b) SNew n) -> r = MTicks k.
Proof.
  intros b k n Hb Hk Hkb r. rewrite src_mult_run_is by (cbn; nia). exact (C14_ratio_mul b k n Hb Hk Hkb r).
Qed.
Print Assumptions C14_src_ratio_mul.

(* no cumulative error: exactly ceil(n * out / in) device ticks after n timeline ticks, for every pair the SOURCE's test accepts *)
Theorem C14_src_ratio_total : forall a b n, 0 < a < S8 -> 0 < b < S8 -> src_refuses a b = false ->
  let got := total_ticks (src_mult_run (Some a) (Some b) SNew n) in
  got = owed a b (Z.of_nat n) /\ b * (got - 1) < Z.of_nat n * a <= b * got.
Proof.
  intros a b n Ha Hb R. rewrite src_mult_run_is by (cbn; lia). rewrite src_refuses_is in R by lia.
  exact (C14_ratio_total a b n Ha Hb R).
Qed.
Print Assumptions C14_src_ratio_total.

(* refusal: the source's test `out % in != 0 and in % out != 0` refuses exactly the pairs where neither rate divides the
   other; a refused pair raises ClockException on the first next() (then the generator is finished); an accepted pair
   never raises, and the inner loop never runs out of fuel *)
Theorem C14_src_refuse : forall a b, 0 < a < S8 -> 0 < b < S8 ->
  (src_refuses a b = true <-> (a mod b <> 0 /\ b mod a <> 0))
  /\ (src_refuses a b = true -> src_mult_init (Some a) (Some b) = None
                               /\ src_mult_next (Some a) (Some b) SNew = (MClockErr, SDone))
  /\ (src_refuses a b = false -> forall n r, In r (src_mult_run (Some a) (Some b) SNew n) -> exists k, r = MTicks k /\ 0 <= k).
Proof.
  intros a b Ha Hb. destruct (C14_refuse a b Ha Hb) as [A [B C]]. rewrite src_refuses_is by lia.
  split; [exact A|]. split.
  - intros R. assert (I : src_mult_init (Some a) (Some b) = None).
    { rewrite src_mult_init_is by (cbn; lia). unfold model_init. rewrite multiple_of_some by lia. rewrite R. reflexivity. }
    split; [exact I|]. unfold src_mult_next. rewrite I. reflexivity.
  - intros R n r. rewrite src_mult_run_is by (cbn; lia). exact (C (R) n r).
Qed.
Print Assumptions C14_src_refuse.

(* one next() in closed form, for ANY fuel above the bound: the inner loop of the source ends *)
Theorem C14_src_body_terminates : forall fuel a U pos, 0 < a -> 0 < U < S8 -> 1 <= pos -> (pos + a - 1) / U < Z.of_nat fuel ->
  src_mult_body fuel (a, U) pos = Some ((pos + a - 1) / U, pos + a - (pos + a - 1) / U * U).
Proof. exact src_mult_body_closed. Qed.
Print Assumptions C14_src_body_terminates.

Example C14_src_nonvacuous :
  src_mult_run (Some 24) (Some 96) SNew 9 = map MTicks [1; 0; 0; 0; 1; 0; 0; 0; 1]
  /\ src_mult_run (Some 480) (Some 120) SNew 3 = map MTicks [4; 4; 4]
  /\ src_mult_run (Some 7) (Some 5) SNew 3 = [MClockErr; MStop; MStop]
  /\ src_mult_run None (Some 5) SNew 3 = map MTicks [1; 1; 1].
Proof. vm_compute. repeat split. Qed.

(* Props/C10StreamsSrc.v — property C10, the tonal classes over parameter streams, for the __next__ bodies GENERATED FROM THE
   SOURCE TEXT of isobar/pattern/tonal.py (harness/gen_tables_steptonal.py -> Generated/TablesSteptonal.v on every run; tie
   lemmas in Pat/StepTonalSrc.v; docs/TRANSLATOR.md).  The method calls on Key / Scale objects in those bodies run the
   bodies translated from isobar/key.py / isobar/scale.py (Generated/TablesTonal.v, tied in Tonal/KeySrc.v).
   SrcTDen f o s: call j of next() on o, executed as the source text of its class defines it, has the outcome at_ s j.
   An edit of one of the three __next__ bodies that changes the translated term breaks Pat/StepTonalSrc.v and with it
   these theorems: a broken proof obligation of C10.  Lemmas: Pat/RefTonalSrc.v. *)
From Isobar Require Import Base.Prelude Pat.Val Pat.Syntax Pat.Step Pat.StepProofs Pat.Ref Pat.RefProofs Tonal.Key
  Pat.TonalStreams Pat.TonalStreamsProofs Pat.TonalSrcLib Generated.TablesSteptonal Pat.StepTonalSrc Pat.RefTonalSrc.
From Coq Require Import String QArith.
Open Scope Z_scope.

Section AnyEngine.
  Variable binop : op -> val -> val -> outcome val.
  Variable LMAX : nat.

  (* PFilterByKey(pattern, key), PNearestNoteInKey(pattern, key), both operands streams: the pointwise closed form *)
  Theorem C10_src_tonal_parameter_streams : forall f c a b ins pars, c <> TDegree ->
    ADen binop LMAX f a ins -> ADen binop LMAX f b pars ->
    (forall j x p, at_ ins j = Yield x -> at_ pars j = Yield p -> tonal_ok c x p = true) ->
    SrcTDen binop LMAX f (mkT c a b) (ref_tonal c ins pars).
  Proof. exact (src_tonal_den binop LMAX). Qed.

  (* the source-level and the model-level reading of "o denotes s" coincide for these two classes *)
  Theorem C10_src_tden_is_tden : forall f o s, t_cls o <> TDegree -> (SrcTDen binop LMAX f o s <-> TDen binop LMAX f o s).
  Proof. exact (SrcTDen_iff binop LMAX). Qed.

  (* PDegree.__next__ as written is the model's step wherever the scale operand gives a scale (the body returns None for a
     rest without looking at the scale; the model vouches for nothing when the scale value is malformed) *)
  Theorem C10_src_degree_step : forall f a b,
    (forall p b', value binop LMAX f b = (Yield p, b') -> scale_value p) ->
    src_PDegree_next Val.binop (value binop LMAX) (anext binop LMAX) f a b = tstep binop LMAX f (mkT TDegree a b).
  Proof. exact (src_degree_step binop LMAX). Qed.
End AnyEngine.
Print Assumptions C10_src_tonal_parameter_streams.
Print Assumptions C10_src_tden_is_tden.
Print Assumptions C10_src_degree_step.

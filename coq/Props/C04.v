From Isobar Require Import Base.Prelude Pat.Val Pat.Syntax Pat.Step.
Example C04_stub : True. Proof. exact I. Qed.

(* Props/C04.v — property C04: reset() rewinds any pattern to its initial state.
   Only the property theorems live here; each is closed by a lemma of Pat/ResetProofs.v.

   run f' k p   the object p after k calls of next() (whatever each returned: a value, StopIteration, an exception);
   reset f p    reset(), incl. Pattern.reset's walk over the attributes;  rpat p  the proved fragment: any nesting
   of the 15 operators, &, abs, int, skip-if, references, PStutter, PCounter, PPad, PPadToMultiple, PSeries, PRange, PGeom,
   PImpulse, PLoop, PPingPong, PReverse, PSubsequence, PCollapse, PNoRepeats, PChanged, PDiff, PWrap (parameters scalars
   or again patterns of the fragment) over PSequence (scalar items) and constants/scalars; PReset(p, trigger) for p a
   PSequence / PSeries / PRange / PGeom / PImpulse with scalar parameters (`flat`) and any trigger of the fragment.  binop (operator semantics) is arbitrary; f, f' are recursion fuels. *)
From Isobar Require Import Base.Prelude Pat.Val Pat.Syntax Pat.Step Pat.StepProofs Pat.IterProofs Pat.ResetProofs.
From Coq Require Import String QArith.
Open Scope Z_scope.

Section AnyOperators.
  Variable binop : op -> val -> val -> outcome val.
  Variable LMAX : nat.

  (* reset() erases whatever one next() changed - in the object and in every pattern nested inside it *)
  Theorem C04_reset_erases_step : forall f f' p,
    rpat p -> reset binop LMAX f (snd (step binop LMAX f' p)) = reset binop LMAX f p.
  Proof. exact (reset_step binop LMAX). Qed.

  (* the fragment is closed under next() (shape preservation, class by class): any history stays in it *)
  Theorem C04_fragment_closed : forall f' p, rpat p -> rpat (snd (step binop LMAX f' p)).
  Proof. exact (rpat_step_closed binop LMAX). Qed.

  (* hence, from membership of the NEW object alone: after ANY number k of next() calls - none, some, to exhaustion
     and beyond - reset() gives the state that reset() gives on the untouched object *)
  Theorem C04_reset_any_history : forall f f' k p0,
    rpat p0 -> reset binop LMAX f (run binop LMAX f' k p0) = reset binop LMAX f p0.
  Proof. intros f f' k p0. exact (reset_run binop LMAX f f' k p0). Qed.

  (* after ANY number k of next() calls - none, some, to exhaustion and beyond - reset() gives the state that
     reset() gives on the untouched object; for a new object p0 (reset p0 = p0: __init__ leaves the fields
     reset() establishes) that is p0 itself.  Stated for histories that stay in the fragment. *)
  Theorem C04_reset_init : forall f f' k p0,
    (forall j, (j <= k)%nat -> rpat (run binop LMAX f' j p0)) ->
    reset binop LMAX f (run binop LMAX f' k p0) = reset binop LMAX f p0.
  Proof.
    intros f f' k. induction k as [|k IH]; intros p0 H; [reflexivity|].
    cbn [run]. rewrite IH.
    - apply C04_reset_erases_step. apply (H 0%nat). lia.
    - intros j Hj. apply (H (S j)). lia.
  Qed.

  (* hence the outputs after reset() are those of a newly constructed instance, for every later length n *)
  Theorem C04_reset_outputs : forall f f' k n p0,
    (forall j, (j <= k)%nat -> rpat (run binop LMAX f' j p0)) ->
    reset binop LMAX f p0 = Yield p0 ->
    exists q, reset binop LMAX f (run binop LMAX f' k p0) = Yield q /\
              outputs binop LMAX f' n q = outputs binop LMAX f' n p0.
  Proof.
    intros f f' k n p0 H H0. exists p0. split; [|reflexivity]. rewrite C04_reset_init by exact H. exact H0.
  Qed.

  (* all() leaves the pattern rewound: all(m) = nextn(m) then reset(), and reset after nextn's calls is reset *)
  Theorem C04_all_rewinds : forall f m p vs p' p'',
    nextn binop LMAX f m p = (Yield vs, p') -> reset binop LMAX f p' = Yield p'' ->
    all_ binop LMAX f m p = (Yield vs, p'').
  Proof. exact (all_is_nextn_then_reset binop LMAX). Qed.

  (* remaining classes (PReset over a nested pattern - needs reset (reset p) = reset p for the whole fragment, jointly with
     closure -, PRound PIndexOf PArrayIndex PDict PDictKey PConcatenate, PSequence with pattern items,
     list- / tuple- / dict-valued parameters): full statement
       forall f f' p, fragment p -> reset f (snd (step f' p)) = reset f p ;
     proved here: the leaf case; C04_reset_erases_step has every other modelled class; the rest is validated by the
     correspondence and the oracle *)
  Theorem C04_reset_erases_step_leaf_partial : forall f f' p,
    leaf_reset p = true -> reset binop LMAX f (snd (step binop LMAX f' p)) = reset binop LMAX f p.
  Proof. exact (leaf_reset_step binop LMAX). Qed.
End AnyOperators.
Print Assumptions C04_reset_init.
Print Assumptions C04_reset_erases_step.
Print Assumptions C04_fragment_closed.
Print Assumptions C04_reset_any_history.

(* non-vacuity: a nested, repaired-class expression is in the fragment, is its own reset, and rewinds *)
Definition seq_ (l : list Z) (rep : Z) : pat := PSequence (AL (map (fun z => AV (VInt z)) l)) (AV (VInt rep)) 0 0.
Definition ex_p0 : pat :=
  PBinOp OAdd (AP (PStutter (AP (seq_ [1; 2; 3] 1)) (AV (VInt 2)) (VInt 0) 0 (VInt 0)))
              (AP (PPadToMultiple (AP (seq_ [5] 1)) (VInt 3) (VInt 0) 0 0)).

Example C04_nonvacuous :
  rpat ex_p0 /\ reset Val.binop 100 30 ex_p0 = Yield ex_p0 /\
  run Val.binop 100 30 2 ex_p0 <> ex_p0 /\
  reset Val.binop 100 30 (run Val.binop 100 30 2 ex_p0) = Yield ex_p0 /\
  fst (outputs Val.binop 100 30 4 ex_p0) = [Yield (VInt 6); Yield VNone; Yield VNone; Stop].
Proof.
  split.
  - apply RP_binop; apply RA_pat; [apply RP_stutter; [apply RA_pat; apply RP_leaf; reflexivity|apply RA_val]
                                  |apply RP_padm; apply RA_pat; apply RP_leaf; reflexivity].
  - split; [vm_compute; reflexivity|]. split; [vm_compute; discriminate|]. split; vm_compute; reflexivity.
Qed.

(* non-vacuity for the leaf and buffering classes: PLoop over PCollapse over PSubsequence over PSeries *)
Definition ex_p1 : pat :=
  PLoop (AP (PCollapse (AP (PSubsequence (AP (PSeries (VInt 0) (VInt 0) (AV (VInt 1)) (AV (VInt 5)) 0))
                                         (AV (VInt 1)) (AV (VInt 3)) 0 [])))) (VInt 2) 0 0 false [].

Example C04_buffering_nonvacuous :
  rpat ex_p1 /\ reset Val.binop 100 30 ex_p1 = Yield ex_p1 /\
  run Val.binop 100 30 4 ex_p1 <> ex_p1 /\
  reset Val.binop 100 30 (run Val.binop 100 30 4 ex_p1) = Yield ex_p1 /\
  fst (outputs Val.binop 100 30 7 ex_p1) =
    [Yield (VInt 1); Yield (VInt 2); Yield (VInt 3); Yield (VInt 1); Yield (VInt 2); Yield (VInt 3); Stop].
Proof.
  split.
  - apply RP_loop, RA_pat, RP_collapse, RA_pat, RP_subsequence; [apply RA_pat, RP_series; apply RA_val|apply RA_val|apply RA_val].
  - split; [vm_compute; reflexivity|]. split; [vm_compute; discriminate|]. split; vm_compute; reflexivity.
Qed.

(* non-vacuity for PReset: the trigger restarts the series in the middle, reset() rewinds both *)
Definition ex_p2 : pat :=
  PReset (AP (PSeries (VInt 0) (VInt 0) (AV (VInt 1)) (AV (VInt 9)) 0)) (AP (seq_ [0; 0; 0; 1; 0] 1)).

Example C04_preset_nonvacuous :
  rpat ex_p2 /\ reset Val.binop 100 30 ex_p2 = Yield ex_p2 /\
  reset Val.binop 100 30 (run Val.binop 100 30 4 ex_p2) = Yield ex_p2 /\
  fst (outputs Val.binop 100 30 6 ex_p2) = [Yield (VInt 0); Yield (VInt 1); Yield (VInt 2); Yield (VInt 0); Yield (VInt 1); Stop].
Proof.
  split; [apply RP_reset; [reflexivity|apply RA_pat, RP_leaf; reflexivity]|].
  split; [vm_compute; reflexivity|]. split; vm_compute; reflexivity.
Qed.

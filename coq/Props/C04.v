(* Props/C04.v — property C04: reset() rewinds any pattern to its initial state.
   Only the property theorems live here; each is closed by a lemma of Pat/ResetProofs.v.

   run f' k p   the object p after k calls of next() (whatever each returned: a value, StopIteration, an exception);
   reset f p    reset(), incl. Pattern.reset's walk over the attributes;  rpat p  the proved fragment: any nesting
   of the 15 operators, &, abs, int, skip-if, references, PStutter, PCounter, PPad, PPadToMultiple, PSeries, PRange, PGeom,
   PImpulse, PLoop, PPingPong, PReverse, PSubsequence, PCollapse, PNoRepeats, PChanged, PDiff, PWrap (parameters scalars
   or again patterns of the fragment) over PSequence (scalar items) and constants/scalars; PReset(p, trigger) for p a
   PSequence / PSeries / PRange / PGeom / PImpulse with scalar parameters (`flat`) and any trigger of the fragment.  binop (operator semantics) is arbitrary; f, f' are recursion fuels. *)
From Isobar Require Import Base.Prelude Pat.Val Pat.Syntax Pat.Step Pat.StepProofs Pat.IterProofs Pat.ResetProofs.
From Coq Require Import String QArith.
Open Scope Z_scope.

Section AnyOperators.
  Variable binop : op -> val -> val -> outcome val.
  Variable LMAX : nat.

  (* reset() erases whatever one next() changed - in the object and in every pattern nested inside it *)
  Theorem C04_reset_erases_step : forall f f' p,
    rpat p -> reset binop LMAX f (snd (step binop LMAX f' p)) = reset binop LMAX f p.
  Proof. exact (reset_step binop LMAX). Qed.

  (* the fragment is closed under next() (shape preservation, class by class): any history stays in it *)
  Theorem C04_fragment_closed : forall f' p, rpat p -> rpat (snd (step binop LMAX f' p)).
  Proof. exact (rpat_step_closed binop LMAX). Qed.

  (* hence, from membership of the NEW object alone: after ANY number k of next() calls - none, some, to exhaustion
     and beyond - reset() gives the state that reset() gives on the untouched object *)
  Theorem C04_reset_any_history : forall f f' k p0,
    rpat p0 -> reset binop LMAX f (run binop LMAX f' k p0) = reset binop LMAX f p0.
  Proof. intros f f' k p0. exact (reset_run binop LMAX f f' k p0). Qed.

  (* after ANY number k of next() calls - none, some, to exhaustion and beyond - reset() gives the state that
     reset() gives on the untouched object; for a new object p0 (reset p0 = p0: __init__ leaves the fields
     reset() establishes) that is p0 itself.  Stated for histories that stay in the fragment. *)
  Theorem C04_reset_init : forall f f' k p0,
    (forall j, (j <= k)%nat -> rpat (run binop LMAX f' j p0)) ->
    reset binop LMAX f (run binop LMAX f' k p0) = reset binop LMAX f p0.
  Proof.
    intros f f' k. induction k as [|k IH]; intros p0 H; [reflexivity|].
    cbn [run]. rewrite IH.
    - apply C04_reset_erases_step. apply (H 0%nat). lia.
    - intros j Hj. apply (H (S j)). lia.
  Qed.

  (* hence the outputs after reset() are those of a newly constructed instance, for every later length n *)
  Theorem C04_reset_outputs : forall f f' k n p0,
    (forall j, (j <= k)%nat -> rpat (run binop LMAX f' j p0)) ->
    reset binop LMAX f p0 = Yield p0 ->
    exists q, reset binop LMAX f (run binop LMAX f' k p0) = Yield q /\
              outputs binop LMAX f' n q = outputs binop LMAX f' n p0.
  Proof.
    intros f f' k n p0 H H0. exists p0. split; [|reflexivity]. rewrite C04_reset_init by exact H. exact H0.
  Qed.

  (* all() leaves the pattern rewound: all(m) = nextn(m) then reset(), and reset after nextn's calls is reset *)
  Theorem C04_all_rewinds : forall f m p vs p' p'',
    nextn binop LMAX f m p = (Yield vs, p') -> reset binop LMAX f p' = Yield p'' ->
    all_ binop LMAX f m p = (Yield vs, p'').
  Proof. exact (all_is_nextn_then_reset binop LMAX). Qed.

  (* the leaf case on its own (constants, PSequence over scalars).  The classes formerly listed here as open - PReset over a
     nested pattern, PRound PIndexOf PArrayIndex PDict PDictKey PConcatenate, PSequence with pattern items, list- / tuple- /
     dict-valued parameters - are proved in Props/C04More.v (C04_more_reset_erases_step, C04_more_reset_erases_reset: the full
     statement  forall f f' p, fragment p -> reset f (snd (step f' p)) = reset f p  on the extended fragment xpat, which since
     the repair C04-reset-tuples also has the patterns stored inside tuples: C04_more_tuple_item_rewound) *)
  Theorem C04_reset_erases_step_leaf : forall f f' p,
    leaf_reset p = true -> reset binop LMAX f (snd (step binop LMAX f' p)) = reset binop LMAX f p.
  Proof. exact (leaf_reset_step binop LMAX). Qed.
End AnyOperators.
Print Assumptions C04_reset_init.
Print Assumptions C04_reset_erases_step.
Print Assumptions C04_fragment_closed.
Print Assumptions C04_reset_any_history.

(* non-vacuity: a nested, repaired-class expression is in the fragment, is its own reset, and rewinds *)
Definition seq_ (l : list Z) (rep : Z) : pat := PSequence (AL (map (fun z => AV (VInt z)) l)) (AV (VInt rep)) 0 0.
Definition ex_p0 : pat :=
  PBinOp OAdd (AP (PStutter (AP (seq_ [1; 2; 3] 1)) (AV (VInt 2)) (VInt 0) 0 (VInt 0)))
              (AP (PPadToMultiple (AP (seq_ [5] 1)) (VInt 3) (VInt 0) 0 0)).

Example C04_nonvacuous :
  rpat ex_p0 /\ reset Val.binop 100 30 ex_p0 = Yield ex_p0 /\
  run Val.binop 100 30 2 ex_p0 <> ex_p0 /\
  reset Val.binop 100 30 (run Val.binop 100 30 2 ex_p0) = Yield ex_p0 /\
  fst (outputs Val.binop 100 30 4 ex_p0) = [Yield (VInt 6); Yield VNone; Yield VNone; Stop].
Proof.
  split.
  - apply RP_binop; apply RA_pat; [apply RP_stutter; [apply RA_pat; apply RP_leaf; reflexivity|apply RA_val]
                                  |apply RP_padm; apply RA_pat; apply RP_leaf; reflexivity].
  - split; [vm_compute; reflexivity|]. split; [vm_compute; discriminate|]. split; vm_compute; reflexivity.
Qed.

(* non-vacuity for the leaf and buffering classes: PLoop over PCollapse over PSubsequence over PSeries *)
Definition ex_p1 : pat :=
  PLoop (AP (PCollapse (AP (PSubsequence (AP (PSeries (VInt 0) (VInt 0) (AV (VInt 1)) (AV (VInt 5)) 0))
                                         (AV (VInt 1)) (AV (VInt 3)) 0 [])))) (VInt 2) 0 0 false [].

Example C04_buffering_nonvacuous :
  rpat ex_p1 /\ reset Val.binop 100 30 ex_p1 = Yield ex_p1 /\
  run Val.binop 100 30 4 ex_p1 <> ex_p1 /\
  reset Val.binop 100 30 (run Val.binop 100 30 4 ex_p1) = Yield ex_p1 /\
  fst (outputs Val.binop 100 30 7 ex_p1) =
    [Yield (VInt 1); Yield (VInt 2); Yield (VInt 3); Yield (VInt 1); Yield (VInt 2); Yield (VInt 3); Stop].
Proof.
  split.
  - apply RP_loop, RA_pat, RP_collapse, RA_pat, RP_subsequence; [apply RA_pat, RP_series; apply RA_val|apply RA_val|apply RA_val].
  - split; [vm_compute; reflexivity|]. split; [vm_compute; discriminate|]. split; vm_compute; reflexivity.
Qed.

(* non-vacuity for PReset: the trigger restarts the series in the middle, reset() rewinds both *)
Definition ex_p2 : pat :=
  PReset (AP (PSeries (VInt 0) (VInt 0) (AV (VInt 1)) (AV (VInt 9)) 0)) (AP (seq_ [0; 0; 0; 1; 0] 1)).

Example C04_preset_nonvacuous :
  rpat ex_p2 /\ reset Val.binop 100 30 ex_p2 = Yield ex_p2 /\
  reset Val.binop 100 30 (run Val.binop 100 30 4 ex_p2) = Yield ex_p2 /\
  fst (outputs Val.binop 100 30 6 ex_p2) = [Yield (VInt 0); Yield (VInt 1); Yield (VInt 2); Yield (VInt 0); Yield (VInt 1); Stop].
Proof.
  split; [apply RP_reset; [reflexivity|apply RA_pat, RP_leaf; reflexivity]|].
  split; [vm_compute; reflexivity|]. split; vm_compute; reflexivity.
Qed.

(* RE-CONFIGURATION OF A DETERMINISTIC PATTERN AFTER CONSTRUCTION: PRef.set_pattern(q) (core.py: `self.pattern = pattern`).
   Whatever was done to the PRef before, once a pattern q of the fragment has been installed, reset() after ANY further
   k calls of next() gives what reset() gives on PRef(q) as installed - for a new q that is the newly constructed
   PRef(q) itself (instance of C04_reset_any_history: the re-configuration is the start of a new history). *)
Definition set_pattern (p : pat) (q : pat) : pat := match p with PRef _ => PRef (AP q) | _ => p end.
Theorem C04_reset_after_set_pattern : forall binop LMAX f f' k old q,
  rpat q -> reset binop LMAX f (run binop LMAX f' k (set_pattern (PRef old) q)) = reset binop LMAX f (PRef (AP q)).
Proof. intros binop LMAX f f' k old q Hq. cbn [set_pattern]. apply C04_reset_any_history. apply RP_ref, RA_pat, Hq. Qed.
Print Assumptions C04_reset_after_set_pattern.

Example C04_set_pattern_nonvacuous :
  let p := run Val.binop 100 30 2 (PRef (AP (seq_ [1; 2; 3] 1))) in
  let p' := set_pattern p (seq_ [7; 8] 2) in
  fst (outputs Val.binop 100 30 3 p') = [Yield (VInt 7); Yield (VInt 8); Yield (VInt 7)] /\
  reset Val.binop 100 30 (run Val.binop 100 30 3 p') = Yield (PRef (AP (seq_ [7; 8] 2))).
Proof. split; vm_compute; reflexivity. Qed.

(* ------------------------------------------------------------------------------------------------------------
   SEEDABLE AND CONFIGURABLE CLASSES ("... that a newly constructed, identically seeded instance produces").
   Model Pat/Seeded.v (lemmas Pat/SeededProofs.v): a class is its constructor (which may draw), __next__ (which may call
   reset() itself), the reset() and seed() overrides and a configuration method that may be called at any time; the
   random generator is arbitrary data (R, r_unit, r_below, r_seed), never an axiom.  A history is ANY list over
   next() / reset() / seed(s) / configuration calls.  [canonical s cs] is the newly constructed instance with seed s
   on which the configuration calls cs were made; [rewinds cls key kcfg] is the class-level contract (reset() forgets
   everything but the configuration; the constructor leaves what reset() leaves; seed() on a new object leaves what
   reset() leaves).  From here on `run`, `Stop`, `op` are those of Pat/Chance.v. *)
From Isobar Require Import Pat.Chance Pat.Seeded Pat.SeededProofs.

Section Seedable.
  Variable R : Type.
  Variable r_unit : R -> Z * R.
  Variable r_below : Z -> R -> Z * R.
  Variable r_seed : Z -> R.

  (* after ANY history h - next(), reset(), seed(s), configuration calls in any order and number - on an object built
     with any throw-away seed s0, reset() leaves exactly (class state, generator, stored seed) the newly constructed
     instance that has the seed in force and received the configuration calls of h; so every later output is its output *)
  Theorem C04_reset_is_fresh_configured_instance : forall St Cf (cls : sclass R St Cf) K key kcfg,
    rewinds R St Cf cls K key kcfg -> forall s0 h,
    fst (kdo R r_seed cls (kafter R r_seed cls (knew R r_seed cls s0) h) KReset) =
    canonical R r_seed St Cf cls (seed_of s0 h) (configs_of h).
  Proof. intros St Cf cls K key kcfg RW. exact (reset_is_fresh R r_seed St Cf cls K key kcfg RW). Qed.

  Theorem C04_reset_outputs_configured : forall St Cf (cls : sclass R St Cf) K key kcfg,
    rewinds R St Cf cls K key kcfg -> forall s0 h post,
    krun R r_seed cls (knew R r_seed cls s0) (h ++ KReset :: post) =
    krun R r_seed cls (knew R r_seed cls s0) h ++
    krun R r_seed cls (canonical R r_seed St Cf cls (seed_of s0 h) (configs_of h)) post.
  Proof. intros St Cf cls K key kcfg RW. exact (reset_outputs R r_seed St Cf cls K key kcfg RW). Qed.

  (* P(args)[.configure(..)].seed(s) consumed straight away IS the instance that reset() reproduces after any number
     of next() / reset() calls - fresh-seeded output = output after reset ... *)
  Theorem C04_fresh_seeded_is_what_reset_reproduces : forall St Cf (cls : sclass R St Cf) K key kcfg,
    rewinds R St Cf cls K key kcfg -> forall s0 s cs h, plain Cf h ->
    let fresh := kafter R r_seed cls (knew R r_seed cls s0) (map KConfig cs ++ [KSeed s]) in
    fst (kdo R r_seed cls (kafter R r_seed cls fresh h) KReset) = fresh.
  Proof. intros St Cf cls K key kcfg RW s0 s cs h Hp. exact (seeded_then_reset R r_seed St Cf cls K key kcfg RW s0 s cs h Hp). Qed.

  (* ... = output of another fresh instance with the same seed, whatever their constructors drew *)
  Theorem C04_seeded_instances_agree : forall St Cf (cls : sclass R St Cf) K key kcfg,
    rewinds R St Cf cls K key kcfg -> forall s0 s0' s cs ops,
    krun R r_seed cls (kafter R r_seed cls (knew R r_seed cls s0) (map KConfig cs ++ [KSeed s])) ops =
    krun R r_seed cls (kafter R r_seed cls (knew R r_seed cls s0') (map KConfig cs ++ [KSeed s])) ops.
  Proof. intros St Cf cls K key kcfg RW. exact (seeded_instances_agree R r_seed St Cf cls K key kcfg RW). Qed.

  (* the contract holds for: PArpeggiator(notes, RANDOM, loop) - constructor, seed() and reset() all redraw the ordering,
     a looping one resets itself; *)
  Theorem C04_arpeggiator_random_rewinds : forall notes loop,
    rewinds R arp_state unit (arp_random R r_below r_seed notes loop) unit (fun _ => tt) (fun _ k => k).
  Proof. exact (arp_rewinds R r_below r_seed). Qed.

  (* PRandomImpulseSequence(probability, length) with every(n, "generate" | "explore" | "reset" | a callable | None)
     called at any time: the schedule (count, action) is the configuration, the schedule COUNTER is rewound; *)
  Theorem C04_impulse_sequence_every_rewinds : forall prob len,
    rewinds R imp_state (Z * eaction) (impulse_seq R r_unit r_below r_seed prob len) (Z * eaction) imp_key (fun c _ => c).
  Proof. exact (impulse_rewinds R r_unit r_below r_seed). Qed.

  (* and every class of Pat/Chance.v (PWhite PBrown PCoin PFlipFlop PSkip PRandomWalk PChoice PSample PShuffle
     PShuffleInput PSwitchOne PMarkov) *)
  Theorem C04_chance_classes_rewind : forall St (m : machine R St),
    rewinds R St unit (of_machine R m) unit (fun _ => tt) (fun _ k => k).
  Proof. intros St m. exact (machine_rewinds R m). Qed.

  (* read together, for the class the seeded change C04-e is about: whatever was done to a PRandomImpulseSequence,
     reset() leaves PRandomImpulseSequence(probability, length).seed(last seed) + the every() calls made *)
  Theorem C04_impulse_sequence_reset : forall prob len s0 h,
    let cls := impulse_seq R r_unit r_below r_seed prob len in
    fst (kdo R r_seed cls (kafter R r_seed cls (knew R r_seed cls s0) h) KReset) =
    canonical R r_seed _ _ cls (seed_of s0 h) (configs_of h).
  Proof. intros prob len s0 h cls. exact (reset_is_fresh R r_seed _ _ cls _ _ _ (impulse_rewinds R r_unit r_below r_seed prob len) s0 h). Qed.

  (* and for the class C04-f is about: a seeded RANDOM arpeggiator plays, from its first note, the ordering reset() replays *)
  Theorem C04_arpeggiator_seeded_reset : forall notes loop s0 s h, plain unit h ->
    let cls := arp_random R r_below r_seed notes loop in
    let fresh := kafter R r_seed cls (knew R r_seed cls s0) [KSeed s] in
    fst (kdo R r_seed cls (kafter R r_seed cls fresh h) KReset) = fresh /\
    forall s0', kafter R r_seed cls (knew R r_seed cls s0') [KSeed s] = fresh.
  Proof.
    intros notes loop s0 s h Hp cls fresh. split.
    - exact (seeded_then_reset R r_seed _ _ cls _ _ _ (arp_rewinds R r_below r_seed notes loop) s0 s [] h Hp).
    - intro s0'. unfold fresh.
      change [KSeed s] with (map (@KConfig unit) [] ++ [KSeed s]).
      rewrite !(seeded_new_is_canonical R r_seed _ _ cls _ _ _ (arp_rewinds R r_below r_seed notes loop)). reflexivity.
  Qed.
End Seedable.
Print Assumptions C04_reset_is_fresh_configured_instance.
Print Assumptions C04_fresh_seeded_is_what_reset_reproduces.
Print Assumptions C04_impulse_sequence_reset.
Print Assumptions C04_arpeggiator_seeded_reset.

(* non-vacuity, on the replay generator of Pat/Chance.v (the generator returns recorded results; seed e = "the
   results recorded after the e-th seeding"): a RANDOM arpeggiator over [0, 2, 3, 5] whose constructor drew one
   ordering (epoch 0) and whose seed(1) drew another; two notes, reset(), and the seeded ordering is replayed in full;
   an impulse sequence with every(3, "generate") configured after seed(1): the fourth next() regenerates, and after
   two further calls reset() replays  1 0 1 | 1 1 1 *)
Example C04_seeded_nonvacuous :
  let eps := [[3; 1; 0]; [1; 2; 0]] in
  let arp := arp_random replay rp_below (rp_seed eps) [0; 2; 3; 5] false in
  krun replay (rp_seed eps) arp (knew replay (rp_seed eps) arp 0) [KNext; KNext; KNext; KNext; KNext] =
    [Out (OZ 3); Out (OZ 0); Out (OZ 2); Out (OZ 5); Chance.Stop] /\
  krun replay (rp_seed eps) arp (knew replay (rp_seed eps) arp 0) [KSeed 1; KNext; KNext; KReset; KNext; KNext; KNext; KNext; KNext] =
    [Out (OZ 5); Out (OZ 0); Out (OZ 5); Out (OZ 0); Out (OZ 3); Out (OZ 2); Chance.Stop] /\
  let eps2 := [[]; [0; 9007199254740991; 0; 9007199254740991; 1; 1; 5; 6; 7; 8; 9; 10; 11]] in
  let imp := impulse_seq replay rp_unit rp_below (rp_seed eps2) (1 # 2) 4 in
  krun replay (rp_seed eps2) imp (knew replay (rp_seed eps2) imp 0)
       [KSeed 1; KConfig (3, AGenerate); KNext; KNext; KNext; KNext; KNext; KNext; KReset; KNext; KNext; KNext; KNext; KNext; KNext] =
    map (fun z => Out (OZ z)) [1; 0; 1; 1; 1; 1; 1; 0; 1; 1; 1; 1] /\
  im_eidx (k_st (kafter replay (rp_seed eps2) imp (knew replay (rp_seed eps2) imp 0)
                        [KSeed 1; KConfig (3, AGenerate); KNext; KNext; KNext; KNext; KNext])) = 2.
Proof. repeat split; vm_compute; reflexivity. Qed.

(* ------------------------------------------------------------------------------------------------------------
   STOCHASTIC PATTERNS THAT CONTAIN STOCHASTIC PATTERNS (PSkip(PWhite(..), p), PCoin(PWhite(..)), PShuffleInput(PBrown(..), 4),
   PRandomWalk(v, max=PWhite(..)) ...).  Model Pat/SeededNest.v (lemmas Pat/SeededNestProofs.v): the PARENT owns a generator
   and a stored seed, every CHILD is a seedable object of Pat/Seeded.v with a generator, a stored seed and a class of its
   own; __next__ of the parent is ANY program over "draw from my own generator" and "next value of child i"; reset() of the
   parent resets every child to the CHILD's stored seed and re-seeds the parent's generator with the PARENT's stored seed;
   seed(s) of the parent touches the parent's stream only.  Histories: next / reset / seed of the parent / seed of a child (the
   caller kept a reference), any order and number.  [pplain] / [kplain]: reset() leaves what the constructor leaves; seed() on a
   new object leaves what the constructor would have left with that generator. *)
From Isobar Require Import Pat.SeededNest Pat.SeededNestProofs.

Section Nested.
  Variable R : Type.
  Variable r_unit : R -> Z * R.
  Variable r_below : Z -> R -> Z * R.
  Variable r_seed : Z -> R.
  Variables StC CfC St : Type.
  Variable pc : pclass R St.
  Hypothesis PP : pplain R St pc.
  Notation ndo := (ndo R r_unit r_below r_seed StC CfC pc).
  Notation nafter := (nafter R r_unit r_below r_seed StC CfC pc).
  Notation nnew := (nnew R r_seed StC CfC pc).

  (* after ANY history on Outer(Inner_0(..), ..) built with any throw-away seeds, reset() leaves exactly the newly constructed
     object in which the parent has the parent's seed in force and every child the child's seed in force - class states,
     all generators, all stored seeds; so every later output is that object's output *)
  Theorem C04_nested_reset_is_fresh : forall s0 kids0 h, Forall (kplain R StC CfC) (map fst kids0) ->
    fst (ndo (nafter (nnew s0 kids0) h) NReset) = nnew (pseed_of s0 h) (kshape_of R StC CfC h kids0).
  Proof. exact (nested_reset_is_fresh R r_unit r_below r_seed StC CfC St pc PP). Qed.

  Theorem C04_nested_reset_outputs : forall s0 kids0 h post, Forall (kplain R StC CfC) (map fst kids0) ->
    nrun R r_unit r_below r_seed StC CfC pc (nnew s0 kids0) (h ++ NReset :: post) =
    nrun R r_unit r_below r_seed StC CfC pc (nnew s0 kids0) h ++
    nrun R r_unit r_below r_seed StC CfC pc (nnew (pseed_of s0 h) (kshape_of R StC CfC h kids0)) post.
  Proof. exact (nested_reset_outputs R r_unit r_below r_seed StC CfC St pc PP). Qed.

  (* seeding a new nest - parent and/or children, in any order, also repeatedly - gives the object constructed with those
     seeds: nothing depends on what the constructors drew, and seed(s) of the parent spends none of its stream on the children *)
  Theorem C04_nested_seeding : forall setup, seeding setup -> forall s0 kids0, Forall (kplain R StC CfC) (map fst kids0) ->
    nafter (nnew s0 kids0) setup = nnew (pseed_of s0 setup) (kshape_of R StC CfC setup kids0).
  Proof. exact (nested_seeding R r_unit r_below r_seed StC CfC St pc PP). Qed.

  (* Outer(Inner(..).seed(t), ..).seed(s) consumed straight away IS the object reset() reproduces after any number of
     next() / reset() calls *)
  Theorem C04_nested_seeded_then_reset : forall s0 kids0 setup h, Forall (kplain R StC CfC) (map fst kids0) ->
    seeding setup -> nplain h ->
    fst (ndo (nafter (nafter (nnew s0 kids0) setup) h) NReset) = nafter (nnew s0 kids0) setup.
  Proof. exact (nested_seeded_then_reset R r_unit r_below r_seed StC CfC St pc PP). Qed.

  Theorem C04_parent_seed_leaves_children : forall o s, n_kids (fst (ndo o (NSeed s))) = n_kids o.
  Proof. exact (parent_seed_leaves_children R r_unit r_below r_seed StC CfC St pc). Qed.
End Nested.

(* who qualifies: as a child every class whose contract `rewinds` has no configuration (PArpeggiator RANDOM, every machine
   of Pat/Chance.v); as a parent the transcribed PSkip(pattern, play) and PCoin(probability) *)
Theorem C04_nested_children_qualify : forall R StC CfC (cls : sclass R StC CfC) kcfg,
  rewinds R StC CfC cls unit (fun _ => tt) kcfg -> kplain R StC CfC cls.
Proof. exact rewinds_kplain. Qed.
Theorem C04_nested_parents_qualify : forall R play, pplain R unit (pskip R play) /\ pplain R unit (pcoin R).
Proof. intros R play. split; [apply pskip_pplain|apply pcoin_pplain]. Qed.
Print Assumptions C04_nested_reset_is_fresh.
Print Assumptions C04_nested_seeding.
Print Assumptions C04_nested_seeded_then_reset.

(* non-vacuity (replay generator; seed e = "the results recorded after the e-th seeding of any object of the program"):
   PSkip(PWhite(0, 100), 0.5) with the child seeded (epoch 3), then the parent (epoch 2); three values, reset(), and the same
   values again - the parent reads ITS epoch from the start, the child its own *)
Example C04_nested_nonvacuous :
  let h := 4503599627370496 in
  let eps := [[]; []; [1; h + 1; 2; h + 2; 3]; [h; h / 2; h + h / 2; h / 4; 7]] in
  let kidc := of_machine replay (white replay rp_unit false 0 100 0) in
  let pc := pskip replay (1 # 2) in
  kplain replay _ _ kidc /\
  nrun replay rp_unit rp_below (rp_seed eps) _ _ pc (nnew replay (rp_seed eps) _ _ pc 0 [(kidc, 1)])
       [NKidSeed 0%nat 3; NSeed 2; NNext; NNext; NNext; NReset; NNext; NNext; NNext; NNext] =
  [Out (OZ 50); Out ONone; Out (OZ 75); Out (OZ 50); Out ONone; Out (OZ 75); Out ONone].
Proof.
  split; [apply (rewinds_kplain _ _ _ _ (fun _ k => k)), machine_rewinds|vm_compute; reflexivity].
Qed.

(* Props/C17.v — property C17: a failing track cannot take the rest of the performance down.
   Statements about the scheduler model (Sched/Model.v); lemmas in Sched/FaultProofs.v, Sched/MergeProofs.v, Sched/TimeProofs.v.
   Fault sites of the model: a stream item RRaise (exception while evaluating the pattern or while constructing the Event),
   the [dev_fail]-th note_on / control / program_change call of the device raising, an action callback raising an
   Exception (CbExc) or StopIteration (CbStop). *)
From Isobar Require Import Base.Prelude Sched.Model Sched.TimeProofs Sched.MergeProofs Sched.FaultProofs Sched.RenameProofs Sched.TickFrame Sched.ReachProofs
  Sched.ExcClass Sched.ExcClassProofs Sched.Reconf Sched.ReconfProofs IO.MidiBytes IO.FileWire IO.FileWireProofs Sched.DevFile Sched.DevFileProofs
  Sched.RunLoop Sched.RunLoopProofs Sched.AfterFaultProofs.

(** * Tolerant mode: containment *)
(* With ignore_exceptions, for EVERY state of the timeline (any number and order of tracks, any streams, any device
   fault position, any callbacks), a tick never ends with an exception. *)
Theorem C17_contained : forall cfg tl, ignore_exc cfg = true -> snd (tl_tick cfg tl) <> RException.
Proof. intros cfg tl H. exact (tl_tick_tolerant cfg H tl). Qed.

(* the possible outcomes: completed, or StopIteration of a stop-when-done timeline (ROutOfFuel is the model's own
   bound on the number of events one track may pull in one tick; it does not exist in the code) *)
Theorem C17_outcomes : forall cfg tl, ignore_exc cfg = true ->
  let res := snd (tl_tick cfg tl) in
  res = ROk \/ (res = RStopIteration /\ stop_when_done cfg = true) \/ res = ROutOfFuel.
Proof. intros cfg tl H. exact (tl_tick_tolerant_outcomes cfg H tl). Qed.

(* where faults come from: the pull of this tick raises ... *)
Theorem C17_site_stream : forall cfg nowT tr n, t_started tr = true -> t_next tr <= t_cur tr -> count_exhausted tr = false ->
  fst (pull (t_stream tr)) = RRaise -> (1 <= fuel cfg)%nat ->
  track_tick_a cfg nowT tr n = (set_stream tr (snd (pull (t_stream tr))), [], n, TRaise).
Proof. exact stream_fault_raises. Qed.
(* ... or the device call with the scripted number raises (control / program change; first sounding voice of a note) *)
Theorem C17_site_device : forall j nowT tr e, e_active e = true -> t_muted tr = false ->
  (exists c v ch, e_kind e = KControl c v ch) \/ (exists p ch, e_kind e = KProgram p ch) ->
  perform_event (Some j) nowT tr e j = (tr, [], S j, PfRaise).
Proof. exact device_fault_raises. Qed.
Theorem C17_site_device_note : forall j nowT cur v r offs calls, voice_on v = true ->
  perform_voices (Some j) nowT cur (v :: r) j offs calls = (offs, calls, S j, false).
Proof. exact device_fault_note. Qed.

(* the turn of a track that faults, at ANY site: the loop over the tracks goes on (no abort); after the turn the
   track is no longer scheduled; every other track's record is untouched; its pending releases have become actions of the
   timeline (so its sounding notes still end on time, C02); the clock is untouched by the turn *)
Theorem C17_failing_track_removed : forall cfg tl id tr tr1 c n1, ignore_exc cfg = true ->
  find_track id (tracks tl) = Some tr -> NoDup (map t_id (tracks tl)) ->
  track_tick_a cfg (now tl) tr (dev_calls tl) = (tr1, c, n1, TRaise) ->
  let '(tl', c', ab) := tick_one cfg tl id in
  ab = None /\ c' = c
  /\ find_track id (tracks tl') = None
  /\ (forall id', id' <> id -> find_track id' (tracks tl') = find_track id' (tracks tl))
  /\ actions tl' = actions tl ++ release_actions tr1
  /\ now tl' = now tl.
Proof. intros cfg tl id tr tr1 c n1 H. exact (fault_turn cfg H tl id tr tr1 c n1). Qed.

(* time: a tick that completes advances the clock by exactly one tick, whatever happened to the tracks in it;
   after a history whose ticks all completed the clock reads (number of ticks) * tau; and in tolerant mode without
   stop-when-done every tick completes (the fuel bound aside) *)
Theorem C17_clock_tick : forall cfg tl,
  let '(tl', _, res) := tl_tick cfg tl in now tl' = match res with ROk => now tl + tau cfg | _ => now tl end.
Proof. exact tl_tick_now. Qed.
Theorem C17_clock : forall cfg ops tl, ignore_exc cfg = true -> stop_when_done cfg = false ->
  no_fuel_out cfg tl ops = true -> now (run_state cfg tl ops) = now tl + ticks_in ops * tau cfg.
Proof. intros cfg ops tl T W F. apply run_now. apply tolerant_all_ok; assumption. Qed.

(** * Non-interference *)
(* Stream faults.  The faulty track is just another neighbour (an RRaise item satisfies every ownership predicate), so the
   merge theorem of C07 applies: in a configuration without deliberate coupling, tick by tick, the calls of every
   other track i in the joint run - with the failing track in it - are exactly the calls of the solo run of i, a run
   without the failing track.  [all_ticks_ok] follows from tolerance (theorem C17_all_ok below). *)
Theorem C17_noninterference : forall i pc pb cfg h,
  uncoupled cfg = true -> hist_wf i pc pb 0 h = true -> all_ticks_ok cfg tl0 h = true ->
  tick_calls cfg (tl_at i) (solo i 0 h) = map (filter (call_ok pc pb)) (tick_calls cfg tl0 h)
  /\ sim i pc pb (run_state cfg tl0 h) (run_state cfg (tl_at i) (solo i 0 h)).
Proof. intros i pc pb cfg h U W A. destruct (merge_from_empty i pc pb cfg h U W A) as [M [S _]]. exact (conj M S). Qed.
Theorem C17_raise_is_a_neighbour : forall qc qb, evres_ok qc qb RRaise = true.
Proof. reflexivity. Qed.
Theorem C17_all_ok : forall cfg ops tl, ignore_exc cfg = true -> stop_when_done cfg = false ->
  no_fuel_out cfg tl ops = true -> all_ticks_ok cfg tl ops = true.
Proof. intros cfg ops tl T W. exact (tolerant_all_ok cfg ops T W tl). Qed.

(* hence two joint runs that differ only in tracks other than i - e.g. the run with the failing track and the run in
   which it was never scheduled - make the same calls for track i in every tick.  The observed track is track i of h and
   track i' of h' (leaving out a track scheduled BEFORE i shifts the id of i down by one; ids are the model's names for object
   identities): its solo history in h' is its solo history in h with the name i replaced by i'. *)
Theorem C17_same_as_without : forall i i' pc pb cfg h h',
  uncoupled cfg = true -> hist_wf i pc pb 0 h = true -> hist_wf i' pc pb 0 h' = true ->
  all_ticks_ok cfg tl0 h = true -> all_ticks_ok cfg tl0 h' = true ->
  solo i' 0 h' = map (retarget i') (solo i 0 h) ->
  map (filter (call_ok pc pb)) (tick_calls cfg tl0 h) = map (filter (call_ok pc pb)) (tick_calls cfg tl0 h').
Proof. exact same_solo_renamed_same_calls. Qed.
(* the instance i' = i (the other track was scheduled after i, so i has the same id in both runs) *)
Theorem C17_same_as_without_same_id : forall i pc pb cfg h h',
  uncoupled cfg = true -> hist_wf i pc pb 0 h = true -> hist_wf i pc pb 0 h' = true ->
  all_ticks_ok cfg tl0 h = true -> all_ticks_ok cfg tl0 h' = true -> solo i 0 h = solo i 0 h' ->
  map (filter (call_ok pc pb)) (tick_calls cfg tl0 h) = map (filter (call_ok pc pb)) (tick_calls cfg tl0 h').
Proof. exact same_solo_same_calls. Qed.
(* the concrete case: [drop_track j 0 h] is the history h from which track j has been left out altogether - its schedule
   call, every operation on it, and the ids of the tracks scheduled after it moved down by one.  For EVERY other track i,
   scheduled before or after j, the calls of i are the same in both runs.  (all_ticks_ok of both follows from tolerance,
   C17_all_ok.) *)
Theorem C17_same_as_without_dropped : forall i j pc pb cfg h, j <> i ->
  uncoupled cfg = true -> hist_wf i pc pb 0 h = true ->
  all_ticks_ok cfg tl0 h = true -> all_ticks_ok cfg tl0 (drop_track j 0 h) = true ->
  map (filter (call_ok pc pb)) (tick_calls cfg tl0 h) = map (filter (call_ok pc pb)) (tick_calls cfg tl0 (drop_track j 0 h)).
Proof. exact same_calls_without. Qed.
(* what makes it so: track ids are names.  For a strictly increasing renaming f of the ids that maps fresh ids to fresh ids
   (commutes with successor from some n0 <= next_id on), EVERY operation on EVERY state - a tick with all its phases,
   callbacks that operate on the timeline included - commutes with the renaming: same calls, same result, renamed state *)
Theorem C17_ids_are_names : forall f : nat -> nat, (forall a b, (a < b)%nat -> (f a < f b)%nat) ->
  forall n0, (forall m, (n0 <= m)%nat -> f (S m) = S (f m)) ->
  forall cfg tl o, (n0 <= next_id tl)%nat ->
  step (rn_cfg f cfg) (rn_tl f tl) (rn_op f o) = let '(tl', c, r) := step cfg tl o in (rn_tl f tl', c, r).
Proof. exact rn_step. Qed.
(* and the solo run of a track does not depend on the id it is given *)
Theorem C17_solo_run_any_id : forall cfg i i' h, cb_noops cfg = true ->
  tick_calls cfg (tl_at i') (map (retarget i') (solo i 0 h)) = tick_calls cfg (tl_at i) (solo i 0 h).
Proof. exact solo_retarget. Qed.

(* Device faults.  The device-call counter couples the tracks (which call is the j-th depends on everybody), so the
   statement is local: a turn - faulting or not - changes no other track's record (callbacks without operations); what it
   hands to the rest of the tick is the counter and, for a faulting track, its releases. *)
Theorem C17_turn_is_local : forall cfg tl id id', cb_noops cfg = true -> id' <> id ->
  find_track id' (tracks (fst (fst (tick_one cfg tl id)))) = find_track id' (tracks tl).
Proof. exact turn_is_local. Qed.

(** * Intolerant mode: propagation *)
(* the same fault aborts the loop over the tracks with the exception: the tracks behind the failing one are not run,
   the failing track stays scheduled *)
Theorem C17_propagates : forall cfg tl id r tr tr1 c n1 calls, ignore_exc cfg = false ->
  find_track id (tracks tl) = Some tr ->
  track_tick_a cfg (now tl) tr (dev_calls tl) = (tr1, c, n1, TRaise) ->
  phase_tracks cfg tl (id :: r) calls = (set_dev (upd_track tl tr1) n1, calls ++ c, RException).
Proof. intros cfg tl id r tr tr1 c n1 calls H. exact (fault_propagates cfg H tl id r tr tr1 c n1 calls). Qed.
(* the tick returns it ... *)
Theorem C17_propagates_tick : forall cfg tl,
  let '(trs1, _) := phase_noteoffs (tracks tl) in
  let '(tl2, kept, _) := phase_actions (set_actions (set_tracks tl trs1) []) (actions tl) [] [] in
  let tl3 := set_actions tl2 (kept ++ actions tl2) in
  snd (phase_tracks cfg tl3 (map t_id (tracks tl3)) []) = RException -> snd (tl_tick cfg tl) = RException.
Proof. exact tl_tick_exception. Qed.
(* ... and the clock does not advance *)
Theorem C17_exception_aborts_tick : forall cfg tl,
  let '(tl', _, res) := tl_tick cfg tl in res = RException -> now tl' = now tl.
Proof. exact exception_aborts_tick. Qed.

(** * Action callbacks *)
(* whatever the callback raises, in either mode, the turn never aborts the tick *)
Theorem C17_callback_turn : forall cfg tl id tr tr1 c n1 cb, find_track id (tracks tl) = Some tr ->
  track_tick_a cfg (now tl) tr (dev_calls tl) = (tr1, c, n1, TCallback cb) ->
  let tl1 := set_dev (upd_track tl tr1) n1 in
  let rk := fst (nth cb (cbs cfg) (CbNone, [])) in
  let ops := snd (nth cb (cbs cfg) (CbNone, [])) in
  let tl2 := exec_cb_ops cfg tl1 ops in
  let stop := match rk with CbStop => cb_completes cfg tl1 ops | _ => false end in
  tick_one cfg tl id = (finish_track cfg (if stop then end_stream tl2 id else tl2) id stop, c, None).
Proof. exact callback_turn. Qed.
(* an Exception leaves exactly the state a callback that does not raise leaves (the expression does not mention what
   was raised, nor the tolerance mode), and the track continues: it stays scheduled, unfinished, clock advanced *)
Theorem C17_callback_exception : forall cfg tl id tr tr1 c n1 cb, find_track id (tracks tl) = Some tr ->
  track_tick_a cfg (now tl) tr (dev_calls tl) = (tr1, c, n1, TCallback cb) ->
  fst (nth cb (cbs cfg) (CbNone, [])) <> CbStop ->
  tick_one cfg tl id =
    (finish_track cfg (exec_cb_ops cfg (set_dev (upd_track tl tr1) n1) (snd (nth cb (cbs cfg) (CbNone, [])))) id false, c, None).
Proof. exact callback_exception_swallowed. Qed.
Theorem C17_track_continues : forall cfg tl id tr, find_track id (tracks tl) = Some tr -> t_finished tr = false ->
  find_track id (tracks (finish_track cfg tl id false)) = Some (set_cur tr (t_cur tr + tau cfg)).
Proof. exact finish_continue. Qed.
(* StopIteration ends the track: with nothing pending it is finished on that tick; it is removed if remove_when_done,
   otherwise it stays, finished, with an exhausted stream - it never yields an event again *)
Theorem C17_callback_stop : forall cfg tl id tr tr1 c n1 cb, find_track id (tracks tl) = Some tr ->
  NoDup (map t_id (tracks tl)) ->
  track_tick_a cfg (now tl) tr (dev_calls tl) = (tr1, c, n1, TCallback cb) ->
  nth cb (cbs cfg) (CbNone, []) = (CbStop, []) -> t_offs tr1 = [] ->
  let '(tl', _, ab) := tick_one cfg tl id in
  ab = None /\
  if t_rwd tr1 then find_track id (tracks tl') = None
  else exists tr', find_track id (tracks tl') = Some tr' /\ t_finished tr' = true /\ t_stream tr' = empty_stream.
Proof. exact callback_stop_ends_track. Qed.
Theorem C17_ended_stream_is_silent : forall tr, t_stream tr = empty_stream -> fst (get_next_event tr) = GStop.
Proof. exact empty_stream_stops. Qed.

(** * Reachable states: the distinct-ids hypothesis of the per-turn theorems always holds *)
(* [reachable cfg tl] (Sched/ReachProofs.v): tl is the empty timeline, or the state after any operation on a reachable
   state, or - inside a tick - the state the loop over the tracks starts from ([tick_pre]) or the state after any turn.
   The state after every history is reachable, and in every reachable state the track ids are distinct and below next_id. *)
Theorem C17_history_reachable : forall cfg h, reachable cfg (run_state cfg tl0 h).
Proof. exact history_reachable. Qed.
Theorem C17_ids_distinct : forall cfg tl, reachable cfg tl ->
  NoDup (map t_id (tracks tl)) /\ Forall (fun i => (i < next_id tl)%nat) (map t_id (tracks tl)).
Proof. exact reachable_wf. Qed.
Theorem C17_failing_track_removed_reachable : forall cfg tl id tr tr1 c n1, ignore_exc cfg = true -> reachable cfg tl ->
  find_track id (tracks tl) = Some tr ->
  track_tick_a cfg (now tl) tr (dev_calls tl) = (tr1, c, n1, TRaise) ->
  let '(tl', c', ab) := tick_one cfg tl id in
  ab = None /\ c' = c
  /\ find_track id (tracks tl') = None
  /\ (forall id', id' <> id -> find_track id' (tracks tl') = find_track id' (tracks tl))
  /\ actions tl' = actions tl ++ release_actions tr1
  /\ now tl' = now tl.
Proof.
  intros cfg tl id tr tr1 c n1 H R F. exact (fault_turn cfg H tl id tr tr1 c n1 F (proj1 (reachable_wf cfg tl R))).
Qed.
Theorem C17_callback_stop_reachable : forall cfg tl id tr tr1 c n1 cb, reachable cfg tl ->
  find_track id (tracks tl) = Some tr ->
  track_tick_a cfg (now tl) tr (dev_calls tl) = (tr1, c, n1, TCallback cb) ->
  nth cb (cbs cfg) (CbNone, []) = (CbStop, []) -> t_offs tr1 = [] ->
  let '(tl', _, ab) := tick_one cfg tl id in
  ab = None /\
  if t_rwd tr1 then find_track id (tracks tl') = None
  else exists tr', find_track id (tracks tl') = Some tr' /\ t_finished tr' = true /\ t_stream tr' = empty_stream.
Proof.
  intros cfg tl id tr tr1 c n1 cb R F. exact (callback_stop_ends_track cfg tl id tr tr1 c n1 cb F (proj1 (reachable_wf cfg tl R))).
Qed.

(** * Non-vacuity *)
(* track 0 (channel 0) plays two notes; track 1 (channel 1) raises on its second pull, on a tick on which track 0 and
   track 2 play too; track 2 (channel 2) calls a callback that raises an Exception, then plays on *)
Definition nt (d n ch g : Z) : evres := REvent (mkEvent d true (KNote [mkVoice n (Some 64) ch (Some g)])).
Definition fx_cfg (tolerant : bool) : config := mkConfig 1 [(CbExc, [])] 0 0 false tolerant None 8.
Definition fx_h : list op :=
  [ OSchedule (mkStream [nt 2 60 0 1; nt 2 62 0 1] 0 false) None None None true None true;
    OSchedule (mkStream [nt 2 50 1 3; RRaise; nt 2 51 1 1] 0 false) None None None true None true;
    OSchedule (mkStream [REvent (mkEvent 2 true (KAction 0)); nt 2 70 2 1] 0 false) None None None true None true;
    OTick; OTick; OTick; OTick; OTick ].
Example C17_nonvacuous :
  (* tolerant: contained; track 1 is removed on tick 2, its note 50 is still released (tick 3); the others play on *)
  map (fun o => snd (fst o)) (run (fx_cfg true) tl0 fx_h) = [ROk; ROk; ROk; ROk; ROk; ROk; ROk; ROk]
  /\ tick_calls (fx_cfg true) tl0 fx_h =
       [ [CNoteOn 60 64 0; CNoteOn 50 64 1; CCallback 0]; [CNoteOff 60 0]; [CNoteOn 62 64 0; CNoteOn 70 64 2];
         [CNoteOff 62 0; CNoteOff 70 2; CNoteOff 50 1]; [] ]
  /\ map snd (run (fx_cfg true) tl0 fx_h) = [[0]; [0; 1]; [0; 1; 2]; [0; 1; 2]; [0; 1; 2]; [0; 2]; [0; 2]; []]%nat
  /\ now (run_state (fx_cfg true) tl0 fx_h) = 5
  /\ uncoupled (fx_cfg true) = true /\ hist_wf 0 (fun c => c =? 0) (fun _ => false) 0 fx_h = true
  /\ all_ticks_ok (fx_cfg true) tl0 fx_h = true
  (* intolerant: tick 2 returns the exception, track 2 (behind the failing one) does not play on it, the clock stands still *)
  /\ map (fun o => snd (fst o)) (run (fx_cfg false) tl0 fx_h) = [ROk; ROk; ROk; ROk; ROk; RException; ROk; ROk]
  /\ nth 2 (tick_calls (fx_cfg false) tl0 fx_h) [] = [CNoteOn 62 64 0]
  /\ now (run_state (fx_cfg false) tl0 fx_h) = 4.
Proof. vm_compute. repeat split. Qed.

(* the same history without the failing track 1: track 2 (scheduled AFTER the failing one) becomes track 1; without track 0:
   both move down.  Hypotheses of C17_same_as_without_dropped hold for the observed track 2 (channel 2, callback 0) *)
Example C17_same_as_without_nonvacuous :
  drop_track 1 0 fx_h = [ nth 0 fx_h OTick; nth 2 fx_h OTick; OTick; OTick; OTick; OTick; OTick ]
  /\ solo 1 0 (drop_track 1 0 fx_h) = map (retarget 1%nat) (solo 2 0 fx_h) /\ length (solo 2 0 fx_h) = 6%nat
  /\ hist_wf 2 (fun c => c =? 2) (fun b => (b =? 0)%nat) 0 fx_h = true
  /\ all_ticks_ok (fx_cfg true) tl0 (drop_track 1 0 fx_h) = true /\ all_ticks_ok (fx_cfg true) tl0 (drop_track 0 0 fx_h) = true
  /\ map (filter (call_ok (fun c => c =? 2) (fun b => (b =? 0)%nat))) (tick_calls (fx_cfg true) tl0 (drop_track 1 0 fx_h))
     = [[CCallback 0]; []; [CNoteOn 70 64 2]; [CNoteOff 70 2]; []]
  /\ map snd (run (fx_cfg true) tl0 (drop_track 1 0 fx_h)) = [[0]; [0; 1]; [0; 1]; [0; 1]; [0; 1]; [0; 1]; []]%nat.
Proof. vm_compute. repeat split. Qed.

(* the state in which track 1 of fx_h faults - third tick, after the turn of track 0 - is reachable, and the turn of track 1 raises there *)
Example C17_reachable_nonvacuous :
  let tl := fst (fst (tick_one (fx_cfg true) (tick_pre (run_state (fx_cfg true) tl0 (firstn 5 fx_h))) 0)) in
  reachable (fx_cfg true) tl /\
  exists tr, find_track 1 (tracks tl) = Some tr /\ snd (track_tick_a (fx_cfg true) (now tl) tr (dev_calls tl)) = TRaise.
Proof.
  split; [apply R_turn, R_pre, history_reachable|]. eexists. split; vm_compute; reflexivity.
Qed.

(* StopIteration from a callback on a retained track (remove_when_done = false): finished, stream exhausted, silent *)
Definition st_cfg : config := mkConfig 1 [(CbStop, [])] 0 0 false false None 8.
Definition st_h : list op :=
  [ OSchedule (mkStream [REvent (mkEvent 1 true (KAction 0)); nt 1 70 2 1] 0 true) None None None false None true;
    OTick; OTick; OTick; OTick ].
Example C17_callback_stop_nonvacuous :
  tick_calls st_cfg tl0 st_h = [[CCallback 0]; []; []; []]
  /\ map (fun t => (t_finished t, t_stream t)) (tracks (run_state st_cfg tl0 st_h)) = [(true, empty_stream)].
Proof. vm_compute. repeat split. Qed.

(** * The class of the exception raised (Sched/ExcClass.v) *)
(* The stream item RRaise, the callback outcome CbExc and the device fault of the model carry no class.  An exception is
   known to the `except` clauses it meets (Track.tick: StopIteration; Timeline.tick / perform_event: Exception) by the MRO
   of its class; [classify] / [classify_cb] transcribe those clauses.  EVERY class that is not a StopIteration - TypeError
   (60 + None), ZeroDivisionError, ValueError, KeyError, a user's own class, a subclass of any of them - is the same
   item: *)
Theorem C17_any_class_is_a_fault : forall m, catches cStopIteration m = false -> classify m = RRaise /\ classify_cb m = CbExc.
Proof. intros m H. exact (conj (classify_plain m H) (classify_cb_plain m H)). Qed.
(* so two histories that differ only in the classes of the exceptions their patterns raise are one and the same history
   for the scheduler: the same calls, results and scheduled tracks after every operation, in either mode *)
Theorem C17_exception_class_irrelevant : forall cfg tl h h', Forall2 same_kind_op h h' ->
  run cfg tl (map erase_op h) = run cfg tl (map erase_op h').
Proof. exact class_irrelevant. Qed.
(* spelled out for the turn in which the pattern raises an exception of class m, ANY m that is not a StopIteration:
   the turn raises; with tolerance disabled the loop over the tracks is aborted with the exception; with tolerance
   enabled the track is removed and the loop goes on *)
Theorem C17_any_class_raises : forall cfg nowT tr n cs p cyc m,
  t_stream tr = cstream cs p cyc -> nth_error cs p = Some (CRaiseCls m) -> catches cStopIteration m = false ->
  t_started tr = true -> t_next tr <= t_cur tr -> count_exhausted tr = false -> (1 <= fuel cfg)%nat ->
  track_tick_a cfg nowT tr n = (set_stream tr (snd (pull (t_stream tr))), [], n, TRaise).
Proof. exact any_class_raises. Qed.
Theorem C17_any_class_propagates : forall cfg tl id r tr calls cs p cyc m, ignore_exc cfg = false ->
  find_track id (tracks tl) = Some tr ->
  t_stream tr = cstream cs p cyc -> nth_error cs p = Some (CRaiseCls m) -> catches cStopIteration m = false ->
  t_started tr = true -> t_next tr <= t_cur tr -> count_exhausted tr = false -> (1 <= fuel cfg)%nat ->
  phase_tracks cfg tl (id :: r) calls =
    (set_dev (upd_track tl (set_stream tr (snd (pull (t_stream tr))))) (dev_calls tl), calls ++ [], RException).
Proof. exact any_class_propagates. Qed.
Theorem C17_any_class_contained : forall cfg tl id tr cs p cyc m, ignore_exc cfg = true ->
  find_track id (tracks tl) = Some tr -> NoDup (map t_id (tracks tl)) ->
  t_stream tr = cstream cs p cyc -> nth_error cs p = Some (CRaiseCls m) -> catches cStopIteration m = false ->
  t_started tr = true -> t_next tr <= t_cur tr -> count_exhausted tr = false -> (1 <= fuel cfg)%nat ->
  let '(tl', _, ab) := tick_one cfg tl id in
  ab = None /\ find_track id (tracks tl') = None
  /\ (forall id', id' <> id -> find_track id' (tracks tl') = find_track id' (tracks tl))
  /\ now tl' = now tl.
Proof. exact any_class_contained. Qed.
(* a StopIteration (or a subclass) coming out of the pattern is the iterator protocol's end of the stream *)
Theorem C17_stop_class_ends_stream : forall tr cs p cyc m,
  t_stream tr = cstream cs p cyc -> nth_error cs p = Some (CRaiseCls m) -> catches cStopIteration m = true ->
  count_exhausted tr = false -> fst (get_next_event tr) = GStop.
Proof. exact stop_class_ends_stream. Qed.

(** * The tolerance switch re-configured on an existing Timeline (Sched/Reconf.v) *)
(* histories over the alphabet [RO o] (an operation of Sched/Model.v) / [RFlag b] (`timeline.ignore_exceptions = b`);
   a flip between two segments is Sched/Model.v's run of the second segment under the re-configured cfg from the state
   the first segment left *)
Theorem C17_reconf_segments : forall cfg tl ops1 b ops2,
  rrun cfg tl (map RO ops1 ++ RFlag b :: map RO ops2) =
    run cfg tl ops1 ++ ([], ROk, map t_id (tracks (run_state cfg tl ops1)))
                    :: run (set_ignore cfg b) (run_state cfg tl ops1) ops2.
Proof. exact rrun_two_segments. Qed.
(* the mode in force is the one assigned last, whatever the constructor was given *)
Theorem C17_reconf_mode_is_last_assignment : forall cfg l b,
  ignore_exc (rrun_cfg cfg (l ++ [RFlag b])) = b /\ rrun_cfg cfg l = set_ignore cfg (ignore_exc (rrun_cfg cfg l)).
Proof. intros cfg l b. exact (conj (rrun_cfg_last_flag cfg l b) (rrun_cfg_is_set_ignore l cfg)). Qed.
(* containment, for EVERY history with any number of flips and from any state: an operation performed while the switch is
   on never returns an exception ... *)
Theorem C17_reconf_contained : forall l cfg tl,
  Forall2 (fun (f : bool) (o : obs) => f = true -> snd (fst o) <> RException) (rflags cfg l) (rrun cfg tl l).
Proof. exact rrun_contained. Qed.
(* ... in particular when the timeline was constructed (and has played) with the switch off and it is turned on later *)
Theorem C17_flip_on_contained : forall cfg tl ops1 ops2,
  Forall (fun o : obs => snd (fst o) <> RException) (run (set_ignore cfg true) (run_state cfg tl ops1) ops2).
Proof. exact flip_on_contained. Qed.
(* the states of such a performance (after any operation or assignment, and inside a tick) keep track ids distinct, so
   the per-turn theorems apply with the mode in force NOW: on -> the failing track, and only it, is removed ... *)
Theorem C17_reconf_history_reachable : forall cfg l, rreachable cfg (rrun_cfg cfg l) (rrun_state cfg tl0 l).
Proof. exact rhistory_reachable. Qed.
Theorem C17_reconf_failing_track_removed : forall cfg0 cfg tl id tr tr1 c n1, rreachable cfg0 cfg tl -> ignore_exc cfg = true ->
  find_track id (tracks tl) = Some tr ->
  track_tick_a cfg (now tl) tr (dev_calls tl) = (tr1, c, n1, TRaise) ->
  let '(tl', c', ab) := tick_one cfg tl id in
  ab = None /\ c' = c
  /\ find_track id (tracks tl') = None
  /\ (forall id', id' <> id -> find_track id' (tracks tl') = find_track id' (tracks tl))
  /\ actions tl' = actions tl ++ release_actions tr1
  /\ now tl' = now tl.
Proof. exact reconf_fault_removed. Qed.
(* ... off -> the fault aborts the loop with the exception, also on a timeline that was constructed tolerant *)
Theorem C17_reconf_propagates : forall cfg0 cfg tl id r tr tr1 c n1 calls, rreachable cfg0 cfg tl -> ignore_exc cfg = false ->
  find_track id (tracks tl) = Some tr ->
  track_tick_a cfg (now tl) tr (dev_calls tl) = (tr1, c, n1, TRaise) ->
  phase_tracks cfg tl (id :: r) calls = (set_dev (upd_track tl tr1) n1, calls ++ c, RException).
Proof. exact reconf_fault_propagates. Qed.
(* the clock: when every tick of the history runs while the switch is on (no stop-when-done, fuel aside), every tick
   completes and the clock reads (number of ticks) * tau *)
Theorem C17_reconf_clock : forall l cfg tl, stop_when_done cfg = false ->
  rticks_tolerant cfg l = true -> rno_fuel_out cfg tl l = true ->
  now (rrun_state cfg tl l) = now tl + rticks_in l * tau cfg.
Proof. intros l cfg tl W T F. apply rrun_now. apply rtolerant_all_ok; assumption. Qed.
(* non-interference under re-configuration: the merge theorem with the flips kept in the solo history, and its
   consequence for the run with and the run without the failing track *)
Theorem C17_reconf_noninterference : forall i pc pb cfg h,
  uncoupled cfg = true -> rhist_wf i pc pb 0 h = true -> rall_ticks_ok cfg tl0 h = true ->
  rtick_calls cfg (tl_at i) (rsolo i 0 h) = map (filter (call_ok pc pb)) (rtick_calls cfg tl0 h)
  /\ sim i pc pb (rrun_state cfg tl0 h) (rrun_state cfg (tl_at i) (rsolo i 0 h)).
Proof. exact rmerge_from_empty. Qed.
Theorem C17_reconf_same_as_without : forall i pc pb cfg h h',
  uncoupled cfg = true -> rhist_wf i pc pb 0 h = true -> rhist_wf i pc pb 0 h' = true ->
  rall_ticks_ok cfg tl0 h = true -> rall_ticks_ok cfg tl0 h' = true -> rsolo i 0 h = rsolo i 0 h' ->
  map (filter (call_ok pc pb)) (rtick_calls cfg tl0 h) = map (filter (call_ok pc pb)) (rtick_calls cfg tl0 h').
Proof. exact rsame_solo_same_calls. Qed.

(* class ids: TypeError = 3, ValueError = 4, a user's subclass of TypeError = 9, a user's subclass of StopIteration = 10 *)
Definition mTypeError : list Z := [3; cException; cBaseException].
Definition mValueError : list Z := [4; cException; cBaseException].
Definition mMyTypeError : list Z := [9; 3; cException; cBaseException].
Definition mMyStop : list Z := [10; cStopIteration; cException; cBaseException].
Definition cnt (d n ch g : Z) : citem := CPlain (nt d n ch g).
(* fx_h with the class of track 1's fault spelled out *)
Definition fx_ch (m : list Z) : list cop :=
  [ COSchedule [cnt 2 60 0 1; cnt 2 62 0 1] false None None None true None true;
    COSchedule [cnt 2 50 1 3; CRaiseCls m; cnt 2 51 1 1] false None None None true None true;
    COSchedule [CPlain (REvent (mkEvent 2 true (KAction 0))); cnt 2 70 2 1] false None None None true None true;
    COther OTick; COther OTick; COther OTick; COther OTick; COther OTick ].
Example C17_class_nonvacuous :
  map erase_op (fx_ch mTypeError) = fx_h /\ map erase_op (fx_ch mMyTypeError) = fx_h
  /\ Forall2 same_kind_op (fx_ch mTypeError) (fx_ch mValueError)
  /\ catches cStopIteration mTypeError = false /\ in_scope mTypeError = true /\ in_scope mMyStop = true
  /\ classify mMyStop = RStopIter /\ classify_cb mMyStop = CbStop
  (* a TypeError raised by the pattern with tolerance disabled: tick 2 returns the exception *)
  /\ map (fun o => snd (fst o)) (run (fx_cfg false) tl0 (map erase_op (fx_ch mTypeError))) = [ROk; ROk; ROk; ROk; ROk; RException; ROk; ROk]
  (* a StopIteration subclass: the stream of track 1 ends there, nothing is raised, the track is removed as finished
     once its note has been released *)
  /\ map (fun o => snd (fst o)) (run (fx_cfg false) tl0 (map erase_op (fx_ch mMyStop))) = [ROk; ROk; ROk; ROk; ROk; ROk; ROk; ROk].
Proof.
  split; [reflexivity|]. split; [reflexivity|]. split.
  { repeat constructor. }
  vm_compute. repeat split.
Qed.

(* fx_h on a timeline CONSTRUCTED intolerant whose switch is turned on after the first tick: the fault of tick 2 is
   contained, exactly as on a timeline constructed tolerant; constructed tolerant and turned off: it propagates; turned
   off and on again before the fault: contained *)
Definition fx_rh (flips : list rop) : list rop := map RO (firstn 4 fx_h) ++ flips ++ map RO (skipn 4 fx_h).
Example C17_reconf_nonvacuous :
  map (fun o => snd (fst o)) (rrun (fx_cfg false) tl0 (fx_rh [RFlag true])) = [ROk; ROk; ROk; ROk; ROk; ROk; ROk; ROk; ROk]
  /\ rtick_calls (fx_cfg false) tl0 (fx_rh [RFlag true]) = tick_calls (fx_cfg true) tl0 fx_h
  /\ map snd (rrun (fx_cfg false) tl0 (fx_rh [RFlag true])) = [[0]; [0; 1]; [0; 1; 2]; [0; 1; 2]; [0; 1; 2]; [0; 1; 2]; [0; 2]; [0; 2]; []]%nat
  /\ now (rrun_state (fx_cfg false) tl0 (fx_rh [RFlag true])) = 5
  /\ rflags (fx_cfg false) (fx_rh [RFlag true]) = [false; false; false; false; false; true; true; true; true]
  /\ rticks_tolerant (fx_cfg true) (fx_rh [RFlag true]) = true
  /\ map (fun o => snd (fst o)) (rrun (fx_cfg true) tl0 (fx_rh [RFlag false])) = [ROk; ROk; ROk; ROk; ROk; ROk; RException; ROk; ROk]
  /\ now (rrun_state (fx_cfg true) tl0 (fx_rh [RFlag false])) = 4
  /\ map (fun o => snd (fst o)) (rrun (fx_cfg true) tl0 (fx_rh [RFlag false; RFlag true])) = [ROk; ROk; ROk; ROk; ROk; ROk; ROk; ROk; ROk; ROk]
  /\ uncoupled (fx_cfg false) = true /\ rhist_wf 0 (fun c => c =? 0) (fun _ => false) 0 (fx_rh [RFlag true]) = true
  /\ rall_ticks_ok (fx_cfg false) tl0 (fx_rh [RFlag true]) = true.
Proof. vm_compute. repeat split. Qed.

(** * Behind a real, stateful output device (Sched/DevFile.v; device state machine of IO/FileWire.v) *)
(* MidiFileOutputDevice keeps the running time and the time of the last message written; mido refuses a request whose data
   bytes are out of range.  [wire_ops k ticks]: per timeline tick the requests of that tick (refused ones included), then k
   device ticks; [placed k 0 ticks]: the accepted requests with the device tick they were made on. *)
(* a refused request leaves the device as it was, so the file is the file without that request - wherever it was made *)
Theorem C17_refused_call_leaves_device_unchanged : forall d m, msg_valid m = false -> f_step d (FReq m) = d.
Proof. exact f_step_refused. Qed.
Theorem C17_refused_call_not_in_file : forall a m b, msg_valid m = false ->
  file_written (a ++ FReq m :: b) = file_written (a ++ b).
Proof. exact file_refused_irrelevant. Qed.
Theorem C17_file_ignores_refused : forall k ticks,
  absolute 0 (file_written (wire_ops k (map (filter msg_valid) ticks))) = absolute 0 (file_written (wire_ops k ticks)).
Proof. exact sched_file_ignores_refused. Qed.
(* the file a history writes, read back: every accepted request at k * (the timeline tick it was made on), whatever happened to
   other requests before it; then the closing message *)
Theorem C17_file_positions : forall k cfg h,
  absolute 0 (sched_file k cfg h) =
    placed k 0 (sched_ticks cfg h) ++ [(k * Z.of_nat (length (sched_ticks cfg h)), closing)].
Proof. exact sched_file_positions. Qed.
(* the merge theorem when the device refuses a call (dev_fail = Some j) that is not one of track i's ([own_clean], executable):
   the calls of track i in every tick of the joint run are those of its solo run on a device that refuses nothing; and they
   are those of the run from which the track f whose call is refused has been left out altogether *)
Theorem C17_refusal_noninterference : forall i pc pb cfg h,
  uncoupled (no_fail cfg) = true -> hist_wf i pc pb 0 h = true -> all_ticks_ok cfg tl0 h = true ->
  own_clean cfg i tl0 h = true ->
  tick_calls (no_fail cfg) (tl_at i) (solo i 0 h) = map (filter (call_ok pc pb)) (tick_calls cfg tl0 h).
Proof. exact refusal_merge_from_empty. Qed.
Theorem C17_refusal_same_as_without : forall i f pc pb cfg h, f <> i ->
  uncoupled (no_fail cfg) = true -> hist_wf i pc pb 0 h = true ->
  all_ticks_ok cfg tl0 h = true -> all_ticks_ok (no_fail cfg) tl0 (drop_track f 0 h) = true ->
  own_clean cfg i tl0 h = true ->
  map (filter (call_ok pc pb)) (tick_calls cfg tl0 h) =
  map (filter (call_ok pc pb)) (tick_calls (no_fail cfg) tl0 (drop_track f 0 h)).
Proof. exact refusal_same_calls_without. Qed.
(* THE FILE with the failing track = THE FILE without it, for the messages of every healthy track i (by channel) and their
   absolute ticks: when the device refuses a call of track f ... *)
Theorem C17_file_same_as_without_refused : forall k i f pc pb cfg h, f <> i ->
  uncoupled (no_fail cfg) = true -> hist_wf i pc pb 0 h = true ->
  all_ticks_ok cfg tl0 h = true -> all_ticks_ok (no_fail cfg) tl0 (drop_track f 0 h) = true ->
  own_clean cfg i tl0 h = true ->
  filter (fun tm => msg_on pc (snd tm)) (placed k 0 (sched_ticks cfg h)) =
  filter (fun tm => msg_on pc (snd tm)) (placed k 0 (sched_ticks (no_fail cfg) (drop_track f 0 h))).
Proof. exact file_same_as_without_refused. Qed.
(* ... and when track f fails in its pattern or in Event() *)
Theorem C17_file_same_as_without_stream : forall k i f pc pb cfg h, f <> i ->
  uncoupled cfg = true -> hist_wf i pc pb 0 h = true ->
  all_ticks_ok cfg tl0 h = true -> all_ticks_ok cfg tl0 (drop_track f 0 h) = true ->
  filter (fun tm => msg_on pc (snd tm)) (placed k 0 (sched_ticks cfg h)) =
  filter (fun tm => msg_on pc (snd tm)) (placed k 0 (sched_ticks cfg (drop_track f 0 h))).
Proof. exact file_same_as_without_stream. Qed.

(* three tracks on channels 0, 1, 2; the second note of track 1 is 130: the sixth note_on of the performance (j = 5) is refused.
   Track 1 is removed on tick 2 (its sounding note 50 is still released), the hypotheses of the theorems hold for the observed
   track 2 (and 0; not for 1, whose call it is), and track 2's part of the file - 480 file ticks per timeline tick - is the same
   with and without track 1; the refused request put back among the requests of tick 2 changes nothing *)
Definition dv_cfg (j : option nat) : config := mkConfig 1 [] 0 0 false true j 8.
Definition dv_h : list op :=
  [ OSchedule (mkStream [nt 2 60 0 1; nt 2 62 0 1] 0 false) None None None true None true;
    OSchedule (mkStream [nt 2 50 1 3; nt 2 130 1 1; nt 2 51 1 1] 0 false) None None None true None true;
    OSchedule (mkStream [nt 1 70 2 1; nt 1 71 2 1; nt 1 72 2 1; nt 1 73 2 1] 0 false) None None None true None true;
    OTick; OTick; OTick; OTick; OTick ].
Definition on2 (tm : tmsg) : bool := msg_on (fun c => c =? 2) (snd tm).
Example C17_device_nonvacuous :
  nth 2 (tick_calls (dv_cfg None) tl0 dv_h) [] = [CNoteOff 71 2; CNoteOn 62 64 0; CNoteOn 130 64 1; CNoteOn 72 64 2]
  /\ msg_valid (NoteOn 1 130 64) = false
  /\ nth 2 (tick_calls (dv_cfg (Some 5%nat)) tl0 dv_h) [] = [CNoteOff 71 2; CNoteOn 62 64 0; CNoteOn 72 64 2]
  /\ map snd (run (dv_cfg (Some 5%nat)) tl0 dv_h) = [[0]; [0; 1]; [0; 1; 2]; [0; 1; 2]; [0; 1; 2]; [0; 2]; [0; 2]; []]%nat
  /\ uncoupled (no_fail (dv_cfg (Some 5%nat))) = true /\ hist_wf 2 (fun c => c =? 2) (fun _ => false) 0 dv_h = true
  /\ all_ticks_ok (dv_cfg (Some 5%nat)) tl0 dv_h = true /\ all_ticks_ok (dv_cfg None) tl0 (drop_track 1 0 dv_h) = true
  /\ own_clean (dv_cfg (Some 5%nat)) 2 tl0 dv_h = true /\ own_clean (dv_cfg (Some 5%nat)) 0 tl0 dv_h = true
  /\ own_clean (dv_cfg (Some 5%nat)) 1 tl0 dv_h = false
  /\ filter on2 (placed 480 0 (sched_ticks (dv_cfg (Some 5%nat)) dv_h)) =
       [(0, NoteOn 2 70 64); (480, NoteOff 2 70 64); (480, NoteOn 2 71 64); (960, NoteOff 2 71 64);
        (960, NoteOn 2 72 64); (1440, NoteOff 2 72 64); (1440, NoteOn 2 73 64); (1920, NoteOff 2 73 64)]
  /\ filter on2 (placed 480 0 (sched_ticks (dv_cfg None) (drop_track 1 0 dv_h))) = filter on2 (placed 480 0 (sched_ticks (dv_cfg (Some 5%nat)) dv_h))
  /\ (let ticks := sched_ticks (dv_cfg (Some 5%nat)) dv_h in
      let with_refused := firstn 2 ticks ++ [[NoteOff 2 71 64; NoteOn 1 130 64; NoteOn 0 62 64; NoteOn 2 72 64]] ++ skipn 3 ticks in
      file_written (wire_ops 480 with_refused) = sched_file 480 (dv_cfg (Some 5%nat)) dv_h).
Proof. vm_compute. repeat split. Qed.

(** * run(), and a timeline object used for several runs (Sched/RunLoop.v) *)
(* [run_loop cfg budget tl]: Timeline.run() from the state tl - tick until something is raised, then [run_decision]: StopIteration ->
   return; an exception -> re-raise iff ignore_exceptions is off.  The decision is a function of the switch in force and of what
   the tick raised; the life of the object (earlier runs in the foreground or on a background thread, stop(), reset()) enters
   only through the state it left.  [life cfg tl l]: the observations of a life l over the alphabet LOp / LRun / LBackground / LStop / LReset. *)
Theorem C17_run_end : forall cfg b tl,
  snd (run_loop cfg b tl) = match first_stop cfg b tl with Some r => run_decision (ignore_exc cfg) r | None => RunBudget end.
Proof. exact run_loop_end. Qed.
(* tolerance enabled, run() from ANY state: no tick of the run returns an exception; run() neither raises nor swallows *)
Theorem C17_run_contained : forall cfg b tl, ignore_exc cfg = true ->
  first_stop cfg b tl <> Some RException
  /\ (let e := snd (run_loop cfg b tl) in e = RunReturned \/ e = RunBudget \/ e = RunOutOfFuel).
Proof. exact run_loop_contained. Qed.
(* tolerance disabled, run() from ANY state: it raises to its caller exactly when a tick of the run returns an exception, and it
   never swallows one *)
Theorem C17_run_propagates : forall cfg b tl, ignore_exc cfg = false ->
  (snd (run_loop cfg b tl) = RunRaised <-> first_stop cfg b tl = Some RException).
Proof. exact run_loop_propagates. Qed.
Theorem C17_run_never_swallows : forall cfg b tl, ignore_exc cfg = false -> snd (run_loop cfg b tl) <> RunSwallowed.
Proof. exact run_loop_never_swallows. Qed.
Theorem C17_run_clock : forall cfg b tl,
  let '(tl', cs, e) := run_loop cfg b tl in
  e <> RunBudget -> now tl' = now tl + (Z.of_nat (length cs) - 1) * tau cfg.
Proof. exact run_loop_now. Qed.
(* a run made at the end of any life is run() from the state that life left ... *)
Theorem C17_life_later_run : forall cfg l b tl,
  life cfg tl (l ++ [LRun b]) =
    life cfg tl l ++ [ORun (snd (fst (run_loop cfg b (life_state cfg tl l)))) (snd (run_loop cfg b (life_state cfg tl l)))].
Proof. exact life_later_run. Qed.
(* ... and whether the earlier runs were made in the foreground or on a background thread makes no difference to anything later *)
Theorem C17_life_background_is_foreground : forall cfg l tl,
  life cfg tl (map in_foreground l) = life cfg tl l /\ life_state cfg tl (map in_foreground l) = life_state cfg tl l.
Proof. exact life_background_is_foreground. Qed.
(* the states of a life (after any letter, between the ticks of a run, inside a tick) keep track ids distinct, so in every later
   run: tolerant -> the failing track and only it is removed; intolerant -> a fault in the first tick of the run makes run() raise *)
Theorem C17_life_reachable : forall cfg l, lreachable cfg (life_state cfg tl0 l).
Proof. exact life_reachable. Qed.
Theorem C17_life_failing_track_removed : forall cfg tl id tr tr1 c n1, lreachable cfg tl -> ignore_exc cfg = true ->
  find_track id (tracks tl) = Some tr ->
  track_tick_a cfg (now tl) tr (dev_calls tl) = (tr1, c, n1, TRaise) ->
  let '(tl', c', ab) := tick_one cfg tl id in
  ab = None /\ c' = c
  /\ find_track id (tracks tl') = None
  /\ (forall id', id' <> id -> find_track id' (tracks tl') = find_track id' (tracks tl))
  /\ actions tl' = actions tl ++ release_actions tr1
  /\ now tl' = now tl.
Proof. exact life_fault_removed. Qed.
Theorem C17_life_later_run_raises : forall cfg l b, ignore_exc cfg = false ->
  let tl := life_state cfg tl0 l in
  snd (phase_tracks cfg (tick_pre tl) (map t_id (tracks (tick_pre tl))) []) = RException ->
  snd (run_loop cfg (S b) tl) = RunRaised.
Proof. exact life_later_run_raises. Qed.

(* a piece is played to its end on a background thread; two more tracks are scheduled, one of which faults on its second event;
   the timeline is run in the foreground: intolerant -> run() raises on the third tick of that run; tolerant -> it plays to the end;
   the same after stop() and reset(); and the same life with the first run made in the foreground *)
Definition lf_cfg (tolerant : bool) : config := mkConfig 1 [] 0 0 true tolerant None 8.
Definition lf_l (first : nat -> lop) (between : list lop) : list lop :=
  [ LOp (OSchedule (mkStream [nt 1 60 0 1; nt 1 62 0 1] 0 false) None None None true None true); first 50%nat ] ++ between ++
  [ LOp (OSchedule (mkStream [nt 2 50 1 1; RRaise] 0 false) None None None true None true);
    LOp (OSchedule (mkStream [nt 1 70 2 1; nt 1 71 2 1; nt 1 72 2 1; nt 1 73 2 1] 0 false) None None None true None true);
    LRun 50%nat ].
Example C17_life_nonvacuous :
  runs_of (life (lf_cfg false) tl0 (lf_l LBackground [])) =
    [ ([[CNoteOn 60 64 0]; [CNoteOff 60 0; CNoteOn 62 64 0]; [CNoteOff 62 0]], RunReturned);
      ([[CNoteOn 50 64 1; CNoteOn 70 64 2]; [CNoteOff 50 1; CNoteOff 70 2; CNoteOn 71 64 2]; [CNoteOff 71 2]], RunRaised) ]
  /\ map snd (runs_of (life (lf_cfg true) tl0 (lf_l LBackground []))) = [RunReturned; RunReturned]
  /\ map (fun r => length (fst r)) (runs_of (life (lf_cfg true) tl0 (lf_l LBackground []))) = [3; 5]%nat
  /\ runs_of (life (lf_cfg false) tl0 (lf_l LRun [])) = runs_of (life (lf_cfg false) tl0 (lf_l LBackground []))
  /\ map snd (runs_of (life (lf_cfg false) tl0 (lf_l LBackground [LStop; LReset]))) = [RunReturned; RunRaised]
  /\ now (life_state (lf_cfg false) tl0 (lf_l LBackground [])) = 4 /\ now (life_state (lf_cfg false) tl0 (lf_l LBackground [LStop; LReset])) = 2
  /\ first_stop (lf_cfg false) 50 (life_state (lf_cfg false) tl0 (firstn 4 (lf_l LBackground []))) = Some RException.
Proof. vm_compute. repeat split. Qed.

(** * After a contained fault (Sched/AfterFaultProofs.v) *)
(* The failing track has left [tracks], and [tracks] is all there is: Sched/Model.v's named replace looks names up there.  So the
   tolerant faulting turn of the only track called nm frees the name ... *)
Theorem C17_fault_frees_name : forall cfg, ignore_exc cfg = true -> forall tl id tr tr1 c n1 nm,
  find_track id (tracks tl) = Some tr -> NoDup (map t_id (tracks tl)) -> only_named nm id (tracks tl) ->
  track_tick_a cfg (now tl) tr (dev_calls tl) = (tr1, c, n1, TRaise) ->
  name_free nm (tracks (fst (fst (tick_one cfg tl id)))).
Proof. exact fault_frees_name. Qed.
(* ... a later schedule() under that name - replace=True or not - is the call that creates a fresh track ... *)
Theorem C17_reschedule_under_freed_name : forall cfg tl s q d count rwd nm replace, name_free nm (tracks tl) ->
  exec_op cfg tl (OSchedule s q d count rwd (Some nm) replace) = exec_op cfg tl (OSchedule s q d count rwd (Some nm) false).
Proof. exact schedule_under_free_name. Qed.
(* ... appended behind the tracks that are left with the next fresh id (the track limit counts the tracks that are left) ... *)
Theorem C17_reschedule_creates_fresh : forall cfg tl s q d count rwd nm,
  (max_tracks cfg = 0 \/ Z.of_nat (length (tracks tl)) < max_tracks cfg) ->
  let '(tl1, tr1) := track_update cfg tl (new_track (next_id tl) count rwd (Some nm)) s q d None in
  exec_op cfg tl (OSchedule s q d count rwd (Some nm) false) =
    (mkTL (now tl1) (tracks tl1 ++ [tr1]) (actions tl1) (S (next_id tl1)) (def_q tl1) (def_d tl1) (dev_calls tl1), ROk).
Proof. exact schedule_creates_fresh. Qed.
(* ... whose record is the one the same call creates in the run in which the failing track never existed (same clock, same
   defaults), up to the id *)
Theorem C17_fresh_track_same_record : forall cfg tlA tlB idA idB s q d count rwd nm,
  now tlA = now tlB -> def_q tlA = def_q tlB -> def_d tlA = def_d tlB ->
  let trA := snd (track_update cfg tlA (new_track idA count rwd (Some nm)) s q d None) in
  let trB := snd (track_update cfg tlB (new_track idB count rwd (Some nm)) s q d None) in
  trA = mkTrack idA (t_stream trB) (t_cur trB) (t_next trB) (t_max trB) (t_count trB) (t_offs trB)
                (t_muted trB) (t_started trB) (t_finished trB) (t_rwd trB) (t_name trB).
Proof. exact fresh_track_same_record. Qed.
Theorem C17_unschedule_removed : forall cfg tl id, find_track id (tracks tl) = None ->
  exec_op cfg tl (OUnschedule id) = (tl, RTrackNotFound).
Proof. exact unschedule_removed. Qed.

(* fx_h with the failing track 1 called 7 and, after its fault, a schedule() under the name 7: a fresh track 3 appears and plays;
   on the history without the failing track the same call creates track 2, which makes the same calls; unschedule of the failed
   track reports RTrackNotFound *)
Definition af_h (with_failing : bool) : list op :=
  [ OSchedule (mkStream [nt 2 60 0 1; nt 2 62 0 1] 0 false) None None None true None true ] ++
  (if with_failing then [OSchedule (mkStream [nt 2 50 1 3; RRaise; nt 2 51 1 1] 0 false) None None None true (Some 7) true] else []) ++
  [ OSchedule (mkStream [REvent (mkEvent 2 true (KAction 0)); nt 2 70 2 1] 0 false) None None None true None true;
    OTick; OTick; OTick;
    OSchedule (mkStream [nt 1 80 3 1; nt 1 81 3 1] 0 false) None None None true (Some 7) true ] ++
  (if with_failing then [OUnschedule 1] else []) ++ [ OTick; OTick; OTick ].
Definition on3 (c : call) : bool := call_ok (fun ch => ch =? 3) (fun _ => false) c.
Example C17_after_fault_nonvacuous :
  map snd (run (fx_cfg true) tl0 (af_h true)) = [[0]; [0; 1]; [0; 1; 2]; [0; 1; 2]; [0; 1; 2]; [0; 2]; [0; 2; 3]; [0; 2; 3]; [0; 2; 3]; [3]; []]%nat
  /\ nth 7 (map (fun o => snd (fst o)) (run (fx_cfg true) tl0 (af_h true))) ROk = RTrackNotFound
  /\ map (filter on3) (tick_calls (fx_cfg true) tl0 (af_h true)) = [[]; []; []; [CNoteOn 80 64 3]; [CNoteOff 80 3; CNoteOn 81 64 3]; [CNoteOff 81 3]]
  /\ map (filter on3) (tick_calls (fx_cfg true) tl0 (af_h false)) = map (filter on3) (tick_calls (fx_cfg true) tl0 (af_h true))
  /\ find_named 7 (tracks (run_state (fx_cfg true) tl0 (firstn 6 (af_h true)))) = None
  /\ (exists t, find_named 7 (tracks (run_state (fx_cfg true) tl0 (firstn 5 (af_h true)))) = Some t /\ t_id t = 1%nat).
Proof. vm_compute. repeat split. eexists. split; reflexivity. Qed.

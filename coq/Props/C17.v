(* Props/C17.v — property C17 (stub while the check is being built) *)
From Isobar Require Import Base.Prelude Sched.Model.
Theorem C17_stub_partial : True. Proof. exact I. Qed.

(* Props/C20Src.v — property C20: main theorems of Props/C20.v restated for the definition translated from the BODY of
   parse_notation (Generated/TablesNotation.v; tie: Notation/ParserSrc.v).  src_parse_notation uw fuel s is the depth-counter
   loop as the source has it (the helpers are the model's); fuel = S (length s) iterations always suffice (C20_src_total:
   the outcome is never OutOfFuel). *)
From Isobar Require Import Base.Prelude Notation.Lexer Notation.Parser Notation.ParserProofs Notation.PyOutcome
     Generated.TablesNotation Notation.ParserSrc Props.C20.
Local Notation length := List.length (only parsing).

(* every string is either parsed or rejected with ValueError: no other exception, and the loop ends *)
Theorem C20_src_total : forall uw s,
  (exists g, src_parse_notation uw (S (length s)) s = Ok g) \/ src_parse_notation uw (S (length s)) s = Reject.
Proof. intros uw s. rewrite src_parse_notation_is. apply C20_total. Qed.
Print Assumptions C20_src_total.

(* acceptance is exactly: the string scans completely into tokens and its brackets are balanced *)
Theorem C20_src_accept_iff : forall uw s,
  (exists g, src_parse_notation uw (S (length s)) s = Ok g) <-> (snd (tokens_of uw s) = ScanComplete /\ brackets_balanced s = true).
Proof. intros uw s. rewrite src_parse_notation_is. apply C20_accept_iff. Qed.
Print Assumptions C20_src_accept_iff.

(* structure: the result read back as a token stream is the token stream of the string *)
Theorem C20_src_structure : forall uw s g, src_parse_notation uw (S (length s)) s = Ok g ->
  exists toks, tokens_of uw s = (toks, ScanComplete) /\ flatten g = map classify toks
    /\ exists seps, s = render toks seps /\ Forall (fun sp => forallb is_space sp = true) seps.
Proof. intros uw s g. rewrite src_parse_notation_is. apply C20_structure. Qed.
Print Assumptions C20_src_structure.

(* unbalanced brackets or a foreign character give ValueError, for every string *)
Theorem C20_src_reject : forall uw s,
  brackets_balanced s = false \/ (exists c, In c s /\ token_char c = false /\ is_space c = false) ->
  src_parse_notation uw (S (length s)) s = Reject.
Proof. intros uw s. rewrite src_parse_notation_is. apply C20_reject. Qed.
Print Assumptions C20_src_reject.

Example C20_src_nonvacuous :
  let p := fun s => src_parse_notation (fun _ => false) (S (length s)) s in
  p [49; 32; 91; 50; 32; 51; 93] (* "1 [2 3]" *) = Ok [Leaf (VInt 1); Node [Leaf (VInt 2); Leaf (VInt 3)]] /\
  p [49; 32; 93; 32; 50] = Reject (* "1 ] 2" *) /\ p [91; 32; 49] = Reject (* "[ 1" *) /\ p [] = Reject /\ p [49; 32; 120] = Reject (* "1 x" *).
Proof. vm_compute. repeat split; reflexivity. Qed.

(* Props/C10Streams.v — property C10, the tonal classes over PARAMETER STREAMS: "degree and frequency conversion ... The
   definitions hold on nested combinations of patterns".  PDegree(degree, scale), PFilterByKey(pattern, key),
   PNearestNoteInKey(pattern, key) with BOTH inputs arbitrary patterns: the reference definition takes the two streams
   index by index, out[n] = f(in[n], param[n]); a rest in one input never shifts the other.
   Model Pat/TonalStreams.v (the object reads one value of each input per call, first the main input, then the parameter;
   Scale.get / Key.__contains__ / Key.nearest_note are those of Tonal/Key.v, property C13); lemmas Pat/TonalStreamsProofs.v.
   [TDen f o s]: call j of next() on o has the outcome at_ s j, for every j; [ADen f a s] the same for an operand. *)
From Isobar Require Import Base.Prelude Pat.Val Pat.Syntax Pat.Step Pat.Ref Pat.RefProofs Tonal.Key Pat.TonalStreams Pat.TonalStreamsProofs.
From Coq Require Import String.
Open Scope Z_scope.

Section AnyEngine.
  Variable binop : op -> val -> val -> outcome val.
  Variable LMAX : nat.

  (* for ARBITRARY operand objects a, b (any class, any depth, finite or endless) denoting the streams ins and pars, and
     wherever the class is defined on the values that meet (rests / ints / tuples of ints against a non-empty scale resp.
     key): the object denotes the pointwise closed form ref_tonal c ins pars = zip (tonal_h c) ins pars *)
  Theorem C10_tonal_parameter_streams : forall f c a b ins pars,
    ADen binop LMAX f a ins -> ADen binop LMAX f b pars ->
    (forall j x p, at_ ins j = Yield x -> at_ pars j = Yield p -> tonal_ok c x p = true) ->
    TDen binop LMAX f (mkT c a b) (ref_tonal c ins pars).
  Proof. exact (tonal_den binop LMAX). Qed.

  (* the closed form, index by index: element j of the output is made of element j of BOTH streams; the output ends with
     the shorter stream *)
  Theorem C10_tonal_index_by_index : forall c ins pars j,
    at_ (ref_tonal c ins pars) j =
    match at_ ins j, at_ pars j with Yield x, Yield p => Yield (tonal_h c x p) | _, _ => Stop end.
  Proof. exact (ref_tonal_at binop). Qed.

  (* a rest in the main input gives a rest, and the next call reads the NEXT parameter value all the same *)
  Theorem C10_tonal_rest_does_not_shift : forall f c a b ins pars j p,
    ADen binop LMAX f a ins -> ADen binop LMAX f b pars ->
    (forall j x p, at_ ins j = Yield x -> at_ pars j = Yield p -> tonal_ok c x p = true) ->
    at_ ins j = Yield VNone -> at_ pars j = Yield p ->
    tout binop LMAX f j (mkT c a b) = Yield VNone /\
    tout binop LMAX f (S j) (mkT c a b) =
      match at_ ins (S j), at_ pars (S j) with Yield x, Yield q => Yield (tonal_h c x q) | _, _ => Stop end.
  Proof. exact (rest_does_not_shift binop LMAX). Qed.
End AnyEngine.
Print Assumptions C10_tonal_parameter_streams.
Print Assumptions C10_tonal_rest_does_not_shift.

(* what f is: PDegree looks the degree up in the scale of the SAME step (Scale.get of C13) *)
Theorem C10_degree_pointwise : forall d s, tonal_h TDegree (VInt d) (scale_val s) = VInt (scale_get s d).
Proof. exact tonal_h_degree. Qed.

(* non-vacuity: PDegree(PSequence([0, 2, None, 2, 4], 1), PSequence([major, minor], ...)) - the scale alternates with every
   step, the rest at index 2 consumes its scale (major), so index 3 is looked up in MINOR: 3, not 4 *)
Example C10_streams_nonvacuous :
  let major := scale_val (mkScale [0; 2; 4; 5; 7; 9; 11] 12) in
  let minor := scale_val (mkScale [0; 2; 3; 5; 7; 8; 10] 12) in
  let degrees := EP (ECall CSequence [EL [EV (VInt 0); EV (VInt 2); EV VNone; EV (VInt 2); EV (VInt 4)]; EV (VInt 1)]) in
  let scales := EP (ECall CSequence [EL [EV major; EV minor]; EV (VInt 9)]) in
  tonal_check Val.binop 100 30 6 TDegree degrees scales
    [Yield (VInt 0); Yield (VInt 3); Yield VNone; Yield (VInt 3); Yield (VInt 7); Stop] = 0%nat.
Proof. vm_compute. reflexivity. Qed.

(* Props/C05Float.v — property C05, float layer: the due test of pending actions (deferred starts) in Timeline.tick, as
   the SOURCE writes it (Generated/TablesTime.v: src_action_due, translated from the source text on every run), decides
   exactly like the comparison of the exact times of the model (Sched/Model.v: a_time a <=? now tl).  Depends on the axioms
   of Coq's classical real numbers (standard library) only. *)
From Coq Require Import ZArith Reals Lra Lia.
From Flocq Require Import Core.
From Isobar Require Import Base.FloatGrid Base.FloatRound8 Generated.TablesTime Base.FloatDue Base.FloatDueSrc
                           Base.FloatGridSrc Base.FloatStamp Base.FloatStampSrc Sched.Model.
Open Scope R_scope.

Theorem C05_float_action_due_is_exact : forall (U tpb tau k b : Z) (t a E : R),
  (0 < tpb)%Z -> (0 < tau)%Z -> U = (tau * tpb)%Z -> (2 * U <= 10 ^ 8)%Z -> 6 * 10 ^ 8 * E <= 1 ->
  Rabs (t - IZR k / IZR tpb) <= E -> Rabs (a - IZR b / IZR U) <= E ->
  src_action_due a t = (b <=? k * tau)%Z.
Proof. exact src_action_due_exact. Qed.
Print Assumptions C05_float_action_due_is_exact.

(* Run level: the closeness of the float action time is no longer a hypothesis.  The action time is the term generated
   from the source text of Timeline._schedule_action (src_action_time t q dl: quantize * math.ceil(round(float(
   self.current_time) / quantize, 8)) + delay, or current_time + delay when quantize is 0 - one rounding per operation,
   round(., 8) correctly rounded, math.ceil exact), the clock and the due test are the source's own.  The action
   scheduled on timeline tick k is performed on tick k' iff k' >= ceil(X / tau), X = the exact scheduled time of the
   model (Sched/Model.v: sched_time) in units: the float computation starts it on the exact tick.  In particular
   ceil(round(fl(t / q), 8)) IS the exact ceiling of t / q (Base/FloatStamp.v: ceil_round8_float): the round(., 8)
   absorbs the float error when t / q is a whole number.  Hypotheses (action_admissible): tpb <= 2^20, grid of at most
   10^8/2 units per beat, quantize <= 10^8 units, at most 5 * 10^6 quantize periods since time 0, float inputs within
   relative 2^-51 of the rationals they stand for, all times up to 450000 beats and 2^32 ticks. *)
Theorem C05_float_start_tick_is_exact : forall (tpb tau : Z) (k k' : nat) (qn dn : Z) (q dl T : R),
  action_admissible tpb tau k qn dn q dl T -> (Z.of_nat k' <= 2 ^ 32)%Z -> IZR (Z.of_nat k') / IZR tpb <= T ->
  src_action_due (src_action_time (src_timeline_clock tpb k) q dl) (src_timeline_clock tpb k')
  = (cdiv (sched_time (Z.of_nat k * tau) qn dn) tau <=? Z.of_nat k')%Z.
Proof. exact src_action_start_exact. Qed.
Print Assumptions C05_float_start_tick_is_exact.

(* the float scheduled time is within 2^-48 * T of the model's exact one *)
Theorem C05_float_action_time_error : forall (tpb tau : Z) (k : nat) (qn dn : Z) (q dl T : R),
  action_admissible tpb tau k qn dn q dl T ->
  Rabs (src_action_time (src_timeline_clock tpb k) q dl - IZR (sched_time (Z.of_nat k * tau) qn dn) / IZR (tau * tpb))
    <= bpow radix2 (-48) * T.
Proof. exact src_action_time_error. Qed.
Print Assumptions C05_float_action_time_error.

(* non-vacuity: 480 ticks per beat, quantize = 1 beat, delay = 0.1 (the nearest double): scheduled on tick k, started
   on the first tick at or after the next whole beat plus 48 ticks *)
Example C05_float_start_nonvacuous_480 : forall k k' : nat, (Z.of_nat k <= 200000000)%Z -> (Z.of_nat k' <= 200000000)%Z ->
  src_action_due (src_action_time (src_timeline_clock 480 k) 1 (RN (1 / 10))) (src_timeline_clock 480 k')
  = (480 * cdiv (Z.of_nat k) 480 + 48 <=? Z.of_nat k')%Z.
Proof.
  intros k k' Hk Hk'.
  rewrite (C05_float_start_tick_is_exact 480 1 k k' 480 48 1 (RN (1 / 10)) 450000 (action_admissible_480 k Hk)).
  - unfold sched_time, cdiv. simpl Z.eqb. cbv iota. rewrite !Z.mul_1_r, !Z.div_1_r. f_equal. lia.
  - change (2 ^ 32)%Z with 4294967296%Z. lia.
  - apply IZR_le in Hk'. unfold Rdiv. lra.
Qed.
Print Assumptions C05_float_start_nonvacuous_480.

(* Props/C05Float.v — property C05, float layer: the due test of pending actions (deferred starts) in Timeline.tick, as
   the SOURCE writes it (Generated/TablesTime.v: src_action_due, translated from the source text on every run), decides
   exactly like the comparison of the exact times of the model (Sched/Model.v: a_time a <=? now tl).  Depends on the axioms
   of Coq's classical real numbers (standard library) only. *)
From Coq Require Import ZArith Reals.
From Isobar Require Import Base.FloatGrid Base.FloatRound8 Generated.TablesTime Base.FloatDue Base.FloatDueSrc.
Open Scope R_scope.

Theorem C05_float_action_due_is_exact : forall (U tpb tau k b : Z) (t a E : R),
  (0 < tpb)%Z -> (0 < tau)%Z -> U = (tau * tpb)%Z -> (2 * U <= 10 ^ 8)%Z -> 6 * 10 ^ 8 * E <= 1 ->
  Rabs (t - IZR k / IZR tpb) <= E -> Rabs (a - IZR b / IZR U) <= E ->
  src_action_due a t = (b <=? k * tau)%Z.
Proof. exact src_action_due_exact. Qed.
Print Assumptions C05_float_action_due_is_exact.

(* Props/C12Src.v — property C12 (parameters are read when the class says so) for the __next__ body of PStutter GENERATED FROM
   THE SOURCE TEXT of isobar/pattern/sequence.py (harness/gen_tables_step.py -> Generated/TablesStep.v on every run; tie
   lemmas in Pat/StepSrc.v; docs/TRANSLATOR.md).  An edit of PStutter.__next__ that changes the translated term breaks
   Pat/StepSrc.v and with it these theorems: a broken proof obligation of C12.  Lemmas: Pat/ParamSrc.v. *)
From Isobar Require Import Base.Prelude Pat.Val Pat.Syntax Pat.Step Pat.StepProofs Pat.Param Pat.ParamProofs Pat.ParamMore
  Generated.TablesStep Pat.StepSrc Pat.ParamSrc.
From Coq Require Import String QArith.
Open Scope Z_scope.

Section AnyOperators.
  Variable binop : op -> val -> val -> outcome val.
  Variable LMAX : nat.

  (* at a block boundary the body as written steps the count pattern exactly once, then the input, and the value of the
     count is the length of the new block *)
  Theorem C12_src_stutter_block_start : forall f pt q w pos v c q' v' pt',
    w <= pos -> step binop LMAX f q = (Yield c, q') -> step binop LMAX f pt = (Yield v', pt') ->
    src_PStutter_next Val.binop (value binop LMAX) (anext binop LMAX) (S f) (AP pt) (AP q) (VInt w) pos v =
      (Yield v', PStutter (AP pt') (AP q') c 1 v').
  Proof. exact (src_stutter_boundary binop LMAX). Qed.

  (* the remaining outputs of the block, each call executed as the source defines it, repeat the value and touch neither
     operand *)
  Theorem C12_src_stutter_block_rest : forall f pattern count c v k,
    1 + Z.of_nat k <= c ->
    src_outputs binop LMAX (S f) k (PStutter pattern count (VInt c) 1 v) =
      (repeat (Yield v) k, PStutter pattern count (VInt c) (1 + Z.of_nat k) v).
  Proof. exact (src_stutter_block binop LMAX). Qed.
  (* PDict.__next__ as written: the dict of the values' next values; it ends as soon as one of them ends *)
  Theorem C12_src_pdict_ends_with_shortest : forall f kv1 k a a' kv2,
    (forall k1 a1, In (k1, a1) kv1 -> exists v a1', value binop LMAX f a1 = (Yield v, a1')) ->
    value binop LMAX f a = (Stop, a') ->
    fst (src_PDict_next Val.binop (value binop LMAX) (anext binop LMAX) f (AD (kv1 ++ (k, a) :: kv2))) = Stop.
  Proof. exact (src_pdict_ends_with_shortest binop LMAX). Qed.
End AnyOperators.
Print Assumptions C12_src_stutter_block_start.
Print Assumptions C12_src_stutter_block_rest.
Print Assumptions C12_src_pdict_ends_with_shortest.

(* Props/C10More.v — property C10, continued: the closed forms of the classes that Props/C10.v lists as OPEN.
   Only the property theorems live here; each is closed by a lemma of Pat/RefProofs2.v (which builds on
   Pat/RefProofs.v and on Pat/FuelMono.v: more fuel never changes a result).  Vocabulary as in Props/C10.v:
   [Den f p s] — call j of next() on the object p (fuel f per call) has the outcome [at_ s j], for every j.
   Operands are ARBITRARY objects (any class, any nesting depth) that denote some s; the class object is in the
   state __init__ leaves it in.  Where __next__ loops (PWrap, PCollapse, PNoRepeats, ...) the fuel of the conclusion
   is the operand's fuel plus a bound on the number of iterations, stated in the theorem. *)
From Isobar Require Import Base.Prelude Pat.Val Pat.Syntax Pat.Step Pat.StepProofs Pat.Ref Pat.RefProofs Pat.FuelMono Pat.RefProofs2.
From Isobar Require Import Pat.IterProofs Pat.ResetProofs Pat.RefProofs3.
From Isobar Require Import Props.C10.
From Coq Require Import String QArith.
Open Scope Z_scope.

Section AnyEngine.
  Variable binop : op -> val -> val -> outcome val.
  Variable LMAX : nat.
  Notation Den := (Den binop LMAX).

  (* a denotation does not depend on the fuel once there is enough of it: same outcomes, same states *)
  Theorem C10_fuel_irrelevant : forall f F c s, Den f c s -> (f <= F)%nat ->
    Den F c s /\ forall j, after binop LMAX F j c = after binop LMAX f j c.
  Proof. intros f F c s H HF. split; [exact (Den_fuel binop LMAX f F c s H HF) | exact (Den_fuel_after binop LMAX f F c s H HF)]. Qed.

  (* PImpulse(period), period >= 1: 1 at every multiple of period (starting with a 1), otherwise 0 — endless *)
  Theorem C10_impulse : forall f P, 1 <= P ->
    Den (S (S f)) (PImpulse (AV (VInt P)) 0) (Inf (ref_impulse P)).
  Proof. exact (impulse_den binop LMAX). Qed.

  (* PCounter(trigger) over ints: the number of rising zero-crossings so far (finite trigger stream) *)
  Theorem C10_counter : forall f c zs, Den f c (Fin (map zi zs)) ->
    Den (S (S f)) (PCounter (AP c) (VInt 0) 0) (Fin (ref_counter_from 0 0 zs)).
  Proof. exact (counter_den binop LMAX). Qed.

  (* ... and over an endless trigger (PCounter(PImpulse(n)) is the documented use): output j is the last element of the
     closed form applied to the first j+1 triggers *)
  Theorem C10_counter_endless : forall f c gz, Den f c (Inf (fun i => zi (gz i))) ->
    Den (S (S f)) (PCounter (AP c) (VInt 0) 0)
        (Inf (fun j => nth j (ref_counter_from 0 0 (map gz (seq 0 (S j)))) VNone)).
  Proof. exact (counter_den_inf binop LMAX). Qed.

  (* PWrap(p, min, max), ints, min < max: every value v becomes min + (v - min) mod (max - min), p finite or endless;
     K bounds how often the width has to be added / taken off (the `while` loops of __next__) *)
  Theorem C10_wrap : forall f c s mn mx K, mn < mx -> Den f c s ->
    (forall j v, at_ s j = Yield v -> exists z, v = VInt z /\ Z.abs (z - mn) <= Z.of_nat K * (mx - mn)) ->
    Den (S (S (f + K))) (PWrap (AP c) (VInt mn) (VInt mx)) (sem_map (wrapv mn mx) s).
  Proof. exact (wrap_den binop LMAX). Qed.

  (* PCollapse(p): the rests dropped (finite p; one unit of fuel per value read) *)
  Theorem C10_collapse : forall f c l, Den f c (Fin l) ->
    Den (S (f + List.length l + 2)) (PCollapse (AP c)) (Fin (ref_collapse l)).
  Proof. exact (collapse_den binop LMAX). Qed.

  (* PNoRepeats(p): a value equal (==) to the one before it is dropped; sys.maxsize, the class's own "nothing yet"
     marker, does not occur in p *)
  Theorem C10_norepeats : forall f c l, Den f c (Fin l) -> (forall v, In v l -> py_eq v (VInt MAXSIZE) = false) ->
    Den (S (f + List.length l + 2)) (PNoRepeats (AP c) (VInt MAXSIZE)) (Fin (ref_norepeats_from (VInt MAXSIZE) l)).
  Proof. exact (norepeats_den binop LMAX). Qed.

  (* PPadToMultiple(p, multiple, minimum_pad), multiple >= 1: p, then at least minimum_pad rests and as many more as
     make the total length a multiple; an endless p is left alone *)
  Theorem C10_pad_to_multiple : forall f c s m mp, (1 <= m)%nat -> Den f c s ->
    Den (S (S f)) (PPadToMultiple (AP c) (VInt (Z.of_nat m)) (VInt (Z.of_nat mp)) 0 0) (sem_pad_to_multiple m mp s).
  Proof. exact (padm_den binop LMAX). Qed.

  (* PLoop(p, count), count >= 1: the values of p, count times (also for an empty p: nothing); an endless p is played
     as it is *)
  Theorem C10_loop : forall f c s count, (1 <= count)%nat -> Den f c s ->
    Den (S (S f)) (PLoop (AP c) (VInt (Z.of_nat count)) 0 0 false []) (sem_loop count s).
  Proof. exact (loop_den binop LMAX). Qed.

  (* PSubsequence(p, offset, length): the values of p at the indices offset .. offset + length - 1 that exist; p finite or
     endless (the first call reads offset + 1 values: that many units of fuel) *)
  Theorem C10_subsequence : forall f c s off n, Den f c s ->
    Den (S (S (f + off))) (PSubsequence (AP c) (AV (VInt (Z.of_nat off))) (AV (VInt (Z.of_nat n))) 0 []) (sem_subsequence off n s).
  Proof. exact (subsequence_den binop LMAX). Qed.

  (* PConcatenate([p0, p1, ...]), at least one input, all finite: their values one after the other (inputs without
     values are skipped; one unit of fuel per input that ends) *)
  Theorem C10_concatenate : forall f c0 l0 cs ls, Den f c0 (Fin l0) -> Forall2 (fun c l => Den f c (Fin l)) cs ls ->
    Den (S (f + List.length cs + 1)) (PConcatenate (AL (map AP (c0 :: cs))) 0) (Fin (ref_concatenate (l0 :: ls))).
  Proof. exact (concatenate_den binop LMAX). Qed.

  (* Operands that the class RESETS (PReverse and PPingPong in their constructor, PReset in __next__) have to be objects
     that reset() rewinds: [Resets f c] — c is as new, and reset() after any number of calls gives c back.  Property C04
     proves exactly that of every object of its fragment [rpat] *)
  Theorem C10_resettable : forall f c, rpat c -> reset binop LMAX f c = Yield c -> Resets binop LMAX f c.
  Proof. exact (Resets_rpat binop LMAX). Qed.

  (* PReverse(p): the constructor succeeds (fuel F above the operand's fuel and the number of values: list(p) drains p
     twice) and the object denotes the values of p in reverse order *)
  Theorem C10_reverse : forall f c l F, Den f c (Fin l) -> Resets binop LMAX f c -> (f + List.length l + 3 <= F)%nat ->
    exists p, construct binop LMAX F CReverse [AP c] = Yield p /\ forall g, Den (S g) p (Fin (ref_reverse l)).
  Proof. exact (reverse_den binop LMAX). Qed.

  (* PPingPong(p, count): the constructor succeeds (p has at most Pattern.LENGTH_MAX values) and the object denotes
     p forwards and back count times, ending on the first value; an input of fewer than two values is played as it is *)
  Theorem C10_pingpong : forall f c l count F, Den f c (Fin l) -> Resets binop LMAX f c -> (List.length l <= LMAX)%nat -> (f + 3 <= F)%nat ->
    exists p, construct binop LMAX F CPingPong [AP c; AV (VInt (Z.of_nat count))] = Yield p /\
              forall g, Den (S g) p (Fin (ref_pingpong count l)).
  Proof. exact (pingpong_den binop LMAX). Qed.

  (* PReset(p, trigger), trigger a stream of ints and rests: output j is value number (ridx trigger j) of p — the index
     restarts at 0 whenever the trigger is positive — until the trigger ends.  Stated call by call, because over a
     finite p the outputs may be StopIteration and then values again (after the next restart) *)
  Theorem C10_reset : forall f c s ct st, Den f c s -> Resets binop LMAX f c -> Den f ct st ->
    (forall j v, at_ st j = Yield v -> v = VNone \/ exists t, v = VInt t) ->
    forall j, out binop LMAX (S (S f)) j (PReset (AP c) (AP ct)) =
              match at_ st j with Yield _ => at_ s (ridx st j) | o => o end.
  Proof. exact (reset_out binop LMAX). Qed.

  (* ... and as a denotation when p is endless *)
  Theorem C10_reset_endless : forall f c g ct st, Den f c (Inf g) -> Resets binop LMAX f c -> Den f ct st ->
    (forall j v, at_ st j = Yield v -> v = VNone \/ exists t, v = VInt t) ->
    Den (S (S f)) (PReset (AP c) (AP ct)) (sem_reset g st).
  Proof. exact (reset_den binop LMAX). Qed.
End AnyEngine.
Print Assumptions C10_concatenate.
Print Assumptions C10_resettable.
Print Assumptions C10_reverse.
Print Assumptions C10_pingpong.
Print Assumptions C10_reset.
Print Assumptions C10_reset_endless.
Print Assumptions C10_pad_to_multiple.
Print Assumptions C10_loop.
Print Assumptions C10_subsequence.
Print Assumptions C10_fuel_irrelevant.
Print Assumptions C10_impulse.
Print Assumptions C10_counter.
Print Assumptions C10_counter_endless.
Print Assumptions C10_wrap.
Print Assumptions C10_collapse.
Print Assumptions C10_norepeats.

(* non-vacuity: concrete operand objects meet the hypotheses (by the theorems of Props/C10.v), and the model run
   on the constructor expression gives the closed form *)
Example C10_impulse_nonvacuous :
  outs 40 7 (ECall CImpulse [EV (VInt 3)]) = map (fun i => Yield (ref_impulse 3 i)) (seq 0 7)
  /\ map (ref_impulse 3) (seq 0 7) = map zi [1; 0; 0; 1; 0; 0; 1].
Proof. split; vm_compute; reflexivity. Qed.

Example C10_counter_nonvacuous :
  Den Val.binop 100 2 (PSequence (AL (map AV (map zi [1; 0; 0; 1; 1; -2; 3]))) (AV (VInt 1)) 0 0) (Fin (map zi [1; 0; 0; 1; 1; -2; 3]))
  /\ ref_counter_from 0 0 [1; 0; 0; 1; 1; -2; 3] = map zi [1; 1; 1; 2; 2; 2; 3]
  /\ outs 40 8 (ECall CCounter [EP (seq_ [1; 0; 0; 1; 1; -2; 3] 1)]) = yields (ref_counter_from 0 0 [1; 0; 0; 1; 1; -2; 3])
  /\ outs 40 6 (ECall CCounter [EP (ECall CImpulse [EV (VInt 2)])])
     = map (fun j => Yield (nth j (ref_counter_from 0 0 (map (fun i => if Z.of_nat i mod 2 =? 0 then 1 else 0) (seq 0 (S j)))) VNone)) (seq 0 6).
Proof.
  split; [exact (C10_sequence Val.binop 100 0 (map zi [1; 0; 0; 1; 1; -2; 3]) 1)|].
  repeat split; vm_compute; reflexivity.
Qed.

Example C10_wrap_nonvacuous :
  (forall v, In v [5; 8; 11; -27; 40] -> Z.abs (v - 0) <= Z.of_nat 4 * (10 - 0))
  /\ outs 40 6 (ECall CWrap [EP (seq_ [5; 8; 11; -27; 40] 1); EV (VInt 0); EV (VInt 10)])
     = yields (map (wrapv 0 10) (map zi [5; 8; 11; -27; 40]))
  /\ map (wrapv 0 10) (map zi [5; 8; 11; -27; 40]) = map zi [5; 8; 1; 3; 0].
Proof.
  split; [intros v [<-|[<-|[<-|[<-|[<-|[]]]]]]; cbn; lia|]. split; vm_compute; reflexivity.
Qed.

Example C10_collapse_nonvacuous :
  Den Val.binop 100 2 (PSequence (AL (map AV [zi 1; VNone; VNone; zi 2; VNone])) (AV (VInt 1)) 0 0) (Fin [zi 1; VNone; VNone; zi 2; VNone])
  /\ ref_collapse [zi 1; VNone; VNone; zi 2; VNone] = [zi 1; zi 2]
  /\ outs 40 3 (ECall CCollapse [EP (ECall CSequence [EL [EV (VInt 1); EV VNone; EV VNone; EV (VInt 2); EV VNone]; EV (VInt 1)])])
     = yields [zi 1; zi 2].
Proof.
  split; [exact (C10_sequence Val.binop 100 0 [zi 1; VNone; VNone; zi 2; VNone] 1)|]. split; vm_compute; reflexivity.
Qed.

Example C10_norepeats_nonvacuous :
  (forall v, In v (map zi [1; 1; 2; 2; 2; 1]) -> py_eq v (VInt MAXSIZE) = false)
  /\ ref_norepeats_from (VInt MAXSIZE) (map zi [1; 1; 2; 2; 2; 1]) = map zi [1; 2; 1]
  /\ outs 40 4 (ECall CNoRepeats [EP (seq_ [1; 1; 2; 2; 2; 1] 1)]) = yields (map zi [1; 2; 1]).
Proof.
  split; [intros v H; cbn in H; repeat (destruct H as [<-|H]; [vm_compute; reflexivity|]); destruct H|].
  split; vm_compute; reflexivity.
Qed.

Example C10_pad_to_multiple_nonvacuous :
  Den Val.binop 100 2 (PSequence (AL (map AV (map zi [1; 2; 3]))) (AV (VInt 1)) 0 0) (Fin (map zi [1; 2; 3]))
  /\ ref_pad_to_multiple 4 2 (map zi [1; 2; 3]) = map zi [1; 2; 3] ++ repeat VNone 5
  /\ outs 40 9 (ECall CPadToMultiple [EP (seq_ [1; 2; 3] 1); EV (VInt 4); EV (VInt 2)]) = yields (ref_pad_to_multiple 4 2 (map zi [1; 2; 3])).
Proof. split; [exact (C10_sequence Val.binop 100 0 (map zi [1; 2; 3]) 1)|]. split; vm_compute; reflexivity. Qed.

Example C10_loop_nonvacuous :
  ref_loop 3 (map zi [1; 2]) = map zi [1; 2; 1; 2; 1; 2]
  /\ outs 40 7 (ECall CLoop [EP (seq_ [1; 2] 1); EV (VInt 3)]) = yields (ref_loop 3 (map zi [1; 2]))
  /\ outs 40 2 (ECall CLoop [EP (seq_ [] 1); EV (VInt 3)]) = [Stop; Stop].
Proof. repeat split; vm_compute; reflexivity. Qed.

Example C10_subsequence_nonvacuous :
  ref_subsequence 1 2 (map zi [1; 2; 3; 4]) = map zi [2; 3]
  /\ outs 40 3 (ECall CSubsequence [EP (seq_ [1; 2; 3; 4] 1); EV (VInt 1); EV (VInt 2)]) = yields (map zi [2; 3])
  /\ outs 40 4 (ECall CSubsequence [EP (ECall CImpulse [EV (VInt 2)]); EV (VInt 3); EV (VInt 3)]) = yields (map zi [0; 1; 0])
  /\ outs 40 2 (ECall CSubsequence [EP (seq_ [1; 2; 3] 1); EV (VInt 2); EV (VInt 5)]) = yields (map zi [3]).
Proof. repeat split; vm_compute; reflexivity. Qed.

Example C10_concatenate_nonvacuous :
  ref_concatenate [map zi [1; 2]; []; map zi [3; 4]] = map zi [1; 2; 3; 4]
  /\ outs 40 5 (ECall CConcatenate [EL [EP (seq_ [1; 2] 1); EP (seq_ [] 1); EP (seq_ [3; 4] 1)]]) = yields (map zi [1; 2; 3; 4]).
Proof. split; vm_compute; reflexivity. Qed.

(* a PSequence over scalars is an object of the C04 fragment and as new: it meets the hypotheses of the three theorems *)
Example C10_resettable_nonvacuous :
  let c := PSequence (AL (map AV (map zi [1; 4; 9]))) (AV (VInt 1)) 0 0 in
  Den Val.binop 100 5 c (Fin (map zi [1; 4; 9])) /\ Resets Val.binop 100 5 c.
Proof.
  cbv zeta. split; [exact (C10_sequence Val.binop 100 3 (map zi [1; 4; 9]) 1)|].
  apply C10_resettable; [apply RP_leaf; reflexivity | vm_compute; reflexivity].
Qed.

Example C10_reverse_nonvacuous :
  ref_reverse (map zi [1; 4; 9]) = map zi [9; 4; 1]
  /\ outs 40 4 (ECall CReverse [EP (seq_ [1; 4; 9] 1)]) = yields (map zi [9; 4; 1]).
Proof. split; vm_compute; reflexivity. Qed.

Example C10_pingpong_nonvacuous :
  ref_pingpong 2 (map zi [1; 4; 9]) = map zi [1; 4; 9; 4; 1; 4; 9; 4; 1]
  /\ outs 40 10 (ECall CPingPong [EP (seq_ [1; 4; 9] 1); EV (VInt 2)]) = yields (ref_pingpong 2 (map zi [1; 4; 9]))
  /\ outs 40 6 (ECall CPingPong [EP (seq_ [1; 4] 1); EV (VInt 2)]) = yields (map zi [1; 4; 1; 4; 1])
  /\ outs 40 2 (ECall CPingPong [EP (seq_ [5] 1); EV (VInt 2)]) = yields (map zi [5]).
Proof. repeat split; vm_compute; reflexivity. Qed.

(* PReset(PSeries(0, 1, 100), PImpulse(4)) = 0 1 2 3 0 1 2 3 ... (the documented example) *)
Example C10_reset_nonvacuous :
  map (ridx (Inf (ref_impulse 4))) (seq 0 10) = [0; 1; 2; 3; 0; 1; 2; 3; 0; 1]%nat
  /\ outs 40 10 (ECall CReset [EP (ECall CSeries [EV (VInt 0); EV (VInt 1); EV (VInt 100)]); EP (ECall CImpulse [EV (VInt 4)])])
     = map (fun j => Yield (zi (Z.of_nat (ridx (Inf (ref_impulse 4)) j)))) (seq 0 10).
Proof. split; vm_compute; reflexivity. Qed.

(* Props/C09More.v — property C09, stickiness of StopIteration for the classes Props/C09.v left open
   (see the comment above C09_sticky_stable_state): PDict, PArrayIndex over a literal list, PSequence with pattern items, PRound
   with pattern arguments.  Lemmas in Pat/StickyProofs2.v.

   gpat p   the fragment fpat of Props/C09.v (C09_sticky_transformers) with, in addition and nested anywhere:
            PSequence([items], repeats) - items scalars or patterns of the fragment, repeats a scalar;
            PRound(input, *args, **kwargs) - input, arguments and keyword arguments scalars or patterns of the fragment;
            PDict({k: v}) - values scalars or patterns of the fragment;
            PArrayIndex([items], index) - items and index scalars or patterns of the fragment (every PArrayIndex is sticky
            since the repair C09-parrayindex-revives: the object stays exhausted once its __next__ has raised StopIteration).
   quiet f2 p': no later next() returns a value, at ANY fuel f2 of the model; binop arbitrary but never StopIteration. *)
From Isobar Require Import Base.Prelude Pat.Val Pat.Syntax Pat.Step Pat.StepProofs Pat.IterProofs Pat.StickyProofs Pat.StickyProofs2.
From Coq Require Import String QArith.
Open Scope Z_scope.

Section AnyOperators.
  Variable binop : op -> val -> val -> outcome val.
  Variable LMAX : nat.

  (* the full statement quoted above C09_sticky_stable_state on the extended fragment: once next() has raised
     StopIteration - an item of the sequence ended, the repeats ran out, an argument of PRound ended, a value of the dict
     ended, the selected item or the index ended - no later next() returns a value *)
  Theorem C09_more_sticky : forall f p p',
    (forall o x y, binop o x y <> Stop) ->
    gpat p -> step binop LMAX f p = (Stop, p') -> forall f2, quiet binop LMAX f2 p'.
  Proof. intros f p p' Hns. apply (proj1 (gpat_quiet binop LMAX Hns f)). Qed.

  (* the fragment is closed under next() and contains the fragment of C09_sticky_transformers *)
  Theorem C09_more_fragment_closed : forall f p, gpat p -> gpat (snd (step binop LMAX f p)).
  Proof. exact (gpat_step_closed binop LMAX). Qed.

  Theorem C09_more_fragment_extends : forall p, fpat p -> gpat p.
  Proof. exact fpat_gpat. Qed.
End AnyOperators.
Print Assumptions C09_more_sticky.
Print Assumptions C09_more_fragment_closed.
Print Assumptions C09_more_fragment_extends.

Theorem C09_more_sticky_python : forall LMAX f p p',
  gpat p -> step Val.binop LMAX f p = (Stop, p') -> forall f2, quiet Val.binop LMAX f2 p'.
Proof. intros LMAX f p p'. apply C09_more_sticky. exact val_binop_no_stop. Qed.
Print Assumptions C09_more_sticky_python.

Definition seq_ (l : list Z) (rep : Z) : pat := PSequence (AL (map (fun z => AV (VInt z)) l)) (AV (VInt rep)) 0 0.
Definition ser (a n : Z) : pat := PSeries (VInt a) (VInt a) (AV (VInt 1)) (AV (VInt n)) 0.

Ltac gm :=
  cbv beta; cbn [snd];
  match goal with
  | |- garg (AV _) => apply GA_val
  | |- garg (AP _) => apply GA_pat; gm
  | |- Forall _ [] => constructor
  | |- Forall _ (_ :: _) => constructor; [gm|gm]
  | |- gpat (PSequence (AL _) (AV _) _ _) => apply GP_seq; gm
  | |- gpat (PSeries _ _ _ _ _) => apply GP_counter; reflexivity
  | |- gpat (PArrayIndex (AL _) _ _) => apply GP_arrayindex_list; gm
  | |- gpat (PMap _ _ _ _) => apply GP_map; gm
  | |- gpat (PDict _) => apply GP_dict; gm
  | |- gpat (PBinOp _ _ _) => apply GP_binop; gm
  | |- _ => idtac
  end.

(* a PSequence whose first item ends; PRound whose digits argument ends; a PDict with a value that ends; PArrayIndex over a
   literal list whose selected item ends / whose index ends; a sum of two of them *)
Definition ex_seq : pat := PSequence (AL [AP (seq_ [1] 1); AV (VInt 5)]) (AV (VInt 3)) 0 0.
Definition ex_round : pat := PMap (AP (ser 1 9)) FRound [AP (seq_ [0] 2)] [].
Definition ex_dict : pat := PDict (AD [("a"%string, AP (seq_ [1; 2] 1)); ("b"%string, AP (ser 0 9))]).
Definition ex_ai_fixed : pat := PArrayIndex (AL [AP (seq_ [4; 5] 1); AV (VInt 9)]) (AV (VInt 0)) false.
Definition ex_ai_scalars : pat := PArrayIndex (AL [AV (VInt 7); AV (VInt 8)]) (AP (seq_ [0; 1; 1] 1)) false.
Definition ex_sum : pat := PBinOp OAdd (AP ex_seq) (AP (PMap (AP (ser 1 9)) FRound [AP (seq_ [0] 5)] [])).

Example C09_more_nonvacuous :
  gpat ex_seq /\ gpat ex_round /\ gpat ex_dict /\ gpat ex_ai_fixed /\ gpat ex_ai_scalars /\ gpat ex_sum /\
  fst (outputs Val.binop 100 30 5 ex_seq) = [Yield (VInt 1); Yield (VInt 5); Stop; Stop; Stop] /\
  fst (outputs Val.binop 100 30 5 ex_round) = [Yield (VInt 1); Yield (VInt 2); Stop; Stop; Stop] /\
  fst (outputs Val.binop 100 30 4 ex_dict) =
    [Yield (VDict [("a"%string, VInt 1); ("b"%string, VInt 0)]); Yield (VDict [("a"%string, VInt 2); ("b"%string, VInt 1)]); Stop; Stop] /\
  fst (outputs Val.binop 100 30 5 ex_ai_fixed) = [Yield (VInt 4); Yield (VInt 5); Stop; Stop; Stop] /\
  fst (outputs Val.binop 100 30 6 ex_ai_scalars) = [Yield (VInt 7); Yield (VInt 8); Yield (VInt 8); Stop; Stop; Stop] /\
  fst (outputs Val.binop 100 30 6 ex_sum) = [Yield (VInt 2); Yield (VInt 7); Stop; Stop; Stop; Stop].
Proof.
  repeat match goal with |- _ /\ _ => split end;
    try (unfold ex_sum, ex_seq, ex_round, ex_dict, ex_ai_fixed, ex_ai_scalars, seq_, ser; cbn [map]; gm; fail);
    vm_compute; reflexivity.
Qed.

(* the theorem applied: after the StopIteration of ex_seq (third call) the object is quiet at every fuel *)
Example C09_more_applied :
  let p2 := snd (step Val.binop 100 30 (snd (step Val.binop 100 30 ex_seq))) in
  forall f2, quiet Val.binop 100 f2 (snd (step Val.binop 100 30 p2)).
Proof.
  intros p2. apply (C09_more_sticky_python 100 30 p2).
  - unfold p2. repeat apply (gpat_step_closed Val.binop 100). unfold ex_seq, seq_; cbn [map]; gm.
  - assert (E : fst (step Val.binop 100 30 p2) = Stop) by (vm_compute; reflexivity).
    destruct (step Val.binop 100 30 p2) as [o q]. cbn [fst snd] in *. subst o. reflexivity.
Qed.

(* EVERY PArrayIndex IS STICKY.  Before the repair C09-parrayindex-revives (findings/C09-parrayindex-revives.diff) PArrayIndex over a
   literal list with pattern items AND a pattern index yielded values again after a StopIteration: the item that had ended
   raised StopIteration, the next index value selected an item that was still alive (1, StopIteration, 5, 6).  The object now
   carries an `exhausted` flag (field of the model's constructor) set when __next__ raises StopIteration and cleared by reset();
   whatever its list and index are - no hypothesis on them at all - a StopIteration is final. *)
Theorem C09_more_arrayindex_sticky : forall binop LMAX f list index e p',
  step binop LMAX f (PArrayIndex list index e) = (Stop, p') ->
  (exists l' i', p' = PArrayIndex l' i' true) /\ forall f2, quiet binop LMAX f2 p'.
Proof.
  intros binop LMAX f list index e p' H. destruct (arrayindex_stop binop LMAX _ _ _ _ _ H) as [l' [i' ->]].
  split; [eauto|]. apply arrayindex_exhausted_quiet.
Qed.
Print Assumptions C09_more_arrayindex_sticky.

Definition ex_revives : pat := PArrayIndex (AL [AP (seq_ [1] 1); AP (seq_ [5; 6; 7] 1)]) (AP (seq_ [0; 0; 1; 1] 1)) false.
Example C09_more_arrayindex_stays_exhausted :
  gpat ex_revives /\
  fst (outputs Val.binop 100 30 6 ex_revives) = [Yield (VInt 1); Stop; Stop; Stop; Stop; Stop] /\
  reset Val.binop 100 30 (snd (outputs Val.binop 100 30 6 ex_revives)) = Yield ex_revives.
Proof.
  split; [unfold ex_revives, seq_; cbn [map]; gm|]. split; vm_compute; reflexivity.
Qed.

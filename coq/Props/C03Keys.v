(* Props/C03Keys.v — property C03, layer file: the whitelist of event keys of the source under test
   (ALL_EVENT_PARAMETERS, regenerated into Generated/TablesC03.v on every run) IS the documented list of event keys
   (Sched/EventKeys.v, written by hand from the documentation).  C03_reject_unknown_key* (Props/C03.v) speak about the
   generated table; with the theorems below they speak about the DOCUMENTED keys: a key the documentation does not know is
   rejected, whatever the source's list says.  If the source's list gains or loses a key, this file no longer compiles: a
   broken proof obligation (the core model still builds, so the check goes on to find a failing input). *)
From Isobar Require Import Base.Prelude Tonal.Key Generated.Tables Generated.TablesC03 Sched.Event Sched.EventKeys
  Sched.EventSpec Sched.EventProofs Sched.EventCfg Sched.EventCfgProofs.
From Coq Require Import String QArith.
Local Open Scope Z_scope.

Definition same_keys (a b : list string) : bool :=
  forallb (fun k => existsb (String.eqb k) b) a && forallb (fun k => existsb (String.eqb k) a) b.

(* the generated table and the documented list have the same members (complete comparison by computation) *)
Theorem C03_parameter_table_is_documented : same_keys all_event_parameters documented_event_keys = true.
Proof. vm_compute. reflexivity. Qed.
Print Assumptions C03_parameter_table_is_documented.

Lemma existsb_eqb_in k l : existsb (String.eqb k) l = true <-> In k l.
Proof.
  rewrite existsb_exists. split.
  - intros [x [Hin E]]. apply String.eqb_eq in E. subst x. exact Hin.
  - intros H. exists k. split; [exact H|apply String.eqb_refl].
Qed.

(* ... so "known to the source" and "documented" are the same predicate on ALL strings *)
Theorem C03_known_iff_documented : forall k, known_param k = documented_key k.
Proof.
  intros k. pose proof C03_parameter_table_is_documented as H. unfold same_keys in H.
  apply andb_true_iff in H as [A B]. rewrite forallb_forall in A, B.
  unfold known_param, documented_key.
  destruct (existsb (String.eqb k) all_event_parameters) eqn:E1; destruct (existsb (String.eqb k) documented_event_keys) eqn:E2; try reflexivity.
  - apply existsb_eqb_in in E1. specialize (A k E1). congruence.
  - apply existsb_eqb_in in E2. specialize (B k E2). congruence.
Qed.
Print Assumptions C03_known_iff_documented.

(* an event dictionary with a key the DOCUMENTATION does not know is rejected with ValueError and nothing is played - as the
   only event of a track and at any position of a stream, in any state, whatever the timeline's defaults are *)
Theorem C03_reject_undocumented_key : forall defs d k v,
  In (k, v) d -> documented_key k = false ->
  resolve defs d = Raise ValueError
  /\ (forall N muted n rest, run_track N muted (S n) ((defs, d) :: rest) = ([], Raise ValueError))
  /\ (forall N muted ch n t st rest, c_stream st = d :: rest -> Qle_bool (c_next st) (t # N) = true ->
        exists offs, cplay N muted ch (S n) t st = (tag t offs, Raise ValueError) /\ only_note_offs offs).
Proof.
  intros defs d k v Hin Hk. rewrite <- C03_known_iff_documented in Hk.
  pose proof (reject_unknown defs d k v Hin Hk) as R.
  split; [exact R|]. split; [intros; apply run_track_raise; [exact R|reflexivity]|].
  intros N muted ch n t st rest Hs Hd.
  apply (cplay_reject N muted ch n t st d rest ValueError Hs Hd); [|reflexivity].
  exact (reject_unknown _ d k v Hin Hk).
Qed.
Print Assumptions C03_reject_undocumented_key.

(* non-vacuity: the names of the event TYPES and of the interpolation modes, and near-misses of real keys, are not
   documented keys; every documented key is accepted *)
Example C03_keys_nonvacuous :
  map documented_key ["osc"; "set"; "trigger"; "supercollider"; "unknown"; "none"; "linear"; "cosine"; "Note"; "notes"; "osc_"; "dur_"; "foo"; ""]%string
    = [false; false; false; false; false; false; false; false; false; false; false; false; false; false]
  /\ forallb documented_key documented_event_keys = true
  /\ List.length documented_event_keys = 33%nat.
Proof. vm_compute. repeat split. Qed.

(* Props/C05TickSrc.v — property C05, the action phase of Timeline.tick as translated from the SOURCE TEXT: `for action in
   self.actions[:]: if round(action.time - self.current_time, 8) <= 0: action.function(); self.actions.remove(action)`
   (Generated/TablesTrack.v src_timeline_tick_loop2; relation to the model's phase_actions: Sched/ModelSrcTick.v src_loop2_is;
   what a stored closure does is Model.v fire_action (trusted); the due test is rendered exact, Base/Round8.v r8_diff_compare,
   its binary64 side is Props/C05Float.v). *)
From Isobar Require Import Base.Prelude Sched.Model Sched.QuantizeProofs Sched.SrcGlue Generated.TablesTrack Sched.ModelSrc Sched.ModelSrcTick Props.C05.
Local Open Scope Z_scope.

(* after the loop exactly the actions that are not yet due are left, in request order; the clock is untouched; a track
   for which a start was due plays the stream of the LAST such request *)
Theorem C05_src_action_phase : forall cfg tl calls,
  let tl' := fst (fold_left (src_timeline_tick_loop2 cfg) (actions tl) (tl, calls)) in
  actions tl' = filter (not_due (now tl)) (actions tl)
  /\ now tl' = now tl
  /\ map t_id (tracks tl') = map t_id (tracks tl)
  /\ forall id, find_track id (tracks tl') = option_map (started_with (last_start (now tl) id (actions tl) None)) (find_track id (tracks tl)).
Proof.
  intros cfg tl calls.
  pose proof (src_loop2_is cfg (actions tl) [] (set_actions tl []) calls ltac:(constructor)) as L.
  cbn [app actions set_actions] in L. rewrite app_nil_r in L.
  replace (set_actions (set_actions tl []) (actions tl)) with tl in L by (destruct tl; reflexivity).
  cbv zeta. rewrite L.
  pose proof (phase_actions_spec (actions tl) (set_actions tl []) [] calls) as S.
  destruct (phase_actions (set_actions tl []) (actions tl) [] calls) as [[tl2 kept] c2].
  destruct S as [K [A [Nw [_ [Ids Fd]]]]]. cbn [fst actions set_actions now tracks] in *.
  rewrite A, K, app_nil_r. repeat split; assumption.
Qed.
Print Assumptions C05_src_action_phase.

Example C05_src_action_phase_nonvacuous :
  let cfg := mkConfig 1 [] 0 0 false false None 5 in
  let tl := mkTL 10 [] [ARelease 10 60 0; ARelease 11 61 0; ARelease 3 62 1; ARelease 10 60 0] 0 0 0 0 in
  fold_left (src_timeline_tick_loop2 cfg) (actions tl) (tl, []) = (set_actions tl [ARelease 11 61 0], [CNoteOff 60 0; CNoteOff 62 1; CNoteOff 60 0]).
Proof. vm_compute. reflexivity. Qed.

(* Props/C05TickSrc.v — property C05, the action phase of Timeline.tick as translated from the SOURCE TEXT: `for action in
   self.actions[:]: if round(action.time - self.current_time, 8) <= 0: action.function(); self.actions.remove(action)`
   (Generated/TablesTrack.v src_timeline_tick_loop2; relation to the model's phase_actions: Sched/ModelSrcTick.v src_loop2_is;
   what a stored closure does is Model.v fire_action (trusted); the due test is rendered exact, Base/Round8.v r8_diff_compare,
   its binary64 side is Props/C05Float.v). *)
From Isobar Require Import Base.Prelude Sched.Model Sched.TickFrame Sched.QuantizeProofs Sched.SrcGlue Generated.TablesTrack Sched.ModelSrc Sched.ModelSrcTick Props.C05.
Local Open Scope Z_scope.

(* after the loop exactly the actions that are not yet due are left, in request order; the clock is untouched; a track
   for which a start was due plays the stream of the LAST such request *)
Theorem C05_src_action_phase : forall cfg tl calls,
  let tl' := fst (fold_left (src_timeline_tick_loop2 cfg) (actions tl) (tl, calls)) in
  actions tl' = filter (not_due (now tl)) (actions tl)
  /\ now tl' = now tl
  /\ map t_id (tracks tl') = map t_id (tracks tl)
  /\ forall id, find_track id (tracks tl') = option_map (started_with (last_start (now tl) id (actions tl) None)) (find_track id (tracks tl)).
Proof.
  intros cfg tl calls.
  pose proof (src_loop2_is cfg (actions tl) [] (set_actions tl []) calls ltac:(constructor)) as L.
  cbn [app actions set_actions] in L. rewrite app_nil_r in L.
  replace (set_actions (set_actions tl []) (actions tl)) with tl in L by (destruct tl; reflexivity).
  cbv zeta. rewrite L.
  pose proof (phase_actions_spec (actions tl) (set_actions tl []) [] calls) as S.
  destruct (phase_actions (set_actions tl []) (actions tl) [] calls) as [[tl2 kept] c2].
  destruct S as [K [A [Nw [_ [Ids Fd]]]]]. cbn [fst actions set_actions now tracks] in *.
  rewrite A, K, app_nil_r. repeat split; assumption.
Qed.
Print Assumptions C05_src_action_phase.

(* Track.update as translated from the source: a deferred request (quantize or delay non-zero after the defaults and the
   device latency) leaves the track as it is - old stream, clock, position, pending note-offs - and appends ONE start action
   at the scheduled time; an immediate one (both zero) runs Track.start inside the call and requests nothing *)
Theorem C05_src_update_request : forall cfg tl t tr s q d count, find_track t (tracks tl) = Some tr ->
  let '(tl1, tr1) := src_track_update cfg tl tr s q d count in
  (immediate cfg tl q d = false ->
     actions tl1 = actions tl ++ [AStart (sched_time (now tl) (res_q tl q) (res_d cfg tl d)) t s]
     /\ tr1 = with_count tr count /\ now tl1 = now tl)
  /\ (immediate cfg tl q d = true -> actions tl1 = actions tl /\ tr1 = src_track_start (with_count tr count) s).
Proof.
  intros cfg tl t tr s q d count F. rewrite src_track_update_is.
  pose proof (C05_update_request cfg tl t tr s q d count F) as H. cbv zeta in H. cbn [exec_op] in H. rewrite F in H.
  destruct (track_update cfg tl tr s q d count) as [tl1 tr1] eqn:U. cbn [fst] in H. destruct H as [H1 [H2 _]].
  pose proof (track_update_sched cfg tl tr s q d count) as S. rewrite U in S. destruct S as [T [_ [I0 _]]].
  assert (I : t_id tr1 = t) by (rewrite I0; apply (NoteOffProofs.find_track_id _ _ _ F)).
  assert (Q : find_track t (put_track tr1 (tracks tl1)) = Some tr1).
  { rewrite <- I. apply find_put_same with (tr := tr). rewrite I, T. exact F. }
  split.
  - intros Im. destruct (H1 Im) as [A [B C]]. cbn [upd_track set_tracks actions tracks now] in A, B, C. split; [exact A|]. split; [|exact C].
    congruence.
  - intros Im. destruct (H2 Im) as [A B]. cbn [upd_track set_tracks actions tracks] in A, B. split; [exact A|].
    rewrite src_track_start_is. congruence.
Qed.
Print Assumptions C05_src_update_request.

Example C05_src_action_phase_nonvacuous :
  let cfg := mkConfig 1 [] 0 0 false false None 5 in
  let tl := mkTL 10 [] [ARelease 10 60 0; ARelease 11 61 0; ARelease 3 62 1; ARelease 10 60 0] 0 0 0 0 in
  fold_left (src_timeline_tick_loop2 cfg) (actions tl) (tl, []) = (set_actions tl [ARelease 11 61 0], [CNoteOff 60 0; CNoteOff 62 1; CNoteOff 60 0]).
Proof. vm_compute. reflexivity. Qed.

(* Props/C20.v — property C20 (stub while the harness is brought up) *)
From Isobar Require Import Base.Prelude Notation.Lexer Notation.Parser Notation.PSeq.

Example C20_documented_example :
  parse (fun _ => false) [49;32;50;32;91;49;48;32;49;49;93] = Ok [Leaf (VInt 1); Leaf (VInt 2); Node [Leaf (VInt 10); Leaf (VInt 11)]].
Proof. vm_compute. reflexivity. Qed.

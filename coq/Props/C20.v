(* Props/C20.v — property C20: string notation parses to the structure its brackets describe.
   Only the property theorems live here; each is closed by lemmas of Notation/ParserProofs.v and
   Notation/PSeqProofs.v.  Model: Notation/Lexer.v (tokenizer: the regular expression incl. backtracking and \b,
   lstrip, token -> value), Notation/Parser.v (parse_notation as written, Pattern.pattern's fallback, the
   formatter), Notation/PSeq.v (PSequence.__next__ on the parsed tree).

   [uw] is the Unicode "is alphanumeric" classification of non-ASCII code points (environment data, see
   Lexer.v); every theorem holds for all [uw].  [parse] is the repaired parser (a ']' below depth 0 raises
   ValueError); [parse_pinned] is the code as pinned (C20_pinned_defect). *)
From Isobar Require Import Base.Prelude Notation.Lexer Notation.Parser Notation.ParserProofs.
From Isobar Require Import Notation.PSeq Notation.PSeqProofs Tonal.Key Generated.Tables.
From Coq Require Import String Ascii.
Local Notation length := List.length (only parsing).

(** ** Round trip: formatting any nested sequence and parsing it back is the identity.
    For every nested sequence g of unbounded depth and width (top level non-empty; nested groups may be
    empty), whose atoms are arbitrary ints (negative ones included), decimal literals -?[0-9]+.[0-9]+ and note
    names [a-g]#?[0-9], and for EVERY choice of separators made of whitespace characters — a separator may even
    be empty next to a bracket or before a minus sign — the parser returns exactly g: same atoms in the same
    order with the same nesting, ints as ints (by value), decimals as floats (the literal is kept), note
    names as strings. *)
Theorem C20_roundtrip : forall uw g seps,
  space_not_word uw -> g <> [] -> forallb wf_tree g = true ->
  seps_ok (map tok_text (flatten g)) seps = true ->
  parse uw (format seps g) = Ok g.
Proof. exact roundtrip. Qed.
Print Assumptions C20_roundtrip.

(* the usual case: at least one whitespace character after every token *)
Theorem C20_roundtrip_spaced : forall uw g seps,
  space_not_word uw -> g <> [] -> forallb wf_tree g = true ->
  length seps = length (flatten g) ->
  Forall (fun sp => sp <> [] /\ forallb is_space sp = true) seps ->
  parse uw (format seps g) = Ok g.
Proof.
  intros uw g seps Hu Hg Hw Hl Hs. apply roundtrip; auto.
  apply seps_ok_nonempty; [rewrite map_length; exact Hl|exact Hs].
Qed.
Print Assumptions C20_roundtrip_spaced.

Example C20_roundtrip_nonvacuous :
  let g := [Leaf (VInt 1); Leaf (VInt (-2)); Node [Leaf (VInt 10); Node []];
            Node [Leaf (VStr [99; 35; 52]); Node [Leaf (VFloat [51; 48; 46; 49]); Leaf (VFloat [45; 48; 46; 53])]]] in
  let seps := [[32]; [32; 9]; []; [32]; []; []; [10]; []; [32; 32]; []; []; []; []; [32]] in
  forallb wf_tree g = true /\ seps_ok (map tok_text (flatten g)) seps = true /\
  format seps g = [49; 32; 45; 50; 32; 9; 91; 49; 48; 32; 91; 93; 93; 10; 91; 99; 35; 52; 32; 32; 91; 51; 48; 46; 49;
                   45; 48; 46; 53; 93; 93; 32] /\
  parse (fun _ => false) (format seps g) = Ok g.
Proof. vm_compute. repeat split; reflexivity. Qed.

(** ** Atoms keep their kind *)
Theorem C20_atom_kinds :
  (forall z, token_to_value (show_int z) = VInt z) /\
  (forall t, float_text t = true -> token_to_value t = VFloat t) /\
  (forall t, note_text t = true -> token_to_value t = VStr t).
Proof.
  split; [exact ttv_int|]. split; intros t H; unfold token_to_value.
  - destruct (float_text_shape t H) as [_ ->]. rewrite H. reflexivity.
  - destruct (note_text_shape t H) as (_ & -> & ->). reflexivity.
Qed.
Print Assumptions C20_atom_kinds.

(** ** Structure: whatever string is accepted, the result read back as a token stream is exactly the token
    stream of the string — same tokens, same order, same nesting ([flatten] is injective, so this determines
    the result) — and the string is those tokens interleaved with whitespace. *)
Theorem C20_structure : forall uw s g, parse uw s = Ok g ->
  exists toks, tokens_of uw s = (toks, ScanComplete) /\ flatten g = map classify toks
    /\ exists seps, s = render toks seps /\ Forall (fun sp => forallb is_space sp = true) seps.
Proof.
  intros uw s g H. destruct (tokens_of uw s) as [toks e] eqn:ET.
  destruct (parse_spec uw s toks e ET) as [(-> & _ & g' & P & F) | [_ R]]; [|congruence].
  exists toks. split; [reflexivity|]. split; [congruence|].
  destruct (tokenize_spec uw _ _ _ ET) as (seps & E & _ & Hs & _). eauto.
Qed.
Print Assumptions C20_structure.

Theorem C20_flatten_injective : forall g1 g2, flatten g1 = flatten g2 -> g1 = g2.
Proof. exact flatten_inj. Qed.

(** ** Only balanced strings over the token alphabet are accepted *)
Theorem C20_balanced_only : forall uw s g, parse uw s = Ok g ->
  brackets_balanced s = true /\ (forall c, In c s -> token_char c = true \/ is_space c = true).
Proof.
  intros uw s g H. split.
  - destruct (brackets_balanced s) eqn:E; [reflexivity|]. rewrite (unbalanced_rejected uw s E) in H. discriminate.
  - intros c Hin. destruct (token_char c) eqn:Et; [auto|]. destruct (is_space c) eqn:Es; [auto|].
    rewrite (foreign_rejected uw s c Hin Et Es) in H. discriminate.
Qed.
Print Assumptions C20_balanced_only.

(** ** Acceptance is exactly: the string scans completely into tokens and its brackets are balanced *)
Theorem C20_accept_iff : forall uw s,
  (exists g, parse uw s = Ok g) <-> (snd (tokens_of uw s) = ScanComplete /\ brackets_balanced s = true).
Proof.
  intros uw s. destruct (tokens_of uw s) as [toks e] eqn:ET. simpl. split.
  - intros [g H]. destruct (parse_spec uw s toks e ET) as [(-> & B & _) | [_ R]]; [|congruence].
    split; [reflexivity|]. rewrite (scanned_brackets uw s toks ET). exact B.
  - intros [-> B]. rewrite (scanned_brackets uw s toks ET) in B.
    destruct (parse_spec uw s toks _ ET) as [(_ & _ & g & P & _) | [[E | E] _]]; [eauto|discriminate|congruence].
Qed.
Print Assumptions C20_accept_iff.

(** ** Rejection: unbalanced brackets or a foreign character give ValueError ([Reject]) — for every string *)
Theorem C20_reject : forall uw s,
  brackets_balanced s = false \/ (exists c, In c s /\ token_char c = false /\ is_space c = false) ->
  parse uw s = Reject.
Proof.
  intros uw s [H | (c & Hin & Ht & Hs)]; [apply unbalanced_rejected; exact H|].
  eapply foreign_rejected; eauto.
Qed.
Print Assumptions C20_reject.

(* deleting, inserting or swapping ONE bracket anywhere in a string with balanced brackets (in particular in
   any well-formed string) makes it rejected *)
Theorem C20_reject_bracket_edit : forall uw a b c,
  c = ch_open \/ c = ch_close ->
  (brackets_balanced (a ++ b) = true -> parse uw (a ++ c :: b) = Reject) /\
  (brackets_balanced (a ++ c :: b) = true -> parse uw (a ++ b) = Reject) /\
  (brackets_balanced (a ++ c :: b) = true ->
   parse uw (a ++ (if c =? ch_open then ch_close else ch_open) :: b) = Reject).
Proof.
  intros uw a b c Hc. repeat split; intros H; apply unbalanced_rejected.
  - apply edit_insert; assumption.
  - eapply edit_delete; eassumption.
  - eapply edit_flip; [exact H|]. destruct Hc as [-> | ->]; [left|right]; split; reflexivity.
Qed.
Print Assumptions C20_reject_bracket_edit.

Example C20_reject_nonvacuous :
  let wf := [49; 32; 91; 50; 32; 51; 93] (* "1 [2 3]" *) in
  brackets_balanced wf = true /\ parse (fun _ => false) wf = Ok [Leaf (VInt 1); Node [Leaf (VInt 2); Leaf (VInt 3)]] /\
  parse (fun _ => false) [49; 32; 93; 32; 50] = Reject (* "1 ] 2" *) /\
  parse (fun _ => false) [93; 32; 91; 32; 49] = Reject (* "] [ 1" *) /\
  parse (fun _ => false) [49; 32; 120] = Reject (* "1 x" *).
Proof. vm_compute. repeat split; reflexivity. Qed.

(** ** Totality: every string is either parsed or rejected with ValueError — no other exception (the
    `sequence[-1]` of _parser_push never meets an atom or an empty list), and the fuel of the model suffices *)
Theorem C20_total : forall uw s, (exists g, parse uw s = Ok g) \/ parse uw s = Reject.
Proof.
  intros uw s. destruct (tokens_of uw s) as [toks e] eqn:ET.
  destruct (parse_spec uw s toks e ET) as [(_ & _ & g & P & _) | [_ R]]; eauto.
Qed.
Print Assumptions C20_total.

(** ** Event-dictionary values: Pattern.pattern(str) is the parsed sequence when the string parses and the
    string itself as a constant otherwise — in particular for every unbalanced string and every string with a
    foreign character; it never raises *)
Theorem C20_fallback : forall uw s,
  (exists g, parse uw s = Ok g /\ patternify uw s = Ok (PatSeq g)) \/
  (parse uw s = Reject /\ patternify uw s = Ok (PatConst s)).
Proof.
  intros uw s. unfold patternify. destruct (C20_total uw s) as [[g H] | H]; rewrite H; eauto.
Qed.
Print Assumptions C20_fallback.

Theorem C20_fallback_malformed : forall uw s,
  brackets_balanced s = false \/ (exists c, In c s /\ token_char c = false /\ is_space c = false) ->
  patternify uw s = Ok (PatConst s).
Proof. intros uw s H. unfold patternify. rewrite (C20_reject uw s H). reflexivity. Qed.
Print Assumptions C20_fallback_malformed.

(** ** The defect of the pinned code is representable: without the depth < 0 test a stray ']' is accepted *)
Example C20_pinned_defect :
  parse_pinned (fun _ => false) [49; 32; 93; 32; 50] = Ok [Leaf (VInt 1); Leaf (VInt 2)] /\
  parse_pinned (fun _ => false) [93; 32; 91; 32; 49] = Ok [Node []; Leaf (VInt 1)] /\
  parse (fun _ => false) [49; 32; 93; 32; 50] = Reject.
Proof. vm_compute. repeat split; reflexivity. Qed.

(** ** A nested group contributes one element per cycle of its parent.
    [kth k p] is the k-th value (k = 0, 1, ...) the pattern state p yields (PSequence.__next__ with
    Pattern.value on nested patterns), [pattern_of g] the object parse_notation returns.  For every parsed
    sequence g without empty groups, of any depth: on cycle c, position i yields the c-th value of element i —
    an atom yields itself every time (C20_cycle_atom); a nested group is again a [pattern_of] (C20_cycle_nested),
    so it yields on the c-th cycle of its parent what the same theorem says about its own value number c,
    i.e. its (c mod width)-th element, one element per cycle of the parent. *)
Theorem C20_cycle : forall g c i,
  g <> [] -> forallb no_empty_group g = true -> (i < length g)%nat ->
  kth (c * length g + i) (pattern_of g) = kth c (init (nth i g (Leaf (VInt 0)))).
Proof. intros. apply cycle_trees; assumption. Qed.
Print Assumptions C20_cycle.

Theorem C20_cycle_atom : forall c v, kth c (init (Leaf v)) = Some v.
Proof. intros. apply kth_leaf. Qed.

Theorem C20_cycle_nested : forall ch, init (Node ch) = pattern_of ch.
Proof. reflexivity. Qed.

(* nextn(K) returns exactly these values *)
Theorem C20_cycle_nextn : forall K g k, (k < K)%nat -> nth_error (outputs K g) k = kth k (pattern_of g).
Proof. intros. unfold outputs. apply pnextn_kth. assumption. Qed.
Print Assumptions C20_cycle_nextn.

Example C20_cycle_nonvacuous :
  (* '1 -2 [10 11] [c#4 [30.1 -30.2 30.3]]', the string of tests/test_shorthand_notation.py *)
  let s := [49;32;45;50;32;91;49;48;32;49;49;93;32;91;99;35;52;32;91;51;48;46;49;32;45;51;48;46;50;32;51;48;46;51;93;93] in
  exists g, parse (fun _ => false) s = Ok g /\ forallb no_empty_group g = true /\ length g = 4%nat /\
    outputs 16 g = [VInt 1; VInt (-2); VInt 10; VStr [99;35;52]; VInt 1; VInt (-2); VInt 11; VFloat [51;48;46;49];
                    VInt 1; VInt (-2); VInt 10; VStr [99;35;52]; VInt 1; VInt (-2); VInt 11; VFloat [45;51;48;46;50]].
Proof. eexists. vm_compute. repeat split; reflexivity. Qed.

(** ** The note-name tokens are note names: util.note_name_to_midi_note (model: Tonal/Key.v, table regenerated
    from the source) maps every note token the parser can keep to letter + accidental + 12 * (octave + 1) —
    except e#N and b#N, which the tokenizer accepts although isobar has no such name (UnknownNoteName);
    recorded as an observation, the property does not ask for more than keeping the token as a string. *)
Definition string_of_codes (t : str) : string :=
  string_of_list_ascii (map (fun c => ascii_of_nat (Z.to_nat c)) t).
Definition note_tokens : list str :=
  flat_map (fun c => flat_map (fun d => [[c; d]; [c; ch_sharp; d]]) (zrange 48 10)) (zrange 97 7).
Definition pitch_class (c : Z) : Z := nth (Z.to_nat (c - 97)) [9; 11; 0; 2; 4; 5; 7] 0.
Definition expected_midi (t : str) : option Z :=
  match t with
  | [c; d] => Some ((d - 48 + 1) * 12 + pitch_class c)
  | [c; _; d] => if (c =? 101) || (c =? 98) then None else Some ((d - 48 + 1) * 12 + pitch_class c + 1)
  | _ => None
  end.

Lemma note_tokens_complete t : note_text t = true -> In t note_tokens.
Proof.
  intros H. destruct (note_text_shape t H) as [(c & d & Hc & Hd & E) _].
  unfold note_tokens. apply in_flat_map. exists c. split; [apply in_zrange; cc|].
  apply in_flat_map. exists d. split; [apply in_zrange; cc|].
  destruct E as [-> | ->]; simpl; auto.
Qed.

Theorem C20_note_tokens : forall t, note_text t = true ->
  note_name_to_midi_note note_names (string_of_codes t) = expected_midi t.
Proof.
  intros t H. apply note_tokens_complete in H.
  assert (A : forallb (fun t => option_eqb Z.eqb (note_name_to_midi_note note_names (string_of_codes t)) (expected_midi t))
                note_tokens = true) by (vm_compute; reflexivity).
  rewrite forallb_forall in A. specialize (A t H).
  destruct (note_name_to_midi_note note_names (string_of_codes t)), (expected_midi t); simpl in A;
    try discriminate; try reflexivity. f_equal. lia.
Qed.
Print Assumptions C20_note_tokens.

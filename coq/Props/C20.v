(* Props/C20.v — property C20: string notation parses to the structure its brackets describe.
   Only the property theorems live here; each is closed by lemmas of Notation/ParserProofs.v and
   Notation/PSeqProofs.v.  Model: Notation/Lexer.v (tokenizer: the regular expression incl. backtracking and \b,
   lstrip, token -> value), Notation/Parser.v (parse_notation as written, Pattern.pattern's fallback, the
   formatter), Notation/PSeq.v (PSequence.__next__ on the parsed tree).

   [uw] is the Unicode "is alphanumeric" classification of non-ASCII code points (environment data, see
   Lexer.v); every theorem holds for all [uw].  [parse] is the repaired parser (a ']' below depth 0 raises
   ValueError); [parse_pinned] is the code as pinned (C20_pinned_defect). *)
From Isobar Require Import Base.Prelude Notation.Lexer Notation.Parser Notation.ParserProofs.
From Isobar Require Import Notation.PSeq Notation.PSeqProofs Tonal.Key Generated.Tables.
From Isobar Require Import Notation.PSeqProto Notation.PSeqProtoProofs.
From Coq Require Import String Ascii.
Local Notation length := List.length (only parsing).

(** ** Round trip: formatting any nested sequence and parsing it back is the identity.
    For every nested sequence g of unbounded depth and width (top level non-empty; nested groups may be
    empty), whose atoms are arbitrary ints (negative ones included), decimal literals -?[0-9]+.[0-9]+ and note
    names [a-g]#?[0-9], and for EVERY choice of separators made of whitespace characters — a separator may even
    be empty next to a bracket or before a minus sign — the parser returns exactly g: same atoms in the same
    order with the same nesting, ints as ints (by value), decimals as floats (the literal is kept), note
    names as strings. *)
Theorem C20_roundtrip : forall uw g seps,
  space_not_word uw -> g <> [] -> forallb wf_tree g = true ->
  seps_ok (map tok_text (flatten g)) seps = true ->
  parse uw (format seps g) = Ok g.
Proof. exact roundtrip. Qed.
Print Assumptions C20_roundtrip.

(* the usual case: at least one whitespace character after every token *)
Theorem C20_roundtrip_spaced : forall uw g seps,
  space_not_word uw -> g <> [] -> forallb wf_tree g = true ->
  length seps = length (flatten g) ->
  Forall (fun sp => sp <> [] /\ forallb is_space sp = true) seps ->
  parse uw (format seps g) = Ok g.
Proof.
  intros uw g seps Hu Hg Hw Hl Hs. apply roundtrip; auto.
  apply seps_ok_nonempty; [rewrite map_length; exact Hl|exact Hs].
Qed.
Print Assumptions C20_roundtrip_spaced.

Example C20_roundtrip_nonvacuous :
  let g := [Leaf (VInt 1); Leaf (VInt (-2)); Node [Leaf (VInt 10); Node []];
            Node [Leaf (VStr [99; 35; 52]); Node [Leaf (VFloat [51; 48; 46; 49]); Leaf (VFloat [45; 48; 46; 53])]]] in
  let seps := [[32]; [32; 9]; []; [32]; []; []; [10]; []; [32; 32]; []; []; []; []; [32]] in
  forallb wf_tree g = true /\ seps_ok (map tok_text (flatten g)) seps = true /\
  format seps g = [49; 32; 45; 50; 32; 9; 91; 49; 48; 32; 91; 93; 93; 10; 91; 99; 35; 52; 32; 32; 91; 51; 48; 46; 49;
                   45; 48; 46; 53; 93; 93; 32] /\
  parse (fun _ => false) (format seps g) = Ok g.
Proof. vm_compute. repeat split; reflexivity. Qed.

(** ** Atoms keep their kind *)
Theorem C20_atom_kinds :
  (forall z, token_to_value (show_int z) = VInt z) /\
  (forall t, float_text t = true -> token_to_value t = VFloat t) /\
  (forall t, note_text t = true -> token_to_value t = VStr t).
Proof.
  split; [exact ttv_int|]. split; intros t H; unfold token_to_value.
  - destruct (float_text_shape t H) as [_ ->]. rewrite H. reflexivity.
  - destruct (note_text_shape t H) as (_ & -> & ->). reflexivity.
Qed.
Print Assumptions C20_atom_kinds.

(** ** Structure: whatever string is accepted, the result read back as a token stream is exactly the token
    stream of the string — same tokens, same order, same nesting ([flatten] is injective, so this determines
    the result) — and the string is those tokens interleaved with whitespace. *)
Theorem C20_structure : forall uw s g, parse uw s = Ok g ->
  exists toks, tokens_of uw s = (toks, ScanComplete) /\ flatten g = map classify toks
    /\ exists seps, s = render toks seps /\ Forall (fun sp => forallb is_space sp = true) seps.
Proof.
  intros uw s g H. destruct (tokens_of uw s) as [toks e] eqn:ET.
  destruct (parse_spec uw s toks e ET) as [(-> & _ & g' & P & F) | [_ R]]; [|congruence].
  exists toks. split; [reflexivity|]. split; [congruence|].
  destruct (tokenize_spec uw _ _ _ ET) as (seps & E & _ & Hs & _). eauto.
Qed.
Print Assumptions C20_structure.

Theorem C20_flatten_injective : forall g1 g2, flatten g1 = flatten g2 -> g1 = g2.
Proof. exact flatten_inj. Qed.

(** ** Only balanced strings over the token alphabet are accepted *)
Theorem C20_balanced_only : forall uw s g, parse uw s = Ok g ->
  brackets_balanced s = true /\ (forall c, In c s -> token_char c = true \/ is_space c = true).
Proof.
  intros uw s g H. split.
  - destruct (brackets_balanced s) eqn:E; [reflexivity|]. rewrite (unbalanced_rejected uw s E) in H. discriminate.
  - intros c Hin. destruct (token_char c) eqn:Et; [auto|]. destruct (is_space c) eqn:Es; [auto|].
    rewrite (foreign_rejected uw s c Hin Et Es) in H. discriminate.
Qed.
Print Assumptions C20_balanced_only.

(** ** Acceptance is exactly: the string scans completely into tokens and its brackets are balanced *)
Theorem C20_accept_iff : forall uw s,
  (exists g, parse uw s = Ok g) <-> (snd (tokens_of uw s) = ScanComplete /\ brackets_balanced s = true).
Proof.
  intros uw s. destruct (tokens_of uw s) as [toks e] eqn:ET. simpl. split.
  - intros [g H]. destruct (parse_spec uw s toks e ET) as [(-> & B & _) | [_ R]]; [|congruence].
    split; [reflexivity|]. rewrite (scanned_brackets uw s toks ET). exact B.
  - intros [-> B]. rewrite (scanned_brackets uw s toks ET) in B.
    destruct (parse_spec uw s toks _ ET) as [(_ & _ & g & P & _) | [[E | E] _]]; [eauto|discriminate|congruence].
Qed.
Print Assumptions C20_accept_iff.

(** ** Rejection: unbalanced brackets or a foreign character give ValueError ([Reject]) — for every string *)
Theorem C20_reject : forall uw s,
  brackets_balanced s = false \/ (exists c, In c s /\ token_char c = false /\ is_space c = false) ->
  parse uw s = Reject.
Proof.
  intros uw s [H | (c & Hin & Ht & Hs)]; [apply unbalanced_rejected; exact H|].
  eapply foreign_rejected; eauto.
Qed.
Print Assumptions C20_reject.

(* deleting, inserting or swapping ONE bracket anywhere in a string with balanced brackets (in particular in
   any well-formed string) makes it rejected *)
Theorem C20_reject_bracket_edit : forall uw a b c,
  c = ch_open \/ c = ch_close ->
  (brackets_balanced (a ++ b) = true -> parse uw (a ++ c :: b) = Reject) /\
  (brackets_balanced (a ++ c :: b) = true -> parse uw (a ++ b) = Reject) /\
  (brackets_balanced (a ++ c :: b) = true ->
   parse uw (a ++ (if c =? ch_open then ch_close else ch_open) :: b) = Reject).
Proof.
  intros uw a b c Hc. repeat split; intros H; apply unbalanced_rejected.
  - apply edit_insert; assumption.
  - eapply edit_delete; eassumption.
  - eapply edit_flip; [exact H|]. destruct Hc as [-> | ->]; [left|right]; split; reflexivity.
Qed.
Print Assumptions C20_reject_bracket_edit.

Example C20_reject_nonvacuous :
  let wf := [49; 32; 91; 50; 32; 51; 93] (* "1 [2 3]" *) in
  brackets_balanced wf = true /\ parse (fun _ => false) wf = Ok [Leaf (VInt 1); Node [Leaf (VInt 2); Leaf (VInt 3)]] /\
  parse (fun _ => false) [49; 32; 93; 32; 50] = Reject (* "1 ] 2" *) /\
  parse (fun _ => false) [93; 32; 91; 32; 49] = Reject (* "] [ 1" *) /\
  parse (fun _ => false) [49; 32; 120] = Reject (* "1 x" *).
Proof. vm_compute. repeat split; reflexivity. Qed.

(** ** Totality: every string is either parsed or rejected with ValueError — no other exception (the
    `sequence[-1]` of _parser_push never meets an atom or an empty list), and the fuel of the model suffices *)
Theorem C20_total : forall uw s, (exists g, parse uw s = Ok g) \/ parse uw s = Reject.
Proof.
  intros uw s. destruct (tokens_of uw s) as [toks e] eqn:ET.
  destruct (parse_spec uw s toks e ET) as [(_ & _ & g & P & _) | [_ R]]; eauto.
Qed.
Print Assumptions C20_total.

(** ** Event-dictionary values: Pattern.pattern(str) is the parsed sequence when the string parses and the
    string itself as a constant otherwise — in particular for every unbalanced string and every string with a
    foreign character; it never raises *)
Theorem C20_fallback : forall uw s,
  (exists g, parse uw s = Ok g /\ patternify uw s = Ok (PatSeq g)) \/
  (parse uw s = Reject /\ patternify uw s = Ok (PatConst s)).
Proof.
  intros uw s. unfold patternify. destruct (C20_total uw s) as [[g H] | H]; rewrite H; eauto.
Qed.
Print Assumptions C20_fallback.

Theorem C20_fallback_malformed : forall uw s,
  brackets_balanced s = false \/ (exists c, In c s /\ token_char c = false /\ is_space c = false) ->
  patternify uw s = Ok (PatConst s).
Proof. intros uw s H. unfold patternify. rewrite (C20_reject uw s H). reflexivity. Qed.
Print Assumptions C20_fallback_malformed.

(** ** The defect of the pinned code is representable: without the depth < 0 test a stray ']' is accepted *)
Example C20_pinned_defect :
  parse_pinned (fun _ => false) [49; 32; 93; 32; 50] = Ok [Leaf (VInt 1); Leaf (VInt 2)] /\
  parse_pinned (fun _ => false) [93; 32; 91; 32; 49] = Ok [Node []; Leaf (VInt 1)] /\
  parse (fun _ => false) [49; 32; 93; 32; 50] = Reject.
Proof. vm_compute. repeat split; reflexivity. Qed.

(** ** A nested group contributes one element per cycle of its parent.
    [kth k p] is the k-th value (k = 0, 1, ...) the pattern state p yields (PSequence.__next__ with
    Pattern.value on nested patterns), [pattern_of g] the object parse_notation returns.  For every parsed
    sequence g without empty groups, of any depth: on cycle c, position i yields the c-th value of element i —
    an atom yields itself every time (C20_cycle_atom); a nested group is again a [pattern_of] (C20_cycle_nested),
    so it yields on the c-th cycle of its parent what the same theorem says about its own value number c,
    i.e. its (c mod width)-th element, one element per cycle of the parent. *)
Theorem C20_cycle : forall g c i,
  g <> [] -> forallb no_empty_group g = true -> (i < length g)%nat ->
  kth (c * length g + i) (pattern_of g) = kth c (init (nth i g (Leaf (VInt 0)))).
Proof. intros. apply cycle_trees; assumption. Qed.
Print Assumptions C20_cycle.

Theorem C20_cycle_atom : forall c v, kth c (init (Leaf v)) = Some v.
Proof. intros. apply kth_leaf. Qed.

Theorem C20_cycle_nested : forall ch, init (Node ch) = pattern_of ch.
Proof. reflexivity. Qed.

(* nextn(K) returns exactly these values *)
Theorem C20_cycle_nextn : forall K g k, (k < K)%nat -> nth_error (outputs K g) k = kth k (pattern_of g).
Proof. intros. unfold outputs. apply pnextn_kth. assumption. Qed.
Print Assumptions C20_cycle_nextn.

Example C20_cycle_nonvacuous :
  (* '1 -2 [10 11] [c#4 [30.1 -30.2 30.3]]', the string of tests/test_shorthand_notation.py *)
  let s := [49;32;45;50;32;91;49;48;32;49;49;93;32;91;99;35;52;32;91;51;48;46;49;32;45;51;48;46;50;32;51;48;46;51;93;93] in
  exists g, parse (fun _ => false) s = Ok g /\ forallb no_empty_group g = true /\ length g = 4%nat /\
    outputs 16 g = [VInt 1; VInt (-2); VInt 10; VStr [99;35;52]; VInt 1; VInt (-2); VInt 11; VFloat [51;48;46;49];
                    VInt 1; VInt (-2); VInt 10; VStr [99;35;52]; VInt 1; VInt (-2); VInt 11; VFloat [45;51;48;46;50]].
Proof. eexists. vm_compute. repeat split; reflexivity. Qed.

(** ** The note-name tokens are note names: util.note_name_to_midi_note (model: Tonal/Key.v, table regenerated
    from the source) maps every note token the parser can keep to letter + accidental + 12 * (octave + 1) —
    except e#N and b#N, which the tokenizer accepts although isobar has no such name (UnknownNoteName);
    recorded as an observation, the property does not ask for more than keeping the token as a string. *)
Definition string_of_codes (t : str) : string :=
  string_of_list_ascii (map (fun c => ascii_of_nat (Z.to_nat c)) t).
Definition note_tokens : list str :=
  flat_map (fun c => flat_map (fun d => [[c; d]; [c; ch_sharp; d]]) (zrange 48 10)) (zrange 97 7).
Definition pitch_class (c : Z) : Z := nth (Z.to_nat (c - 97)) [9; 11; 0; 2; 4; 5; 7] 0.
Definition expected_midi (t : str) : option Z :=
  match t with
  | [c; d] => Some ((d - 48 + 1) * 12 + pitch_class c)
  | [c; _; d] => if (c =? 101) || (c =? 98) then None else Some ((d - 48 + 1) * 12 + pitch_class c + 1)
  | _ => None
  end.

Lemma note_tokens_complete t : note_text t = true -> In t note_tokens.
Proof.
  intros H. destruct (note_text_shape t H) as [(c & d & Hc & Hd & E) _].
  unfold note_tokens. apply in_flat_map. exists c. split; [apply in_zrange; cc|].
  apply in_flat_map. exists d. split; [apply in_zrange; cc|].
  destruct E as [-> | ->]; simpl; auto.
Qed.

Theorem C20_note_tokens : forall t, note_text t = true ->
  note_name_to_midi_note note_names (string_of_codes t) = expected_midi t.
Proof.
  intros t H. apply note_tokens_complete in H.
  assert (A : forallb (fun t => option_eqb Z.eqb (note_name_to_midi_note note_names (string_of_codes t)) (expected_midi t))
                note_tokens = true) by (vm_compute; reflexivity).
  rewrite forallb_forall in A. specialize (A t H).
  destruct (note_name_to_midi_note note_names (string_of_codes t)), (expected_midi t); simpl in A;
    try discriminate; try reflexivity. f_equal. lia.
Qed.
Print Assumptions C20_note_tokens.

(** ** The parsed pattern through the whole pattern protocol (Notation/PSeqProto.v).
    reset(), all(), len() and copy() in the middle of a cycle, by any number of holders: [preset] is PSequence.reset on
    the tree of PSequence objects (every group, at every depth, back to position 0), [pall m] is all(maximum=m)
    (len() is the length of its result), a history is a list of [ONext]/[OReset]/[OAll]/[OCopy] on a store of objects
    (the parsed one and its copies).  After a rewind "a nested group contributes one element per cycle of its parent"
    must hold from the start again: *)

(* for every parsed string and every number of steps: a reset restores exactly the freshly parsed object *)
Theorem C20_reset_restores : forall uw s g k,
  parse uw s = Ok g ->
  preset (after k (pattern_of g)) = pattern_of g /\ preset (snd (pnextn k (pattern_of g))) = pattern_of g.
Proof. intros uw s g k _. split; [apply (preset_after k (Node g))|apply (preset_pnextn k (Node g))]. Qed.
Print Assumptions C20_reset_restores.

(* output form: next^k; reset; nextn(n) returns what nextn(n) returns on a fresh parse *)
Theorem C20_rewind_outputs : forall uw s g k n,
  parse uw s = Ok g ->
  fst (pnextn n (preset (snd (pnextn k (pattern_of g))))) = outputs n g.
Proof. intros uw s g k n _. change (pattern_of g) with (init (Node g)). rewrite (preset_pnextn k (Node g)). reflexivity. Qed.
Print Assumptions C20_rewind_outputs.

(* all(m) in the middle of a cycle returns the next m values (fewer only if an empty group stops the pattern) and
   leaves the freshly parsed object behind *)
Theorem C20_all_rewinds : forall uw s g k m,
  parse uw s = Ok g ->
  let p := snd (pnextn k (pattern_of g)) in
  fst (pall m p) = fst (pnextn m p) /\ snd (pall m p) = pattern_of g.
Proof.
  intros uw s g k m _ p. unfold pall. pose proof (pnextn_erase m p) as H. destruct (pnextn m p) as [vs p'] eqn:E.
  cbn [fst snd] in *. split; [reflexivity|]. rewrite preset_init_erase, H. unfold p.
  rewrite pnextn_erase. change (pattern_of g) with (init (Node g)). rewrite (erase_init (Node g)). reflexivity.
Qed.
Print Assumptions C20_all_rewinds.

(* over whole histories: whatever was done to the parsed object and to its copies (steps, resets, all(), further copies, in
   any interleaving), every object still denotes the parsed nested sequence, and a reset() or all() of ANY of them followed by
   nextn(n) returns the outputs of a fresh parse *)
Theorem C20_history_rewind : forall uw s g ops i n,
  parse uw s = Ok g ->
  let st := snd (prun [pattern_of g] ops) in
  (forall p, In p st -> erase p = Node g)
  /\ ((i < length st)%nat ->
      fst (pstep (snd (pstep st (OReset i))) (ONext i n)) = outputs n g
      /\ forall m, fst (pstep (snd (pstep st (OAll i m))) (ONext i n)) = outputs n g).
Proof.
  intros uw s g ops i n _ st.
  assert (H : all_shape (Node g) st).
  { apply prun_shape. intros p [<-|[]]. apply (erase_init (Node g)). }
  split; [exact H|]. intros Hi. apply (rewind_then_next (Node g) st i n H Hi).
Qed.
Print Assumptions C20_history_rewind.

(* hence the cycle structure restarts: after a rewind at any point of any history, value number c*n+i of the rewound object is
   value number c of a FRESH i-th element (one element per cycle of the parent, from the start again) *)
Theorem C20_cycle_after_rewind : forall uw s g ops j c i,
  parse uw s = Ok g -> g <> [] -> forallb no_empty_group g = true -> (i < length g)%nat ->
  let st := snd (prun [pattern_of g] ops) in
  forall p, nth_error st j = Some p ->
  kth (c * length g + i) (preset p) = kth c (init (nth i g (Leaf (VInt 0)))).
Proof.
  intros uw s g ops j c i Hp Hne Hall Hi st p E.
  destruct (C20_history_rewind uw s g ops j 0 Hp) as [Hs _]. fold st in Hs.
  rewrite preset_init_erase, (Hs p (nth_error_In _ _ E)). apply cycle_trees; assumption.
Qed.
Print Assumptions C20_cycle_after_rewind.

(* copies: a copy starts in the state of its original, and what is done to one object is invisible to every other *)
Theorem C20_copy_independent : forall st o i j p,
  (nth_error st i = Some p ->
     nth_error (snd (pstep st (OCopy i))) (length st) = Some p /\ nth_error (snd (pstep st (OCopy i))) i = Some p)
  /\ (target o <> j -> (j < length st)%nat -> nth_error (snd (pstep st o)) j = nth_error st j).
Proof.
  intros st o i j p. split.
  - intros E. destruct (pstep_copy st i p E) as (_ & A & B). split; assumption.
  - apply pstep_frame.
Qed.
Print Assumptions C20_copy_independent.

Example C20_rewind_nonvacuous :
  (* '1 [10 11]': nextn(6), copy, reset, nextn(3) = [1, 10, 1]; the copy goes on with [1, 11, 1] (6 steps = 3 parent cycles:
     the nested group has been visited 3 times and is in the middle of its own cycle); after 5 steps the nested group is mid-cycle: all(2) = [11, 1], then nextn(3) = [1, 10, 1] *)
  let s := [49;32;91;49;48;32;49;49;93] in
  exists g, parse (fun _ => false) s = Ok g /\
    fst (prun [pattern_of g] [ONext 0 6; OCopy 0; OReset 0; ONext 0 3; ONext 1 3])
      = [[VInt 1; VInt 10; VInt 1; VInt 11; VInt 1; VInt 10]; []; []; [VInt 1; VInt 10; VInt 1]; [VInt 1; VInt 11; VInt 1]] /\
    fst (prun [pattern_of g] [ONext 0 3; OAll 0 2; ONext 0 3])
      = [[VInt 1; VInt 10; VInt 1]; [VInt 11; VInt 1]; [VInt 1; VInt 10; VInt 1]].
Proof. eexists. vm_compute. repeat split; reflexivity. Qed.

(* Props/C09.v — property C09: patterns obey the iterator protocol; helpers agree; copies are independent.
   Only the property theorems live here; each is closed by a lemma of Pat/IterProofs.v.

   Vocabulary: outputs f n p = (os, p')  the next n calls of next(p) have the outcomes os and leave p';
               dead f p   every later next() raises StopIteration;
               quiet f p  no later next() returns a value (StopIteration, or an exception raised by an operand);
               f is the recursion fuel of the model, binop the operator semantics (arbitrary). *)
From Isobar Require Import Base.Prelude Pat.Val Pat.Syntax Pat.Step Pat.StepProofs Pat.IterProofs Pat.StickyProofs Pat.StickyConcat.
From Coq Require Import String QArith.
Open Scope Z_scope.

Section AnyOperators.
  Variable binop : op -> val -> val -> outcome val.
  Variable LMAX : nat.

  (* the classes that end by their own counters (PSequence over scalars, PSeries, PRange, PGeom with scalar
     parameters, PReverse, PPingPong): in ANY state, once next() raises StopIteration the object is unchanged and
     raises StopIteration on every later call *)
  Theorem C09_sticky_counter_classes : forall f p p',
    ends_by_counter p = true -> step binop LMAX f p = (Stop, p') ->
    p' = p /\ dead binop LMAX f p'.
  Proof.
    intros f p p' Hc H. split; [eapply counter_stop_stable; eauto | eapply counter_dead; eauto].
  Qed.

  (* expressions of ANY depth over those classes, constants and scalars, built with the 15 operators, &, abs,
     int, skip-if and references: once next() has raised StopIteration no later next() returns a value
     (induction on the nesting; whatever the other operands do afterwards) *)
  Theorem C09_sticky : forall f p p',
    (forall o x y, binop o x y <> Stop) ->
    sticky_pat p -> step binop LMAX f p = (Stop, p') -> quiet binop LMAX f p'.
  Proof. intros f p p' Hns. apply (proj1 (sticky_quiet binop LMAX Hns f)). Qed.

  (* the transformer classes: fpat = sticky_pat extended by PPad, PPadToMultiple, PCollapse, PNoRepeats, PChanged, PDiff,
     PRound (scalar arguments), PWrap, PCounter, PStutter (pattern or scalar count), PLoop, PSubsequence (scalar offset /
     length), PIndexOf, PDictKey, PArrayIndex (operands scalars or patterns; PIndexOf / PDictKey also over a literal list /
     dict), PConcatenate, each over ANY pattern of the fragment, nested to any depth: once next() has raised StopIteration - whether
     because the input ended, a padding was used up, the repeats of a loop ran out or a pattern-valued count ended - no
     later next() returns a value, at ANY fuel f2 of the model (so the statement does not depend on the fuel at which
     the StopIteration was observed) *)
  Theorem C09_sticky_transformers : forall f p p',
    (forall o x y, binop o x y <> Stop) ->
    fpat p -> step binop LMAX f p = (Stop, p') -> forall f2, quiet binop LMAX f2 p'.
  Proof. intros f p p' Hns. apply (proj1 (fpat_quiet binop LMAX Hns f)). Qed.

  (* the fragment is closed under next(): every later state is again in it (so the theorem applies after any history),
     and it contains the fragment of C09_sticky *)
  Theorem C09_fragment_closed : forall f p, fpat p -> fpat (snd (step binop LMAX f p)).
  Proof. exact (fpat_step_closed binop LMAX). Qed.

  Theorem C09_fragment_extends : forall p, sticky_pat p -> fpat p.
  Proof. exact sticky_fpat. Qed.

  (* PConcatenate([x1 .. xn]) over patterns of the fragment, in ANY state: once it has raised StopIteration (it is then on
     its last input, which has stopped) no later next() returns a value.  (Instance of C09_sticky_transformers: fpat has
     the constructor FP_concat, so PConcatenate may also occur below / above any other class of the fragment.) *)
  Theorem C09_sticky_concatenate : forall f l pos p',
    (forall o x y, binop o x y <> Stop) ->
    Forall farg l -> step binop LMAX f (PConcatenate (AL l) pos) = (Stop, p') -> forall f2, quiet binop LMAX f2 p'.
  Proof. intros f l pos p' Hns. exact (concat_quiet binop LMAX Hns f l pos p'). Qed.

  (* for EVERY class of the model: a state that answers StopIteration without changing answers it for ever.
     The classes formerly listed here as open - PDict, PArrayIndex over a literal list, PSequence with pattern items, PRound
     with pattern arguments - are proved in Props/C09More.v (C09_more_sticky: the full statement
       forall f p p', gpat p -> step f p = (Stop, p') -> forall f2, quiet f2 p'   on the extended fragment gpat);
     PArrayIndex over a list of patterns with a pattern index, which used to revive, is sticky since the repair
     C09-parrayindex-revives (C09_more_arrayindex_sticky: every PArrayIndex stays exhausted until reset()) *)
  Theorem C09_sticky_stable_state : forall f p,
    step binop LMAX f p = (Stop, p) -> dead binop LMAX f p.
  Proof. exact (stop_stable_dead binop LMAX). Qed.

  (* nextn(n) when n values are left: exactly the values of the next n calls of next(), object advanced by n *)
  Theorem C09_nextn_values : forall f n p vs p',
    outputs binop LMAX f n p = (map Yield vs, p') -> nextn binop LMAX f n p = (Yield vs, p').
  Proof. exact (nextn_values binop LMAX). Qed.

  (* nextn(n) when only j < n are left: the j remaining values (min(n, remaining)) *)
  Theorem C09_nextn_remaining : forall f j n p vs p1 p2,
    (j < n)%nat -> outputs binop LMAX f j p = (map Yield vs, p1) -> step binop LMAX f p1 = (Stop, p2) ->
    nextn binop LMAX f n p = (Yield vs, p2).
  Proof. exact (nextn_remaining binop LMAX). Qed.

  (* all(m) returns what nextn(m) returns and then resets; len() is the length of all() *)
  Theorem C09_all_len : forall f m p vs p' p'',
    nextn binop LMAX f m p = (Yield vs, p') -> reset binop LMAX f p' = Yield p'' ->
    all_ binop LMAX f m p = (Yield vs, p'') /\
    (m = LMAX -> len binop LMAX f p = (Yield (zlen vs), p'')).
  Proof.
    intros f m p vs p' p'' Hn Hr. pose proof (all_is_nextn_then_reset binop LMAX f m p vs p' p'' Hn Hr) as A.
    split; [exact A|]. intros ->. apply len_is_length_of_all. exact A.
  Qed.

  (* a copy continues with exactly the outputs of the original.  (Independence of the two objects holds by
     construction in the tree model; against the implementation it is validated by the interleaving scripts.) *)
  Theorem C09_copy : forall f n p, outputs binop LMAX f n (copy p) = outputs binop LMAX f n p.
  Proof. exact (copy_outputs binop LMAX). Qed.
End AnyOperators.
Print Assumptions C09_sticky.
Print Assumptions C09_sticky_counter_classes.
Print Assumptions C09_sticky_transformers.
Print Assumptions C09_fragment_closed.
Print Assumptions C09_sticky_concatenate.

(* Python's operators never raise StopIteration, so C09_sticky applies to the concrete engine *)
Theorem C09_sticky_python : forall LMAX f p p',
  sticky_pat p -> step Val.binop LMAX f p = (Stop, p') -> quiet Val.binop LMAX f p'.
Proof. intros LMAX f p p'. apply C09_sticky. exact val_binop_no_stop. Qed.
Print Assumptions C09_sticky_python.

Theorem C09_sticky_transformers_python : forall LMAX f p p',
  fpat p -> step Val.binop LMAX f p = (Stop, p') -> forall f2, quiet Val.binop LMAX f2 p'.
Proof. intros LMAX f p p'. apply C09_sticky_transformers. exact val_binop_no_stop. Qed.
Print Assumptions C09_sticky_transformers_python.

(* non-vacuity *)
Definition seq_ (l : list Z) (rep : Z) : pat := PSequence (AL (map (fun z => AV (VInt z)) l)) (AV (VInt rep)) 0 0.

Example C09_sticky_nonvacuous :
  let p := PBinOp OAdd (AP (PAbs (AP (seq_ [1; -2] 1)))) (AP (PSeries (VInt 0) (VInt 0) (AV (VInt 1)) (AV (VInt 5)) 0)) in
  sticky_pat p /\
  fst (outputs Val.binop 100 30 5 p) = [Yield (VInt 1); Yield (VInt 3); Stop; Stop; Stop].
Proof.
  split; [|vm_compute; reflexivity].
  apply SP_binop; apply SA_pat; [apply SP_abs; apply SA_pat|]; apply SP_counter; reflexivity.
Qed.

(* PPad(PStutter(PCollapse(PSubsequence(PLoop([1, None, 2], 2), 1, 4)), 2), 7): the subsequence None 2 1 None collapses to
   2 1, stuttered to 4 values, padded with 3 None, then StopIteration for ever *)
Example C09_transformers_nonvacuous :
  let src := PSequence (AL [AV (VInt 1); AV VNone; AV (VInt 2)]) (AV (VInt 1)) 0 0 in
  let p := PPad (AP (PStutter (AP (PCollapse (AP (PSubsequence (AP (PLoop (AP src) (VInt 2) 0 0 false []))
                                                               (AV (VInt 1)) (AV (VInt 4)) 0 []))))
                              (AV (VInt 2)) (VInt 0) 0 (VInt 0))) (VInt 7) 0 in
  fpat p /\
  fst (outputs Val.binop 100 30 10 p) =
    [Yield (VInt 2); Yield (VInt 2); Yield (VInt 1); Yield (VInt 1); Yield VNone; Yield VNone; Yield VNone; Stop; Stop; Stop].
Proof.
  split; [|vm_compute; reflexivity].
  apply FP_pad, FA_pat, FP_stutter; [|apply FA_val]. apply FA_pat, FP_collapse, FA_pat, FP_subsequence, FA_pat, FP_loop.
Qed.

Example C09_concatenate_nonvacuous :
  let l := [AP (seq_ [1; 2] 1); AP (PPad (AP (seq_ [3] 1)) (VInt 2) 0)] in
  Forall farg l /\
  fst (outputs Val.binop 100 30 6 (PConcatenate (AL l) 0)) = [Yield (VInt 1); Yield (VInt 2); Yield (VInt 3); Yield VNone; Stop; Stop].
Proof.
  split; [|vm_compute; reflexivity].
  constructor; [apply FA_pat, FP_counter; reflexivity|].
  constructor; [|constructor]. apply FA_pat, FP_pad, FA_pat, FP_counter; reflexivity.
Qed.

Example C09_helpers_nonvacuous :
  fst (nextn Val.binop 100 30 5 (seq_ [1; 2; 3] 1)) = Yield [VInt 1; VInt 2; VInt 3] /\
  fst (len Val.binop 100 30 (seq_ [1; 2; 3] 2)) = Yield 6.
Proof. split; vm_compute; reflexivity. Qed.

(* ------------------------------------------------------------------------------------------------------------
   "... so a drained track stays drained while it waits for its last notes to end" and the finite STOCHASTIC
   classes (model Pat/Drained.v over the machines of Pat/Chance.v; lemmas Pat/DrainedProofs.v).  The generator
   is arbitrary data (R, r_below, r_unit), never an axiom.  From here on `Stop` is Chance.Stop. *)
From Isobar Require Import Pat.Chance Pat.Drained Pat.DrainedProofs.

(* ANY stream that has become dead (every later next() raises StopIteration), polled by its track on every tick
   (Track.tick does not advance next_event_time on StopIteration): no further note is played and nothing is raised,
   for ever; and if the pending note-offs are all due within k ticks, the track has finished after k + 1 ticks *)
Theorem C09_drained_track_stays_drained : forall R St step dur_t gate4 (t : trk R St),
  dead R St step (t_st R St t) (t_gen R St t) ->
  (forall n, t_played R St (ticks R St step dur_t gate4 n t) = t_played R St t /\
             t_err R St (ticks R St step dur_t gate4 n t) = t_err R St t) /\
  (forall k, t_err R St t = false -> t_next R St t <= t_now R St t ->
             (forall d, In d (t_offs R St t) -> d <= t_now R St t + 4 * Z.of_nat k) ->
             t_fin R St (ticks R St step dur_t gate4 (S k) t) = true).
Proof.
  intros R St step dur_t gate4 t H. split.
  - intros n. now apply drained_plays_nothing.
  - intros k. now apply drained_ends.
Qed.
Print Assumptions C09_drained_track_stays_drained.

(* PShuffle(values, repeats) in ANY state, whatever the generator returns: once next() has raised StopIteration,
   every later next() raises StopIteration (position stays at the end, the repeat counter is used up) *)
Theorem C09_pshuffle_sticky : forall R r_below repeats s g s' g',
  pshuffle_step R r_below repeats s g = (Stop, s', g') ->
  forall g'', dead R shuf_state (pshuffle_step R r_below repeats) s' g''.
Proof. exact pshuffle_sticky. Qed.
Print Assumptions C09_pshuffle_sticky.

(* PWhite(min, max, length) likewise *)
Theorem C09_pwhite_sticky : forall R r_unit is_f mn mx len i g i' g',
  white_step R r_unit is_f mn mx len i g = (Stop, i', g') ->
  forall g'', dead R Z (white_step R r_unit is_f mn mx len) i' g''.
Proof. exact pwhite_sticky. Qed.
Print Assumptions C09_pwhite_sticky.

Example C09_drained_nonvacuous :
  drained_run 3 4 10 200 = (3, Some 19) /\                       (* 3 notes, 1 beat = 4 ticks each, gate 2.5 *)
  pshuffle_shape [60; 62; 64] 2 9 = [false; false; false; false; false; false; true; true; true] /\
  pwhite_shape 2 5 = [false; false; true; true; true].
Proof. repeat split; vm_compute; reflexivity. Qed.

(* ------------------------------------------------------------------------------------------------------------
   PATTERN GRAPHS WITH A SHARED SUB-PATTERN OBJECT (DAGs, not trees).  Model Pat/Dag.v: the stateful objects of a
   program live in a heap, by address; an operator expression / a PDict over such expressions may refer to the same
   address any number of times, so one next() on the root advances a shared cell once per occurrence, in evaluation
   order (cells are ANY object of Pat/Syntax.v, advanced by Step.step).  copy() is copy.deepcopy with ONE memo
   (copy_root: every reachable cell copied once to a fresh address, references redirected through the memo).
   Lemmas Pat/DagProofs.v: a renamed graph over a heap that agrees on the renamed addresses simulates the original and
   leaves every other address alone (dstep_sim / rstep_sim); deepcopy-with-memo is an injective renaming onto fresh
   addresses (winv_copy). *)
From Isobar Require Import Pat.Dag Pat.DagProofs.
Open Scope Z_scope.

(* For EVERY graph (any sharing), every heap it is allocated in, and EVERY script of next() / nextn(n) / copy() on any
   number of handles (copies of copies included): each observation is what repeated next() on the ORIGINAL ALONE gives
   at the position of the handle it is made on - a copy starts at the position of the handle it is taken from
   ([simulate] is the oracle of harness/c09.py).  So a copy continues with exactly the output the original would have
   produced, and advancing any handle never affects another one. *)
Theorem C09_dag_copy_interleavings : forall binop LMAX fuel (r0 : droot) (h0 : heap), wf r0 h0 -> forall ops,
  dtrace binop LMAX fuel ([r0], h0) ops = simulate (rout binop LMAX fuel r0 h0) [O] ops.
Proof. intros binop LMAX fuel r0 h0 WF ops. exact (dag_interleavings binop LMAX fuel r0 h0 WF ops). Qed.
Print Assumptions C09_dag_copy_interleavings.

(* read off: copy after m calls; the original makes j more calls, then the copy n: the original yields calls m.. of the
   run alone, and so does the copy *)
Theorem C09_dag_copy_continues : forall binop LMAX fuel (r0 : droot) (h0 : heap), wf r0 h0 -> forall m j n,
  let s := rout binop LMAX fuel r0 h0 in
  dtrace binop LMAX fuel ([r0], h0) (repeat (DNext O) m ++ [DCopy O] ++ repeat (DNext O) j ++ repeat (DNext 1%nat) n ++ []) =
  map s (seq 0 m) ++ map s (seq m j) ++ map s (seq m n).
Proof. intros binop LMAX fuel r0 h0 WF m j n. exact (dag_copy_continues binop LMAX fuel r0 h0 WF m j n). Qed.
Print Assumptions C09_dag_copy_continues.

(* non-vacuity and negative control:  c = PSeries(0, 1, 10); p = PDict({"note": c + 60, "amplitude": c * 10})  draws twice
   from c per event; a copy taken after two events continues with (64, 50) like the original, interleaved with it, and
   nextn drains both to the same end; copying the pattern under each key with a memo of its own (seeded change C09-f)
   yields (64, 40) instead *)
Example C09_dag_nonvacuous :
  let c := PSeries (VInt 0) (VInt 0) (AV (VInt 1)) (AV (VInt 10)) 0 in
  let kv := [("note"%string, DBin OAdd (DRef 0) (DVal (VInt 60))); ("amplitude"%string, DBin OMul (DRef 0) (DVal (VInt 10)))] in
  let ev (a b : Z) := VDict [("note"%string, VInt a); ("amplitude"%string, VInt b)] in
  wf (RDict kv) [c] /\
  dtrace Val.binop 100 30 ([RDict kv], [c]) [DNext 0; DNext 0; DCopy 0; DNext 1; DNext 0; DNext 1; DNextN 1 5; DNextN 0 5]%nat =
    [Yield (ev 60 10); Yield (ev 62 30); Yield (ev 64 50); Yield (ev 64 50); Yield (ev 66 70);
     Yield (VList [ev 68 90]); Yield (VList [ev 66 70; ev 68 90])] /\
  (let h2 := rrun Val.binop 100 30 2 (RDict kv) [c] in
   fst (rstep Val.binop 100 30 (fst (copy_root (RDict kv) h2)) (snd (copy_root (RDict kv) h2))) = Yield (ev 64 50) /\
   let '(kv', h') := copy_per_key kv h2 in fst (rstep Val.binop 100 30 (RDict kv') h') = Yield (ev 64 40)).
Proof.
  split; [intros a [<-|[<-|[]]]; cbn; lia|]. split; [vm_compute; reflexivity|]. split; vm_compute; reflexivity.
Qed.

(* ------------------------------------------------------------------------------------------------------------
   SEVERAL INSTANCES OF ONE CLASS ALIVE TOGETHER, each rewound (reset / all / len) at different moments, and their copies.
   Model Pat/Instances.v: a world = the list of objects created so far; operations  WNew program | WCopy j | WOp i o  with
   o one of next / nextn(n) / reset / all(m) / len on object i; generic over the kind of object - anything whose
   constructor, next(), reset() and copy() are functions of the program text / the object alone.  Lemmas
   Pat/InstancesProofs.v.  PLSystem (string rewriting + the bracket stack machine; Pat/LSystem.v, Pat/LSystemProofs.v) is
   such an object: position, state and the STACK of saved states belong to the object. *)
From Isobar Require Import Pat.Instances Pat.InstancesProofs Pat.LSystem Pat.LSystemProofs.

(* whatever else is constructed, copied, advanced or rewound in the world, an object observes what it observes ALONE under
   the operations applied to it; an operation on one object leaves every other object as it is *)
Theorem C09_instances_independent : forall Prog Obj build onext oreset ocopy LMAX (ops : list (wop Prog)) (w : list Obj) i x,
  nth_error w i = Some x ->
  outs_of i (wrun Prog Obj build onext oreset ocopy LMAX w ops) = Instances.alone Obj onext oreset LMAX x (wproj Prog i ops).
Proof. exact instance_isolation. Qed.
Theorem C09_instances_frame : forall Prog Obj build onext oreset ocopy LMAX (w : list Obj) i o k, i <> k ->
  nth_error (fst (wstep Prog Obj build onext oreset ocopy LMAX w (WOp i o))) k = nth_error w k.
Proof. exact instance_frame. Qed.

(* a copy starts as the copy of the object it is taken from and then observes what that copy observes alone - whatever is
   done to the original, before or after, rewinds included; two instances built from the same program text likewise *)
Theorem C09_instances_copy : forall Prog Obj build onext oreset ocopy LMAX (ops : list (wop Prog)) (w : list Obj) j x,
  nth_error w j = Some x ->
  outs_of (List.length w) (wrun Prog Obj build onext oreset ocopy LMAX w (WCopy j :: ops)) =
  Instances.alone Obj onext oreset LMAX (ocopy x) (wproj Prog (List.length w) ops).
Proof. exact instance_copy. Qed.
Theorem C09_instances_new : forall Prog Obj build onext oreset ocopy LMAX (ops : list (wop Prog)) (w : list Obj) p x,
  build p = Some x ->
  outs_of (List.length w) (wrun Prog Obj build onext oreset ocopy LMAX w (WNew p :: ops)) =
  Instances.alone Obj onext oreset LMAX x (wproj Prog (List.length w) ops).
Proof. exact instance_new. Qed.
Print Assumptions C09_instances_independent.
Print Assumptions C09_instances_copy.

(* PLSystem: for the L-system machine the above reads - any number of PLSystem patterns with equal or different (rule,
   depth), copies taken before or after rewinds, next() interleaved while their bracket spans overlap: each observes what
   it observes alone (pl_copy is the identity: a deep copy of an object that owns all of its state) *)
Theorem C09_lsystem_instances_independent : forall LMAX (ops : list (wop (list tok * nat * bool))) (w : list plsys) i x,
  nth_error w i = Some x ->
  outs_of i (wrun _ plsys pl_build pl_next pl_reset pl_copy LMAX w ops) = Instances.alone plsys pl_next pl_reset LMAX x (wproj _ i ops).
Proof. exact (instance_isolation _ plsys pl_build pl_next pl_reset pl_copy). Qed.

(* and its StopIteration is sticky: once the expanded string has been read, next() raises StopIteration for ever *)
Theorem C09_lsystem_sticky : forall x x', pl_next x = (Val.Stop, x') ->
  pl_next x' = (Val.Stop, x') /\ forall n, Instances.alone plsys pl_next pl_reset 0 x' (repeat ONext n) = repeat Val.Stop n.
Proof. intros x x' H. split; [exact (pl_sticky x x' H)|exact (pl_dead x x' H)]. Qed.
Print Assumptions C09_lsystem_instances_independent.
Print Assumptions C09_lsystem_sticky.

(* non-vacuity: two PLSystem("N[-N++N]-N", 2, False) built from equal arguments and a copy of the first, rewound at different
   moments (all(3) on the second, reset() on the first) and advanced alternately inside their bracket spans: each follows the
   sequence 0 -1 1 -1 -2 -3 -1 -3 -1 -2 0 -2 -2 -3 -1 -3 from its own position *)
Example C09_lsystem_nonvacuous :
  let rule := [TN; TOpen; TMinus; TN; TPlus; TPlus; TN; TClose; TMinus; TN] in
  let P : list tok * nat * bool := (rule, 2%nat, false) in
  wtrace _ plsys pl_build pl_next pl_reset pl_copy 1000 []
    [WNew P; WNew P; WOp 0 ONext; WOp 0 ONext; WCopy 0; WOp 1 (OAll 3); WOp 0 OReset; WOp 0 ONext; WOp 1 ONext; WOp 0 ONext;
     WOp 1 ONext; WOp 2 ONext; WOp 0 ONext; WOp 1 ONext; WOp 2 ONext; WOp 0 (ONextN 3); WOp 2 (ONextN 3); WOp 1 OLen]%nat =
  [Yield VNone; Yield VNone; Yield (VInt 0); Yield (VInt (-1)); Yield VNone; Yield (VList [VInt 0; VInt (-1); VInt 1]);
   Yield VNone; Yield (VInt 0); Yield (VInt 0); Yield (VInt (-1)); Yield (VInt (-1)); Yield (VInt 1); Yield (VInt 1); Yield (VInt 1);
   Yield (VInt (-1)); Yield (VList [VInt (-1); VInt (-2); VInt (-3)]); Yield (VList [VInt (-2); VInt (-3); VInt (-1)]); Yield (VInt 13)].
Proof. vm_compute. reflexivity. Qed.

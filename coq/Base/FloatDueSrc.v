(* Base/FloatDueSrc.v - the due tests the SOURCE of isobar uses (translated on every run by harness/gen_tables_time.py
   from the text of Track.tick, Track.process_note_offs, Timeline.tick into Generated/TablesTime.v) are the ones
   Base/FloatDue.v is about.  Proved by reflexivity: if the source goes back to `round(a, 8) >= round(b, 8)` (the test
   refuted by tie_sharp_512), or changes in any other way, the translator emits a different term and this file stops
   compiling - a broken proof obligation of C01, not a silent pass. *)
From Coq Require Import ZArith Reals List.
From Flocq Require Import Core.
From Isobar Require Import Base.FloatGrid Base.FloatRound8 Base.FloatDue Generated.TablesTime.
Import ListNotations.
Open Scope R_scope.

(* Track.tick: if / while round(self.current_time - self.next_event_time, 8) >= 0 *)
Lemma src_track_due_is t x : src_track_due t x = float_due' t x.
Proof. reflexivity. Qed.
(* Track.process_note_offs: if round(note_off.timestamp - self.current_time, 8) <= 0 *)
Lemma src_noteoff_due_is ts t : src_noteoff_due ts t = float_le0' ts t.
Proof. reflexivity. Qed.
(* Timeline.tick: if round(action.time - self.current_time, 8) <= 0 *)
Lemma src_action_due_is a t : src_action_due a t = float_le0' a t.
Proof. reflexivity. Qed.

(** the decisions: every tpb; U = tau * tpb <= 10^8 / 2 units per beat; t, x, ts, a any reals within E <= 1/(6 * 10^8)
    of the exact tick time k / tpb and of the exact grid times (in units) *)
Theorem src_track_due_exact (U tpb tau k a : Z) (t x E : R) :
  (0 < tpb)%Z -> (0 < tau)%Z -> U = (tau * tpb)%Z -> (2 * U <= 10 ^ 8)%Z -> 6 * 10 ^ 8 * E <= 1 ->
  Rabs (t - IZR k / IZR tpb) <= E -> Rabs (x - IZR a / IZR U) <= E ->
  src_track_due t x = exact_due (k * tau) a.
Proof. exact (float_due'_bool U tpb tau k a t x E). Qed.

Theorem src_noteoff_due_exact (U tpb tau k b : Z) (t ts E : R) :
  (0 < tpb)%Z -> (0 < tau)%Z -> U = (tau * tpb)%Z -> (2 * U <= 10 ^ 8)%Z -> 6 * 10 ^ 8 * E <= 1 ->
  Rabs (t - IZR k / IZR tpb) <= E -> Rabs (ts - IZR b / IZR U) <= E ->
  src_noteoff_due ts t = (b <=? k * tau)%Z.       (* Sched/Model.v: no_due cur n = no_time n <=? cur *)
Proof. exact (float_le0'_bool U tpb tau k b t ts E). Qed.

Theorem src_action_due_exact (U tpb tau k b : Z) (t a E : R) :
  (0 < tpb)%Z -> (0 < tau)%Z -> U = (tau * tpb)%Z -> (2 * U <= 10 ^ 8)%Z -> 6 * 10 ^ 8 * E <= 1 ->
  Rabs (t - IZR k / IZR tpb) <= E -> Rabs (a - IZR b / IZR U) <= E ->
  src_action_due a t = (b <=? k * tau)%Z.          (* Sched/Model.v: a_time a <=? now tl *)
Proof. exact (float_le0'_bool U tpb tau k b t a E). Qed.

(** the loop and the run of Track.tick with the source's own test AND the source's own clock expression *)
Theorem src_while_exact (tpb tau s : Z) (Us : list Z) (T : R) (k : Z) :
  admissible' tpb tau s Us T -> (0 <= k)%Z -> IZR k <= T * IZR tpb ->
  forall post pre, Us = pre ++ post ->
  exists pre' post', Us = pre' ++ post' /\
    fl_while src_track_due (RN (IZR k / IZR tpb)) (Xf tpb tau s pre) (map (Dof (tau * tpb)) post)
      = (Xf tpb tau s pre', map (Dof (tau * tpb)) post') /\
    ex_while (k * tau) (Ax tau s pre) post = (Ax tau s pre', post').
Proof. exact (while'_float_exact tpb tau s Us T k). Qed.

(* the clock: Track.current_time as the source computes it (relative tick grid, constant resolution, from 0) *)
Theorem src_run_exact (tpb tau s : Z) (Us : list Z) (T : R) (n : nat) :
  admissible' tpb tau s Us T -> (tpb <= 2 ^ 20)%Z -> (Z.of_nat n <= 2 ^ 32)%Z -> IZR (Z.of_nat n) <= T * IZR tpb ->
  exists pre post, Us = pre ++ post /\
    fl_run src_track_due (fun m => fst (Nat.iter m (src_track_step tpb) (0, src_tick_grid_init))) n
           (RN (IZR s / IZR tpb), map (Dof (tau * tpb)) Us)
      = (Xf tpb tau s pre, map (Dof (tau * tpb)) post) /\
    ex_run tau n ((s * tau)%Z, Us) = (Ax tau s pre, post).
Proof. exact (run'_float_exact_tick tpb tau s Us T n). Qed.

(* the number of events consumed after n ticks: float computation = exact arithmetic, every tpb <= 2^20 *)
Corollary src_consumed_exact (tpb tau s : Z) (Us : list Z) (T : R) (n : nat) :
  admissible' tpb tau s Us T -> (tpb <= 2 ^ 20)%Z -> (Z.of_nat n <= 2 ^ 32)%Z -> IZR (Z.of_nat n) <= T * IZR tpb ->
  length (snd (fl_run src_track_due (fun m => fst (Nat.iter m (src_track_step tpb) (0, src_tick_grid_init))) n
                      (RN (IZR s / IZR tpb), map (Dof (tau * tpb)) Us)))
  = length (snd (ex_run tau n ((s * tau)%Z, Us))).
Proof.
  intros A H1 H2 H3. destruct (src_run_exact tpb tau s Us T n A H1 H2 H3) as (pre & post & _ & B & C).
  rewrite B, C. simpl. apply map_length.
Qed.

Print Assumptions src_track_due_exact.
Print Assumptions src_noteoff_due_exact.
Print Assumptions src_run_exact.
(* each prints exactly: ClassicalDedekindReals.sig_not_dec, ClassicalDedekindReals.sig_forall_dec,
   FunctionalExtensionality.functional_extensionality_dep, Classical_Prop.classic (the standard library's real numbers) *)

(* Binary64 model of how isobar advances musical time (Timeline.tick / Track.tick after repair 2bc35ef):
   every float operation is one correctly rounded IEEE-754 binary64 operation (Flocq: round radix2 (FLT_exp (-1074) 53) ZnearestE).
   Theorems: one step from the correctly rounded k/tpb gives the correctly rounded (k+1)/tpb, hence after n ticks the
   float time IS the correctly rounded n/tpb: no error accumulates, for every tpb <= 2^20 and n <= 2^40.
   Depends on the axioms of Coq's classical real numbers (standard library): see Print Assumptions in Props/C01.v. *)
From Coq Require Import ZArith Reals Lra Lia.
From Flocq Require Import Core Relative.

Open Scope R_scope.

Definition fexp64 := FLT_exp (-1074) 53.
Definition RN (x : R) : R := round radix2 fexp64 ZnearestE x.

Lemma RN_eps x : x = 0 \/ bpow radix2 (-1022) <= Rabs x ->
  exists e, Rabs e <= bpow radix2 (-53) /\ RN x = x * (1 + e).
Proof.
  intros [->|H].
  - exists 0. split. rewrite Rabs_R0. apply bpow_ge_0. unfold RN. rewrite round_0. ring. apply valid_rnd_N.
  - destruct (relative_error_N_FLT_ex radix2 (-1074) 53 ltac:(lia) (fun x => negb (Z.even x)) x) as [e [He1 He2]].
    + exact H.
    + exists e. split; [|exact He2].
      replace (bpow radix2 (-53)) with (/2 * bpow radix2 (-53+1)). exact He1.
      change (bpow radix2 (-53+1)) with (bpow radix2 (-52)).
      rewrite (bpow_plus radix2 (-53) 1) || idtac.
      replace (-52)%Z with (-53 + 1)%Z by lia. rewrite bpow_plus. simpl (bpow radix2 1). lra.
Qed.

(* Python's round(x) of a float: nearest integer, ties to even *)
Definition pyround (x : R) : Z := ZnearestE x.

(* Timeline.tick / Track.tick: current_time = round((current_time + tick_duration) * tpb) / tpb,
   tick_duration = 1.0 / tpb; every float operation is one correctly rounded binary64 operation;
   int / int true division is correctly rounded by CPython *)
Definition tick_duration (tpb : Z) : R := RN (1 / IZR tpb).
Definition grid_step (tpb : Z) (t : R) : R :=
  RN (IZR (pyround (RN (RN (t + tick_duration tpb) * IZR tpb))) / IZR tpb).

Lemma bpow_m1022_small : bpow radix2 (-1022) <= bpow radix2 (-22).
Proof. apply bpow_le. lia. Qed.

Lemma three_eps a b c : Rabs a <= bpow radix2 (-53) -> Rabs b <= bpow radix2 (-53) -> Rabs c <= bpow radix2 (-53) ->
  Rabs ((1 + a) * (1 + b) * (1 + c) - 1) <= bpow radix2 (-51).
Proof.
  replace (bpow radix2 (-51)) with (4 * bpow radix2 (-53)).
  2:{ change (bpow radix2 (-53)) with (/ 9007199254740992). change (bpow radix2 (-51)) with (/ 2251799813685248). lra. }
  assert (U : 0 < bpow radix2 (-53) <= / 8).
  { split. apply bpow_gt_0. change (bpow radix2 (-53)) with (/ 9007199254740992). lra. }
  set (u := bpow radix2 (-53)) in *.
  intros Ha Hb Hc. apply Rabs_le_inv in Ha. apply Rabs_le_inv in Hb. apply Rabs_le_inv in Hc.
  assert (AB : - (u * u) <= a * b <= u * u) by nra.
  assert (AC : - (u * u) <= a * c <= u * u) by nra.
  assert (BC : - (u * u) <= b * c <= u * u) by nra.
  assert (UU : 0 <= u * u <= u * / 8) by nra.
  assert (ABC : - (u * u * u) <= a * b * c <= u * u * u) by nra.
  assert (UUU : 0 <= u * u * u <= u * u) by nra.
  replace ((1 + a) * (1 + b) * (1 + c) - 1) with (a + b + c + a * b + a * c + b * c + a * b * c) by ring.
  apply Rabs_le. lra.
Qed.

Theorem grid_step_exact (tpb k : Z) :
  (1 <= tpb <= 2^20)%Z -> (0 <= k < 2^40)%Z ->
  grid_step tpb (RN (IZR k / IZR tpb)) = RN (IZR (k + 1) / IZR tpb).
Proof.
  intros Htpb Hk. unfold grid_step. f_equal. f_equal. f_equal.
  apply Znearest_imp.
  assert (T1 : 1 <= IZR tpb) by (apply IZR_le; lia).
  assert (T2 : IZR tpb <= 1048576) by (apply IZR_le; lia).
  assert (K1 : 0 <= IZR k) by (apply IZR_le; lia).
  assert (K2 : IZR k <= 1099511627776) by (apply IZR_le; lia).
  assert (B22 : bpow radix2 (-22) = / 4194304) by reflexivity.
  assert (Hinv : / 1048576 <= / IZR tpb <= 1).
  { split. apply Rinv_le_contravar; lra. rewrite <- Rinv_1. apply Rinv_le_contravar; lra. }
  (* t *)
  destruct (RN_eps (IZR k / IZR tpb)) as [e1 [E1 R1]].
  { destruct (Z.eq_dec k 0) as [->|Hk0]. left. unfold Rdiv. ring.
    right. eapply Rle_trans. apply bpow_m1022_small. rewrite B22.
    assert (1 <= IZR k) by (apply IZR_le; lia).
    rewrite Rabs_pos_eq. unfold Rdiv. nra. unfold Rdiv. nra. }
  (* d *)
  destruct (RN_eps (1 / IZR tpb)) as [e2 [E2 R2]].
  { right. eapply Rle_trans. apply bpow_m1022_small. rewrite B22.
    rewrite Rabs_pos_eq; unfold Rdiv; lra. }
  unfold tick_duration. rewrite R1, R2.
  assert (U : bpow radix2 (-53) = / 9007199254740992) by reflexivity.
  rewrite U in *.
  assert (E1' := Rabs_le_inv _ _ E1). assert (E2' := Rabs_le_inv _ _ E2).
  set (x := IZR k / IZR tpb * (1 + e1) + 1 / IZR tpb * (1 + e2)).
  assert (X : / 2097152 <= x).
  { unfold x, Rdiv. set (iv := / IZR tpb) in *.
    assert (0 <= IZR k * iv) by nra.
    assert (0 <= IZR k * iv * (1 + e1)) by (apply Rmult_le_pos; lra).
    assert (/ 1048576 * (1 + e2) <= iv * (1 + e2)) by (apply Rmult_le_compat_r; lra).
    lra. }
  destruct (RN_eps x) as [e3 [E3 R3]].
  { right. eapply Rle_trans. apply bpow_m1022_small. rewrite B22. rewrite Rabs_pos_eq; lra. }
  rewrite R3. rewrite U in E3. assert (E3' := Rabs_le_inv _ _ E3).
  destruct (RN_eps (x * (1 + e3) * IZR tpb)) as [e4 [E4 R4]].
  { right. eapply Rle_trans. apply bpow_m1022_small. rewrite B22.
    assert (/ 2097152 * / 2 <= x * (1 + e3)) by (apply Rmult_le_compat; lra).
    assert (x * (1 + e3) * 1 <= x * (1 + e3) * IZR tpb) by (apply Rmult_le_compat_l; lra).
    rewrite Rabs_pos_eq; lra. }
  rewrite R4. rewrite U in E4.
  replace (x * (1 + e3) * IZR tpb * (1 + e4) - IZR (k + 1))
    with (IZR k * ((1 + e1) * (1 + e3) * (1 + e4) - 1) + ((1 + e2) * (1 + e3) * (1 + e4) - 1)).
  2:{ unfold x. rewrite plus_IZR. field. lra. }
  rewrite <- U in E1, E2, E3, E4.
  pose proof (three_eps e1 e3 e4 E1 E3 E4) as A.
  pose proof (three_eps e2 e3 e4 E2 E3 E4) as B.
  change (bpow radix2 (-51)) with (/ 2251799813685248) in A, B.
  apply Rabs_le_inv in A. apply Rabs_le_inv in B.
  apply Rabs_def1; nra.
Qed.

(* every reachable time: after n ticks from 0.0 the float time is the correctly rounded n / tpb - the error never
   accumulates (n up to 2^40 ticks: more than 70 years at 480 ticks per beat and 120 bpm) *)
Theorem grid_run_exact (tpb : Z) (n : nat) :
  (1 <= tpb <= 2^20)%Z -> (Z.of_nat n <= 2^40)%Z ->
  Nat.iter n (grid_step tpb) 0 = RN (IZR (Z.of_nat n) / IZR tpb).
Proof.
  intros Htpb. induction n as [|n IH]; intros Hn.
  - simpl. unfold Rdiv. rewrite Rmult_0_l. unfold RN. rewrite round_0. reflexivity. apply valid_rnd_N.
  - change (Nat.iter (S n) (grid_step tpb) 0) with (grid_step tpb (Nat.iter n (grid_step tpb) 0)). rewrite IH by lia. rewrite grid_step_exact by lia. f_equal. f_equal. f_equal. lia.
Qed.

(* distance from the exact grid point: one rounding, relative 2^-53 - independent of n *)
Corollary grid_run_error (tpb : Z) (n : nat) :
  (1 <= tpb <= 2^20)%Z -> (Z.of_nat n <= 2^40)%Z ->
  Rabs (Nat.iter n (grid_step tpb) 0 - IZR (Z.of_nat n) / IZR tpb) <= bpow radix2 (-53) * (IZR (Z.of_nat n) / IZR tpb).
Proof.
  intros Htpb Hn. rewrite grid_run_exact by assumption.
  assert (T1 : 1 <= IZR tpb) by (apply IZR_le; lia).
  assert (K1 : 0 <= IZR (Z.of_nat n)) by (apply IZR_le; lia).
  assert (P : 0 <= IZR (Z.of_nat n) / IZR tpb).
  { unfold Rdiv. apply Rmult_le_pos. lra. left. apply Rinv_0_lt_compat. lra. }
  destruct (RN_eps (IZR (Z.of_nat n) / IZR tpb)) as [e [E R]].
  { destruct n as [|n]. left. unfold Rdiv. simpl. ring.
    right. eapply Rle_trans. apply bpow_m1022_small. change (bpow radix2 (-22)) with (/ 4194304).
    assert (1 <= IZR (Z.of_nat (S n))) by (apply IZR_le; lia).
    assert (IZR tpb <= 1048576) by (apply IZR_le; lia).
    assert (/ 1048576 <= / IZR tpb) by (apply Rinv_le_contravar; lra).
    rewrite Rabs_pos_eq by exact P. unfold Rdiv.
    assert (1 * / 1048576 <= IZR (Z.of_nat (S n)) * / IZR tpb) by (apply Rmult_le_compat; lra). lra. }
  rewrite R. replace (IZR (Z.of_nat n) / IZR tpb * (1 + e) - IZR (Z.of_nat n) / IZR tpb) with (e * (IZR (Z.of_nat n) / IZR tpb)) by ring.
  rewrite Rabs_mult. rewrite (Rabs_pos_eq _ P). apply Rmult_le_compat_r; assumption.
Qed.

(** * The relative tick grid (repair C01-retick-snap): isobar.util.advance_on_tick_grid

   def advance_on_tick_grid(current_time, ticks_per_beat, grid):
       origin, grid_ticks_per_beat = grid
       if grid_ticks_per_beat is None: grid_ticks_per_beat = ticks_per_beat
       position = (current_time - origin) * ticks_per_beat
       if grid_ticks_per_beat != ticks_per_beat or abs(position - round(position)) > 1e-6:
           origin, position = current_time, 0
       return origin + (round(position) + 1) / ticks_per_beat, (origin, ticks_per_beat)

   Model: every float operation one RN; float - int and float * int convert the int exactly (|int| < 2^53);
   round(position) = pyround; abs is exact; the literal 1e-6 is the double nearest to 10^-6, RN (1 / 10^6);
   int + 1 exact; (int) / (int) correctly rounded; origin + <that> one more float addition.
   The old theorems above (grid_step) are kept: with a constant resolution the two computations agree
   (tick_run_exact below gives the same RN (n / tpb)). *)

Global Instance prec53_gt_0 : Prec_gt_0 53 := eq_refl.
Lemma fexp64_valid : Valid_exp fexp64.
Proof. unfold fexp64. apply FLT_exp_valid. exact prec53_gt_0. Qed.

Lemma RN_le x y : x <= y -> RN x <= RN y.
Proof. intros H. unfold RN. apply round_le; [exact fexp64_valid | apply valid_rnd_N | exact H]. Qed.

Lemma RN_0 : RN 0 = 0.
Proof. unfold RN. apply round_0. apply valid_rnd_N. Qed.

Lemma RN_opp x : RN (- x) = - RN x.
Proof. unfold RN. apply round_NE_opp. Qed.

Lemma RN_format x : generic_format radix2 fexp64 (RN x).
Proof. unfold RN. apply generic_format_round. exact fexp64_valid. apply valid_rnd_N. Qed.

Lemma RN_generic x : generic_format radix2 fexp64 x -> RN x = x.
Proof. intros H. unfold RN. apply round_generic. apply valid_rnd_N. exact H. Qed.

Lemma RN_idem x : RN (RN x) = RN x.
Proof. apply RN_generic. apply RN_format. Qed.

(* the double nearest to the literal 1e-6 *)
Definition c6 : R := RN (1 / 10 ^ 6).

Lemma c6_ge : bpow radix2 (-20) <= c6.
Proof.
  unfold c6, RN. apply round_ge_generic; [exact fexp64_valid | apply valid_rnd_N | |].
  - apply generic_format_bpow. unfold fexp64, FLT_exp. lia.
  - change (bpow radix2 (-20)) with (/ 1048576). simpl. lra.
Qed.

Definition advance_core (t : R) (tpb : Z) (origin : R) (g : Z) : R * (R * Z) :=
  let position := RN (RN (t - origin) * IZR tpb) in
  if orb (negb (g =? tpb)%Z) (Rlt_bool c6 (Rabs (RN (position - IZR (pyround position)))))
  then (RN (t + RN (IZR (0 + 1) / IZR tpb)), (t, tpb))
  else (RN (origin + RN (IZR (pyround position + 1) / IZR tpb)), (origin, tpb)).

Definition advance (t : R) (tpb : Z) (origin : R) (g : option Z) : R * (R * Z) :=
  match g with
  | None => advance_core t tpb origin tpb
  | Some g0 => advance_core t tpb origin g0
  end.

(* a clock: (current_time, _tick_grid); initially (0.0, (0.0, None)) *)
Definition clock : Type := R * (R * option Z).
Definition clock0 : clock := (0, (0, None)).
(* self.current_time, self._tick_grid = advance_on_tick_grid(self.current_time, tpb, self._tick_grid) *)
Definition tick_step (tpb : Z) (c : clock) : clock :=
  let '(t, (o, g)) := c in let '(t', (o', g')) := advance t tpb o g in (t', (o', Some g')).

(* if the position is within 2^-20 of the whole number m, round() finds m and the off-grid test does not fire *)
Lemma advance_tail (position : R) (m : Z) :
  Rabs (position - IZR m) <= bpow radix2 (-20) ->
  pyround position = m /\ Rlt_bool c6 (Rabs (RN (position - IZR m))) = false.
Proof.
  intros H. split.
  - unfold pyround. apply Znearest_imp. eapply Rle_lt_trans. exact H. change (bpow radix2 (-20)) with (/ 1048576). lra.
  - apply Rlt_bool_false. eapply Rle_trans; [|exact c6_ge].
    unfold RN. apply abs_round_le_generic; [exact fexp64_valid | apply valid_rnd_N | | exact H].
    apply generic_format_bpow. unfold fexp64, FLT_exp. lia.
Qed.

(* (a) constant resolution, grid anchored at 0 *)
Lemma advance_core_const (tpb k : Z) :
  (1 <= tpb <= 2^20)%Z -> (0 <= k < 2^32)%Z ->
  advance_core (RN (IZR k / IZR tpb)) tpb 0 tpb = (RN (IZR (k + 1) / IZR tpb), (0, tpb)).
Proof.
  intros Htpb Hk. unfold advance_core. rewrite Z.eqb_refl. simpl negb. simpl orb.
  rewrite Rminus_0_r, RN_idem.
  assert (T1 : 1 <= IZR tpb) by (apply IZR_le; lia).
  assert (T2 : IZR tpb <= 1048576) by (apply IZR_le; lia).
  assert (P : Rabs (RN (RN (IZR k / IZR tpb) * IZR tpb) - IZR k) <= bpow radix2 (-20)).
  { destruct (Z.eq_dec k 0) as [->|Hk0].
    - unfold Rdiv. rewrite Rmult_0_l, RN_0, Rmult_0_l, RN_0. rewrite Rminus_0_r, Rabs_R0. apply bpow_ge_0.
    - assert (K1 : 1 <= IZR k) by (apply IZR_le; lia).
      assert (K2 : IZR k <= 4294967295) by (apply IZR_le; lia).
      assert (Hinv : / 1048576 <= / IZR tpb <= 1).
      { split. apply Rinv_le_contravar; lra. rewrite <- Rinv_1. apply Rinv_le_contravar; lra. }
      destruct (RN_eps (IZR k / IZR tpb)) as [e1 [E1 R1]].
      { right. eapply Rle_trans. apply bpow_m1022_small. change (bpow radix2 (-22)) with (/ 4194304).
        rewrite Rabs_pos_eq; unfold Rdiv; nra. }
      rewrite R1.
      assert (X : IZR k / IZR tpb * (1 + e1) * IZR tpb = IZR k * (1 + e1)) by (field; lra).
      rewrite X. change (bpow radix2 (-53)) with (/ 9007199254740992) in E1. apply Rabs_le_inv in E1.
      destruct (RN_eps (IZR k * (1 + e1))) as [e4 [E4 R4]].
      { right. eapply Rle_trans. apply bpow_m1022_small. change (bpow radix2 (-22)) with (/ 4194304).
        rewrite Rabs_pos_eq; nra. }
      rewrite R4. change (bpow radix2 (-53)) with (/ 9007199254740992) in E4. apply Rabs_le_inv in E4.
      change (bpow radix2 (-20)) with (/ 1048576).
      replace (IZR k * (1 + e1) * (1 + e4) - IZR k) with (IZR k * (e1 + e4 + e1 * e4)) by ring.
      set (u := / 9007199254740992) in *.
      assert (EE : - (u * u) <= e1 * e4 <= u * u) by (unfold u in *; nra).
      assert (S1 : - (2 * u + u * u) <= e1 + e4 + e1 * e4 <= 2 * u + u * u) by lra.
      assert (C : 4294967295 * (2 * u + u * u) <= / 1048576) by (unfold u; lra).
      apply Rabs_le. unfold u in *. nra. }
  destruct (advance_tail _ _ P) as [Q1 Q2]. rewrite Q1, Q2.
  rewrite Rplus_0_l, RN_idem. reflexivity.
Qed.

(* (b) a grid anchored at an arbitrary double t0 >= 0: from t0 + RN (m / tpb) to t0 + RN ((m+1) / tpb), as long as
   the clock, counted in ticks of the resolution in force, stays below 2^30 *)
Lemma advance_core_anchored (tpb m : Z) (t0 : R) :
  (1 <= tpb <= 2^20)%Z -> (0 <= m)%Z -> generic_format radix2 fexp64 t0 -> 0 <= t0 ->
  IZR tpb * t0 + IZR m <= 1073741824 ->
  advance_core (RN (t0 + RN (IZR m / IZR tpb))) tpb t0 tpb = (RN (t0 + RN (IZR (m + 1) / IZR tpb)), (t0, tpb)).
Proof.
  intros Htpb Hm F0 P0 Hb. unfold advance_core. rewrite Z.eqb_refl. simpl negb. simpl orb.
  assert (T1 : 1 <= IZR tpb) by (apply IZR_le; lia).
  assert (T2 : IZR tpb <= 1048576) by (apply IZR_le; lia).
  set (t := RN (t0 + RN (IZR m / IZR tpb))).
  assert (P : Rabs (RN (RN (t - t0) * IZR tpb) - IZR m) <= bpow radix2 (-20)).
  { unfold t. destruct (Z.eq_dec m 0) as [->|Hm0].
    - unfold Rdiv. rewrite Rmult_0_l, RN_0, Rplus_0_r, (RN_generic t0 F0).
      replace (t0 - t0) with 0 by ring. rewrite RN_0, Rmult_0_l, RN_0, Rminus_0_r, Rabs_R0. apply bpow_ge_0.
    - assert (M1 : 1 <= IZR m) by (apply IZR_le; lia).
      assert (M2 : IZR m <= 1073741824) by nra.
      assert (Hinv : / 1048576 <= / IZR tpb <= 1).
      { split. apply Rinv_le_contravar; lra. rewrite <- Rinv_1. apply Rinv_le_contravar; lra. }
      assert (B22 : bpow radix2 (-22) = / 4194304) by reflexivity.
      assert (MP : / 1048576 <= IZR m / IZR tpb) by (unfold Rdiv; nra).
      destruct (RN_eps (IZR m / IZR tpb)) as [e3 [E3 R3]].
      { right. eapply Rle_trans. apply bpow_m1022_small. rewrite B22. rewrite Rabs_pos_eq; lra. }
      change (bpow radix2 (-53)) with (/ 9007199254740992) in E3. apply Rabs_le_inv in E3.
      set (u := / 9007199254740992) in *.
      set (d := RN (IZR m / IZR tpb)) in *.
      assert (D1 : / 2097152 <= d) by (rewrite R3; unfold u in *; nra).
      destruct (RN_eps (t0 + d)) as [e1 [E1 R1]].
      { right. eapply Rle_trans. apply bpow_m1022_small. rewrite B22. rewrite Rabs_pos_eq; lra. }
      change (bpow radix2 (-53)) with u in E1. apply Rabs_le_inv in E1.
      (* W = tpb * (t0 + d): the clock in ticks *)
      set (W := IZR tpb * (t0 + d)).
      assert (PD : IZR tpb * d = IZR m * (1 + e3)) by (rewrite R3; field; lra).
      assert (W1 : 0 <= W <= 2147483648) by (unfold W, u in *; nra).
      (* y = t - t0 *)
      assert (Y : IZR tpb * (RN (t0 + d) - t0) = IZR m * (1 + e3) + W * e1).
      { rewrite R1. unfold W. rewrite <- PD. ring. }
      assert (Y1 : / 2 <= IZR tpb * (RN (t0 + d) - t0)).
      { rewrite Y. assert (- (2147483648 * u) <= W * e1) by (unfold u in *; nra). unfold u in *; nra. }
      assert (Y2 : / 2097152 <= RN (t0 + d) - t0) by nra.
      destruct (RN_eps (RN (t0 + d) - t0)) as [e2 [E2 R2]].
      { right. eapply Rle_trans. apply bpow_m1022_small. rewrite B22. rewrite Rabs_pos_eq; lra. }
      change (bpow radix2 (-53)) with u in E2. rewrite R2.
      destruct (RN_eps ((RN (t0 + d) - t0) * (1 + e2) * IZR tpb)) as [e4 [E4 R4]].
      { right. eapply Rle_trans. apply bpow_m1022_small. rewrite B22.
        assert (E2' := Rabs_le_inv _ _ E2).
        assert (/ 2097152 * / 2 <= (RN (t0 + d) - t0) * (1 + e2)) by (apply Rmult_le_compat; unfold u in *; lra).
        rewrite Rabs_pos_eq; nra. }
      change (bpow radix2 (-53)) with u in E4. rewrite R4.
      replace ((RN (t0 + d) - t0) * (1 + e2) * IZR tpb * (1 + e4) - IZR m)
        with (IZR m * ((1 + e3) * (1 + e2) * (1 + e4) - 1) + W * (e1 * ((1 + e2) * (1 + e4)))).
      2:{ replace ((RN (t0 + d) - t0) * (1 + e2) * IZR tpb * (1 + e4))
            with (IZR tpb * (RN (t0 + d) - t0) * ((1 + e2) * (1 + e4))) by ring.
          rewrite Y. ring. }
      assert (E3a : Rabs e3 <= bpow radix2 (-53)) by (apply Rabs_le; exact E3).
      pose proof (three_eps e3 e2 e4 E3a E2 E4) as A.
      change (bpow radix2 (-51)) with (/ 2251799813685248) in A. apply Rabs_le_inv in A.
      apply Rabs_le_inv in E2. apply Rabs_le_inv in E4.
      assert (Q : 0 <= (1 + e2) * (1 + e4) <= 2) by (unfold u in *; nra).
      assert (B : - (2 * u) <= e1 * ((1 + e2) * (1 + e4)) <= 2 * u) by (unfold u in *; nra).
      set (a := (1 + e3) * (1 + e2) * (1 + e4) - 1) in *. set (b := e1 * ((1 + e2) * (1 + e4))) in *.
      assert (MA : - (1073741824 * / 2251799813685248) <= IZR m * a <= 1073741824 * / 2251799813685248) by nra.
      assert (WB : - (2147483648 * (2 * u)) <= W * b <= 2147483648 * (2 * u)) by (unfold u in *; nra).
      change (bpow radix2 (-20)) with (/ 1048576). apply Rabs_le. unfold u in *. lra. }
  destruct (advance_tail _ _ P) as [Q1 Q2]. rewrite Q1, Q2. reflexivity.
Qed.

(** (a) constant resolution from time 0: the time after n ticks is the correctly rounded n / tpb, the grid stays
    anchored at 0.0 and the off-grid test never fires - for all tpb <= 2^20 and n <= 2^32 ticks (51 days at 480 ticks
    per beat and 120 bpm).  The bound is what the test `> 1e-6` allows: position = RN (RN (k/tpb) * tpb) is only known
    to be within k (2^-52 + 2^-106) of k, which is below 2^-20 <= RN(1e-6) exactly for k < 2^32.  The bound is sharp up
    to a small factor: e.g. tpb = 480, k = 545317434769 (about 2^39): (k / 480) * 480 - k = 6.1e-5 > 1e-6 in binary64, so
    there the code re-anchors the grid at the current time - harmless for the music (the time is still origin + m / tpb
    with one addition, retick_run_exact's form) but not the statement below; 2^39 ticks are 18 years at 960 ticks/s. *)
Theorem tick_run_exact (tpb : Z) (n : nat) :
  (1 <= tpb <= 2^20)%Z -> (1 <= n)%nat -> (Z.of_nat n <= 2^32)%Z ->
  Nat.iter n (tick_step tpb) clock0 = (RN (IZR (Z.of_nat n) / IZR tpb), (0, Some tpb)).
Proof.
  intros Htpb. induction n as [|n IH]; intros H1 Hn. lia.
  destruct n as [|n].
  - simpl Nat.iter. unfold tick_step, clock0, advance.
    pose proof (advance_core_const tpb 0 Htpb ltac:(lia)) as A.
    unfold Rdiv at 1 in A. rewrite Rmult_0_l, RN_0 in A. rewrite A. reflexivity.
  - change (Nat.iter (S (S n)) (tick_step tpb) clock0) with (tick_step tpb (Nat.iter (S n) (tick_step tpb) clock0)).
    rewrite IH by lia. unfold tick_step, advance.
    rewrite (advance_core_const tpb (Z.of_nat (S n)) Htpb ltac:(lia)).
    replace (Z.of_nat (S n) + 1)%Z with (Z.of_nat (S (S n))) by lia. reflexivity.
Qed.

Corollary tick_run_time (tpb : Z) (n : nat) :
  (1 <= tpb <= 2^20)%Z -> (Z.of_nat n <= 2^32)%Z ->
  fst (Nat.iter n (tick_step tpb) clock0) = RN (IZR (Z.of_nat n) / IZR tpb).
Proof.
  intros Htpb Hn. destruct n as [|n].
  - simpl. unfold Rdiv. rewrite Rmult_0_l, RN_0. reflexivity.
  - rewrite tick_run_exact by (try assumption; lia). reflexivity.
Qed.

(* the old and the new computation agree at constant resolution *)
Corollary tick_run_is_grid_run (tpb : Z) (n : nat) :
  (1 <= tpb <= 2^20)%Z -> (Z.of_nat n <= 2^32)%Z ->
  fst (Nat.iter n (tick_step tpb) clock0) = Nat.iter n (grid_step tpb) 0.
Proof.
  intros Htpb Hn. rewrite tick_run_time by assumption. rewrite grid_run_exact. reflexivity. assumption. lia.
Qed.

(** (b) change of resolution at an arbitrary time t0 (any double >= 0): the clock held the grid (o, g) with g <> tpb2;
    the grid re-anchors at t0 and after m >= 1 ticks at tpb2 the time is RN (t0 + RN (m / tpb2)): one float addition from
    the exact origin - the error does not grow with m.  Hypothesis: the clock counted in new ticks, tpb2 * t0 + m, stays
    below 2^30 (so that the off-grid test does not fire spuriously). *)
Theorem retick_run_exact (tpb2 g : Z) (t0 o : R) (m : nat) :
  (1 <= tpb2 <= 2^20)%Z -> g <> tpb2 -> generic_format radix2 fexp64 t0 -> 0 <= t0 ->
  (1 <= m)%nat -> IZR tpb2 * t0 + IZR (Z.of_nat m) <= 1073741824 ->
  Nat.iter m (tick_step tpb2) (t0, (o, Some g)) = (RN (t0 + RN (IZR (Z.of_nat m) / IZR tpb2)), (t0, Some tpb2)).
Proof.
  intros Htpb Hg F0 P0. induction m as [|m IH]; intros H1 Hb. lia.
  destruct m as [|m].
  - simpl Nat.iter. unfold tick_step, advance, advance_core.
    apply Z.eqb_neq in Hg. rewrite Hg. simpl negb. simpl orb. reflexivity.
  - change (Nat.iter (S (S m)) (tick_step tpb2) (t0, (o, Some g)))
      with (tick_step tpb2 (Nat.iter (S m) (tick_step tpb2) (t0, (o, Some g)))).
    assert (LE : IZR (Z.of_nat (S m)) <= IZR (Z.of_nat (S (S m)))) by (apply IZR_le; lia).
    rewrite IH by (try lia; lra). unfold tick_step, advance.
    rewrite (advance_core_anchored tpb2 (Z.of_nat (S m)) t0 Htpb ltac:(lia) F0 P0 ltac:(lra)).
    replace (Z.of_nat (S m) + 1)%Z with (Z.of_nat (S (S m))) by lia. reflexivity.
Qed.

(* the distance from the exact time t0 + m / tpb2: two roundings, independent of m *)
Corollary retick_run_error (tpb2 : Z) (t0 : R) (m : Z) :
  (1 <= tpb2 <= 2^20)%Z -> 0 <= t0 -> (1 <= m)%Z ->
  Rabs (RN (t0 + RN (IZR m / IZR tpb2)) - (t0 + IZR m / IZR tpb2))
    <= (2 * bpow radix2 (-53) + bpow radix2 (-53) * bpow radix2 (-53)) * (t0 + IZR m / IZR tpb2).
Proof.
  intros Htpb P0 Hm.
  assert (T1 : 1 <= IZR tpb2) by (apply IZR_le; lia).
  assert (T2 : IZR tpb2 <= 1048576) by (apply IZR_le; lia).
  assert (M1 : 1 <= IZR m) by (apply IZR_le; lia).
  assert (Hinv : / 1048576 <= / IZR tpb2 <= 1).
  { split. apply Rinv_le_contravar; lra. rewrite <- Rinv_1. apply Rinv_le_contravar; lra. }
  assert (MP : / 1048576 <= IZR m / IZR tpb2) by (unfold Rdiv; nra).
  destruct (RN_eps (IZR m / IZR tpb2)) as [e3 [E3 R3]].
  { right. eapply Rle_trans. apply bpow_m1022_small. change (bpow radix2 (-22)) with (/ 4194304). rewrite Rabs_pos_eq; lra. }
  change (bpow radix2 (-53)) with (/ 9007199254740992) in *. apply Rabs_le_inv in E3.
  set (q := IZR m / IZR tpb2) in *. rewrite R3.
  destruct (RN_eps (t0 + q * (1 + e3))) as [e1 [E1 R1]].
  { right. eapply Rle_trans. apply bpow_m1022_small. change (bpow radix2 (-22)) with (/ 4194304). rewrite Rabs_pos_eq; nra. }
  rewrite R1. change (bpow radix2 (-53)) with (/ 9007199254740992) in E1. apply Rabs_le_inv in E1.
  replace ((t0 + q * (1 + e3)) * (1 + e1) - (t0 + q)) with (q * e3 * (1 + e1) + (t0 + q) * e1) by ring.
  set (u := / 9007199254740992) in *.
  assert (U0 : 0 < u) by (unfold u; lra).
  assert (E31 : - (u * u) <= e3 * e1 <= u * u) by nra.
  assert (EE : - (u * (1 + u)) <= e3 * (1 + e1) <= u * (1 + u)) by lra.
  assert (Q1 : 0 <= q) by lra.
  assert (A : - (q * (u * (1 + u))) <= q * (e3 * (1 + e1)) <= q * (u * (1 + u))).
  { split. replace (- (q * (u * (1 + u)))) with (q * - (u * (1 + u))) by ring.
    apply Rmult_le_compat_l; lra. apply Rmult_le_compat_l; lra. }
  assert (TQ : 0 <= t0 + q) by lra.
  assert (B : - ((t0 + q) * u) <= (t0 + q) * e1 <= (t0 + q) * u).
  { split. replace (- ((t0 + q) * u)) with ((t0 + q) * - u) by ring.
    apply Rmult_le_compat_l; lra. apply Rmult_le_compat_l; lra. }
  assert (Q0 : q * (u * (1 + u)) <= (t0 + q) * (u * (1 + u))).
  { apply Rmult_le_compat_r. nra. lra. }
  replace (q * e3 * (1 + e1)) with (q * (e3 * (1 + e1))) by ring.
  apply Rabs_le. unfold u in *. lra.
Qed.

(* every tick after the change lasts 1 / tpb2 up to that error: this is what the repair is for *)
Corollary retick_tick_length (tpb2 : Z) (t0 : R) (m : Z) :
  (1 <= tpb2 <= 2^20)%Z -> 0 <= t0 -> (1 <= m)%Z ->
  Rabs (RN (t0 + RN (IZR (m + 1) / IZR tpb2)) - RN (t0 + RN (IZR m / IZR tpb2)) - 1 / IZR tpb2)
    <= 2 * ((2 * bpow radix2 (-53) + bpow radix2 (-53) * bpow radix2 (-53)) * (t0 + IZR (m + 1) / IZR tpb2)).
Proof.
  intros Htpb P0 Hm.
  pose proof (retick_run_error tpb2 t0 m Htpb P0 Hm) as A.
  pose proof (retick_run_error tpb2 t0 (m + 1) Htpb P0 ltac:(lia)) as B.
  assert (T1 : 1 <= IZR tpb2) by (apply IZR_le; lia).
  assert (I0 : 0 < / IZR tpb2) by (apply Rinv_0_lt_compat; lra).
  rewrite plus_IZR in *. unfold Rdiv in *.
  change (bpow radix2 (-53)) with (/ 9007199254740992) in *.
  set (c := 2 * / 9007199254740992 + / 9007199254740992 * / 9007199254740992) in *.
  assert (C0 : 0 < c) by (unfold c; lra).
  assert (LE : c * (t0 + IZR m * / IZR tpb2) <= c * (t0 + (IZR m + 1) * / IZR tpb2)) by nra.
  apply Rabs_le_inv in A. apply Rabs_le_inv in B. apply Rabs_le. lra.
Qed.

(** (c) the timeline's clock and a track's clock, re-anchored at their own (different) times t0 and s0 by the same
    change of resolution, stay in step: after m ticks both have advanced by the SAME float RN (m / tpb2) *)
Corollary retick_in_step (tpb2 g g' : Z) (t0 o s0 o' : R) (m : nat) :
  (1 <= tpb2 <= 2^20)%Z -> g <> tpb2 -> g' <> tpb2 ->
  generic_format radix2 fexp64 t0 -> 0 <= t0 -> generic_format radix2 fexp64 s0 -> 0 <= s0 ->
  (1 <= m)%nat -> IZR tpb2 * t0 + IZR (Z.of_nat m) <= 1073741824 -> IZR tpb2 * s0 + IZR (Z.of_nat m) <= 1073741824 ->
  let d := RN (IZR (Z.of_nat m) / IZR tpb2) in
  Nat.iter m (tick_step tpb2) (t0, (o, Some g)) = (RN (t0 + d), (t0, Some tpb2)) /\
  Nat.iter m (tick_step tpb2) (s0, (o', Some g')) = (RN (s0 + d), (s0, Some tpb2)).
Proof. intros. split; apply retick_run_exact; assumption. Qed.

(* Binary64 model of how isobar advances musical time (Timeline.tick / Track.tick after repair 2bc35ef):
   every float operation is one correctly rounded IEEE-754 binary64 operation (Flocq: round radix2 (FLT_exp (-1074) 53) ZnearestE).
   Theorems: one step from the correctly rounded k/tpb gives the correctly rounded (k+1)/tpb, hence after n ticks the
   float time IS the correctly rounded n/tpb: no error accumulates, for every tpb <= 2^20 and n <= 2^40.
   Depends on the axioms of Coq's classical real numbers (standard library): see Print Assumptions in Props/C01.v. *)
From Coq Require Import ZArith Reals Lra Lia.
From Flocq Require Import Core Relative.

Open Scope R_scope.

Definition fexp64 := FLT_exp (-1074) 53.
Definition RN (x : R) : R := round radix2 fexp64 ZnearestE x.

Lemma RN_eps x : x = 0 \/ bpow radix2 (-1022) <= Rabs x ->
  exists e, Rabs e <= bpow radix2 (-53) /\ RN x = x * (1 + e).
Proof.
  intros [->|H].
  - exists 0. split. rewrite Rabs_R0. apply bpow_ge_0. unfold RN. rewrite round_0. ring. apply valid_rnd_N.
  - destruct (relative_error_N_FLT_ex radix2 (-1074) 53 ltac:(lia) (fun x => negb (Z.even x)) x) as [e [He1 He2]].
    + exact H.
    + exists e. split; [|exact He2].
      replace (bpow radix2 (-53)) with (/2 * bpow radix2 (-53+1)). exact He1.
      change (bpow radix2 (-53+1)) with (bpow radix2 (-52)).
      rewrite (bpow_plus radix2 (-53) 1) || idtac.
      replace (-52)%Z with (-53 + 1)%Z by lia. rewrite bpow_plus. simpl (bpow radix2 1). lra.
Qed.

(* Python's round(x) of a float: nearest integer, ties to even *)
Definition pyround (x : R) : Z := ZnearestE x.

(* Timeline.tick / Track.tick: current_time = round((current_time + tick_duration) * tpb) / tpb,
   tick_duration = 1.0 / tpb; every float operation is one correctly rounded binary64 operation;
   int / int true division is correctly rounded by CPython *)
Definition tick_duration (tpb : Z) : R := RN (1 / IZR tpb).
Definition grid_step (tpb : Z) (t : R) : R :=
  RN (IZR (pyround (RN (RN (t + tick_duration tpb) * IZR tpb))) / IZR tpb).

Lemma bpow_m1022_small : bpow radix2 (-1022) <= bpow radix2 (-22).
Proof. apply bpow_le. lia. Qed.

Lemma three_eps a b c : Rabs a <= bpow radix2 (-53) -> Rabs b <= bpow radix2 (-53) -> Rabs c <= bpow radix2 (-53) ->
  Rabs ((1 + a) * (1 + b) * (1 + c) - 1) <= bpow radix2 (-51).
Proof.
  replace (bpow radix2 (-51)) with (4 * bpow radix2 (-53)).
  2:{ change (bpow radix2 (-53)) with (/ 9007199254740992). change (bpow radix2 (-51)) with (/ 2251799813685248). lra. }
  assert (U : 0 < bpow radix2 (-53) <= / 8).
  { split. apply bpow_gt_0. change (bpow radix2 (-53)) with (/ 9007199254740992). lra. }
  set (u := bpow radix2 (-53)) in *.
  intros Ha Hb Hc. apply Rabs_le_inv in Ha. apply Rabs_le_inv in Hb. apply Rabs_le_inv in Hc.
  assert (AB : - (u * u) <= a * b <= u * u) by nra.
  assert (AC : - (u * u) <= a * c <= u * u) by nra.
  assert (BC : - (u * u) <= b * c <= u * u) by nra.
  assert (UU : 0 <= u * u <= u * / 8) by nra.
  assert (ABC : - (u * u * u) <= a * b * c <= u * u * u) by nra.
  assert (UUU : 0 <= u * u * u <= u * u) by nra.
  replace ((1 + a) * (1 + b) * (1 + c) - 1) with (a + b + c + a * b + a * c + b * c + a * b * c) by ring.
  apply Rabs_le. lra.
Qed.

Theorem grid_step_exact (tpb k : Z) :
  (1 <= tpb <= 2^20)%Z -> (0 <= k < 2^40)%Z ->
  grid_step tpb (RN (IZR k / IZR tpb)) = RN (IZR (k + 1) / IZR tpb).
Proof.
  intros Htpb Hk. unfold grid_step. f_equal. f_equal. f_equal.
  apply Znearest_imp.
  assert (T1 : 1 <= IZR tpb) by (apply IZR_le; lia).
  assert (T2 : IZR tpb <= 1048576) by (apply IZR_le; lia).
  assert (K1 : 0 <= IZR k) by (apply IZR_le; lia).
  assert (K2 : IZR k <= 1099511627776) by (apply IZR_le; lia).
  assert (B22 : bpow radix2 (-22) = / 4194304) by reflexivity.
  assert (Hinv : / 1048576 <= / IZR tpb <= 1).
  { split. apply Rinv_le_contravar; lra. rewrite <- Rinv_1. apply Rinv_le_contravar; lra. }
  (* t *)
  destruct (RN_eps (IZR k / IZR tpb)) as [e1 [E1 R1]].
  { destruct (Z.eq_dec k 0) as [->|Hk0]. left. unfold Rdiv. ring.
    right. eapply Rle_trans. apply bpow_m1022_small. rewrite B22.
    assert (1 <= IZR k) by (apply IZR_le; lia).
    rewrite Rabs_pos_eq. unfold Rdiv. nra. unfold Rdiv. nra. }
  (* d *)
  destruct (RN_eps (1 / IZR tpb)) as [e2 [E2 R2]].
  { right. eapply Rle_trans. apply bpow_m1022_small. rewrite B22.
    rewrite Rabs_pos_eq; unfold Rdiv; lra. }
  unfold tick_duration. rewrite R1, R2.
  assert (U : bpow radix2 (-53) = / 9007199254740992) by reflexivity.
  rewrite U in *.
  assert (E1' := Rabs_le_inv _ _ E1). assert (E2' := Rabs_le_inv _ _ E2).
  set (x := IZR k / IZR tpb * (1 + e1) + 1 / IZR tpb * (1 + e2)).
  assert (X : / 2097152 <= x).
  { unfold x, Rdiv. set (iv := / IZR tpb) in *.
    assert (0 <= IZR k * iv) by nra.
    assert (0 <= IZR k * iv * (1 + e1)) by (apply Rmult_le_pos; lra).
    assert (/ 1048576 * (1 + e2) <= iv * (1 + e2)) by (apply Rmult_le_compat_r; lra).
    lra. }
  destruct (RN_eps x) as [e3 [E3 R3]].
  { right. eapply Rle_trans. apply bpow_m1022_small. rewrite B22. rewrite Rabs_pos_eq; lra. }
  rewrite R3. rewrite U in E3. assert (E3' := Rabs_le_inv _ _ E3).
  destruct (RN_eps (x * (1 + e3) * IZR tpb)) as [e4 [E4 R4]].
  { right. eapply Rle_trans. apply bpow_m1022_small. rewrite B22.
    assert (/ 2097152 * / 2 <= x * (1 + e3)) by (apply Rmult_le_compat; lra).
    assert (x * (1 + e3) * 1 <= x * (1 + e3) * IZR tpb) by (apply Rmult_le_compat_l; lra).
    rewrite Rabs_pos_eq; lra. }
  rewrite R4. rewrite U in E4.
  replace (x * (1 + e3) * IZR tpb * (1 + e4) - IZR (k + 1))
    with (IZR k * ((1 + e1) * (1 + e3) * (1 + e4) - 1) + ((1 + e2) * (1 + e3) * (1 + e4) - 1)).
  2:{ unfold x. rewrite plus_IZR. field. lra. }
  rewrite <- U in E1, E2, E3, E4.
  pose proof (three_eps e1 e3 e4 E1 E3 E4) as A.
  pose proof (three_eps e2 e3 e4 E2 E3 E4) as B.
  change (bpow radix2 (-51)) with (/ 2251799813685248) in A, B.
  apply Rabs_le_inv in A. apply Rabs_le_inv in B.
  apply Rabs_def1; nra.
Qed.

(* every reachable time: after n ticks from 0.0 the float time is the correctly rounded n / tpb - the error never
   accumulates (n up to 2^40 ticks: more than 70 years at 480 ticks per beat and 120 bpm) *)
Theorem grid_run_exact (tpb : Z) (n : nat) :
  (1 <= tpb <= 2^20)%Z -> (Z.of_nat n <= 2^40)%Z ->
  Nat.iter n (grid_step tpb) 0 = RN (IZR (Z.of_nat n) / IZR tpb).
Proof.
  intros Htpb. induction n as [|n IH]; intros Hn.
  - simpl. unfold Rdiv. rewrite Rmult_0_l. unfold RN. rewrite round_0. reflexivity. apply valid_rnd_N.
  - change (Nat.iter (S n) (grid_step tpb) 0) with (grid_step tpb (Nat.iter n (grid_step tpb) 0)). rewrite IH by lia. rewrite grid_step_exact by lia. f_equal. f_equal. f_equal. lia.
Qed.

(* distance from the exact grid point: one rounding, relative 2^-53 - independent of n *)
Corollary grid_run_error (tpb : Z) (n : nat) :
  (1 <= tpb <= 2^20)%Z -> (Z.of_nat n <= 2^40)%Z ->
  Rabs (Nat.iter n (grid_step tpb) 0 - IZR (Z.of_nat n) / IZR tpb) <= bpow radix2 (-53) * (IZR (Z.of_nat n) / IZR tpb).
Proof.
  intros Htpb Hn. rewrite grid_run_exact by assumption.
  assert (T1 : 1 <= IZR tpb) by (apply IZR_le; lia).
  assert (K1 : 0 <= IZR (Z.of_nat n)) by (apply IZR_le; lia).
  assert (P : 0 <= IZR (Z.of_nat n) / IZR tpb).
  { unfold Rdiv. apply Rmult_le_pos. lra. left. apply Rinv_0_lt_compat. lra. }
  destruct (RN_eps (IZR (Z.of_nat n) / IZR tpb)) as [e [E R]].
  { destruct n as [|n]. left. unfold Rdiv. simpl. ring.
    right. eapply Rle_trans. apply bpow_m1022_small. change (bpow radix2 (-22)) with (/ 4194304).
    assert (1 <= IZR (Z.of_nat (S n))) by (apply IZR_le; lia).
    assert (IZR tpb <= 1048576) by (apply IZR_le; lia).
    assert (/ 1048576 <= / IZR tpb) by (apply Rinv_le_contravar; lra).
    rewrite Rabs_pos_eq by exact P. unfold Rdiv.
    assert (1 * / 1048576 <= IZR (Z.of_nat (S n)) * / IZR tpb) by (apply Rmult_le_compat; lra). lra. }
  rewrite R. replace (IZR (Z.of_nat n) / IZR tpb * (1 + e) - IZR (Z.of_nat n) / IZR tpb) with (e * (IZR (Z.of_nat n) / IZR tpb)) by ring.
  rewrite Rabs_mult. rewrite (Rabs_pos_eq _ P). apply Rmult_le_compat_r; assumption.
Qed.

(* Base/FloatStampSrc.v - the timestamp expressions of the SOURCE (Generated/TablesTime.v, translated on every run by
   harness/gen_tables_time.py from the text of Track.perform_event and Timeline._schedule_action) are the ones
   Base/FloatStamp.v is about (reflexivity), and the release / start decisions restated for the generated terms with the
   source's own clocks (Base/FloatGridSrc.v).  A change of either source expression breaks this file. *)
From Coq Require Import ZArith Reals Lra Lia.
From Flocq Require Import Core.
From Isobar Require Import Base.FloatGrid Base.FloatRound8 Base.FloatDue Base.FloatStamp Generated.TablesTime
                           Base.FloatGridSrc Base.FloatDueSrc.
Open Scope R_scope.

(* Track.perform_event: note_off_time = self.current_time + event.duration * gate *)
Lemma src_noteoff_timestamp_is t d g : src_noteoff_timestamp t d g = noteoff_timestamp t d g.
Proof. reflexivity. Qed.
(* Timeline._schedule_action: quantize * math.ceil(round(float(self.current_time) / quantize, 8)) + delay *)
Lemma src_action_time_is t q dl : src_action_time t q dl = action_time t q dl.
Proof. reflexivity. Qed.

(* the clocks as the source computes them, constant resolution, from time 0 *)
Definition src_track_clock (tpb : Z) (k : nat) : R := fst (Nat.iter k (src_track_step tpb) (0, src_tick_grid_init)).
Definition src_timeline_clock (tpb : Z) (k : nat) : R := fst (Nat.iter k (src_timeline_step tpb) (0, src_tick_grid_init)).

Lemma src_track_clock_within (tpb : Z) (k : nat) : (1 <= tpb <= 2 ^ 20)%Z -> (Z.of_nat k <= 2 ^ 32)%Z ->
  Rabs (src_track_clock tpb k - IZR (Z.of_nat k) / IZR tpb) <= u * (IZR (Z.of_nat k) / IZR tpb).
Proof. intros H1 H2. unfold src_track_clock. rewrite src_track_time_exact by assumption. apply RN_clock_within. exact H1. lia. Qed.
Lemma src_timeline_clock_within (tpb : Z) (k : nat) : (1 <= tpb <= 2 ^ 20)%Z -> (Z.of_nat k <= 2 ^ 32)%Z ->
  Rabs (src_timeline_clock tpb k - IZR (Z.of_nat k) / IZR tpb) <= u * (IZR (Z.of_nat k) / IZR tpb).
Proof. intros H1 H2. unfold src_timeline_clock. rewrite src_timeline_time_exact by assumption. apply RN_clock_within. exact H1. lia. Qed.

(** the admissible settings *)

(* a note performed on tick k: event.duration = d standing for D beats, gate = g standing for G, D * G = b' units of
   1 / (tau * tpb) beat; all exact times up to T <= 450000 beats *)
Definition noteoff_admissible (tpb tau : Z) (k : nat) (b' : Z) (d g D G T : R) : Prop :=
  (1 <= tpb <= 2 ^ 20)%Z /\ (0 < tau)%Z /\ (2 * (tau * tpb) <= 10 ^ 8)%Z /\ (Z.of_nat k <= 2 ^ 32)%Z /\ (1 <= b')%Z /\
  0 < D /\ 0 < G /\ D * G = IZR b' / IZR (tau * tpb) /\
  Rabs (d - D) <= bpow radix2 (-51) * D /\ Rabs (g - G) <= bpow radix2 (-51) * G /\
  IZR (Z.of_nat k * tau + b') / IZR (tau * tpb) <= T /\ T <= 450000.

(* an action scheduled on tick k: quantize = q standing for qn units (0: not quantised), delay = dl standing for dn
   units; quantised: qn <= 10^8 units and at most 5 * 10^6 quantize periods since time 0 *)
Definition action_admissible (tpb tau : Z) (k : nat) (qn dn : Z) (q dl T : R) : Prop :=
  (1 <= tpb <= 2 ^ 20)%Z /\ (0 < tau)%Z /\ (2 * (tau * tpb) <= 10 ^ 8)%Z /\ (Z.of_nat k <= 2 ^ 32)%Z /\ (0 <= dn)%Z /\
  ((qn = 0%Z /\ q = 0) \/
   ((1 <= qn <= 10 ^ 8)%Z /\ Rabs (q - IZR qn / IZR (tau * tpb)) <= bpow radix2 (-51) * (IZR qn / IZR (tau * tpb)) /\
    (Z.of_nat k * tau <= 5000000 * qn)%Z)) /\
  Rabs (dl - IZR dn / IZR (tau * tpb)) <= bpow radix2 (-51) * (IZR dn / IZR (tau * tpb)) /\
  IZR (sched_units (Z.of_nat k * tau) qn dn) / IZR (tau * tpb) <= T /\ T <= 450000.

(* C02: with the source's timestamp expression, the source's due test and the source's clock, the note is released on
   tick k' iff k' >= k + ceil(b' / tau): the release tick of the float computation is the exact one, at EVERY resolution *)
Theorem src_noteoff_release_exact (tpb tau : Z) (k k' : nat) (b' : Z) (d g D G T : R) :
  noteoff_admissible tpb tau k b' d g D G T -> (Z.of_nat k' <= 2 ^ 32)%Z -> IZR (Z.of_nat k') / IZR tpb <= T ->
  src_noteoff_due (src_noteoff_timestamp (src_track_clock tpb k) d g) (src_track_clock tpb k')
  = (Z.of_nat k + cdivZ b' tau <=? Z.of_nat k')%Z.
Proof.
  intros (H1 & H2 & H3 & H4 & H5 & H6 & H7 & H8 & H9 & H10 & H11 & H12) Hk' HT'.
  apply (noteoff_release_exact (tau * tpb) tpb tau (Z.of_nat k) (Z.of_nat k') b'
           (src_track_clock tpb k) (src_track_clock tpb k') d g D G T); try assumption; try lia.
  - apply src_track_clock_within; assumption.
  - apply src_track_clock_within; assumption.
Qed.

(* C05: the action scheduled on timeline tick k is performed on tick k' iff k' >= ceil(X / tau), X the exact scheduled
   time q * ceil(t / q) + delay in units (Sched/Model.v: sched_time) *)
Theorem src_action_start_exact (tpb tau : Z) (k k' : nat) (qn dn : Z) (q dl T : R) :
  action_admissible tpb tau k qn dn q dl T -> (Z.of_nat k' <= 2 ^ 32)%Z -> IZR (Z.of_nat k') / IZR tpb <= T ->
  src_action_due (src_action_time (src_timeline_clock tpb k) q dl) (src_timeline_clock tpb k')
  = (cdivZ (sched_units (Z.of_nat k * tau) qn dn) tau <=? Z.of_nat k')%Z.
Proof.
  intros (H1 & H2 & H3 & H4 & H5 & H6 & H7 & H8 & H9) Hk' HT'.
  apply (action_start_exact (tau * tpb) tpb tau (Z.of_nat k) (Z.of_nat k') qn dn
           (src_timeline_clock tpb k) (src_timeline_clock tpb k') q dl T); try assumption; try lia.
  - apply src_timeline_clock_within; assumption.
  - apply src_timeline_clock_within; assumption.
Qed.

(* ... and the float scheduled time itself is within 2^-48 T of the exact one *)
Theorem src_action_time_error (tpb tau : Z) (k : nat) (qn dn : Z) (q dl T : R) :
  action_admissible tpb tau k qn dn q dl T ->
  Rabs (src_action_time (src_timeline_clock tpb k) q dl - IZR (sched_units (Z.of_nat k * tau) qn dn) / IZR (tau * tpb))
    <= bpow radix2 (-48) * T.
Proof.
  intros (H1 & H2 & H3 & H4 & H5 & H6 & H7 & H8 & H9).
  apply (action_time_error (tau * tpb) tpb tau (Z.of_nat k) qn dn); try assumption; try lia.
  apply src_timeline_clock_within; assumption.
Qed.

(** satisfiable: the witness of the old note-off defect (duration 1.1, gate (5/512)/1.1: the product 5/512 beat is an
    inexact float product), at 512 and at 480 ticks per beat *)
Lemma gate_witness_near :
  Rabs (RN (RN (5 / 512) / RN (11 / 10)) - 25 / 2816) <= bpow radix2 (-51) * (25 / 2816).
Proof.
  replace (25 / 2816) with ((5 / 512) / (11 / 10)) by field.
  apply quot_near; lra.
Qed.

Lemma noteoff_admissible_512 (k : nat) : (Z.of_nat k <= 200000000)%Z ->
  noteoff_admissible 512 1 k 5 (RN (11 / 10)) (RN (RN (5 / 512) / RN (11 / 10))) (11 / 10) (25 / 2816) 450000.
Proof.
  intros Hk. unfold noteoff_admissible. repeat split; try lia; try lra.
  - simpl. field.
  - apply RN_near. lra.
  - exact gate_witness_near.
  - apply IZR_le in Hk. rewrite plus_IZR, mult_IZR. simpl (IZR (1 * 512)). lra.
Qed.

(* 480 ticks per beat: U = 7680 units per beat (tau = 16), 5/512 beat = 75 units = 4.6875 ticks *)
Lemma noteoff_admissible_480 (k : nat) : (Z.of_nat k <= 200000000)%Z ->
  noteoff_admissible 480 16 k 75 (RN (11 / 10)) (RN (RN (5 / 512) / RN (11 / 10))) (11 / 10) (25 / 2816) 450000.
Proof.
  intros Hk. unfold noteoff_admissible. repeat split; try lia; try lra.
  - simpl. field.
  - apply RN_near. lra.
  - exact gate_witness_near.
  - apply IZR_le in Hk. rewrite plus_IZR, mult_IZR. simpl (IZR (16 * 480)). lra.
Qed.

(* quantize = 1 beat (exact), delay = 0.1 (the nearest double), 480 ticks per beat, units of one tick *)
Lemma action_admissible_480 (k : nat) : (Z.of_nat k <= 200000000)%Z ->
  action_admissible 480 1 k 480 48 1 (RN (1 / 10)) 450000.
Proof.
  intros Hk. unfold action_admissible. repeat split; try lia; try lra.
  - right. repeat split; try lia. simpl (IZR (1 * 480)). replace (480 / 480) with 1 by field. apply exact_near. lra.
  - simpl (IZR (1 * 480)). replace (48 / 480) with (1 / 10) by field. apply RN_near. lra.
  - unfold sched_units. simpl Z.eqb. cbv iota.
    pose proof (cdivZ_spec (Z.of_nat k * 1) 480 ltac:(lia)) as C.
    assert (B : (480 * cdivZ (Z.of_nat k * 1) 480 + 48 <= 200000000 + 480 + 48)%Z) by lia.
    apply IZR_le in B. simpl (IZR (1 * 480)). 
    set (X := IZR (480 * cdivZ (Z.of_nat k * 1) 480 + 48)) in *. simpl in B. lra.
Qed.

Print Assumptions src_noteoff_release_exact.
Print Assumptions src_action_start_exact.
Print Assumptions noteoff_admissible_512.
(* each prints exactly: ClassicalDedekindReals.sig_not_dec, ClassicalDedekindReals.sig_forall_dec,
   FunctionalExtensionality.functional_extensionality_dep, Classical_Prop.classic (the standard library's real numbers) *)

(* Base/Prelude.v — common imports and small list/arith utilities shared by all models.
   No axioms; stdlib only. *)
From Coq Require Export ZArith List Bool Lia ZifyBool.
Export ListNotations.

(* lia understands /, mod and boolean comparisons after this hook *)
Ltac Zify.zify_post_hook ::= Z.to_euclidean_division_equations.

Open Scope Z_scope.

(** Boolean equality on lists *)
Fixpoint list_eqb {A} (eqb : A -> A -> bool) (l1 l2 : list A) : bool :=
  match l1, l2 with
  | [], [] => true
  | x :: xs, y :: ys => eqb x y && list_eqb eqb xs ys
  | _, _ => false
  end.

Lemma list_eqb_eq {A} (eqb : A -> A -> bool) :
  (forall x y, eqb x y = true <-> x = y) ->
  forall l1 l2, list_eqb eqb l1 l2 = true <-> l1 = l2.
Proof.
  intros H l1; induction l1 as [|x xs IH]; intros [|y ys]; simpl; split; intro E;
    try reflexivity; try discriminate.
  - apply andb_true_iff in E as [E1 E2]. apply H in E1. apply IH in E2. congruence.
  - inversion E; subst. apply andb_true_iff; split; [apply H | apply IH]; reflexivity.
Qed.

Definition option_eqb {A} (eqb : A -> A -> bool) (a b : option A) : bool :=
  match a, b with
  | None, None => true
  | Some x, Some y => eqb x y
  | _, _ => false
  end.

(** Indices (0-based) of the [false] entries of a list of booleans: used by the
    correspondence checks to print only the failing case numbers. *)
Fixpoint failing_from (i : nat) (l : list bool) : list nat :=
  match l with
  | [] => []
  | b :: r => if b then failing_from (S i) r else i :: failing_from (S i) r
  end.
Definition failing (l : list bool) : list nat := failing_from 0 l.

(** Z ranges *)
Definition zrange (lo : Z) (n : nat) : list Z := map (fun i => lo + Z.of_nat i) (seq 0 n).

Lemma in_zrange lo n x : In x (zrange lo n) <-> lo <= x < lo + Z.of_nat n.
Proof.
  unfold zrange. rewrite in_map_iff. split.
  - intros [i [<- Hi]]. apply in_seq in Hi. lia.
  - intros Hx. exists (Z.to_nat (x - lo)). split; [lia|]. apply in_seq. lia.
Qed.

(** nth on Z lists with Z index (Python list indexing for in-range, non-negative index) *)
Definition znth (l : list Z) (i : Z) : Z := nth (Z.to_nat i) l 0.

(** successor step of Euclidean division: used for degree/octave and tick/beat arithmetic *)
Lemma divmod_succ_wrap d n : 0 < n -> d mod n = n - 1 -> (d + 1) / n = d / n + 1 /\ (d + 1) mod n = 0.
Proof.
  intros Hn Hr.
  pose proof (Z.div_mod d n ltac:(lia)) as E1. pose proof (Z.div_mod (d + 1) n ltac:(lia)) as E2.
  pose proof (Z.mod_pos_bound (d + 1) n Hn) as B2.
  set (q := d / n) in *. set (q' := (d + 1) / n) in *. set (r' := (d + 1) mod n) in *.
  assert (n * (q' - q - 1) = - r') by lia. assert (-1 < q' - q - 1 < 1) by nia. split; nia.
Qed.
Lemma divmod_succ_nowrap d n : 0 < n -> d mod n <> n - 1 -> (d + 1) / n = d / n /\ (d + 1) mod n = d mod n + 1.
Proof.
  intros Hn Hr.
  pose proof (Z.div_mod d n ltac:(lia)) as E1. pose proof (Z.div_mod (d + 1) n ltac:(lia)) as E2.
  pose proof (Z.mod_pos_bound (d + 1) n Hn) as B2. pose proof (Z.mod_pos_bound d n Hn) as B1.
  set (q := d / n) in *. set (q' := (d + 1) / n) in *. set (r' := (d + 1) mod n) in *. set (r := d mod n) in *.
  assert (n * (q' - q) = r + 1 - r') by lia. assert (-1 < q' - q < 1) by nia. split; nia.
Qed.

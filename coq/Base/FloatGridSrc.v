(* The expressions the SOURCE of isobar uses to advance time (translated by harness/gen_tables_time.py on every run into
   Generated/TablesTime.v) are the ones Base/FloatGrid.v is about.  Proved by reflexivity: a change of the source
   expression breaks this file, i.e. a proof obligation of C01.
   The source shape expected here is the RELATIVE tick grid (repair C01-retick-snap): Timeline.tick and Track.tick do
     self.current_time, self._tick_grid = advance_on_tick_grid(self.current_time, <ticks_per_beat>, self._tick_grid)
   and src_advance is the translated BODY of isobar.util.advance_on_tick_grid.  If the source goes back to the absolute
   grid `round((t + 1/tpb) * tpb) / tpb`, the translator still succeeds (it emits src_timeline_step tpb t : R) and this
   file stops compiling at src_advance_is / src_timeline_step_is. *)
From Coq Require Import ZArith Reals.
From Flocq Require Import Core.
From Isobar Require Import Base.FloatGrid Base.FloatRound8 Generated.TablesTime.
Open Scope R_scope.

Lemma src_tick_duration_is tpb : src_tick_duration tpb = tick_duration tpb.
Proof. reflexivity. Qed.
(* the body of isobar.util.advance_on_tick_grid *)
Lemma src_advance_is t tpb origin g : src_advance t tpb origin g = advance t tpb origin g.
Proof. reflexivity. Qed.
(* both __init__s: self._tick_grid = (0.0, None), self.current_time = 0 *)
Lemma src_clock0_is : (0, src_tick_grid_init) = clock0.
Proof. reflexivity. Qed.
Lemma src_timeline_step_is tpb c : src_timeline_step tpb c = tick_step tpb c.
Proof. reflexivity. Qed.
Lemma src_track_step_is tpb c : src_track_step tpb c = tick_step tpb c.
Proof. reflexivity. Qed.

Lemma iter_ext {A} (f g : A -> A) (H : forall x, f x = g x) n x : Nat.iter n f x = Nat.iter n g x.
Proof. induction n as [|n IH]; [reflexivity|]. change (f (Nat.iter n f x) = g (Nat.iter n g x)). rewrite IH. apply H. Qed.

(** constant resolution: Timeline.current_time and Track.current_time after n ticks from 0 (n <= 2^32) *)
Theorem src_timeline_time_exact (tpb : Z) (n : nat) :
  (1 <= tpb <= 2^20)%Z -> (Z.of_nat n <= 2^32)%Z ->
  fst (Nat.iter n (src_timeline_step tpb) (0, src_tick_grid_init)) = RN (IZR (Z.of_nat n) / IZR tpb).
Proof. intros. rewrite (iter_ext _ _ (src_timeline_step_is tpb)). now apply tick_run_time. Qed.

Theorem src_track_time_exact (tpb : Z) (n : nat) :
  (1 <= tpb <= 2^20)%Z -> (Z.of_nat n <= 2^32)%Z ->
  fst (Nat.iter n (src_track_step tpb) (0, src_tick_grid_init)) = RN (IZR (Z.of_nat n) / IZR tpb).
Proof. intros. rewrite (iter_ext _ _ (src_track_step_is tpb)). now apply tick_run_time. Qed.

(* the whole state: the grid stays anchored at 0.0 *)
Theorem src_timeline_state_exact (tpb : Z) (n : nat) :
  (1 <= tpb <= 2^20)%Z -> (1 <= n)%nat -> (Z.of_nat n <= 2^32)%Z ->
  Nat.iter n (src_timeline_step tpb) (0, src_tick_grid_init) = (RN (IZR (Z.of_nat n) / IZR tpb), (0, Some tpb)).
Proof. intros. rewrite (iter_ext _ _ (src_timeline_step_is tpb)). now apply tick_run_exact. Qed.

(* consequently the two clocks agree at every tick *)
Corollary src_track_timeline_in_step (tpb : Z) (n : nat) :
  (1 <= tpb <= 2^20)%Z -> (Z.of_nat n <= 2^32)%Z ->
  fst (Nat.iter n (src_track_step tpb) (0, src_tick_grid_init)) = fst (Nat.iter n (src_timeline_step tpb) (0, src_tick_grid_init)).
Proof. intros. rewrite src_track_time_exact, src_timeline_time_exact by assumption. reflexivity. Qed.

(** change of resolution at an arbitrary time t0 (a double >= 0; the old grid (o, g), g <> tpb2): after m >= 1 ticks
    at tpb2 the clock is RN (t0 + RN (m / tpb2)), re-anchored at t0; tpb2 * t0 + m <= 2^30 *)
Theorem src_timeline_retick_exact (tpb2 g : Z) (t0 o : R) (m : nat) :
  (1 <= tpb2 <= 2^20)%Z -> g <> tpb2 -> generic_format radix2 fexp64 t0 -> 0 <= t0 ->
  (1 <= m)%nat -> IZR tpb2 * t0 + IZR (Z.of_nat m) <= 1073741824 ->
  Nat.iter m (src_timeline_step tpb2) (t0, (o, Some g)) = (RN (t0 + RN (IZR (Z.of_nat m) / IZR tpb2)), (t0, Some tpb2)).
Proof. intros. rewrite (iter_ext _ _ (src_timeline_step_is tpb2)). now apply retick_run_exact. Qed.

Theorem src_track_retick_exact (tpb2 g : Z) (t0 o : R) (m : nat) :
  (1 <= tpb2 <= 2^20)%Z -> g <> tpb2 -> generic_format radix2 fexp64 t0 -> 0 <= t0 ->
  (1 <= m)%nat -> IZR tpb2 * t0 + IZR (Z.of_nat m) <= 1073741824 ->
  Nat.iter m (src_track_step tpb2) (t0, (o, Some g)) = (RN (t0 + RN (IZR (Z.of_nat m) / IZR tpb2)), (t0, Some tpb2)).
Proof. intros. rewrite (iter_ext _ _ (src_track_step_is tpb2)). now apply retick_run_exact. Qed.

(* the timeline (at t0) and a track (at s0) re-anchored by the same change advance by the same float RN (m / tpb2) *)
Corollary src_retick_in_step (tpb2 g g' : Z) (t0 o s0 o' : R) (m : nat) :
  (1 <= tpb2 <= 2^20)%Z -> g <> tpb2 -> g' <> tpb2 ->
  generic_format radix2 fexp64 t0 -> 0 <= t0 -> generic_format radix2 fexp64 s0 -> 0 <= s0 ->
  (1 <= m)%nat -> IZR tpb2 * t0 + IZR (Z.of_nat m) <= 1073741824 -> IZR tpb2 * s0 + IZR (Z.of_nat m) <= 1073741824 ->
  let d := RN (IZR (Z.of_nat m) / IZR tpb2) in
  Nat.iter m (src_timeline_step tpb2) (t0, (o, Some g)) = (RN (t0 + d), (t0, Some tpb2)) /\
  Nat.iter m (src_track_step tpb2) (s0, (o', Some g')) = (RN (s0 + d), (s0, Some tpb2)).
Proof. intros. split; [apply src_timeline_retick_exact | apply src_track_retick_exact]; assumption. Qed.

Print Assumptions src_timeline_state_exact.
Print Assumptions src_retick_in_step.
(* each prints exactly: ClassicalDedekindReals.sig_not_dec, ClassicalDedekindReals.sig_forall_dec,
   FunctionalExtensionality.functional_extensionality_dep, Classical_Prop.classic (the standard library's real numbers) *)

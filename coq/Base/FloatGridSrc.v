(* The expressions the SOURCE of isobar uses to advance time (translated by harness/gen_tables_time.py on every run into
   Generated/TablesTime.v) are the ones Base/FloatGrid.v is about.  Proved by reflexivity: a change of the source
   expression breaks this file, i.e. a proof obligation of C01. *)
From Coq Require Import ZArith Reals.
From Isobar Require Import Base.FloatGrid Generated.TablesTime.
Open Scope R_scope.

Lemma src_tick_duration_is tpb : src_tick_duration tpb = tick_duration tpb.
Proof. reflexivity. Qed.
Lemma src_timeline_step_is tpb t : src_timeline_step tpb t = grid_step tpb t.
Proof. reflexivity. Qed.
Lemma src_track_step_is tpb t : src_track_step tpb t = grid_step tpb t.
Proof. reflexivity. Qed.

Lemma iter_ext {A} (f g : A -> A) (H : forall x, f x = g x) n x : Nat.iter n f x = Nat.iter n g x.
Proof. induction n as [|n IH]; [reflexivity|]. change (f (Nat.iter n f x) = g (Nat.iter n g x)). rewrite IH. apply H. Qed.

(* Timeline.current_time and Track.current_time (a track started at time 0) after n ticks *)
Theorem src_timeline_time_exact (tpb : Z) (n : nat) :
  (1 <= tpb <= 2^20)%Z -> (Z.of_nat n <= 2^40)%Z ->
  Nat.iter n (src_timeline_step tpb) 0 = RN (IZR (Z.of_nat n) / IZR tpb).
Proof. intros. rewrite (iter_ext _ _ (src_timeline_step_is tpb)). now apply grid_run_exact. Qed.

Theorem src_track_time_exact (tpb : Z) (n : nat) :
  (1 <= tpb <= 2^20)%Z -> (Z.of_nat n <= 2^40)%Z ->
  Nat.iter n (src_track_step tpb) 0 = RN (IZR (Z.of_nat n) / IZR tpb).
Proof. intros. rewrite (iter_ext _ _ (src_track_step_is tpb)). now apply grid_run_exact. Qed.

(* consequently the two clocks agree at every tick *)
Corollary src_track_timeline_in_step (tpb : Z) (n : nat) :
  (1 <= tpb <= 2^20)%Z -> (Z.of_nat n <= 2^40)%Z ->
  Nat.iter n (src_track_step tpb) 0 = Nat.iter n (src_timeline_step tpb) 0.
Proof. intros. rewrite src_track_time_exact, src_timeline_time_exact by assumption. reflexivity. Qed.

(* Base/PyLoop.v — the loop combinator the source translators (harness/src2coq.py) render a Python `while` with.
   `while test: body` over the state s (the tuple of the variables the body assigns): the test is evaluated first; None = the
   fuel ran out before the test became false (every theorem about a translated loop excludes or bounds this outcome). *)
From Coq Require Import Arith Lia.

Fixpoint while_fuel {St : Type} (test : St -> bool) (body : St -> St) (fuel : nat) (s : St) : option St :=
  if test s then
    match fuel with
    | O => None
    | S f => while_fuel test body f (body s)
    end
  else Some s.

(* a loop that ended keeps its result under more fuel: the result does not depend on the fuel *)
Lemma while_fuel_mono {St} (test : St -> bool) (body : St -> St) : forall f s r,
  while_fuel test body f s = Some r -> forall f', (f <= f')%nat -> while_fuel test body f' s = Some r.
Proof.
  induction f as [|f IH]; intros s r H f' L; cbn [while_fuel] in H.
  - destruct (test s) eqn:E; [discriminate|]. destruct f'; cbn [while_fuel]; rewrite E; exact H.
  - destruct (test s) eqn:E.
    + destruct f' as [|f']; [lia|]. cbn [while_fuel]. rewrite E. apply IH; [exact H | lia].
    + destruct f'; cbn [while_fuel]; rewrite E; exact H.
Qed.

(* the result of a loop that ended falsifies the test *)
Lemma while_fuel_exit {St} (test : St -> bool) (body : St -> St) : forall f s r,
  while_fuel test body f s = Some r -> test r = false.
Proof.
  induction f as [|f IH]; intros s r H; cbn [while_fuel] in H; destruct (test s) eqn:E; try discriminate.
  - inversion H; subst; exact E.
  - eapply IH; exact H.
  - inversion H; subst; exact E.
Qed.

(* pointwise equal tests and bodies give the same loop (no functional extensionality needed) *)
Lemma while_fuel_ext {St} (t1 t2 : St -> bool) (b1 b2 : St -> St) :
  (forall s, t1 s = t2 s) -> (forall s, b1 s = b2 s) ->
  forall f s, while_fuel t1 b1 f s = while_fuel t2 b2 f s.
Proof.
  intros Ht Hb. induction f as [|f IH]; intros s; cbn [while_fuel]; rewrite Ht; [reflexivity|].
  destruct (t2 s); [|reflexivity]. rewrite Hb. apply IH.
Qed.

(* Base/FloatStamp.v - the float TIMESTAMPS that isobar's due tests compare with the clock are within a fixed number
   of ulps of the exact grid times, so that the decision theorems of Base/FloatDue.v (float_le0'_bool) apply without
   assuming that closeness.

   (1) Track.perform_event:   note_dur = event.duration * gate;  note_off_time = self.current_time + note_dur
         noteoff_timestamp t d g = RN (t + RN (d * g))
   (2) Timeline._schedule_action:
         scheduled_time = self.current_time
         if quantize: scheduled_time = quantize * math.ceil(round(float(self.current_time) / quantize, 8))
         scheduled_time += delay
         action_time t q dl = if q <> 0 then RN (RN (q * IZR (Zceil (py_round8 (RN (t / q))))) + dl) else RN (t + dl)

   Modelling assumptions as in docs/FLOAT.md (M1 one rounding per float operation, M3 round(x, 8) = py_round8), and:
   math.ceil of a double is the exact ceiling (an int); float * int converts the int exactly; `if quantize:` tests
   quantize <> 0; float(x) of a float is x.  The float inputs (event.duration, gate, quantize, delay) are ANY doubles
   within relative 2^-51 of the rationals D, G, Q, Dl they stand for (the nearest double is within 2^-53; a quotient of
   two nearest doubles such as (5/512)/1.1 within 2^-51). *)
From Coq Require Import ZArith Reals Lra Lia.
From Flocq Require Import Core Relative.
From Isobar Require Import Base.FloatGrid Base.FloatRound8 Base.FloatDue.
Open Scope R_scope.

Definition noteoff_timestamp (t d g : R) : R := RN (t + RN (d * g)).
Definition action_time (t q dl : R) : R :=
  if negb (Req_bool q 0) then RN (RN (q * IZR (Zceil (py_round8 (RN (t / q))))) + dl) else RN (t + dl).

(* ceiling division on Z, as Sched/Model.v's cdiv *)
Definition cdivZ (a b : Z) : Z := (- ((- a) / b))%Z.
Lemma cdivZ_spec a b : (0 < b)%Z -> ((cdivZ a b - 1) * b < a <= cdivZ a b * b)%Z.
Proof. intros Hb. unfold cdivZ. pose proof (Z.div_mod (- a) b ltac:(lia)). pose proof (Z.mod_pos_bound (- a) b Hb). nia. Qed.
Lemma cdivZ_le a b k : (0 < b)%Z -> (a <= k * b <-> cdivZ a b <= k)%Z.
Proof. intros Hb. pose proof (cdivZ_spec a b Hb). split; intros; nia. Qed.

(** * 0. Relative errors *)

Definition u : R := / 9007199254740992.          (* 2^-53 *)
Lemma u_is_u53 : u = u53. Proof. reflexivity. Qed.

Lemma b51 : bpow radix2 (-51) = 4 * u.
Proof. change (bpow radix2 (-51)) with (/ 2251799813685248). unfold u. lra. Qed.
Lemma b50 : bpow radix2 (-50) = 8 * u.
Proof. change (bpow radix2 (-50)) with (/ 1125899906842624). unfold u. lra. Qed.
Lemma b48 : bpow radix2 (-48) = 32 * u.
Proof. change (bpow radix2 (-48)) with (/ 281474976710656). unfold u. lra. Qed.

(* x within relative r of X > 0 *)
Lemma near_eps x X r : 0 < X -> Rabs (x - X) <= r * X -> exists e, Rabs e <= r /\ x = X * (1 + e).
Proof.
  intros HX H. exists ((x - X) / X). split.
  - unfold Rdiv. rewrite Rabs_mult, (Rabs_pos_eq (/ X)) by (left; apply Rinv_0_lt_compat; exact HX).
    apply Rmult_le_reg_r with (r := X). exact HX. rewrite Rmult_assoc, Rinv_l by lra. lra.
  - field. lra.
Qed.

(* the same for X >= 0: X = 0 forces x = 0 *)
Lemma near_eps0 x X r : 0 <= X -> 0 <= r -> Rabs (x - X) <= r * X -> exists e, Rabs e <= r /\ x = X * (1 + e).
Proof.
  intros HX Hr H. destruct (Req_dec X 0) as [->|N].
  - exists 0. split. rewrite Rabs_R0. exact Hr. rewrite Rmult_0_r in H.
    assert (Rabs (x - 0) = 0) by (pose proof (Rabs_pos (x - 0)); lra).
    apply Rabs_eq_R0 in H0. lra.
  - apply near_eps. lra. exact H.
Qed.

(* RN with an explicit relative error, for a positive normal argument *)
Lemma RN_rel x : x = 0 \/ / 1073741824 <= x -> exists e, Rabs e <= u /\ RN x = x * (1 + e).
Proof.
  intros H. destruct (RN_eps x) as [e [E R]].
  - destruct H as [H|H]. now left. right. eapply Rle_trans. apply bpow_m1022_le_m30. rewrite Rabs_pos_eq; lra.
  - exists e. split; assumption.
Qed.

Lemma RN_IZR (c : Z) : (Z.abs c < 2 ^ 53)%Z -> RN (IZR c) = IZR c.
Proof.
  intros H. apply RN_generic. unfold fexp64. apply generic_format_FLT.
  apply (FLT_spec radix2 (-1074) 53 (IZR c) (Float radix2 c 0)).
  - unfold F2R. simpl. ring.
  - simpl. exact H.
  - simpl. lia.
Qed.

(* products of small relative errors *)
Lemma two_eps a b ra rb : 0 <= ra -> 0 <= rb -> Rabs a <= ra -> Rabs b <= rb ->
  Rabs ((1 + a) * (1 + b) - 1) <= ra + rb + ra * rb.
Proof.
  intros Ha0 Hb0 Ha Hb. apply Rabs_le_inv in Ha. apply Rabs_le_inv in Hb.
  replace ((1 + a) * (1 + b) - 1) with (a + b + a * b) by ring.
  assert (- (ra * rb) <= a * b <= ra * rb) by nra.
  apply Rabs_le. lra.
Qed.

(** * 1. The note-off timestamp *)

(* K = k / tpb the exact track time, D * G = b' / U the exact note length on the grid; T bounds the exact timestamp *)
Theorem noteoff_timestamp_error (U tpb tau k b' : Z) (t d g D G T : R) :
  (0 < tpb)%Z -> (0 < tau)%Z -> U = (tau * tpb)%Z -> (2 * U <= 10 ^ 8)%Z -> (0 <= k)%Z -> (1 <= b')%Z ->
  0 < D -> 0 < G -> D * G = IZR b' / IZR U ->
  Rabs (t - IZR k / IZR tpb) <= u * (IZR k / IZR tpb) ->
  Rabs (d - D) <= bpow radix2 (-51) * D -> Rabs (g - G) <= bpow radix2 (-51) * G ->
  IZR (k * tau + b') / IZR U <= T ->
  Rabs (noteoff_timestamp t d g - IZR (k * tau + b') / IZR U) <= bpow radix2 (-48) * T.
Proof.
  intros Htpb Htau HU HU2 Hk Hb HD HG HDG Ht Hd Hg HT.
  assert (U0 : (0 < U)%Z) by nia.
  assert (RU : 0 < IZR U) by (apply IZR_lt; exact U0).
  assert (RU2 : IZR U <= 50000000).
  { apply IZR_le in HU2. rewrite mult_IZR in HU2. change (IZR (10 ^ 8)) with 100000000 in HU2. lra. }
  assert (IU : / 50000000 <= / IZR U) by (apply Rinv_le_contravar; lra).
  set (K := IZR k / IZR tpb) in *.
  assert (K0 : 0 <= K).
  { unfold K. apply Rmult_le_pos. apply IZR_le; lia. left. apply Rinv_0_lt_compat. apply IZR_lt; lia. }
  set (P := D * G) in *.
  assert (P1 : / 50000000 <= P).
  { rewrite HDG. unfold Rdiv. assert (1 <= IZR b') by (apply IZR_le; lia).
    assert (1 * / IZR U <= IZR b' * / IZR U) by (apply Rmult_le_compat_r; lra). lra. }
  assert (X : IZR (k * tau + b') / IZR U = K + P).
  { rewrite HDG. unfold K. subst U. rewrite plus_IZR, !mult_IZR. field. split; apply not_0_IZR; lia. }
  rewrite X in *.
  rewrite b51 in *. rewrite b48.
  assert (Upos : 0 < u) by (unfold u; lra).
  destruct (near_eps0 t K u K0 ltac:(lra) Ht) as [e0 [E0 Rt]].
  destruct (near_eps d D (4 * u) HD Hd) as [e1 [E1 Rd]].
  destruct (near_eps g G (4 * u) HG Hg) as [e2 [E2 Rg]].
  unfold noteoff_timestamp.
  (* the product *)
  pose proof (two_eps e1 e2 (4 * u) (4 * u) ltac:(lra) ltac:(lra) E1 E2) as F12.
  set (f := (1 + e1) * (1 + e2) - 1) in *.
  assert (F12' : Rabs f <= 9 * u) by (eapply Rle_trans; [exact F12 | unfold u; lra]).
  assert (DG : d * g = P * (1 + f)) by (rewrite Rd, Rg; unfold f, P; ring).
  apply Rabs_le_inv in F12'.
  destruct (RN_rel (d * g)) as [e3 [E3 Rp]].
  { right. rewrite DG. unfold u in *. nra. }
  pose proof (two_eps f e3 (9 * u) u ltac:(lra) ltac:(lra) ltac:(apply Rabs_le; exact F12') E3) as F3.
  set (a := (1 + f) * (1 + e3) - 1) in *.
  assert (A : Rabs a <= 11 * u) by (eapply Rle_trans; [exact F3 | unfold u; lra]).
  assert (Pp : RN (d * g) = P * (1 + a)) by (rewrite Rp, DG; unfold a; ring).
  apply Rabs_le_inv in A. apply Rabs_le_inv in E0.
  rewrite Pp, Rt.
  assert (Pa : - (11 * u * P) <= P * a <= 11 * u * P) by nra.
  assert (Ke : - (u * K) <= K * e0 <= u * K) by nra.
  destruct (RN_rel (K * (1 + e0) + P * (1 + a))) as [e4 [E4 Rs]].
  { right. unfold u in *. nra. }
  rewrite Rs. apply Rabs_le_inv in E4.
  set (s := K * (1 + e0) + P * (1 + a)) in *.
  assert (S1 : 0 <= s <= 2 * (K + P)) by (unfold s, u in *; nra).
  assert (Se : - (u * (2 * (K + P))) <= s * e4 <= u * (2 * (K + P))) by nra.
  replace (s * (1 + e4) - (K + P)) with (K * e0 + P * a + s * e4) by (unfold s; ring).
  assert (TT : 0 <= K + P <= T) by lra.
  apply Rabs_le. nra.
Qed.

(* the admissible horizon: all exact times up to T <= 450000 beats (62 hours at 120 bpm): 6 * 10^8 * 2^-48 * T <= 1 *)
Lemma horizon_ok T : 0 <= T <= 450000 -> 6 * 10 ^ 8 * (bpow radix2 (-48) * T) <= 1.
Proof. intros H. rewrite e8_val, b48. unfold u. lra. Qed.

Lemma clock_within (tpb k : Z) (t T : R) : (0 < tpb)%Z -> (0 <= k)%Z ->
  Rabs (t - IZR k / IZR tpb) <= u * (IZR k / IZR tpb) -> IZR k / IZR tpb <= T ->
  Rabs (t - IZR k / IZR tpb) <= bpow radix2 (-48) * T.
Proof.
  intros Htpb Hk H HT. eapply Rle_trans. exact H. rewrite b48.
  assert (0 <= IZR k / IZR tpb).
  { apply Rmult_le_pos. apply IZR_le; lia. left. apply Rinv_0_lt_compat. apply IZR_lt; lia. }
  unfold u. nra.
Qed.

(* the clock of Base/FloatGrid.v is such a t *)
Lemma RN_clock_within (tpb k : Z) : (1 <= tpb <= 2 ^ 20)%Z -> (0 <= k)%Z ->
  Rabs (RN (IZR k / IZR tpb) - IZR k / IZR tpb) <= u * (IZR k / IZR tpb).
Proof.
  intros Htpb Hk. rewrite u_is_u53. apply RN_err.
  destruct (Z.eq_dec k 0) as [->|N]. left. unfold Rdiv. ring.
  right. eapply Rle_trans. apply bpow_m1022_le_m30.
  assert (1 <= IZR k) by (apply IZR_le; lia).
  assert (1 <= IZR tpb) by (apply IZR_le; lia).
  assert (IZR tpb <= 1048576) by (apply IZR_le; lia).
  assert (/ 1048576 <= / IZR tpb) by (apply Rinv_le_contravar; lra).
  unfold Rdiv. nra.
Qed.

(* Release decision: a note performed on tick k with exact length b' units is released by the FLOAT test on tick k'
   iff k tau + b' <= k' tau, i.e. iff k' >= k + ceil(b' / tau): the release tick of the float computation is the exact
   one.  t = clock on tick k, t' = clock on tick k' (any reals within relative 2^-53 of k/tpb, k'/tpb). *)
Theorem noteoff_release_exact (U tpb tau k k' b' : Z) (t t' d g D G T : R) :
  (0 < tpb)%Z -> (0 < tau)%Z -> U = (tau * tpb)%Z -> (2 * U <= 10 ^ 8)%Z -> (0 <= k)%Z -> (0 <= k')%Z -> (1 <= b')%Z ->
  0 < D -> 0 < G -> D * G = IZR b' / IZR U ->
  Rabs (t - IZR k / IZR tpb) <= u * (IZR k / IZR tpb) ->
  Rabs (t' - IZR k' / IZR tpb) <= u * (IZR k' / IZR tpb) ->
  Rabs (d - D) <= bpow radix2 (-51) * D -> Rabs (g - G) <= bpow radix2 (-51) * G ->
  IZR (k * tau + b') / IZR U <= T -> IZR k' / IZR tpb <= T -> T <= 450000 ->
  float_le0' (noteoff_timestamp t d g) t' = (k * tau + b' <=? k' * tau)%Z /\
  float_le0' (noteoff_timestamp t d g) t' = (k + cdivZ b' tau <=? k')%Z.
Proof.
  intros Htpb Htau HU HU2 Hk Hk' Hb HD HG HDG Ht Ht' Hd Hg HT HT' HT2.
  assert (T0 : 0 <= T).
  { eapply Rle_trans; [|exact HT']. apply Rmult_le_pos. apply IZR_le; lia. left. apply Rinv_0_lt_compat. apply IZR_lt; lia. }
  assert (A : float_le0' (noteoff_timestamp t d g) t' = (k * tau + b' <=? k' * tau)%Z).
  { apply (float_le0'_bool U tpb tau k' (k * tau + b') t' (noteoff_timestamp t d g) (bpow radix2 (-48) * T)); try assumption.
    - apply horizon_ok. lra.
    - apply clock_within; assumption.
    - apply (noteoff_timestamp_error U tpb tau k b' t d g D G T); assumption. }
  split. exact A. rewrite A.
  pose proof (cdivZ_le b' tau (k' - k) Htau) as C.
  destruct (Z.leb_spec (k * tau + b') (k' * tau)); destruct (Z.leb_spec (k + cdivZ b' tau) k'); try reflexivity; exfalso; nia.
Qed.

(** * 2. The time of a scheduled action *)

(* ceil(round(r, 8)) is the exact ceiling of m / qn, when r is within relative 2^-50 of m / qn, qn <= 10^8 units and
   at most 5 * 10^6 quantize periods have elapsed.  The round(., 8) absorbs the float error when m / qn is a whole
   number (error < 0.5e-8), and does no harm otherwise because m / qn is then at least 1/qn >= 1e-8 away from it. *)
Lemma ceil_round8_float (qn m : Z) (r : R) :
  (1 <= qn <= 10 ^ 8)%Z -> (0 <= m <= 5000000 * qn)%Z ->
  Rabs (r - IZR m / IZR qn) <= bpow radix2 (-50) * (IZR m / IZR qn) ->
  Zceil (py_round8 r) = cdivZ m qn.
Proof.
  intros Hq Hm Hr. rewrite b50 in Hr.
  pose proof (cdivZ_spec m qn ltac:(lia)) as C. set (c := cdivZ m qn) in *.
  assert (Q1 : 1 <= IZR qn) by (apply IZR_le; lia).
  assert (Q2 : IZR qn <= 100000000) by (apply IZR_le; lia).
  assert (M0 : 0 <= IZR m) by (apply IZR_le; lia).
  assert (M1 : IZR m <= 5000000 * IZR qn) by (rewrite <- mult_IZR; apply IZR_le; lia).
  set (rho := IZR m / IZR qn) in *.
  assert (RQ : rho * IZR qn = IZR m) by (unfold rho; field; lra).
  assert (R0 : 0 <= rho <= 5000000).
  { split. unfold rho. apply Rmult_le_pos. lra. left. apply Rinv_0_lt_compat. lra.
    apply Rmult_le_reg_r with (r := IZR qn). lra. rewrite RQ. lra. }
  apply Rabs_le_inv in Hr.
  assert (DL : 8 * u * rho * 100000000 <= 4 / 9) by (unfold u; nra).
  assert (C0 : (0 <= c <= 5000000)%Z) by nia.
  assert (CI : IZR (c * 10 ^ 8) / 10 ^ 8 = IZR c) by (rewrite mult_IZR, e8_val; change (IZR (10 ^ 8)) with 100000000; field).
  unfold py_round8. set (n := units8 r).
  assert (NB : ((c - 1) * 10 ^ 8 < n <= c * 10 ^ 8)%Z \/ n = (c * 10 ^ 8)%Z).
  { unfold n, units8. rewrite e8_val.
    destruct (Z.eq_dec m (c * qn)) as [EQ|NE].
    - right. apply Znearest_imp. rewrite mult_IZR. change (IZR (10 ^ 8)) with 100000000.
      assert (rho = IZR c).
      { apply Rmult_eq_reg_r with (r := IZR qn). rewrite RQ, EQ, mult_IZR. reflexivity. lra. }
      apply Rabs_def1; nra.
    - left.
      assert (L1 : IZR (c - 1) * IZR qn + 1 <= IZR m). { rewrite <- mult_IZR, <- plus_IZR. apply IZR_le. lia. }
      assert (L2 : IZR m <= IZR c * IZR qn - 1). { rewrite <- mult_IZR, <- minus_IZR. apply IZR_le. lia. }
      rewrite minus_IZR in L1. rewrite <- RQ in L1, L2.
      (* rho is at least 1/qn >= 1e-8 away from c - 1 and from c *)
      assert (G1 : (IZR c - 1) * 100000000 + 1 <= rho * 100000000) by nra.
      assert (G2 : rho * 100000000 <= IZR c * 100000000 - 1) by nra.
      pose proof (Znearest_half (fun z => negb (Z.even z)) (r * 100000000)) as ZN. apply Rabs_le_inv in ZN.
      set (nn := ZnearestE (r * 100000000)) in *.
      split.
      + apply lt_IZR. rewrite mult_IZR, minus_IZR. change (IZR (10 ^ 8)) with 100000000. nra.
      + apply le_IZR. assert (IZR nn < IZR c * 100000000 + 1) by nra.
        rewrite mult_IZR. change (IZR (10 ^ 8)) with 100000000.
        assert (IZR nn < IZR (c * 100000000 + 1)) by (rewrite plus_IZR, mult_IZR; lra).
        apply lt_IZR in H0. rewrite <- mult_IZR. apply IZR_le. lia. }
  assert (P52 : (2 ^ 52 = 4503599627370496)%Z) by reflexivity.
  assert (P8 : (10 ^ 8 = 100000000)%Z) by reflexivity.
  assert (RC : RN (IZR c) = IZR c) by (apply RN_IZR; change (2 ^ 53)%Z with 9007199254740992%Z; lia).
  apply Zceil_imp. destruct NB as [[N1 N2] | ->].
  - split.
    + assert (RC1 : RN (IZR (c - 1)) = IZR (c - 1)) by (apply RN_IZR; change (2 ^ 53)%Z with 9007199254740992%Z; lia).
      rewrite <- RC1.
      replace (IZR (c - 1)) with (IZR ((c - 1) * 10 ^ 8) / 10 ^ 8).
      2:{ rewrite mult_IZR, e8_val. change (IZR (10 ^ 8)) with 100000000. field. }
      apply RN_units_lt; lia.
    + rewrite <- RC. rewrite <- CI. apply RN_le. rewrite e8_val. apply Rmult_le_compat_r. lra. apply IZR_le. exact N2.
  - rewrite CI, RC. split. apply IZR_lt. lia. lra.
Qed.

(* the last addition: a, b within relative 6u of A, B >= 0 whose sum is 0 or at least 2e-8 *)
Lemma sum_err (a b A B : R) :
  0 <= A -> 0 <= B -> Rabs (a - A) <= 6 * u * A -> Rabs (b - B) <= 6 * u * B ->
  A + B = 0 \/ / 50000000 <= A + B ->
  Rabs (RN (a + b) - (A + B)) <= 8 * u * (A + B).
Proof.
  intros HA HB Ha Hb HS. apply Rabs_le_inv in Ha. apply Rabs_le_inv in Hb.
  assert (Upos : 0 < u) by (unfold u; lra).
  destruct (RN_rel (a + b)) as [e [E R]].
  { assert (U6 : 6 * u <= / 1000) by (unfold u; lra).
    assert (PA : 0 <= (1 - 6 * u) * A) by (apply Rmult_le_pos; lra).
    assert (PB : 0 <= (1 - 6 * u) * B) by (apply Rmult_le_pos; lra).
    destruct HS as [Z|P].
    - left. assert (A = 0) by lra. assert (B = 0) by lra. subst A B. lra.
    - right. assert ((1 - 6 * u) * (A + B) <= a + b) by lra.
      assert ((1 - / 1000) * (A + B) <= (1 - 6 * u) * (A + B)) by (apply Rmult_le_compat_r; lra). lra. }
  rewrite R. apply Rabs_le_inv in E.
  assert (U6 : 6 * u <= / 1000) by (unfold u; lra).
  assert (PA : 0 <= (1 - 6 * u) * A) by (apply Rmult_le_pos; lra).
  assert (PB : 0 <= (1 - 6 * u) * B) by (apply Rmult_le_pos; lra).
  assert (S1 : 0 <= a + b <= (1 + 6 * u) * (A + B)) by (split; lra).
  assert (Se : - (u * ((1 + 6 * u) * (A + B))) <= (a + b) * e <= u * ((1 + 6 * u) * (A + B))) by nra.
  replace ((a + b) * (1 + e) - (A + B)) with ((a - A) + (b - B) + (a + b) * e) by ring.
  apply Rabs_le. unfold u in *. nra.
Qed.

Lemma inv_one_plus e2 : Rabs e2 <= 4 * u -> exists e', Rabs e' <= 5 * u /\ / (1 + e2) = 1 + e'.
Proof.
  intros H. apply Rabs_le_inv in H. exists (/ (1 + e2) - 1). split; [|ring].
  assert (P : 0 < 1 + e2) by (unfold u in *; lra).
  assert (W : / (1 + e2) * (1 + e2) = 1) by (apply Rinv_l; lra).
  assert (W0 : 0 < / (1 + e2)) by (apply Rinv_0_lt_compat; exact P).
  set (w := / (1 + e2)) in *.
  assert (U1 : 1 <= (1 + 5 * u) * (1 + e2)) by (unfold u in *; nra).
  assert (U2 : (1 - 5 * u) * (1 + e2) <= 1) by (unfold u in *; nra).
  apply Rabs_le. split.
  - assert (w * ((1 - 5 * u) * (1 + e2)) <= w * 1) by (apply Rmult_le_compat_l; lra). nra.
  - assert (w * 1 <= w * ((1 + 5 * u) * (1 + e2))) by (apply Rmult_le_compat_l; lra). nra.
Qed.

(* the exact scheduled time in units: Sched/Model.v's sched_time *)
Definition sched_units (t q d : Z) : Z := ((if q =? 0 then t else q * cdivZ t q) + d)%Z.

(* t = the float clock on tick k; q, dl = the float quantize and delay, standing for qn / U and dn / U beats.
   Quantised case: qn <= 10^8 units and at most 5 * 10^6 quantize periods since time 0. *)
Theorem action_time_error (U tpb tau k qn dn : Z) (t q dl T : R) :
  (0 < tpb)%Z -> (0 < tau)%Z -> U = (tau * tpb)%Z -> (2 * U <= 10 ^ 8)%Z -> (0 <= k)%Z -> (0 <= dn)%Z ->
  (qn = 0%Z /\ q = 0) \/
  ((1 <= qn <= 10 ^ 8)%Z /\ Rabs (q - IZR qn / IZR U) <= bpow radix2 (-51) * (IZR qn / IZR U) /\ (k * tau <= 5000000 * qn)%Z) ->
  Rabs (t - IZR k / IZR tpb) <= u * (IZR k / IZR tpb) ->
  Rabs (dl - IZR dn / IZR U) <= bpow radix2 (-51) * (IZR dn / IZR U) ->
  IZR (sched_units (k * tau) qn dn) / IZR U <= T ->
  Rabs (action_time t q dl - IZR (sched_units (k * tau) qn dn) / IZR U) <= bpow radix2 (-48) * T.
Proof.
  intros Htpb Htau HU HU2 Hk Hdn HQ Ht Hdl HT.
  assert (U0 : (0 < U)%Z) by nia.
  assert (RU : 0 < IZR U) by (apply IZR_lt; exact U0).
  assert (RU2 : IZR U <= 50000000).
  { apply IZR_le in HU2. rewrite mult_IZR in HU2. change (IZR (10 ^ 8)) with 100000000 in HU2. lra. }
  assert (IU : / 50000000 <= / IZR U) by (apply Rinv_le_contravar; lra).
  assert (IU0 : 0 < / IZR U) by (apply Rinv_0_lt_compat; lra).
  assert (Upos : 0 < u) by (unfold u; lra).
  rewrite b51 in *. rewrite b48.
  assert (KT : IZR k / IZR tpb = IZR (k * tau) / IZR U).
  { subst U. rewrite !mult_IZR. field. split; apply not_0_IZR; lia. }
  rewrite KT in Ht.
  (* a non-negative grid value is 0 or at least 1/U *)
  assert (grid : forall n : Z, (0 <= n)%Z -> 0 <= IZR n / IZR U /\ (IZR n / IZR U = 0 \/ / 50000000 <= IZR n / IZR U)).
  { intros n Hn. destruct (Z.eq_dec n 0) as [->|N]. split. unfold Rdiv. lra. left. unfold Rdiv. ring.
    assert (1 <= IZR n) by (apply IZR_le; lia).
    assert (1 * / IZR U <= IZR n * / IZR U) by (apply Rmult_le_compat_r; lra).
    unfold Rdiv. split. lra. right. lra. }
  assert (final : forall (a : R) (an : Z), (0 <= an)%Z -> Rabs (a - IZR an / IZR U) <= 6 * u * (IZR an / IZR U) ->
            IZR (an + dn) / IZR U <= T ->
            Rabs (RN (a + dl) - IZR (an + dn) / IZR U) <= 32 * u * T).
  { intros a an Han Ha HT'.
    destruct (grid an Han) as [A0 _]. destruct (grid dn Hdn) as [B0 _]. destruct (grid (an + dn)%Z ltac:(lia)) as [S0 S1].
    assert (SP : IZR (an + dn) / IZR U = IZR an / IZR U + IZR dn / IZR U) by (rewrite plus_IZR; field; lra).
    rewrite SP in *.
    eapply Rle_trans. apply sum_err; try assumption.
    - eapply Rle_trans. exact Hdl. nra.
    - nra. }
  unfold action_time, sched_units.
  destruct HQ as [[Hq0 Hq]|[Hqn [Hq Hper]]].
  - (* not quantised *)
    subst qn q. rewrite Req_bool_true by reflexivity. simpl negb. cbv iota. simpl Z.eqb. cbv iota.
    unfold sched_units in HT. simpl Z.eqb in HT. cbv iota in HT.
    apply final. nia.
    + eapply Rle_trans. exact Ht. destruct (grid (k * tau)%Z ltac:(nia)) as [A0 _]. nra.
    + exact HT.
  - (* quantised *)
    assert (Qne : (qn =? 0)%Z = false) by (apply Z.eqb_neq; lia).
    unfold sched_units in HT. rewrite Qne in *.
    assert (Q1 : 1 <= IZR qn) by (apply IZR_le; lia).
    set (Qx := IZR qn / IZR U) in *.
    assert (Qx0 : 0 < Qx) by (unfold Qx, Rdiv; nra).
    destruct (near_eps q Qx (4 * u) Qx0 Hq) as [e2 [E2 Rq]].
    assert (E2' := Rabs_le_inv _ _ E2).
    assert (qpos : 0 < q) by (rewrite Rq; unfold u in *; nra).
    rewrite Req_bool_false by lra. simpl negb. cbv iota.
    set (m := (k * tau)%Z) in *. assert (M0 : (0 <= m)%Z) by (unfold m; nia).
    destruct (grid m M0) as [K0 K1]. set (K := IZR m / IZR U) in *.
    destruct (near_eps0 t K u K0 ltac:(lra) Ht) as [e0 [E0 Rt]].
    set (rho := IZR m / IZR qn).
    assert (RHO : K / Qx = rho) by (unfold K, Qx, rho; field; lra).
    assert (RHO0 : 0 <= rho) by (unfold rho; apply Rmult_le_pos; [apply IZR_le; lia | left; apply Rinv_0_lt_compat; lra]).
    destruct (inv_one_plus e2 E2) as [e2' [E2i Ri]].
    assert (TQ : t / q = rho * ((1 + e0) * (1 + e2'))).
    { rewrite Rt, Rq. rewrite <- RHO. rewrite <- Ri. field. split. unfold u in *; lra. lra. }
    pose proof (two_eps e0 e2' u (5 * u) ltac:(lra) ltac:(lra) E0 E2i) as F1.
    set (f := (1 + e0) * (1 + e2') - 1) in *.
    assert (F1' : Rabs f <= 6 * u + 5 * u * u) by (eapply Rle_trans; [exact F1 | lra]).
    assert (TQ' : t / q = rho * (1 + f)) by (rewrite TQ; unfold f; ring).
    (* the quotient is 0 or at least 0.99 / qn *)
    assert (TQad : t / q = 0 \/ / 1073741824 <= t / q).
    { destruct (Z.eq_dec m 0) as [Z|NZ].
      - left. rewrite TQ'. unfold rho. rewrite Z. unfold Rdiv. ring.
      - right. assert (1 <= IZR m) by (apply IZR_le; lia).
        assert (Q2 : IZR qn <= 100000000) by (apply IZR_le; lia).
        assert (/ 100000000 <= / IZR qn) by (apply Rinv_le_contravar; lra).
        assert (/ 100000000 <= rho) by (unfold rho, Rdiv; nra).
        apply Rabs_le_inv in F1'. rewrite TQ'. unfold u in *. nra. }
    destruct (RN_rel (t / q) TQad) as [e3 [E3 Rr]].
    pose proof (two_eps f e3 (6 * u + 5 * u * u) u ltac:(nra) ltac:(lra) F1' E3) as F2.
    assert (Hr : Rabs (RN (t / q) - rho) <= bpow radix2 (-50) * rho).
    { rewrite Rr, TQ', b50.
      replace (rho * (1 + f) * (1 + e3) - rho) with (rho * ((1 + f) * (1 + e3) - 1)) by ring.
      rewrite Rabs_mult, (Rabs_pos_eq rho RHO0). rewrite (Rmult_comm (8 * u)). apply Rmult_le_compat_l. exact RHO0.
      eapply Rle_trans. exact F2. unfold u. lra. }
    rewrite (ceil_round8_float qn m (RN (t / q)) Hqn ltac:(lia) Hr).
    pose proof (cdivZ_spec m qn ltac:(lia)) as C. set (c := cdivZ m qn) in *.
    assert (C0 : (0 <= c)%Z) by nia.
    (* s1 = q * c *)
    assert (QC : q * IZR c = IZR (qn * c) / IZR U * (1 + e2)).
    { rewrite Rq. unfold Qx. rewrite mult_IZR. field. lra. }
    destruct (grid (qn * c)%Z ltac:(nia)) as [A0 A1]. set (A := IZR (qn * c) / IZR U) in *.
    destruct (RN_rel (q * IZR c)) as [e5 [E5 R5]].
    { rewrite QC. destruct A1 as [Z|P]. left. rewrite Z. ring. right. unfold u in *. nra. }
    apply final. nia.
    + rewrite R5, QC. fold A.
      replace (A * (1 + e2) * (1 + e5) - A) with (A * ((1 + e2) * (1 + e5) - 1)) by ring.
      rewrite Rabs_mult, (Rabs_pos_eq A A0). rewrite (Rmult_comm (6 * u)). apply Rmult_le_compat_l. exact A0.
      eapply Rle_trans. apply (two_eps e2 e5 (4 * u) u); try lra; assumption. unfold u. lra.
    + exact HT.
Qed.

(* Start decision: the action scheduled on tick k is performed by the FLOAT test on tick k' iff X <= k' tau, X the exact
   scheduled time in units, i.e. iff k' >= ceil(X / tau): the start tick of the float computation is the exact one *)
Theorem action_start_exact (U tpb tau k k' qn dn : Z) (t t' q dl T : R) :
  (0 < tpb)%Z -> (0 < tau)%Z -> U = (tau * tpb)%Z -> (2 * U <= 10 ^ 8)%Z -> (0 <= k)%Z -> (0 <= k')%Z -> (0 <= dn)%Z ->
  (qn = 0%Z /\ q = 0) \/
  ((1 <= qn <= 10 ^ 8)%Z /\ Rabs (q - IZR qn / IZR U) <= bpow radix2 (-51) * (IZR qn / IZR U) /\ (k * tau <= 5000000 * qn)%Z) ->
  Rabs (t - IZR k / IZR tpb) <= u * (IZR k / IZR tpb) ->
  Rabs (t' - IZR k' / IZR tpb) <= u * (IZR k' / IZR tpb) ->
  Rabs (dl - IZR dn / IZR U) <= bpow radix2 (-51) * (IZR dn / IZR U) ->
  IZR (sched_units (k * tau) qn dn) / IZR U <= T -> IZR k' / IZR tpb <= T -> T <= 450000 ->
  float_le0' (action_time t q dl) t' = (sched_units (k * tau) qn dn <=? k' * tau)%Z /\
  float_le0' (action_time t q dl) t' = (cdivZ (sched_units (k * tau) qn dn) tau <=? k')%Z.
Proof.
  intros Htpb Htau HU HU2 Hk Hk' Hdn HQ Ht Ht' Hdl HT HT' HT2.
  assert (T0 : 0 <= T).
  { eapply Rle_trans; [|exact HT']. apply Rmult_le_pos. apply IZR_le; lia. left. apply Rinv_0_lt_compat. apply IZR_lt; lia. }
  set (X := sched_units (k * tau) qn dn) in *.
  assert (A : float_le0' (action_time t q dl) t' = (X <=? k' * tau)%Z).
  { apply (float_le0'_bool U tpb tau k' X t' (action_time t q dl) (bpow radix2 (-48) * T)); try assumption.
    - apply horizon_ok. lra.
    - apply clock_within; assumption.
    - apply (action_time_error U tpb tau k qn dn t q dl T); assumption. }
  split. exact A. rewrite A.
  pose proof (cdivZ_le X tau k' Htau) as C.
  destruct (Z.leb_spec X (k' * tau)); destruct (Z.leb_spec (cdivZ X tau) k'); try reflexivity; exfalso; lia.
Qed.

(** * 3. Float inputs that satisfy the closeness hypotheses *)

(* the double nearest to a rational *)
Lemma RN_near D : / 1073741824 <= D -> Rabs (RN D - D) <= bpow radix2 (-51) * D.
Proof.
  intros H. destruct (RN_rel D) as [e [E R]]. right; exact H.
  rewrite R, b51. replace (D * (1 + e) - D) with (D * e) by ring.
  rewrite Rabs_mult, (Rabs_pos_eq D) by lra. rewrite (Rmult_comm (4 * u)). apply Rmult_le_compat_l. lra.
  eapply Rle_trans. exact E. unfold u. lra.
Qed.

Lemma inv_one_plus_u e : Rabs e <= u -> exists e', Rabs e' <= u + 2 * u * u /\ / (1 + e) = 1 + e'.
Proof.
  intros H. apply Rabs_le_inv in H. exists (/ (1 + e) - 1). split; [|ring].
  assert (P : 0 < 1 + e) by (unfold u in *; lra).
  assert (W : / (1 + e) * (1 + e) = 1) by (apply Rinv_l; lra).
  assert (W0 : 0 < / (1 + e)) by (apply Rinv_0_lt_compat; exact P).
  set (w := / (1 + e)) in *.
  assert (U1 : 1 <= (1 + (u + 2 * u * u)) * (1 + e)) by (unfold u in *; nra).
  assert (U2 : (1 - (u + 2 * u * u)) * (1 + e) <= 1) by (unfold u in *; nra).
  apply Rabs_le. split.
  - assert (w * ((1 - (u + 2 * u * u)) * (1 + e)) <= w * 1) by (apply Rmult_le_compat_l; lra). nra.
  - assert (w * 1 <= w * ((1 + (u + 2 * u * u)) * (1 + e))) by (apply Rmult_le_compat_l; lra). nra.
Qed.

(* a float quotient of two nearest doubles, such as (5/512) / 1.1 written in Python *)
Lemma quot_near A B : / 1048576 <= A -> / 1048576 <= B -> / 1048576 <= A / B ->
  Rabs (RN (RN A / RN B) - A / B) <= bpow radix2 (-51) * (A / B).
Proof.
  intros HA HB HQ.
  destruct (RN_rel A) as [ea [Ea Ra]]. right; lra.
  destruct (RN_rel B) as [eb [Eb Rb]]. right; lra.
  destruct (inv_one_plus_u eb Eb) as [eb' [Eb' Ri]].
  assert (Upos : 0 < u) by (unfold u; lra).
  assert (Eb2 := Rabs_le_inv _ _ Eb).
  assert (Q : RN A / RN B = A / B * ((1 + ea) * (1 + eb'))).
  { rewrite Ra, Rb, <- Ri. field. split. unfold u in *; lra. lra. }
  pose proof (two_eps ea eb' u (u + 2 * u * u) ltac:(lra) ltac:(nra) Ea Eb') as F.
  set (f := (1 + ea) * (1 + eb') - 1) in *.
  assert (Q' : RN A / RN B = A / B * (1 + f)) by (rewrite Q; unfold f; ring).
  assert (F' : Rabs f <= 2 * u + 4 * u * u) by (eapply Rle_trans; [exact F | unfold u; lra]).
  destruct (RN_rel (RN A / RN B)) as [ec [Ec Rc]].
  { right. rewrite Q'. apply Rabs_le_inv in F'. unfold u in *. nra. }
  rewrite Rc, Q', b51.
  replace (A / B * (1 + f) * (1 + ec) - A / B) with (A / B * ((1 + f) * (1 + ec) - 1)) by ring.
  rewrite Rabs_mult, (Rabs_pos_eq (A / B)) by lra. rewrite (Rmult_comm (4 * u)). apply Rmult_le_compat_l. lra.
  eapply Rle_trans. apply (two_eps f ec (2 * u + 4 * u * u) u); try (unfold u; lra); assumption. unfold u. lra.
Qed.

(* an exactly representable input *)
Lemma exact_near x : 0 <= x -> Rabs (x - x) <= bpow radix2 (-51) * x.
Proof. intros H. replace (x - x) with 0 by ring. rewrite Rabs_R0. apply Rmult_le_pos. apply bpow_ge_0. exact H. Qed.

Print Assumptions noteoff_release_exact.
Print Assumptions action_start_exact.
(* each prints exactly: ClassicalDedekindReals.sig_not_dec, ClassicalDedekindReals.sig_forall_dec,
   FunctionalExtensionality.functional_extensionality_dep, Classical_Prop.classic (the standard library's real numbers) *)

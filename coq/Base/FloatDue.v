(* Base/FloatDue.v - the FLOAT due-test of Track.tick decides like the EXACT one.

   Track.tick (non-interpolating branch), after the repair 9bb39e5:
       while round(self.current_time - self.next_event_time, 8) >= 0:
           self.current_event = self.get_next_event()
           self.next_event_time += float(self.current_event.duration)
   before it (the REFUTED test):   while round(self.current_time, 8) >= round(self.next_event_time, 8):
   current_time = RN (k / tpb) at tick k (Base/FloatGrid.v, grid_run_exact); next_event_time starts at the track's start
   time and accumulates the float durations, one correctly rounded binary64 addition per event.

   Modelling assumptions (stated, not proved - they are facts about CPython on IEEE-754 hardware):
     (M1) every float operation is ONE correctly rounded binary64 operation (RN, as in FloatGrid.v);
     (M2) float(duration) is the double nearest to the real duration D:  RN D;
     (M3) Python's round(x, 8) of a double x is correctly rounded (Base/FloatRound8.v):
              py_round8 x = RN (IZR (ZnearestE (x * 10^8)) / 10^8).

   Contents
     1. units8_compare      comparing two py_round8 values = comparing the integer numbers of 1e-8 units (|units| <= 2^52)
     2. fsum_error(_closed) error of the accumulated next_event_time: <= (j+1) * (2^-53 + 2^-73) * T after j additions
     3. due_float_exact     REFUTED test: the float decision equals the exact rational one only under no_tie
        tie_needs_512       the only exact decimal ties on the tick grid need 512 | tpb
        tie_sharp_512       ... and for tpb = 512 the statement really fails; the real code lost events (docs/FLOAT.md):
                            this is why the code was changed
     3'. due'_float_exact   REPAIRED test: float decision = exact decision for EVERY tpb, 2 U <= 10^8, 6 * 10^8 * E <= 1
     3''. le0'_float_exact  the mirrored repaired test round(a - current_time, 8) <= 0 (note-offs, scheduled actions)
     4. any_while_agree ... generic: a float test that decides like the exact one runs like the model
        float_due'_is_exact_due, while_agree', run_agree_src', consumed_agree'   (repaired test, grid_setting + budget)
        float_due_is_exact_due, while_agree, run_agree_src, consumed_agree       (refuted test, needs tpb mod 512 <> 0)
     5. run'_float_exact, run'_float_exact_tick (clock of the relative tick grid), while'_float_exact, consumed'_float_exact, due'_index_float_exact: the statements for
        [admissible'] (all tpb <= 2^20); run_float_exact_refuted_test for [admissible]
     6. satisfiability: admissible'_ticks, admissible'_512, admissible'_2560, due'_2560, admissible_480
   Print Assumptions at the end. *)
From Coq Require Import ZArith Reals Lra Lia List Znumtheory.
From Flocq Require Import Core Relative.
From Isobar Require Import Base.FloatGrid Base.FloatRound8.
Import ListNotations.
Open Scope R_scope.

(** * 0. Basics *)

(* prec53_gt_0, fexp64_valid, RN_le, RN_0, RN_opp, RN_idem: Base/FloatGrid.v *)

Lemma fmt_m1022 : generic_format radix2 fexp64 (bpow radix2 (-1022)).
Proof. apply generic_format_bpow. unfold fexp64, FLT_exp. lia. Qed.

(* a float result is 0 or at least the smallest normal number, when the real argument is *)
Lemma RN_adm x : x = 0 \/ bpow radix2 (-1022) <= x -> RN x = 0 \/ bpow radix2 (-1022) <= RN x.
Proof.
  intros [->|H]. left. apply RN_0.
  right. unfold RN. apply round_ge_generic; [exact fexp64_valid | apply valid_rnd_N | exact fmt_m1022 | exact H].
Qed.

Definition u53 : R := bpow radix2 (-53).
Lemma u53_val : u53 = / 9007199254740992.
Proof. reflexivity. Qed.

(* one rounding: relative error 2^-53 *)
Lemma RN_err x : x = 0 \/ bpow radix2 (-1022) <= x -> Rabs (RN x - x) <= u53 * x.
Proof.
  intros H.
  assert (P : 0 <= x).
  { destruct H as [->|H]. lra. pose proof (bpow_gt_0 radix2 (-1022)). lra. }
  destruct (RN_eps x) as [e [E R]].
  { destruct H as [H|H]. now left. right. rewrite Rabs_pos_eq; assumption. }
  rewrite R. replace (x * (1 + e) - x) with (e * x) by ring.
  rewrite Rabs_mult, (Rabs_pos_eq x P). apply Rmult_le_compat_r; assumption.
Qed.

Lemma bpow_m1022_le_m30 : bpow radix2 (-1022) <= / 1073741824.
Proof. change (/ 1073741824) with (bpow radix2 (-30)). apply bpow_le. lia. Qed.

(** * 1. round(., 8): comparing the rounded doubles = comparing the numbers of 1e-8 units *)

(* units8 x = ZnearestE (x * 10^8), py_round8 x = RN (IZR (units8 x) / 10^8), e8_val: Base/FloatRound8.v *)

(* consecutive multiples of 1e-8 below 2^52 * 1e-8 (45035996 beats) are distinct doubles *)
Lemma RN_units_step_pos n : (0 <= n < 2 ^ 52)%Z -> RN (IZR n / 10 ^ 8) < RN (IZR (n + 1) / 10 ^ 8).
Proof.
  intros Hn. rewrite e8_val. rewrite plus_IZR.
  assert (N0 : 0 <= IZR n) by (apply IZR_le; lia).
  assert (N1 : IZR n <= 4503599627370495) by (apply IZR_le; lia).
  destruct (RN_eps (IZR n / 100000000)) as [e1 [E1 R1]].
  { destruct (Z.eq_dec n 0) as [->|H0]. left. unfold Rdiv. ring.
    right. eapply Rle_trans. apply bpow_m1022_le_m30.
    assert (1 <= IZR n) by (apply IZR_le; lia). rewrite Rabs_pos_eq; lra. }
  destruct (RN_eps ((IZR n + 1) / 100000000)) as [e2 [E2 R2]].
  { right. eapply Rle_trans. apply bpow_m1022_le_m30.
    rewrite Rabs_pos_eq; lra. }
  rewrite R1, R2. change (bpow radix2 (-53)) with (/ 9007199254740992) in E1, E2.
  apply Rabs_le_inv in E1. apply Rabs_le_inv in E2.
  assert (A : IZR n * e1 <= / 9007199254740992 * IZR n) by nra.
  assert (B : - (/ 9007199254740992 * (IZR n + 1)) <= (IZR n + 1) * e2) by nra.
  lra.
Qed.

Lemma RN_units_step n : (- 2 ^ 52 <= n < 2 ^ 52)%Z -> RN (IZR n / 10 ^ 8) < RN (IZR (n + 1) / 10 ^ 8).
Proof.
  intros Hn. destruct (Z_le_gt_dec 0 n) as [H|H].
  - apply RN_units_step_pos. lia.
  - pose proof (RN_units_step_pos (- n - 1) ltac:(lia)) as P.
    replace (- n - 1 + 1)%Z with (- n)%Z in P by lia.
    replace (IZR (- n - 1) / 10 ^ 8) with (- (IZR (n + 1) / 10 ^ 8)) in P.
    2:{ rewrite minus_IZR, opp_IZR, plus_IZR. unfold Rdiv. ring. }
    replace (IZR (- n) / 10 ^ 8) with (- (IZR n / 10 ^ 8)) in P.
    2:{ rewrite opp_IZR. unfold Rdiv. ring. }
    rewrite !RN_opp in P. lra.
Qed.

Lemma RN_units_lt m n : (- 2 ^ 52 <= m)%Z -> (n <= 2 ^ 52)%Z -> (m < n)%Z -> RN (IZR m / 10 ^ 8) < RN (IZR n / 10 ^ 8).
Proof.
  intros Hm Hn Hmn. eapply Rlt_le_trans. apply RN_units_step. lia.
  apply RN_le. rewrite e8_val. apply Rmult_le_compat_r. lra. apply IZR_le. lia.
Qed.

(* Deliverable 1 *)
Theorem units8_compare x y :
  (- 2 ^ 52 <= units8 x <= 2 ^ 52)%Z -> (- 2 ^ 52 <= units8 y <= 2 ^ 52)%Z ->
  (py_round8 y <= py_round8 x <-> (units8 y <= units8 x)%Z) /\
  (py_round8 y < py_round8 x <-> (units8 y < units8 x)%Z).
Proof.
  intros Hx Hy. unfold py_round8.
  set (m := units8 x) in *. set (n := units8 y) in *.
  destruct (Z.lt_trichotomy n m) as [H|[H|H]].
  - pose proof (RN_units_lt n m ltac:(lia) ltac:(lia) H). split; split; intros; try lia; lra.
  - rewrite H. split; split; intros; try lia; lra.
  - pose proof (RN_units_lt m n ltac:(lia) ltac:(lia) H). split; split; intros; try lia; lra.
Qed.

(** * 2. Error of the accumulated next_event_time *)

(* self.next_event_time += float(duration):  two roundings, float(D) and the addition *)
Definition fadd (x D : R) : R := RN (x + RN D).
Definition fsum (x0 : R) (Ds : list R) : R := fold_left fadd Ds x0.
Definition esum (S0 : R) (Ds : list R) : R := fold_left Rplus Ds S0.

(* admissible real quantities: 0 or at least the smallest normal double 2^-1022 (no underflow) *)
Definition adm (x : R) : Prop := x = 0 \/ bpow radix2 (-1022) <= x.

Lemma adm_nonneg x : adm x -> 0 <= x.
Proof. intros [->|H]. lra. pose proof (bpow_gt_0 radix2 (-1022)). lra. Qed.

Lemma adm_plus x y : adm x -> adm y -> adm (x + y).
Proof.
  intros Hx Hy. pose proof (adm_nonneg _ Hx). pose proof (adm_nonneg _ Hy).
  destruct Hx as [->|Hx]. rewrite Rplus_0_l. exact Hy. right. lra.
Qed.

Lemma fadd_adm x D : adm x -> adm D -> adm (fadd x D).
Proof. intros Hx HD. unfold fadd. apply RN_adm. apply adm_plus. exact Hx. apply RN_adm. exact HD. Qed.

Lemma fsum_adm Ds : forall x, adm x -> Forall adm Ds -> adm (fsum x Ds).
Proof.
  induction Ds as [|D r IH]; intros x Hx HF. exact Hx.
  inversion HF; subst. apply IH. apply fadd_adm; assumption. assumption.
Qed.

Lemma esum_ge Ds : forall S0, Forall adm Ds -> S0 <= esum S0 Ds.
Proof.
  induction Ds as [|D r IH]; intros S0 HF. simpl. lra.
  inversion HF; subst. simpl. pose proof (adm_nonneg _ H1). eapply Rle_trans; [|apply IH; assumption]. lra.
Qed.

Lemma esum_app S0 l1 l2 : esum S0 (l1 ++ l2) = esum (esum S0 l1) l2.
Proof. unfold esum. apply fold_left_app. Qed.
Lemma fsum_app x0 l1 l2 : fsum x0 (l1 ++ l2) = fsum (fsum x0 l1) l2.
Proof. unfold fsum. apply fold_left_app. Qed.

Definition eta20 : R := / 1048576.       (* 2^-20: slack absorbing the second-order terms *)

(* one step of the recurrence, on reals: e1, e2 the relative errors of float(D) and of the addition *)
Lemma fadd_step_bound (T S D x e1 e2 n : R) :
  0 < T -> 0 <= S -> 0 <= D -> S + D <= T -> 0 <= n -> 2 * n + 1 <= 8589934592 ->
  Rabs e1 <= u53 -> Rabs e2 <= u53 ->
  Rabs (x - S) <= u53 * S + n * (u53 * (1 + eta20) * T) ->
  Rabs ((x + D * (1 + e1)) * (1 + e2) - (S + D)) <= u53 * (S + D) + (n + 1) * (u53 * (1 + eta20) * T).
Proof.
  intros HT HS HD HSD Hn Hn2 E1 E2 HX.
  rewrite u53_val in *. unfold eta20 in *.
  set (u := / 9007199254740992) in *. set (c := u * (1 + / 1048576) * T) in *.
  assert (U0 : 0 < u) by (unfold u; lra).
  assert (C0 : 0 <= c) by (unfold c; apply Rmult_le_pos; [unfold u; lra | lra]).
  assert (C1 : c <= 2 * u * T). { unfold c. assert (0 <= u * T) by (apply Rmult_le_pos; lra). lra. }
  set (r := x - S) in *. apply Rabs_le_inv in HX. apply Rabs_le_inv in E1. apply Rabs_le_inv in E2.
  assert (UT : 0 <= u * T) by (apply Rmult_le_pos; lra).
  assert (US : 0 <= u * S <= u * T - u * D) by nra.
  assert (UD : 0 <= u * D) by nra.
  assert (NC : 0 <= n * c <= n * (2 * (u * T))) by nra.
  (* B := bound on |r| + u D *)
  assert (B : u * S + n * c + u * D <= (2 * n + 1) * (u * T)) by nra.
  assert (B2 : (2 * n + 1) * (u * T) <= / 1048576 * T).
  { replace ((2 * n + 1) * (u * T)) with (((2 * n + 1) * u) * T) by ring.
    apply Rmult_le_compat_r. lra. unfold u. lra. }
  assert (DE : - (u * D) <= D * e1 <= u * D) by nra.
  set (y := x + D * (1 + e1)).
  assert (Y : - ((1 + / 1048576) * T) <= y <= (1 + / 1048576) * T).
  { unfold y. replace x with (S + r) by (unfold r; ring). lra. }
  assert (YE : - c <= y * e2 <= c).
  { unfold c. set (M := (1 + / 1048576) * T) in *. assert (0 <= M) by (unfold M; nra).
    replace (u * (1 + / 1048576) * T) with (u * M) by (unfold M; ring).
    split.
    - destruct (Rle_dec 0 y); nra.
    - destruct (Rle_dec 0 y); nra. }
  replace ((y) * (1 + e2) - (S + D)) with (r + D * e1 + y * e2) by (unfold y, r; ring).
  apply Rabs_le. lra.
Qed.

(* invariant form: the error budget grows by one c = 2^-53 (1 + 2^-20) T per event *)
Lemma fsum_error_inv (T : R) Ds : forall (n : nat) (x0 S0 : R),
  0 < T -> Forall adm Ds -> adm x0 -> 0 <= S0 -> esum S0 Ds <= T ->
  (2 * (Z.of_nat n + Z.of_nat (length Ds)) + 1 <= 2 ^ 33)%Z ->
  Rabs (x0 - S0) <= u53 * S0 + INR n * (u53 * (1 + eta20) * T) ->
  Rabs (fsum x0 Ds - esum S0 Ds) <= u53 * esum S0 Ds + INR (n + length Ds) * (u53 * (1 + eta20) * T).
Proof.
  induction Ds as [|D r IH]; intros n x0 S0 HT HF Hx HS HE Hlen HX.
  - simpl. rewrite Nat.add_0_r. exact HX.
  - inversion HF as [|? ? HD HF']; subst. simpl fsum. simpl esum. simpl in HE.
    replace (n + length (D :: r))%nat with (S n + length r)%nat by (simpl; lia).
    apply IH; try assumption.
    + apply fadd_adm; assumption.
    + pose proof (adm_nonneg _ HD). lra.
    + simpl length in Hlen. lia.
    + pose proof (adm_nonneg _ HD) as D0.
      assert (SD : S0 + D <= T). { eapply Rle_trans; [|exact HE]. apply esum_ge. assumption. }
      unfold fadd.
      destruct (RN_eps D) as [e1 [E1 R1]].
      { destruct HD as [H|H]. now left. right. rewrite Rabs_pos_eq; assumption. }
      assert (AY : adm (x0 + RN D)). { apply adm_plus. assumption. apply RN_adm. assumption. }
      destruct (RN_eps (x0 + RN D)) as [e2 [E2 R2]].
      { pose proof (adm_nonneg _ AY). destruct AY as [H'|H']. now left. right. rewrite Rabs_pos_eq; assumption. }
      rewrite R2, R1. rewrite S_INR.
      apply fadd_step_bound; try assumption.
      * apply pos_INR.
      * rewrite INR_IZR_INZ. replace 1 with (IZR 1) by reflexivity. rewrite <- mult_IZR, <- plus_IZR.
        apply IZR_le. simpl length in Hlen. lia.
Qed.

(* the error budget per event: (2^-53 + 2^-73) * T *)
Definition cT (T : R) : R := u53 * (1 + eta20) * T.

Lemma cT_nonneg T : 0 < T -> 0 <= cT T.
Proof. intros. unfold cT, eta20. rewrite u53_val. apply Rmult_le_pos; lra. Qed.

(* Deliverable 2: next_event_time after the durations Ds, started at the double nearest to S0, is within
   (j + 1) * (2^-53 + 2^-73) * T of the exact sum, j = number of additions, T any bound of the exact sum *)
Theorem fsum_error_closed (T S0 : R) Ds :
  0 < T -> Forall adm Ds -> adm S0 -> esum S0 Ds <= T -> (Z.of_nat (length Ds) < 2 ^ 32)%Z ->
  Rabs (fsum (RN S0) Ds - esum S0 Ds) <= INR (length Ds + 1) * cT T.
Proof.
  intros HT HF HS HE Hlen.
  pose proof (fsum_error_inv T Ds 0 (RN S0) S0 HT HF (RN_adm _ HS) (adm_nonneg _ HS) HE ltac:(simpl Z.of_nat; lia)) as P.
  simpl INR in P. rewrite Rmult_0_l, Rplus_0_r in P. specialize (P (RN_err _ HS)).
  simpl plus in P. eapply Rle_trans. exact P.
  rewrite plus_INR. simpl INR. fold (cT T).
  assert (u53 * esum S0 Ds <= cT T).
  { unfold cT, eta20. rewrite u53_val in *.
    pose proof (esum_ge Ds S0 HF). pose proof (adm_nonneg _ HS). nra. }
  lra.
Qed.

Lemma esum_firstn_le S0 Ds j : Forall adm Ds -> esum S0 (firstn j Ds) <= esum S0 Ds.
Proof.
  intros HF. rewrite <- (firstn_skipn j Ds) at 2. rewrite esum_app. apply esum_ge.
  rewrite <- (firstn_skipn j Ds) in HF. apply Forall_app in HF. tauto.
Qed.

(* ... and the same bound, with the TOTAL number of events J, holds at every event index j *)
Corollary fsum_error_prefix (T S0 : R) Ds j :
  0 < T -> Forall adm Ds -> adm S0 -> esum S0 Ds <= T -> (Z.of_nat (length Ds) < 2 ^ 32)%Z ->
  Rabs (fsum (RN S0) (firstn j Ds) - esum S0 (firstn j Ds)) <= INR (length Ds + 1) * cT T.
Proof.
  intros HT HF HS HE Hlen.
  assert (HF1 : Forall adm (firstn j Ds)).
  { rewrite <- (firstn_skipn j Ds) in HF. apply Forall_app in HF. tauto. }
  pose proof (firstn_length j Ds) as L.
  eapply Rle_trans. apply (fsum_error_closed T); try assumption.
  - eapply Rle_trans. apply esum_firstn_le. assumption. assumption.
  - lia.
  - apply Rmult_le_compat_r. apply cT_nonneg; assumption. apply le_INR. lia.
Qed.

(** * 3. The float decision is the exact decision *)

(* distinct points of the 1/U grid, U <= 10^8 / 2: the numbers of 1e-8 units are ordered like the points *)
Lemma units8_lt_of_grid_lt (U a b : Z) (x y E : R) :
  (0 < U)%Z -> (2 * U <= 10 ^ 8)%Z -> (a < b)%Z ->
  Rabs (x - IZR a / IZR U) <= E -> Rabs (y - IZR b / IZR U) <= E -> 2 * 10 ^ 8 * E < 1 ->
  (units8 x < units8 y)%Z.
Proof.
  intros HU HU2 Hab Hx Hy HE. unfold units8. rewrite e8_val in *.
  apply IZR_lt in HU. apply IZR_le in HU2. rewrite mult_IZR in HU2. change (IZR (10 ^ 8)) with 100000000 in HU2.
  assert (AB : IZR a + 1 <= IZR b). { rewrite <- plus_IZR. apply IZR_le. lia. }
  unfold Rdiv in *. set (iu := / IZR U) in *.
  assert (IU : IZR U * iu = 1) by (unfold iu; field; lra).
  assert (IU0 : 0 < iu) by (unfold iu; apply Rinv_0_lt_compat; lra).
  assert (IU2 : 2 <= 100000000 * iu) by nra.
  apply Rabs_le_inv in Hx. apply Rabs_le_inv in Hy.
  pose proof (Znearest_half (fun n => negb (Z.even n)) (x * 100000000)) as Zx.
  pose proof (Znearest_half (fun n => negb (Z.even n)) (y * 100000000)) as Zy.
  apply Rabs_le_inv in Zx. apply Rabs_le_inv in Zy.
  apply lt_IZR.
  assert (G : (IZR a + 1) * (100000000 * iu) <= IZR b * (100000000 * iu)) by (apply Rmult_le_compat_r; lra).
  lra.
Qed.

(* no exact decimal tie at the grid point k / tpb: k * 10^8 / tpb is not a half-integer *)
Definition no_tie (tpb k : Z) : Prop := forall h : Z, (2 * 10 ^ 8 * k <> (2 * h + 1) * tpb)%Z.

(* ties need 512 | tpb  (2 * 10^8 = 2^9 * 5^8) *)
Lemma tie_needs_512 (tpb k h : Z) : (2 * 10 ^ 8 * k = (2 * h + 1) * tpb)%Z -> (512 | tpb)%Z.
Proof.
  intros H. apply Gauss with (b := (2 * h + 1)%Z).
  - rewrite <- H. exists (390625 * k)%Z. lia.
  - change 512%Z with (2 ^ 9)%Z. apply rel_prime_sym. apply Zpow_facts.rel_prime_Zpower_r. lia.
    apply bezout_rel_prime. apply Bezout_intro with (u := 1%Z) (v := (- h)%Z). lia.
Qed.

Lemma no_tie_of_not_512 (tpb : Z) : (tpb mod 512 <> 0)%Z -> forall k, no_tie tpb k.
Proof.
  intros H k h E. apply tie_needs_512 in E. apply H. apply Z.mod_divide. lia. exact E.
Qed.

(* equal grid points on the TICK grid: t and x both within E of k / tpb round to the same number of units, provided
   no tie, and E is below half the distance 1/(2 q 10^8) between k/tpb and the nearest rounding boundary,
   where q is any number with tpb | 2 * 10^8 * q  (q = tpb / gcd(tpb, 2 * 10^8) is the best; q = tpb always works) *)
Lemma units8_eq_of_grid_eq (tpb q k : Z) (t x E : R) :
  (0 < tpb)%Z -> (0 < q)%Z -> (tpb | 2 * 10 ^ 8 * q)%Z -> no_tie tpb k ->
  Rabs (t - IZR k / IZR tpb) <= E -> Rabs (x - IZR k / IZR tpb) <= E -> 2 * 10 ^ 8 * IZR q * E < 1 ->
  units8 t = units8 x.
Proof.
  intros Htpb Hq [M HM] NT Ht Hx HE.
  set (N := (M * k)%Z).
  set (z := ((N + q) / (2 * q))%Z).
  assert (Z1 : ((2 * z - 1) * q + 1 <= N <= (2 * z + 1) * q - 1)%Z).
  { pose proof (Z.div_mod (N + q) (2 * q) ltac:(lia)) as DM.
    pose proof (Z.mod_pos_bound (N + q) (2 * q) ltac:(lia)) as MB. fold z in DM.
    assert (N <> (2 * (z - 1) + 1) * q)%Z.
    { intros EQ. apply (NT (z - 1)%Z). unfold N in EQ.
      assert (M * k * tpb = (2 * (z - 1) + 1) * q * tpb)%Z by (rewrite EQ; reflexivity).
      assert (2 * 10 ^ 8 * q * k = (2 * (z - 1) + 1) * tpb * q)%Z by (rewrite HM; lia).
      apply Z.mul_cancel_r with (p := q). lia. lia. }
    nia. }
  set (w := IZR k / IZR tpb * 100000000).
  assert (W : 2 * IZR q * w = IZR N).
  { unfold w, N. rewrite mult_IZR.
    assert (HM' : 2 * 100000000 * IZR q = IZR M * IZR tpb).
    { replace (IZR M * IZR tpb) with (IZR (2 * 10 ^ 8 * q)) by (rewrite HM, mult_IZR; reflexivity).
      rewrite !mult_IZR. change (IZR (10 ^ 8)) with 100000000. ring. }
    assert (IZR tpb <> 0) by (apply not_0_IZR; lia).
    apply Rmult_eq_reg_r with (r := IZR tpb); [|assumption].
    replace (2 * IZR q * (IZR k / IZR tpb * 100000000) * IZR tpb) with (2 * 100000000 * IZR q * IZR k) by (field; assumption).
    rewrite HM'. ring. }
  destruct Z1 as [Z1 Z2]. apply IZR_le in Z1, Z2.
  rewrite plus_IZR, mult_IZR, minus_IZR, mult_IZR in Z1.
  rewrite minus_IZR, mult_IZR, plus_IZR, mult_IZR in Z2.
  rewrite <- W in Z1, Z2. rewrite e8_val in HE.
  assert (Q0 : 0 < IZR q) by (apply IZR_lt; lia).
  assert (near : forall y, Rabs (y - IZR k / IZR tpb) <= E -> units8 y = z).
  { intros y Hy. unfold units8. rewrite e8_val. apply Znearest_imp.
    apply Rabs_le_inv in Hy.
    assert (Y : w - 100000000 * E <= y * 100000000 <= w + 100000000 * E) by (unfold w; lra).
    apply Rabs_def1.
    - apply Rmult_lt_reg_l with (r := 2 * IZR q). lra. nra.
    - apply Rmult_lt_reg_l with (r := 2 * IZR q). lra. nra. }
  rewrite (near t Ht), (near x Hx). reflexivity.
Qed.

(* Deliverable 3 (main theorem).  tau = U / tpb units per tick; the exact next_event_time is a / U, the exact
   current_time k / tpb = k tau / U; t and x are ANY reals within E of them (the float values are, by grid_run_exact
   and fsum_error_prefix). *)
Theorem due_float_exact (U tpb tau q k a : Z) (t x E : R) :
  (0 < tpb)%Z -> (0 < tau)%Z -> U = (tau * tpb)%Z -> (2 * U <= 10 ^ 8)%Z ->
  (0 < q)%Z -> (tpb | 2 * 10 ^ 8 * q)%Z -> 2 * 10 ^ 8 * IZR q * E < 1 ->
  no_tie tpb k ->
  (0 <= k <= 2 ^ 20 * tpb)%Z -> (0 <= a <= 2 ^ 20 * U)%Z ->
  Rabs (t - IZR k / IZR tpb) <= E -> Rabs (x - IZR a / IZR U) <= E ->
  (py_round8 x <= py_round8 t <-> (a <= k * tau)%Z).
Proof.
  intros Htpb Htau HU HU2 Hq Hdiv HE NT Hk Ha Ht Hx.
  assert (U0 : (0 < U)%Z) by nia.
  assert (Q1 : 1 <= IZR q) by (apply IZR_le; lia).
  assert (E0 : 0 <= E). { eapply Rle_trans. apply Rabs_pos. exact Ht. }
  assert (HE2 : 2 * 10 ^ 8 * E < 1). { rewrite e8_val in *. nra. }
  assert (KT : IZR k / IZR tpb = IZR (k * tau) / IZR U).
  { subst U. rewrite !mult_IZR. field. split; apply not_0_IZR; lia. }
  assert (Ht' := Ht). rewrite KT in Ht'.
  (* ranges *)
  assert (rng : forall (b : Z) y, (0 <= b <= 2 ^ 20 * U)%Z -> Rabs (y - IZR b / IZR U) <= E -> (- 2 ^ 52 <= units8 y <= 2 ^ 52)%Z).
  { intros b y Hb Hy. unfold units8. rewrite e8_val in *.
    pose proof (Znearest_half (fun n => negb (Z.even n)) (y * 100000000)) as Zy.
    apply Rabs_le_inv in Zy. apply Rabs_le_inv in Hy.
    assert (B : 0 <= IZR b / IZR U <= 1048576).
    { assert (0 < IZR U) by (apply IZR_lt; lia).
      destruct Hb as [B1 B2]. apply IZR_le in B1, B2. rewrite mult_IZR in B2. change (IZR (2 ^ 20)) with 1048576 in B2.
      split. apply Rmult_le_pos. lra. left. apply Rinv_0_lt_compat. lra.
      apply Rmult_le_reg_r with (r := IZR U). lra. unfold Rdiv. rewrite Rmult_assoc, Rinv_l by lra. lra. }
    split; apply le_IZR.
    - change (IZR (- 2 ^ 52)) with (-4503599627370496). lra.
    - change (IZR (2 ^ 52)) with (4503599627370496). lra. }
  assert (Rt : (- 2 ^ 52 <= units8 t <= 2 ^ 52)%Z) by (apply (rng (k * tau)%Z); [nia | exact Ht']).
  assert (Rx : (- 2 ^ 52 <= units8 x <= 2 ^ 52)%Z) by (apply (rng a); assumption).
  destruct (units8_compare t x Rt Rx) as [C1 C2].
  destruct (units8_compare x t Rx Rt) as [_ C3].
  rewrite C1.
  destruct (Z.lt_trichotomy a (k * tau)) as [H|[H|H]].
  - pose proof (units8_lt_of_grid_lt U a (k * tau) x t E U0 HU2 H Hx Ht' HE2). lia.
  - subst a. rewrite <- KT in Hx.
    pose proof (units8_eq_of_grid_eq tpb q k t x E Htpb Hq Hdiv NT Ht Hx HE). lia.
  - pose proof (units8_lt_of_grid_lt U (k * tau) a t x E U0 HU2 H Ht' Hx HE2). lia.
Qed.

(* The no-tie hypothesis cannot be dropped: with tpb = 512 the grid point 1/512 = 0.001953125 is an exact decimal tie
   (195312.5 units).  t = 1/512 (the double is exact) and x = 1/512 + 2^-60 satisfy every other hypothesis of
   due_float_exact (U = 512, tau = q = k = a = 1, E = 2^-60), the exact test says "due" (a <= k tau) and the float
   test says "not due".  The real code does this: docs/FLOAT.md (tpb = 512, durations 0.2, 1/512, 0.1: event 15 is
   played on tick 774 instead of 773; tpb = 2560, one-tick durations: events are lost). *)
Lemma tie_sharp_512 :
  let t := 1 / 512 in let x := 1 / 512 + / 1152921504606846976 in let E := / 1152921504606846976 in
  Rabs (t - IZR 1 / IZR 512) <= E /\ Rabs (x - IZR 1 / IZR 512) <= E /\ 2 * 10 ^ 8 * IZR 1 * E < 1 /\
  (512 | 2 * 10 ^ 8 * 1)%Z /\ (1 <= 1 * 1)%Z /\
  units8 t = 195312%Z /\ units8 x = 195313%Z /\ ~ (py_round8 x <= py_round8 t).
Proof.
  intros t x E.
  assert (Ut : units8 t = 195312%Z).
  { unfold units8, t. replace (1 / 512 * 10 ^ 8) with (390625 / 2) by (rewrite e8_val; lra).
    unfold Znearest.
    assert (F : Zfloor (390625 / 2) = 195312%Z).
    { apply Zfloor_imp. rewrite plus_IZR. lra. }
    rewrite F. rewrite Rcompare_Eq by lra. reflexivity. }
  assert (Ux : units8 x = 195313%Z).
  { unfold units8, x. rewrite e8_val. apply Znearest_imp. apply Rabs_def1; lra. }
  repeat split.
  - unfold t, E. replace (1 / 512 - 1 / 512) with 0 by lra. rewrite Rabs_R0. lra.
  - unfold x, E. replace (1 / 512 + / 1152921504606846976 - 1 / 512) with (/ 1152921504606846976) by lra.
    rewrite Rabs_pos_eq; lra.
  - unfold E. rewrite e8_val. lra.
  - exists 390625%Z. reflexivity.
  - lia.
  - exact Ut.
  - exact Ux.
  - intros H. apply (units8_compare t x) in H; rewrite ?Ut, ?Ux in *; lia.
Qed.

(** * 3'. The repaired test (repo 9bb39e5): round(current_time - next_event_time, 8) >= 0 *)

(* One rounding for the subtraction, then round(., 8), then the comparison with the int 0 (Python: -0.0 >= 0 is True,
   so only the real value matters).  No tie can hurt any more: the only boundary is (t - x) * 10^8 = -1/2, and exact
   grid differences are 0 or at least 1/U >= 2e-8 in absolute value. *)

Lemma fmt_neg_bpow e : (-1022 <= e)%Z -> generic_format radix2 fexp64 (- bpow radix2 e).
Proof. intros H. apply generic_format_opp. apply generic_format_bpow. unfold fexp64, FLT_exp. lia. Qed.

Lemma units8_nonneg z : (0 <= units8 z)%Z <-> - / 2 <= z * 10 ^ 8.
Proof.
  unfold units8. set (y := z * 10 ^ 8).
  pose proof (Znearest_half (fun n => negb (Z.even n)) y) as H. apply Rabs_le_inv in H.
  split.
  - intros P. apply IZR_le in P. lra.
  - intros P. destruct (Req_dec y (- / 2)) as [->|N].
    + (* the tie -1/2 goes to the even neighbour 0 *)
      unfold Znearest.
      assert (F : Zfloor (- / 2) = (-1)%Z) by (apply Zfloor_imp; simpl; lra).
      assert (C : Zceil (- / 2) = 0%Z) by (apply Zceil_imp; simpl; lra).
      rewrite F, C. rewrite Rcompare_Eq by (simpl; lra). simpl. lia.
    + apply le_IZR. assert (-1 < IZR (ZnearestE y)) by lra.
      apply lt_IZR in H0. apply IZR_le. lia.
Qed.

Lemma py_round8_nonneg z : 0 <= py_round8 z <-> (0 <= units8 z)%Z.
Proof.
  unfold py_round8. rewrite e8_val. split.
  - intros H. destruct (Z_le_gt_dec 0 (units8 z)) as [P|P]. exact P. exfalso.
    assert (IZR (units8 z) <= -1) by (apply IZR_le; lia).
    assert (L : RN (IZR (units8 z) / 100000000) <= - bpow radix2 (-27)).
    { unfold RN. apply round_le_generic; [exact fexp64_valid | apply valid_rnd_N | apply fmt_neg_bpow; lia |].
      change (bpow radix2 (-27)) with (/ 134217728). lra. }
    pose proof (bpow_gt_0 radix2 (-27)). lra.
  - intros P. apply IZR_le in P. unfold RN. apply round_ge_generic; [exact fexp64_valid | apply valid_rnd_N | apply generic_format_0 |].
    apply Rmult_le_pos. exact P. lra.
Qed.

(* the repaired test, on the float values *)
Definition float_due' (t x : R) : bool := Rle_bool 0 (py_round8 (RN (t - x))).

(* Main theorem for the repaired test: ALL tpb (no tie hypothesis, no q).  The constant: 6 * 10^8 * E <= 1
   (E <= 1.67e-9), and still 2 U <= 10^8.  (The refuted test tolerated 2 q 10^8 E < 1: the same constant for q = 3,
   e.g. tpb = 480; a factor 3 more for q = 1.) *)
Theorem due'_float_exact (U tpb tau k a : Z) (t x E : R) :
  (0 < tpb)%Z -> (0 < tau)%Z -> U = (tau * tpb)%Z -> (2 * U <= 10 ^ 8)%Z ->
  6 * 10 ^ 8 * E <= 1 ->
  Rabs (t - IZR k / IZR tpb) <= E -> Rabs (x - IZR a / IZR U) <= E ->
  (0 <= py_round8 (RN (t - x)) <-> (a <= k * tau)%Z).
Proof.
  intros Htpb Htau HU HU2 HE Ht Hx.
  assert (U0 : (0 < U)%Z) by nia.
  assert (KT : IZR k / IZR tpb = IZR (k * tau) / IZR U).
  { subst U. rewrite !mult_IZR. field. split; apply not_0_IZR; lia. }
  rewrite KT in Ht. rewrite e8_val in HE.
  apply IZR_lt in U0. apply IZR_le in HU2. rewrite mult_IZR in HU2. change (IZR (10 ^ 8)) with 100000000 in HU2.
  unfold Rdiv in *. set (iu := / IZR U) in *.
  assert (IU : IZR U * iu = 1) by (unfold iu; field; lra).
  assert (IU0 : 0 < iu) by (unfold iu; apply Rinv_0_lt_compat; lra).
  assert (IU2 : 2 <= 100000000 * iu) by nra.
  apply Rabs_le_inv in Ht. apply Rabs_le_inv in Hx.
  rewrite py_round8_nonneg, units8_nonneg. rewrite e8_val.
  destruct (Z_le_gt_dec a (k * tau)) as [L|G].
  - split; [intros _; exact L | intros _].
    (* t - x >= -2E >= -2^-28, a double; so is the rounded difference *)
    assert (D : IZR a * iu <= IZR (k * tau) * iu).
    { apply Rmult_le_compat_r. lra. apply IZR_le. exact L. }
    assert (B : - bpow radix2 (-28) <= RN (t - x)).
    { unfold RN. apply round_ge_generic; [exact fexp64_valid | apply valid_rnd_N | apply fmt_neg_bpow; lia |].
      change (bpow radix2 (-28)) with (/ 268435456). lra. }
    change (bpow radix2 (-28)) with (/ 268435456) in B. lra.
  - split; [|intros C; lia]. intros C. exfalso.
    (* t - x <= -1/U + 2E <= -2^-27, a double *)
    assert (D : (IZR (k * tau) + 1) * (100000000 * iu) <= IZR a * (100000000 * iu)).
    { apply Rmult_le_compat_r. lra. rewrite <- plus_IZR. apply IZR_le. lia. }
    assert (B : RN (t - x) <= - bpow radix2 (-27)).
    { unfold RN. apply round_le_generic; [exact fexp64_valid | apply valid_rnd_N | apply fmt_neg_bpow; lia |].
      change (bpow radix2 (-27)) with (/ 134217728). lra. }
    change (bpow radix2 (-27)) with (/ 134217728) in B. lra.
Qed.

(** * 3''. The mirrored test of the repaired code: round(a - current_time, 8) <= 0 *)

(* Track.process_note_offs: round(note_off.timestamp - self.current_time, 8) <= 0;
   Timeline.tick (scheduled actions): round(action.time - self.current_time, 8) <= 0 *)
Definition float_le0' (a t : R) : bool := Rle_bool (py_round8 (RN (a - t))) 0.

Lemma units8_nonpos z : (units8 z <= 0)%Z <-> z * 10 ^ 8 <= / 2.
Proof.
  unfold units8. set (y := z * 10 ^ 8).
  pose proof (Znearest_half (fun n => negb (Z.even n)) y) as H. apply Rabs_le_inv in H.
  split.
  - intros P. apply IZR_le in P. lra.
  - intros P. destruct (Req_dec y (/ 2)) as [->|N].
    + (* the tie 1/2 goes to the even neighbour 0 *)
      unfold Znearest.
      assert (F : Zfloor (/ 2) = 0%Z) by (apply Zfloor_imp; simpl; lra).
      rewrite F. rewrite Rcompare_Eq by (simpl; lra). simpl. lia.
    + apply le_IZR. assert (IZR (ZnearestE y) < 1) by lra.
      apply lt_IZR in H0. apply IZR_le. lia.
Qed.

Lemma py_round8_nonpos z : py_round8 z <= 0 <-> (units8 z <= 0)%Z.
Proof.
  unfold py_round8. rewrite e8_val. split.
  - intros H. destruct (Z_le_gt_dec (units8 z) 0) as [P|P]. exact P. exfalso.
    assert (1 <= IZR (units8 z)) by (apply IZR_le; lia).
    assert (L : bpow radix2 (-27) <= RN (IZR (units8 z) / 100000000)).
    { unfold RN. apply round_ge_generic; [exact fexp64_valid | apply valid_rnd_N | apply generic_format_bpow; unfold fexp64, FLT_exp; lia |].
      change (bpow radix2 (-27)) with (/ 134217728). lra. }
    pose proof (bpow_gt_0 radix2 (-27)). lra.
  - intros P. apply IZR_le in P. unfold RN. apply round_le_generic; [exact fexp64_valid | apply valid_rnd_N | apply generic_format_0 |].
    assert (0 <= - IZR (units8 z) * / 100000000) by (apply Rmult_le_pos; lra). unfold Rdiv. lra.
Qed.

(* a within E of the grid point b / U, t within E of the tick time k / tpb: the float test is the exact one, every tpb *)
Theorem le0'_float_exact (U tpb tau k b : Z) (t a E : R) :
  (0 < tpb)%Z -> (0 < tau)%Z -> U = (tau * tpb)%Z -> (2 * U <= 10 ^ 8)%Z ->
  6 * 10 ^ 8 * E <= 1 ->
  Rabs (t - IZR k / IZR tpb) <= E -> Rabs (a - IZR b / IZR U) <= E ->
  (py_round8 (RN (a - t)) <= 0 <-> (b <= k * tau)%Z).
Proof.
  intros Htpb Htau HU HU2 HE Ht Ha.
  assert (U0 : (0 < U)%Z) by nia.
  assert (KT : IZR k / IZR tpb = IZR (k * tau) / IZR U).
  { subst U. rewrite !mult_IZR. field. split; apply not_0_IZR; lia. }
  rewrite KT in Ht. rewrite e8_val in HE.
  apply IZR_lt in U0. apply IZR_le in HU2. rewrite mult_IZR in HU2. change (IZR (10 ^ 8)) with 100000000 in HU2.
  unfold Rdiv in *. set (iu := / IZR U) in *.
  assert (IU : IZR U * iu = 1) by (unfold iu; field; lra).
  assert (IU0 : 0 < iu) by (unfold iu; apply Rinv_0_lt_compat; lra).
  assert (IU2 : 2 <= 100000000 * iu) by nra.
  apply Rabs_le_inv in Ht. apply Rabs_le_inv in Ha.
  rewrite py_round8_nonpos, units8_nonpos. rewrite e8_val.
  destruct (Z_le_gt_dec b (k * tau)) as [L|G].
  - split; [intros _; exact L | intros _].
    assert (D : IZR b * iu <= IZR (k * tau) * iu).
    { apply Rmult_le_compat_r. lra. apply IZR_le. exact L. }
    assert (B : RN (a - t) <= bpow radix2 (-28)).
    { unfold RN. apply round_le_generic; [exact fexp64_valid | apply valid_rnd_N | apply generic_format_bpow; unfold fexp64, FLT_exp; lia |].
      change (bpow radix2 (-28)) with (/ 268435456). lra. }
    change (bpow radix2 (-28)) with (/ 268435456) in B. lra.
  - split; [|intros C; lia]. intros C. exfalso.
    assert (D : (IZR (k * tau) + 1) * (100000000 * iu) <= IZR b * (100000000 * iu)).
    { apply Rmult_le_compat_r. lra. rewrite <- plus_IZR. apply IZR_le. lia. }
    assert (B : bpow radix2 (-27) <= RN (a - t)).
    { unfold RN. apply round_ge_generic; [exact fexp64_valid | apply valid_rnd_N | apply generic_format_bpow; unfold fexp64, FLT_exp; lia |].
      change (bpow radix2 (-27)) with (/ 134217728). lra. }
    change (bpow radix2 (-27)) with (/ 134217728) in B. lra.
Qed.

(* both repaired tests as booleans, against the model's comparison *)
Corollary float_due'_bool (U tpb tau k a : Z) (t x E : R) :
  (0 < tpb)%Z -> (0 < tau)%Z -> U = (tau * tpb)%Z -> (2 * U <= 10 ^ 8)%Z -> 6 * 10 ^ 8 * E <= 1 ->
  Rabs (t - IZR k / IZR tpb) <= E -> Rabs (x - IZR a / IZR U) <= E ->
  float_due' t x = (a <=? k * tau)%Z.
Proof.
  intros H1 H2 H3 H4 H5 H6 H7. pose proof (due'_float_exact U tpb tau k a t x E H1 H2 H3 H4 H5 H6 H7) as D.
  unfold float_due'. destruct (Z.leb_spec a (k * tau)) as [L|L].
  - apply Rle_bool_true. apply D. exact L.
  - apply Rle_bool_false. apply Rnot_le_lt. intros C. apply D in C. lia.
Qed.

Corollary float_le0'_bool (U tpb tau k b : Z) (t a E : R) :
  (0 < tpb)%Z -> (0 < tau)%Z -> U = (tau * tpb)%Z -> (2 * U <= 10 ^ 8)%Z -> 6 * 10 ^ 8 * E <= 1 ->
  Rabs (t - IZR k / IZR tpb) <= E -> Rabs (a - IZR b / IZR U) <= E ->
  float_le0' a t = (b <=? k * tau)%Z.
Proof.
  intros H1 H2 H3 H4 H5 H6 H7. pose proof (le0'_float_exact U tpb tau k b t a E H1 H2 H3 H4 H5 H6 H7) as D.
  unfold float_le0'. destruct (Z.leb_spec b (k * tau)) as [L|L].
  - apply Rle_bool_true. apply D. exact L.
  - apply Rle_bool_false. apply Rnot_le_lt. intros C. apply D in C. lia.
Qed.

(** * 4. The project's corollaries: the loop of Track.tick *)

(* the refuted test: round(self.current_time, 8) >= round(self.next_event_time, 8) *)
Definition float_due (t x : R) : bool := Rle_bool (py_round8 x) (py_round8 t).
(* Sched/Model.v:  t_next tr <=? t_cur tr  (integer units) *)
Definition exact_due (cur a : Z) : bool := (a <=? cur)%Z.

Definition sumZ (l : list Z) : Z := fold_right Z.add 0%Z l.
Lemma sumZ_app l1 l2 : sumZ (l1 ++ l2) = (sumZ l1 + sumZ l2)%Z.
Proof. induction l1 as [|a l IH]; simpl; [reflexivity | rewrite IH; lia]. Qed.
Lemma sumZ_nonneg l : Forall (fun u => (0 <= u)%Z) l -> (0 <= sumZ l)%Z.
Proof. induction 1; simpl; lia. Qed.

(* the duration of u units, in beats *)
Definition Dof (U u : Z) : R := IZR u / IZR U.

(* The setting.  tpb ticks per beat; tau units per tick, U = tau * tpb units per beat (the grid of Sched/Model.v),
   U <= 10^8 / 2; the track starts at tick s; Us = the durations of the events in units (D_j = u_j / U beats, 0 allowed);
   T = a bound in beats on the exact time of the last event. *)
Definition grid_setting (tpb tau s : Z) (Us : list Z) (T : R) : Prop :=
  (0 < tpb)%Z /\ (0 < tau)%Z /\ (2 * (tau * tpb) <= 10 ^ 8)%Z /\
  (0 <= s)%Z /\ Forall (fun u => (0 <= u)%Z) Us /\ (Z.of_nat (length Us) < 2 ^ 32)%Z /\
  0 < T <= 1048576 /\ IZR (s * tau + sumZ Us) / IZR (tau * tpb) <= T.

(* the error budget E = (J + 1) (2^-53 + 2^-73) T of fsum_error_closed *)
Definition budget (Us : list Z) (T : R) : R := INR (length Us + 1) * cT T.

(* hypotheses for the REPAIRED test: every tpb; budget <= 1 / (6 * 10^8) *)
Definition admissible' (tpb tau s : Z) (Us : list Z) (T : R) : Prop :=
  grid_setting tpb tau s Us T /\ 6 * 10 ^ 8 * budget Us T <= 1.

(* hypotheses for the REFUTED test: 512 does not divide tpb (no decimal ties on the tick grid);
   q with tpb | 2 * 10^8 * q (q = tpb / gcd(tpb, 2 * 10^8); tpb = 480: q = 3); budget < 1 / (2 q 10^8) *)
Definition admissible (tpb tau q s : Z) (Us : list Z) (T : R) : Prop :=
  grid_setting tpb tau s Us T /\ (tpb mod 512 <> 0)%Z /\ (0 < q)%Z /\ (tpb | 2 * 10 ^ 8 * q)%Z /\
  2 * 10 ^ 8 * IZR q * budget Us T < 1.

Lemma Dof_adm U u : (0 < U)%Z -> (2 * U <= 10 ^ 8)%Z -> (0 <= u)%Z -> adm (Dof U u).
Proof.
  intros HU HU2 Hu. unfold Dof, adm. destruct (Z.eq_dec u 0) as [->|H0]. left. unfold Rdiv. ring.
  right. eapply Rle_trans. apply bpow_m1022_le_m30.
  apply IZR_lt in HU. apply IZR_le in HU2. rewrite mult_IZR in HU2. change (IZR (10 ^ 8)) with 100000000 in HU2.
  assert (1 <= IZR u) by (apply IZR_le; lia).
  assert (/ 100000000 <= / IZR U). { apply Rinv_le_contravar; lra. }
  assert (0 < / IZR U) by (apply Rinv_0_lt_compat; lra).
  unfold Rdiv. assert (1 * / IZR U <= IZR u * / IZR U) by (apply Rmult_le_compat_r; lra). lra.
Qed.

Lemma esum_grid U l : (0 < U)%Z -> forall a, esum (IZR a / IZR U) (map (Dof U) l) = IZR (a + sumZ l) / IZR U.
Proof.
  intros HU. induction l as [|u r IH]; intros a; simpl.
  - rewrite Z.add_0_r. reflexivity.
  - unfold Dof at 1. replace (IZR a / IZR U + IZR u / IZR U) with (IZR (a + u) / IZR U).
    rewrite IH. f_equal. f_equal. lia.
    rewrite plus_IZR. field. apply not_0_IZR. lia.
Qed.

(** the while loop of Track.tick, for any due test: state = (next_event_time, remaining durations) *)
Fixpoint fl_while (due : R -> R -> bool) (t x : R) (ds : list R) : R * list R :=
  match ds with
  | [] => (x, [])
  | d :: r => if due t x then fl_while due t (fadd x d) r else (x, ds)
  end.
Fixpoint ex_while (cur a : Z) (us : list Z) : Z * list Z :=
  match us with
  | [] => (a, [])
  | u :: r => if exact_due cur a then ex_while cur (a + u)%Z r else (a, us)
  end.

(** the run: tick m = 0, 1, ..., n-1, the track's clock at tick m given by [time m] *)
Fixpoint fl_run (due : R -> R -> bool) (time : nat -> R) (n : nat) (st : R * list R) : R * list R :=
  match n with
  | O => st
  | S m => let st' := fl_run due time m st in fl_while due (time m) (fst st') (snd st')
  end.
Fixpoint ex_run (tau : Z) (n : nat) (st : Z * list Z) : Z * list Z :=
  match n with
  | O => st
  | S m => let st' := ex_run tau m st in ex_while (Z.of_nat m * tau) (fst st') (snd st')
  end.

Lemma fl_run_ext due time1 time2 n st : (forall m, (m < n)%nat -> time1 m = time2 m) ->
  fl_run due time1 n st = fl_run due time2 n st.
Proof.
  induction n as [|n IH]; intros H. reflexivity.
  simpl. rewrite IH by (intros; apply H; lia). rewrite H by lia. reflexivity.
Qed.

Section Track.
  Variables (tpb tau s : Z) (Us : list Z) (T : R).
  Hypothesis GS : grid_setting tpb tau s Us T.

  Let U : Z := (tau * tpb)%Z.
  Let S0 : R := IZR s / IZR tpb.                      (* exact start time *)
  (* float and exact next_event_time after the events [pre] *)
  Definition Xf (pre : list Z) : R := fsum (RN (IZR s / IZR tpb)) (map (Dof (tau * tpb)) pre).
  Definition Ax (pre : list Z) : Z := (s * tau + sumZ pre)%Z.
  Let E : R := budget Us T.

  Lemma S0_units : S0 = IZR (s * tau) / IZR U.
  Proof.
    destruct GS as (H1 & H3 & _). unfold S0, U. rewrite !mult_IZR. field. split; apply not_0_IZR; lia.
  Qed.

  Lemma U_pos : (0 < U)%Z.
  Proof. destruct GS as (H1 & H3 & _). unfold U. nia. Qed.

  Lemma Ds_adm : Forall adm (map (Dof U) Us).
  Proof.
    destruct GS as (H1 & H3 & H4 & _ & H8 & _).
    apply Forall_map. eapply Forall_impl; [|exact H8]. intros u Hu. apply Dof_adm; [apply U_pos | exact H4 | exact Hu].
  Qed.

  Lemma S0_adm : adm S0.
  Proof.
    destruct GS as (H1 & H3 & H4 & H7 & _). rewrite S0_units. apply Dof_adm; [apply U_pos | exact H4 | nia].
  Qed.

  (* the float next_event_time after any prefix of the events is within E of the exact one *)
  Lemma Xf_error pre post : Us = pre ++ post ->
    Rabs (Xf pre - IZR (Ax pre) / IZR U) <= E /\ (0 <= Ax pre <= 2 ^ 20 * U)%Z.
  Proof.
    intros HUs. pose proof U_pos as U0.
    destruct GS as (H1 & H3 & H4 & H7 & H8 & H9 & H10 & H11).
    assert (PRE : pre = firstn (length pre) Us).
    { rewrite HUs. rewrite firstn_app, Nat.sub_diag, firstn_all. simpl. rewrite app_nil_r. reflexivity. }
    assert (TOT : esum S0 (map (Dof U) Us) = IZR (s * tau + sumZ Us) / IZR U).
    { rewrite S0_units. apply esum_grid. exact U0. }
    assert (EX : esum S0 (map (Dof U) pre) = IZR (Ax pre) / IZR U).
    { rewrite S0_units. unfold Ax. apply esum_grid. exact U0. }
    split.
    - unfold Xf. fold U. fold S0. rewrite <- EX. rewrite PRE at 1 2. rewrite <- !firstn_map.
      unfold E, budget. replace (length Us) with (length (map (Dof U) Us)) by apply map_length.
      apply fsum_error_prefix.
      + lra.
      + apply Ds_adm.
      + apply S0_adm.
      + rewrite TOT. exact H11.
      + rewrite map_length. exact H9.
    - assert (F1 : Forall (fun u => (0 <= u)%Z) pre /\ Forall (fun u => (0 <= u)%Z) post).
      { rewrite HUs in H8. apply Forall_app in H8. exact H8. }
      destruct F1 as [F1 F2]. apply sumZ_nonneg in F1. apply sumZ_nonneg in F2.
      unfold Ax. split. nia.
      assert (LE : (s * tau + sumZ pre <= s * tau + sumZ Us)%Z). { rewrite HUs, sumZ_app. lia. }
      assert (B : IZR (s * tau + sumZ Us) <= 1048576 * IZR U).
      { fold U in H11. assert (0 < IZR U) by (apply IZR_lt; exact U0).
        apply Rmult_le_reg_r with (r := / IZR U). apply Rinv_0_lt_compat; lra.
        rewrite Rmult_assoc, Rinv_r by lra. unfold Rdiv in H11. lra. }
      change 1048576 with (IZR (2 ^ 20)) in B. rewrite <- mult_IZR in B. apply le_IZR in B. lia.
  Qed.

  (* the float current_time at tick k is within E of k / tpb, for ticks up to T beats *)
  Lemma time_error (k : Z) : (0 <= k)%Z -> IZR k <= T * IZR tpb ->
    Rabs (RN (IZR k / IZR tpb) - IZR k / IZR tpb) <= E /\ (0 <= k <= 2 ^ 20 * tpb)%Z.
  Proof.
    intros Hk HkT. destruct GS as (H1 & H3 & H4 & H7 & H8 & H9 & H10 & H11).
    assert (T0 : 0 < IZR tpb) by (apply IZR_lt; lia).
    assert (K0 : 0 <= IZR k) by (apply IZR_le; lia).
    assert (KT : 0 <= IZR k / IZR tpb <= T).
    { split. apply Rmult_le_pos. lra. left. apply Rinv_0_lt_compat. lra.
      apply Rmult_le_reg_r with (r := IZR tpb). lra. unfold Rdiv. rewrite Rmult_assoc, Rinv_l by lra. lra. }
    split.
    - assert (A : adm (IZR k / IZR tpb)).
      { replace (IZR k / IZR tpb) with (Dof U (k * tau)). apply Dof_adm; [apply U_pos | exact H4 | nia].
        unfold Dof, U. rewrite !mult_IZR. field. split; apply not_0_IZR; lia. }
      eapply Rle_trans. apply RN_err. exact A.
      unfold E, budget. rewrite plus_INR. simpl INR. pose proof (pos_INR (length Us)) as L.
      assert (C : u53 * (IZR k / IZR tpb) <= cT T).
      { unfold cT, eta20. rewrite u53_val. nra. }
      pose proof (cT_nonneg T ltac:(lra)). nra.
    - split. lia. apply le_IZR. rewrite mult_IZR. change (IZR (2 ^ 20)) with 1048576. nra.
  Qed.

  (** generic part: ANY float test that decides like the exact one on corresponding states runs like the model *)
  Section AnyTest.
    Variable due : R -> R -> bool.
    Hypothesis due_exact : forall (k : Z) pre post, (0 <= k)%Z -> IZR k <= T * IZR tpb -> Us = pre ++ post ->
      due (RN (IZR k / IZR tpb)) (Xf pre) = exact_due (k * tau) (Ax pre).

    Lemma any_while_agree (k : Z) : (0 <= k)%Z -> IZR k <= T * IZR tpb ->
      forall post pre, Us = pre ++ post ->
      exists pre' post', Us = pre' ++ post' /\
        fl_while due (RN (IZR k / IZR tpb)) (Xf pre) (map (Dof (tau * tpb)) post) = (Xf pre', map (Dof (tau * tpb)) post') /\
        ex_while (k * tau) (Ax pre) post = (Ax pre', post').
    Proof.
      intros Hk HkT. induction post as [|u r IH]; intros pre HUs.
      - exists pre, []. repeat split; assumption.
      - simpl. rewrite (due_exact k pre (u :: r) Hk HkT HUs).
        destruct (exact_due (k * tau) (Ax pre)).
        + assert (HUs' : Us = (pre ++ [u]) ++ r) by (rewrite <- app_assoc; exact HUs).
          destruct (IH (pre ++ [u]) HUs') as (pre' & post' & A & B & C).
          exists pre', post'. split. exact A. split.
          * rewrite <- B. f_equal. unfold Xf. rewrite map_app, fsum_app. reflexivity.
          * rewrite <- C. f_equal. unfold Ax. rewrite sumZ_app. simpl. lia.
        + exists pre, (u :: r). repeat split. exact HUs.
    Qed.

    Lemma any_run_agree (n : nat) : IZR (Z.of_nat n) <= T * IZR tpb ->
      exists pre post, Us = pre ++ post /\
        fl_run due (fun m => RN (IZR (Z.of_nat m) / IZR tpb)) n (RN (IZR s / IZR tpb), map (Dof (tau * tpb)) Us)
          = (Xf pre, map (Dof (tau * tpb)) post) /\
        ex_run tau n ((s * tau)%Z, Us) = (Ax pre, post).
    Proof.
      induction n as [|n IH]; intros Hn.
      - exists [], Us. repeat split. unfold Ax. simpl. f_equal. lia.
      - assert (Hn' : IZR (Z.of_nat n) <= T * IZR tpb).
        { eapply Rle_trans; [|exact Hn]. apply IZR_le. lia. }
        destruct (IH Hn') as (pre & post & A & B & C).
        simpl. rewrite B, C. simpl fst. simpl snd.
        apply (any_while_agree (Z.of_nat n) ltac:(lia) Hn' post pre A).
    Qed.

    (* ... with the clock the SOURCE computes (Base/FloatGrid.v: grid_step iterated from 0.0) *)
    Lemma any_run_agree_src (n : nat) : (tpb <= 2 ^ 20)%Z -> IZR (Z.of_nat n) <= T * IZR tpb ->
      exists pre post, Us = pre ++ post /\
        fl_run due (fun m => Nat.iter m (grid_step tpb) 0) n (RN (IZR s / IZR tpb), map (Dof (tau * tpb)) Us)
          = (Xf pre, map (Dof (tau * tpb)) post) /\
        ex_run tau n ((s * tau)%Z, Us) = (Ax pre, post).
    Proof.
      intros Htpb Hn.
      rewrite (fl_run_ext due _ (fun m => RN (IZR (Z.of_nat m) / IZR tpb))).
      - apply any_run_agree. exact Hn.
      - intros m Hm. destruct GS as (H1 & _ & _ & _ & _ & _ & H10 & _).
        apply grid_run_exact. lia.
        assert (IZR (Z.of_nat m) <= 1048576 * 1048576).
        { assert (IZR (Z.of_nat m) <= IZR (Z.of_nat n)) by (apply IZR_le; lia).
          assert (IZR tpb <= 1048576) by (apply IZR_le; lia).
          assert (0 < IZR tpb) by (apply IZR_lt; lia). nra. }
        apply le_IZR. change (IZR (2 ^ 40)) with 1099511627776. lra.
    Qed.

    (* ... with the clock of the relative tick grid (Base/FloatGrid.v: tick_step iterated from clock0 =
       (0.0, (0.0, None)), constant resolution; tick_run_time: n <= 2^32) *)
    Lemma any_run_agree_tick (n : nat) : (tpb <= 2 ^ 20)%Z -> (Z.of_nat n <= 2 ^ 32)%Z -> IZR (Z.of_nat n) <= T * IZR tpb ->
      exists pre post, Us = pre ++ post /\
        fl_run due (fun m => fst (Nat.iter m (tick_step tpb) clock0)) n (RN (IZR s / IZR tpb), map (Dof (tau * tpb)) Us)
          = (Xf pre, map (Dof (tau * tpb)) post) /\
        ex_run tau n ((s * tau)%Z, Us) = (Ax pre, post).
    Proof.
      intros Htpb Hn32 Hn.
      rewrite (fl_run_ext due _ (fun m => RN (IZR (Z.of_nat m) / IZR tpb))).
      - apply any_run_agree. exact Hn.
      - intros m Hm. destruct GS as (H1 & _). apply tick_run_time; lia.
    Qed.

    Lemma any_consumed_agree (n : nat) : IZR (Z.of_nat n) <= T * IZR tpb ->
      length (snd (fl_run due (fun m => RN (IZR (Z.of_nat m) / IZR tpb)) n (RN (IZR s / IZR tpb), map (Dof (tau * tpb)) Us)))
      = length (snd (ex_run tau n ((s * tau)%Z, Us))).
    Proof.
      intros Hn. destruct (any_run_agree n Hn) as (pre & post & _ & B & C). rewrite B, C. simpl. apply map_length.
    Qed.
  End AnyTest.

  (** the REPAIRED test: every tpb *)
  Section Repaired.
    Hypothesis BUD : 6 * 10 ^ 8 * budget Us T <= 1.

    (* Deliverable 4a': for ALL ticks k and ALL event prefixes the repaired float test decides like the exact one *)
    Theorem float_due'_is_exact_due (k : Z) pre post :
      (0 <= k)%Z -> IZR k <= T * IZR tpb -> Us = pre ++ post ->
      float_due' (RN (IZR k / IZR tpb)) (Xf pre) = exact_due (k * tau) (Ax pre).
    Proof.
      intros Hk HkT HUs.
      destruct (time_error k Hk HkT) as [Et _]. destruct (Xf_error pre post HUs) as [Ex _].
      destruct GS as (H1 & H3 & H4 & _).
      pose proof (due'_float_exact U tpb tau k (Ax pre) (RN (IZR k / IZR tpb)) (Xf pre) E
                    H1 H3 eq_refl H4 BUD Et Ex) as D.
      unfold float_due', exact_due.
      destruct (Z.leb_spec (Ax pre) (k * tau)) as [L|L].
      - apply Rle_bool_true. apply D. exact L.
      - apply Rle_bool_false. apply Rnot_le_lt. intros C. apply D in C. lia.
    Qed.

    Corollary float_due'_is_exact_due_index (k : Z) (j : nat) :
      (0 <= k)%Z -> IZR k <= T * IZR tpb ->
      float_due' (RN (IZR k / IZR tpb)) (fsum (RN (IZR s / IZR tpb)) (firstn j (map (Dof (tau * tpb)) Us)))
      = exact_due (k * tau) (s * tau + sumZ (firstn j Us)).
    Proof.
      intros Hk HkT. rewrite firstn_map.
      apply (float_due'_is_exact_due k (firstn j Us) (skipn j Us) Hk HkT). symmetry. apply firstn_skipn.
    Qed.

    Definition while_agree' := any_while_agree float_due' float_due'_is_exact_due.
    Definition run_agree' := any_run_agree float_due' float_due'_is_exact_due.
    Definition run_agree_src' := any_run_agree_src float_due' float_due'_is_exact_due.
    Definition run_agree_tick' := any_run_agree_tick float_due' float_due'_is_exact_due.
    Definition consumed_agree' := any_consumed_agree float_due' float_due'_is_exact_due.
  End Repaired.

  (** the REFUTED test (kept as the record of why the code was changed): needs 512 not dividing tpb *)
  Section Refuted.
    Variable q : Z.
    Hypotheses (NT : (tpb mod 512 <> 0)%Z) (Q0 : (0 < q)%Z) (QD : (tpb | 2 * 10 ^ 8 * q)%Z)
               (BUD : 2 * 10 ^ 8 * IZR q * budget Us T < 1).

    Theorem float_due_is_exact_due (k : Z) pre post :
      (0 <= k)%Z -> IZR k <= T * IZR tpb -> Us = pre ++ post ->
      float_due (RN (IZR k / IZR tpb)) (Xf pre) = exact_due (k * tau) (Ax pre).
    Proof.
      intros Hk HkT HUs.
      destruct (time_error k Hk HkT) as [Et Rk]. destruct (Xf_error pre post HUs) as [Ex Ra].
      destruct GS as (H1 & H3 & H4 & _).
      pose proof (due_float_exact U tpb tau q k (Ax pre) (RN (IZR k / IZR tpb)) (Xf pre) E
                    H1 H3 eq_refl H4 Q0 QD BUD (no_tie_of_not_512 tpb NT k) Rk Ra Et Ex) as D.
      unfold float_due, exact_due.
      destruct (Z.leb_spec (Ax pre) (k * tau)) as [L|L].
      - apply Rle_bool_true. apply D. exact L.
      - apply Rle_bool_false. apply Rnot_le_lt. intros C. apply D in C. lia.
    Qed.

    Definition while_agree := any_while_agree float_due float_due_is_exact_due.
    Definition run_agree := any_run_agree float_due float_due_is_exact_due.
    Definition run_agree_src := any_run_agree_src float_due float_due_is_exact_due.
    Definition consumed_agree := any_consumed_agree float_due float_due_is_exact_due.
  End Refuted.
End Track.

(** * 5. The statements, unfolded, for the two sets of hypotheses *)

(* REPAIRED test, every resolution tpb <= 2^20: after every number n of ticks (up to T beats) the float run, with the
   clock the source computes, and the exact run of the model have consumed the same events *)
Theorem run'_float_exact (tpb tau s : Z) (Us : list Z) (T : R) (n : nat) :
  admissible' tpb tau s Us T -> (tpb <= 2 ^ 20)%Z -> IZR (Z.of_nat n) <= T * IZR tpb ->
  exists pre post, Us = pre ++ post /\
    fl_run float_due' (fun m => Nat.iter m (grid_step tpb) 0) n (RN (IZR s / IZR tpb), map (Dof (tau * tpb)) Us)
      = (Xf tpb tau s pre, map (Dof (tau * tpb)) post) /\
    ex_run tau n ((s * tau)%Z, Us) = (Ax tau s pre, post).
Proof. intros [GS B]. apply run_agree_src'; assumption. Qed.

(* the same with the clock of the relative tick grid (repair C01-retick-snap), constant resolution, n <= 2^32 ticks *)
Theorem run'_float_exact_tick (tpb tau s : Z) (Us : list Z) (T : R) (n : nat) :
  admissible' tpb tau s Us T -> (tpb <= 2 ^ 20)%Z -> (Z.of_nat n <= 2 ^ 32)%Z -> IZR (Z.of_nat n) <= T * IZR tpb ->
  exists pre post, Us = pre ++ post /\
    fl_run float_due' (fun m => fst (Nat.iter m (tick_step tpb) clock0)) n (RN (IZR s / IZR tpb), map (Dof (tau * tpb)) Us)
      = (Xf tpb tau s pre, map (Dof (tau * tpb)) post) /\
    ex_run tau n ((s * tau)%Z, Us) = (Ax tau s pre, post).
Proof. intros [GS B]. apply run_agree_tick'; assumption. Qed.

Theorem while'_float_exact (tpb tau s : Z) (Us : list Z) (T : R) (k : Z) :
  admissible' tpb tau s Us T -> (0 <= k)%Z -> IZR k <= T * IZR tpb ->
  forall post pre, Us = pre ++ post ->
  exists pre' post', Us = pre' ++ post' /\
    fl_while float_due' (RN (IZR k / IZR tpb)) (Xf tpb tau s pre) (map (Dof (tau * tpb)) post)
      = (Xf tpb tau s pre', map (Dof (tau * tpb)) post') /\
    ex_while (k * tau) (Ax tau s pre) post = (Ax tau s pre', post').
Proof. intros [GS B]. apply while_agree'; assumption. Qed.

Theorem consumed'_float_exact (tpb tau s : Z) (Us : list Z) (T : R) (n : nat) :
  admissible' tpb tau s Us T -> IZR (Z.of_nat n) <= T * IZR tpb ->
  length (snd (fl_run float_due' (fun m => RN (IZR (Z.of_nat m) / IZR tpb)) n (RN (IZR s / IZR tpb), map (Dof (tau * tpb)) Us)))
  = length (snd (ex_run tau n ((s * tau)%Z, Us))).
Proof. intros [GS B]. apply consumed_agree'; assumption. Qed.

Theorem due'_index_float_exact (tpb tau s : Z) (Us : list Z) (T : R) (k : Z) (j : nat) :
  admissible' tpb tau s Us T -> (0 <= k)%Z -> IZR k <= T * IZR tpb ->
  float_due' (RN (IZR k / IZR tpb)) (fsum (RN (IZR s / IZR tpb)) (firstn j (map (Dof (tau * tpb)) Us)))
  = exact_due (k * tau) (s * tau + sumZ (firstn j Us)).
Proof. intros [GS B]. apply float_due'_is_exact_due_index; assumption. Qed.

(* REFUTED test: the same, but only when 512 does not divide tpb *)
Theorem run_float_exact_refuted_test (tpb tau q s : Z) (Us : list Z) (T : R) (n : nat) :
  admissible tpb tau q s Us T -> (tpb <= 2 ^ 20)%Z -> IZR (Z.of_nat n) <= T * IZR tpb ->
  exists pre post, Us = pre ++ post /\
    fl_run float_due (fun m => Nat.iter m (grid_step tpb) 0) n (RN (IZR s / IZR tpb), map (Dof (tau * tpb)) Us)
      = (Xf tpb tau s pre, map (Dof (tau * tpb)) post) /\
    ex_run tau n ((s * tau)%Z, Us) = (Ax tau s pre, post).
Proof. intros (GS & NT & Q0 & QD & B). apply (run_agree_src tpb tau s Us T GS q); assumption. Qed.

(** * 6. The hypotheses are satisfiable; a simple sufficient form of the error budget *)

(* (J + 1) * T <= 15 * 10^6  (J events, T beats) is enough for the budget clause of [admissible'] *)
Lemma budget_ok' (Us : list Z) (T : R) :
  0 < T -> INR (length Us + 1) * T <= 15000000 -> 6 * 10 ^ 8 * budget Us T <= 1.
Proof.
  intros HT H. rewrite e8_val. unfold budget, cT, eta20. rewrite u53_val.
  pose proof (pos_INR (length Us + 1)).
  assert (0 <= INR (length Us + 1) * T) by (apply Rmult_le_pos; lra).
  nra.
Qed.

(* q * (J + 1) * T <= 45 * 10^6 is enough for the budget clause of [admissible] *)
Lemma budget_ok (q : Z) (Us : list Z) (T : R) :
  (0 < q)%Z -> 0 < T -> IZR q * INR (length Us + 1) * T <= 45000000 ->
  2 * 10 ^ 8 * IZR q * budget Us T < 1.
Proof.
  intros Hq HT H. rewrite e8_val. unfold budget, cT, eta20. rewrite u53_val.
  replace (2 * 100000000 * IZR q * (INR (length Us + 1) * (/ 9007199254740992 * (1 + / 1048576) * T)))
    with (IZR q * INR (length Us + 1) * T * (200000000 * / 9007199254740992 * (1 + / 1048576))) by ring.
  assert (0 <= IZR q * INR (length Us + 1) * T).
  { apply Rmult_le_pos. apply Rmult_le_pos. apply IZR_le. lia. apply pos_INR. lra. }
  nra.
Qed.

(* any resolution: tau = 1 (durations in whole ticks), up to 14999 events within 1000 beats *)
Lemma admissible'_ticks (tpb : Z) (Us : list Z) :
  (0 < tpb)%Z -> (2 * tpb <= 10 ^ 8)%Z ->
  Forall (fun u => (0 <= u)%Z) Us -> (Z.of_nat (length Us) < 15000)%Z -> (sumZ Us <= 1000 * tpb)%Z ->
  admissible' tpb 1 0 Us 1000.
Proof.
  intros H1 H2 HF HL HS. unfold admissible', grid_setting. repeat split; try lia; try lra; try exact HF.
  - replace (0 * 1 + sumZ Us)%Z with (sumZ Us) by lia. replace (1 * tpb)%Z with tpb by lia.
    apply IZR_le in HS. rewrite mult_IZR in HS. apply IZR_lt in H1.
    apply Rmult_le_reg_r with (r := IZR tpb). lra. unfold Rdiv. rewrite Rmult_assoc, Rinv_l by lra. lra.
  - apply budget_ok'. lra.
    assert (INR (length Us + 1) <= 15000). { rewrite INR_IZR_INZ. apply IZR_le. lia. }
    pose proof (pos_INR (length Us + 1)). lra.
Qed.

(* isobar's default resolution for the refuted test: q = 3 *)
Lemma admissible_480 (Us : list Z) :
  Forall (fun u => (0 <= u)%Z) Us -> (Z.of_nat (length Us) < 15000)%Z -> (sumZ Us <= 480000)%Z ->
  admissible 480 1 3 0 Us 1000.
Proof.
  intros HF HL HS.
  destruct (admissible'_ticks 480 Us ltac:(lia) ltac:(lia) HF HL ltac:(lia)) as [GS _].
  split. exact GS. split. intros H; discriminate H. split. lia. split. exists 1250000%Z. reflexivity.
  apply budget_ok. lia. lra.
  assert (INR (length Us + 1) <= 15000). { rewrite INR_IZR_INZ. apply IZR_le. lia. }
  pose proof (pos_INR (length Us + 1)). lra.
Qed.

(* tpb = 512 and 2560, where the refuted test fails in the real code, are admissible for the repaired one *)
Example admissible'_512 : admissible' 512 1 0 [102; 1; 51; 102; 1; 51]%Z 1000.
Proof. apply admissible'_ticks; try lia. repeat constructor; lia. simpl; lia. simpl; lia. Qed.
Example admissible'_2560 : admissible' 2560 1 0 [1; 1; 1; 1; 1; 1; 1; 1]%Z 1000.
Proof. apply admissible'_ticks; try lia. repeat constructor; lia. simpl; lia. simpl; lia. Qed.
Example admissible_nonvacuous : admissible 480 1 3 0 [160; 48; 160; 48; 1; 480]%Z 1000.
Proof. apply admissible_480. repeat constructor; lia. simpl; lia. simpl; lia. Qed.

(* the instance: 2560 ticks per beat, one event per tick (the run in which the refuted test loses notes 3, 17, 19, 23):
   with the repaired test every float decision on every tick up to beat 1000 is the exact decision *)
Example due'_2560 (k : Z) (j : nat) : (0 <= k <= 2560000)%Z ->
  float_due' (RN (IZR k / 2560)) (fsum (RN (0 / 2560)) (firstn j (map (Dof (1 * 2560)) [1; 1; 1; 1; 1; 1; 1; 1]%Z)))
  = exact_due (k * 1) (0 * 1 + sumZ (firstn j [1; 1; 1; 1; 1; 1; 1; 1]%Z)).
Proof.
  intros Hk. apply (due'_index_float_exact 2560 1 0 _ 1000 k j admissible'_2560). lia.
  replace (1000 * 2560) with (IZR 2560000) by (simpl; lra). apply IZR_le. lia.
Qed.

Print Assumptions units8_compare.
Print Assumptions fsum_error_closed.
Print Assumptions due_float_exact.
Print Assumptions tie_needs_512.
Print Assumptions tie_sharp_512.
Print Assumptions due'_float_exact.
Print Assumptions le0'_float_exact.
Print Assumptions run'_float_exact.
Print Assumptions run'_float_exact_tick.
Print Assumptions while'_float_exact.
Print Assumptions run_float_exact_refuted_test.
Print Assumptions due'_2560.
(* Output of the twelve Print Assumptions above (Coq 8.16.1, Flocq 4.1.0):
     tie_needs_512:  Closed under the global context
     all the others: exactly the four statements the standard library's classical real numbers rest on -
       ClassicalDedekindReals.sig_not_dec : forall P : Prop, {~ ~ P} + {~ P}
       ClassicalDedekindReals.sig_forall_dec
         : forall P : nat -> Prop, (forall n : nat, {P n} + {~ P n}) -> {n : nat | ~ P n} + {forall n : nat, P n}
       FunctionalExtensionality.functional_extensionality_dep
         : forall (A : Type) (B : A -> Type) (f g : forall x : A, B x), (forall x : A, f x = g x) -> f = g
       Classical_Prop.classic : forall P : Prop, P \/ ~ P
   Nothing of this project is assumed, every proof ends with Qed. *)

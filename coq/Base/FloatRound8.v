(* Base/FloatRound8.v - Python's round(x, 8) of a double, as a term over Flocq's binary64 rounding.
   Modelling assumption (M3 of docs/FLOAT.md): CPython's float.__round__ (Objects/floatobject.c, double_round, the
   dtoa-based version) converts the EXACT binary value of x to the decimal with 8 fractional digits by round-half-even
   (_Py_dg_dtoa mode 3) and converts that decimal string back to the nearest double (_Py_dg_strtod):
       py_round8 x = RN (IZR (ZnearestE (x * 10^8)) / 10^8).
   Kept in a small file of its own so that the GENERATED Generated/TablesTime.v (the due tests read from the source
   text) and Base/FloatDue.v (the theorems) talk about the same definitions. *)
From Coq Require Import ZArith Reals Lra.
From Flocq Require Import Core.
From Isobar Require Import Base.FloatGrid.
Open Scope R_scope.

(* the number of 1e-8 units of x: decimal round-half-even of the exact value *)
Definition units8 (x : R) : Z := ZnearestE (x * 10 ^ 8).
Definition py_round8 (x : R) : R := RN (IZR (units8 x) / 10 ^ 8).

Lemma e8_val : 10 ^ 8 = 100000000.
Proof. simpl. lra. Qed.

(* Base/Round8.v — isobar compares times after round(x, 8).  On a grid of U units per beat with
   U < 10^8 that comparison coincides with the exact one: rounding to 8 decimals is strictly monotone on
   the grid.  This is what licenses the exact comparisons in Sched/Model.v. *)
From Isobar Require Import Base.Prelude.

(* round-half-even of n/d to an integer, d > 0 *)
Definition rhe (n d : Z) : Z :=
  let q := n / d in let r := n mod d in
  if 2 * r <? d then q else if d <? 2 * r then q + 1 else if Z.even q then q else q + 1.

(* round(a/U, 8), expressed in units of 10^-8 *)
Definition r8 (U a : Z) : Z := rhe (a * 10 ^ 8) U.

Lemma rhe_bounds n d : 0 < d -> 2 * n - d <= 2 * d * rhe n d <= 2 * n + d.
Proof.
  intros Hd. unfold rhe.
  pose proof (Z.div_mod n d ltac:(lia)) as E. pose proof (Z.mod_pos_bound n d Hd) as B.
  set (q := n / d) in *. set (r := n mod d) in *.
  destruct (2 * r <? d) eqn:E1; [nia|].
  destruct (d <? 2 * r) eqn:E2; [nia|].
  destruct (Z.even q); nia.
Qed.

Lemma r8_lt U a b : 0 < U < 10 ^ 8 -> a < b -> r8 U a < r8 U b.
Proof.
  intros HU Hab. unfold r8.
  pose proof (rhe_bounds (a * 10 ^ 8) U ltac:(lia)) as Ba.
  pose proof (rhe_bounds (b * 10 ^ 8) U ltac:(lia)) as Bb.
  set (x := rhe (a * 10 ^ 8) U) in *. set (y := rhe (b * 10 ^ 8) U) in *.
  assert (H : 10 ^ 8 = 100000000) by reflexivity. rewrite H in *. nia.
Qed.

Theorem r8_compare U a b : 0 < U < 10 ^ 8 ->
  (r8 U a <=? r8 U b) = (a <=? b) /\ (r8 U a <? r8 U b) = (a <? b).
Proof.
  intros HU. destruct (Z.lt_trichotomy a b) as [H|[H|H]].
  - pose proof (r8_lt U a b HU H). split; lia.
  - subst. split; lia.
  - pose proof (r8_lt U b a HU H). split; lia.
Qed.

(* Since repair 9bb39e5 the implementation rounds the DIFFERENCE of two times: round(a - b, 8) >= 0.  On a grid of
   fewer than 10^8 units per beat this, too, is the exact comparison. *)
Theorem r8_diff_compare U a b : 0 < U < 10 ^ 8 ->
  (0 <=? r8 U (a - b)) = (b <=? a) /\ (r8 U (a - b) <=? 0) = (a <=? b).
Proof.
  intros HU. unfold r8.
  pose proof (rhe_bounds ((a - b) * 10 ^ 8) U ltac:(lia)) as B.
  set (x := rhe ((a - b) * 10 ^ 8) U) in *.
  assert (H : 10 ^ 8 = 100000000) by reflexivity. rewrite H in *.
  destruct (Z.lt_trichotomy a b) as [L|[E|G]].
  - assert (x < 0) by nia. split; lia.
  - subst. replace (b - b) with 0 in B by lia. assert (x = 0) by nia. split; lia.
  - assert (0 < x) by nia. split; lia.
Qed.

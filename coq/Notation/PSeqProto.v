(* Notation/PSeqProto.v — the pattern BUILT BY THE PARSER used through the whole pattern protocol, not only freshly
   parsed and stepped: reset(), all(), len(), copy() in the middle of a cycle, from any number of holders.

     isobar/pattern/core.py     Pattern.reset  (walks vars(self): a field that is a Pattern is reset, and every Pattern item
                                                of a field that is a list is reset: for a PSequence the items of .sequence)
                                Pattern.all    (next() up to `maximum` times, stopping at StopIteration; then self.reset())
                                Pattern.__len__ (len(self.all()))
                                Pattern.copy   (copy.deepcopy(self): an independent object in the same state)
     isobar/pattern/sequence.py PSequence.reset (super().reset(); self.rcount = 0; self.pos = 0)

   On the tree of PSequence objects of Notation/PSeq.v a reset therefore sets the position of EVERY group, at every depth, to
   0 ([preset]).  A history is a list of operations on a store of pattern objects (the parsed one and its copies).
   No proofs in this file. *)
From Isobar Require Import Base.Prelude Notation.Lexer Notation.Parser Notation.PSeq.
Local Notation length := List.length (only parsing).

(* the nested sequence a pattern state denotes: positions forgotten *)
Fixpoint erase (p : pnode) : tree :=
  match p with
  | PLeaf v => Leaf v
  | PSeq _ ch => Node (map erase ch)
  end.

(* PSequence.reset on the tree of PSequence objects *)
Fixpoint preset (p : pnode) : pnode :=
  match p with
  | PLeaf v => PLeaf v
  | PSeq _ ch => PSeq 0 (map preset ch)
  end.

(* Pattern.all(maximum): the values, and the object after it (reset) *)
Definition pall (m : nat) (p : pnode) : list value * pnode :=
  let '(vs, p') := pnextn m p in (vs, preset p').

(** * Histories over a store of pattern objects *)
Inductive pop :=
| ONext (i k : nat)        (* objects[i].nextn(k) / k times next() / a for loop left after k values *)
| OReset (i : nat)         (* objects[i].reset()  (also what Track.reset / Timeline.reset do to an event-dictionary pattern) *)
| OAll (i m : nat)         (* objects[i].all(m);  len(objects[i]) is the length of all(LENGTH_MAX) *)
| OCopy (i : nat).         (* objects.append(objects[i].copy()) *)

Fixpoint upd {A} (i : nat) (x : A) (l : list A) : list A :=
  match l, i with
  | [], _ => []
  | _ :: r, O => x :: r
  | y :: r, S i' => y :: upd i' x r
  end.

(* one operation: the values it returns, and the store after it; an index that names no object: nothing happens *)
Definition pstep (st : list pnode) (o : pop) : list value * list pnode :=
  match o with
  | ONext i k => match nth_error st i with
                 | Some p => let '(vs, p') := pnextn k p in (vs, upd i p' st)
                 | None => ([], st)
                 end
  | OReset i => match nth_error st i with
                | Some p => ([], upd i (preset p) st)
                | None => ([], st)
                end
  | OAll i m => match nth_error st i with
                | Some p => let '(vs, p') := pall m p in (vs, upd i p' st)
                | None => ([], st)
                end
  | OCopy i => match nth_error st i with
               | Some p => ([], st ++ [p])
               | None => ([], st)
               end
  end.

Fixpoint prun (st : list pnode) (ops : list pop) : list (list value) * list pnode :=
  match ops with
  | [] => ([], st)
  | o :: r => let '(vs, st') := pstep st o in
              let '(outs, st'') := prun st' r in (vs :: outs, st'')
  end.

(* the object an operation addresses *)
Definition target (o : pop) : nat :=
  match o with ONext i _ => i | OReset i => i | OAll i _ => i | OCopy i => i end.

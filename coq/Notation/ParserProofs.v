(* Notation/ParserProofs.v — lemmas about the notation parser model (Notation/Lexer.v, Notation/Parser.v).

   Part A  bracket logic of the depth-counter parser on a token list (invariant: at depth d the chain of last
           elements of the groups under construction is the list of open groups; the flattened result with the
           d closing brackets still missing is exactly the token stream read so far);
   Part B  the character-level loop = tokenizer + token-level run; fuel is sufficient;
   Part C  the tokenizer: what a token looks like, s = tokens interleaved with whitespace, and the converse
           (rendered tokens are scanned back);
   Part D  flatten is injective; printing integers; the round trip. *)
From Isobar Require Import Base.Prelude Notation.Lexer Notation.Parser.
Local Notation length := List.length (only parsing).

(** * Part A: bracket logic *)

Lemma unsnoc_app {A} (l : list A) x : unsnoc (l ++ [x]) = Some (l, x).
Proof. induction l as [|a l IH]; simpl; [reflexivity|]. rewrite IH. reflexivity. Qed.

Lemma unsnoc_nil_inv {A} (l : list A) : unsnoc l = None -> l = [].
Proof. destruct l as [|a l]; [reflexivity|]. simpl. destruct (unsnoc l) as [[i z]|]; discriminate. Qed.

Lemma flatten_app a b : flatten (a ++ b) = flatten a ++ flatten b.
Proof. unfold flatten. apply flat_map_app. Qed.

Lemma flatten_single t : flatten [t] = flatten_tree t.
Proof. unfold flatten. simpl. apply app_nil_r. Qed.

(* at depth d, g ends with a chain of d nested groups, each the last element of the previous one *)
Fixpoint chain (d : nat) (g : list tree) : Prop :=
  match d with
  | O => True
  | S d' => exists init ch, g = init ++ [Node ch] /\ chain d' ch
  end.

(* the token stream of g with the closing brackets of the d open groups left out *)
Fixpoint flat_open (d : nat) (g : list tree) : list tok :=
  match d with
  | O => flatten g
  | S d' => match unsnoc g with
            | Some (init, Node ch) => flatten init ++ TOpen :: flat_open d' ch
            | _ => []
            end
  end.

Lemma push_ok d : forall g obj, chain d g ->
  exists g', push d obj g = Ok g' /\ chain d g' /\ flat_open d g' = flat_open d g ++ flatten_tree obj.
Proof.
  induction d as [|d IH]; intros g obj Hc; simpl.
  - exists (g ++ [obj]). split; [reflexivity|]. split; [exact I|].
    rewrite flatten_app, flatten_single. reflexivity.
  - destruct Hc as (init & ch & -> & Hc). rewrite unsnoc_app.
    destruct (IH ch obj Hc) as (ch' & E & Hc' & F). rewrite E. simpl.
    exists (init ++ [Node ch']). split; [reflexivity|]. split.
    + exists init, ch'. split; [reflexivity|exact Hc'].
    + rewrite unsnoc_app, F, <- app_assoc. reflexivity.
Qed.

Lemma push_open d : forall g g', chain d g -> push d (Node []) g = Ok g' ->
  chain (S d) g' /\ flat_open (S d) g' = flat_open d g ++ [TOpen].
Proof.
  induction d as [|d IH]; intros g g' Hc E.
  - simpl in E. injection E as <-. split.
    + exists g, []. split; [reflexivity|exact I].
    + simpl. rewrite unsnoc_app. reflexivity.
  - destruct Hc as (init & ch & -> & Hc). cbn [push] in E. rewrite unsnoc_app in E.
    destruct (push d (Node []) ch) as [ch'| | |] eqn:E1; simpl in E; try discriminate.
    injection E as <-. destruct (IH ch ch' Hc E1) as [Hc' F]. split.
    + exists init, ch'. split; [reflexivity|exact Hc'].
    + change (flat_open (S (S d)) (init ++ [Node ch'])) with
        (match unsnoc (init ++ [Node ch']) with
         | Some (i, Node c) => flatten i ++ TOpen :: flat_open (S d) c | _ => [] end).
      rewrite unsnoc_app, F.
      change (flat_open (S d) (init ++ [Node ch])) with
        (match unsnoc (init ++ [Node ch]) with
         | Some (i, Node c) => flatten i ++ TOpen :: flat_open d c | _ => [] end).
      rewrite unsnoc_app, <- app_assoc. reflexivity.
Qed.

Lemma chain_close d : forall g, chain (S d) g ->
  chain d g /\ flat_open d g = flat_open (S d) g ++ [TClose].
Proof.
  induction d as [|d IH]; intros g Hc.
  - destruct Hc as (init & ch & -> & _). split; [exact I|].
    simpl. rewrite unsnoc_app, flatten_app, flatten_single. simpl.
    rewrite <- app_assoc. reflexivity.
  - destruct Hc as (init & ch & -> & Hc). destruct (IH ch Hc) as [Hc' F]. split.
    + exists init, ch. split; [reflexivity|exact Hc'].
    + change (flat_open (S d) (init ++ [Node ch])) with
        (match unsnoc (init ++ [Node ch]) with
         | Some (i, Node c) => flatten i ++ TOpen :: flat_open d c | _ => [] end).
      change (flat_open (S (S d)) (init ++ [Node ch])) with
        (match unsnoc (init ++ [Node ch]) with
         | Some (i, Node c) => flatten i ++ TOpen :: flat_open (S d) c | _ => [] end).
      rewrite unsnoc_app, F, <- app_assoc. reflexivity.
Qed.

Lemma depth_after_app a : forall d b,
  depth_after d (a ++ b) = match depth_after d a with Some d' => depth_after d' b | None => None end.
Proof.
  induction a as [|t a IH]; intros d b; simpl; [reflexivity|].
  destruct t; [apply IH| |apply IH]. destruct (d - 1 <? 0); [reflexivity|apply IH].
Qed.

(* the invariant of the loop of parse_notation after the tokens [done] *)
Definition Inv (done : list tok) (st : state) : Prop :=
  let '(g, z) := st in
  exists d : nat, z = Z.of_nat d /\ chain d g /\ flat_open d g = done /\ depth_after 0 done = Some z.

Lemma Inv_init : Inv [] ([], 0).
Proof. exists O. simpl. auto. Qed.

Lemma classify_cases t :
  (str_eqb t [ch_open] = true /\ classify t = TOpen) \/
  (str_eqb t [ch_open] = false /\ str_eqb t [ch_close] = true /\ classify t = TClose) \/
  (str_eqb t [ch_open] = false /\ str_eqb t [ch_close] = false /\ classify t = TVal (token_to_value t)).
Proof.
  unfold classify. destruct (str_eqb t [ch_open]); [left; auto|].
  destruct (str_eqb t [ch_close]); [right; left; auto|right; right; auto].
Qed.

(* one token (repaired code, strict = true): the invariant is kept; the only failure is a ']' at depth 0,
   and it is a ValueError *)
Lemma step_inv done st t : Inv done st ->
  match step true t st with
  | Ok st' => Inv (done ++ [classify t]) st'
  | Reject => depth_after 0 (done ++ [classify t]) = None
  | _ => False
  end.
Proof.
  destruct st as [g z]. intros (d & -> & Hc & F & D). unfold step.
  rewrite Nat2Z.id.
  destruct (classify_cases t) as [[E C]|[(E1 & E2 & C)|(E1 & E2 & C)]]; rewrite C.
  - rewrite E. destruct (push_ok d g (Node []) Hc) as (g' & P & _ & _). rewrite P. simpl.
    destruct (push_open d g g' Hc P) as [Hc' F']. exists (S d).
    split; [lia|]. split; [exact Hc'|]. split; [rewrite F', F; reflexivity|].
    rewrite depth_after_app, D. cbn [depth_after]. f_equal; lia.
  - rewrite E1, E2. cbn [andb]. destruct (Z.of_nat d - 1 <? 0) eqn:EN.
    + rewrite depth_after_app, D. cbn [depth_after]. rewrite EN. reflexivity.
    + destruct d as [|d]; [simpl in EN; lia|]. destruct (chain_close d g Hc) as [Hc' F']. exists d.
      split; [lia|]. split; [exact Hc'|]. split; [rewrite F', F; reflexivity|].
      rewrite depth_after_app, D. cbn [depth_after]. rewrite EN. reflexivity.
  - rewrite E1, E2.
    destruct (push_ok d g (Leaf (token_to_value t)) Hc) as (g' & P & Hc' & F'). rewrite P. simpl.
    exists d. split; [reflexivity|]. split; [exact Hc'|]. split; [rewrite F', F; reflexivity|].
    rewrite depth_after_app, D. reflexivity.
Qed.

Lemma depth_after_none_app a b d : depth_after d a = None -> depth_after d (a ++ b) = None.
Proof. intros H. rewrite depth_after_app, H. reflexivity. Qed.

Lemma run_tokens_inv toks : forall done st, Inv done st ->
  match run_tokens true toks st with
  | Ok st' => Inv (done ++ map classify toks) st'
  | Reject => depth_after 0 (done ++ map classify toks) = None
  | _ => False
  end.
Proof.
  induction toks as [|t toks IH]; intros done st HI; simpl.
  - rewrite app_nil_r. exact HI.
  - pose proof (step_inv done st t HI) as HS.
    destruct (step true t st) as [st'| | |]; simpl; try contradiction.
    + specialize (IH _ _ HS). rewrite <- app_assoc in IH. exact IH.
    + change (classify t :: map classify toks) with ([classify t] ++ map classify toks).
      rewrite app_assoc. apply depth_after_none_app. exact HS.
Qed.

(** * Part B: the character-level loop is the tokenizer followed by the token-level run *)

Lemma parse_loop_tokens uw strict fuel : forall s st,
  parse_loop uw strict fuel s st =
  let '(toks, e) := tokenize uw fuel s in
  match run_tokens strict toks st with
  | Ok st' => match e with ScanComplete => Ok st' | ScanError => Reject | ScanFuel => OutOfFuel end
  | o => o
  end.
Proof.
  induction fuel as [|f IH]; intros s st; [reflexivity|].
  cbn [parse_loop tokenize]. destruct (next_token uw s) as [tok rest| |]; try reflexivity.
  destruct (lstrip rest) as [|c s'] eqn:EL.
  - simpl. destruct (step strict tok st); reflexivity.
  - specialize (IH (c :: s')). destruct (tokenize uw f (c :: s')) as [ts e].
    cbn [run_tokens]. destruct (step strict tok st) as [st'| | |]; simpl; try reflexivity.
    apply IH.
Qed.

(** * Part C: the tokenizer *)

Ltac cc := unfold is_digit, is_note_letter, ascii_word, in_range, ch_minus, ch_dot, ch_sharp, ch_open, ch_close in *; lia.

Definition digits (d : str) : Prop := d <> [] /\ forallb is_digit d = true.
Definition sign_ok (sg : str) : Prop := sg = [] \/ sg = [ch_minus].
Definition int_shape (t : str) : Prop := exists sg d, t = sg ++ d /\ sign_ok sg /\ digits d.
Definition float_shape (t : str) : Prop :=
  exists sg d1 d2, t = sg ++ d1 ++ ch_dot :: d2 /\ sign_ok sg /\ digits d1 /\ digits d2.
Definition note_shape (t : str) : Prop :=
  exists c d, is_note_letter c = true /\ is_digit d = true /\ (t = [c; d] \/ t = [c; ch_sharp; d]).
Definition tok_shape (t : str) : Prop :=
  t = [ch_open] \/ t = [ch_close] \/ int_shape t \/ float_shape t \/ note_shape t.

Definition not_digit_head (r : str) : Prop := match r with [] => True | c :: _ => is_digit c = false end.

Lemma span_digits_spec s : forall d r, span_digits s = (d, r) ->
  s = d ++ r /\ forallb is_digit d = true /\ not_digit_head r.
Proof.
  induction s as [|c s IH]; intros d r E; simpl in E.
  - injection E as <- <-. repeat split.
  - destruct (is_digit c) eqn:Ec.
    + destruct (span_digits s) as [d' r'] eqn:E'. injection E as <- <-.
      destruct (IH _ _ eq_refl) as (-> & Hd & Hr). simpl. rewrite Ec. repeat split; assumption.
    + injection E as <- <-. simpl. repeat split. exact Ec.
Qed.

Lemma span_digits_app d : forall r, forallb is_digit d = true -> not_digit_head r ->
  span_digits (d ++ r) = (d, r).
Proof.
  induction d as [|c d IH]; intros r Hd Hr; simpl.
  - destruct r as [|c r]; simpl; [reflexivity|]. simpl in Hr. rewrite Hr. reflexivity.
  - simpl in Hd. apply andb_true_iff in Hd as [Hc Hd]. rewrite Hc, (IH r Hd Hr). reflexivity.
Qed.

Lemma all_digits_iff d : all_digits d = true <-> digits d.
Proof.
  unfold all_digits, digits. destruct d as [|c d]; split.
  - discriminate.
  - intros [H _]. congruence.
  - intros H. split; [discriminate|exact H].
  - intros [_ H]. exact H.
Qed.

Definition follow_ok (uw : Z -> bool) (rest : str) : bool :=
  match rest with [] => true | c :: _ => negb (is_word uw c) && negb (c =? ch_dot) end.

Lemma is_digit_word uw c : is_digit c = true -> is_word uw c = true.
Proof. intros H. unfold is_word. replace (c <? 128) with true by cc. unfold ascii_word. rewrite H. reflexivity. Qed.

Lemma follow_ok_boundary uw rest : follow_ok uw rest = true -> boundary uw rest = true /\ not_digit_head rest.
Proof.
  destruct rest as [|c r]; simpl; [auto|]. intros H. apply andb_true_iff in H as [H1 _].
  split; [exact H1|]. destruct (is_digit c) eqn:E; [|reflexivity].
  rewrite (is_digit_word uw c E) in H1. discriminate.
Qed.

Lemma match_number_int uw sg d rest : digits d -> follow_ok uw rest = true ->
  match_number uw sg (d ++ rest) = Some (sg ++ d, rest).
Proof.
  intros [Hne Hd] Hf. destruct (follow_ok_boundary uw rest Hf) as [Hb Hr].
  unfold match_number. rewrite (span_digits_app d rest Hd Hr).
  destruct d as [|c d]; [congruence|]. rewrite Hb.
  destruct rest as [|c' r']; [reflexivity|].
  simpl in Hf. apply andb_true_iff in Hf as [_ Hf]. apply negb_true_iff in Hf. rewrite Hf. reflexivity.
Qed.

Lemma match_number_float uw sg d1 d2 rest : digits d1 -> digits d2 ->
  boundary uw rest = true -> not_digit_head rest ->
  match_number uw sg (d1 ++ ch_dot :: d2 ++ rest) = Some (sg ++ d1 ++ ch_dot :: d2, rest).
Proof.
  intros [Hne1 Hd1] [Hne2 Hd2] Hb Hr. unfold match_number.
  rewrite (span_digits_app d1 (ch_dot :: d2 ++ rest) Hd1); [|simpl; cc].
  destruct d1 as [|c1 d1]; [congruence|].
  replace (ch_dot =? ch_dot) with true by cc.
  rewrite (span_digits_app d2 rest Hd2 Hr).
  destruct d2 as [|c2 d2]; [congruence|]. rewrite Hb. reflexivity.
Qed.

Lemma match_number_inv uw sg s t r : match_number uw sg s = Some (t, r) ->
  (exists d, digits d /\ t = sg ++ d /\ s = d ++ r) \/
  (exists d1 d2, digits d1 /\ digits d2 /\ t = sg ++ d1 ++ ch_dot :: d2 /\ s = d1 ++ ch_dot :: d2 ++ r).
Proof.
  unfold match_number. destruct (span_digits s) as [d1 r1] eqn:E1.
  destruct (span_digits_spec s d1 r1 E1) as (-> & Hd1 & Hr1).
  destruct d1 as [|c1 d1]; [discriminate|].
  assert (D1 : digits (c1 :: d1)) by (split; [discriminate|exact Hd1]).
  assert (Short : (if boundary uw r1 then Some (sg ++ c1 :: d1, r1) else None) = Some (t, r) ->
                  exists d, digits d /\ t = sg ++ d /\ (c1 :: d1) ++ r1 = d ++ r).
  { destruct (boundary uw r1); [|discriminate]. intros E. injection E as <- <-.
    exists (c1 :: d1). auto. }
  destruct r1 as [|c r1']; [intros E; left; auto|].
  destruct (c =? ch_dot) eqn:Ec; [|intros E; left; auto].
  destruct (span_digits r1') as [d2 r2] eqn:E2.
  destruct (span_digits_spec r1' d2 r2 E2) as (-> & Hd2 & Hr2).
  destruct d2 as [|c2 d2]; [intros E; left; auto|].
  destruct (boundary uw r2); [|intros E; left; auto].
  intros E. injection E as <- <-. right. exists (c1 :: d1), (c2 :: d2).
  assert (c = ch_dot) by lia. subst c.
  split; [exact D1|]. split; [split; [discriminate|exact Hd2]|]. split; reflexivity.
Qed.

Lemma match_note_inv uw s t r : match_note uw s = Some (t, r) -> note_shape t /\ s = t ++ r.
Proof.
  unfold match_note. destruct s as [|c [|x s]]; try discriminate.
  destruct (is_note_letter c) eqn:Ec; [|discriminate].
  destruct (x =? ch_sharp) eqn:Ex.
  - destruct s as [|d r2]; [discriminate|].
    destruct (is_digit d) eqn:Ed; simpl; [|discriminate].
    destruct (boundary uw r2); [|discriminate]. intros E. injection E as <- <-.
    assert (x = ch_sharp) by lia. subst x.
    split; [|reflexivity]. exists c, d. auto.
  - destruct (is_digit x) eqn:Ed; simpl; [|discriminate].
    destruct (boundary uw s); [|discriminate]. intros E. injection E as <- <-.
    split; [|reflexivity]. exists c, x. auto.
Qed.

Lemma match_note_ok uw t rest : note_shape t -> boundary uw rest = true ->
  match_note uw (t ++ rest) = Some (t, rest).
Proof.
  intros (c & d & Hc & Hd & [-> | ->]) Hb; simpl; rewrite Hc.
  - replace (d =? ch_sharp) with false by cc. rewrite Hd, Hb. reflexivity.
  - replace (ch_sharp =? ch_sharp) with true by cc. rewrite Hd, Hb. reflexivity.
Qed.

(* what next_token returns: a prefix of the string, of one of the five shapes *)
Lemma next_token_inv uw s t r : next_token uw s = LexTok t r -> s = t ++ r /\ tok_shape t.
Proof.
  unfold next_token. destruct s as [|c s]; [discriminate|].
  destruct ((c =? ch_open) || (c =? ch_close)) eqn:Eb.
  - intros E. injection E as <- <-. split; [reflexivity|].
    apply orb_true_iff in Eb as [Eb|Eb]; [left|right; left]; f_equal; lia.
  - destruct (c =? ch_minus) eqn:Em.
    + destruct (match_number uw [c] s) as [[t' r']|] eqn:E; [|discriminate].
      intros E'. injection E' as <- <-. assert (c = ch_minus) by lia. subst c.
      destruct (match_number_inv _ _ _ _ _ E) as [(d & Hd & -> & ->)|(d1 & d2 & H1 & H2 & -> & ->)].
      * split; [reflexivity|]. right; right; left. exists [ch_minus], d. unfold sign_ok. auto.
      * split; [simpl; rewrite <- app_assoc; reflexivity|]. right; right; right; left. exists [ch_minus], d1, d2. unfold sign_ok. auto.
    + destruct (is_digit c) eqn:Ed.
      * destruct (match_number uw [] (c :: s)) as [[t' r']|] eqn:E; [|discriminate].
        intros E'. injection E' as <- <-.
        destruct (match_number_inv _ _ _ _ _ E) as [(d & Hd & -> & ->)|(d1 & d2 & H1 & H2 & -> & ->)].
        -- split; [reflexivity|]. right; right; left. exists [], d. unfold sign_ok. auto.
        -- split; [simpl; rewrite <- app_assoc; reflexivity|]. right; right; right; left. exists [], d1, d2. unfold sign_ok. auto.
      * destruct (match_note uw (c :: s)) as [[t' r']|] eqn:E; [|discriminate].
        intros E'. injection E' as <- <-. destruct (match_note_inv _ _ _ _ E) as [Hn ->].
        split; [reflexivity|]. right; right; right; right. exact Hn.
Qed.

Lemma digits_head d : digits d -> exists c d', d = c :: d' /\ is_digit c = true.
Proof.
  intros [Hne Hd]. destruct d as [|c d']; [congruence|]. simpl in Hd.
  apply andb_true_iff in Hd as [Hc _]. eauto.
Qed.

(* the converse: a well-shaped token followed by something that ends it is scanned back *)
Lemma next_token_bracket uw c rest : c = ch_open \/ c = ch_close -> next_token uw (c :: rest) = LexTok [c] rest.
Proof. intros [-> | ->]; reflexivity. Qed.

Lemma next_token_int uw t rest : int_shape t -> follow_ok uw rest = true ->
  next_token uw (t ++ rest) = LexTok t rest.
Proof.
  intros (sg & d & -> & Hs & Hd) Hf. destruct (digits_head d Hd) as (c & d' & E & Hc).
  destruct Hs as [-> | ->].
  - simpl. rewrite E. simpl. rewrite <- E.
    replace ((c =? ch_open) || (c =? ch_close)) with false by cc.
    replace (c =? ch_minus) with false by cc. rewrite Hc.
    change (c :: d' ++ rest) with ((c :: d') ++ rest). rewrite <- E.
    rewrite (match_number_int uw [] d rest Hd Hf). reflexivity.
  - simpl. rewrite (match_number_int uw [ch_minus] d rest Hd Hf). reflexivity.
Qed.

Lemma next_token_float uw t rest : float_shape t -> boundary uw rest = true -> not_digit_head rest ->
  next_token uw (t ++ rest) = LexTok t rest.
Proof.
  intros (sg & d1 & d2 & -> & Hs & H1 & H2) Hb Hr.
  destruct (digits_head d1 H1) as (c & d' & E & Hc).
  assert (A : (d1 ++ ch_dot :: d2) ++ rest = d1 ++ ch_dot :: d2 ++ rest) by (rewrite <- app_assoc; reflexivity).
  destruct Hs as [-> | ->].
  - simpl. rewrite A. pose proof (match_number_float uw [] d1 d2 rest H1 H2 Hb Hr) as M.
    rewrite E in *. simpl in *.
    replace ((c =? ch_open) || (c =? ch_close)) with false by cc.
    replace (c =? ch_minus) with false by cc. rewrite Hc, M. reflexivity.
  - simpl. rewrite A. rewrite (match_number_float uw [ch_minus] d1 d2 rest H1 H2 Hb Hr). reflexivity.
Qed.

Lemma next_token_note uw t rest : note_shape t -> boundary uw rest = true ->
  next_token uw (t ++ rest) = LexTok t rest.
Proof.
  intros Hn Hb. pose proof (match_note_ok uw t rest Hn Hb) as M.
  destruct Hn as (c & d & Hc & Hd & [-> | ->]); simpl in *;
    replace ((c =? ch_open) || (c =? ch_close)) with false by cc;
    replace (c =? ch_minus) with false by cc;
    replace (is_digit c) with false by cc; rewrite M; reflexivity.
Qed.

(** ** whitespace *)
Definition not_space_head (r : str) : Prop := match r with [] => True | c :: _ => is_space c = false end.

Lemma lstrip_spec r : exists sp, r = sp ++ lstrip r /\ forallb is_space sp = true /\ not_space_head (lstrip r).
Proof.
  induction r as [|c r IH]; simpl.
  - exists []. repeat split.
  - destruct (is_space c) eqn:E.
    + destruct IH as (sp & E1 & E2 & E3). exists (c :: sp). simpl. rewrite E, E2, <- E1. repeat split. exact E3.
    + exists []. simpl. repeat split. exact E.
Qed.

Lemma lstrip_app sp : forall r, forallb is_space sp = true -> not_space_head r -> lstrip (sp ++ r) = r.
Proof.
  induction sp as [|c sp IH]; intros r Hs Hr; simpl.
  - destruct r as [|c r]; [reflexivity|]. simpl in *. rewrite Hr. reflexivity.
  - simpl in Hs. apply andb_true_iff in Hs as [Hc Hs]. rewrite Hc. apply IH; assumption.
Qed.

Lemma lstrip_length r : (length (lstrip r) <= length r)%nat.
Proof. destruct (lstrip_spec r) as (sp & E & _). rewrite E at 2. rewrite app_length. lia. Qed.

Lemma printable_not_space c : 33 <= c <= 126 -> is_space c = false.
Proof. intros H. unfold is_space, space_table. cbn [existsb fst snd]. unfold in_range. lia. Qed.

Definition head_class (c : Z) : Prop :=
  c = ch_open \/ c = ch_close \/ c = ch_minus \/ is_digit c = true \/ is_note_letter c = true.

Lemma tok_shape_head t : tok_shape t -> exists c r, t = c :: r /\ head_class c.
Proof.
  unfold head_class.
  intros [-> | [-> | [(sg & d & -> & Hs & Hd) | [(sg & d1 & d2 & -> & Hs & H1 & H2) | (c & d & Hc & Hd & [-> | ->])]]]].
  - eauto 8.
  - eauto 8.
  - destruct (digits_head d Hd) as (c & d' & -> & Hc). destruct Hs as [-> | ->]; simpl; eauto 10.
  - destruct (digits_head d1 H1) as (c & d' & -> & Hc). destruct Hs as [-> | ->]; simpl; eauto 10.
  - eauto 10.
  - eauto 10.
Qed.

Lemma head_class_not_space c : head_class c -> is_space c = false.
Proof. intros H. apply printable_not_space. unfold head_class in H. cc. Qed.

Lemma tok_shape_nonempty t : tok_shape t -> (1 <= length t)%nat.
Proof. intros H. destruct (tok_shape_head t H) as (c & r & -> & _). simpl. lia. Qed.

(** ** fuel: S (length s) iterations are enough *)
Lemma tokenize_fuel uw fuel : forall s, (length s < fuel)%nat -> snd (tokenize uw fuel s) <> ScanFuel.
Proof.
  induction fuel as [|f IH]; intros s Hl; [lia|].
  cbn [tokenize]. destruct (next_token uw s) as [t r| |] eqn:E; try (simpl; discriminate).
  destruct (next_token_inv uw s t r E) as [-> Hs]. pose proof (tok_shape_nonempty t Hs) as Ht.
  pose proof (lstrip_length r) as Hr. rewrite app_length in Hl.
  destruct (lstrip r) as [|c s'] eqn:EL; [simpl; discriminate|].
  specialize (IH (c :: s') ltac:(lia)). destruct (tokenize uw f (c :: s')) as [ts e]. exact IH.
Qed.

(** ** a completely scanned string is its tokens interleaved with whitespace *)
Lemma tokenize_spec uw fuel : forall s toks, tokenize uw fuel s = (toks, ScanComplete) ->
  exists seps, s = render toks seps /\ length seps = length toks /\
               Forall (fun sp => forallb is_space sp = true) seps /\ Forall tok_shape toks /\ toks <> [].
Proof.
  induction fuel as [|f IH]; intros s toks E; [discriminate|].
  cbn [tokenize] in E. destruct (next_token uw s) as [t r| |] eqn:EN; try discriminate.
  destruct (next_token_inv uw s t r EN) as [-> Hs].
  destruct (lstrip_spec r) as (sp & Er & Hsp & _).
  destruct (lstrip r) as [|c s'] eqn:EL.
  - injection E as <-. exists [sp]. simpl. rewrite Er, !app_nil_r.
    repeat split; try (constructor; auto). discriminate.
  - destruct (tokenize uw f (c :: s')) as [ts e] eqn:ET. injection E as <- ->.
    destruct (IH _ _ ET) as (seps & E1 & E2 & E3 & E4 & _).
    exists (sp :: seps). simpl. rewrite Er, E1, E2.
    repeat split; try (constructor; auto). discriminate.
Qed.

(** ** rendered tokens are scanned back *)
Lemma space_is_not_word uw c : space_not_word uw -> is_space c = true -> is_word uw c = false /\ c <> ch_dot.
Proof.
  intros H Hs. split.
  - unfold is_word. destruct (c <? 128) eqn:E; [|apply H; [lia|exact Hs]].
    revert Hs. unfold is_space, space_table. cbn [existsb fst snd]. unfold ascii_word, is_digit, in_range. lia.
  - intros ->. vm_compute in Hs. discriminate.
Qed.

Lemma str_eqb_eq a b : str_eqb a b = true <-> a = b.
Proof. unfold str_eqb. apply list_eqb_eq. intros x y. apply Z.eqb_eq. Qed.

Lemma render_head texts seps : Forall tok_shape texts -> not_space_head (render texts seps).
Proof.
  intros H. destruct texts as [|t ts]; simpl; [exact I|]. inversion H; subst.
  destruct (tok_shape_head t H2) as (c & r & -> & Hc). simpl. apply head_class_not_space. exact Hc.
Qed.

Lemma tokenize_render uw : space_not_word uw -> forall texts seps fuel,
  texts <> [] -> Forall tok_shape texts -> seps_ok texts seps = true -> (length texts <= fuel)%nat ->
  tokenize uw fuel (render texts seps) = (texts, ScanComplete).
Proof.
  intros Huw texts. induction texts as [|t ts IH]; intros seps fuel Hne Hsh Hok Hf; [congruence|].
  inversion Hsh as [|? ? Ht Hts]; subst. simpl in Hf. destruct fuel as [|f]; [lia|].
  cbn [seps_ok] in Hok. apply andb_true_iff in Hok as [Hok Hok3]. apply andb_true_iff in Hok as [Hsp Htouch].
  set (sep := hd [] seps) in *. cbn [render tokenize]. fold sep.
  set (after := sep ++ render ts (tl seps)).
  assert (HN : next_token uw (t ++ after) = LexTok t after).
  { assert (Hfo : is_bracket_text t = false -> follow_ok uw after = true).
    { intros Hnb. unfold after. destruct sep as [|c sep'] eqn:Es.
      - destruct ts as [|t' ts']; [reflexivity|]. unfold may_touch in Htouch. rewrite Hnb in Htouch.
        inversion Hts; subst. destruct (tok_shape_head t' H1) as (c' & r' & -> & _). simpl in *.
        unfold is_word. replace (c' <? 128) with true by cc. unfold ascii_word.
        apply andb_true_iff. split; apply negb_true_iff; cc.
      - simpl in Hsp. apply andb_true_iff in Hsp as [Hc _]. simpl.
        destruct (space_is_not_word uw c Huw Hc) as [W D]. rewrite W. simpl. apply negb_true_iff. cc. }
    destruct Ht as [-> | [-> | [Hi | [Hfl | Hn]]]].
    - reflexivity.
    - reflexivity.
    - apply next_token_int; [exact Hi|]. apply Hfo.
      destruct Hi as (sg & d & -> & Hs & Hd). destruct (digits_head d Hd) as (c & d' & -> & Hc).
      destruct Hs as [-> | ->]; unfold is_bracket_text, str_eqb; simpl;
        destruct d'; simpl; try reflexivity; replace (c =? ch_open) with false by cc;
        replace (c =? ch_close) with false by cc; reflexivity.
    - assert (Hnb : is_bracket_text t = false).
      { destruct Hfl as (sg & d1 & d2 & -> & Hs & H1 & H2). destruct (digits_head d1 H1) as (c & d' & -> & Hc).
        destruct Hs as [-> | ->]; unfold is_bracket_text, str_eqb; simpl;
          destruct d'; simpl; try reflexivity; replace (c =? ch_open) with false by cc;
          replace (c =? ch_close) with false by cc; reflexivity. }
      destruct (follow_ok_boundary uw after (Hfo Hnb)) as [Hb Hr].
      apply next_token_float; assumption.
    - assert (Hnb : is_bracket_text t = false).
      { destruct Hn as (c & d & Hc & Hd & [-> | ->]); unfold is_bracket_text, str_eqb; simpl;
          replace (c =? ch_open) with false by cc; replace (c =? ch_close) with false by cc; reflexivity. }
      destruct (follow_ok_boundary uw after (Hfo Hnb)) as [Hb Hr].
      apply next_token_note; assumption. }
  rewrite HN. unfold after. rewrite (lstrip_app sep _ Hsp (render_head ts (tl seps) Hts)).
  destruct ts as [|t' ts'].
  - reflexivity.
  - assert (Hr : exists c r, render (t' :: ts') (tl seps) = c :: r).
    { inversion Hts; subst. destruct (tok_shape_head t' H1) as (c & r & -> & _). simpl. eauto. }
    destruct Hr as (c & r & Er). rewrite Er, <- Er.
    rewrite (IH (tl seps) f ltac:(discriminate) Hts Hok3 ltac:(simpl in *; lia)). reflexivity.
Qed.

(** * Part D: the parser as a whole *)

(* everything the parser does, in terms of the token stream of the string (repaired code) *)
Lemma parse_spec uw s toks e : tokens_of uw s = (toks, e) ->
  (e = ScanComplete /\ balanced (map classify toks) = true /\
   exists g, parse uw s = Ok g /\ flatten g = map classify toks)
  \/ ((e = ScanError \/ balanced (map classify toks) = false) /\ parse uw s = Reject).
Proof.
  intros HT. unfold parse, parse_gen. rewrite parse_loop_tokens.
  pose proof (tokenize_fuel uw (S (length s)) s ltac:(lia)) as HF.
  unfold tokens_of in HT. rewrite HT in *. simpl in HF.
  pose proof (run_tokens_inv toks [] ([], 0) Inv_init) as HR. simpl in HR.
  destruct (run_tokens true toks ([], 0)) as [[g z]| | |]; try contradiction.
  - destruct HR as (d & -> & Hc & F & D). unfold balanced. rewrite D.
    destruct e; [| right | congruence].
    + simpl. destruct (Z.of_nat d >? 0) eqn:Ez.
      * right. split; [|reflexivity]. right. destruct (Z.of_nat d) eqn:Ed; try reflexivity; lia.
      * left. assert (d = O) by lia. subst d. simpl. split; [reflexivity|]. split; [reflexivity|].
        exists g. split; [reflexivity|exact F].
    + split; [left; reflexivity|reflexivity].
  - right. split; [|reflexivity]. right. unfold balanced. rewrite HR. reflexivity.
Qed.

(** ** flatten is injective *)
Lemma tree_ind' (P : tree -> Prop) :
  (forall v, P (Leaf v)) -> (forall ch, Forall P ch -> P (Node ch)) -> forall t, P t.
Proof.
  intros HL HN. fix IH 1. intros [v|ch]; [apply HL|]. apply HN.
  induction ch as [|t ch IHch]; constructor; [apply IH|exact IHch].
Qed.

Definition closes (r : list tok) : Prop := match r with [] => True | TClose :: _ => True | _ => False end.

Lemma flatten_cons t f : flatten (t :: f) = flatten_tree t ++ flatten f.
Proof. reflexivity. Qed.

Definition first_tree_determined (t : tree) : Prop :=
  forall f2 r1 r2, closes r2 -> flatten_tree t ++ r1 = flatten f2 ++ r2 ->
  exists f2', f2 = t :: f2' /\ r1 = flatten f2' ++ r2.
Definition forest_determined (f : list tree) : Prop :=
  forall f2 r1 r2, closes r1 -> closes r2 -> flatten f ++ r1 = flatten f2 ++ r2 -> f = f2 /\ r1 = r2.

Lemma forest_from_trees f : Forall first_tree_determined f -> forest_determined f.
Proof.
  induction 1 as [|t f Ht Hf IH]; intros f2 r1 r2 C1 C2 E.
  - simpl in E. destruct f2 as [|t2 f2]; [auto|]. rewrite flatten_cons in E. subst r1.
    destruct t2; simpl in C1; contradiction.
  - rewrite flatten_cons, <- app_assoc in E. destruct (Ht f2 _ r2 C2 E) as (f2' & -> & E').
    destruct (IH f2' r1 r2 C1 C2 E') as [-> ->]. auto.
Qed.

Lemma all_trees_determined t : first_tree_determined t.
Proof.
  induction t as [v|ch IH] using tree_ind'; intros f2 r1 r2 C2 E.
  - destruct f2 as [|t2 f2].
    + simpl in E. subst r2. simpl in C2. contradiction.
    + rewrite flatten_cons in E. destruct t2 as [v2|ch2]; simpl in E; [|discriminate].
      injection E as -> ->. eauto.
  - destruct f2 as [|t2 f2].
    + simpl in E. subst r2. simpl in C2. contradiction.
    + rewrite flatten_cons in E. destruct t2 as [v2|ch2]; simpl in E; [discriminate|].
      injection E as E. rewrite <- !app_assoc in E. simpl in E.
      destruct (forest_from_trees ch IH ch2 (TClose :: r1) (TClose :: flatten f2 ++ r2) I I E) as [-> E']. injection E' as ->. eauto.
Qed.

Lemma flatten_inj g1 g2 : flatten g1 = flatten g2 -> g1 = g2.
Proof.
  intros E. assert (F : Forall first_tree_determined g1) by (apply Forall_forall; intros; apply all_trees_determined).
  destruct (forest_from_trees g1 F g2 [] [] I I) as [-> _]; [rewrite !app_nil_r; exact E|reflexivity].
Qed.

(** ** flatten is balanced *)
Lemma depth_after_flatten_tree t : forall d rest, 0 <= d ->
  depth_after d (flatten_tree t ++ rest) = depth_after d rest.
Proof.
  induction t as [v|ch IH] using tree_ind'; intros d rest Hd; [reflexivity|].
  cbn [flatten_tree app depth_after]. rewrite <- app_assoc.
  assert (G : forall d rest, 0 <= d -> depth_after d (flat_map flatten_tree ch ++ rest) = depth_after d rest).
  { clear d rest Hd. induction IH as [|t ch Ht _ IHch]; intros d rest Hd; [reflexivity|].
    simpl. rewrite <- app_assoc, Ht by lia. apply IHch. exact Hd. }
  rewrite G by lia. simpl. replace (d + 1 - 1 <? 0) with false by lia. f_equal. lia.
Qed.

Lemma balanced_flatten g : balanced (flatten g) = true.
Proof.
  unfold balanced. assert (G : forall d, 0 <= d -> depth_after d (flatten g) = Some d).
  { induction g as [|t g IH]; intros d Hd; [reflexivity|].
    rewrite flatten_cons, depth_after_flatten_tree by lia. apply IH. exact Hd. }
  rewrite G by lia. reflexivity.
Qed.

(** ** printing integers *)
Lemma digits_val_snoc l c : digits_val (l ++ [c]) = digits_val l * 10 + (c - 48).
Proof. unfold digits_val. rewrite fold_left_app. reflexivity. Qed.

Lemma show_digits_S f n :
  show_digits (S f) n = if n <? 10 then [48 + n] else show_digits f (n / 10) ++ [48 + n mod 10].
Proof. reflexivity. Qed.

Lemma show_digits_spec f : forall n, 0 <= n < 2 ^ Z.of_nat (S f) ->
  digits (show_digits (S f) n) /\ digits_val (show_digits (S f) n) = n.
Proof.
  induction f as [|f IH]; intros n Hn.
  - change (2 ^ Z.of_nat 1) with 2 in Hn. rewrite show_digits_S. replace (n <? 10) with true by lia.
    split; [split; [discriminate|cbn [forallb]; cc]|]. unfold digits_val. cbn [fold_left]. lia.
  - rewrite show_digits_S. destruct (n <? 10) eqn:E.
    + split; [split; [discriminate|cbn [forallb]; cc]|]. unfold digits_val. cbn [fold_left]. lia.
    + rewrite Nat2Z.inj_succ, Z.pow_succ_r in Hn by lia.
      destruct (IH (n / 10) ltac:(lia)) as [[Hne Hd] Hv]. split.
      * split; [intros Habs; apply app_eq_nil in Habs as [_ Habs]; discriminate|].
        rewrite forallb_app, Hd. cbn [forallb andb]. cc.
      * rewrite digits_val_snoc, Hv. lia.
Qed.

Lemma show_nonneg_spec n : 0 <= n -> digits (show_nonneg n) /\ digits_val (show_nonneg n) = n.
Proof.
  intros Hn. unfold show_nonneg. apply show_digits_spec. rewrite Nat2Z.inj_succ, Z2Nat.id by apply Z.log2_nonneg.
  destruct (Z.eq_dec n 0) as [-> | Hz]; [simpl; lia|].
  pose proof (Z.log2_spec n ltac:(lia)). lia.
Qed.

Lemma show_int_shape z : int_shape (show_int z).
Proof.
  unfold show_int. destruct (z <? 0) eqn:E.
  - exists [ch_minus], (show_nonneg (- z)). split; [reflexivity|]. split; [right; reflexivity|].
    apply show_nonneg_spec. lia.
  - exists [], (show_nonneg z). split; [reflexivity|]. split; [left; reflexivity|]. apply show_nonneg_spec. lia.
Qed.

(** ** _parser_token_to_value on the three kinds of atoms *)
Lemma int_shape_text t : int_shape t -> int_text t = true.
Proof.
  intros (sg & d & -> & Hs & Hd). destruct (digits_head d Hd) as (c & d' & E & Hc).
  subst d. destruct Hs as [-> | ->].
  - cbn [app]. unfold int_text. replace (c =? ch_minus) with false by cc. apply all_digits_iff. exact Hd.
  - change (all_digits (c :: d') = true). apply all_digits_iff. exact Hd.
Qed.

Lemma ttv_int z : token_to_value (show_int z) = VInt z.
Proof.
  unfold token_to_value. rewrite (int_shape_text _ (show_int_shape z)). f_equal.
  unfold show_int. destruct (z <? 0) eqn:E.
  - simpl. destruct (show_nonneg_spec (- z) ltac:(lia)) as [_ ->]. lia.
  - destruct (show_nonneg_spec z ltac:(lia)) as [Hd Hv]. destruct (digits_head _ Hd) as (c & d' & Ed & Hc).
    rewrite Ed in *. simpl. replace (c =? ch_minus) with false by cc. exact Hv.
Qed.

Lemma not_all_digits_dot d1 d2 : all_digits (d1 ++ ch_dot :: d2) = false.
Proof.
  unfold all_digits. destruct (d1 ++ ch_dot :: d2) eqn:E; [reflexivity|]. rewrite <- E.
  rewrite forallb_app. simpl. replace (is_digit ch_dot) with false by reflexivity.
  rewrite andb_false_r. reflexivity.
Qed.

Lemma float_text_shape t : float_text t = true -> float_shape t /\ int_text t = false.
Proof.
  unfold float_text. intros H.
  assert (G : forall body, (let '(d1, r1) := span_digits body in
             match d1, r1 with _ :: _, c :: r2 => (c =? ch_dot) && all_digits r2 | _, _ => false end) = true ->
             exists d1 d2, body = d1 ++ ch_dot :: d2 /\ digits d1 /\ digits d2).
  { intros body Hb. destruct (span_digits body) as [d1 r1] eqn:E.
    destruct (span_digits_spec body d1 r1 E) as (-> & Hd1 & _).
    destruct d1 as [|c1 d1]; [discriminate|]. destruct r1 as [|c r2]; [discriminate|].
    apply andb_true_iff in Hb as [Hc Hd2]. assert (c = ch_dot) by lia. subst c.
    exists (c1 :: d1), r2. split; [reflexivity|]. split; [split; [discriminate|exact Hd1]|].
    apply all_digits_iff. exact Hd2. }
  destruct t as [|c r]; [discriminate|]. destruct (c =? ch_minus) eqn:Ec.
  - assert (c = ch_minus) by lia. subst c. destruct (G r H) as (d1 & d2 & -> & H1 & H2). split.
    + exists [ch_minus], d1, d2. split; [reflexivity|]. split; [right; reflexivity|auto].
    + change (all_digits (d1 ++ ch_dot :: d2) = false). apply not_all_digits_dot.
  - destruct (G (c :: r) H) as (d1 & d2 & E & H1 & H2). split.
    + exists [], d1, d2. split; [exact E|]. split; [left; reflexivity|auto].
    + unfold int_text. rewrite Ec. rewrite E. apply not_all_digits_dot.
Qed.

Lemma note_text_shape t : note_text t = true -> note_shape t /\ int_text t = false /\ float_text t = false.
Proof.
  unfold note_text. destruct t as [|c [|x [|d [|? ?]]]]; try discriminate; intros H.
  - apply andb_true_iff in H as [Hc Hx]. split; [exists c, x; auto|].
    unfold int_text, float_text. replace (c =? ch_minus) with false by cc. simpl.
    replace (is_digit c) with false by cc. split; reflexivity.
  - apply andb_true_iff in H as [H Hd]. apply andb_true_iff in H as [Hc Hx].
    assert (x = ch_sharp) by lia. subst x. split; [exists c, d; auto|].
    unfold int_text, float_text. replace (c =? ch_minus) with false by cc. simpl.
    replace (is_digit c) with false by cc. split; reflexivity.
Qed.

Lemma atom_not_bracket t : int_shape t \/ float_shape t \/ note_shape t -> is_bracket_text t = false.
Proof.
  intros H. assert (S : tok_shape t) by (unfold tok_shape; tauto).
  destruct (tok_shape_head t S) as (c & r & -> & Hc).
  assert (c <> ch_open /\ c <> ch_close).
  { destruct H as [(sg & d & E & Hs & Hd) | [(sg & d1 & d2 & E & Hs & Hd & _) | (c' & d & Hc' & Hd & E)]].
    - destruct (digits_head d Hd) as (c0 & d' & -> & Hc0). destruct Hs as [-> | ->]; simpl in E; injection E as -> _; cc.
    - destruct (digits_head d1 Hd) as (c0 & d' & -> & Hc0). destruct Hs as [-> | ->]; simpl in E; injection E as -> _; cc.
    - destruct E as [E | E]; injection E as -> _; cc. }
  unfold is_bracket_text, str_eqb. simpl.
  replace (c =? ch_open) with false by lia. replace (c =? ch_close) with false by lia. reflexivity.
Qed.

Definition wf_tok (tk : tok) : Prop := match tk with TVal v => wf_value v = true | _ => True end.

Lemma wf_tok_shape tk : wf_tok tk -> tok_shape (tok_text tk) /\ classify (tok_text tk) = tk.
Proof.
  destruct tk as [| |v]; intros H; [split; [left; reflexivity|reflexivity]|split; [right; left; reflexivity|reflexivity]|].
  simpl in H. unfold classify.
  assert (A : int_shape (value_text v) \/ float_shape (value_text v) \/ note_shape (value_text v)).
  { destruct v as [z|t|t]; simpl in *.
    - left. apply show_int_shape.
    - right; left. apply float_text_shape. exact H.
    - right; right. apply note_text_shape. exact H. }
  pose proof (atom_not_bracket _ A) as NB. unfold is_bracket_text in NB. apply orb_false_iff in NB as [N1 N2].
  cbn [tok_text]. rewrite N1, N2. split; [unfold tok_shape; tauto|]. f_equal.
  destruct v as [z|t|t]; simpl in *.
  - apply ttv_int.
  - unfold token_to_value. destruct (float_text_shape t H) as [_ ->]. rewrite H. reflexivity.
  - unfold token_to_value. destruct (note_text_shape t H) as (_ & -> & ->). reflexivity.
Qed.

Lemma wf_flatten g : forallb wf_tree g = true -> Forall wf_tok (flatten g).
Proof.
  assert (T : forall t, wf_tree t = true -> Forall wf_tok (flatten_tree t)).
  { induction t as [v|ch IH] using tree_ind'; intros H; simpl in *.
    - constructor; [exact H|constructor].
    - constructor; [exact I|]. apply Forall_app. split; [|constructor; [exact I|constructor]].
      induction IH as [|t ch Ht _ IHch]; [constructor|]. simpl in H. apply andb_true_iff in H as [H1 H2].
      simpl. apply Forall_app. split; [apply Ht; exact H1|apply IHch; exact H2]. }
  induction g as [|t g IH]; intros H; [constructor|]. simpl in H. apply andb_true_iff in H as [H1 H2].
  rewrite flatten_cons. apply Forall_app. split; [apply T; exact H1|apply IH; exact H2].
Qed.

Lemma render_length texts : forall seps, Forall tok_shape texts -> (length texts <= length (render texts seps))%nat.
Proof.
  induction texts as [|t ts IH]; intros seps H; [simpl; lia|]. inversion H; subst.
  simpl. rewrite !app_length. pose proof (tok_shape_nonempty t H2). specialize (IH (tl seps) H3). lia.
Qed.

Lemma flatten_tree_nonempty t : flatten_tree t <> [].
Proof. destruct t; discriminate. Qed.

(** ** the round trip *)
Lemma roundtrip uw g seps : space_not_word uw -> g <> [] -> forallb wf_tree g = true ->
  seps_ok (map tok_text (flatten g)) seps = true ->
  parse uw (format seps g) = Ok g.
Proof.
  intros Huw Hne Hwf Hsep. unfold format. set (texts := map tok_text (flatten g)) in *.
  pose proof (wf_flatten g Hwf) as HW.
  assert (H1 : Forall tok_shape texts).
  { unfold texts. apply Forall_map. eapply Forall_impl; [|exact HW]. intros tk H. apply wf_tok_shape. exact H. }
  assert (H2 : texts <> []).
  { unfold texts. destruct g as [|t g]; [congruence|]. rewrite flatten_cons.
    pose proof (flatten_tree_nonempty t). destruct (flatten_tree t); [congruence|discriminate]. }
  assert (H4 : map classify texts = flatten g).
  { unfold texts. rewrite map_map. rewrite <- (map_id (flatten g)) at 2. apply map_ext_Forall.
    eapply Forall_impl; [|exact HW]. intros tk H. apply wf_tok_shape. exact H. }
  assert (H3 : tokens_of uw (render texts seps) = (texts, ScanComplete)).
  { unfold tokens_of. apply tokenize_render; auto. pose proof (render_length texts seps H1). lia. }
  destruct (parse_spec uw _ _ _ H3) as [(_ & _ & g' & P & F) | [[E | E] _]].
  - rewrite P. f_equal. apply flatten_inj. rewrite F, H4. reflexivity.
  - discriminate.
  - rewrite H4, balanced_flatten in E. discriminate.
Qed.

(** ** rejection stated on the characters of the string *)
Lemma forallb_impl {A} (f g : A -> bool) l : (forall x, f x = true -> g x = true) ->
  forallb f l = true -> forallb g l = true.
Proof. intros H. rewrite !forallb_forall. auto. Qed.

Lemma atom_chars t : int_shape t \/ float_shape t \/ note_shape t -> forallb atom_char t = true.
Proof.
  assert (D : forall d, digits d -> forallb atom_char d = true).
  { intros d [_ H]. eapply forallb_impl; [|exact H]. intros c Hc. unfold atom_char. rewrite Hc. reflexivity. }
  assert (S : forall sg, sign_ok sg -> forallb atom_char sg = true) by (intros sg [-> | ->]; reflexivity).
  intros [(sg & d & -> & Hs & Hd) | [(sg & d1 & d2 & -> & Hs & H1 & H2) | (c & d & Hc & Hd & E)]].
  - rewrite forallb_app, S, D; auto.
  - rewrite !forallb_app. cbn [forallb]. rewrite S, !D; auto.
  - unfold atom_char. destruct E as [-> | ->]; cbn [forallb]; rewrite Hc, Hd;
      rewrite ?orb_true_r; reflexivity.
Qed.

Lemma tok_shape_chars t : tok_shape t -> forallb token_char t = true.
Proof.
  intros [-> | [-> | H]]; [reflexivity|reflexivity|].
  eapply forallb_impl; [|apply atom_chars; exact H]. intros c Hc. unfold token_char. rewrite Hc. reflexivity.
Qed.

Definition all_space (sp : str) : Prop := forallb is_space sp = true.

Lemma render_chars toks : forall seps, Forall tok_shape toks -> Forall all_space seps ->
  forall c, In c (render toks seps) -> token_char c = true \/ is_space c = true.
Proof.
  induction toks as [|t ts IH]; intros seps Ht Hs c Hin; [contradiction|].
  inversion Ht; subst. simpl in Hin. apply in_app_or in Hin as [Hin|Hin].
  - left. pose proof (tok_shape_chars t H1) as Hc. rewrite forallb_forall in Hc. auto.
  - apply in_app_or in Hin as [Hin|Hin].
    + right. destruct seps as [|sp seps]; [contradiction|]. inversion Hs; subst. simpl in Hin.
      unfold all_space in H3. rewrite forallb_forall in H3. auto.
    + apply (IH (tl seps)); auto. destruct seps; [constructor|inversion Hs; assumption].
Qed.

Lemma foreign_rejected uw s c : In c s -> token_char c = false -> is_space c = false -> parse uw s = Reject.
Proof.
  intros Hin Ht Hsp. destruct (tokens_of uw s) as [toks e] eqn:ET.
  destruct (parse_spec uw s toks e ET) as [(-> & _ & _) | [_ R]]; [|exact R].
  destruct (tokenize_spec uw _ _ _ ET) as (seps & -> & _ & Hs & Hsh & _).
  destruct (render_chars toks seps Hsh Hs c Hin); congruence.
Qed.

Definition no_bracket (t : str) : Prop := forallb (fun c => negb ((c =? ch_open) || (c =? ch_close))) t = true.

Lemma char_depth_skip t : forall x d, no_bracket t -> char_depth d (t ++ x) = char_depth d x.
Proof.
  induction t as [|c t IH]; intros x d H; [reflexivity|]. unfold no_bracket in H. simpl in H.
  apply andb_true_iff in H as [Hc Ht]. apply negb_true_iff, orb_false_iff in Hc as [H1 H2].
  simpl. rewrite H1, H2. apply IH. exact Ht.
Qed.

Lemma space_no_bracket sp : all_space sp -> no_bracket sp.
Proof.
  unfold all_space, no_bracket. apply forallb_impl. intros c Hc.
  destruct ((c =? ch_open) || (c =? ch_close)) eqn:E; [|reflexivity].
  rewrite printable_not_space in Hc; [discriminate|]. cc.
Qed.

Lemma atom_no_bracket t : int_shape t \/ float_shape t \/ note_shape t -> no_bracket t.
Proof.
  intros H. unfold no_bracket. eapply forallb_impl; [|apply atom_chars; exact H].
  intros c Hc. unfold atom_char in Hc. apply negb_true_iff. cc.
Qed.

Lemma char_depth_render toks : forall seps d, Forall tok_shape toks -> Forall all_space seps ->
  char_depth d (render toks seps) = depth_after d (map classify toks).
Proof.
  induction toks as [|t ts IH]; intros seps d Ht Hs; [reflexivity|].
  inversion Ht; subst.
  assert (Hsp : all_space (hd [] seps)) by (destruct seps; [reflexivity|inversion Hs; assumption]).
  assert (Hs' : Forall all_space (tl seps)) by (destruct seps; [constructor|inversion Hs; assumption]).
  cbn [render map]. destruct H1 as [-> | [-> | H]].
  - change (classify [ch_open]) with TOpen. cbn [app char_depth depth_after].
    replace (ch_open =? ch_open) with true by reflexivity.
    rewrite (char_depth_skip _ _ _ (space_no_bracket _ Hsp)). apply IH; assumption.
  - change (classify [ch_close]) with TClose. cbn [app char_depth depth_after].
    replace (ch_close =? ch_open) with false by reflexivity. replace (ch_close =? ch_close) with true by reflexivity.
    destruct (d - 1 <? 0); [reflexivity|].
    rewrite (char_depth_skip _ _ _ (space_no_bracket _ Hsp)). apply IH; assumption.
  - pose proof (atom_not_bracket t H) as NB. unfold is_bracket_text in NB. apply orb_false_iff in NB as [N1 N2].
    unfold classify. rewrite N1, N2. cbn [depth_after].
    rewrite (char_depth_skip _ _ _ (atom_no_bracket t H)), (char_depth_skip _ _ _ (space_no_bracket _ Hsp)).
    apply IH; assumption.
Qed.

(* a completely scanned string: its bracket characters are its bracket tokens *)
Lemma scanned_brackets uw s toks : tokens_of uw s = (toks, ScanComplete) ->
  brackets_balanced s = balanced (map classify toks).
Proof.
  intros ET. destruct (tokenize_spec uw _ _ _ ET) as (seps & -> & _ & Hs & Hsh & _).
  unfold brackets_balanced, balanced. rewrite (char_depth_render toks seps 0 Hsh Hs). reflexivity.
Qed.

Lemma unbalanced_rejected uw s : brackets_balanced s = false -> parse uw s = Reject.
Proof.
  intros Hb. destruct (tokens_of uw s) as [toks e] eqn:ET.
  destruct (parse_spec uw s toks e ET) as [(-> & B & _) | [_ R]]; [|exact R].
  rewrite (scanned_brackets uw s toks ET) in Hb. congruence.
Qed.

(** ** editing one bracket of a balanced string unbalances it *)
Definition bracket_net (s : str) : Z :=
  fold_right (fun c a => (if c =? ch_open then 1 else if c =? ch_close then -1 else 0) + a) 0 s.

Lemma char_depth_net s : forall d d', char_depth d s = Some d' -> d' = d + bracket_net s.
Proof.
  induction s as [|c s IH]; intros d d' E; simpl in *.
  - injection E as <-. lia.
  - destruct (c =? ch_open); [apply IH in E; lia|].
    destruct (c =? ch_close); [|apply IH in E; lia].
    destruct (d - 1 <? 0); [discriminate|]. apply IH in E. lia.
Qed.

Lemma bracket_net_app a b : bracket_net (a ++ b) = bracket_net a + bracket_net b.
Proof. induction a as [|c a IH]; simpl; [reflexivity|]. unfold bracket_net in *. rewrite IH. lia. Qed.

Lemma balanced_net s : brackets_balanced s = true -> bracket_net s = 0.
Proof.
  unfold brackets_balanced. destruct (char_depth 0 s) as [d|] eqn:E; [|discriminate].
  apply char_depth_net in E. destruct d; try discriminate. lia.
Qed.

Lemma bracket_net_one c : c = ch_open \/ c = ch_close -> bracket_net [c] = 1 \/ bracket_net [c] = -1.
Proof. intros [-> | ->]; [left|right]; reflexivity. Qed.

Lemma edit_insert a b c : brackets_balanced (a ++ b) = true -> c = ch_open \/ c = ch_close ->
  brackets_balanced (a ++ c :: b) = false.
Proof.
  intros H Hc. destruct (brackets_balanced (a ++ c :: b)) eqn:E; [|reflexivity].
  apply balanced_net in H, E. change (c :: b) with ([c] ++ b) in E. rewrite !bracket_net_app in *.
  destruct (bracket_net_one c Hc); lia.
Qed.

Lemma edit_delete a b c : brackets_balanced (a ++ c :: b) = true -> c = ch_open \/ c = ch_close ->
  brackets_balanced (a ++ b) = false.
Proof.
  intros H Hc. destruct (brackets_balanced (a ++ b)) eqn:E; [|reflexivity].
  apply balanced_net in H, E. change (c :: b) with ([c] ++ b) in H. rewrite !bracket_net_app in *.
  destruct (bracket_net_one c Hc); lia.
Qed.

Lemma edit_flip a b c c' : brackets_balanced (a ++ c :: b) = true ->
  (c = ch_open /\ c' = ch_close) \/ (c = ch_close /\ c' = ch_open) ->
  brackets_balanced (a ++ c' :: b) = false.
Proof.
  intros H Hc. destruct (brackets_balanced (a ++ c' :: b)) eqn:E; [|reflexivity].
  apply balanced_net in H, E. change (c :: b) with ([c] ++ b) in H. change (c' :: b) with ([c'] ++ b) in E.
  rewrite !bracket_net_app in *.
  assert (O : bracket_net [ch_open] = 1) by reflexivity. assert (C : bracket_net [ch_close] = -1) by reflexivity.
  destruct Hc as [[-> ->] | [-> ->]]; lia.
Qed.

(** ** non-empty whitespace everywhere is always a legal choice of separators *)
Lemma seps_ok_nonempty texts : forall seps, length seps = length texts ->
  Forall (fun sp => sp <> [] /\ forallb is_space sp = true) seps -> seps_ok texts seps = true.
Proof.
  induction texts as [|t ts IH]; intros seps Hl Hs; [reflexivity|].
  destruct seps as [|sp seps]; [discriminate|]. inversion Hs as [|? ? [Hne Hsp] Hs']; subst.
  cbn [seps_ok hd tl]. rewrite Hsp, IH; [|simpl in Hl; lia|exact Hs'].
  destruct sp; [congruence|reflexivity].
Qed.

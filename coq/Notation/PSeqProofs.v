(* Notation/PSeqProofs.v — a nested group contributes one element per cycle of its parent. *)
From Isobar Require Import Base.Prelude Notation.Lexer Notation.Parser Notation.ParserProofs Notation.PSeq.
Local Notation length := List.length (only parsing).

(* the inner loop of pnext as a function of its own *)
Fixpoint at_ (i : nat) (l : list pnode) {struct l} : option (value * list pnode) :=
  match l with
  | [] => None
  | c :: r =>
      match i with
      | O => match pnext c with Some (v, c') => Some (v, c' :: r) | None => None end
      | S i' => match at_ i' r with Some (v, r') => Some (v, c :: r') | None => None end
      end
  end.

Lemma pnext_PSeq pos ch :
  pnext (PSeq pos ch) =
  match at_ pos ch with
  | Some (v, ch') => Some (v, PSeq (adv pos (length ch)) ch')
  | None => None
  end.
Proof. reflexivity. Qed.

Lemma at_app done : forall c todo,
  at_ (length done) (done ++ c :: todo) =
  match pnext c with Some (v, c') => Some (v, done ++ c' :: todo) | None => None end.
Proof.
  induction done as [|d done IH]; intros c todo; simpl; [reflexivity|].
  rewrite IH. destruct (pnext c) as [[v c']|]; reflexivity.
Qed.

Lemma pnode_ind' (P : pnode -> Prop) :
  (forall v, P (PLeaf v)) -> (forall pos ch, Forall P ch -> P (PSeq pos ch)) -> forall p, P p.
Proof.
  intros HL HN. fix IH 1. intros [v|pos ch]; [apply HL|]. apply HN.
  induction ch as [|t ch IHch]; constructor; [apply IH|exact IHch].
Qed.

Lemma split_at {A} (l : list A) i : (i < length l)%nat ->
  exists done c todo, l = done ++ c :: todo /\ length done = i.
Proof.
  revert i. induction l as [|x l IH]; intros i H; simpl in H; [lia|].
  destruct i as [|i].
  - exists [], x, l. auto.
  - destruct (IH i ltac:(lia)) as (done & c & todo & -> & E). exists (x :: done), c, todo. simpl. auto.
Qed.

Lemma adv_lt pos n : (pos < n)%nat -> (adv pos n < n)%nat.
Proof. intros H. unfold adv. destruct (n <=? S pos)%nat eqn:E; lia. Qed.

(* a live pattern always yields a value and stays live *)
Lemma live_next p : live p = true -> exists v p', pnext p = Some (v, p') /\ live p' = true.
Proof.
  induction p as [v|pos ch IH] using pnode_ind'; intros H.
  - exists v, (PLeaf v). auto.
  - simpl in H. apply andb_true_iff in H as [H Hall]. apply andb_true_iff in H as [Hne Hpos].
    assert (Hp : (pos < length ch)%nat) by lia.
    destruct (split_at ch pos Hp) as (done & c & todo & -> & El).
    rewrite forallb_app in Hall. apply andb_true_iff in Hall as [Hd Hct]. simpl in Hct.
    apply andb_true_iff in Hct as [Hc Ht].
    rewrite Forall_app in IH. destruct IH as [_ IH]. inversion IH as [|? ? IHc _]; subst.
    destruct (IHc Hc) as (v & c' & En & Hc').
    rewrite pnext_PSeq, at_app, En. eexists _, _. split; [reflexivity|].
    cbn [live]. rewrite !app_length in *. cbn [length] in *.
    apply andb_true_iff. split; [apply andb_true_iff; split|].
    + destruct (length done + S (length todo))%nat eqn:E; [lia|reflexivity].
    + pose proof (adv_lt (length done) (length done + S (length todo)) ltac:(lia)). lia.
    + rewrite forallb_app, Hd. simpl. rewrite Hc', Ht. reflexivity.
Qed.

Lemma live_after k : forall p, live p = true -> live (after k p) = true.
Proof.
  induction k as [|k IH]; intros p H; [exact H|]. simpl.
  destruct (live_next p H) as (v & p' & -> & H'). apply IH. exact H'.
Qed.

Lemma kth_S k p : kth (S k) p = match pnext p with Some (_, p') => kth k p' | None => None end.
Proof. simpl. destruct (pnext p) as [[v p']|]; reflexivity. Qed.

Lemma after_S k p : after (S k) p = match pnext p with Some (_, p') => after k p' | None => p end.
Proof. reflexivity. Qed.
Lemma after_0 p : after 0 p = p.
Proof. reflexivity. Qed.

Lemma kth_after a : forall b p, live p = true -> kth (a + b) p = kth b (after a p).
Proof.
  induction a as [|a IH]; intros b p H; [reflexivity|].
  change (S a + b)%nat with (S (a + b)). rewrite kth_S. simpl.
  destruct (live_next p H) as (v & p' & -> & H'). apply IH. exact H'.
Qed.

(* one pass over the remaining elements of a group: element j yields its next value, and at the end of the
   pass the position is back to 0 with every element visited exactly once *)
Lemma one_pass todo : forall done, todo <> [] ->
  forallb live done = true -> forallb live todo = true ->
  (forall j, (j < length todo)%nat ->
     kth j (PSeq (length done) (done ++ todo)) = kth 0 (nth j todo (PLeaf (VInt 0)))) /\
  after (length todo) (PSeq (length done) (done ++ todo)) = PSeq 0 (done ++ map (after 1) todo).
Proof.
  induction todo as [|c todo IH]; intros done Hne Hd Ht; [congruence|].
  simpl in Ht. apply andb_true_iff in Ht as [Hc Ht].
  destruct (live_next c Hc) as (v & c' & En & Hc').
  assert (EN : pnext (PSeq (length done) (done ++ c :: todo)) =
               Some (v, PSeq (adv (length done) (length (done ++ c :: todo))) (done ++ c' :: todo))).
  { rewrite pnext_PSeq, at_app, En. reflexivity. }
  assert (A1 : after 1 c = c') by (simpl; rewrite En; reflexivity).
  destruct todo as [|c2 todo'].
  - split.
    + intros j Hj. simpl in Hj. assert (j = O) by lia. subst j. simpl nth.
      unfold kth at 1. rewrite EN. unfold kth. rewrite En. reflexivity.
    + cbn [length]. rewrite after_S, EN, after_0. unfold adv. rewrite app_length. cbn [length].
      replace (length done + 1 <=? S (length done))%nat with true by (symmetry; apply Nat.leb_le; lia).
      cbn [map]. rewrite A1. reflexivity.
  - assert (Hadv : adv (length done) (length (done ++ c :: c2 :: todo')) = length (done ++ [c'])).
    { unfold adv. rewrite !app_length. cbn [length].
      replace (length done + S (S (length todo')) <=? S (length done))%nat with false
        by (symmetry; apply Nat.leb_gt; lia). lia. }
    assert (Eapp : done ++ c' :: c2 :: todo' = (done ++ [c']) ++ c2 :: todo') by (rewrite <- app_assoc; reflexivity).
    destruct (IH (done ++ [c']) ltac:(discriminate)) as [IHa IHb].
    { rewrite forallb_app, Hd. simpl. rewrite Hc'. reflexivity. }
    { exact Ht. }
    split.
    + intros j Hj. destruct j as [|j].
      * simpl nth. unfold kth at 1. rewrite EN. unfold kth. rewrite En. reflexivity.
      * rewrite kth_S, EN, Hadv, Eapp. rewrite IHa by (simpl in *; lia). reflexivity.
    + change (length (c :: c2 :: todo')) with (S (length (c2 :: todo'))). rewrite after_S, EN, Hadv, Eapp, IHb.
      cbn [map]. rewrite A1, <- app_assoc. reflexivity.
Qed.

(* THE cycle theorem on pattern states: from position 0, the value number c*n + i of a group of n live
   elements is the value number c of its i-th element *)
Lemma cycle_states c : forall cs i, cs <> [] -> forallb live cs = true -> (i < length cs)%nat ->
  kth (c * length cs + i) (PSeq 0 cs) = kth c (nth i cs (PLeaf (VInt 0))).
Proof.
  induction c as [|c IH]; intros cs i Hne Hl Hi.
  - destruct (one_pass cs [] Hne eq_refl Hl) as [Ha _]. simpl. apply Ha. exact Hi.
  - destruct (one_pass cs [] Hne eq_refl Hl) as [_ Hb]. cbn [length app] in Hb.
    assert (Hlive : live (PSeq 0 cs) = true).
    { cbn [live]. rewrite Hl. destruct cs; [congruence|reflexivity]. }
    replace (S c * length cs + i)%nat with (length cs + (c * length cs + i))%nat by lia.
    rewrite (kth_after (length cs) _ _ Hlive), Hb.
    assert (Hl' : forallb live (map (after 1) cs) = true).
    { rewrite forallb_forall in *. intros x Hx. apply in_map_iff in Hx as (y & <- & Hy). apply live_after. auto. }
    pose proof (IH (map (after 1) cs) i) as IH'. rewrite map_length in IH'.
    rewrite IH'; [|destruct cs; [congruence|discriminate]|exact Hl'|exact Hi].
    replace (PLeaf (VInt 0)) with (after 1 (PLeaf (VInt 0))) at 1 by reflexivity.
    rewrite map_nth. rewrite <- (kth_after 1 c).
    + reflexivity.
    + rewrite forallb_forall in Hl. apply Hl. apply nth_In. exact Hi.
Qed.

Lemma live_init t : no_empty_group t = true -> live (init t) = true.
Proof.
  induction t as [v|ch IH] using tree_ind'; intros H; [reflexivity|].
  simpl in H. apply andb_true_iff in H as [Hne Hall]. cbn [init live]. rewrite map_length, Hne.
  apply andb_true_iff. split.
  - destruct ch; [discriminate|reflexivity].
  - rewrite forallb_forall in *. rewrite Forall_forall in IH.
    intros x Hx. apply in_map_iff in Hx as (y & <- & Hy). auto.
Qed.

Lemma cycle_trees g c i : g <> [] -> forallb no_empty_group g = true -> (i < length g)%nat ->
  kth (c * length g + i) (pattern_of g) = kth c (init (nth i g (Leaf (VInt 0)))).
Proof.
  intros Hne Hall Hi. unfold pattern_of.
  pose proof (cycle_states c (map init g) i) as H. rewrite map_length in H.
  rewrite H; [|destruct g; [congruence|discriminate]| |exact Hi].
  - change (PLeaf (VInt 0)) with (init (Leaf (VInt 0))). rewrite map_nth. reflexivity.
  - rewrite forallb_forall in *. intros x Hx. apply in_map_iff in Hx as (y & <- & Hy). apply live_init. auto.
Qed.

Lemma kth_leaf c v : kth c (PLeaf v) = Some v.
Proof. induction c as [|c IH]; [reflexivity|]. rewrite kth_S. simpl. exact IH. Qed.

(* nextn returns the values kth describes *)
Lemma pnextn_kth K : forall p k, (k < K)%nat -> nth_error (fst (pnextn K p)) k = kth k p.
Proof.
  induction K as [|K IH]; intros p k Hk; [lia|]. cbn [pnextn].
  destruct k as [|k].
  - unfold kth. destruct (pnext p) as [[v p']|]; [|reflexivity].
    destruct (pnextn K p') as [vs p'']. reflexivity.
  - rewrite kth_S. destruct (pnext p) as [[v p']|]; [|reflexivity].
    specialize (IH p' k ltac:(lia)). destruct (pnextn K p') as [vs p'']. exact IH.
Qed.

(* Notation/ParserSrc.v — the definition translated from the BODY of parse_notation (Generated/TablesNotation.v, rewritten
   from the source text by harness/gen_tables_notation.py on every run of ./check C20) is the model's `parse`
   (Notation/Parser.v, the repaired code: strict = true).  A change of the depth-counter loop of the source breaks this
   file, i.e. a proof obligation of C20.

   The translation keeps the control skeleton of the source (branches on the token, depth arithmetic, advance of the string,
   break, the final depth test, which exceptions the try block converts); the three helpers and str.lstrip are rendered by
   the model's next_token / push / token_to_value / lstrip and remain tied to the code by harness/c20.py only.
   Two places where source and model are written differently and a lemma is needed:
     string[len(token):]      vs   the rest returned by next_token        (next_token_inv: string = token ++ rest)
     one loop with `break`    vs   parse_loop's recursion on `match lstrip rest with [] => ... end`
   DIFFERENCE found between source and model: none. *)
From Isobar Require Import Base.Prelude Notation.Lexer Notation.Parser Notation.ParserProofs Notation.PyOutcome Generated.TablesNotation.
Local Notation length := List.length (only parsing).

Lemma skipn_length_app {A} (a b : list A) : skipn (length a) (a ++ b) = b.
Proof. induction a as [|x a IH]; [reflexivity|]. exact IH. Qed.

Section Src.
  Variable uw : Z -> bool.

  (* one iteration of the loop, written with the model's step *)
  Definition canon_body (st : str * list tree * Z) : outcome (bool * (str * list tree * Z)) :=
    let '(s, g, d) := st in
    match next_token uw s with
    | LexTok tok rest =>
        bind (step true tok (g, d)) (fun st' =>
          let s' := lstrip rest in
          Ok (negb (Z.of_nat (length s') =? 0), (s', fst st', snd st')))
    | _ => Reject
    end.

  Lemma nonempty_flag (s : str) : (if Z.of_nat (length s) =? 0 then false else true) = negb (Z.of_nat (length s) =? 0).
  Proof. destruct (Z.of_nat (length s) =? 0); reflexivity. Qed.

  (* the loop of the source against parse_loop: at the break the string is empty *)
  Lemma loop_canon : forall fuel s g d,
    loop_break canon_body fuel (s, g, d) =
    match parse_loop uw true fuel s (g, d) with
    | Ok (g', d') => Ok ([], g', d')
    | Reject => Reject | Crash => Crash | OutOfFuel => OutOfFuel
    end.
  Proof.
    induction fuel as [|f IH]; intros s g d; [reflexivity|]. cbn [loop_break parse_loop]. unfold canon_body.
    destruct (next_token uw s) as [tok rest| |]; try reflexivity.
    destruct (step true tok (g, d)) as [[g' d']| | |]; cbn [bind fst snd]; try reflexivity.
    destruct (lstrip rest) as [|c r] eqn:L.
    - reflexivity.
    - cbn [length]. replace (Z.of_nat (S (length r)) =? 0) with false by lia. cbn [negb]. apply IH.
  Qed.

  Theorem src_parse_notation_is s : src_parse_notation uw (S (length s)) s = parse uw s.
  Proof.
    unfold src_parse_notation, parse, parse_gen. cbv zeta.
    rewrite (loop_break_ext _ canon_body).
    - rewrite loop_canon. destruct (parse_loop uw true (S (length s)) s ([], 0)) as [[g d]| | |]; reflexivity.
    - intros [[s0 g] d]. cbv beta iota. unfold canon_body.
      destruct (next_token uw s0) as [tok rest| |] eqn:E; try reflexivity.
      apply next_token_inv in E. destruct E as [-> _]. rewrite skipn_length_app.
      unfold step. change [ch_open] with [91]. change [ch_close] with [93]. rewrite !on_index_error_reject.
      destruct (str_eqb tok [91]).
      + destruct (push (Z.to_nat d) (Node []) g); cbn [bind fst snd]; try reflexivity. rewrite <- nonempty_flag.
        destruct (Z.of_nat (length (lstrip rest)) =? 0); reflexivity.
      + destruct (str_eqb tok [93]).
        * cbn [andb]. destruct (d - 1 <? 0); [reflexivity|]. cbn [bind fst snd]. rewrite <- nonempty_flag.
          destruct (Z.of_nat (length (lstrip rest)) =? 0); reflexivity.
        * destruct (push (Z.to_nat d) (Leaf (token_to_value tok)) g); cbn [bind fst snd]; try reflexivity. rewrite <- nonempty_flag.
          destruct (Z.of_nat (length (lstrip rest)) =? 0); reflexivity.
  Qed.
End Src.

Print Assumptions src_parse_notation_is.

(* Notation/PSeqProtoProofs.v — after a rewind the parsed pattern is the freshly parsed one again, whatever was done to it. *)
From Isobar Require Import Base.Prelude Notation.Lexer Notation.Parser Notation.ParserProofs Notation.PSeq Notation.PSeqProofs
  Notation.PSeqProto.
Local Notation length := List.length (only parsing).

Lemma erase_init t : erase (init t) = t.
Proof.
  induction t as [v|ch IH] using tree_ind'; [reflexivity|]. cbn [init erase]. f_equal.
  rewrite map_map. rewrite Forall_forall in IH. rewrite <- (map_id ch) at 2. apply map_ext_in. exact IH.
Qed.

(* a reset depends on the shape only: it yields the initial state of the nested sequence the object denotes *)
Lemma preset_init_erase p : preset p = init (erase p).
Proof.
  induction p as [v|pos ch IH] using pnode_ind'; [reflexivity|]. cbn [preset erase init]. f_equal.
  rewrite map_map. rewrite Forall_forall in IH. apply map_ext_in. exact IH.
Qed.

Lemma at_erase : forall l i v l', at_ i l = Some (v, l') ->
  (forall c v c', In c l -> pnext c = Some (v, c') -> erase c' = erase c) -> map erase l' = map erase l.
Proof.
  induction l as [|c r IH]; intros i v l' H Hc; [discriminate|]. destruct i as [|i]; simpl in H.
  - destruct (pnext c) as [[v0 c']|] eqn:E; [|discriminate]. inversion H; subst. simpl. f_equal.
    apply (Hc c v c'); [left; reflexivity|exact E].
  - destruct (at_ i r) as [[v0 r']|] eqn:E; [|discriminate]. inversion H; subst. simpl. f_equal.
    apply (IH i v r' E). intros c0 v0 c0' Hin. apply Hc. right. exact Hin.
Qed.

(* stepping never changes the shape *)
Lemma pnext_erase p : forall v p', pnext p = Some (v, p') -> erase p' = erase p.
Proof.
  induction p as [v0|pos ch IH] using pnode_ind'; intros v p' H.
  - simpl in H. inversion H; subst. reflexivity.
  - rewrite pnext_PSeq in H. destruct (at_ pos ch) as [[v1 ch']|] eqn:E; [|discriminate]. inversion H; subst.
    cbn [erase]. f_equal. apply (at_erase ch pos v ch' E). rewrite Forall_forall in IH.
    intros c v0 c' Hin. apply IH. exact Hin.
Qed.

Lemma pnextn_erase k : forall p, erase (snd (pnextn k p)) = erase p.
Proof.
  induction k as [|k IH]; intros p; [reflexivity|]. cbn [pnextn].
  destruct (pnext p) as [[v p']|] eqn:E; [|reflexivity].
  specialize (IH p'). destruct (pnextn k p') as [vs p'']. cbn [snd] in *. rewrite IH. apply (pnext_erase p v p' E).
Qed.

Lemma after_erase k : forall p, erase (after k p) = erase p.
Proof.
  induction k as [|k IH]; intros p; [reflexivity|]. rewrite after_S.
  destruct (pnext p) as [[v p']|] eqn:E; [|reflexivity]. rewrite IH. apply (pnext_erase p v p' E).
Qed.

Lemma preset_erase p : erase (preset p) = erase p.
Proof. rewrite preset_init_erase. apply erase_init. Qed.

(* reset after any number of steps = the initial state *)
Lemma preset_after k t : preset (after k (init t)) = init t.
Proof. rewrite preset_init_erase, after_erase, erase_init. reflexivity. Qed.

Lemma preset_pnextn k t : preset (snd (pnextn k (init t))) = init t.
Proof. rewrite preset_init_erase, pnextn_erase, erase_init. reflexivity. Qed.

Lemma pattern_of_init g : pattern_of g = init (Node g).
Proof. reflexivity. Qed.

(** * Stores *)

Lemma nth_error_upd_same {A} : forall (l : list A) i x, (i < length l)%nat -> nth_error (upd i x l) i = Some x.
Proof.
  induction l as [|y l IH]; intros i x H; simpl in H; [lia|]. destruct i as [|i]; [reflexivity|]. simpl. apply IH. lia.
Qed.

Lemma nth_error_upd_other {A} : forall (l : list A) i j x, i <> j -> nth_error (upd i x l) j = nth_error l j.
Proof.
  induction l as [|y l IH]; intros i j x H; [destruct i; reflexivity|].
  destruct i as [|i], j as [|j]; simpl; try reflexivity; [congruence|]. apply IH. congruence.
Qed.

Lemma upd_length {A} : forall (l : list A) i x, length (upd i x l) = length l.
Proof. induction l as [|y l IH]; intros [|i] x; simpl; try reflexivity. rewrite IH. reflexivity. Qed.

Lemma In_upd {A} : forall (l : list A) i x y, In y (upd i x l) -> y = x \/ In y l.
Proof.
  induction l as [|z l IH]; intros i x y H; [destruct i; destruct H|].
  destruct i as [|i]; simpl in H.
  - destruct H as [<-|H]; [left; reflexivity|right; right; exact H].
  - destruct H as [<-|H]; [right; left; reflexivity|]. destruct (IH i x y H) as [->|H']; [left; reflexivity|right; right; exact H'].
Qed.

(* every object of the store denotes the nested sequence t *)
Definition all_shape (t : tree) (st : list pnode) : Prop := forall p, In p st -> erase p = t.

Lemma pstep_shape t st o : all_shape t st -> all_shape t (snd (pstep st o)).
Proof.
  intros H. destruct o as [i k|i|i m|i]; cbn [pstep]; destruct (nth_error st i) as [p|] eqn:E; try exact H.
  - pose proof (pnextn_erase k p) as Hk. destruct (pnextn k p) as [vs p']. cbn [snd] in *.
    intros q Hq. destruct (In_upd _ _ _ _ Hq) as [->|Hq']; [|apply H; exact Hq'].
    rewrite Hk. apply H. eapply nth_error_In; eauto.
  - cbn [snd]. intros q Hq. destruct (In_upd _ _ _ _ Hq) as [->|Hq']; [|apply H; exact Hq'].
    rewrite preset_erase. apply H. eapply nth_error_In; eauto.
  - unfold pall. pose proof (pnextn_erase m p) as Hk. destruct (pnextn m p) as [vs p']. cbn [snd] in *.
    intros q Hq. destruct (In_upd _ _ _ _ Hq) as [->|Hq']; [|apply H; exact Hq'].
    rewrite preset_erase, Hk. apply H. eapply nth_error_In; eauto.
  - cbn [snd]. intros q Hq. apply in_app_or in Hq as [Hq|[<-|[]]]; [apply H; exact Hq|].
    apply H. eapply nth_error_In; eauto.
Qed.

Lemma prun_shape t : forall ops st, all_shape t st -> all_shape t (snd (prun st ops)).
Proof.
  induction ops as [|o r IH]; intros st H; [exact H|]. cbn [prun].
  pose proof (pstep_shape t st o H) as H1. destruct (pstep st o) as [vs st']. cbn [snd] in H1.
  specialize (IH st' H1). destruct (prun st' r) as [outs st'']. exact IH.
Qed.

Lemma pstep_length_ge st o : (length st <= length (snd (pstep st o)))%nat.
Proof.
  destruct o as [i k|i|i m|i]; cbn [pstep]; destruct (nth_error st i) as [p|]; cbn [snd]; try lia.
  - destruct (pnextn k p) as [vs p']. cbn [snd]. rewrite upd_length. lia.
  - rewrite upd_length. lia.
  - unfold pall. destruct (pnextn m p) as [vs p']. cbn [snd]. rewrite upd_length. lia.
  - rewrite app_length. simpl. lia.
Qed.

(* MAIN: whatever history the store has seen, a reset / all() of an object followed by nextn(n) on it returns what a fresh parse
   returns *)
Lemma rewind_then_next t st i n : all_shape t st -> (i < length st)%nat ->
  fst (pstep (snd (pstep st (OReset i))) (ONext i n)) = fst (pnextn n (init t))
  /\ forall m, fst (pstep (snd (pstep st (OAll i m))) (ONext i n)) = fst (pnextn n (init t)).
Proof.
  intros H Hi. destruct (nth_error st i) as [p|] eqn:E; [|apply nth_error_None in E; lia].
  assert (Hp : erase p = t) by (apply H; eapply nth_error_In; eauto).
  split.
  - cbn [pstep]. rewrite E. cbn [snd]. rewrite nth_error_upd_same by exact Hi.
    rewrite preset_init_erase, Hp. destruct (pnextn n (init t)) as [vs p']. reflexivity.
  - intros m. cbn [pstep]. rewrite E. unfold pall. pose proof (pnextn_erase m p) as Hk.
    destruct (pnextn m p) as [vs p']. cbn [snd] in *. rewrite nth_error_upd_same by exact Hi.
    rewrite preset_init_erase, Hk, Hp. destruct (pnextn n (init t)) as [vs' p'']. reflexivity.
Qed.

(* operations on other objects leave an object alone; a copy starts in the state of its original *)
Lemma pstep_frame st o j : target o <> j -> (j < length st)%nat -> nth_error (snd (pstep st o)) j = nth_error st j.
Proof.
  intros Hne Hj. destruct o as [i k|i|i m|i]; cbn [pstep target] in *; destruct (nth_error st i) as [p|]; try reflexivity.
  - destruct (pnextn k p) as [vs p']. cbn [snd]. apply nth_error_upd_other. exact Hne.
  - cbn [snd]. apply nth_error_upd_other. exact Hne.
  - unfold pall. destruct (pnextn m p) as [vs p']. cbn [snd]. apply nth_error_upd_other. exact Hne.
  - cbn [snd]. apply nth_error_app1. exact Hj.
Qed.

Lemma pstep_copy st i p : nth_error st i = Some p ->
  snd (pstep st (OCopy i)) = st ++ [p] /\ nth_error (snd (pstep st (OCopy i))) (length st) = Some p
  /\ nth_error (snd (pstep st (OCopy i))) i = Some p.
Proof.
  intros E. cbn [pstep]. rewrite E. cbn [snd]. split; [reflexivity|]. split.
  - rewrite nth_error_app2 by lia. rewrite Nat.sub_diag. reflexivity.
  - rewrite nth_error_app1; [exact E|]. apply nth_error_Some. congruence.
Qed.

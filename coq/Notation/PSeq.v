(* Notation/PSeq.v — executable model of PSequence.__next__ (isobar/pattern/sequence.py) restricted to the
   objects parse_notation builds: a tree of PSequence objects (repeats = sys.maxsize, never reached) whose
   leaves are scalars, together with Pattern.value (a nested Pattern is asked for ONE value with next(), a
   scalar is returned as it is) and Pattern.nextn.  No proofs here.

       def __next__(self):
           if len(sequence) == 0 or self.rcount >= repeats: raise StopIteration
           rv = Pattern.value(sequence[self.pos])
           self.pos += 1
           if self.pos >= len(sequence): self.pos = 0; self.rcount += 1
           return rv

   A StopIteration raised by a nested (empty) group leaves through every enclosing __next__ before any `pos`
   is changed, so the state is unchanged: [pnext] returns None. *)
From Isobar Require Import Base.Prelude Notation.Lexer Notation.Parser.
Local Notation length := List.length (only parsing).

Inductive pnode :=
| PLeaf (v : value)
| PSeq (pos : nat) (ch : list pnode).

Fixpoint init (t : tree) : pnode :=
  match t with
  | Leaf v => PLeaf v
  | Node ch => PSeq 0 (map init ch)
  end.

Definition adv (pos len : nat) : nat := if (len <=? S pos)%nat then O else S pos.

(* Pattern.value(p): None = StopIteration *)
Fixpoint pnext (p : pnode) : option (value * pnode) :=
  match p with
  | PLeaf v => Some (v, p)
  | PSeq pos ch =>
      let fix at_ (i : nat) (l : list pnode) {struct l} : option (value * list pnode) :=
        match l with
        | [] => None
        | c :: r =>
            match i with
            | O => match pnext c with Some (v, c') => Some (v, c' :: r) | None => None end
            | S i' => match at_ i' r with Some (v, r') => Some (v, c :: r') | None => None end
            end
        end in
      match at_ pos ch with
      | Some (v, ch') => Some (v, PSeq (adv pos (length ch)) ch')
      | None => None
      end
  end.

(* Pattern.nextn(count): stops collecting at the first StopIteration *)
Fixpoint pnextn (count : nat) (p : pnode) : list value * pnode :=
  match count with
  | O => ([], p)
  | S k =>
      match pnext p with
      | None => ([], p)
      | Some (v, p') => let '(vs, p'') := pnextn k p' in (v :: vs, p'')
      end
  end.

(* the pattern object returned by parse_notation for the top-level list g *)
Definition pattern_of (g : list tree) : pnode := PSeq 0 (map init g).
Definition outputs (count : nat) (g : list tree) : list value := fst (pnextn count (pattern_of g)).

(* the k-th value (k = 0, 1, ...) a pattern state yields, None if it stops before *)
Fixpoint kth (k : nat) (p : pnode) : option value :=
  match pnext p with
  | None => None
  | Some (v, p') => match k with O => Some v | S k' => kth k' p' end
  end.

(* a pattern that never stops: every group, at every depth, is non-empty *)
Fixpoint live (p : pnode) : bool :=
  match p with
  | PLeaf _ => true
  | PSeq pos ch => negb (Nat.eqb (length ch) 0) && (pos <? length ch)%nat && forallb live ch
  end.

(* the state after k values have been taken (unchanged once the pattern has stopped) *)
Fixpoint after (k : nat) (p : pnode) : pnode :=
  match k with
  | O => p
  | S k' => match pnext p with Some (_, p') => after k' p' | None => p end
  end.

(* no group, at any depth, is empty *)
Fixpoint no_empty_group (t : tree) : bool :=
  match t with
  | Leaf _ => true
  | Node ch => negb (Nat.eqb (length ch) 0) && forallb no_empty_group ch
  end.

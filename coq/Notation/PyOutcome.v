(* Notation/PyOutcome.v — the two combinators the translator of parse_notation (harness/gen_tables_notation.py) renders
   exceptions and `while True: ... break` with, over the outcome type of Notation/Parser.v
   (Ok = a value, Reject = ValueError leaves parse_notation, Crash = any other exception leaves it, OutOfFuel). *)
From Isobar Require Import Base.Prelude Notation.Lexer Notation.Parser.

(* the helpers of the model report an IndexError as Reject (the model has the `except IndexError: raise ValueError` of
   parse_notation built in); the translation says what the SOURCE does with it: h = Reject inside such a try block,
   h = Crash outside *)
Definition on_index_error {A} (h : outcome A) (o : outcome A) : outcome A :=
  match o with Reject => h | _ => o end.

Lemma on_index_error_reject {A} (o : outcome A) : on_index_error Reject o = o.
Proof. destruct o; reflexivity. Qed.

(* `while True: body` where the body ends an iteration with (true, state) = go round again, (false, state) = break *)
Fixpoint loop_break {St : Type} (body : St -> outcome (bool * St)) (fuel : nat) (s : St) : outcome St :=
  match fuel with
  | O => OutOfFuel
  | S f => bind (body s) (fun r => if fst r then loop_break body f (snd r) else Ok (snd r))
  end.

Lemma loop_break_ext {St} (b1 b2 : St -> outcome (bool * St)) : (forall s, b1 s = b2 s) ->
  forall f s, loop_break b1 f s = loop_break b2 f s.
Proof.
  intros H. induction f as [|f IH]; intros s; [reflexivity|]. cbn [loop_break]. rewrite H.
  destruct (b2 s) as [[c s']| | |]; cbn [bind fst snd]; try reflexivity. destruct c; [apply IH | reflexivity].
Qed.

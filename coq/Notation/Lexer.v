(* Notation/Lexer.v — executable model of the tokenizer of isobar/notation/notation.py:
   `_parser_get_next_token` (bracket test + the regular expression
        (-?[0-9]+(\.[0-9]+)?|[a-g]#?[0-9])\b        matched with re.match, i.e. anchored at position 0),
   `str.lstrip()` and `_parser_token_to_value`.

   Characters are Unicode code points (Z); a string is a list of code points.  No proofs here.

   What of CPython enters the model:
   * `str.lstrip()` strips exactly the characters for which `str.isspace()` holds: [space_table] (checked against
     the interpreter for every code point by the harness on every run);
   * `\b` in a str pattern is Unicode aware: a word character is an alphanumeric or '_'.  For ASCII this is
     [ascii_word]; for code points >= 128 the classification is environment data and enters as the parameter
     [uword] (a Section variable; every theorem holds for all [uword], those about non-ASCII whitespace under
     the explicit hypothesis that a whitespace character is not a word character);
   * the regular expression engine is a backtracking matcher; [match_number]/[match_note] transcribe the
     order in which it tries the alternatives (see the comments there). *)
From Isobar Require Import Base.Prelude.
Local Notation length := List.length (only parsing).

Definition str := list Z.

Definition in_range (lo hi c : Z) : bool := (lo <=? c) && (c <=? hi).

Definition is_digit (c : Z) : bool := in_range 48 57 c.            (* [0-9] *)
Definition is_note_letter (c : Z) : bool := in_range 97 103 c.     (* [a-g] *)
Definition ch_minus := 45.   (* '-' *)
Definition ch_dot := 46.     (* '.' *)
Definition ch_sharp := 35.   (* '#' *)
Definition ch_open := 91.    (* '[' *)
Definition ch_close := 93.   (* ']' *)

(* \w on ASCII: [A-Za-z0-9_] *)
Definition ascii_word (c : Z) : bool :=
  is_digit c || in_range 65 90 c || in_range 97 122 c || (c =? 95).

(* str.isspace(): the characters removed by lstrip() *)
Definition space_table : list (Z * Z) :=
  [(9, 13); (28, 32); (133, 133); (160, 160); (5760, 5760); (8192, 8202); (8232, 8233);
   (8239, 8239); (8287, 8287); (12288, 12288)].
Definition is_space (c : Z) : bool := existsb (fun r => in_range (fst r) (snd r) c) space_table.

(* string.lstrip() *)
Fixpoint lstrip (s : str) : str :=
  match s with
  | c :: r => if is_space c then lstrip r else s
  | [] => []
  end.

(* the longest prefix of digits, and what follows it: the greedy [0-9]+ (when non-empty) / [0-9]* *)
Fixpoint span_digits (s : str) : str * str :=
  match s with
  | c :: r => if is_digit c then let '(d, r') := span_digits r in (c :: d, r') else ([], s)
  | [] => ([], [])
  end.

Inductive lexres :=
| LexTok (tok rest : str)      (* the token (match.group(1) or the bracket) and string[len(token):] *)
| LexIndexError                (* string[0] on the empty string *)
| LexNoMatch.                  (* re.match returned None: ValueError("Invalid character in notation") *)

Section Lex.
  Variable uword : Z -> bool.   (* is the non-ASCII code point c alphanumeric (Unicode \w)? *)

  Definition is_word (c : Z) : bool := if c <? 128 then ascii_word c else uword c.

  (* \b at a position whose left neighbour is a word character (every atom ends in a digit):
     succeeds at the end of the string or before a non-word character *)
  Definition boundary (rest : str) : bool :=
    match rest with [] => true | c :: _ => negb (is_word c) end.

  (* first alternative, after the optional sign:  [0-9]+(\.[0-9]+)?\b
     The matcher is greedy and backtracks: it first takes all digits d1, then (if a '.' and at least one digit
     follow) all digits d2, and tests \b.  If \b fails it gives digits of d2 back one at a time (the next
     character is then a digit, so \b fails again), then drops the optional group: the position is then just
     before the '.', where \b succeeds ('.' is not a word character).  Without a group it tests \b after d1;
     giving digits of d1 back never helps (a digit follows).  [short] is the match without the group. *)
  Definition match_number (sign s : str) : option (str * str) :=
    let '(d1, r1) := span_digits s in
    match d1 with
    | [] => None
    | _ :: _ =>
        let short := if boundary r1 then Some (sign ++ d1, r1) else None in
        match r1 with
        | c :: r1' =>
            if c =? ch_dot then
              let '(d2, r2) := span_digits r1' in
              match d2 with
              | [] => short
              | _ :: _ => if boundary r2 then Some (sign ++ d1 ++ c :: d2, r2) else short
              end
            else short
        | [] => short
        end
    end.

  (* second alternative:  [a-g]#?[0-9]\b   ('#?' is tried with the '#' first; without it the digit class
     would have to match the '#', so there is nothing to backtrack to) *)
  Definition match_note (s : str) : option (str * str) :=
    match s with
    | c :: x :: r =>
        if is_note_letter c then
          if x =? ch_sharp then
            match r with
            | d :: r2 => if is_digit d && boundary r2 then Some ([c; x; d], r2) else None
            | [] => None
            end
          else if is_digit x && boundary r then Some ([c; x], r) else None
        else None
    | _ => None
    end.

  (* _parser_get_next_token.  The two alternatives of the regular expression start with disjoint
     characters ('-' or a digit / a letter a-g), so trying the first one first is the same as dispatching
     on the first character; a '-' that is not followed by a number matches neither. *)
  Definition next_token (s : str) : lexres :=
    match s with
    | [] => LexIndexError
    | c :: r =>
        if (c =? ch_open) || (c =? ch_close) then LexTok [c] r
        else
          match (if c =? ch_minus then match_number [c] r
                 else if is_digit c then match_number [] s
                 else match_note s) with
          | Some (t, rest) => LexTok t rest
          | None => LexNoMatch
          end
    end.

  (* The scanning part of the loop of parse_notation on its own: token, strip the token, lstrip, stop when the
     string is empty.  Used to state the theorems (the parser itself, Parser.parse_loop, interleaves
     scanning and pushing exactly as the code does). *)
  Inductive scan_end := ScanComplete | ScanError | ScanFuel.
  Fixpoint tokenize (fuel : nat) (s : str) : list str * scan_end :=
    match fuel with
    | O => ([], ScanFuel)
    | S f =>
        match next_token s with
        | LexTok tok rest =>
            match lstrip rest with
            | [] => ([tok], ScanComplete)
            | s' => let '(ts, e) := tokenize f s' in (tok :: ts, e)
            end
        | _ => ([], ScanError)
        end
    end.
  Definition tokens_of (s : str) : list str * scan_end := tokenize (S (length s)) s.
End Lex.

(** * _parser_token_to_value *)

Inductive value :=
| VInt (z : Z)            (* int(token) succeeded *)
| VFloat (text : str)     (* float(token) succeeded; the decimal text is kept, Python's float() converts it *)
| VStr (text : str).      (* the token itself (a note name) *)

Definition all_digits (s : str) : bool :=
  match s with [] => false | _ :: _ => forallb is_digit s end.

(* the tokens on which int() succeeds:  -?[0-9]+  (int() accepts more spellings — '+1', '1_0', ' 1' — but the
   tokenizer never produces them: lemma token_shapes in ParserProofs.v) *)
Definition int_text (s : str) : bool :=
  match s with
  | c :: r => if c =? ch_minus then all_digits r else all_digits s
  | [] => false
  end.
Definition digits_val (s : str) : Z := fold_left (fun acc c => acc * 10 + (c - 48)) s 0.
Definition int_val (s : str) : Z :=
  match s with
  | c :: r => if c =? ch_minus then - digits_val r else digits_val s
  | [] => 0
  end.
(* the tokens on which int() fails and float() succeeds:  -?[0-9]+\.[0-9]+ *)
Definition float_text (s : str) : bool :=
  let body := match s with c :: r => if c =? ch_minus then r else s | [] => [] end in
  let '(d1, r1) := span_digits body in
  match d1, r1 with
  | _ :: _, c :: r2 => (c =? ch_dot) && all_digits r2
  | _, _ => false
  end.
Definition note_text (s : str) : bool :=
  match s with
  | [c; d] => is_note_letter c && is_digit d
  | [c; x; d] => is_note_letter c && (x =? ch_sharp) && is_digit d
  | _ => false
  end.

Definition token_to_value (t : str) : value :=
  if int_text t then VInt (int_val t)
  else if float_text t then VFloat t
  else VStr t.

(** boolean equalities used by the parser and the correspondence terms *)
Definition str_eqb : str -> str -> bool := list_eqb Z.eqb.
Definition value_eqb (a b : value) : bool :=
  match a, b with
  | VInt x, VInt y => x =? y
  | VFloat x, VFloat y => str_eqb x y
  | VStr x, VStr y => str_eqb x y
  | _, _ => false
  end.

(* Notation/Parser.v — executable model of isobar/notation/notation.py `parse_notation` and `_parser_push`
   (the algorithm as written: a depth counter and "descend `depth` times into the last element", not a stack),
   of the str branch of `Pattern.pattern` (isobar/pattern/core.py) and of a formatter (the inverse direction,
   used to state the round trip).  No proofs here.

   Outcomes: [Ok] = a value is returned; [Reject] = ValueError (raised directly, or IndexError converted by the
   `except IndexError` clause of parse_notation); [Crash] = any other exception (would NOT be caught by
   Pattern.pattern); [OutOfFuel] = artefact of the fuel, excluded by theorem C20_total. *)
From Isobar Require Import Base.Prelude Notation.Lexer.
Local Notation length := List.length (only parsing).

Inductive tree :=
| Leaf (v : value)
| Node (ch : list tree).       (* a PSequence; ch is its .sequence *)

Inductive outcome (A : Type) :=
| Ok (a : A)
| Reject
| Crash
| OutOfFuel.
Arguments Ok {A} a.
Arguments Reject {A}.
Arguments Crash {A}.
Arguments OutOfFuel {A}.

Definition bind {A B} (o : outcome A) (f : A -> outcome B) : outcome B :=
  match o with Ok a => f a | Reject => Reject | Crash => Crash | OutOfFuel => OutOfFuel end.

(* l[:-1], l[-1] *)
Fixpoint unsnoc {A} (l : list A) : option (list A * A) :=
  match l with
  | [] => None
  | x :: r => match unsnoc r with
              | None => Some ([], x)
              | Some (i, z) => Some (x :: i, z)
              end
  end.

(* _parser_push(obj, sequence, depth):
       while depth > 0: sequence = sequence[-1]; depth -= 1
       sequence.sequence.append(obj)
   The Python code mutates the innermost PSequence in place; the functional model rebuilds the path to it
   (no PSequence is shared: each '[' creates a fresh one).
   sequence[-1] on an empty .sequence raises IndexError (-> ValueError in parse_notation);
   on an int/float/str it raises TypeError/AttributeError, which nothing catches. *)
Fixpoint push (depth : nat) (obj : tree) (seq : list tree) : outcome (list tree) :=
  match depth with
  | O => Ok (seq ++ [obj])
  | S d =>
      match unsnoc seq with
      | None => Reject
      | Some (init, Node ch) => bind (push d obj ch) (fun ch' => Ok (init ++ [Node ch']))
      | Some (_, Leaf _) => Crash
      end
  end.

Definition state := (list tree * Z)%type.      (* groups.sequence, depth *)

Section Parse.
  Variable uword : Z -> bool.
  (* strict = true: the repaired code (a ']' that takes depth below 0 raises ValueError);
     strict = false: the pinned code, where depth silently goes negative ('1 ] 2' is accepted). *)
  Variable strict : bool.

  (* the body of the loop of parse_notation for one token *)
  Definition step (tok : str) (st : state) : outcome state :=
    let '(g, depth) := st in
    if str_eqb tok [ch_open] then
      bind (push (Z.to_nat depth) (Node []) g) (fun g' => Ok (g', depth + 1))
    else if str_eqb tok [ch_close] then
      if strict && (depth - 1 <? 0) then Reject else Ok (g, depth - 1)
    else
      bind (push (Z.to_nat depth) (Leaf (token_to_value tok)) g) (fun g' => Ok (g', depth)).

  (* while True: token; push/depth; string = string[len(token):].lstrip(); if len(string) == 0: break *)
  Fixpoint parse_loop (fuel : nat) (s : str) (st : state) : outcome state :=
    match fuel with
    | O => OutOfFuel
    | S f =>
        match next_token uword s with
        | LexIndexError => Reject
        | LexNoMatch => Reject
        | LexTok tok rest =>
            bind (step tok st) (fun st' =>
              match lstrip rest with
              | [] => Ok st'
              | s' => parse_loop f s' st'
              end)
        end
    end.

  Definition parse_gen (s : str) : outcome (list tree) :=
    bind (parse_loop (S (length s)) s ([], 0)) (fun st =>
      let '(g, depth) := st in
      if depth >? 0 then Reject else Ok g).

  (* the same loop body run over a list of tokens (used to state and prove the bracket logic) *)
  Fixpoint run_tokens (toks : list str) (st : state) : outcome state :=
    match toks with
    | [] => Ok st
    | t :: r => bind (step t st) (run_tokens r)
    end.
End Parse.

Definition parse (uword : Z -> bool) : str -> outcome (list tree) := parse_gen uword true.
Definition parse_pinned (uword : Z -> bool) : str -> outcome (list tree) := parse_gen uword false.

(** * Pattern.pattern(v) for a str v:
      try: return parse_notation(v)  except ValueError: return PConstant(v) *)
Inductive patternified :=
| PatSeq (g : list tree)     (* the parsed PSequence *)
| PatConst (s : str).        (* PConstant(v) *)
Definition patternify (uword : Z -> bool) (s : str) : outcome patternified :=
  match parse uword s with
  | Ok g => Ok (PatSeq g)
  | Reject => Ok (PatConst s)
  | Crash => Crash
  | OutOfFuel => OutOfFuel
  end.

(** * Token view of a tree and the formatter *)
Inductive tok := TOpen | TClose | TVal (v : value).

Fixpoint flatten_tree (t : tree) : list tok :=
  match t with
  | Leaf v => [TVal v]
  | Node ch => TOpen :: flat_map flatten_tree ch ++ [TClose]
  end.
Definition flatten (g : list tree) : list tok := flat_map flatten_tree g.

(* what the code makes of one token text *)
Definition classify (t : str) : tok :=
  if str_eqb t [ch_open] then TOpen
  else if str_eqb t [ch_close] then TClose
  else TVal (token_to_value t).

(* "%d" *)
Fixpoint show_digits (fuel : nat) (n : Z) : str :=
  match fuel with
  | O => []
  | S f => if n <? 10 then [48 + n] else show_digits f (n / 10) ++ [48 + n mod 10]
  end.
Definition show_nonneg (n : Z) : str := show_digits (S (Z.to_nat (Z.log2 n))) n.
Definition show_int (z : Z) : str := if z <? 0 then ch_minus :: show_nonneg (- z) else show_nonneg z.

Definition value_text (v : value) : str :=
  match v with
  | VInt z => show_int z
  | VFloat t => t
  | VStr t => t
  end.
Definition tok_text (t : tok) : str :=
  match t with TOpen => [ch_open] | TClose => [ch_close] | TVal v => value_text v end.

(* token texts, each followed by its separator (the last separator is trailing whitespace) *)
Fixpoint render (texts : list str) (seps : list str) : str :=
  match texts with
  | [] => []
  | t :: ts => t ++ hd [] seps ++ render ts (tl seps)
  end.
Definition format (seps : list str) (g : list tree) : str := render (map tok_text (flatten g)) seps.

(* the atoms a nested sequence may hold so that it can be written down: any int, a decimal literal
   -?[0-9]+.[0-9]+, a note name [a-g]#?[0-9] *)
Definition wf_value (v : value) : bool :=
  match v with
  | VInt _ => true
  | VFloat t => float_text t
  | VStr t => note_text t
  end.
Fixpoint wf_tree (t : tree) : bool :=
  match t with
  | Leaf v => wf_value v
  | Node ch => forallb wf_tree ch
  end.

(* bracket depth after a token list, None once it has gone negative *)
Fixpoint depth_after (d : Z) (toks : list tok) : option Z :=
  match toks with
  | [] => Some d
  | TOpen :: r => depth_after (d + 1) r
  | TClose :: r => if d - 1 <? 0 then None else depth_after (d - 1) r
  | TVal _ :: r => depth_after d r
  end.
Definition balanced (toks : list tok) : bool :=
  match depth_after 0 toks with Some 0 => true | _ => false end.

(* the same on the characters of a string: '[' opens, ']' closes, everything else is ignored *)
Fixpoint char_depth (d : Z) (s : str) : option Z :=
  match s with
  | [] => Some d
  | c :: r =>
      if c =? ch_open then char_depth (d + 1) r
      else if c =? ch_close then (if d - 1 <? 0 then None else char_depth (d - 1) r)
      else char_depth d r
  end.
Definition brackets_balanced (s : str) : bool :=
  match char_depth 0 s with Some 0 => true | _ => false end.

(* the characters tokens are made of *)
Definition atom_char (c : Z) : bool :=
  is_digit c || is_note_letter c || (c =? ch_sharp) || (c =? ch_minus) || (c =? ch_dot).
Definition token_char (c : Z) : bool := atom_char c || (c =? ch_open) || (c =? ch_close).

(** * Whitespace between the tokens of a formatted sequence *)
Definition is_bracket_text (t : str) : bool := str_eqb t [ch_open] || str_eqb t [ch_close].
(* two tokens may touch when one of them is a bracket or the second starts with a minus sign *)
Definition may_touch (t t' : str) : bool :=
  is_bracket_text t ||
  match t' with c :: _ => (c =? ch_open) || (c =? ch_close) || (c =? ch_minus) | [] => false end.
Fixpoint seps_ok (texts seps : list str) : bool :=
  match texts with
  | [] => true
  | t :: ts =>
      let sep := hd [] seps in
      forallb is_space sep
      && match sep, ts with [], t' :: _ => may_touch t t' | _, _ => true end
      && seps_ok ts (tl seps)
  end.

(* \w and whitespace are disjoint (true of Unicode; for ASCII it is computed, for the rest it is a
   hypothesis on the environment parameter) *)
Definition space_not_word (uw : Z -> bool) : Prop := forall c, 128 <= c -> is_space c = true -> uw c = false.


(** boolean equality of trees (for the correspondence terms) *)
Fixpoint tree_eqb (a b : tree) : bool :=
  match a, b with
  | Leaf x, Leaf y => value_eqb x y
  | Node xs, Node ys =>
      (fix go (l1 l2 : list tree) : bool :=
         match l1, l2 with
         | [], [] => true
         | x :: r1, y :: r2 => tree_eqb x y && go r1 r2
         | _, _ => false
         end) xs ys
  | _, _ => false
  end.
